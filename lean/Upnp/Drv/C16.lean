/-
  Driver for C16: replays the harness' operation lines through the CIDict model,
  compares the implementation's observations with the model's (correspondence) and
  judges the implementation's observations against the abstract map (`C16.obsOk`).

  Object identity: the harness' registers are Python variables; the model's registers
  (`stepM`'s `Nat → CIDict`) are *objects* (pairs of dicts).  `handle` maps a variable to the
  object it currently denotes.  Every operation that creates a header map (constructors, copy,
  combine, combine_lower_dict) or rebinds a map's two dicts (`replace(plain mapping)`) allocates a
  fresh object; `replace(other_header_map)` makes the variable denote the OTHER map's object —
  exactly the sharing the code implements ("without making a copy if possible") — and in-place
  mutations act on the object, so they are seen through every variable that denotes it.
  Values are Python ints or `None` (`Option Int`, token `N`).
-/
import Upnp.Proto
import Upnp.Model.CIDict
import Upnp.Spec.C16
import Upnp.Model.C16Ops
import Upnp.Model.C16Heap
namespace Upnp.Drv.C16
open Upnp Upnp.Proto Upnp.C16 PyDict

abbrev K := String
abbrev V := Option Int
def lower (k : K) : K := k.toLower

/-- number of objects a case may allocate (functions `Nat → α` are tabulated after every step:
    a function-valued result would otherwise be re-evaluated on every lookup) -/
def nCells : Nat := 64
def nVars : Nat := 8

structure St where
  ma : Array (CIDict K V) := Array.replicate nCells CIDict.empty
  sa : Array (SMap K V) := Array.replicate nCells []
  /-- second admissible reading, per VARIABLE: `replace(other)` takes a private copy (the text says
      nothing about `replace`; sharing and copying both satisfy it) -/
  sv : Array (SMap K V) := Array.replicate nVars []
  handle : Array Nat := Array.replicate nVars 0
  next : Nat := 1
  probes : List K := []
  corrOk : Bool := true
  judgeOk : Bool := true
  notes  : List String := []
  lastRes : String := "ok"     -- model's result token for the last op
  lastSpecRes : String := "ok" -- spec's result token for the last op (sharing reading)
  lastSpecResV : String := "ok" -- spec's result token for the last op (copying reading)
  pendingPop : Option Nat := none  -- variable of a `popitem` whose result (reported by `res`) the spec has yet to apply

def St.m (st : St) : Nat → CIDict K V := fun i => st.ma.getD i CIDict.empty
def St.s (st : St) : Nat → SMap K V := fun i => st.sa.getD i []
def St.h (st : St) (r : Nat) : Nat := st.handle.getD r 0
def St.v (st : St) : Nat → SMap K V := fun i => st.sv.getD i []
def tabulateV {α : Type} (f : Nat → α) : Array α := (Array.range nVars).map f

def parseV (s : String) : Option V := if s = "N" then some none else s.toInt?.map some
def fmtV : V → String
  | none => "N"
  | some i => toString i

def parsePairs (s : String) : List (K × V) :=
  (commaList s).filterMap fun t =>
    let (a, b) := splitEq t
    (parseV b).map fun v => (a, v)

/-- the same line read on variables, with `replace(other)` as a copy -/
def parseOpV (toks : List String) : Option (Op K V) :=
  match toks with
  | ["new", r, "dict", ps] => some (.newDict r.toNat! (parsePairs ps))
  | ["new", r, "ci", a] => some (.newCI r.toNat! a.toNat!)
  | ["set", r, k, v] => (parseV v).map fun v => .set r.toNat! k v
  | ["del", r, k] => some (.del r.toNat! k)
  | ["dell", r, lk] => some (.delLower r.toNat! lk)
  | ["copy", r, a] => some (.copy r.toNat! a.toNat!)
  | ["combine", r, a, b] => some (.combine r.toNat! a.toNat! b.toNat!)
  | ["combl", r, a, ps] => some (.combineLower r.toNat! a.toNat! (parsePairs ps))
  | ["repl", r, ps] => some (.replaceDict r.toNat! (parsePairs ps))
  | ["replci", r, a] => some (.copy r.toNat! a.toNat!)
  | _ => none
def tabulate {α : Type} (f : Nat → α) : Array α := (Array.range nCells).map f

def fmtPairs (l : List (K × V)) : String :=
  if l.isEmpty then "~" else ",".intercalate (l.map fun p => s!"{p.1}:{fmtV p.2}")
def fmtKK (l : List (K × K)) : String :=
  if l.isEmpty then "~" else ",".intercalate (l.map fun p => s!"{p.1}:{p.2}")
def fmtOpt (l : List (K × Option V)) : String :=
  if l.isEmpty then "~" else ",".intercalate (l.map fun p => match p.2 with
    | some v => s!"{p.1}:{fmtV v}" | none => s!"{p.1}:!")
def fmtBools (l : List (K × Bool)) : String :=
  if l.isEmpty then "~" else ",".intercalate (l.map fun p => s!"{p.1}:{if p.2 then "T" else "F"}")
def fmtKeys (l : List K) : String := if l.isEmpty then "~" else ",".intercalate l

def fmtObs (o : Obs K V) : String :=
  s!"len={o.len} iter={fmtKeys o.iter} get={fmtOpt o.gets} getl={fmtOpt o.getLow} in={fmtBools o.member} lower={fmtPairs o.lowered} data={fmtPairs o.data} cmap={fmtKK o.cmap}"

/-- the inherited `Mapping` API, defined (as `collections.abc` defines it) through `__getitem__` and
    `__iter__`: `get(k, default)`, `keys()`, `items()`, `values()` -/
def fmtMixins (probes : List K) (d : CIDict K V) : String :=
  let items := mixinItems lower d
  let mem := fmtBools (probes.map fun k => (k, CIDict.contains' lower d k))
  s!"mget={fmtOpt (probes.map fun k => (k, CIDict.getitem lower d k))} keys={fmtKeys (CIDict.iter d)} items={fmtPairs items} values={if items.isEmpty then "~" else ",".intercalate (items.map fun p => fmtV p.2)} kin={mem} iin={mem}"

def parseOpt (s : String) : List (K × Option V) :=
  if s = "~" then [] else (s.splitOn ",").map fun t =>
    match t.splitOn ":" with
    | [a, b] => (a, parseV b)
    | _ => (t, none)
def parsePairsC (s : String) : List (K × V) :=
  if s = "~" then [] else (s.splitOn ",").filterMap fun t =>
    match t.splitOn ":" with
    | [a, b] => (parseV b).map fun v => (a, v)
    | _ => none
def parseKK (s : String) : List (K × K) :=
  if s = "~" then [] else (s.splitOn ",").filterMap fun t =>
    match t.splitOn ":" with
    | [a, b] => some (a, b)
    | _ => none
def parseBools (s : String) : List (K × Bool) :=
  if s = "~" then [] else (s.splitOn ",").filterMap fun t =>
    match t.splitOn ":" with
    | [a, b] => some (a, b == "T")
    | _ => none

def parseObs (toks : List String) : Option (Obs K V) := do
  let kv := toks.map splitEq
  let f (n : String) : Option String := (kv.find? (·.1 = n)).map (·.2)
  let len ← (← f "len").toNat?
  let iter ← f "iter"
  pure { len := len
         iter := if iter = "~" then [] else iter.splitOn ","
         gets := parseOpt (← f "get")
         getLow := parseOpt (← f "getl")
         member := parseBools (← f "in")
         lowered := parsePairsC (← f "lower")
         data := parsePairsC (← f "data")
         cmap := parseKK (← f "cmap") }

/-- the `Mapping`-mixin part of an observation line, as a second observation of the same shape
    (`get` ↦ gets, `keys` ↦ iter, `items` ↦ data) so that the same judge `obsOk` applies to it -/
def parseMixins (o : Obs K V) (toks : List String) : Option (Obs K V × List String × List (K × Bool) × List (K × Bool)) := do
  let kv := toks.map splitEq
  let f (n : String) : Option String := (kv.find? (·.1 = n)).map (·.2)
  let keys ← f "keys"
  let items := parsePairsC (← f "items")
  let values ← f "values"
  pure ({ o with gets := parseOpt (← f "mget"), iter := if keys = "~" then [] else keys.splitOn ",", data := items },
        if values = "~" then [] else values.splitOn ",", parseBools (← f "kin"), parseBools (← f "iin"))

def note (st : St) (s : String) : St := { st with notes := st.notes ++ [s] }

def runM (ma : Array (CIDict K V)) (ops : List (Op K V)) : Array (CIDict K V) :=
  ops.foldl (fun acc op => tabulate (stepM lower (fun i => acc.getD i CIDict.empty) op)) ma
def runS (sa : Array (SMap K V)) (ops : List (Op K V)) : Array (SMap K V) :=
  ops.foldl (fun acc op => tabulate (stepS lower (fun i => acc.getD i []) op)) sa
def runSV (sv : Array (SMap K V)) (ops : List (Op K V)) : Array (SMap K V) :=
  ops.foldl (fun acc op => tabulateV (stepS lower (fun i => acc.getD i []) op)) sv

/-- a line on variables as an operation of the object-level machine (`Model/C16Heap.lean`) -/
def parseH (toks : List String) : Option (HOp K V) :=
  match toks with
  | ["new", r, "dict", ps] => some (.newDict r.toNat! (parsePairs ps))
  | ["new", r, "ci", a] => some (.newCI r.toNat! a.toNat!)
  | ["set", r, k, v] => (parseV v).map fun v => .set r.toNat! k v
  | ["del", r, k] => some (.del r.toNat! k)
  | ["dell", r, lk] => some (.delLower r.toNat! lk)
  | ["copy", r, a] => some (.copy r.toNat! a.toNat!)
  | ["combine", r, a, b] => some (.combine r.toNat! a.toNat! b.toNat!)
  | ["combl", r, a, ps] => some (.combineLower r.toNat! a.toNat! (parsePairs ps))
  | ["repl", r, ps] => some (.replaceDict r.toNat! (parsePairs ps))
  | ["replci", r, a] => some (.replaceCI r.toNat! a.toNat!)
  | _ => none

/-- the cell-level operation whose `KeyError` decides the result token -/
def raiseOp (st : St) : HOp K V → Option (Op K V)
  | .del v k => some (.del (st.h v) k)
  | .delLower v lk => some (.delLower (st.h v) lk)
  | _ => none

def stepOp (st : St) (toks : List String) : St :=
  match toks with
  | ["probe", ks] => { st with probes := commaList ks }
  | ["eq", a, b] =>
      { st with lastRes := if CIDict.eqCI lower (st.m (st.h a.toNat!)) (st.m (st.h b.toNat!)) then "T" else "F",
                lastSpecRes := if smapEq (st.s (st.h a.toNat!)) (st.s (st.h b.toNat!)) then "T" else "F",
                lastSpecResV := if smapEq (st.v a.toNat!) (st.v b.toNat!) then "T" else "F" }
  | ["eqd", a, ps] =>
      let l := PyDict.ofList (parsePairs ps)
      { st with lastRes := if CIDict.eqDict lower (st.m (st.h a.toNat!)) l then "T" else "F",
                lastSpecRes := if smapEq (st.s (st.h a.toNat!)) (SMap.writeAll lower [] l) then "T" else "F",
                lastSpecResV := if smapEq (st.v a.toNat!) (SMap.writeAll lower [] l) then "T" else "F" }
  | ["ne", a, b] =>
      { st with lastRes := if CIDict.eqCI lower (st.m (st.h a.toNat!)) (st.m (st.h b.toNat!)) then "F" else "T",
                lastSpecRes := if smapEq (st.s (st.h a.toNat!)) (st.s (st.h b.toNat!)) then "F" else "T",
                lastSpecResV := if smapEq (st.v a.toNat!) (st.v b.toNat!) then "F" else "T" }
  | ["pop", r, k] =>
      -- MutableMapping.pop (`popM` / `popS`, theorem `pop_spec`)
      let c := st.h r.toNat!
      let tok (o : Option V) : String := match o with | some v => fmtV v | none => "KeyError"
      let (rm, dm) := popM lower (st.m c) k
      let (rs, ds) := popS lower (st.s c) k
      let (rv, dv) := popS lower (st.v r.toNat!) k
      { st with ma := st.ma.setIfInBounds c dm, sa := st.sa.setIfInBounds c ds, sv := st.sv.setIfInBounds r.toNat! dv,
                lastRes := tok rm, lastSpecRes := tok rs, lastSpecResV := tok rv }
  | ["setdefault", r, k, v] =>
      -- MutableMapping.setdefault (`setdefaultM` / `setdefaultS`, theorem `setdefault_spec`)
      (match parseV v with
       | none => note { st with corrOk := false } "bad value"
       | some v =>
         let c := st.h r.toNat!
         let (rm, dm) := setdefaultM lower (st.m c) k v
         let (rs, ds) := setdefaultS lower (st.s c) k v
         let (rv, dv) := setdefaultS lower (st.v r.toNat!) k v
         { st with ma := st.ma.setIfInBounds c dm, sa := st.sa.setIfInBounds c ds, sv := st.sv.setIfInBounds r.toNat! dv,
                   lastRes := fmtV rm, lastSpecRes := fmtV rs, lastSpecResV := fmtV rv })
  | ["update", r, ps] =>
      -- MutableMapping.update(mapping) (`updateM` / `updateS`, theorem `update_spec`)
      let c := st.h r.toNat!
      let l := PyDict.ofList (parsePairs ps)
      { st with ma := st.ma.setIfInBounds c (updateM lower (st.m c) l), sa := st.sa.setIfInBounds c (updateS lower (st.s c) l),
                sv := st.sv.setIfInBounds r.toNat! (updateS lower (st.v r.toNat!) l),
                lastRes := "ok", lastSpecRes := "ok", lastSpecResV := "ok" }
  | ["clear", r] =>
      -- MutableMapping.clear: popitem until empty
      let c := st.h r.toNat!
      { st with ma := runM st.ma ((CIDict.iter (st.m c)).map fun k => .del c k),
                sa := runS st.sa ((st.s c).map fun p => .delLower c p.1),
                sv := runSV st.sv ((st.v r.toNat!).map fun p => .delLower r.toNat! p.1),
                lastRes := "ok", lastSpecRes := "ok", lastSpecResV := "ok" }
  | ["popitem", r] =>
      -- MutableMapping.popitem: `key = next(iter(self))` (KeyError when empty); `value = self[key]`; `del self[key]`.
      -- Which entry comes first is not fixed by the abstract map: the spec applies the entry the
      -- implementation reports (checked to be a current entry) when the `res` line arrives.
      let c := st.h r.toNat!
      (match CIDict.iter (st.m c) with
       | [] => { st with lastRes := "KeyError", pendingPop := some r.toNat! }
       | k :: _ =>
         { st with ma := runM st.ma [.del c k], pendingPop := some r.toNat!,
                   lastRes := s!"{k}:{match CIDict.getitem lower (st.m c) k with | some v => fmtV v | none => "?"}" })
  | ["src"] =>
      -- plain mappings handed to a constructor / replace / update / combine_lower_dict are the caller's
      -- values: in the model (and in the abstract map) no operation writes to them
      { st with lastRes := "same", lastSpecRes := "same", lastSpecResV := "same" }
  | ["nop"] =>
      -- the caller changed one of its own mappings: no register changes
      { st with lastRes := "ok", lastSpecRes := "ok", lastSpecResV := "ok" }
  | "res" :: [t] =>
      (match st.pendingPop with
       | some r =>
         let c := st.h r
         let st := { st with pendingPop := none }
         let st := if t = st.lastRes then st
                   else note { st with corrOk := false } s!"res impl={t} model={st.lastRes}"
         if t = "KeyError" then
           if (st.s c).isEmpty || (st.v r).isEmpty then st
           else note { st with judgeOk := false } "popitem raised KeyError on a non-empty map"
         else
           (match t.splitOn ":" with
            | [k, v] =>
              (match parseV v with
               | some v =>
                 let okS := get? (st.s c) (lower k) == some (k, v)
                 let okV := get? (st.v r) (lower k) == some (k, v)
                 let st := { st with sa := runS st.sa [.del c k], sv := runSV st.sv [.del r k] }
                 if okS || okV then st
                 else note { st with judgeOk := false } s!"popitem returned {t}, not a current entry"
               | none => note { st with judgeOk := false } s!"popitem result {t}")
            | _ => note { st with judgeOk := false } s!"popitem result {t}")
       | none =>
         let st := if t = st.lastRes then st
                   else note { st with corrOk := false } s!"res impl={t} model={st.lastRes}"
         if t = st.lastSpecRes || t = st.lastSpecResV then st
         else note { st with judgeOk := false } s!"res impl={t} spec={st.lastSpecRes}|{st.lastSpecResV}")
  | "obs" :: r :: rest =>
      let d := st.m (st.h r.toNat!)
      let sm := st.s (st.h r.toNat!)
      let mo := fmtObs (observe lower st.probes d) ++ " " ++ fmtMixins st.probes d
      let io := " ".intercalate rest
      let st := if mo = io then st
                else note { st with corrOk := false } s!"obs r{r} impl[{io}] model[{mo}]"
      (match parseObs rest with
       | some o =>
           let okFor (m : SMap K V) : Bool :=
             obsOk lower m o &&
             (match parseMixins o rest with
              | some (o2, values, kin, iin) =>
                  obsOk lower m o2 && o2.iter == o.iter && values == o2.data.map (fun p => fmtV p.2)
                  -- membership in keys() / items() views agrees with membership in the map (judged above)
                  && kin == o.member && iin == o.member
              | none => false)
           if okFor sm || okFor (st.v r.toNat!) then st
                   else note { st with judgeOk := false } s!"judge r{r} impl[{io}] spec[{fmtKK (sm.map fun p => (p.1, p.2.1))}|{fmtPairs (sm.map fun p => (p.1, p.2.2))}]"
       | none => note { st with judgeOk := false } s!"unparsable obs r{r}")
  | _ =>
    -- the copying reading, on variables
    let (sv', resV) := match parseOpV toks with
      | some opv => (tabulateV (stepS lower st.v opv), if raisesS lower st.v opv then "KeyError" else "ok")
      | none => (st.sv, "ok")
    match parseH toks with
    | some hop =>
        -- the object-level machine of the theorems (`c16_object_history`, `copy_independent`), run on the
        -- model and on the abstract map under one handle table; results are tabulated (see `nCells`)
        let hm := hstep (stepM lower) ⟨st.m, st.h, st.next⟩ hop
        let hs := hstep (stepS lower) ⟨st.s, st.h, st.next⟩ hop
        if hm.next > nCells then note { st with corrOk := false } "too many objects in one case" else
        let (rm, rs) := match raiseOp st hop with
          | some op => (raisesM lower st.m op, raisesS lower st.s op)
          | none => (false, false)
        { st with ma := tabulate hm.cells, sa := tabulate hs.cells, sv := sv',
                  handle := tabulateV hm.handle, next := hm.next,
                  lastRes := if rm then "KeyError" else "ok",
                  lastSpecRes := if rs then "KeyError" else "ok", lastSpecResV := resV }
    | none => note { st with corrOk := false } s!"bad-op {" ".intercalate toks}"

def main : IO UInt32 := do
  let lines ← readLines (← IO.getStdin)
  let out ← IO.getStdout
  let mut st : St := {}
  let mut cur := ""
  let mut n := 0
  for line in lines do
    let toks := tokens line
    match toks with
    | ["case", id] => cur := id; st := {}
    | ["end"] =>
        n := n + 1
        out.putStrLn s!"case {cur} corr={if st.corrOk then "ok" else "MISMATCH"} judge={if st.judgeOk then "ok" else "FAIL"} {" ; ".intercalate (st.notes.take 3)}"
    | [] => pure ()
    | _ => st := stepOp st toks
  out.putStrLn s!"done {n}"
  return 0

end Upnp.Drv.C16
