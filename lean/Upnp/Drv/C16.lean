/-
  Driver for C16: replays the harness' operation lines through the CIDict model,
  compares the implementation's observations with the model's (correspondence) and
  judges the implementation's observations against the abstract map (`C16.obsOk`).

  Object identity: the harness' registers are Python variables; the model's registers
  (`stepM`'s `Nat → CIDict`) are *objects* (pairs of dicts).  `handle` maps a variable to the
  object it currently denotes.  Every operation that creates a header map (constructors, copy,
  combine, combine_lower_dict) or rebinds a map's two dicts (`replace(plain mapping)`) allocates a
  fresh object; `replace(other_header_map)` makes the variable denote the OTHER map's object —
  exactly the sharing the code implements ("without making a copy if possible") — and in-place
  mutations act on the object, so they are seen through every variable that denotes it.
  Values are Python ints or `None` (`Option Int`, token `N`).
-/
import Upnp.Proto
import Upnp.Model.CIDict
import Upnp.Spec.C16
import Upnp.Model.C16Ops
namespace Upnp.Drv.C16
open Upnp Upnp.Proto Upnp.C16 PyDict

abbrev K := String
abbrev V := Option Int
def lower (k : K) : K := k.toLower

/-- number of objects a case may allocate (functions `Nat → α` are tabulated after every step:
    a function-valued result would otherwise be re-evaluated on every lookup) -/
def nCells : Nat := 64
def nVars : Nat := 8

structure St where
  ma : Array (CIDict K V) := Array.replicate nCells CIDict.empty
  sa : Array (SMap K V) := Array.replicate nCells []
  handle : Array Nat := Array.replicate nVars 0
  next : Nat := 1
  probes : List K := []
  corrOk : Bool := true
  judgeOk : Bool := true
  notes  : List String := []
  lastRes : String := "ok"     -- model's result token for the last op
  lastSpecRes : String := "ok" -- spec's result token for the last op

def St.m (st : St) : Nat → CIDict K V := fun i => st.ma.getD i CIDict.empty
def St.s (st : St) : Nat → SMap K V := fun i => st.sa.getD i []
def St.h (st : St) (r : Nat) : Nat := st.handle.getD r 0
def tabulate {α : Type} (f : Nat → α) : Array α := (Array.range nCells).map f

def parseV (s : String) : Option V := if s = "N" then some none else s.toInt?.map some
def fmtV : V → String
  | none => "N"
  | some i => toString i

def parsePairs (s : String) : List (K × V) :=
  (commaList s).filterMap fun t =>
    let (a, b) := splitEq t
    (parseV b).map fun v => (a, v)

def fmtPairs (l : List (K × V)) : String :=
  if l.isEmpty then "~" else ",".intercalate (l.map fun p => s!"{p.1}:{fmtV p.2}")
def fmtKK (l : List (K × K)) : String :=
  if l.isEmpty then "~" else ",".intercalate (l.map fun p => s!"{p.1}:{p.2}")
def fmtOpt (l : List (K × Option V)) : String :=
  if l.isEmpty then "~" else ",".intercalate (l.map fun p => match p.2 with
    | some v => s!"{p.1}:{fmtV v}" | none => s!"{p.1}:!")
def fmtBools (l : List (K × Bool)) : String :=
  if l.isEmpty then "~" else ",".intercalate (l.map fun p => s!"{p.1}:{if p.2 then "T" else "F"}")
def fmtKeys (l : List K) : String := if l.isEmpty then "~" else ",".intercalate l

def fmtObs (o : Obs K V) : String :=
  s!"len={o.len} iter={fmtKeys o.iter} get={fmtOpt o.gets} getl={fmtOpt o.getLow} in={fmtBools o.member} lower={fmtPairs o.lowered} data={fmtPairs o.data} cmap={fmtKK o.cmap}"

def parseOpt (s : String) : List (K × Option V) :=
  if s = "~" then [] else (s.splitOn ",").map fun t =>
    match t.splitOn ":" with
    | [a, b] => (a, parseV b)
    | _ => (t, none)
def parsePairsC (s : String) : List (K × V) :=
  if s = "~" then [] else (s.splitOn ",").filterMap fun t =>
    match t.splitOn ":" with
    | [a, b] => (parseV b).map fun v => (a, v)
    | _ => none
def parseKK (s : String) : List (K × K) :=
  if s = "~" then [] else (s.splitOn ",").filterMap fun t =>
    match t.splitOn ":" with
    | [a, b] => some (a, b)
    | _ => none
def parseBools (s : String) : List (K × Bool) :=
  if s = "~" then [] else (s.splitOn ",").filterMap fun t =>
    match t.splitOn ":" with
    | [a, b] => some (a, b == "T")
    | _ => none

def parseObs (toks : List String) : Option (Obs K V) := do
  let kv := toks.map splitEq
  let f (n : String) : Option String := (kv.find? (·.1 = n)).map (·.2)
  let len ← (← f "len").toNat?
  let iter ← f "iter"
  pure { len := len
         iter := if iter = "~" then [] else iter.splitOn ","
         gets := parseOpt (← f "get")
         getLow := parseOpt (← f "getl")
         member := parseBools (← f "in")
         lowered := parsePairsC (← f "lower")
         data := parsePairsC (← f "data")
         cmap := parseKK (← f "cmap") }

def note (st : St) (s : String) : St := { st with notes := st.notes ++ [s] }

/-- allocate a fresh object for variable `r` -/
def fresh (st : St) (r : Nat) : St × Nat :=
  ({ st with handle := st.handle.setIfInBounds r st.next, next := st.next + 1 }, st.next)

/-- translate a line on variables into an operation on objects (allocating where Python does) -/
def parseOp (st : St) (toks : List String) : Option (St × Option (Op K V)) :=
  match toks with
  | ["new", r, "dict", ps] => let (st', c) := fresh st r.toNat!; some (st', some (.newDict c (parsePairs ps)))
  | ["new", r, "ci", a] => let src := st.h a.toNat!; let (st', c) := fresh st r.toNat!; some (st', some (.newCI c src))
  | ["set", r, k, v] => (parseV v).map fun v => (st, some (.set (st.h r.toNat!) k v))
  | ["del", r, k] => some (st, some (.del (st.h r.toNat!) k))
  | ["dell", r, lk] => some (st, some (.delLower (st.h r.toNat!) lk))
  | ["copy", r, a] => let src := st.h a.toNat!; let (st', c) := fresh st r.toNat!; some (st', some (.copy c src))
  | ["combine", r, a, b] =>
      let x := st.h a.toNat!; let y := st.h b.toNat!
      let (st', c) := fresh st r.toNat!; some (st', some (.combine c x y))
  | ["combl", r, a, ps] => let src := st.h a.toNat!; let (st', c) := fresh st r.toNat!; some (st', some (.combineLower c src (parsePairs ps)))
  | ["repl", r, ps] => let (st', c) := fresh st r.toNat!; some (st', some (.replaceDict c (parsePairs ps)))
  | ["replci", r, a] =>
      -- `r.replace(a)`: r's two dicts ARE a's from now on (no model operation: same object)
      some ({ st with handle := st.handle.setIfInBounds r.toNat! (st.h a.toNat!) }, none)
  | _ => none

def stepOp (st : St) (toks : List String) : St :=
  match toks with
  | ["probe", ks] => { st with probes := commaList ks }
  | ["eq", a, b] =>
      { st with lastRes := if CIDict.eqCI lower (st.m (st.h a.toNat!)) (st.m (st.h b.toNat!)) then "T" else "F",
                lastSpecRes := if smapEq (st.s (st.h a.toNat!)) (st.s (st.h b.toNat!)) then "T" else "F" }
  | ["eqd", a, ps] =>
      let l := PyDict.ofList (parsePairs ps)
      { st with lastRes := if CIDict.eqDict lower (st.m (st.h a.toNat!)) l then "T" else "F",
                lastSpecRes := if smapEq (st.s (st.h a.toNat!)) (SMap.writeAll lower [] l) then "T" else "F" }
  | "res" :: [t] =>
      let st := if t = st.lastRes then st
                else note { st with corrOk := false } s!"res impl={t} model={st.lastRes}"
      if t = st.lastSpecRes then st
      else note { st with judgeOk := false } s!"res impl={t} spec={st.lastSpecRes}"
  | "obs" :: r :: rest =>
      let d := st.m (st.h r.toNat!)
      let sm := st.s (st.h r.toNat!)
      let mo := fmtObs (observe lower st.probes d)
      let io := " ".intercalate rest
      let st := if mo = io then st
                else note { st with corrOk := false } s!"obs r{r} impl[{io}] model[{mo}]"
      (match parseObs rest with
       | some o => if obsOk lower sm o then st
                   else note { st with judgeOk := false } s!"judge r{r} impl[{io}] spec[{fmtKK (sm.map fun p => (p.1, p.2.1))}|{fmtPairs (sm.map fun p => (p.1, p.2.2))}]"
       | none => note { st with judgeOk := false } s!"unparsable obs r{r}")
  | _ =>
    match parseOp st toks with
    | some (st', some op) =>
        if st'.next > nCells then note { st with corrOk := false } "too many objects in one case" else
        { st' with ma := tabulate (stepM lower st.m op), sa := tabulate (stepS lower st.s op),
                   lastRes := if raisesM lower st.m op then "KeyError" else "ok",
                   lastSpecRes := if raisesS lower st.s op then "KeyError" else "ok" }
    | some (st', none) => { st' with lastRes := "ok", lastSpecRes := "ok" }
    | none => note { st with corrOk := false } s!"bad-op {" ".intercalate toks}"

def main : IO UInt32 := do
  let lines ← readLines (← IO.getStdin)
  let out ← IO.getStdout
  let mut st : St := {}
  let mut cur := ""
  let mut n := 0
  for line in lines do
    let toks := tokens line
    match toks with
    | ["case", id] => cur := id; st := {}
    | ["end"] =>
        n := n + 1
        out.putStrLn s!"case {cur} corr={if st.corrOk then "ok" else "MISMATCH"} judge={if st.judgeOk then "ok" else "FAIL"} {" ; ".intercalate (st.notes.take 3)}"
    | [] => pure ()
    | _ => st := stepOp st toks
  out.putStrLn s!"done {n}"
  return 0

end Upnp.Drv.C16
