/-
  Driver for C16: replays the harness' operation lines through the CIDict model,
  compares the implementation's observations with the model's (correspondence) and
  judges the implementation's observations against the abstract map (`C16.obsOk`).

  Object identity: the harness' registers are Python variables; the model's registers
  (`stepM`'s `Nat → CIDict`) are *objects* (pairs of dicts).  `handle` maps a variable to the
  object it currently denotes.  Every operation that creates a header map (constructors, copy,
  combine, combine_lower_dict) or rebinds a map's two dicts (`replace(plain mapping)`) allocates a
  fresh object; `replace(other_header_map)` makes the variable denote the OTHER map's object —
  exactly the sharing the code implements ("without making a copy if possible") — and in-place
  mutations act on the object, so they are seen through every variable that denotes it.
  Values are Python ints or `None` (`Option Int`, token `N`).
-/
import Upnp.Proto
import Upnp.Model.CIDict
import Upnp.Spec.C16
import Upnp.Model.C16Ops
namespace Upnp.Drv.C16
open Upnp Upnp.Proto Upnp.C16 PyDict

abbrev K := String
abbrev V := Option Int
def lower (k : K) : K := k.toLower

/-- number of objects a case may allocate (functions `Nat → α` are tabulated after every step:
    a function-valued result would otherwise be re-evaluated on every lookup) -/
def nCells : Nat := 64
def nVars : Nat := 8

structure St where
  ma : Array (CIDict K V) := Array.replicate nCells CIDict.empty
  sa : Array (SMap K V) := Array.replicate nCells []
  /-- second admissible reading, per VARIABLE: `replace(other)` takes a private copy (the text says
      nothing about `replace`; sharing and copying both satisfy it) -/
  sv : Array (SMap K V) := Array.replicate nVars []
  handle : Array Nat := Array.replicate nVars 0
  next : Nat := 1
  probes : List K := []
  corrOk : Bool := true
  judgeOk : Bool := true
  notes  : List String := []
  lastRes : String := "ok"     -- model's result token for the last op
  lastSpecRes : String := "ok" -- spec's result token for the last op (sharing reading)
  lastSpecResV : String := "ok" -- spec's result token for the last op (copying reading)
  pendingPop : Option Nat := none  -- variable of a `popitem` whose result (reported by `res`) the spec has yet to apply

def St.m (st : St) : Nat → CIDict K V := fun i => st.ma.getD i CIDict.empty
def St.s (st : St) : Nat → SMap K V := fun i => st.sa.getD i []
def St.h (st : St) (r : Nat) : Nat := st.handle.getD r 0
def St.v (st : St) : Nat → SMap K V := fun i => st.sv.getD i []
def tabulateV {α : Type} (f : Nat → α) : Array α := (Array.range nVars).map f

def parseV (s : String) : Option V := if s = "N" then some none else s.toInt?.map some
def fmtV : V → String
  | none => "N"
  | some i => toString i

def parsePairs (s : String) : List (K × V) :=
  (commaList s).filterMap fun t =>
    let (a, b) := splitEq t
    (parseV b).map fun v => (a, v)

/-- the same line read on variables, with `replace(other)` as a copy -/
def parseOpV (toks : List String) : Option (Op K V) :=
  match toks with
  | ["new", r, "dict", ps] => some (.newDict r.toNat! (parsePairs ps))
  | ["new", r, "ci", a] => some (.newCI r.toNat! a.toNat!)
  | ["set", r, k, v] => (parseV v).map fun v => .set r.toNat! k v
  | ["del", r, k] => some (.del r.toNat! k)
  | ["dell", r, lk] => some (.delLower r.toNat! lk)
  | ["copy", r, a] => some (.copy r.toNat! a.toNat!)
  | ["combine", r, a, b] => some (.combine r.toNat! a.toNat! b.toNat!)
  | ["combl", r, a, ps] => some (.combineLower r.toNat! a.toNat! (parsePairs ps))
  | ["repl", r, ps] => some (.replaceDict r.toNat! (parsePairs ps))
  | ["replci", r, a] => some (.copy r.toNat! a.toNat!)
  | _ => none
def tabulate {α : Type} (f : Nat → α) : Array α := (Array.range nCells).map f

def fmtPairs (l : List (K × V)) : String :=
  if l.isEmpty then "~" else ",".intercalate (l.map fun p => s!"{p.1}:{fmtV p.2}")
def fmtKK (l : List (K × K)) : String :=
  if l.isEmpty then "~" else ",".intercalate (l.map fun p => s!"{p.1}:{p.2}")
def fmtOpt (l : List (K × Option V)) : String :=
  if l.isEmpty then "~" else ",".intercalate (l.map fun p => match p.2 with
    | some v => s!"{p.1}:{fmtV v}" | none => s!"{p.1}:!")
def fmtBools (l : List (K × Bool)) : String :=
  if l.isEmpty then "~" else ",".intercalate (l.map fun p => s!"{p.1}:{if p.2 then "T" else "F"}")
def fmtKeys (l : List K) : String := if l.isEmpty then "~" else ",".intercalate l

def fmtObs (o : Obs K V) : String :=
  s!"len={o.len} iter={fmtKeys o.iter} get={fmtOpt o.gets} getl={fmtOpt o.getLow} in={fmtBools o.member} lower={fmtPairs o.lowered} data={fmtPairs o.data} cmap={fmtKK o.cmap}"

/-- the inherited `Mapping` API, defined (as `collections.abc` defines it) through `__getitem__` and
    `__iter__`: `get(k, default)`, `keys()`, `items()`, `values()` -/
def fmtMixins (probes : List K) (d : CIDict K V) : String :=
  let items := mixinItems lower d
  let mem := fmtBools (probes.map fun k => (k, CIDict.contains' lower d k))
  s!"mget={fmtOpt (probes.map fun k => (k, CIDict.getitem lower d k))} keys={fmtKeys (CIDict.iter d)} items={fmtPairs items} values={if items.isEmpty then "~" else ",".intercalate (items.map fun p => fmtV p.2)} kin={mem} iin={mem}"

def parseOpt (s : String) : List (K × Option V) :=
  if s = "~" then [] else (s.splitOn ",").map fun t =>
    match t.splitOn ":" with
    | [a, b] => (a, parseV b)
    | _ => (t, none)
def parsePairsC (s : String) : List (K × V) :=
  if s = "~" then [] else (s.splitOn ",").filterMap fun t =>
    match t.splitOn ":" with
    | [a, b] => (parseV b).map fun v => (a, v)
    | _ => none
def parseKK (s : String) : List (K × K) :=
  if s = "~" then [] else (s.splitOn ",").filterMap fun t =>
    match t.splitOn ":" with
    | [a, b] => some (a, b)
    | _ => none
def parseBools (s : String) : List (K × Bool) :=
  if s = "~" then [] else (s.splitOn ",").filterMap fun t =>
    match t.splitOn ":" with
    | [a, b] => some (a, b == "T")
    | _ => none

def parseObs (toks : List String) : Option (Obs K V) := do
  let kv := toks.map splitEq
  let f (n : String) : Option String := (kv.find? (·.1 = n)).map (·.2)
  let len ← (← f "len").toNat?
  let iter ← f "iter"
  pure { len := len
         iter := if iter = "~" then [] else iter.splitOn ","
         gets := parseOpt (← f "get")
         getLow := parseOpt (← f "getl")
         member := parseBools (← f "in")
         lowered := parsePairsC (← f "lower")
         data := parsePairsC (← f "data")
         cmap := parseKK (← f "cmap") }

/-- the `Mapping`-mixin part of an observation line, as a second observation of the same shape
    (`get` ↦ gets, `keys` ↦ iter, `items` ↦ data) so that the same judge `obsOk` applies to it -/
def parseMixins (o : Obs K V) (toks : List String) : Option (Obs K V × List String × List (K × Bool) × List (K × Bool)) := do
  let kv := toks.map splitEq
  let f (n : String) : Option String := (kv.find? (·.1 = n)).map (·.2)
  let keys ← f "keys"
  let items := parsePairsC (← f "items")
  let values ← f "values"
  pure ({ o with gets := parseOpt (← f "mget"), iter := if keys = "~" then [] else keys.splitOn ",", data := items },
        if values = "~" then [] else values.splitOn ",", parseBools (← f "kin"), parseBools (← f "iin"))

def note (st : St) (s : String) : St := { st with notes := st.notes ++ [s] }

def runM (ma : Array (CIDict K V)) (ops : List (Op K V)) : Array (CIDict K V) :=
  ops.foldl (fun acc op => tabulate (stepM lower (fun i => acc.getD i CIDict.empty) op)) ma
def runS (sa : Array (SMap K V)) (ops : List (Op K V)) : Array (SMap K V) :=
  ops.foldl (fun acc op => tabulate (stepS lower (fun i => acc.getD i []) op)) sa
def runSV (sv : Array (SMap K V)) (ops : List (Op K V)) : Array (SMap K V) :=
  ops.foldl (fun acc op => tabulateV (stepS lower (fun i => acc.getD i []) op)) sv

/-- allocate a fresh object for variable `r` -/
def fresh (st : St) (r : Nat) : St × Nat :=
  ({ st with handle := st.handle.setIfInBounds r st.next, next := st.next + 1 }, st.next)

/-- translate a line on variables into an operation on objects (allocating where Python does) -/
def parseOp (st : St) (toks : List String) : Option (St × Option (Op K V)) :=
  match toks with
  | ["new", r, "dict", ps] => let (st', c) := fresh st r.toNat!; some (st', some (.newDict c (parsePairs ps)))
  | ["new", r, "ci", a] => let src := st.h a.toNat!; let (st', c) := fresh st r.toNat!; some (st', some (.newCI c src))
  | ["set", r, k, v] => (parseV v).map fun v => (st, some (.set (st.h r.toNat!) k v))
  | ["del", r, k] => some (st, some (.del (st.h r.toNat!) k))
  | ["dell", r, lk] => some (st, some (.delLower (st.h r.toNat!) lk))
  | ["copy", r, a] => let src := st.h a.toNat!; let (st', c) := fresh st r.toNat!; some (st', some (.copy c src))
  | ["combine", r, a, b] =>
      let x := st.h a.toNat!; let y := st.h b.toNat!
      let (st', c) := fresh st r.toNat!; some (st', some (.combine c x y))
  | ["combl", r, a, ps] => let src := st.h a.toNat!; let (st', c) := fresh st r.toNat!; some (st', some (.combineLower c src (parsePairs ps)))
  | ["repl", r, ps] => let (st', c) := fresh st r.toNat!; some (st', some (.replaceDict c (parsePairs ps)))
  | ["replci", r, a] =>
      -- `r.replace(a)`: r's two dicts ARE a's from now on (no model operation: same object)
      some ({ st with handle := st.handle.setIfInBounds r.toNat! (st.h a.toNat!) }, none)
  | _ => none

def stepOp (st : St) (toks : List String) : St :=
  match toks with
  | ["probe", ks] => { st with probes := commaList ks }
  | ["eq", a, b] =>
      { st with lastRes := if CIDict.eqCI lower (st.m (st.h a.toNat!)) (st.m (st.h b.toNat!)) then "T" else "F",
                lastSpecRes := if smapEq (st.s (st.h a.toNat!)) (st.s (st.h b.toNat!)) then "T" else "F",
                lastSpecResV := if smapEq (st.v a.toNat!) (st.v b.toNat!) then "T" else "F" }
  | ["eqd", a, ps] =>
      let l := PyDict.ofList (parsePairs ps)
      { st with lastRes := if CIDict.eqDict lower (st.m (st.h a.toNat!)) l then "T" else "F",
                lastSpecRes := if smapEq (st.s (st.h a.toNat!)) (SMap.writeAll lower [] l) then "T" else "F",
                lastSpecResV := if smapEq (st.v a.toNat!) (SMap.writeAll lower [] l) then "T" else "F" }
  | ["ne", a, b] =>
      { st with lastRes := if CIDict.eqCI lower (st.m (st.h a.toNat!)) (st.m (st.h b.toNat!)) then "F" else "T",
                lastSpecRes := if smapEq (st.s (st.h a.toNat!)) (st.s (st.h b.toNat!)) then "F" else "T",
                lastSpecResV := if smapEq (st.v a.toNat!) (st.v b.toNat!) then "F" else "T" }
  | ["pop", r, k] =>
      -- MutableMapping.pop: `value = self[key]` (KeyError), then `del self[key]`
      let c := st.h r.toNat!
      let tok (o : Option V) : String := match o with | some v => fmtV v | none => "KeyError"
      { st with ma := if (CIDict.getitem lower (st.m c) k).isSome then runM st.ma [.del c k] else st.ma,
                sa := runS st.sa [.del c k], sv := runSV st.sv [.del r.toNat! k],
                lastRes := tok (CIDict.getitem lower (st.m c) k),
                lastSpecRes := tok (SMap.lookup lower (st.s c) k), lastSpecResV := tok (SMap.lookup lower (st.v r.toNat!) k) }
  | ["setdefault", r, k, v] =>
      -- MutableMapping.setdefault: `try: return self[key] except KeyError: self[key] = default; return default`
      (match parseV v with
       | none => note { st with corrOk := false } "bad value"
       | some v =>
         let c := st.h r.toNat!
         let tok (o : Option V) : String := fmtV (o.getD v)
         let mm := CIDict.getitem lower (st.m c) k
         let ms := SMap.lookup lower (st.s c) k
         let mv := SMap.lookup lower (st.v r.toNat!) k
         { st with ma := if mm.isNone then runM st.ma [.set c k v] else st.ma,
                   sa := if ms.isNone then runS st.sa [.set c k v] else st.sa,
                   sv := if mv.isNone then runSV st.sv [.set r.toNat! k v] else st.sv,
                   lastRes := tok mm, lastSpecRes := tok ms, lastSpecResV := tok mv })
  | ["update", r, ps] =>
      -- MutableMapping.update(mapping): `for key in other: self[key] = other[key]`
      let c := st.h r.toNat!
      let l := PyDict.ofList (parsePairs ps)
      { st with ma := runM st.ma (l.map fun p => .set c p.1 p.2), sa := runS st.sa (l.map fun p => .set c p.1 p.2),
                sv := runSV st.sv (l.map fun p => .set r.toNat! p.1 p.2),
                lastRes := "ok", lastSpecRes := "ok", lastSpecResV := "ok" }
  | ["clear", r] =>
      -- MutableMapping.clear: popitem until empty
      let c := st.h r.toNat!
      { st with ma := runM st.ma ((CIDict.iter (st.m c)).map fun k => .del c k),
                sa := runS st.sa ((st.s c).map fun p => .delLower c p.1),
                sv := runSV st.sv ((st.v r.toNat!).map fun p => .delLower r.toNat! p.1),
                lastRes := "ok", lastSpecRes := "ok", lastSpecResV := "ok" }
  | ["popitem", r] =>
      -- MutableMapping.popitem: `key = next(iter(self))` (KeyError when empty); `value = self[key]`; `del self[key]`.
      -- Which entry comes first is not fixed by the abstract map: the spec applies the entry the
      -- implementation reports (checked to be a current entry) when the `res` line arrives.
      let c := st.h r.toNat!
      (match CIDict.iter (st.m c) with
       | [] => { st with lastRes := "KeyError", pendingPop := some r.toNat! }
       | k :: _ =>
         { st with ma := runM st.ma [.del c k], pendingPop := some r.toNat!,
                   lastRes := s!"{k}:{match CIDict.getitem lower (st.m c) k with | some v => fmtV v | none => "?"}" })
  | "res" :: [t] =>
      (match st.pendingPop with
       | some r =>
         let c := st.h r
         let st := { st with pendingPop := none }
         let st := if t = st.lastRes then st
                   else note { st with corrOk := false } s!"res impl={t} model={st.lastRes}"
         if t = "KeyError" then
           if (st.s c).isEmpty || (st.v r).isEmpty then st
           else note { st with judgeOk := false } "popitem raised KeyError on a non-empty map"
         else
           (match t.splitOn ":" with
            | [k, v] =>
              (match parseV v with
               | some v =>
                 let okS := get? (st.s c) (lower k) == some (k, v)
                 let okV := get? (st.v r) (lower k) == some (k, v)
                 let st := { st with sa := runS st.sa [.del c k], sv := runSV st.sv [.del r k] }
                 if okS || okV then st
                 else note { st with judgeOk := false } s!"popitem returned {t}, not a current entry"
               | none => note { st with judgeOk := false } s!"popitem result {t}")
            | _ => note { st with judgeOk := false } s!"popitem result {t}")
       | none =>
         let st := if t = st.lastRes then st
                   else note { st with corrOk := false } s!"res impl={t} model={st.lastRes}"
         if t = st.lastSpecRes || t = st.lastSpecResV then st
         else note { st with judgeOk := false } s!"res impl={t} spec={st.lastSpecRes}|{st.lastSpecResV}")
  | "obs" :: r :: rest =>
      let d := st.m (st.h r.toNat!)
      let sm := st.s (st.h r.toNat!)
      let mo := fmtObs (observe lower st.probes d) ++ " " ++ fmtMixins st.probes d
      let io := " ".intercalate rest
      let st := if mo = io then st
                else note { st with corrOk := false } s!"obs r{r} impl[{io}] model[{mo}]"
      (match parseObs rest with
       | some o =>
           let okFor (m : SMap K V) : Bool :=
             obsOk lower m o &&
             (match parseMixins o rest with
              | some (o2, values, kin, iin) =>
                  obsOk lower m o2 && o2.iter == o.iter && values == o2.data.map (fun p => fmtV p.2)
                  -- membership in keys() / items() views agrees with membership in the map (judged above)
                  && kin == o.member && iin == o.member
              | none => false)
           if okFor sm || okFor (st.v r.toNat!) then st
                   else note { st with judgeOk := false } s!"judge r{r} impl[{io}] spec[{fmtKK (sm.map fun p => (p.1, p.2.1))}|{fmtPairs (sm.map fun p => (p.1, p.2.2))}]"
       | none => note { st with judgeOk := false } s!"unparsable obs r{r}")
  | _ =>
    -- the copying reading, on variables
    let (sv', resV) := match parseOpV toks with
      | some opv => (tabulateV (stepS lower st.v opv), if raisesS lower st.v opv then "KeyError" else "ok")
      | none => (st.sv, "ok")
    match parseOp st toks with
    | some (st', some op) =>
        if st'.next > nCells then note { st with corrOk := false } "too many objects in one case" else
        { st' with ma := tabulate (stepM lower st.m op), sa := tabulate (stepS lower st.s op), sv := sv',
                   lastRes := if raisesM lower st.m op then "KeyError" else "ok",
                   lastSpecRes := if raisesS lower st.s op then "KeyError" else "ok", lastSpecResV := resV }
    | some (st', none) => { st' with sv := sv', lastRes := "ok", lastSpecRes := "ok", lastSpecResV := "ok" }
    | none => note { st with corrOk := false } s!"bad-op {" ".intercalate toks}"

def main : IO UInt32 := do
  let lines ← readLines (← IO.getStdin)
  let out ← IO.getStdout
  let mut st : St := {}
  let mut cur := ""
  let mut n := 0
  for line in lines do
    let toks := tokens line
    match toks with
    | ["case", id] => cur := id; st := {}
    | ["end"] =>
        n := n + 1
        out.putStrLn s!"case {cur} corr={if st.corrOk then "ok" else "MISMATCH"} judge={if st.judgeOk then "ok" else "FAIL"} {" ; ".intercalate (st.notes.take 3)}"
    | [] => pure ()
    | _ => st := stepOp st toks
  out.putStrLn s!"done {n}"
  return 0

end Upnp.Drv.C16
