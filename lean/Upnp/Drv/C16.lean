/-
  Driver for C16: replays the harness' operation lines through the CIDict model,
  compares the implementation's observations with the model's (correspondence) and
  judges the implementation's observations against the abstract map (`C16.obsOk`).
-/
import Upnp.Proto
import Upnp.Model.CIDict
import Upnp.Spec.C16
import Upnp.Model.C16Ops
namespace Upnp.Drv.C16
open Upnp Upnp.Proto Upnp.C16 PyDict

abbrev K := String
abbrev V := Int
def lower (k : K) : K := k.toLower

/-- number of registers the harness uses (functions `Nat → α` are tabulated after every step:
    a function-valued result would otherwise be re-evaluated on every lookup) -/
def nRegs : Nat := 8

structure St where
  ma : Array (CIDict K V) := Array.replicate nRegs CIDict.empty
  sa : Array (SMap K V) := Array.replicate nRegs []
  probes : List K := []
  corrOk : Bool := true
  judgeOk : Bool := true
  notes  : List String := []
  lastRes : String := "ok"     -- model's result token for the last op
  lastSpecRes : String := "ok" -- spec's result token for the last op

def St.m (st : St) : Nat → CIDict K V := fun i => st.ma.getD i CIDict.empty
def St.s (st : St) : Nat → SMap K V := fun i => st.sa.getD i []
def tabulate {α : Type} (f : Nat → α) : Array α := (Array.range nRegs).map f

def parsePairs (s : String) : List (K × V) :=
  (commaList s).filterMap fun t =>
    let (a, b) := splitEq t
    b.toInt?.map fun v => (a, v)

def fmtPairs (l : List (K × V)) : String :=
  if l.isEmpty then "~" else ",".intercalate (l.map fun p => s!"{p.1}:{p.2}")
def fmtKK (l : List (K × K)) : String :=
  if l.isEmpty then "~" else ",".intercalate (l.map fun p => s!"{p.1}:{p.2}")
def fmtOpt (l : List (K × Option V)) : String :=
  if l.isEmpty then "~" else ",".intercalate (l.map fun p => match p.2 with
    | some v => s!"{p.1}:{v}" | none => s!"{p.1}:!")
def fmtBools (l : List (K × Bool)) : String :=
  if l.isEmpty then "~" else ",".intercalate (l.map fun p => s!"{p.1}:{if p.2 then "T" else "F"}")
def fmtKeys (l : List K) : String := if l.isEmpty then "~" else ",".intercalate l

def fmtObs (o : Obs K V) : String :=
  s!"len={o.len} iter={fmtKeys o.iter} get={fmtOpt o.gets} getl={fmtOpt o.getLow} in={fmtBools o.member} lower={fmtPairs o.lowered} data={fmtPairs o.data} cmap={fmtKK o.cmap}"

def parseOpt (s : String) : List (K × Option V) :=
  if s = "~" then [] else (s.splitOn ",").map fun t =>
    match t.splitOn ":" with
    | [a, b] => (a, b.toInt?)
    | _ => (t, none)
def parsePairsC (s : String) : List (K × V) :=
  if s = "~" then [] else (s.splitOn ",").filterMap fun t =>
    match t.splitOn ":" with
    | [a, b] => b.toInt?.map fun v => (a, v)
    | _ => none
def parseKK (s : String) : List (K × K) :=
  if s = "~" then [] else (s.splitOn ",").filterMap fun t =>
    match t.splitOn ":" with
    | [a, b] => some (a, b)
    | _ => none
def parseBools (s : String) : List (K × Bool) :=
  if s = "~" then [] else (s.splitOn ",").filterMap fun t =>
    match t.splitOn ":" with
    | [a, b] => some (a, b == "T")
    | _ => none

def parseObs (toks : List String) : Option (Obs K V) := do
  let kv := toks.map splitEq
  let f (n : String) : Option String := (kv.find? (·.1 = n)).map (·.2)
  let len ← (← f "len").toNat?
  let iter ← f "iter"
  pure { len := len
         iter := if iter = "~" then [] else iter.splitOn ","
         gets := parseOpt (← f "get")
         getLow := parseOpt (← f "getl")
         member := parseBools (← f "in")
         lowered := parsePairsC (← f "lower")
         data := parsePairsC (← f "data")
         cmap := parseKK (← f "cmap") }

def note (st : St) (s : String) : St := { st with notes := st.notes ++ [s] }

def parseOp (toks : List String) : Option (Op K V) :=
  match toks with
  | ["new", r, "dict", ps] => some (.newDict r.toNat! (parsePairs ps))
  | ["new", r, "ci", a] => some (.newCI r.toNat! a.toNat!)
  | ["set", r, k, v] => some (.set r.toNat! k v.toInt!)
  | ["del", r, k] => some (.del r.toNat! k)
  | ["dell", r, lk] => some (.delLower r.toNat! lk)
  | ["copy", r, a] => some (.copy r.toNat! a.toNat!)
  | ["combine", r, a, b] => some (.combine r.toNat! a.toNat! b.toNat!)
  | ["combl", r, a, ps] => some (.combineLower r.toNat! a.toNat! (parsePairs ps))
  | ["repl", r, ps] => some (.replaceDict r.toNat! (parsePairs ps))
  | ["replci", r, a] => some (.replaceCI r.toNat! a.toNat!)
  | _ => none

def stepOp (st : St) (toks : List String) : St :=
  match toks with
  | ["probe", ks] => { st with probes := commaList ks }
  | ["eq", a, b] =>
      { st with lastRes := if CIDict.eqCI lower (st.m a.toNat!) (st.m b.toNat!) then "T" else "F",
                lastSpecRes := if smapEq (st.s a.toNat!) (st.s b.toNat!) then "T" else "F" }
  | ["eqd", a, ps] =>
      let l := PyDict.ofList (parsePairs ps)
      { st with lastRes := if CIDict.eqDict lower (st.m a.toNat!) l then "T" else "F",
                lastSpecRes := if smapEq (st.s a.toNat!) (SMap.writeAll lower [] l) then "T" else "F" }
  | "res" :: [t] =>
      let st := if t = st.lastRes then st
                else note { st with corrOk := false } s!"res impl={t} model={st.lastRes}"
      if t = st.lastSpecRes then st
      else note { st with judgeOk := false } s!"res impl={t} spec={st.lastSpecRes}"
  | "obs" :: r :: rest =>
      let d := st.m r.toNat!
      let sm := st.s r.toNat!
      let mo := fmtObs (observe lower st.probes d)
      let io := " ".intercalate rest
      let st := if mo = io then st
                else note { st with corrOk := false } s!"obs r{r} impl[{io}] model[{mo}]"
      (match parseObs rest with
       | some o => if obsOk lower sm o then st
                   else note { st with judgeOk := false } s!"judge r{r} impl[{io}] spec[{fmtKK (sm.map fun p => (p.1, p.2.1))}|{fmtPairs (sm.map fun p => (p.1, p.2.2))}]"
       | none => note { st with judgeOk := false } s!"unparsable obs r{r}")
  | _ =>
    match parseOp toks with
    | some op =>
        { st with ma := tabulate (stepM lower st.m op), sa := tabulate (stepS lower st.s op),
                  lastRes := if raisesM lower st.m op then "KeyError" else "ok",
                  lastSpecRes := if raisesS lower st.s op then "KeyError" else "ok" }
    | none => note { st with corrOk := false } s!"bad-op {" ".intercalate toks}"

def main : IO UInt32 := do
  let lines ← readLines (← IO.getStdin)
  let out ← IO.getStdout
  let mut st : St := {}
  let mut cur := ""
  let mut n := 0
  for line in lines do
    let toks := tokens line
    match toks with
    | ["case", id] => cur := id; st := {}
    | ["end"] =>
        n := n + 1
        out.putStrLn s!"case {cur} corr={if st.corrOk then "ok" else "MISMATCH"} judge={if st.judgeOk then "ok" else "FAIL"} {" ; ".intercalate (st.notes.take 3)}"
    | [] => pure ()
    | _ => st := stepOp st toks
  out.putStrLn s!"done {n}"
  return 0

end Upnp.Drv.C16
