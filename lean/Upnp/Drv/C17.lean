/-
  Driver for C17: reads one request per case (requester kind, URL, header maps, outcome script)
  followed by the implementation's observations (every `session.request` call, the result), runs
  the ladder model over the GENERATED tables, compares (correspondence) and judges the
  implementation's observations with `C17.resultOk` / `C17.hostOk`.
-/
import Upnp.Proto
import Upnp.Spec.C17
import Upnp.Gen.C17Ladders
namespace Upnp.Drv.C17
open Upnp Upnp.Proto Upnp.C17
open Upnp.Gen.C17 (tables classNames)

abbrev Resp := Nat × String × String   -- status, headers token, body token

structure St where
  session : Bool := false
  method : String := "GET"
  reqBody : String := "none"
  log : Bool := false                      -- traffic logger at DEBUG
  nonUtf8 : List Resp := []                -- responses whose body bytes are not valid UTF-8
  url : Option Url := none
  own : Headers := []
  caller : Headers := []
  outs : Array (Exch Resp) := #[]
  calls : Array (String × Headers × String × String) := #[]   -- url token, headers, method, data token
  res : Option (ORes Resp × String) := none -- observed result, class name ("" if none)
  parsed : Option (Option Str × Option Str) := none  -- what the real urlparse(url) answered: hostname, port
  bad : List String := []

def str (t : String) : Str := ((tokStr t).getD "?").toList

def parseHeaders (t : String) : Headers :=
  if t = "~" || t = "none" then [] else (t.splitOn ",").map fun kv =>
    let (k, v) := splitEq kv
    (str k, str v)

def fmtHeaders (h : Headers) : String :=
  if h.isEmpty then "~" else ",".intercalate (h.map fun p => s!"{strTok (String.ofList p.1)}={strTok (String.ofList p.2)}")

def clsId (name : String) : Option Nat :=
  let i := classNames.idxOf name
  if i < classNames.length then some i else none

def optNat (t : String) : Option Nat := if t = "-" then none else t.toNat?
def fmtOptNat : Option Nat → String | none => "-" | some n => toString n
def tf (b : Bool) : String := if b then "T" else "F"

def step (st : St) (toks : List String) : St :=
  match toks with
  | ["req", k] => { st with session := k == "session" }
  | ["req", k, m, b] => { st with session := k == "session", method := m, reqBody := b }
  | ["url", kind, scheme, a, d, z, port, path] =>
      let host : Host := if kind = "zoned" then .zoned (str a) (str d) (str z)
                         else if kind = "ipv6" then .ipv6 (str a) else .plain (str a)
      { st with url := some { scheme := scheme.toList, host := host,
                              port := if port = "-" then none else some port.toList, path := str path } }
  | ["own", h] => { st with own := parseHeaders h }
  | ["caller", h] => { st with caller := parseHeaders h }
  | ["log", l] => { st with log := l == "T" }
  | ["out", "ok", s, h, b] => { st with outs := st.outs.push (.ok (s.toNat!, h, b)) }
  | ["out", "ok", s, h, b, u] =>
      { st with outs := st.outs.push (.ok (s.toNat!, h, b)),
                nonUtf8 := if u == "T" then st.nonUtf8 else (s.toNat!, h, b) :: st.nonUtf8 }
  | ["out", "exc", c, s] =>
      match clsId c with
      | some i => { st with outs := st.outs.push (.exc i (optNat s)) }
      | none => { st with bad := st.bad ++ [s!"unknown-class {c}"] }
  | ["parse", h, p] =>
      { st with parsed := some (if h = "none" then none else some (str h), if p = "-" then none else some p.toList) }
  | ["call", u, h] => { st with calls := st.calls.push (u, parseHeaders h, st.method, st.reqBody) }
  | ["call", u, h, m, d] => { st with calls := st.calls.push (u, parseHeaders h, m, d) }
  | ["res", "ret", s, h, b] => { st with res := some (.ret (s.toNat!, h, b), "") }
  | ["res", "err", c, comm, conn, s] => { st with res := some (.err (comm == "T") (conn == "T") (optNat s), c) }
  | "res" :: "other" :: _ => { st with res := some (.other, "") }
  | _ => { st with bad := st.bad ++ [s!"bad-line {" ".intercalate toks}"] }

def fmtRes (r : ORes Resp) (cls : String) : String :=
  match r with
  | .ret (s, h, b) => s!"ret {s} {h} {b}"
  | .err comm conn s => s!"err {cls} {tf comm} {tf conn} {fmtOptNat s}"
  | .other => "other"

/-- (corr ok, judge ok, notes) -/
def finish (st : St) : Bool × Bool × List String :=
  match st.url, st.res with
  | some u, some (ires, icls) =>
    let outs := st.outs.toList
    let m := requestL tables st.session st.log (fun r => !st.nonUtf8.contains r) outs
    let mobs := observe tables m
    let mcls := match m.1 with | .raised c _ => classNames.getD c s!"<class {c}>" | _ => ""
    let hdrs := requestHeaders u st.own st.caller
    let urlTok := strTok (String.ofList u.render)
    let notes : List String := st.bad
    let notes := if fmtRes mobs.result mcls = fmtRes ires icls then notes
                 else notes ++ [s!"res impl[{fmtRes ires icls}] model[{fmtRes mobs.result mcls}]"]
    let notes := if mobs.attempts = st.calls.size then notes
                 else notes ++ [s!"attempts impl={st.calls.size} model={mobs.attempts}"]
    let notes := st.calls.toList.foldl (fun ns c =>
        -- every attempt repeats THE request: same method, URL, headers and body as asked for
        if c.1 = urlTok && c.2.1 = hdrs && c.2.2.1 = st.method && c.2.2.2 = st.reqBody then ns
        else ns ++ [s!"call impl[{c.2.2.1} {c.1} {fmtHeaders c.2.1} data={c.2.2.2}] model[{st.method} {urlTok} {fmtHeaders hdrs} data={st.reqBody}]"]) notes
    -- the urlparse assumption, and the text-level `_fixed_host_header` on what urlparse really answered
    let notes := match st.parsed with
      | none => notes
      | some (ph, pp) =>
        let notes := if ph = some (urlparseHostname u) && pp = urlparsePort u then notes
          else notes ++ [s!"urlparse impl[{ph.map String.ofList} {pp.map String.ofList}] assumed[{String.ofList (urlparseHostname u)} {(urlparsePort u).map String.ofList}]"]
        if fixedHostText u.render ph pp = fixedHost u then notes
          else notes ++ [s!"fixedHostText≠fixedHost for {String.ofList u.render}"]
    let iobs : Obs Resp := { result := ires, attempts := st.calls.size }
    let j1 := resultOk tables st.session outs iobs
    let j2 := st.calls.toList.all fun c => hostOk u c.2.1
    let jn := (if j1 then [] else [s!"judge:result impl[{fmtRes ires icls}] attempts={st.calls.size}"])
              ++ (if j2 then [] else [s!"judge:host sent[{";".intercalate (st.calls.toList.map fun c => fmtHeaders c.2.1)}]"])
    (notes.isEmpty, j1 && j2, jn ++ notes)
  | _, _ => (false, false, ["incomplete case"] ++ st.bad)

def main : IO UInt32 := do
  let lines ← readLines (← IO.getStdin)
  let out ← IO.getStdout
  let mut st : St := {}
  let mut cur := ""
  let mut n := 0
  for line in lines do
    let toks := tokens line
    match toks with
    | ["case", id] => cur := id; st := {}
    | ["end"] =>
        n := n + 1
        let (c, j, notes) := finish st
        out.putStrLn s!"case {cur} corr={if c then "ok" else "MISMATCH"} judge={if j then "ok" else "FAIL"} {" ; ".intercalate (notes.take 3)}"
    | [] => pure ()
    | _ => st := step st toks
  out.putStrLn s!"done {n}"
  return 0

end Upnp.Drv.C17
