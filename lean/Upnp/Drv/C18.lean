/-
  Driver for C18: replays the harness' operation lines through the cache/event-loop model,
  compares events and snapshots (correspondence) and feeds the IMPLEMENTATION's operations, events
  and scheduler snapshots to the monitor `C18.feed` (judge).
-/
import Upnp.Proto
import Upnp.Model.C18Cache
import Upnp.Model.C18Etree
namespace Upnp.Drv.C18
open Upnp Upnp.Proto Upnp.C18

def nLocs : Nat := 3

structure DSt where
  s : St := {}
  jm : Option Mon := some {}
  expect : List Ev := []
  corrOk : Bool := true
  notes : List String := []
  jnote : List String := []

def optVal (t : String) : Out := if t = "-" then none else t.toNat?
def fmtOut : Out → String | none => "-" | some v => toString v

def fmtEv : Ev → String
  | .requested t loc => s!"requested {t} {loc}"
  | .returned t v => s!"returned {t} {fmtOut v}"
  | .cancelled t => s!"cancelled {t}"
  | .raised t => s!"raised {t}"

def fmtStatus : Status → String
  | .pending => "P" | .returned v => s!"R{fmtOut v}" | .cancelled => "C" | .raised => "X"

def fmtSnap (s : St) : String :=
  let st := ",".intercalate (s.mon.tasks.map fun k => fmtStatus k.status)
  let req := ",".intercalate ((List.range nLocs).map fun l => s!"{l}:{(s.mon.dls.filter (·.loc == l)).length}")
  let peek := ",".intercalate ((List.range nLocs).map fun l =>
    let p := s.peek l
    s!"{l}:{if p.1 then "T" ++ fmtOut p.2 else "F"}")
  s!"ready={s.ready.length} out={s.outstandingCount} pend={s.pendingCount} st={if st.isEmpty then "~" else st} req={req} peek={peek}"

def parseOp : List String → Option Op
  | ["lookup", l] => l.toNat?.map .lookup
  | ["complete", d, v] => d.toNat?.map fun d => .complete d (optVal v)
  | ["cancel", t] => t.toNat?.map .cancel
  | ["uncache", l] => l.toNat?.map .uncache
  | ["step"] => some .step
  | _ => none

def parseEv : List String → Option Ev
  | ["requested", t, l] => do pure (.requested (← t.toNat?) (← l.toNat?))
  | ["returned", t, v] => t.toNat?.map fun t => .returned t (optVal v)
  | ["cancelled", t] => t.toNat?.map .cancelled
  | "raised" :: t :: _ => t.toNat?.map .raised
  | _ => none

/-! ### description documents: tree tokens → `Elem`, model value → canonical text -/

def strOf (t : String) : Str := ((tokStr t).getD "?").toList

mutual
/-- prefix form: `( tag nattrs (k v)* text|~ nchildren child* )` -/
partial def parseElem : List String → Option (Elem × List String)
  | "(" :: tag :: na :: rest => do
      let n ← na.toNat?
      let (attrs, rest) ← parseAttrs n rest
      match rest with
      | text :: nc :: rest => do
          let m ← nc.toNat?
          let (kids, rest) ← parseElems m rest
          match rest with
          | ")" :: rest => some (.mk (strOf tag) attrs (if text = "~" then none else some (strOf text)) kids, rest)
          | _ => none
      | _ => none
  | _ => none
partial def parseElems : Nat → List String → Option (List Elem × List String)
  | 0, rest => some ([], rest)
  | n + 1, rest => do
      let (e, rest) ← parseElem rest
      let (es, rest) ← parseElems n rest
      some (e :: es, rest)
partial def parseAttrs : Nat → List String → Option (List (Str × Str) × List String)
  | 0, rest => some ([], rest)
  | n + 1, k :: v :: rest => do
      let (as, rest) ← parseAttrs n rest
      some ((strOf k, strOf v) :: as, rest)
  | _, _ => none
end

partial def renderVal : PVal → String
  | .none => "N"
  | .str s => "S" ++ strTok (String.ofList s)
  | .dict d => "D[" ++ ",".intercalate (d.map fun p => strTok (String.ofList p.1) ++ ":" ++ renderVal p.2) ++ "]"
  | .list l => "L[" ++ ",".intercalate (l.map renderVal) ++ "]"

def note (st : DSt) (n : String) : DSt := { st with corrOk := false, notes := st.notes ++ [n] }

def jfeed (st : DSt) (i : Item) (what : String) : DSt :=
  match st.jm with
  | none => st
  | some m =>
    match feed m i with
    | some m' => { st with jm := some m' }
    | none => { st with jm := none, jnote := [s!"judge:{what}"] }

def field (toks : List String) (name : String) : Nat :=
  ((toks.map splitEq).find? (·.1 = name)).map (·.2.toNat!) |>.getD 0

def stepLine (st : DSt) (toks : List String) : DSt :=
  match toks with
  | "op" :: rest =>
    match parseOp rest with
    | none => note st s!"bad-op {" ".intercalate rest}"
    | some op =>
      let st := if st.expect.isEmpty then st else note st s!"model expected event {fmtEv (st.expect.headD (.raised 0))}"
      let r := st.s.apply op
      jfeed { st with s := r.1, expect := r.2 } (.op op) s!"op {" ".intercalate rest}"
  | "ev" :: rest =>
    match parseEv rest with
    | none => note st s!"bad-ev {" ".intercalate rest}"
    | some ev =>
      let st := match st.expect with
        | e :: more => if e = ev then { st with expect := more }
                       else note { st with expect := more } s!"ev impl[{fmtEv ev}] model[{fmtEv e}]"
        | [] => note st s!"ev impl[{fmtEv ev}] model[none]"
      jfeed st (.ev ev) s!"{" ".intercalate rest}"
  | "obs" :: rest =>
    let st := if st.expect.isEmpty then st
              else note { st with expect := [] } s!"ev impl[none] model[{fmtEv (st.expect.headD (.raised 0))}]"
    let ms := fmtSnap st.s
    let is := " ".intercalate rest
    let st := if ms = is then st else note st s!"obs impl[{is}] model[{ms}]"
    jfeed st (.snap (field rest "ready") (field rest "out") (field rest "pend")) s!"deadlock {is}"
  | "doc" :: id :: impl :: tree =>
    -- the implementation's `_description_xml_to_dict` on this document vs the Lean model of etree_to_dict
    match parseElem tree with
    | some (e, []) =>
      let mres := match descriptionOf e with
        | some v => renderVal v
        | none => "ASSERT"
      let st := if mres = impl then st else note st s!"doc {id} impl[{impl}] model[{mres}]"
      -- a conversion that raises is a violation: the outcome must be a dictionary or absence
      if impl.startsWith "RAISES" then { st with jm := none, jnote := [s!"judge:conversion-raises doc {id} {impl}"] } else st
    | _ => note st s!"bad-doc {id}"
  | _ => note st s!"bad-line {" ".intercalate toks}"

def main : IO UInt32 := do
  let lines ← readLines (← IO.getStdin)
  let out ← IO.getStdout
  let mut st : DSt := {}
  let mut cur := ""
  let mut n := 0
  for line in lines do
    let toks := tokens line
    match toks with
    | ["case", id] => cur := id; st := {}
    | ["end"] =>
        n := n + 1
        out.putStrLn s!"case {cur} corr={if st.corrOk then "ok" else "MISMATCH"} judge={if st.jm.isSome then "ok" else "FAIL"} {" ; ".intercalate (st.jnote ++ st.notes.take 2)}"
    | [] => pure ()
    | _ => st := stepLine st toks
  out.putStrLn s!"done {n}"
  return 0

end Upnp.Drv.C18
