/-
  Driver for C19: feeds the SAX events the real parser delivered to the handler model, compares
  the model's mapping / variable values / callbacks with the implementation's (correspondence),
  checks for rendered documents that the delivered events are `events d`, and judges the
  implementation's observations with `C19.ok` (well-formed documents, empty value) or `okAny`.
-/
import Upnp.Proto
import Upnp.Model.C19LastChange
import Upnp.Spec.C19
namespace Upnp.Drv.C19
open Upnp Upnp.Proto Upnp.C19 PyDict

structure St where
  vars : List (S × S) := []
  hasDoc : Bool := false
  root : List (S × S) := []
  insts : List Inst := []          -- reversed; entries reversed
  loose : List Entry := []
  othersOk : Bool := true
  emptyValue : Bool := false
  sax : List Sax := []             -- reversed
  implChanges : Option (List (S × List (S × S))) := none
  noparse : Bool := false
  raised : Bool := false
  after : List (S × S) := []
  cbs : List (List S) := []
  bad : List String := []

def hs (t : String) : S := ((tokStr t).getD "?").toList
def optS (t : String) : Option S := if t == "~" then none else some (hs t)

def parseAttrs (t : String) : List (S × S) :=
  if t == "~" then [] else (t.splitOn ",").filterMap fun kv =>
    match kv.splitOn ":" with
    | [k, v] => some (hs k, hs v)
    | _ => none

def parseChanges (t : String) : List (S × List (S × S)) :=
  if t == "~" then [] else (t.splitOn ";").filterMap fun kv =>
    match kv.splitOn "=" with
    | [k, v] => some (hs k, parseAttrs v)
    | _ => none

def addEntry (insts : List Inst) (e : Entry) : List Inst :=
  match insts with
  | [] => []
  | i :: r => { i with entries := e :: i.entries } :: r

def stepLine (st : St) (toks : List String) : St :=
  match toks with
  | ["var", n, v] => { st with vars := st.vars ++ [(hs n, hs v)] }
  | ["doc", attrs] => { st with hasDoc := true, root := parseAttrs attrs }
  | ["inst", id, p] => { st with insts := ⟨hs id, [], optS p⟩ :: st.insts }
  | ["lentry", p, n, c, v] => { st with loose := st.loose ++ [⟨optS p, hs n, optS c, hs v⟩] }
  | ["others", r] => { st with othersOk := r == "unchanged" }
  | ["entry", p, n, c, v] => { st with insts := addEntry st.insts ⟨optS p, hs n, optS c, hs v⟩ }
  | ["value", k, _] => { st with emptyValue := k == "empty" }
  | ["sax", "S", n, attrs] => { st with sax := .start (hs n) (parseAttrs attrs) :: st.sax }
  | ["sax", "E", n] => { st with sax := .stop (hs n) :: st.sax }
  | ["changes", c] => { st with implChanges := some (parseChanges c) }
  | ["noparse"] => { st with noparse := true }
  | ["raised", r] => { st with raised := r != "no" }
  | ["after", n, v] => { st with after := st.after ++ [(hs n, hs v)] }
  | ["cb", names] => { st with cbs := st.cbs ++ [if names == "~" then [] else (names.splitOn ",").map hs] }
  | _ => { st with bad := st.bad ++ [" ".intercalate toks] }

def str (s : S) : String := String.ofList s
def fmtMap (m : List (S × S)) : String := ",".intercalate (m.map fun p => s!"{str p.1}={str p.2}")
def fmtCbs (c : List (List S)) : String := "|".intercalate (c.map fun l => ",".intercalate (l.map str))

def finish (st : St) : Bool × Bool × List String :=
  let evs := st.sax.reverse
  let doc : LcDoc := ⟨st.root, st.insts.reverse.map fun i => { i with entries := i.entries.reverse }, st.loose⟩
  let lastChange : S := "LastChange".toList
  -- the implementation's observation: further callbacks = all but the final one for LastChange itself
  let endsOk := st.raised || st.cbs.getLast? == some [lastChange]
  let further := if st.raised then st.cbs else st.cbs.dropLast
  let obs : Obs := ⟨st.raised, st.after, further, st.othersOk⟩
  let notes : List String := st.bad.map (s!"bad-line {·}")
  -- correspondence 1: the handler fold on the delivered events gives the implementation's mapping
  let mrun := run evs
  let (c1, notes) := match mrun, st.implChanges with
    | .ok h, some ic => if h.changes == ic then (true, notes) else
        (false, notes ++ [s!"changes impl[{";".intercalate (ic.map fun p => str p.1 ++ ":" ++ fmtMap p.2)}] model[{";".intercalate (h.changes.map fun p => str p.1 ++ ":" ++ fmtMap p.2)}]"])
    | .ok _, none => (st.noparse && evs.isEmpty, if st.noparse then notes else notes ++ ["no changes line"])
    | .error _, _ => (false, notes ++ ["model handler raised KeyError"])
  -- correspondence 2: a rendered document is delivered as `events d`
  let (c2, notes) := if st.hasDoc && evs != events doc then (false, notes ++ ["delivered SAX events differ from events(doc)"])
    else if st.hasDoc && !wfB doc then (false, notes ++ ["generated document is outside WF (hypothesis of instance0_master)"])
    else (true, notes)
  -- correspondence 3: expansion (values afterwards, callbacks, raised)
  let mobs := observe st.vars (expand st.vars st.emptyValue evs)
  let (c3, notes) := if mobs == obs && endsOk then (true, notes) else
    (false, notes ++ [s!"expand impl[raised={st.raised} after={fmtMap st.after} cbs={fmtCbs st.cbs}] model[raised={mobs.raised} after={fmtMap mobs.after} cbs={fmtCbs mobs.callbacks}]"])
  -- judge
  let j := if st.hasDoc then ok st.vars (some doc) obs
           else if st.emptyValue then ok st.vars none obs
           else okAny obs
  let notes := if j then notes else
    notes ++ [s!"judge: raised={st.raised} after={fmtMap st.after} further-cbs={fmtCbs further}" ++
      (if st.hasDoc then s!" expected assignments [{fmtMap (relevant st.vars (master0 doc))}]" else "")]
  (st.bad.isEmpty && c1 && c2 && c3, j, notes)

def main : IO UInt32 := do
  let lines ← readLines (← IO.getStdin)
  let out ← IO.getStdout
  let mut st : St := {}
  let mut cur := ""
  let mut n := 0
  for line in lines do
    let toks := tokens line
    match toks with
    | ["case", id] => cur := id; st := {}
    | ["end"] =>
        n := n + 1
        let (c, j, notes) := finish st
        out.putStrLn s!"case {cur} corr={if c then "ok" else "MISMATCH"} judge={if j then "ok" else "FAIL"} {" ; ".intercalate (notes.take 3)}"
    | [] => pure ()
    | _ => st := stepLine st toks
  out.putStrLn s!"done {n}"
  return 0

end Upnp.Drv.C19
