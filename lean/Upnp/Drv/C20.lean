/-
  Driver for C20: rebuilds the gateway tree from the harness' lines, replays every facade call
  and every counter sample through the model (`Upnp.C20`), compares with the implementation's
  observations (correspondence) and judges the implementation's observations with
  `callOk`/`typeOk` and `sampleOk` (Spec/C20).
-/
import Upnp.Proto
import Upnp.Model.C20Igd
import Upnp.Spec.C20
import Upnp.Gen.C20Igd
namespace Upnp.Drv.C20
open Upnp Upnp.Proto Upnp.C20 PyDict

structure DevLine where
  idx : Nat
  parent : Option Nat
  dty : S

structure St where
  order : List S := []                 -- observed iteration order of all type sets, concatenated
  orderOk : Bool := true
  devs : Array DevLine := #[]
  svcs : Array (Nat × Svc) := #[]      -- (device index, service)
  prof : Option Dev := none            -- the profile device (after `profile`)
  igd : Option IgdSt := none
  prev : Prev := ⟨0, .none, .none, .none, .none⟩
  pending : Option (Int × Readings × Readings) := none   -- sample awaiting its `out` (model raws, judge raws)
  corrOk : Bool := true
  judgeOk : Bool := true
  notes : List String := []

def note (st : St) (s : String) : St := { st with notes := st.notes ++ [s] }
def badCorr (st : St) (s : String) : St := note { st with corrOk := false } s
def badJudge (st : St) (s : String) : St := note { st with judgeOk := false } s

/-- `UpnpDevice.__init__`: dict comprehensions over the description's lists -/
partial def buildDev (st : St) (i : Nat) : Dev :=
  let dty := match st.devs.find? (·.idx == i) with | some d => d.dty | none => []
  let svcs := st.svcs.foldl (fun acc p => if p.1 == i then PyDict.set acc p.2.ty p.2 else acc) ([] : List (S × Svc))
  let subs := st.devs.foldl (fun acc d =>
    if d.parent == some i then let c := buildDev st d.idx; PyDict.set acc c.dty c else acc) ([] : List (S × Dev))
  .mk dty svcs subs

def str (s : S) : String := String.ofList s

def rowOf (m : String) : Option OpRow := Gen.C20Igd.igdOps.find? (·.method == m.toList)

def fmtObs (o : CallObs) : String :=
  s!"sent={if o.sent.isEmpty then "~" else ",".intercalate (o.sent.map toString)} na={if o.na then "T" else "F"}"

def kv (toks : List String) (k : String) : String :=
  match (toks.map splitEq).find? (·.1 == k) with | some p => p.2 | none => ""

def parseRaw (t : String) : Option Raw :=
  match t.splitOn ":" with
  | ["ok", n] => n.toInt?.map .ok
  | ["absent"] => some .absent
  | ["na"] => some .na
  | ["fail", e] => e.toNat?.map .fail
  | _ => none

def parseVal (t : String) : Option Val :=
  match t.splitOn ":" with
  | ["none"] => some .none
  | ["exc", e] => e.toNat?.map .exc
  | ["int", n] => n.toInt?.map .int
  | _ => none

def parseRate (t : String) : Option (Option Frac) :=
  if t == "none" then some none else
  match t.splitOn "/" with
  | [a, b] => do let x ← a.toInt?; let y ← b.toInt?; pure (some ⟨x, y⟩)
  | _ => none

def fmtVal : Val → String
  | .none => "none" | .exc e => s!"exc:{e}" | .int n => s!"int:{n}"

/-- model rate vs observed rate: same presence, and the observed float within tolerance of the
    model's exact fraction -/
def rateCorr (m o : Option Frac) : Bool :=
  match m, o with
  | none, none => true
  | some f, some g => if f.den > 0 then approx g f.num f.den else false
  | _, _ => false

def fmtRate : Option Frac → String
  | none => "none" | some f => s!"{f.num}/{f.den}"

/-- the six getters' rows, in the order of `async_get_traffic_and_status_data` -/
def getterMethods : List String :=
  ["async_get_total_bytes_received", "async_get_total_bytes_sent", "async_get_total_packets_received",
   "async_get_total_packets_sent", "async_get_status_info", "async_get_external_ip_address"]

def mask (avail : List Bool) (raws : List Raw) : List Raw :=
  (List.zip avail raws).map fun p => if p.1 then p.2 else Raw.na

def toReadings : List Raw → Option Readings
  | [a, b, c, d, e, f] => some ⟨a, b, c, d, e, f⟩
  | _ => none

def stepLine (st : St) (toks : List String) : St :=
  match toks with
  | ["order", alias, tys] =>
      let l := (commaList tys).map (·.toList)
      let gen := (get? Gen.C20Igd.igdServiceTypes alias.toList).getD []
      let ok := l.length == gen.length && l.all (gen.contains ·) && gen.all (l.contains ·)
      let st := { st with order := st.order ++ l }
      if ok then st else badCorr { st with orderOk := false } s!"order {alias}: impl has {tys}, table differs"
  | ["dev", i, p, dty] => { st with devs := st.devs.push ⟨i.toNat!, p.toNat?, dty.toList⟩ }
  | ["svc", d, ty, cid, acts] =>
      { st with svcs := st.svcs.push (d.toNat!, ⟨ty.toList, cid.toNat!,
                  if acts == "~" then [] else (commaList acts).map (·.toList)⟩) }
  | ["profile", res] =>
      let root := buildDev st 0
      let p := profileDevice Gen.C20Igd.igdDeviceTypes root
      let mres := if p.isSome then "ok" else "UpnpError"
      let st := { st with prof := p }
      if res == mres then st else badCorr st s!"profile impl={res} model={mres}"
  | "call" :: m :: rest =>
      match st.prof, rowOf m with
      | some d, some r =>
          let sentS := kv rest "sent"
          let o : CallObs := ⟨if sentS == "~" then [] else (commaList sentS).map (·.toNat!), kv rest "na" == "T"⟩
          let mo := obsOf (route (ordOf st.order) Gen.C20Igd.igdServiceTypes d r)
          let st := if mo == o then st else badCorr st s!"call {m} impl[{fmtObs o}] model[{fmtObs mo}]"
          let std := stdGateway d r.action
          let st := if std then st else note st s!"call {m}: gateway outside stdGateway"
          -- the judge uses the action the operation stands for (Spec table), not the one in the source
          let postedS := kv rest "acts"
          let posted := if postedS == "~" || postedS == "" then [] else (commaList postedS).map (·.toList)
          let jr := callOk (offered d) (specAction m.toList) o && actionsOk m.toList posted
          let jt := o.na || (typeOk Gen.C20Igd.igdTuples r.ret (kv rest "rtype").toList && kv rest "val" == "ok")
          let st := if jr then st else badJudge st s!"call {m} action {str (specAction m.toList)}: impl[{fmtObs o} posted={postedS}] is not what the offered services allow"
          if jt then st else badJudge st s!"call {m}: result rtype={kv rest "rtype"} val={kv rest "val"} declared {str r.ret}"
      | _, _ => badCorr st s!"call {m}: no profile device or unknown facade method (not in the generated table)"
  | ["callx", m, aliases, sentT, naT, excT] =>
      -- explicit `services=[...]`: an empty list falls back to the default (`services or [...]`)
      match st.prof, rowOf m with
      | some d, some r =>
          let al := if aliases == "~" then r.aliases else (commaList aliases).map (·.toList)
          let sentS := (splitEq sentT).2
          let o : CallObs := ⟨if sentS == "~" then [] else (commaList sentS).map (·.toNat!), (splitEq naT).2 == "T"⟩
          let mo := obsOf (anyAction (ordOf st.order) Gen.C20Igd.igdServiceTypes d al r.action)
          let st := if mo == o && (splitEq excT).2 == "-" then st
                    else badCorr st s!"callx {m} [{aliases}] impl[{fmtObs o} exc={(splitEq excT).2}] model[{fmtObs mo}]"
          -- judged for soundness only: the caller restricted the families himself
          if callSoundOk (offered d) r.action o then st else badJudge st s!"callx {m} [{aliases}]: impl[{fmtObs o}] went to a service that is not an offered definer"
      | _, _ => badCorr st s!"callx {m}: no profile device or unknown method"
  -- availability flag, subscription history, earlier failed calls: neither routing nor the counters
  -- depend on them (the model has no such state), so these lines change nothing here
  | "state" :: _ => st
  | ["t0", t] =>
      let t0 := t.toInt!
      { st with igd := some { tLast := t0 }, prev := ⟨t0, .none, .none, .none, .none⟩ }
  | "sample" :: t :: raws =>
      match st.prof, raws.mapM parseRaw with
      | some d, some rs =>
          let rows := getterMethods.filterMap rowOf
          -- model: a getter whose route is none returns None without asking
          let availM := rows.map fun r => (route (ordOf st.order) Gen.C20Igd.igdServiceTypes d r).isSome
          -- judge: "available" = some offered service defines the action
          let availJ := rows.map fun r => availSpec d (specAction r.method)
          match toReadings (mask availM rs), toReadings (mask availJ rs) with
          | some rm, some rj => { st with pending := some (t.toInt!, rm, rj) }
          | _, _ => badCorr st "sample: expected six readings and six getter rows"
      | _, _ => badCorr st "sample: unparsable"
  | "out" :: rest =>
      match st.pending, st.igd with
      | some (t, rm, rj), some ig =>
          let (ig', mo) := sample ig t rm
          let st := { st with igd := some ig', pending := none }
          -- the implementation's observation
          let io : Option (Except Nat Sample) :=
            match rest with
            | [r] => (match r.splitOn ":" with
                      | ["raised", e] => e.toNat?.map Except.error
                      | _ => none)
            | [ts, a, b, c, d, e, f, r1, r2, r3, r4] =>
                if ts != s!"ts:{t}" then none else do
                  let a ← parseVal a; let b ← parseVal b; let c ← parseVal c; let d ← parseVal d
                  let e ← parseVal e; let f ← parseVal f
                  let r1 ← parseRate r1; let r2 ← parseRate r2; let r3 ← parseRate r3; let r4 ← parseRate r4
                  pure (.ok ⟨a, b, c, d, e, f, r1, r2, r3, r4⟩)
            | _ => none
          match io with
          | none => badCorr (badJudge st "out: unparsable or wrong timestamp") "out: unparsable"
          | some io =>
            let same : Bool := match mo, io with
              | .error e, .error e' => e == e'
              | .ok m, .ok i => m.br == i.br && m.bs == i.bs && m.pr == i.pr && m.ps == i.ps
                  && m.status == i.status && m.ip == i.ip
                  && rateCorr m.rbr i.rbr && rateCorr m.rbs i.rbs && rateCorr m.rpr i.rpr && rateCorr m.rps i.rps
              | _, _ => false
            let st := if same then st else
              badCorr st (s!"sample t={t}: impl[{" ".intercalate rest}] model[" ++
                (match mo with
                 | .error e => s!"raised:{e}"
                 | .ok m => " ".intercalate ([m.br, m.bs, m.pr, m.ps, m.status, m.ip].map fmtVal ++ [m.rbr, m.rbs, m.rpr, m.rps].map fmtRate)) ++ "]")
            let (ok, p') := sampleOk st.prev t rj io
            let st := { st with prev := p' }
            if ok then st else badJudge st s!"sample t={t} prev.t={st.prev.t}: [{" ".intercalate rest}] violates totals/rates/isolation"
      | _, _ => badCorr st "out without sample"
  | _ => badCorr st s!"bad-line {" ".intercalate toks}"

def main : IO UInt32 := do
  let lines ← readLines (← IO.getStdin)
  let out ← IO.getStdout
  let mut st : St := {}
  let mut cur := ""
  let mut n := 0
  for line in lines do
    let toks := tokens line
    match toks with
    | ["case", id] => cur := id; st := {}
    | ["end"] =>
        n := n + 1
        out.putStrLn s!"case {cur} corr={if st.corrOk then "ok" else "MISMATCH"} judge={if st.judgeOk then "ok" else "FAIL"} {" ; ".intercalate (st.notes.take 3)}"
    | [] => pure ()
    | _ => st := stepLine st toks
  out.putStrLn s!"done {n}"
  return 0

end Upnp.Drv.C20
