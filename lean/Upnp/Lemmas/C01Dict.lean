/-
  Dictionary-level lemmas for C01: what look-ups in the decoded header map return, through the
  C16 simulation (`Lemmas/C16Sim.lean`).
-/
import Upnp.Lemmas.C16Sim
import Upnp.Lemmas.C01Wire
namespace Upnp.C01
open Upnp PyDict CIDict Upnp.C16

/-! ### generic dict facts -/
section generic
variable {κ ν : Type} [DecidableEq κ]

theorem set_not_mem (d : PyDict κ ν) (k : κ) (v : ν) (h : k ∉ keys d) : PyDict.set d k v = d ++ [(k, v)] := by
  induction d with
  | nil => rfl
  | cons p r ih =>
    obtain ⟨k', v'⟩ := p
    have h1 : k' ≠ k := fun e => h (by simp [keys, e])
    have h2 : k ∉ keys r := fun e => h (by simp [keys] at e ⊢; exact Or.inr e)
    simp [PyDict.set, h1, ih h2]

theorem foldl_set_nodup (a l : PyDict κ ν) (h : (keys (a ++ l)).Nodup) :
    l.foldl (fun acc p => PyDict.set acc p.1 p.2) a = a ++ l := by
  induction l generalizing a with
  | nil => simp
  | cons p r ih =>
    have hp : p.1 ∉ keys a := by
      simp only [keys, List.map_append, List.map_cons, List.nodup_append, List.nodup_cons] at h
      intro e
      exact h.2.2 _ (by simpa [keys] using e) _ (List.mem_cons_self) rfl
    simp only [List.foldl_cons]
    rw [set_not_mem a p.1 p.2 hp, ih (a ++ [(p.1, p.2)]) (by simpa using h)]
    simp

theorem ofList_nodup (l : PyDict κ ν) (h : (keys l).Nodup) : PyDict.ofList l = l := by
  unfold PyDict.ofList PyDict.merge
  simpa using foldl_set_nodup [] l (by simpa using h)

theorem mem_iff_get? {d : PyDict κ ν} (hn : (keys d).Nodup) (k : κ) (v : ν) :
    (k, v) ∈ d ↔ get? d k = some v :=
  ⟨get?_of_mem_nodup hn, mem_of_get?⟩

/-- the last entry whose key satisfies `P` -/
theorem find?_reverse_unique (d : PyDict κ ν) (P : κ × ν → Bool) (p : κ × ν) (hp : p ∈ d) (hP : P p = true)
    (hu : ∀ q ∈ d, P q = true → q = p) : d.reverse.find? P = some p := by
  cases hf : d.reverse.find? P with
  | none =>
    have := List.find?_eq_none.mp hf p (by simpa using hp)
    simp [hP] at this
  | some q =>
    have hq : q ∈ d := by simpa using List.mem_of_find?_eq_some hf
    rw [hu q hq (List.find?_some hf)]

theorem find?_reverse_none (d : PyDict κ ν) (P : κ × ν → Bool) (h : ∀ q ∈ d, P q = false) :
    d.reverse.find? P = none := by
  rw [List.find?_eq_none]; intro q hq; simp [h q (by simpa using hq)]

theorem find?_reverse_last (d : PyDict κ ν) (P : κ × ν → Bool) (p : κ × ν) (hP : P p = true) :
    (d ++ [p]).reverse.find? P = some p := by
  simp [List.find?, hP]

end generic

/-! ### the parsed pairs of a well-formed header list -/

/-- the sent headers as dict items -/
def hsV (hs : List (Bytes × Bytes)) : PyDict Bytes Val := hs.map fun p => (p.1, Val.str p.2)

theorem distinctCI_spec {ks : List Bytes} (h : distinctCI ks = true) : (ks.map lower).Nodup := by
  induction ks with
  | nil => simp
  | cons k r ih =>
    simp only [distinctCI, Bool.and_eq_true, Bool.not_eq_true', List.contains_eq_mem,
      decide_eq_false_iff_not] at h
    simp only [List.map_cons, List.nodup_cons]
    exact ⟨h.1, ih h.2⟩

theorem ci_unique {hs : List (Bytes × Bytes)} (hd : distinctCI (hs.map (·.1)) = true)
    {p q : Bytes × Bytes} (hp : p ∈ hs) (hq : q ∈ hs) (e : lower p.1 = lower q.1) : p = q := by
  induction hs with
  | nil => cases hp
  | cons a r ih =>
    simp only [List.map_cons, distinctCI, Bool.and_eq_true, Bool.not_eq_true', List.contains_eq_mem,
      decide_eq_false_iff_not, List.mem_map, not_exists, not_and] at hd
    have hna : ∀ x ∈ r, lower x.1 ≠ lower a.1 := by
      intro x hx ex
      exact hd.1 x.1 ⟨x, hx, rfl⟩ ex
    rcases List.mem_cons.mp hp with rfl | hp' <;> rcases List.mem_cons.mp hq with rfl | hq'
    · rfl
    · exact absurd e.symm (hna q hq')
    · exact absurd e (hna p hp')
    · exact ih hd.2 hp' hq'

theorem keys_hsV (hs : List (Bytes × Bytes)) : keys (hsV hs) = hs.map (·.1) := by
  simp [hsV, keys, Function.comp_def]

theorem nodup_hsV {hs : List (Bytes × Bytes)} (hd : distinctCI (hs.map (·.1)) = true) : (keys (hsV hs)).Nodup := by
  rw [keys_hsV]
  have := distinctCI_spec hd
  exact nodup_of_map' lower this

theorem find?_ci {hs : List (Bytes × Bytes)} (hd : distinctCI (hs.map (·.1)) = true)
    {p : Bytes × Bytes} (hp : p ∈ hs) (x : Bytes) (e : lower p.1 = x) :
    hs.find? (fun q => lower q.1 == x) = some p := by
  cases hf : hs.find? (fun q => lower q.1 == x) with
  | none =>
    have := List.find?_eq_none.mp hf p hp
    simp [e] at this
  | some q =>
    have hq := List.mem_of_find?_eq_some hf
    have hx : lower q.1 = x := by simpa using List.find?_some hf
    rw [ci_unique hd hq hp (hx.trans e.symm)]

theorem mdGet_wf {hs : List (Bytes × Bytes)} (hd : distinctCI (hs.map (·.1)) = true)
    {p : Bytes × Bytes} (hp : p ∈ hs) : mdGet hs (lower p.1) = some p.2 := by
  unfold mdGet; rw [find?_ci hd hp _ rfl]; rfl

theorem mdGet_none {hs : List (Bytes × Bytes)} {x : Bytes} (h : ∀ p ∈ hs, lower p.1 ≠ x) : mdGet hs x = none := by
  unfold mdGet
  rw [List.find?_eq_none.mpr (by intro p hp; simpa using h p hp)]; rfl

theorem mdToDict_wf {hs : List (Bytes × Bytes)} (hd : distinctCI (hs.map (·.1)) = true) :
    mdToDict hs = hsV hs := by
  unfold mdToDict
  have : (hs.map fun p => (p.1, Val.str (firstCI hs p.1))) = hsV hs := by
    unfold hsV
    apply List.map_congr_left
    intro p hp
    unfold firstCI
    rw [find?_ci hd hp _ rfl]
  rw [this, ofList_nodup _ (nodup_hsV hd)]

/-! ### look-ups in the decoded map -/

/-- value of the last entry of a dict whose key folds to `x` -/
def lastCI (D : PyDict Bytes Val) (x : Bytes) : Option Val :=
  (D.reverse.find? (fun p => decide (lower p.1 = x))).map (·.2)

theorem callMeta_keys (now : Int) (loc : Option Addr) (src : Addr) :
    keys (callMeta now loc src) = [kTimestamp, kRemote, kPort, kLocal] := rfl

theorem callMeta_lower (now : Int) (loc : Option Addr) (src : Addr) :
    ∀ p ∈ callMeta now loc src, lower p.1 = p.1 := by
  intro p hp
  simp only [callMeta, List.mem_cons, List.not_mem_nil, or_false] at hp
  have hk : lower kTimestamp = kTimestamp ∧ lower kRemote = kRemote ∧ lower kPort = kPort ∧ lower kLocal = kLocal := by decide
  rcases hp with rfl | rfl | rfl | rfl
  · exact hk.1
  · exact hk.2.1
  · exact hk.2.2.1
  · exact hk.2.2.2

theorem callMeta_nodup (now : Int) (loc : Option Addr) (src : Addr) :
    (keys (callMeta now loc src)).Nodup := by rw [callMeta_keys]; decide

/-- overlaying a dict with lower-case, unique keys: its entries win, the rest shows through -/
theorem lookup_writeAll_lower (m : SMap Bytes Val) (E : PyDict Bytes Val) (hn : (keys E).Nodup)
    (hl : ∀ p ∈ E, lower p.1 = p.1) (x : Bytes) :
    (get? (SMap.writeAll lower m E) x).map (·.2) = (get? E x).or ((get? m x).map (·.2)) := by
  have hk : keys (E.map fun p => (lower p.1, (p.1, p.2))) = keys E := by
    simp only [keys, List.map_map]
    apply List.map_congr_left
    intro p hp; exact hl p hp
  rw [writeAll_eq_overlay, get?_overlay _ _ (by rw [hk]; exact hn)]
  have : (get? (E.map fun p => (lower p.1, (p.1, p.2))) x).map (·.2) = get? E x := by
    clear hk hn
    induction E with
    | nil => rfl
    | cons p r ih =>
      have hp := hl p (by simp)
      have := ih (fun q hq => hl q (List.mem_cons_of_mem _ hq))
      by_cases e : p.1 = x
      · subst e; simp [get?, hp]
      · simp [get?, hp, e, this]
  rw [← this]
  cases get? (E.map fun p => (lower p.1, (p.1, p.2))) x <;> rfl

/-- the decoded header map is in simulation with "received items, then own data, then call metadata"
    written in this order into the abstract map of C16 -/
theorem sim_decoded (D : PyDict Bytes Val) (hD : (keys D).Nodup) (E : PyDict Bytes Val) (hn : (keys E).Nodup)
    (hl : ∀ p ∈ E, lower p.1 = p.1) (now : Int) (loc : Option Addr) (src : Addr) :
    Sim lower (combineLower (combineLower (ofDict lower D) E) (callMeta now loc src))
      (SMap.writeAll lower (SMap.writeAll lower (SMap.writeAll lower [] D) E) (callMeta now loc src)) := by
  have h0 := sim_ofDict lower D
  rw [ofList_nodup D hD] at h0
  have h1 := sim_combineLower lower h0 E hl
  rw [ofList_nodup _ hn] at h1
  have h2 := sim_combineLower lower h1 (callMeta now loc src) (callMeta_lower now loc src)
  rw [ofList_nodup _ (callMeta_nodup now loc src)] at h2
  exact h2

theorem get?_writeAll_nil_last (D : PyDict Bytes Val) (x : Bytes) :
    (get? (SMap.writeAll lower [] D) x).map (·.2) = lastCI D x := by
  rw [get?_writeAll_nil, ← List.map_reverse, get?_map_find?]
  unfold lastCI
  cases D.reverse.find? (fun p => decide (lower p.1 = x)) <;> rfl

/-- a look-up in the decoded map: call metadata first, then the decoder's own data, then the last
    received entry with that folded name -/
theorem getitem_decoded (D : PyDict Bytes Val) (hD : (keys D).Nodup) (E : PyDict Bytes Val) (hn : (keys E).Nodup)
    (hl : ∀ p ∈ E, lower p.1 = p.1) (now : Int) (loc : Option Addr) (src : Addr) (k : Bytes) :
    getitem lower (combineLower (combineLower (ofDict lower D) E) (callMeta now loc src)) k
      = (get? (callMeta now loc src) (lower k)).or ((get? E (lower k)).or (lastCI D (lower k))) := by
  have hs := sim_decoded D hD E hn hl now loc src
  rw [getitem_abs lower hs.inv]
  unfold SMap.lookup
  rw [hs.same, lookup_writeAll_lower _ _ (callMeta_nodup now loc src) (callMeta_lower now loc src),
    lookup_writeAll_lower _ _ hn hl, get?_writeAll_nil_last]

/-! ### the `extra` dict -/

def locOf (hs : List (Bytes × Bytes)) : Bytes := (mdGet hs kLocation).getD []

theorem key_ne : kHost ≠ kUdn ∧ kHost ≠ kLocOrig ∧ kHost ≠ kLocation ∧ kUdn ≠ kLocOrig ∧ kUdn ≠ kLocation
    ∧ kLocOrig ≠ kLocation := by decide

theorem key_lower : lower kHost = kHost ∧ lower kUdn = kUdn ∧ lower kLocOrig = kLocOrig ∧ lower kLocation = kLocation := by
  decide

def udnPart (udn : Option Bytes) : PyDict Bytes Val :=
  match udn with | some u => [(kUdn, Val.str u)] | none => []

theorem udnPart_keys (udn : Option Bytes) : ∀ k ∈ keys (udnPart udn), k = kUdn := by
  intro k hk; cases udn <;> simp [udnPart, keys] at hk; exact hk

theorem udnPart_get? (udn : Option Bytes) : get? (udnPart udn) kUdn = udn.map Val.str := by
  cases udn <;> simp [udnPart, get?]

/-- normal form of the `extra` dict -/
theorem extras_eq (hs : List (Bytes × Bytes)) (udn : Option Bytes) (a0 : Addr) :
    extras hs udn a0 =
      (kHost, Val.str (hostString a0)) ::
        (udnPart udn
          ++ (if allPyWs (locOf hs) = true then [] else [(kLocOrig, Val.str (locOf hs)), (kLocation, adjVal (locOf hs) a0)])) := by
  obtain ⟨h1, h2, h3, h4, h5, h6⟩ := key_ne
  unfold extras locOf udnPart
  cases udn <;> by_cases hw : allPyWs ((mdGet hs kLocation).getD []) = true <;>
    simp [hw, PyDict.set, h1, h2, h3, h4, h5, h6]

theorem extras_keys (hs : List (Bytes × Bytes)) (udn : Option Bytes) (a0 : Addr) :
    ∀ k ∈ keys (extras hs udn a0), lower k = k ∧ (k = kHost ∨ k = kUdn ∨ k = kLocOrig ∨ k = kLocation) := by
  obtain ⟨l1, l2, l3, l4⟩ := key_lower
  intro k hk
  rw [extras_eq] at hk
  cases udn <;> by_cases hw : allPyWs (locOf hs) = true <;> simp [keys, hw, udnPart] at hk <;>
    (rcases hk with rfl | rfl | rfl | rfl) <;> simp_all

theorem extras_nodup (hs : List (Bytes × Bytes)) (udn : Option Bytes) (a0 : Addr) :
    (keys (extras hs udn a0)).Nodup := by
  obtain ⟨h1, h2, h3, h4, h5, h6⟩ := key_ne
  rw [extras_eq]
  cases udn <;> by_cases hw : allPyWs (locOf hs) = true <;> simp [keys, hw, udnPart, h1, h2, h3, h4, h5, h6]

/-! ### the received items of a well-formed header list -/

section sent
variable {hs : List (Bytes × Bytes)} (hd : distinctCI (hs.map (·.1)) = true)
include hd

theorem hsV_get? {p : Bytes × Bytes} (hp : p ∈ hs) : get? (hsV hs) p.1 = some (Val.str p.2) :=
  get?_of_mem_nodup (nodup_hsV hd) (List.mem_map.mpr ⟨p, hp, rfl⟩)

omit hd in
theorem hsV_mem {k : Bytes} {v : Val} (h : (k, v) ∈ hsV hs) : ∃ p ∈ hs, p.1 = k ∧ v = Val.str p.2 := by
  obtain ⟨p, hp, e⟩ := List.mem_map.mp h
  simp only [Prod.mk.injEq] at e
  exact ⟨p, hp, e.1, e.2.symm⟩

/-- a sent name is found, by its folded form, with its sent value -/
theorem lastCI_sent {p : Bytes × Bytes} (hp : p ∈ hs) : lastCI (hsV hs) (lower p.1) = some (Val.str p.2) := by
  unfold lastCI
  rw [find?_reverse_unique _ _ (p.1, Val.str p.2)]
  · rfl
  · exact List.mem_map.mpr ⟨p, hp, rfl⟩
  · simp
  · intro q hq hP
    have hl : lower q.1 = lower p.1 := by simpa using hP
    obtain ⟨p', hp', e1, e2⟩ := hsV_mem (k := q.1) (v := q.2) hq
    have : p' = p := ci_unique hd hp' hp (by rw [e1]; exact hl)
    subst this
    exact Prod.ext e1.symm e2

omit hd in
/-- a folded name no sent header has is not found among the received items -/
theorem lastCI_none (x : Bytes) (hx : ∀ p ∈ hs, lower p.1 ≠ x) : lastCI (hsV hs) x = none := by
  unfold lastCI
  rw [find?_reverse_none]; · rfl
  intro q hq
  obtain ⟨p', hp', e1, _⟩ := hsV_mem (k := q.1) (v := q.2) hq
  simpa [← e1] using hx p' hp'

end sent

/-! ### the decoded map of a well-formed message -/

/-- no sent name folds to a metadata key other than `location` -/
def NotReserved (x : Bytes) : Prop :=
  x ≠ kHost ∧ x ≠ kUdn ∧ x ≠ kLocOrig ∧ x ≠ kTimestamp ∧ x ≠ kRemote ∧ x ≠ kPort ∧ x ≠ kLocal

theorem callMeta_get?_none (now : Int) (loc : Option Addr) (src : Addr) (x : Bytes)
    (h : x ≠ kTimestamp ∧ x ≠ kRemote ∧ x ≠ kPort ∧ x ≠ kLocal) : get? (callMeta now loc src) x = none := by
  obtain ⟨a, b, c, d⟩ := h
  simp [callMeta, get?, Ne.symm a, Ne.symm b, Ne.symm c, Ne.symm d]

theorem meta_ne : kHost ≠ kTimestamp ∧ kHost ≠ kRemote ∧ kHost ≠ kPort ∧ kHost ≠ kLocal
    ∧ kUdn ≠ kTimestamp ∧ kUdn ≠ kRemote ∧ kUdn ≠ kPort ∧ kUdn ≠ kLocal
    ∧ kLocOrig ≠ kTimestamp ∧ kLocOrig ≠ kRemote ∧ kLocOrig ≠ kPort ∧ kLocOrig ≠ kLocal
    ∧ kLocation ≠ kTimestamp ∧ kLocation ≠ kRemote ∧ kLocation ≠ kPort ∧ kLocation ≠ kLocal
    ∧ kTimestamp ≠ kRemote ∧ kTimestamp ≠ kPort ∧ kRemote ≠ kPort := by decide

theorem extras_lower (hs : List (Bytes × Bytes)) (udn : Option Bytes) (a0 : Addr) :
    ∀ p ∈ extras hs udn a0, lower p.1 = p.1 := fun p hp =>
  (extras_keys hs udn a0 p.1 (List.mem_map_of_mem (f := (·.1)) hp)).1

/-- look-ups in ANY decoded map (any received pairs): call metadata, then own data, then received -/
theorem headers_get (pairs : List (Bytes × Bytes)) (udn : Option Bytes) (a0 : Addr) (now : Int) (loc : Option Addr)
    (src : Addr) (k : Bytes) :
    getitem lower (combineLower (headersOf pairs udn a0) (callMeta now loc src)) k
      = (get? (callMeta now loc src) (lower k)).or
          ((get? (extras pairs udn a0) (lower k)).or (lastCI (mdToDict pairs) (lower k))) :=
  getitem_decoded _ (nodup_keys_ofList _) _ (extras_nodup pairs udn a0) (extras_lower pairs udn a0) now loc src k

theorem headers_inv (pairs : List (Bytes × Bytes)) (udn : Option Bytes) (a0 : Addr) (now : Int) (loc : Option Addr)
    (src : Addr) : Inv lower (combineLower (headersOf pairs udn a0) (callMeta now loc src)) :=
  (sim_decoded _ (nodup_keys_ofList _) _ (extras_nodup pairs udn a0) (extras_lower pairs udn a0) now loc src).inv

/-- the header map `decode` returns for a well-formed built message (see `decode_build_wire`) -/
def decoded (hs : List (Bytes × Bytes)) (loc : Option Addr) (src : Addr) (now : Int) : Hdrs :=
  combineLower (headersOf hs (udnOf hs) (withoutPort src)) (callMeta now loc src)

section decoded
variable {hs : List (Bytes × Bytes)} (hd : distinctCI (hs.map (·.1)) = true)
  (hr : ∀ p ∈ hs, NotReserved (lower p.1)) (loc : Option Addr) (src : Addr) (now : Int)
include hd

theorem decoded_get (k : Bytes) :
    getitem lower (decoded hs loc src now) k
      = (get? (callMeta now loc src) (lower k)).or
          ((get? (extras hs (udnOf hs) (withoutPort src)) (lower k)).or (lastCI (hsV hs) (lower k))) := by
  unfold decoded
  rw [headers_get, mdToDict_wf hd]

theorem decoded_inv : Inv lower (decoded hs loc src now) := by
  have _ := hd
  exact headers_inv _ _ _ _ _ _

include hr

theorem not_extra_key {p : Bytes × Bytes} (hp : p ∈ hs) (hl : lower p.1 ≠ kLocation) (udn : Option Bytes) (a0 : Addr) :
    get? (extras hs udn a0) (lower p.1) = none := by
  rw [get?_eq_none_iff]
  intro e
  obtain ⟨a, b, c, _⟩ := hr p hp
  rcases (extras_keys hs udn a0 _ e).2 with h | h | h | h
  · exact a h
  · exact b h
  · exact c h
  · exact hl h

/-- a sent header other than `location`, looked up by ANY spelling of its name -/
theorem decoded_sent {p : Bytes × Bytes} (hp : p ∈ hs) (hl : lower p.1 ≠ kLocation) (k : Bytes)
    (hk : lower k = lower p.1) : getitem lower (decoded hs loc src now) k = some (Val.str p.2) := by
  obtain ⟨_, _, _, d, e, f, g⟩ := hr p hp
  rw [decoded_get hd, hk, callMeta_get?_none _ _ _ _ ⟨d, e, f, g⟩, not_extra_key hd hr hp hl, lastCI_sent hd hp]
  rfl

/-- a sent `location` whose text is blank stays as sent -/
theorem decoded_location_blank {p : Bytes × Bytes} (hp : p ∈ hs) (hl : lower p.1 = kLocation)
    (hw : allPyWs p.2 = true) (k : Bytes) (hk : lower k = kLocation) :
    getitem lower (decoded hs loc src now) k = some (Val.str p.2) := by
  obtain ⟨_, _, _, _, _, _, _, _, _, _, _, _, m1, m2, m3, m4, _⟩ := meta_ne
  have hloc : locOf hs = p.2 := by unfold locOf; rw [← hl, mdGet_wf hd hp]; rfl
  have hE : get? (extras hs (udnOf hs) (withoutPort src)) kLocation = none := by
    rw [extras_eq, hloc]
    obtain ⟨_, _, h3, _, h5, _⟩ := key_ne
    cases udnOf hs <;> simp [get?, hw, udnPart, h3, h5]
  rw [decoded_get hd, hk, callMeta_get?_none _ _ _ _ ⟨m1, m2, m3, m4⟩, hE, ← hl, lastCI_sent hd hp]
  rfl

/-- a sent `location` with text comes back adjusted, the sent text under `_location_original` -/
theorem decoded_location {p : Bytes × Bytes} (hp : p ∈ hs) (hl : lower p.1 = kLocation)
    (hw : allPyWs p.2 = false) :
    (∀ k, lower k = kLocation → getitem lower (decoded hs loc src now) k = some (adjVal p.2 (withoutPort src)))
    ∧ (∀ k, lower k = kLocOrig → getitem lower (decoded hs loc src now) k = some (Val.str p.2)) := by
  obtain ⟨_, _, _, _, _, _, _, _, n1, n2, n3, n4, m1, m2, m3, m4, _⟩ := meta_ne
  obtain ⟨_, h2, h3, h4, h5, h6⟩ := key_ne
  have hloc : locOf hs = p.2 := by unfold locOf; rw [← hl, mdGet_wf hd hp]; rfl
  constructor
  · intro k hk
    rw [decoded_get hd, hk, callMeta_get?_none _ _ _ _ ⟨m1, m2, m3, m4⟩, extras_eq, hloc]
    cases udnOf hs <;> simp [hw, get?, udnPart, h3, h5, h6]
  · intro k hk
    rw [decoded_get hd, hk, callMeta_get?_none _ _ _ _ ⟨n1, n2, n3, n4⟩, extras_eq, hloc]
    cases udnOf hs <;> simp [hw, get?, udnPart, h2, h4, h6]

omit hr in
theorem decoded_host (k : Bytes) (hk : lower k = kHost) :
    getitem lower (decoded hs loc src now) k = some (Val.str (hostString src)) := by
  obtain ⟨a, b, c, d, _⟩ := meta_ne
  rw [decoded_get hd, hk, callMeta_get?_none _ _ _ _ ⟨a, b, c, d⟩, extras_eq]
  simp [get?]; rfl

theorem decoded_udn (k : Bytes) (hk : lower k = kUdn) :
    getitem lower (decoded hs loc src now) k = (udnOf hs).map Val.str := by
  obtain ⟨_, _, _, _, a, b, c, d, _⟩ := meta_ne
  obtain ⟨h1, _, _, h4, h5, _⟩ := key_ne
  rw [decoded_get hd, hk, callMeta_get?_none _ _ _ _ ⟨a, b, c, d⟩,
    lastCI_none kUdn (fun q hq => (hr q hq).2.1), extras_eq]
  cases hu : udnOf hs with
  | some u => simp [get?, udnPart, h1]
  | none =>
    -- no own `_udn`: a received header of that name would show through; well-formed lists have none
    by_cases hw : allPyWs (locOf hs) = true <;>
      simp [get?, udnPart, hw, h1, Ne.symm h4, Ne.symm h5]

omit hr in
theorem decoded_port (k : Bytes) (hk : lower k = kPort) :
    getitem lower (decoded hs loc src now) k = some (Val.int src.port) := by
  obtain ⟨_, _, _, _, _, _, _, _, _, _, _, _, _, _, _, _, _, t2, t3⟩ := meta_ne
  rw [decoded_get hd, hk]
  simp [callMeta, get?, t2, t3]

omit hr in
theorem decoded_remote (k : Bytes) (hk : lower k = kRemote) :
    getitem lower (decoded hs loc src now) k = some (Val.addr src) := by
  obtain ⟨_, _, _, _, _, _, _, _, _, _, _, _, _, _, _, _, t1, _⟩ := meta_ne
  rw [decoded_get hd, hk]
  simp [callMeta, get?, t1]

/-! #### names -/

omit hd hr in
theorem getitem_some_iter {d : Hdrs} (hi : Inv lower d) {k : Bytes} {v : Val}
    (h : getitem lower d k = some v) : ∃ n ∈ iter d, lower n = lower k := by
  unfold getitem at h
  cases hc : get? d.cmap (lower k) with
  | none => simp [hc] at h
  | some n =>
    rw [hc] at h
    simp only [Option.bind_some] at h
    refine ⟨n, ?_, ((hi.cmapSpec _ _).mp hc).2⟩
    exact (get?_isSome_iff _ _).mp (by simp [h])

omit hd hr in
theorem iter_getitem_some {d : Hdrs} (hi : Inv lower d) {n : Bytes} (h : n ∈ iter d) :
    (getitem lower d n).isSome := by
  have hs : (get? d.data n).isSome := (get?_isSome_iff _ _).mpr h
  have hc := (hi.cmapSpec (lower n) n).mpr ⟨hs, rfl⟩
  unfold getitem
  rw [hc]; simpa using hs

omit hr in
/-- every name of the decoded map folds to a sent name or to a metadata key -/
theorem decoded_names_sub {n : Bytes} (h : n ∈ iter (decoded hs loc src now)) :
    lower n ∈ hs.map (fun p => lower p.1)
    ∨ lower n ∈ [kHost, kUdn, kLocOrig, kLocation, kTimestamp, kRemote, kPort, kLocal] := by
  have hsome := iter_getitem_some (decoded_inv hd loc src now) h
  rw [decoded_get hd] at hsome
  cases hm : get? (callMeta now loc src) (lower n) with
  | some v =>
    right
    have := (get?_isSome_iff _ _).mp (by simp [hm] : (get? (callMeta now loc src) (lower n)).isSome)
    rw [callMeta_keys] at this
    simp only [List.mem_cons, List.not_mem_nil, or_false] at this ⊢
    rcases this with e | e | e | e <;> simp [e]
  | none =>
    rw [hm] at hsome
    simp only [Option.none_or] at hsome
    cases he : get? (extras hs (udnOf hs) (withoutPort src)) (lower n) with
    | some v =>
      right
      have hk := (get?_isSome_iff _ _).mp (by simp [he] : (get? (extras hs (udnOf hs) (withoutPort src)) (lower n)).isSome)
      obtain ⟨_, l2⟩ := extras_keys hs _ _ _ hk
      simp only [List.mem_cons, List.not_mem_nil, or_false]
      rcases l2 with e | e | e | e <;> simp [e]
    | none =>
      left
      rw [he] at hsome
      simp only [Option.none_or, lastCI, Option.isSome_map] at hsome
      obtain ⟨q, hq⟩ := Option.isSome_iff_exists.mp hsome
      have hqm : q ∈ hsV hs := by simpa using List.mem_of_find?_eq_some hq
      have hql : lower q.1 = lower n := by simpa using List.find?_some hq
      obtain ⟨p', hp', e1, _⟩ := hsV_mem (k := q.1) (v := q.2) hqm
      exact List.mem_map.mpr ⟨p', hp', by rw [e1]; exact hql⟩

/-- every sent name is a name of the decoded map (in some spelling) -/
theorem decoded_names_sup {p : Bytes × Bytes} (hp : p ∈ hs) :
    ∃ n ∈ iter (decoded hs loc src now), lower n = lower p.1 := by
  by_cases hl : lower p.1 = kLocation
  · by_cases hw : allPyWs p.2 = true
    · exact getitem_some_iter (decoded_inv hd loc src now)
        (decoded_location_blank hd hr loc src now hp hl hw p.1 hl)
    · exact getitem_some_iter (decoded_inv hd loc src now)
        ((decoded_location hd hr loc src now hp hl (by simpa using hw)).1 p.1 hl)
  · exact getitem_some_iter (decoded_inv hd loc src now) (decoded_sent hd hr loc src now hp hl p.1 rfl)

omit hr in
/-- no two names of the decoded map fold to the same name -/
theorem decoded_names_nodup : ((iter (decoded hs loc src now)).map lower).Nodup := by
  have := (decoded_inv hd loc src now).absNodup lower
  rwa [keys_abs] at this

end decoded

/-! ### observations -/

theorem lookupCI_observe (probes : List Bytes) (h : Hdrs) (k : Bytes) (hc : ∃ q ∈ probes, lower q = lower k) :
    (observe probes h).lookupCI k = some (getitem lower h k) := by
  unfold Obs.lookupCI observe
  simp only [List.find?_map]
  cases hf : probes.find? ((fun p : Bytes × Option Val => lower p.1 == lower k) ∘ fun k => (k, getitem lower h k)) with
  | none =>
    obtain ⟨q, hq, e⟩ := hc
    have := List.find?_eq_none.mp hf q hq
    simp [e] at this
  | some q =>
    have hq : lower q = lower k := by simpa using List.find?_some hf
    simp only [Option.map_some]
    unfold getitem; rw [hq]

theorem distinctCI_of_nodup {ks : List Bytes} (h : (ks.map lower).Nodup) : distinctCI ks = true := by
  induction ks with
  | nil => rfl
  | cons k r ih =>
    simp only [List.map_cons, List.nodup_cons] at h
    simp only [distinctCI, Bool.and_eq_true, Bool.not_eq_true', List.contains_eq_mem, decide_eq_false_iff_not]
    exact ⟨h.1, ih h.2⟩

end Upnp.C01
