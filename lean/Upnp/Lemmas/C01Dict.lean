/-
  Dictionary-level lemmas for C01: what look-ups in the decoded header map return, through the
  C16 simulation (`Lemmas/C16Sim.lean`).
-/
import Upnp.Lemmas.C16Sim
import Upnp.Lemmas.C01Wire
namespace Upnp.C01
open Upnp PyDict CIDict Upnp.C16

/-! ### generic dict facts -/
section generic
variable {κ ν : Type} [DecidableEq κ]

theorem set_not_mem (d : PyDict κ ν) (k : κ) (v : ν) (h : k ∉ keys d) : PyDict.set d k v = d ++ [(k, v)] := by
  induction d with
  | nil => rfl
  | cons p r ih =>
    obtain ⟨k', v'⟩ := p
    have h1 : k' ≠ k := fun e => h (by simp [keys, e])
    have h2 : k ∉ keys r := fun e => h (by simp [keys] at e ⊢; exact Or.inr e)
    simp [PyDict.set, h1, ih h2]

theorem foldl_set_nodup (a l : PyDict κ ν) (h : (keys (a ++ l)).Nodup) :
    l.foldl (fun acc p => PyDict.set acc p.1 p.2) a = a ++ l := by
  induction l generalizing a with
  | nil => simp
  | cons p r ih =>
    have hp : p.1 ∉ keys a := by
      simp only [keys, List.map_append, List.map_cons, List.nodup_append, List.nodup_cons] at h
      intro e
      exact h.2.2 _ (by simpa [keys] using e) _ (List.mem_cons_self) rfl
    simp only [List.foldl_cons]
    rw [set_not_mem a p.1 p.2 hp, ih (a ++ [(p.1, p.2)]) (by simpa using h)]
    simp

theorem ofList_nodup (l : PyDict κ ν) (h : (keys l).Nodup) : PyDict.ofList l = l := by
  unfold PyDict.ofList PyDict.merge
  simpa using foldl_set_nodup [] l (by simpa using h)

theorem mem_iff_get? {d : PyDict κ ν} (hn : (keys d).Nodup) (k : κ) (v : ν) :
    (k, v) ∈ d ↔ get? d k = some v :=
  ⟨get?_of_mem_nodup hn, mem_of_get?⟩

/-- the last entry whose key satisfies `P` -/
theorem find?_reverse_unique (d : PyDict κ ν) (P : κ × ν → Bool) (p : κ × ν) (hp : p ∈ d) (hP : P p = true)
    (hu : ∀ q ∈ d, P q = true → q = p) : d.reverse.find? P = some p := by
  cases hf : d.reverse.find? P with
  | none =>
    have := List.find?_eq_none.mp hf p (by simpa using hp)
    simp [hP] at this
  | some q =>
    have hq : q ∈ d := by simpa using List.mem_of_find?_eq_some hf
    rw [hu q hq (List.find?_some hf)]

theorem find?_reverse_none (d : PyDict κ ν) (P : κ × ν → Bool) (h : ∀ q ∈ d, P q = false) :
    d.reverse.find? P = none := by
  rw [List.find?_eq_none]; intro q hq; simp [h q (by simpa using hq)]

theorem find?_reverse_last (d : PyDict κ ν) (P : κ × ν → Bool) (p : κ × ν) (hP : P p = true) :
    (d ++ [p]).reverse.find? P = some p := by
  simp [List.find?, hP]

end generic

/-! ### the parsed pairs of a well-formed header list -/

/-- the sent headers as dict items -/
def hsV (hs : List (Bytes × Bytes)) : PyDict Bytes Val := hs.map fun p => (p.1, Val.str p.2)

theorem distinctCI_spec {ks : List Bytes} (h : distinctCI ks = true) : (ks.map lower).Nodup := by
  induction ks with
  | nil => simp
  | cons k r ih =>
    simp only [distinctCI, Bool.and_eq_true, Bool.not_eq_true', List.contains_eq_mem,
      decide_eq_false_iff_not] at h
    simp only [List.map_cons, List.nodup_cons]
    exact ⟨h.1, ih h.2⟩

theorem ci_unique {hs : List (Bytes × Bytes)} (hd : distinctCI (hs.map (·.1)) = true)
    {p q : Bytes × Bytes} (hp : p ∈ hs) (hq : q ∈ hs) (e : lower p.1 = lower q.1) : p = q := by
  induction hs with
  | nil => cases hp
  | cons a r ih =>
    simp only [List.map_cons, distinctCI, Bool.and_eq_true, Bool.not_eq_true', List.contains_eq_mem,
      decide_eq_false_iff_not, List.mem_map, not_exists, not_and] at hd
    have hna : ∀ x ∈ r, lower x.1 ≠ lower a.1 := by
      intro x hx ex
      exact hd.1 x.1 ⟨x, hx, rfl⟩ ex
    rcases List.mem_cons.mp hp with rfl | hp' <;> rcases List.mem_cons.mp hq with rfl | hq'
    · rfl
    · exact absurd e.symm (hna q hq')
    · exact absurd e (hna p hp')
    · exact ih hd.2 hp' hq'

theorem keys_hsV (hs : List (Bytes × Bytes)) : keys (hsV hs) = hs.map (·.1) := by
  simp [hsV, keys, Function.comp_def]

theorem nodup_hsV {hs : List (Bytes × Bytes)} (hd : distinctCI (hs.map (·.1)) = true) : (keys (hsV hs)).Nodup := by
  rw [keys_hsV]
  have := distinctCI_spec hd
  exact nodup_of_map' lower this

theorem find?_ci {hs : List (Bytes × Bytes)} (hd : distinctCI (hs.map (·.1)) = true)
    {p : Bytes × Bytes} (hp : p ∈ hs) (x : Bytes) (e : lower p.1 = x) :
    hs.find? (fun q => lower q.1 == x) = some p := by
  cases hf : hs.find? (fun q => lower q.1 == x) with
  | none =>
    have := List.find?_eq_none.mp hf p hp
    simp [e] at this
  | some q =>
    have hq := List.mem_of_find?_eq_some hf
    have hx : lower q.1 = x := by simpa using List.find?_some hf
    rw [ci_unique hd hq hp (hx.trans e.symm)]

theorem mdGet_wf {hs : List (Bytes × Bytes)} (hd : distinctCI (hs.map (·.1)) = true)
    {p : Bytes × Bytes} (hp : p ∈ hs) : mdGet hs (lower p.1) = some p.2 := by
  unfold mdGet; rw [find?_ci hd hp _ rfl]; rfl

theorem mdGet_none {hs : List (Bytes × Bytes)} {x : Bytes} (h : ∀ p ∈ hs, lower p.1 ≠ x) : mdGet hs x = none := by
  unfold mdGet
  rw [List.find?_eq_none.mpr (by intro p hp; simpa using h p hp)]; rfl

theorem mdToDict_wf {hs : List (Bytes × Bytes)} (hd : distinctCI (hs.map (·.1)) = true) :
    mdToDict hs = hsV hs := by
  unfold mdToDict
  have : (hs.map fun p => (p.1, Val.str (firstCI hs p.1))) = hsV hs := by
    unfold hsV
    apply List.map_congr_left
    intro p hp
    unfold firstCI
    rw [find?_ci hd hp _ rfl]
  rw [this, ofList_nodup _ (nodup_hsV hd)]

/-! ### look-ups in the decoded map -/

/-- value of the last entry of a dict whose key folds to `x` -/
def lastCI (D : PyDict Bytes Val) (x : Bytes) : Option Val :=
  (D.reverse.find? (fun p => decide (lower p.1 = x))).map (·.2)

theorem callMeta_keys (now : Int) (loc : Option Addr) (src : Addr) :
    keys (callMeta now loc src) = [kTimestamp, kRemote, kPort, kLocal] := rfl

theorem callMeta_lower (now : Int) (loc : Option Addr) (src : Addr) :
    ∀ p ∈ callMeta now loc src, lower p.1 = p.1 := by
  intro p hp
  simp only [callMeta, List.mem_cons, List.not_mem_nil, or_false] at hp
  have hk : lower kTimestamp = kTimestamp ∧ lower kRemote = kRemote ∧ lower kPort = kPort ∧ lower kLocal = kLocal := by decide
  rcases hp with rfl | rfl | rfl | rfl
  · exact hk.1
  · exact hk.2.1
  · exact hk.2.2.1
  · exact hk.2.2.2

theorem callMeta_nodup (now : Int) (loc : Option Addr) (src : Addr) :
    (keys (callMeta now loc src)).Nodup := by rw [callMeta_keys]; decide

/-- the decoded header map is in simulation with "sent items, then extras, then call metadata"
    written in this order into the abstract map of C16 -/
theorem sim_decoded (D : PyDict Bytes Val) (hD : (keys D).Nodup) (now : Int) (loc : Option Addr) (src : Addr) :
    Sim lower (combineLower (ofDict lower D) (callMeta now loc src))
      (SMap.writeAll lower (SMap.writeAll lower [] D) (callMeta now loc src)) := by
  have h0 := sim_ofDict lower D
  rw [ofList_nodup D hD] at h0
  have h1 := sim_combineLower lower h0 (callMeta now loc src) (callMeta_lower now loc src)
  rw [ofList_nodup _ (callMeta_nodup now loc src)] at h1
  exact h1

theorem get?_writeAll_nil_last (D : PyDict Bytes Val) (x : Bytes) :
    (get? (SMap.writeAll lower [] D) x).map (·.2) = lastCI D x := by
  rw [get?_writeAll_nil, ← List.map_reverse, get?_map_find?]
  unfold lastCI
  cases D.reverse.find? (fun p => decide (lower p.1 = x)) <;> rfl

theorem getitem_decoded (D : PyDict Bytes Val) (hD : (keys D).Nodup) (now : Int) (loc : Option Addr)
    (src : Addr) (k : Bytes) :
    getitem lower (combineLower (ofDict lower D) (callMeta now loc src)) k
      = (get? (callMeta now loc src) (lower k)).or (lastCI D (lower k)) := by
  have hs := sim_decoded D hD now loc src
  rw [getitem_abs lower hs.inv]
  unfold SMap.lookup
  rw [hs.same, writeAll_eq_overlay, get?_overlay _ _ (by
    have : keys ((callMeta now loc src).map fun p => (lower p.1, (p.1, p.2))) = keys (callMeta now loc src) := by
      simp only [keys, List.map_map]
      apply List.map_congr_left
      intro p hp; exact callMeta_lower now loc src p hp
    rw [this]; exact callMeta_nodup now loc src)]
  rw [← get?_writeAll_nil_last]
  have hk : lower kTimestamp = kTimestamp ∧ lower kRemote = kRemote ∧ lower kPort = kPort ∧ lower kLocal = kLocal := by decide
  generalize get? (SMap.writeAll lower [] D) (lower k) = r
  simp only [callMeta, List.map_cons, List.map_nil, hk.1, hk.2.1, hk.2.2.1, hk.2.2.2, get?]
  by_cases h1 : kTimestamp = lower k
  · simp [h1]
  · by_cases h2 : kRemote = lower k
    · simp [h1, h2]
    · by_cases h3 : kPort = lower k
      · simp [h1, h2, h3]
      · by_cases h4 : kLocal = lower k
        · simp [h1, h2, h3, h4]
        · simp [h1, h2, h3, h4]

/-! ### the `extra` dict -/

def locOf (hs : List (Bytes × Bytes)) : Bytes := (mdGet hs kLocation).getD []

theorem key_ne : kHost ≠ kUdn ∧ kHost ≠ kLocOrig ∧ kHost ≠ kLocation ∧ kUdn ≠ kLocOrig ∧ kUdn ≠ kLocation
    ∧ kLocOrig ≠ kLocation := by decide

theorem key_lower : lower kHost = kHost ∧ lower kUdn = kUdn ∧ lower kLocOrig = kLocOrig ∧ lower kLocation = kLocation := by
  decide

def udnPart (udn : Option Bytes) : PyDict Bytes Val :=
  match udn with | some u => [(kUdn, Val.str u)] | none => []

theorem udnPart_keys (udn : Option Bytes) : ∀ k ∈ keys (udnPart udn), k = kUdn := by
  intro k hk; cases udn <;> simp [udnPart, keys] at hk; exact hk

theorem udnPart_get? (udn : Option Bytes) : get? (udnPart udn) kUdn = udn.map Val.str := by
  cases udn <;> simp [udnPart, get?]

/-- normal form of the `extra` dict -/
theorem extras_eq (hs : List (Bytes × Bytes)) (udn : Option Bytes) (a0 : Addr) :
    extras hs udn a0 =
      (kHost, Val.str (hostString a0)) ::
        (udnPart udn
          ++ (if allPyWs (locOf hs) = true then [] else [(kLocOrig, Val.str (locOf hs)), (kLocation, adjVal (locOf hs) a0)])) := by
  obtain ⟨h1, h2, h3, h4, h5, h6⟩ := key_ne
  unfold extras locOf udnPart
  cases udn <;> by_cases hw : allPyWs ((mdGet hs kLocation).getD []) = true <;>
    simp [hw, PyDict.set, h1, h2, h3, h4, h5, h6]

theorem extras_keys (hs : List (Bytes × Bytes)) (udn : Option Bytes) (a0 : Addr) :
    ∀ k ∈ keys (extras hs udn a0), lower k = k ∧ (k = kHost ∨ k = kUdn ∨ k = kLocOrig ∨ k = kLocation) := by
  obtain ⟨l1, l2, l3, l4⟩ := key_lower
  intro k hk
  rw [extras_eq] at hk
  cases udn <;> by_cases hw : allPyWs (locOf hs) = true <;> simp [keys, hw, udnPart] at hk <;>
    (rcases hk with rfl | rfl | rfl | rfl) <;> simp_all

theorem extras_nodup (hs : List (Bytes × Bytes)) (udn : Option Bytes) (a0 : Addr) :
    (keys (extras hs udn a0)).Nodup := by
  obtain ⟨h1, h2, h3, h4, h5, h6⟩ := key_ne
  rw [extras_eq]
  cases udn <;> by_cases hw : allPyWs (locOf hs) = true <;> simp [keys, hw, udnPart, h1, h2, h3, h4, h5, h6]

/-! ### the merged dict `{**sent, **extra}` -/

/-- `{**parsed_headers, **extra}` for a well-formed header list -/
def mergedOf (hs : List (Bytes × Bytes)) (udn : Option Bytes) (a0 : Addr) : PyDict Bytes Val :=
  PyDict.merge (hsV hs) (extras hs udn a0)

section merged
variable {hs : List (Bytes × Bytes)} (hd : distinctCI (hs.map (·.1)) = true) (udn : Option Bytes) (a0 : Addr)
include hd

theorem merged_nodup : (keys (mergedOf hs udn a0)).Nodup :=
  nodup_keys_merge _ _ (nodup_hsV hd)

theorem merged_get? (k : Bytes) :
    get? (mergedOf hs udn a0) k = (get? (extras hs udn a0) k).or (get? (hsV hs) k) :=
  get?_merge_nodup _ _ (extras_nodup hs udn a0) k

theorem hsV_get? {p : Bytes × Bytes} (hp : p ∈ hs) : get? (hsV hs) p.1 = some (Val.str p.2) :=
  get?_of_mem_nodup (nodup_hsV hd) (List.mem_map.mpr ⟨p, hp, rfl⟩)

omit hd in
theorem hsV_mem {k : Bytes} {v : Val} (h : (k, v) ∈ hsV hs) : ∃ p ∈ hs, p.1 = k ∧ v = Val.str p.2 := by
  obtain ⟨p, hp, e⟩ := List.mem_map.mp h
  simp only [Prod.mk.injEq] at e
  exact ⟨p, hp, e.1, e.2.symm⟩

/-- an entry of the merged dict comes from the extras (lower-case key) or from the sent headers -/
theorem merged_mem {q : Bytes × Val} (hq : q ∈ mergedOf hs udn a0) :
    (q.1 ∈ keys (extras hs udn a0) ∧ get? (extras hs udn a0) q.1 = some q.2)
    ∨ (q.1 ∉ keys (extras hs udn a0) ∧ ∃ p ∈ hs, p.1 = q.1 ∧ q.2 = Val.str p.2) := by
  have hg := (mem_iff_get? (merged_nodup hd udn a0) q.1 q.2).mp hq
  rw [merged_get? hd] at hg
  cases he : get? (extras hs udn a0) q.1 with
  | some v =>
    left
    rw [he] at hg
    simp only [Option.some_or, Option.some.injEq] at hg
    exact ⟨(get?_isSome_iff _ _).mp (by simp [he]), by rw [← hg]⟩
  | none =>
    right
    rw [he] at hg
    simp only [Option.none_or] at hg
    exact ⟨(get?_eq_none_iff _ _).mp he, hsV_mem (mem_of_get? hg)⟩

/-- A': a sent name whose folded form is not a key of the extras is found with its sent value -/
theorem lastCI_sent {p : Bytes × Bytes} (hp : p ∈ hs) (hx : lower p.1 ∉ keys (extras hs udn a0)) :
    lastCI (mergedOf hs udn a0) (lower p.1) = some (Val.str p.2) := by
  have hpk : p.1 ∉ keys (extras hs udn a0) := by
    intro e
    have := (extras_keys hs udn a0 p.1 e).1
    rw [this] at hx; exact hx e
  unfold lastCI
  rw [find?_reverse_unique _ _ (p.1, Val.str p.2)]
  · rfl
  · apply (mem_iff_get? (merged_nodup hd udn a0) _ _).mpr
    rw [merged_get? hd, (get?_eq_none_iff _ _).mpr hpk, hsV_get? hd hp]; rfl
  · simp
  · intro q hq hP
    have hl : lower q.1 = lower p.1 := by simpa using hP
    rcases merged_mem hd udn a0 hq with ⟨hk, _⟩ | ⟨_, p', hp', e1, e2⟩
    · have := (extras_keys hs udn a0 q.1 hk).1
      rw [this] at hl; rw [hl] at hk; exact absurd hk hx
    · have : p' = p := ci_unique hd hp' hp (by rw [e1]; exact hl)
      subst this
      exact Prod.ext e1.symm e2

/-- B': a folded name no sent header has is answered by the extras alone -/
theorem lastCI_extra (x : Bytes) (hx : ∀ p ∈ hs, lower p.1 ≠ x) :
    lastCI (mergedOf hs udn a0) x = get? (extras hs udn a0) x := by
  unfold lastCI
  have key : ∀ q ∈ mergedOf hs udn a0, lower q.1 = x → q.1 = x ∧ get? (extras hs udn a0) x = some q.2 := by
    intro q hq hl
    rcases merged_mem hd udn a0 hq with ⟨hk, hg⟩ | ⟨_, p', hp', e1, _⟩
    · have := (extras_keys hs udn a0 q.1 hk).1
      rw [this] at hl; subst hl; exact ⟨rfl, hg⟩
    · exact absurd (by rw [e1]; exact hl) (hx p' hp')
  cases he : get? (extras hs udn a0) x with
  | none =>
    rw [find?_reverse_none]; · rfl
    intro q hq
    simp only [decide_eq_false_iff_not]
    intro hl
    have := (key q hq hl).2
    rw [he] at this; cases this
  | some v =>
    rw [find?_reverse_unique _ _ (x, v)]
    · rfl
    · apply (mem_iff_get? (merged_nodup hd udn a0) _ _).mpr
      rw [merged_get? hd, he]; rfl
    · have := (extras_keys hs udn a0 x ((get?_isSome_iff _ _).mp (by simp [he]))).1
      simp [this]
    · intro q hq hP
      have hl : lower q.1 = x := by simpa using hP
      obtain ⟨e1, e2⟩ := key q hq hl
      rw [he] at e2
      exact Prod.ext e1 (by simpa using e2.symm)

omit hd in
theorem merge_snoc (a e' : PyDict Bytes Val) (k : Bytes) (v : Val) :
    PyDict.merge a (e' ++ [(k, v)]) = PyDict.set (PyDict.merge a e') k v := by
  unfold PyDict.merge; rw [List.foldl_append]; rfl

/-- C: a sent `location` (any spelling) with non-blank text is answered by the adjusted URL -/
theorem lastCI_location {p : Bytes × Bytes} (hp : p ∈ hs) (hl : lower p.1 = kLocation)
    (hw : allPyWs p.2 = false) :
    lastCI (mergedOf hs udn a0) kLocation = some (adjVal p.2 a0) := by
  have hloc : locOf hs = p.2 := by unfold locOf; rw [← hl, mdGet_wf hd hp]; rfl
  obtain ⟨h1, h2, h3, h4, h5, h6⟩ := key_ne
  have hE : get? (extras hs udn a0) kLocation = some (adjVal p.2 a0) := by
    rw [extras_eq, hloc]
    cases udn <;> simp [hw, get?, udnPart, h3, h5, h6]
  unfold lastCI
  by_cases hk : p.1 = kLocation
  · -- the sent spelling is exactly `location`: one entry, overwritten in place
    rw [find?_reverse_unique _ _ (kLocation, adjVal p.2 a0)]
    · rfl
    · apply (mem_iff_get? (merged_nodup hd udn a0) _ _).mpr
      rw [merged_get? hd, hE]; rfl
    · simp [key_lower.2.2.2]
    · intro q hq hP
      have hlq : lower q.1 = kLocation := by simpa using hP
      have hq1 : q.1 = kLocation := by
        rcases merged_mem hd udn a0 hq with ⟨hkq, _⟩ | ⟨_, p', hp', e1, _⟩
        · have := (extras_keys hs udn a0 q.1 hkq).1
          rw [this] at hlq; exact hlq
        · have : p' = p := ci_unique hd hp' hp (by rw [e1, hlq, hl])
          subst this; rw [← e1]; exact hk
      have hg := (mem_iff_get? (merged_nodup hd udn a0) q.1 q.2).mp hq
      rw [hq1, merged_get? hd, hE] at hg
      simp only [Option.some_or, Option.some.injEq] at hg
      exact Prod.ext hq1 hg.symm
  · -- another spelling: the extras' `location` entry is appended last
    have hnV : kLocation ∉ keys (hsV hs) := by
      rw [keys_hsV]
      intro e
      obtain ⟨p', hp', e1⟩ := List.mem_map.mp e
      have : p' = p := ci_unique hd hp' hp (by rw [e1, hl]; exact key_lower.2.2.2)
      subst this; exact hk e1
    have hsplit : extras hs udn a0 =
        ((kHost, Val.str (hostString a0)) :: (udnPart udn
          ++ [(kLocOrig, Val.str p.2)])) ++ [(kLocation, adjVal p.2 a0)] := by
      rw [extras_eq, hloc]; simp [hw]
    have hnE : kLocation ∉ keys ((kHost, Val.str (hostString a0)) ::
        (udnPart udn ++ [(kLocOrig, Val.str p.2)])) := by
      cases udn <;> simp [keys, udnPart, Ne.symm h3, Ne.symm h5, Ne.symm h6]
    unfold mergedOf
    rw [hsplit, merge_snoc, set_not_mem _ _ _ (by
      rw [mem_keys_merge]; exact fun e => e.elim hnV hnE)]
    rw [find?_reverse_last _ _ _ (by simp [key_lower.2.2.2])]
    rfl

end merged

/-! ### the decoded map of a well-formed message -/

/-- no sent name folds to a metadata key other than `location` -/
def NotReserved (x : Bytes) : Prop :=
  x ≠ kHost ∧ x ≠ kUdn ∧ x ≠ kLocOrig ∧ x ≠ kTimestamp ∧ x ≠ kRemote ∧ x ≠ kPort ∧ x ≠ kLocal

theorem callMeta_get?_none (now : Int) (loc : Option Addr) (src : Addr) (x : Bytes)
    (h : x ≠ kTimestamp ∧ x ≠ kRemote ∧ x ≠ kPort ∧ x ≠ kLocal) : get? (callMeta now loc src) x = none := by
  obtain ⟨a, b, c, d⟩ := h
  simp [callMeta, get?, Ne.symm a, Ne.symm b, Ne.symm c, Ne.symm d]

theorem meta_ne : kHost ≠ kTimestamp ∧ kHost ≠ kRemote ∧ kHost ≠ kPort ∧ kHost ≠ kLocal
    ∧ kUdn ≠ kTimestamp ∧ kUdn ≠ kRemote ∧ kUdn ≠ kPort ∧ kUdn ≠ kLocal
    ∧ kLocOrig ≠ kTimestamp ∧ kLocOrig ≠ kRemote ∧ kLocOrig ≠ kPort ∧ kLocOrig ≠ kLocal
    ∧ kLocation ≠ kTimestamp ∧ kLocation ≠ kRemote ∧ kLocation ≠ kPort ∧ kLocation ≠ kLocal
    ∧ kTimestamp ≠ kRemote ∧ kTimestamp ≠ kPort ∧ kRemote ≠ kPort := by decide

/-- the header map `decode` returns for a well-formed built message (see `decode_build_wire`) -/
def decoded (hs : List (Bytes × Bytes)) (loc : Option Addr) (src : Addr) (now : Int) : Hdrs :=
  combineLower (ofDict lower (mergedOf hs (udnOf hs) (withoutPort src))) (callMeta now loc src)

section decoded
variable {hs : List (Bytes × Bytes)} (hd : distinctCI (hs.map (·.1)) = true)
  (hr : ∀ p ∈ hs, NotReserved (lower p.1)) (loc : Option Addr) (src : Addr) (now : Int)
include hd

theorem decoded_get (k : Bytes) :
    getitem lower (decoded hs loc src now) k
      = (get? (callMeta now loc src) (lower k)).or (lastCI (mergedOf hs (udnOf hs) (withoutPort src)) (lower k)) :=
  getitem_decoded _ (merged_nodup hd _ _) now loc src k

theorem decoded_inv : Inv lower (decoded hs loc src now) :=
  (sim_decoded _ (merged_nodup hd _ _) now loc src).inv

include hr

theorem not_extra_key {p : Bytes × Bytes} (hp : p ∈ hs) (hl : lower p.1 ≠ kLocation) (udn : Option Bytes) (a0 : Addr) :
    lower p.1 ∉ keys (extras hs udn a0) := by
  intro e
  obtain ⟨a, b, c, _⟩ := hr p hp
  rcases (extras_keys hs udn a0 _ e).2 with h | h | h | h
  · exact a h
  · exact b h
  · exact c h
  · exact hl h

/-- a sent header other than `location`, looked up by ANY spelling of its name -/
theorem decoded_sent {p : Bytes × Bytes} (hp : p ∈ hs) (hl : lower p.1 ≠ kLocation) (k : Bytes)
    (hk : lower k = lower p.1) : getitem lower (decoded hs loc src now) k = some (Val.str p.2) := by
  obtain ⟨_, _, _, d, e, f, g⟩ := hr p hp
  rw [decoded_get hd, hk, callMeta_get?_none _ _ _ _ ⟨d, e, f, g⟩,
    lastCI_sent hd _ _ hp (not_extra_key hd hr hp hl _ _)]
  rfl

/-- a sent `location` whose text is blank stays as sent -/
theorem decoded_location_blank {p : Bytes × Bytes} (hp : p ∈ hs) (hl : lower p.1 = kLocation)
    (hw : allPyWs p.2 = true) (k : Bytes) (hk : lower k = kLocation) :
    getitem lower (decoded hs loc src now) k = some (Val.str p.2) := by
  obtain ⟨_, _, _, _, _, _, _, _, _, _, _, _, m1, m2, m3, m4, _⟩ := meta_ne
  have hloc : locOf hs = p.2 := by unfold locOf; rw [← hl, mdGet_wf hd hp]; rfl
  rw [decoded_get hd, hk, callMeta_get?_none _ _ _ _ ⟨m1, m2, m3, m4⟩, ← hl,
    lastCI_sent hd _ _ hp]
  · rfl
  · rw [hl, extras_eq, hloc]
    obtain ⟨_, _, h3, _, h5, _⟩ := key_ne
    cases udnOf hs <;> simp [keys, hw, udnPart, Ne.symm h3, Ne.symm h5]

/-- a sent `location` with text comes back adjusted, the sent text under `_location_original` -/
theorem decoded_location {p : Bytes × Bytes} (hp : p ∈ hs) (hl : lower p.1 = kLocation)
    (hw : allPyWs p.2 = false) :
    (∀ k, lower k = kLocation → getitem lower (decoded hs loc src now) k = some (adjVal p.2 (withoutPort src)))
    ∧ (∀ k, lower k = kLocOrig → getitem lower (decoded hs loc src now) k = some (Val.str p.2)) := by
  obtain ⟨_, _, _, _, _, _, _, _, n1, n2, n3, n4, m1, m2, m3, m4, _⟩ := meta_ne
  have hloc : locOf hs = p.2 := by unfold locOf; rw [← hl, mdGet_wf hd hp]; rfl
  constructor
  · intro k hk
    rw [decoded_get hd, hk, callMeta_get?_none _ _ _ _ ⟨m1, m2, m3, m4⟩, lastCI_location hd _ _ hp hl hw]
    rfl
  · intro k hk
    rw [decoded_get hd, hk, callMeta_get?_none _ _ _ _ ⟨n1, n2, n3, n4⟩,
      lastCI_extra hd _ _ kLocOrig (fun q hq => (hr q hq).2.2.1), extras_eq, hloc]
    obtain ⟨_, h2, _, h4, _, h6⟩ := key_ne
    cases udnOf hs <;> simp [hw, get?, udnPart, h2, h4, h6]

theorem decoded_host (k : Bytes) (hk : lower k = kHost) :
    getitem lower (decoded hs loc src now) k = some (Val.str (hostString src)) := by
  obtain ⟨a, b, c, d, _⟩ := meta_ne
  rw [decoded_get hd, hk, callMeta_get?_none _ _ _ _ ⟨a, b, c, d⟩,
    lastCI_extra hd _ _ kHost (fun q hq => (hr q hq).1), extras_eq]
  simp [get?]; rfl

theorem decoded_udn (k : Bytes) (hk : lower k = kUdn) :
    getitem lower (decoded hs loc src now) k = (udnOf hs).map Val.str := by
  obtain ⟨_, _, _, _, a, b, c, d, _⟩ := meta_ne
  obtain ⟨h1, _, _, h4, h5, _⟩ := key_ne
  rw [decoded_get hd, hk, callMeta_get?_none _ _ _ _ ⟨a, b, c, d⟩,
    lastCI_extra hd _ _ kUdn (fun q hq => (hr q hq).2.1), extras_eq]
  cases udnOf hs <;> by_cases hw : allPyWs (locOf hs) = true <;>
    simp [get?, udnPart, hw, h1, Ne.symm h4, Ne.symm h5]

omit hr in
theorem decoded_port (k : Bytes) (hk : lower k = kPort) :
    getitem lower (decoded hs loc src now) k = some (Val.int src.port) := by
  obtain ⟨_, _, _, _, _, _, _, _, _, _, _, _, _, _, _, _, _, t2, t3⟩ := meta_ne
  rw [decoded_get hd, hk]
  simp [callMeta, get?, t2, t3]

omit hr in
theorem decoded_remote (k : Bytes) (hk : lower k = kRemote) :
    getitem lower (decoded hs loc src now) k = some (Val.addr src) := by
  obtain ⟨_, _, _, _, _, _, _, _, _, _, _, _, _, _, _, _, t1, _⟩ := meta_ne
  rw [decoded_get hd, hk]
  simp [callMeta, get?, t1]

/-! #### names -/

omit hd hr in
theorem getitem_some_iter {d : Hdrs} (hi : Inv lower d) {k : Bytes} {v : Val}
    (h : getitem lower d k = some v) : ∃ n ∈ iter d, lower n = lower k := by
  unfold getitem at h
  cases hc : get? d.cmap (lower k) with
  | none => simp [hc] at h
  | some n =>
    rw [hc] at h
    simp only [Option.bind_some] at h
    refine ⟨n, ?_, ((hi.cmapSpec _ _).mp hc).2⟩
    exact (get?_isSome_iff _ _).mp (by simp [h])

omit hd hr in
theorem iter_getitem_some {d : Hdrs} (hi : Inv lower d) {n : Bytes} (h : n ∈ iter d) :
    (getitem lower d n).isSome := by
  have hs : (get? d.data n).isSome := (get?_isSome_iff _ _).mpr h
  have hc := (hi.cmapSpec (lower n) n).mpr ⟨hs, rfl⟩
  unfold getitem
  rw [hc]; simpa using hs

omit hr in
/-- every name of the decoded map folds to a sent name or to a metadata key -/
theorem decoded_names_sub {n : Bytes} (h : n ∈ iter (decoded hs loc src now)) :
    lower n ∈ hs.map (fun p => lower p.1)
    ∨ lower n ∈ [kHost, kUdn, kLocOrig, kLocation, kTimestamp, kRemote, kPort, kLocal] := by
  have hsome := iter_getitem_some (decoded_inv hd loc src now) h
  rw [decoded_get hd] at hsome
  cases hm : get? (callMeta now loc src) (lower n) with
  | some v =>
    right
    have := (get?_isSome_iff _ _).mp (by simp [hm] : (get? (callMeta now loc src) (lower n)).isSome)
    rw [callMeta_keys] at this
    simp only [List.mem_cons, List.not_mem_nil, or_false] at this ⊢
    rcases this with e | e | e | e <;> simp [e]
  | none =>
    rw [hm] at hsome
    simp only [Option.none_or, lastCI, Option.isSome_map] at hsome
    obtain ⟨q, hq⟩ := Option.isSome_iff_exists.mp hsome
    have hqm : q ∈ mergedOf hs (udnOf hs) (withoutPort src) := by
      simpa using List.mem_of_find?_eq_some hq
    have hql : lower q.1 = lower n := by simpa using List.find?_some hq
    rcases merged_mem hd _ _ hqm with ⟨hk, _⟩ | ⟨_, p', hp', e1, _⟩
    · right
      obtain ⟨l1, l2⟩ := extras_keys hs _ _ q.1 hk
      rw [l1] at hql; rw [← hql]
      simp only [List.mem_cons, List.not_mem_nil, or_false]
      rcases l2 with e | e | e | e <;> simp [e]
    · left
      exact List.mem_map.mpr ⟨p', hp', by rw [e1]; exact hql⟩

/-- every sent name is a name of the decoded map (in some spelling) -/
theorem decoded_names_sup {p : Bytes × Bytes} (hp : p ∈ hs) :
    ∃ n ∈ iter (decoded hs loc src now), lower n = lower p.1 := by
  by_cases hl : lower p.1 = kLocation
  · by_cases hw : allPyWs p.2 = true
    · exact getitem_some_iter (decoded_inv hd loc src now)
        (decoded_location_blank hd hr loc src now hp hl hw p.1 hl)
    · exact getitem_some_iter (decoded_inv hd loc src now)
        ((decoded_location hd hr loc src now hp hl (by simpa using hw)).1 p.1 hl)
  · exact getitem_some_iter (decoded_inv hd loc src now) (decoded_sent hd hr loc src now hp hl p.1 rfl)

omit hr in
/-- no two names of the decoded map fold to the same name -/
theorem decoded_names_nodup : ((iter (decoded hs loc src now)).map lower).Nodup := by
  have := (decoded_inv hd loc src now).absNodup lower
  rwa [keys_abs] at this

end decoded

/-! ### observations -/

theorem lookupCI_observe (probes : List Bytes) (h : Hdrs) (k : Bytes) (hc : ∃ q ∈ probes, lower q = lower k) :
    (observe probes h).lookupCI k = some (getitem lower h k) := by
  unfold Obs.lookupCI observe
  simp only [List.find?_map]
  cases hf : probes.find? ((fun p : Bytes × Option Val => lower p.1 == lower k) ∘ fun k => (k, getitem lower h k)) with
  | none =>
    obtain ⟨q, hq, e⟩ := hc
    have := List.find?_eq_none.mp hf q hq
    simp [e] at this
  | some q =>
    have hq : lower q = lower k := by simpa using List.find?_some hf
    simp only [Option.map_some]
    unfold getitem; rw [hq]

theorem distinctCI_of_nodup {ks : List Bytes} (h : (ks.map lower).Nodup) : distinctCI ks = true := by
  induction ks with
  | nil => rfl
  | cons k r ih =>
    simp only [List.map_cons, List.nodup_cons] at h
    simp only [distinctCI, Bool.and_eq_true, Bool.not_eq_true', List.contains_eq_mem, decide_eq_false_iff_not]
    exact ⟨h.1, ih h.2⟩

end Upnp.C01
