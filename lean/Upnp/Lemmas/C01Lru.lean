/-
  `lru_cache` transparency: every stored entry is a value of the pure function, so every call —
  hit or miss, before or after evictions — returns what the pure function returns.
-/
import Upnp.Model.C01Lru
namespace Upnp.C01.Lru
variable {κ ν ε : Type} [DecidableEq κ]

/-- invariant: every cached entry `(k, v)` satisfies `f k = ok v` -/
def Sound (f : κ → Except ε ν) (c : Lru κ ν) : Prop := ∀ p ∈ c.entries, f p.1 = .ok p.2

theorem find_sound {f : κ → Except ε ν} {c : Lru κ ν} (h : Sound f c) {k : κ} {v : ν}
    (e : c.find k = some v) : f k = .ok v := by
  unfold find at e
  cases hf : c.entries.find? (fun p => decide (p.1 = k)) with
  | none => simp [hf] at e
  | some p =>
    simp only [hf, Option.map_some, Option.some.injEq] at e
    have hk : p.1 = k := by simpa using List.find?_some hf
    have := h p (List.mem_of_find?_eq_some hf)
    rw [← hk, ← e]; exact this

theorem call_result {f : κ → Except ε ν} {c : Lru κ ν} (h : Sound f c) (k : κ) :
    (call f c k).1 = f k := by
  unfold call
  cases e : c.find k with
  | some v => simp [find_sound h e]
  | none => cases hf : f k <;> simp

theorem call_sound {f : κ → Except ε ν} {c : Lru κ ν} (h : Sound f c) (k : κ) :
    Sound f (call f c k).2 := by
  unfold call
  cases e : c.find k with
  | some v =>
    intro p hp
    simp only [List.mem_cons, List.mem_filter] at hp
    rcases hp with rfl | ⟨hp, _⟩
    · exact find_sound h e
    · exact h p hp
  | none =>
    cases hf : f k with
    | error _ => exact h
    | ok v =>
      intro p hp
      have := List.mem_of_mem_take hp
      simp only [List.mem_cons] at this
      rcases this with rfl | hp'
      · exact hf
      · exact h p hp'

theorem run_eq {f : κ → Except ε ν} (c : Lru κ ν) (h : Sound f c) (ks : List κ) :
    run f c ks = ks.map f := by
  induction ks generalizing c with
  | nil => rfl
  | cons k r ih => simp [run, call_result h k, ih _ (call_sound h k)]

end Upnp.C01.Lru
