/-
  Wire-level lemmas for C01: what the line splitter and the header parser do on a datagram
  produced by `build`.
-/
import Upnp.Model.C01Ssdp
import Upnp.Spec.C01
namespace Upnp.C01
open Upnp

/-! ### bytes -/

theorem replaceCRLF_cons_ne (a : Nat) (t : Bytes) (h : a ≠ CR) :
    replaceCRLF (a :: t) = a :: replaceCRLF t := by
  cases t with
  | nil => simp [replaceCRLF]
  | cons b r => simp [replaceCRLF, h]

theorem replaceCRLF_crlf (r : Bytes) : replaceCRLF (CR :: LF :: r) = LF :: replaceCRLF r := by
  simp [replaceCRLF]

theorem replaceCRLF_append (l r : Bytes) (h : CR ∉ l) :
    replaceCRLF (l ++ CR :: LF :: r) = l ++ LF :: replaceCRLF r := by
  induction l with
  | nil => simpa using replaceCRLF_crlf r
  | cons a l ih =>
    have ha : a ≠ CR := fun e => h (by simp [e])
    have hl : CR ∉ l := fun e => h (by simp [e])
    rw [List.cons_append, replaceCRLF_cons_ne _ _ ha, ih hl]; rfl

theorem splitLF_append (l r : Bytes) (h : LF ∉ l) :
    splitLF (l ++ LF :: r) = l :: splitLF r := by
  induction l with
  | nil => simp [splitLF]
  | cons a l ih =>
    have ha : a ≠ LF := fun e => h (by simp [e])
    have hl : LF ∉ l := fun e => h (by simp [e])
    simp [splitLF, ha, ih hl]

/-- a CR/LF-free chunk followed by CRLF is one line -/
theorem lines_append (l r : Bytes) (h1 : CR ∉ l) (h2 : LF ∉ l) :
    splitLF (replaceCRLF (l ++ CR :: LF :: r)) = l :: splitLF (replaceCRLF r) := by
  rw [replaceCRLF_append l r h1, splitLF_append _ _ h2]

def noCRLF (l : Bytes) : Prop := CR ∉ l ∧ LF ∉ l

theorem lines_join (ls : List Bytes) (hne : ls ≠ []) (h : ∀ l ∈ ls, noCRLF l) :
    splitLF (replaceCRLF (joinCRLF ls ++ [CR, LF, CR, LF])) = ls ++ [[], []] := by
  induction ls with
  | nil => exact absurd rfl hne
  | cons x r ih =>
    cases r with
    | nil =>
      have hx := h x (by simp)
      show splitLF (replaceCRLF (x ++ CR :: LF :: [CR, LF])) = _
      rw [lines_append x _ hx.1 hx.2]
      simp [replaceCRLF, splitLF, CR, LF]
    | cons y r' =>
      have hx := h x (by simp)
      show splitLF (replaceCRLF ((x ++ CR :: LF :: joinCRLF (y :: r')) ++ [CR, LF, CR, LF])) = _
      rw [List.append_assoc, List.cons_append, List.cons_append, lines_append x _ hx.1 hx.2,
        ih (by simp) (fun l hl => h l (List.mem_cons_of_mem _ hl))]
      rfl

theorem lines_empty : splitLF (replaceCRLF [CR, LF, CR, LF]) = [[], [], []] := by
  simp [replaceCRLF, splitLF, CR, LF]

theorem linesOf_build (sep sl : Bytes) (hs : List (Bytes × Bytes)) (hsl : noCRLF sl)
    (h : ∀ p ∈ hs, noCRLF (hdrLine sep p)) :
    linesOf (build sep sl hs) = sl :: (if hs = [] then [[], [], []] else hs.map (hdrLine sep) ++ [[], []]) := by
  unfold linesOf build
  rw [lines_append sl _ hsl.1 hsl.2]
  by_cases he : hs = []
  · subst he; simp [joinCRLF, lines_empty]
  · rw [lines_join _ (by simpa using he) (by
      intro l hl; obtain ⟨p, hp, rfl⟩ := List.mem_map.mp hl; exact h p hp)]
    have : (sl :: (List.map (hdrLine sep) hs ++ [[], []])).getLast? = some [] := by
      rw [← List.cons_append, List.getLast?_append]; simp
    simp [he, this]

/-! ### one header line -/

theorem splitFirst_append (sep : Nat) (k r : Bytes) (h : sep ∉ k) :
    splitFirst sep (k ++ sep :: r) = some (k, r) := by
  induction k with
  | nil => simp [splitFirst]
  | cons a k ih =>
    have ha : a ≠ sep := fun e => h (by simp [e])
    have hk : sep ∉ k := fun e => h (by simp [e])
    simp [splitFirst, ha, ih hk]

theorem isTchar_ne {a : Nat} (h : isTchar a = true) :
    a ≠ COLON ∧ a ≠ SP ∧ a ≠ HT ∧ a ≠ CR ∧ a ≠ LF ∧ a ≠ 0 := by
  simp only [isTchar, Bool.or_eq_true, Bool.and_eq_true, decide_eq_true_eq, beq_iff_eq] at h
  simp only [COLON, SP, HT, CR, LF]
  omega

def isBlank (b : Nat) : Prop := b = SP ∨ b = HT

theorem lstripSPHT_blanks (ws v : Bytes) (h : ∀ b ∈ ws, isBlank b) :
    lstripSPHT (ws ++ v) = lstripSPHT v := by
  induction ws with
  | nil => rfl
  | cons a ws ih =>
    have ha : a = SP ∨ a = HT := h a (by simp)
    have := ih (fun b hb => h b (List.mem_cons_of_mem _ hb))
    simp [lstripSPHT, ha, this]

theorem lstripSPHT_id (v : Bytes) (h1 : v.head? ≠ some SP) (h2 : v.head? ≠ some HT) :
    lstripSPHT v = v := by
  cases v with
  | nil => rfl
  | cons a r =>
    have ha : ¬ (a = SP ∨ a = HT) := by
      intro e; rcases e with e | e
      · exact h1 (by simp [e])
      · exact h2 (by simp [e])
    simp [lstripSPHT, ha]

theorem rstripSPHT_id (v : Bytes) (h1 : v.getLast? ≠ some SP) (h2 : v.getLast? ≠ some HT) :
    rstripSPHT v = v := by
  unfold rstripSPHT
  rw [lstripSPHT_id v.reverse (by simpa [List.head?_reverse] using h1)
        (by simpa [List.head?_reverse] using h2)]
  simp

theorem all_getLast? {p : Nat → Bool} {l : Bytes} {a : Nat} (h : l.all p = true) (e : l.getLast? = some a) :
    p a = true := by
  have := List.mem_of_getLast? e
  exact List.all_eq_true.mp h a this

theorem all_head? {p : Nat → Bool} {l : Bytes} {a : Nat} (h : l.all p = true) (e : l.head? = some a) :
    p a = true := by
  have := List.mem_of_head? e
  exact List.all_eq_true.mp h a this

/-- hypotheses on one (name, value) pair: the `validValue` / token part of `wfHeaders` -/
structure WFPair (p : Bytes × Bytes) : Prop where
  tok : isToken p.1 = true
  nlen : p.1.length ≤ maxField
  val : validValue p.2 = true

/-- the separator literal: a colon followed by blanks only (":" in the source; ": " would do) -/
def SepOk (sep : Bytes) : Prop := ∃ ws, sep = COLON :: ws ∧ ∀ b ∈ ws, isBlank b

theorem validValue_spec {v : Bytes} (h : validValue v = true) :
    CR ∉ v ∧ LF ∉ v ∧ 0 ∉ v ∧ v.head? ≠ some SP ∧ v.head? ≠ some HT
    ∧ v.getLast? ≠ some SP ∧ v.getLast? ≠ some HT ∧ v.length ≤ maxField := by
  simp only [validValue, Bool.and_eq_true, Bool.not_eq_true', bne_iff_ne, ne_eq,
    decide_eq_true_eq, List.contains_eq_mem, decide_eq_false_iff_not] at h
  obtain ⟨⟨⟨⟨⟨⟨⟨a, b⟩, c⟩, d⟩, e⟩, f⟩, g⟩, i⟩ := h
  exact ⟨a, b, c, d, e, f, g, i⟩

theorem isToken_spec {k : Bytes} (h : isToken k = true) : k ≠ [] ∧ k.all isTchar = true := by
  simp only [isToken, Bool.and_eq_true, Bool.not_eq_true', List.isEmpty_eq_false_iff] at h
  exact h

theorem parseLine_hdrLine (sep : Bytes) (hsep : SepOk sep) (p : Bytes × Bytes) (h : WFPair p) :
    parseLine (hdrLine sep p) = .ok p := by
  obtain ⟨k, v⟩ := p
  obtain ⟨ws, rfl, hws⟩ := hsep
  obtain ⟨hne, hall⟩ := isToken_spec h.tok
  obtain ⟨v1, v2, v3, v4, v5, v6, v7, v8⟩ := validValue_spec h.val
  have hcolon : COLON ∉ k := fun e => (isTchar_ne (List.all_eq_true.mp hall _ e)).1 rfl
  have hsplit : splitFirst COLON (k ++ (COLON :: ws ++ v)) = some (k, ws ++ v) := by
    simpa using splitFirst_append COLON k (ws ++ v) hcolon
  have hhead : ¬ (k.head? = some SP ∨ k.head? = some HT ∨ k.getLast? = some SP ∨ k.getLast? = some HT) := by
    intro e
    rcases e with e | e | e | e
    · exact (isTchar_ne (all_head? hall e)).2.1 rfl
    · exact (isTchar_ne (all_head? hall e)).2.2.1 rfl
    · exact (isTchar_ne (all_getLast? hall e)).2.1 rfl
    · exact (isTchar_ne (all_getLast? hall e)).2.2.1 rfl
  have hls : lstripSPHT (ws ++ v) = v := by rw [lstripSPHT_blanks ws v hws, lstripSPHT_id v v4 v5]
  have hrs : rstripSPHT v = v := rstripSPHT_id v v6 v7
  have hempty : k.isEmpty = false := by simpa using hne
  have hnl : ¬ k.length > maxField := by have := h.nlen; simp at this; omega
  have hvl : ¬ v.length > maxField := by simp at v8; omega
  unfold parseLine hdrLine
  simp only [hsplit, hempty, hhead, hls, hrs, hnl, hvl, h.tok]
  simp [v1, v2, v3]

theorem hdrLine_noCRLF (sep : Bytes) (hsep : SepOk sep) (p : Bytes × Bytes) (h : WFPair p) :
    noCRLF (hdrLine sep p) := by
  obtain ⟨k, v⟩ := p
  obtain ⟨ws, rfl, hws⟩ := hsep
  obtain ⟨_, hall⟩ := isToken_spec h.tok
  obtain ⟨v1, v2, _⟩ := validValue_spec h.val
  have hk : ∀ b ∈ k, b ≠ CR ∧ b ≠ LF := fun b hb =>
    let t := isTchar_ne (List.all_eq_true.mp hall b hb); ⟨t.2.2.2.1, t.2.2.2.2.1⟩
  have hw : ∀ b ∈ ws, b ≠ CR ∧ b ≠ LF := by
    intro b hb; rcases hws b hb with e | e <;> simp [e, SP, HT, CR, LF]
  unfold noCRLF hdrLine
  simp only [List.mem_append, List.mem_cons, not_or]
  refine ⟨⟨fun e => (hk _ e).1 rfl, ⟨by simp [CR, COLON], fun e => (hw _ e).1 rfl⟩, v1⟩,
          ⟨fun e => (hk _ e).2 rfl, ⟨by simp [LF, COLON], fun e => (hw _ e).2 rfl⟩, v2⟩⟩

theorem hdrLine_ne_nil (sep : Bytes) (hsep : SepOk sep) (p : Bytes × Bytes) : (hdrLine sep p).isEmpty = false := by
  obtain ⟨ws, rfl, _⟩ := hsep
  unfold hdrLine; cases p.1 <;> simp

/-- the parser returns exactly the header list that was built, in order -/
theorem parseLines_build (sep : Bytes) (hsep : SepOk sep) (hs : List (Bytes × Bytes)) (h : ∀ p ∈ hs, WFPair p)
    (tail : List Bytes) :
    parseLines (hs.map (hdrLine sep) ++ [] :: tail) = .ok hs := by
  induction hs with
  | nil => simp [parseLines]
  | cons p r ih =>
    have hp := h p (by simp)
    have := ih (fun q hq => h q (List.mem_cons_of_mem _ hq))
    simp only [List.map_cons, List.cons_append, parseLines, hdrLine_ne_nil sep hsep p,
      parseLine_hdrLine sep hsep p hp, this]
    simp

theorem startsWith_append (p r : Bytes) : startsWith (p ++ r) p = true := by
  induction p with
  | nil => cases r <;> rfl
  | cons a p ih => simp [startsWith, ih]

/-- well-formed header list, as a proposition (the run-time judge uses the Bool `wfHeaders`) -/
theorem wfHeaders_spec {metaKeys : List Bytes} {hs : List (Bytes × Bytes)} (h : wfHeaders metaKeys hs = true) :
    (∀ p ∈ hs, WFPair p) ∧ (∀ p ∈ hs, reserved metaKeys (lower p.1) = false)
    ∧ distinctCI (hs.map (·.1)) = true := by
  simp only [wfHeaders, Bool.and_eq_true, List.all_eq_true, Bool.not_eq_true', decide_eq_true_eq] at h
  exact ⟨fun p hp => ⟨(h.1 p hp).1.1.1, (h.1 p hp).1.1.2, (h.1 p hp).2⟩,
         fun p hp => (h.1 p hp).1.2, h.2⟩

end Upnp.C01
