/-
  The interface between the C01 decoder model (bytes) and the C03 tracker model (strings):
  character-level facts about `strOfBytes`.
-/
import Upnp.Lemmas.C02Total
import Upnp.Lemmas.C03Parse
namespace Upnp.C02
open Upnp Upnp.C01 PyDict CIDict

theorem toNat_ofNat_valid (n : Nat) (h : n.isValidChar) : (Char.ofNat n).toNat = n := by
  simp [Char.ofNat, h, Char.ofNatAux, Char.toNat]

theorem ofNat_invalid (n : Nat) (h : ¬ n.isValidChar) : Char.ofNat n = '\x00' := by
  simp [Char.ofNat, h]; rfl

theorem ofNat_eq_iff (n : Nat) (c : Char) (hc : c ≠ '\x00') : Char.ofNat n = c ↔ n = c.toNat := by
  constructor
  · intro e
    by_cases hv : n.isValidChar
    · rw [← e, toNat_ofNat_valid n hv]
    · rw [ofNat_invalid n hv] at e; exact absurd e.symm hc
  · intro e; rw [e]; exact Char.ofNat_toNat c

theorem lowerC_ofNat (n : Nat) : C03.Parse.lowerC (Char.ofNat n) = Char.ofNat (lowerB n) := by
  by_cases hv : n.isValidChar
  · have ht := toNat_ofNat_valid n hv
    unfold C03.Parse.lowerC lowerB
    have hc : ('A' ≤ Char.ofNat n ∧ Char.ofNat n ≤ 'Z') ↔ (65 ≤ n ∧ n ≤ 90) := by
      simp only [Char.le_def, UInt32.le_iff_toNat_le]
      have : (Char.ofNat n).val.toNat = n := ht
      rw [this]
      have a : 'A'.val.toNat = 65 := by decide
      have z : 'Z'.val.toNat = 90 := by decide
      rw [a, z]
    by_cases h : 65 ≤ n ∧ n ≤ 90
    · rw [if_pos (hc.mpr h), if_pos h, ht]
    · rw [if_neg (mt hc.mp h), if_neg h]
  · have hn : ¬ (65 ≤ n ∧ n ≤ 90) := by
      intro h; apply hv; unfold Nat.isValidChar; omega
    unfold lowerB
    rw [if_neg hn, ofNat_invalid n hv]
    decide

theorem lowerL_map (l : Bytes) : C03.Parse.lowerL (l.map Char.ofNat) = (lower l).map Char.ofNat := by
  simp [C03.Parse.lowerL, lower, List.map_map, Function.comp_def, lowerC_ofNat]

theorem toList_str (b : Bytes) : (strOfBytes b).toList = b.map Char.ofNat := by
  simp [strOfBytes]

theorem lowerS_str (b : Bytes) : C03.Parse.lower (strOfBytes b) = strOfBytes (lower b) := by
  unfold C03.Parse.lower
  rw [toList_str, lowerL_map]; rfl

theorem map_ofNat_eq (l : Bytes) (cs : List Char) (hc : ∀ c ∈ cs, c ≠ '\x00') :
    l.map Char.ofNat = cs ↔ l = cs.map Char.toNat := by
  induction cs generalizing l with
  | nil => cases l <;> simp
  | cons c r ih =>
    cases l with
    | nil => simp
    | cons a t =>
      simp only [List.map_cons, List.cons.injEq]
      rw [ofNat_eq_iff a c (hc c (by simp)), ih t (fun x hx => hc x (by simp [hx]))]

theorem str_eq_lit (b : Bytes) (s : String) (hc : ∀ c ∈ s.toList, c ≠ '\x00') :
    strOfBytes b = s ↔ b = s.toList.map Char.toNat := by
  rw [← map_ofNat_eq b s.toList hc, ← toList_str]
  constructor
  · intro e; rw [e]
  · intro e; exact String.toList_injective e

theorem str_isEmpty (b : Bytes) : (strOfBytes b).isEmpty = b.isEmpty := by
  cases b <;> simp [strOfBytes]

theorem colon_iff (n : Nat) : Char.ofNat n = ':' ↔ n = COLON := ofNat_eq_iff n ':' (by decide)

theorem bdc_cons (c d : Char) (r : List Char) (h : ¬ (c = ':' ∧ d = ':')) :
    C03.Parse.beforeDoubleColon (c :: d :: r) = c :: C03.Parse.beforeDoubleColon (d :: r) := by
  rw [C03.Parse.beforeDoubleColon.eq_def]
  split
  · rename_i heq
    simp only [List.cons.injEq] at heq
    exact absurd ⟨heq.1, heq.2.1⟩ h
  · rename_i heq
    simp only [List.cons.injEq] at heq
    obtain ⟨rfl, rfl⟩ := heq
    rfl
  · rename_i heq; cases heq

theorem beforeDoubleColon_map (v : Bytes) :
    C03.Parse.beforeDoubleColon (v.map Char.ofNat) = (splitColons v).map Char.ofNat := by
  induction v using splitColons.induct with
  | case1 => rfl
  | case2 a =>
    by_cases h : a = COLON
    · subst h; simp [splitColons, C03.Parse.beforeDoubleColon]
    · have : Char.ofNat a ≠ ':' := fun e => h ((colon_iff a).mp e)
      simp [splitColons, C03.Parse.beforeDoubleColon]
  | case3 a b r hc =>
    obtain ⟨rfl, rfl⟩ := hc
    have : Char.ofNat COLON = ':' := (colon_iff _).mpr rfl
    simp [splitColons, C03.Parse.beforeDoubleColon, this]
  | case4 a b r hc ih =>
    have hcc : ¬ (Char.ofNat a = ':' ∧ Char.ofNat b = ':') := fun ⟨x, y⟩ => hc ⟨(colon_iff a).mp x, (colon_iff b).mp y⟩
    simp only [List.map_cons] at ih ⊢
    rw [bdc_cons _ _ _ hcc, ih]
    simp [splitColons, hc]

theorem startsWith_short (s p : Bytes) (h : s.length ≤ p.length) : startsWith s p = true ↔ s = p := by
  induction s generalizing p with
  | nil => cases p <;> simp [startsWith]
  | cons a s ih =>
    cases p with
    | nil => simp at h
    | cons b p =>
      simp only [List.length_cons, Nat.add_le_add_iff_right] at h
      simp [startsWith, ih p h]

theorem udnFromUsn_str (v : Bytes) :
    C03.Parse.udnFromUsn (strOfBytes v) = (udnFromUsn v).map strOfBytes := by
  unfold C03.Parse.udnFromUsn udnFromUsn
  simp only [toList_str]
  have hlen : (lower (v.take 5)).length ≤ (ofString "uuid:").length := by
    simp [lower, ofString]; omega
  have hiff : (C03.Parse.lowerL ((v.map Char.ofNat).take 5) == "uuid:".toList) = true
      ↔ startsWith (lower (v.take 5)) (ofString "uuid:") = true := by
    rw [← List.map_take, lowerL_map, beq_iff_eq, map_ofNat_eq _ _ (by decide), startsWith_short _ _ hlen]
    rfl
  by_cases h : startsWith (lower (v.take 5)) (ofString "uuid:") = true
  · rw [if_pos (hiff.mpr h), if_pos h, beforeDoubleColon_map]; rfl
  · rw [if_neg (mt hiff.mp h), if_neg h]; rfl

/-! ### the string-level header map the tracker model reads, in terms of the byte-level map -/

/-- what the tracker model finds under a lower-case literal name is what `get_lower` finds, as text -/
theorem hs_get (h : Hdrs) (hi : Inv lower h) (lk : Bytes) (s : String) (hs : ∀ c ∈ s.toList, c ≠ '\x00')
    (hlk : lk = s.toList.map Char.toNat) :
    (get? (C16.SMap.writeAll C03.Parse.lower [] (pairsOf h)) s).map (·.2) = (CIDict.getLower h lk).map valStr := by
  rw [CIDict.get?_writeAll_nil, getLower_abs lower hi]
  have hmap : ((pairsOf h).map fun p => (C03.Parse.lower p.1, (p.1, p.2)))
      = h.data.map fun q => (strOfBytes (lower q.1), (strOfBytes q.1, valStr q.2)) := by
    simp [pairsOf, List.map_map, Function.comp_def, lowerS_str]
  rw [hmap, ← List.map_reverse, get?_map_find?]
  have hr : get? (abs lower h) lk = get? (abs lower h).reverse lk := (get?_reverse_nodup _ (hi.absNodup lower) lk).symm
  rw [hr]
  unfold abs
  rw [← List.map_reverse, get?_map_find?]
  have hp : (fun q : Bytes × Val => decide (strOfBytes (lower q.1) = s)) = (fun q => decide (lower q.1 = lk)) := by
    funext q
    rw [hlk]
    exact decide_eq_decide.mpr (str_eq_lit (lower q.1) s hs)
  rw [hp]
  cases h.data.reverse.find? (fun q => decide (lower q.1 = lk)) <;> rfl

theorem lastCI_md (pairs : List (Bytes × Bytes)) (x : Bytes) :
    lastCI (mdToDict pairs) x = (mdGet pairs x).map Val.str := by
  unfold lastCI mdToDict
  have hn := nodup_keys_ofList (pairs.map fun p => (p.1, Val.str (firstCI pairs p.1)))
  cases hf : (PyDict.ofList (pairs.map fun p => (p.1, Val.str (firstCI pairs p.1)))).reverse.find?
      (fun p => decide (lower p.1 = x)) with
  | some q =>
    have hq : q ∈ PyDict.ofList (pairs.map fun p => (p.1, Val.str (firstCI pairs p.1))) := by
      simpa using List.mem_of_find?_eq_some hf
    have hx : lower q.1 = x := by simpa using List.find?_some hf
    have hg := (mem_iff_get? hn q.1 q.2).mp hq
    rw [get?_ofList] at hg
    have hm := mem_of_get? hg
    simp only [List.mem_reverse, List.mem_map, Prod.mk.injEq] at hm
    obtain ⟨p, hp, e1, e2⟩ := hm
    simp only [Option.map_some]
    unfold firstCI at e2
    unfold mdGet
    have hex : (pairs.find? fun r => lower r.1 == x).isSome := by
      rw [List.find?_isSome]; exact ⟨p, hp, by simp [e1, hx]⟩
    obtain ⟨p0, hp0⟩ := Option.isSome_iff_exists.mp hex
    rw [hp0]
    have hpx : lower p.1 = x := by rw [e1]; exact hx
    rw [hpx, hp0] at e2
    simp only [Option.map_some]
    rw [← e2]
  | none =>
    simp only [Option.map_none]
    unfold mdGet
    rw [List.find?_eq_none.mpr]; · rfl
    intro p hp
    have hk : p.1 ∈ keys (PyDict.ofList (pairs.map fun p => (p.1, Val.str (firstCI pairs p.1)))) := by
      rw [mem_keys_ofList]; simp only [List.map_map]; exact List.mem_map.mpr ⟨p, hp, rfl⟩
    obtain ⟨q, hq, e⟩ := List.mem_map.mp hk
    have := List.find?_eq_none.mp hf q (by simpa using hq)
    simpa [e] using this

theorem udn_ne_nil {v ub : Bytes} (h : udnFromUsn v = some ub) : ub ≠ [] := by
  unfold udnFromUsn at h
  split at h
  · rename_i hs
    cases h
    match v, hs with
    | [], hs => simp [startsWith, lower, ofString] at hs
    | [a], hs => simp [startsWith, lower, ofString] at hs
    | a :: b :: r, hs =>
      have ha : lowerB a = 117 := by
        simp only [List.take, lower, List.map_cons, startsWith, ofString] at hs
        have := hs
        simp [startsWith] at this
        exact this.1
      have : ¬ (a = COLON ∧ b = COLON) := by
        intro ⟨e, _⟩; subst e; simp [lowerB, COLON] at ha
      simp [splitColons, this]
  · cases h

/-! ### the decoder guarantees what the tracker model assumes -/

theorem headerParse_udn {d : Bytes} {pairs : List (Bytes × Bytes)} {rl : Bytes} {udn : Option Bytes}
    (h : headerParse d = .ok (pairs, rl, udn)) : udn = udnOf pairs := by
  unfold headerParse at h
  dsimp only at h
  split at h
  · cases h
  · split at h
    · cases h
    · rename_i ps hps
      simp only [Except.ok.injEq, Prod.mk.injEq] at h
      obtain ⟨rfl, _, rfl⟩ := h
      rfl

theorem decodeX_ok' {fx : Fixes} {d : Bytes} {loc : Option Addr} {src : Addr} {now : Int} {rl : Bytes} {h : Hdrs}
    (hd : decodeX fx d loc src now = .ok (rl, h)) :
    ∃ pairs, h = combineLower (headersOf pairs (udnOf pairs) (withoutPort src)) (callMeta now loc src) := by
  unfold decodeX at hd
  split at hd
  · cases hd
  · rename_i pairs rl' udn hp
    dsimp only at hd
    split at hd
    · cases hd
    · cases hd
      rw [headerParse_udn hp]
      exact ⟨pairs, rfl⟩

/-- **the interface assumption of the tracker model holds of every header map the decoder model
    returns**: whenever the USN (first value, any spelling of the name) yields a udn, the `_udn` entry
    is that udn — whatever other headers the datagram carries (since the repair of F01a). -/
theorem decode_udn_guarantee (pairs : List (Bytes × Bytes)) (a0 : Addr) (now : Int) (loc : Option Addr) (src : Addr) :
    ∀ u, (C03.Parse.truthy (get? (C16.SMap.writeAll C03.Parse.lower []
            (pairsOf (combineLower (headersOf pairs (udnOf pairs) a0) (callMeta now loc src)))) "usn")).bind C03.Parse.udnFromUsn = some u →
      C03.Parse.truthy (get? (C16.SMap.writeAll C03.Parse.lower []
            (pairsOf (combineLower (headersOf pairs (udnOf pairs) a0) (callMeta now loc src)))) "_udn") = some u := by
  intro u hu
  have hi := headers_inv pairs (udnOf pairs) a0 now loc src
  have kusn : ofString "usn" = "usn".toList.map Char.toNat := by decide
  have kudn : kUdn = "_udn".toList.map Char.toNat := by decide
  have lusn : lower (ofString "usn") = ofString "usn" := by decide
  have hne : ofString "usn" ≠ kTimestamp ∧ ofString "usn" ≠ kRemote ∧ ofString "usn" ≠ kPort ∧ ofString "usn" ≠ kLocal := by decide
  obtain ⟨_, _, _, _, a, b, c, d, _⟩ := meta_ne
  -- what the byte-level map holds under `usn` and `_udn`
  have gusn : CIDict.getLower (combineLower (headersOf pairs (udnOf pairs) a0) (callMeta now loc src)) (ofString "usn")
      = (mdGet pairs (ofString "usn")).map Val.str := by
    have e : CIDict.getLower (combineLower (headersOf pairs (udnOf pairs) a0) (callMeta now loc src)) (ofString "usn")
        = getitem lower (combineLower (headersOf pairs (udnOf pairs) a0) (callMeta now loc src)) (ofString "usn") := by
      unfold getitem CIDict.getLower; rw [lusn]
    rw [e, headers_get, lusn, callMeta_get?_none _ _ _ _ hne, lastCI_md]
    have : get? (extras pairs (udnOf pairs) a0) (ofString "usn") = none := by
      rw [get?_eq_none_iff]
      intro hk
      rcases (extras_keys pairs _ a0 _ hk).2 with x | x | x | x <;> revert x <;> decide
    rw [this]; rfl
  have gudn : ∀ ub, udnOf pairs = some ub →
      CIDict.getLower (combineLower (headersOf pairs (udnOf pairs) a0) (callMeta now loc src)) kUdn = some (Val.str ub) := by
    intro ub hub
    have e : CIDict.getLower (combineLower (headersOf pairs (udnOf pairs) a0) (callMeta now loc src)) kUdn
        = getitem lower (combineLower (headersOf pairs (udnOf pairs) a0) (callMeta now loc src)) kUdn := by
      unfold getitem CIDict.getLower; rw [key_lower.2.1]
    rw [e, headers_get, key_lower.2.1, callMeta_get?_none _ _ _ _ ⟨a, b, c, d⟩, extras_eq, hub]
    simp [get?, udnPart, key_ne.1]
  -- read the hypothesis through `hs_get`
  have h1 := hs_get _ hi (ofString "usn") "usn" (by decide) kusn
  rw [gusn] at h1
  cases hm : mdGet pairs (ofString "usn") with
  | none =>
    rw [hm] at h1
    simp only [Option.map_none, Option.map_eq_none_iff] at h1
    rw [h1] at hu
    simp [C03.Parse.truthy] at hu
  | some v =>
    rw [hm] at h1
    simp only [Option.map_some, valStr] at h1
    cases hg : get? (C16.SMap.writeAll C03.Parse.lower [] (pairsOf (combineLower (headersOf pairs (udnOf pairs) a0) (callMeta now loc src)))) "usn" with
    | none => rw [hg] at h1; cases h1
    | some kv =>
      rw [hg] at h1 hu
      simp only [Option.map_some, Option.some.injEq] at h1
      obtain ⟨k0, sv⟩ := kv
      simp only at h1
      subst h1
      simp only [C03.Parse.truthy, str_isEmpty] at hu
      by_cases hve : v.isEmpty = true
      · simp [hve] at hu
      · simp only [hve, Bool.false_eq_true, if_false, Option.bind_some, udnFromUsn_str] at hu
        cases hub : udnFromUsn v with
        | none => rw [hub] at hu; cases hu
        | some ub =>
          rw [hub] at hu
          simp only [Option.map_some, Option.some.injEq] at hu
          subst hu
          have hudn : udnOf pairs = some ub := by
            unfold udnOf; rw [hm]; simp [hve, hub]
          have h2 := hs_get _ hi kUdn "_udn" (by decide) kudn
          rw [gudn ub hudn] at h2
          cases hg2 : get? (C16.SMap.writeAll C03.Parse.lower [] (pairsOf (combineLower (headersOf pairs (udnOf pairs) a0) (callMeta now loc src)))) "_udn" with
          | none => rw [hg2] at h2; cases h2
          | some kv2 =>
            rw [hg2] at h2
            simp only [Option.map_some, Option.some.injEq, valStr] at h2
            obtain ⟨k2, sv2⟩ := kv2
            simp only at h2
            subst h2
            have : (strOfBytes ub).isEmpty = false := by
              rw [str_isEmpty]; simpa using udn_ne_nil hub
            simp [C03.Parse.truthy, this]

/-! ### the clock value reaches the tracker model intact -/

theorem digitsRev_eq : ∀ f n, digitsRev f n = C03.Parse.digitsRev f n := by
  intro f
  induction f with
  | zero => intro n; rfl
  | succ f ih => intro n; simp [digitsRev, C03.Parse.digitsRev, ih]

theorem decInt_toList (t : Int) :
    (decInt t).toList = if t < 0 then '-' :: C03.Parse.dec t.natAbs else C03.Parse.dec t.toNat := by
  unfold decInt
  dsimp only
  have hd : ∀ n : Nat, ((digitsRev (n + 1) n).reverse).map (fun d => Char.ofNat (48 + d)) = C03.Parse.dec n := by
    intro n; unfold C03.Parse.dec; rw [digitsRev_eq]; rfl
  split <;> simp [hd]

theorem intOf_decInt (t : Int) : C03.Parse.intOf (decInt t).toList = some t := by
  rw [decInt_toList]
  by_cases h : t < 0
  · simp only [h, if_true]
    unfold C03.Parse.intOf
    have hne : (C03.Parse.dec t.natAbs).isEmpty = false := by
      simpa using C03.Parse.dec_ne_nil t.natAbs
    have hall : (C03.Parse.dec t.natAbs).all C03.Parse.isDigit = true :=
      List.all_eq_true.mpr fun c hc => (C03.Parse.dec_digits _ c hc).1
    simp only [hne, hall, Bool.not_false, Bool.and_self, if_true, C03.Parse.digitsToNat_dec]
    congr 1; omega
  · simp only [h, if_false]
    have hne : C03.Parse.dec t.toNat ≠ [] := C03.Parse.dec_ne_nil t.toNat
    obtain ⟨c, r, hcr⟩ := List.exists_cons_of_ne_nil hne
    have hdig : C03.Parse.isDigit c = true := (C03.Parse.dec_digits _ c (by rw [hcr]; simp)).1
    have hc : c ≠ '-' := by intro e; subst e; revert hdig; decide
    have hall : (C03.Parse.dec t.toNat).all C03.Parse.isDigit = true :=
      List.all_eq_true.mpr fun c hc => (C03.Parse.dec_digits _ c hc).1
    have hv := C03.Parse.digitsToNat_dec t.toNat
    rw [hcr] at hall hv ⊢
    unfold C03.Parse.intOf
    split
    · rename_i heq; simp only [List.cons.injEq] at heq; exact absurd heq.1 hc
    · simp only [List.isEmpty_cons, Bool.not_false, hall, Bool.and_self, if_true, hv]
      congr 1; omega

/-- `_timestamp` as the tracker model reads it from a decoded header map is the clock value of the decode -/
theorem tsOf_decoded (pairs : List (Bytes × Bytes)) (a0 : Addr) (now : Int) (loc : Option Addr) (src : Addr) :
    C03.Parse.tsOf (C16.SMap.writeAll C03.Parse.lower []
      (pairsOf (combineLower (headersOf pairs (udnOf pairs) a0) (callMeta now loc src)))) = now := by
  have hi := headers_inv pairs (udnOf pairs) a0 now loc src
  have kts : kTimestamp = "_timestamp".toList.map Char.toNat := by decide
  have lts : lower kTimestamp = kTimestamp := by decide
  have g : CIDict.getLower (combineLower (headersOf pairs (udnOf pairs) a0) (callMeta now loc src)) kTimestamp
      = some (Val.ts now) := by
    have e : CIDict.getLower (combineLower (headersOf pairs (udnOf pairs) a0) (callMeta now loc src)) kTimestamp
        = getitem lower (combineLower (headersOf pairs (udnOf pairs) a0) (callMeta now loc src)) kTimestamp := by
      unfold getitem CIDict.getLower; rw [lts]
    rw [e, headers_get, lts]
    simp [callMeta, get?]
  have h1 := hs_get _ hi kTimestamp "_timestamp" (by decide) kts
  rw [g] at h1
  unfold C03.Parse.tsOf C03.Parse.hget
  rw [h1]
  simp only [Option.map_some, valStr, intOf_decInt, Option.getD_some]
