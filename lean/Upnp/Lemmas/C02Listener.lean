/-
  The combined listener of C02 is the C03 tracker: lemmas that read C03's `step` for the three
  things C02 says about it (an undispatched message changes nothing and notifies nobody; a valid
  sighting records the device; a byebye forgets it), from C03's own lemmas where they exist.
-/
import Upnp.Lemmas.C02Total
import Upnp.Spec.C02
import Upnp.Props.C03
namespace Upnp.C02
open Upnp Upnp.C01 PyDict Upnp.C03

variable (ipv : String → Option Nat) (skip : String → Bool)

/-- the part of `Msg.wf` that the receive path guarantees whatever the clock says -/
def wfCore (m : Msg String) : Prop := (m.udn = none ∨ m.udnHdr = m.udn) ∧ (m.kind = .search ∨ m.ntsOk = true)

theorem wfCore_of_wf {m : Msg String} (h : m.wf = true) : wfCore m := by
  simp only [Msg.wf, Bool.and_eq_true, Bool.or_eq_true, decide_eq_true_eq, Option.isNone_iff_eq_none] at h
  exact ⟨h.1.1, h.1.2⟩

theorem reaches_sighting {m : Msg String} (h : reachesValidTo m = true) : ∃ u l, m.sighting? = some (u, l) := by
  simp only [reachesValidTo, Bool.and_eq_true, bne_iff_ne, ne_eq, Option.isSome_iff_exists] at h
  obtain ⟨⟨hk, hv⟩, u, hu⟩ := h
  have hk' : ¬ m.kind = .byebye := hk
  by_cases hs : (m.kind == Kind.search) = true
  · simp only [hs, if_true, Msg.validSearch, Bool.and_eq_true, Option.isSome_iff_exists] at hv
    obtain ⟨⟨⟨_, ty, hty⟩, l, hl⟩, hlo⟩ := hv
    exact ⟨u, l, by simp [Msg.sighting?, hk', hu, hty, hl, hlo]⟩
  · simp only [hs, Bool.false_eq_true, if_false, Msg.validAdv, Bool.and_eq_true, Option.isSome_iff_exists] at hv
    obtain ⟨⟨⟨⟨_, ty, hty⟩, _⟩, l, hl⟩, hlo⟩ := hv
    exact ⟨u, l, by simp [Msg.sighting?, hk', hu, hty, hl, hlo]⟩

/-- a message that is neither a valid sighting nor a byebye naming a device notifies nobody -/
theorem step_notif_none (s : C03.Tracker String) (m : Msg String) (hw : wfCore m)
    (hs : m.sighting? = none) (hb : m.byebye? = none) : (step ipv skip s (.msg m)).2 = none := by
  obtain ⟨hwu, _⟩ := hw
  have sd : ∀ (hk : m.kind ≠ .byebye) (hv : m.ty.isSome = true ∧ m.loc.isSome = true ∧ m.locOk = true), m.udn = none := by
    intro hk ⟨h1, h2, h3⟩
    obtain ⟨ty, hty⟩ := Option.isSome_iff_exists.mp h1
    obtain ⟨l, hl⟩ := Option.isSome_iff_exists.mp h2
    cases hu : m.udn with
    | none => rfl
    | some u => simp [Msg.sighting?, hk, hu, hty, hl, h3] at hs
  have none_dev : m.udn = none → seeDevice ipv s m = (s, none) := by
    intro hu; unfold seeDevice; rw [hu]
  cases hk : m.kind with
  | search =>
    simp only [step, hk]
    unfold seeSearch
    by_cases hv : m.validSearch = true
    · have hv' := hv
      simp only [Msg.validSearch, Bool.and_eq_true] at hv'
      have := sd (by simp [hk]) ⟨hv'.1.1.2, hv'.1.2, hv'.2⟩
      simp [hv, none_dev this]
    · simp [hv]
  | alive =>
    simp only [step, hk]
    unfold seeAdv
    by_cases hv : m.validAdv = true
    · have hv' := hv
      simp only [Msg.validAdv, Bool.and_eq_true] at hv'
      have := sd (by simp [hk]) ⟨hv'.1.1.1.2, hv'.1.2, hv'.2⟩
      simp [hv, none_dev this]
    · simp [hv]
  | update =>
    simp only [step, hk]
    unfold seeAdv
    by_cases hv : m.validAdv = true
    · have hv' := hv
      simp only [Msg.validAdv, Bool.and_eq_true] at hv'
      have := sd (by simp [hk]) ⟨hv'.1.1.1.2, hv'.1.2, hv'.2⟩
      simp [hv, none_dev this]
    · simp [hv]
  | byebye =>
    simp only [step, hk]
    simp only [Msg.byebye?, hk, if_true] at hb
    unfold unsee
    by_cases hv : m.validByebye = true
    · cases hu : m.udn <;> cases hty : m.ty <;> simp [hu, hty] at hb ⊢
    · simp [hv]

/-- a valid sighting of `u` (any max-age) leaves `u` in the device map -/
theorem see_mem (s : C03.Tracker String) (m : Msg String) (hw : wfCore m) (hk : m.kind ≠ .byebye) (u l : String)
    (hs : m.sighting? = some (u, l)) : u ∈ keys (step ipv skip s (.msg m)).1.devices := by
  obtain ⟨hwu, hwn⟩ := hw
  simp only [Msg.sighting?, hk, if_false] at hs
  cases hu : m.udn with
  | none => simp [hu] at hs
  | some u' =>
    cases hty : m.ty with
    | none => simp [hu, hty] at hs
    | some ty =>
      cases hl : m.loc with
      | none => simp [hu, hty, hl] at hs
      | some l' =>
        simp only [hu, hty, hl] at hs
        by_cases hlo : m.locOk = true
        · simp only [hlo, if_true, Option.some.injEq, Prod.mk.injEq] at hs
          obtain ⟨rfl, rfl⟩ := hs
          have hh : m.udnHdr = some u' := by
            rcases hwu with h | h
            · rw [hu] at h; cases h
            · rw [h, hu]
          cases hkk : m.kind with
          | byebye => exact absurd hkk hk
          | search =>
            simp only [step, hkk]
            unfold seeSearch seeDevice
            simp only [Msg.validSearch, hh, hty, hl, hlo, hu, Option.isSome_some, Bool.and_self, Bool.not_true,
              Bool.false_eq_true, if_false]
            exact (mem_keys_set _ _ _ _).mpr (Or.inl rfl)
          | alive =>
            have hn : m.ntsOk = true := by
              rcases hwn with h | h
              · rw [hkk] at h; cases h
              · exact h
            simp only [step, hkk]
            unfold seeAdv seeDevice
            simp only [Msg.validAdv, hh, hty, hl, hlo, hu, hn, Option.isSome_some, Bool.and_self, Bool.not_true,
              Bool.false_eq_true, if_false]
            exact (mem_keys_set _ _ _ _).mpr (Or.inl rfl)
          | update =>
            have hn : m.ntsOk = true := by
              rcases hwn with h | h
              · rw [hkk] at h; cases h
              · exact h
            simp only [step, hkk]
            unfold seeAdv seeDevice
            simp only [Msg.validAdv, hh, hty, hl, hlo, hu, hn, Option.isSome_some, Bool.and_self, Bool.not_true,
              Bool.false_eq_true, if_false]
            exact (mem_keys_set _ _ _ _).mpr (Or.inl rfl)
        · simp [hlo] at hs

/-- a byebye naming `u` leaves `u` out of the device map -/
theorem unsee_not_mem (s : C03.Tracker String) (hi : Inv s) (m : Msg String) (hw : wfCore m) (hk : m.kind = .byebye)
    (u : String) (hb : m.byebye? = some u) : u ∉ keys (step ipv skip s (.msg m)).1.devices := by
  obtain ⟨hwu, hwn⟩ := hw
  simp only [Msg.byebye?, hk, if_true] at hb
  cases hu : m.udn <;> cases hty : m.ty <;> simp [hu, hty] at hb
  subst hb
  have hh : m.udnHdr.isSome = true := by
    rcases hwu with h | h
    · rw [hu] at h; cases h
    · rw [h, hu]; rfl
  have hn : m.ntsOk = true := by
    rcases hwn with h | h
    · rw [hk] at h; cases h
    · exact h
  have hv : m.validByebye = true := by simp [Msg.validByebye, hh, hty, hn]
  simp only [step, hk]
  unfold unsee
  simp only [hv, Bool.not_true, Bool.false_eq_true, if_false, hu, hty]
  cases hg : get? s.devices _ with
  | none => simpa [← get?_eq_none_iff] using hg
  | some d =>
    show _ ∉ keys (erase s.devices _)
    rw [← get?_eq_none_iff]; exact get?_erase_self _ _ hi.nodup

end Upnp.C02
