/-
  Totality lemmas for the receive path (C02): which errors each stage of the decoder can produce,
  and why `IndexError` / `KeyError` are unreachable behind the validity gate.
-/
import Upnp.Model.C02Recv
import Upnp.Spec.C02
import Upnp.Lemmas.C01Dict
namespace Upnp.C02
open Upnp Upnp.C01 PyDict CIDict

/-! ### the header parser -/

theorem parseLine_errors {l : Bytes} {e : Exn} (h : parseLine l = .error e) :
    e = .invalidHeader ∨ e = .lineTooLong := by
  unfold parseLine at h
  dsimp only at h
  repeat' (split at h)
  all_goals first
    | (cases h; first | exact Or.inl rfl | exact Or.inr rfl)
    | cases h

theorem parseLines_errors {ls : List Bytes} {e : Exn} (h : parseLines ls = .error e) :
    e = .invalidHeader ∨ e = .lineTooLong ∨ (e = .indexError ∧ ls.getLast? ≠ some []) := by
  induction ls with
  | nil => simp [parseLines] at h; subst h; simp
  | cons l r ih =>
    unfold parseLines at h
    split at h
    · cases h
    · rename_i hne
      split at h
      · rename_i e' he
        cases h
        rcases parseLine_errors he with rfl | rfl <;> simp
      · split at h
        · rename_i e' he
          cases h
          rcases ih he with rfl | rfl | ⟨rfl, hl⟩
          · simp
          · simp
          · right; right; refine ⟨rfl, ?_⟩
            cases r with
            | nil => simp at hne ⊢; intro hh; exact hne (by simp [hh])
            | cons a r' => simpa [List.getLast?_cons_cons] using hl
        · cases h

theorem mem_replaceCRLF_LF (d : Bytes) (h : LF ∈ d) : LF ∈ replaceCRLF d := by
  induction d using replaceCRLF.induct with
  | case1 => cases h
  | case2 a => simpa [replaceCRLF] using h
  | case3 a b r hc ih => simp [replaceCRLF, hc]
  | case4 a b r hc ih =>
    simp only [replaceCRLF, hc, if_false, List.mem_cons]
    simp only [List.mem_cons] at h
    rcases h with rfl | h
    · exact Or.inl rfl
    · exact Or.inr (ih (by simpa using h))

theorem splitLF_length (d : Bytes) : 1 ≤ (splitLF d).length := by
  induction d with
  | nil => simp [splitLF]
  | cons a r ih =>
    unfold splitLF
    split
    · simp
    · split <;> simp

theorem splitLF_length_of_mem (d : Bytes) (h : LF ∈ d) : 2 ≤ (splitLF d).length := by
  induction d with
  | nil => cases h
  | cons a r ih =>
    unfold splitLF
    by_cases ha : a = LF
    · have := splitLF_length r
      simp [ha]; omega
    · have hr : LF ∈ r := by
        rcases List.mem_cons.mp h with e | e
        · exact absurd e.symm ha
        · exact e
      have := ih hr
      simp only [ha, if_false]
      split
      · rename_i hd tl heq; rw [heq] at this; simpa using this
      · rename_i heq; rw [heq] at this; simp at this

theorem linesOf_last (d : Bytes) : (linesOf d).getLast? = some [] := by
  unfold linesOf
  dsimp only
  split
  · assumption
  · simp

theorem linesOf_length (d : Bytes) (h : LF ∈ d) : 2 ≤ (linesOf d).length := by
  unfold linesOf
  have := splitLF_length_of_mem _ (mem_replaceCRLF_LF d h)
  dsimp only
  split
  · exact this
  · simp; omega

theorem drop_one_last {α : Type} (l : List α) (h : 2 ≤ l.length) : (l.drop 1).getLast? = l.getLast? := by
  match l, h with
  | _ :: b :: r, _ => simp [List.getLast?_cons_cons]

/-- behind the gate (`b"\n" in data`) the header parser raises only the three classes the receive
    path catches: `lines[1]` exists and the loop cannot run off the end -/
theorem headerParse_errors {d : Bytes} {e : Exn} (hlf : LF ∈ d) (h : headerParse d = .error e) :
    e = .unicodeDecode ∨ e = .invalidHeader ∨ e = .lineTooLong := by
  unfold headerParse at h
  simp only at h
  split at h
  · cases h; exact Or.inl rfl
  · split at h
    · rename_i e' he
      cases h
      rcases parseLines_errors he with rfl | rfl | ⟨_, hl⟩
      · exact Or.inr (Or.inl rfl)
      · exact Or.inr (Or.inr rfl)
      · exact absurd (by rw [drop_one_last _ (linesOf_length d hlf)]; exact linesOf_last d) hl
    · cases h

theorem gate_lf {prefixes : List Bytes} {d : Bytes} (h : isValidPacket prefixes d = true) : LF ∈ d := by
  simp only [isValidPacket, Bool.and_eq_true, List.contains_eq_mem, decide_eq_true_eq] at h
  exact h.1.2

/-! ### the decoder and the protocol's `try/except` -/

theorem urlRaises_all (loc : Bytes) (a0 : Addr) : urlRaises Fixes.all loc a0 = none := by
  unfold urlRaises Fixes.all
  split <;> rfl

/-- the repaired decoder raises nothing but what the header parser raises -/
theorem decodeX_all_errors {d : Bytes} {loc : Option Addr} {src : Addr} {now : Int} {e : Exn}
    (hlf : LF ∈ d) (h : decodeX Fixes.all d loc src now = .error e) :
    e = .unicodeDecode ∨ e = .invalidHeader ∨ e = .lineTooLong := by
  unfold decodeX at h
  split at h
  · rename_i e' he; cases h; exact headerParse_errors hlf he
  · dsimp only at h
    split at h
    · rename_i e' he
      split at he
      · cases he
      · rw [urlRaises_all] at he; cases he
    · cases h

/-- what a successful decode returns: the C01 normal form -/
theorem decodeX_ok {fx : Fixes} {d : Bytes} {loc : Option Addr} {src : Addr} {now : Int} {rl : Bytes} {h : Hdrs}
    (hd : decodeX fx d loc src now = .ok (rl, h)) :
    ∃ pairs udn, h = combineLower (headersOf pairs udn (withoutPort src)) (callMeta now loc src) := by
  unfold decodeX at hd
  split at hd
  · cases hd
  · rename_i pairs rl' udn _
    dsimp only at hd
    split at hd
    · cases hd
    · cases hd; exact ⟨pairs, udn, rfl⟩

/-- **`SsdpProtocol.datagram_received` never lets a decoder exception escape** -/
theorem protocolRecv_total (prefixes : List Bytes) (d : Bytes) (loc : Option Addr) (src : Addr) (now : Int) :
    ∃ r, protocolRecv Fixes.all prefixes d loc src now = .ok r := by
  unfold protocolRecv
  by_cases hg : isValidPacket prefixes d = true
  · simp only [hg, Bool.not_true, Bool.false_eq_true, if_false]
    cases hd : decodeX Fixes.all d loc src now with
    | ok r => exact ⟨some r, rfl⟩
    | error e =>
      have := decodeX_all_errors (gate_lf hg) hd
      have hc : caught Fixes.all e = true := by
        rcases this with rfl | rfl | rfl <;> decide
      exact ⟨none, by simp [hc]⟩
  · exact ⟨none, by simp [hg]⟩

/-! ### metadata is always there: `headers["_host"]` cannot raise KeyError -/

theorem host_present (pairs : List (Bytes × Bytes)) (udn : Option Bytes) (loc : Option Addr) (src : Addr) (now : Int) :
    (getitem lower (combineLower (headersOf pairs udn (withoutPort src)) (callMeta now loc src)) kHost).isSome := by
  rw [headers_get]
  have : get? (extras pairs udn (withoutPort src)) (lower kHost) = some (Val.str (hostString (withoutPort src))) := by
    rw [extras_eq, key_lower.1]; simp [get?]
  rw [this]
  cases get? (callMeta now loc src) (lower kHost) <;> simp

theorem searchClassify_total (targetHost : Bytes) {fx : Fixes} {d : Bytes} {loc : Option Addr} {src : Addr} {now : Int}
    {rl : Bytes} {h : Hdrs} (hd : decodeX fx d loc src now = .ok (rl, h)) :
    ∃ b, searchClassify targetHost h = .ok b := by
  obtain ⟨pairs, udn, rfl⟩ := decodeX_ok hd
  unfold searchClassify
  have := host_present pairs udn loc src now
  split
  · exact ⟨_, rfl⟩
  · split
    · exact ⟨_, rfl⟩
    · split
      · exact ⟨_, rfl⟩
      · split
        · rename_i hn; rw [hn] at this; cases this
        · exact ⟨_, rfl⟩

/-! ### the tracker and the responder -/

theorem maxAgeUs_total (cc : Bytes) : ∃ n, maxAgeUs Fixes.all cc = .ok n := by
  unfold maxAgeUs Fixes.all
  dsimp only
  split
  · exact ⟨_, rfl⟩
  · split
    · exact ⟨_, rfl⟩
    · split <;> exact ⟨_, rfl⟩

theorem validToCc_total (cc : Bytes) (now : Int) : ∃ t, validToCc Fixes.all cc now = .ok t := by
  unfold validToCc
  obtain ⟨n, hn⟩ := maxAgeUs_total cc
  rw [hn]
  dsimp only
  split
  · exact ⟨dtMax, by simp [Fixes.all]⟩
  · exact ⟨_, rfl⟩

theorem validTo_total (h : Hdrs) (now : Int) : ∃ t, validTo Fixes.all h now = .ok t :=
  validToCc_total _ now

/-! ### the combined listener is C03's step (possibly on a message whose max-age is saturated) -/

/-- the repaired listener never raises: it IS the tracker model's step on the parsed event -/
theorem listenerStep_spec (trk : C03.Cfg) (sockA : Bool) (t : Tracker) (h : Hdrs) :
    listenerStep Fixes.all trk sockA t h
      = .ok (C03.step ipv (C03.Parse.skipHdr trk) t (C03.Parse.parseEv trk sockA (pairsOf h))) := by
  unfold listenerStep
  dsimp only
  cases C03.Parse.parseEv trk sockA (pairsOf h) with
  | msg m =>
    dsimp only
    by_cases hc : reachesValidTo m = true
    · obtain ⟨vt, hv⟩ := validTo_total h m.ts
      simp only [hc, if_true, hv]
    · simp only [hc, Bool.false_eq_true, if_false]
  | purge n => rfl
  | noise n => rfl

theorem respond_total (delay : Int) (count : Nat) : ∃ e, respond Fixes.all delay count = .ok e := by
  unfold respond
  by_cases hc : count = 0
  · exact ⟨noEff, by simp [hc]⟩
  · by_cases hd : delay > 0
    · have : ¬ (delay * 1000 - 250 ≤ 100) := by omega
      exact ⟨{ timers := 1 }, by simp [hc, hd, this, Fixes.all]⟩
    · exact ⟨{ sends := count }, by simp [hc, hd, Fixes.all]⟩

theorem responder_total (cfg : Cfg) (rl : Bytes) (h : Hdrs) : ∃ e, responder Fixes.all cfg rl h = .ok e := by
  unfold responder
  split
  · exact ⟨_, rfl⟩
  · exact respond_total _ _

/-! ### the C02 decoder is the C01 decoder -/

theorem decodeX_all_eq (d : Bytes) (loc : Option Addr) (src : Addr) (now : Int) :
    decodeX Fixes.all d loc src now = decode d loc src now := by
  unfold decodeX decode decodeCore
  cases headerParse d with
  | error e => rfl
  | ok r =>
    obtain ⟨pairs, rl, udn⟩ := r
    dsimp only
    split
    · rename_i e he
      split at he
      · cases he
      · rw [urlRaises_all] at he; cases he
    · rfl

end Upnp.C02
