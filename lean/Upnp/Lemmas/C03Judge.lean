/-
  Lemmas tying the tracker model to the C03 judge: the relation `Rel` between the judge's spec state and
  the model state, the snapshot lemmas, and the clauses of `stepOk` for each kind of transition.
-/
import Upnp.Lemmas.C03Tracker
import Upnp.Spec.C03
set_option linter.unusedSectionVars false
set_option linter.unusedSimpArgs false
namespace Upnp.C03
open Upnp PyDict
variable {σ : Type} [DecidableEq σ]

/-- spec state vs model state: every known device has its validity recorded; every device the text
    still requires is known -/
structure Rel (sp : Sp σ) (s : Tracker σ) : Prop where
  spNodup : (keys sp).Nodup
  r1 : ∀ k d, get? s.devices k = some d → ∃ b, get? sp k = some (d.validTo, b)
  r2 : ∀ u e, get? sp u = some (e, true) → ∃ d, get? s.devices u = some d

theorem rel_empty : Rel ([] : Sp σ) ({} : Tracker σ) := ⟨by simp [keys], by simp [get?], by simp [get?]⟩

theorem get?_tick (t : Int) (sp : Sp σ) (u : σ) :
    get? (tick t sp) u = (get? sp u).map fun v => (v.1, v.2 && decide (t ≤ v.1)) := by
  unfold tick; exact get?_map_val sp (fun p => (p.2.1, p.2.2 && decide (t ≤ p.2.1))) u

theorem keys_tick (t : Int) (sp : Sp σ) : keys (tick t sp) = keys sp := by
  unfold tick; exact keys_map_val sp _

/-! ### snapshots -/

def obsOf (le : σ → σ → Bool) (k : σ) (d : Dev σ) : DevObs σ := ⟨k, d.validTo, d.locs, location le d⟩

theorem findDev_snapOf (le : σ → σ → Bool) (s : Tracker σ) (u : σ) :
    findDev (snapOf le s) u = (get? s.devices u).map (obsOf le u) := by
  unfold snapOf findDev
  induction s.devices with
  | nil => simp [get?]
  | cons p r ih =>
    obtain ⟨k, d⟩ := p
    by_cases e : k = u
    · subst e; simp [get?, obsOf]
    · simp [get?, e, ih]

theorem location_isSome (le : σ → σ → Bool) (d : Dev σ) (l : σ) (v : Int) (h : get? d.locs l = some v) :
    (location le d).isSome = true := by
  unfold location
  cases hl : d.locs with
  | nil => rw [hl] at h; simp [get?] at h
  | cons p r => simp

theorem all_snapOf (le : σ → σ → Bool) (s : Tracker σ) (hn : (keys s.devices).Nodup) (f : DevObs σ → Bool)
    (h : ∀ k d, get? s.devices k = some d → f (obsOf le k d) = true) : (snapOf le s).all f = true := by
  unfold snapOf
  rw [List.all_map, List.all_eq_true]
  intro p hp
  obtain ⟨k, d⟩ := p
  exact h k d (get?_of_mem_nodup hn hp)

theorem snapOf_restore (le : σ → σ → Bool) (s : Tracker σ) (u : σ) (d d' : Dev σ) (nx : Option Int)
    (h : get? s.devices u = some d) (hv : d'.validTo = d.validTo) (hl : d'.locs = d.locs) :
    snapOf le ⟨set s.devices u d', nx⟩ = snapOf le s := by
  unfold snapOf
  show (set s.devices u d').map _ = s.devices.map _
  generalize s.devices = L at h ⊢
  induction L with
  | nil => simp [get?] at h
  | cons p r ih =>
    obtain ⟨k, d0⟩ := p
    by_cases e : k = u
    · subst e
      simp [get?] at h; subst h
      simp [PyDict.set, hv, hl, location]
    · simp [get?, e] at h
      simp [PyDict.set, e, ih h]

/-! ### the clauses of the judge on model transitions -/

theorem present_ok (le : σ → σ → Bool) {sp : Sp σ} {s : Tracker σ} (hi : Inv s) (hr : Rel sp s) :
    presentOk sp (snapOf le s) = true := by
  unfold presentOk
  rw [List.all_eq_true]
  intro u _
  cases hg : get? sp u with
  | none => rfl
  | some v =>
    obtain ⟨e, b⟩ := v
    cases b with
    | false => rfl
    | true =>
      obtain ⟨d, hd⟩ := hr.r2 u e hg
      obtain ⟨l, hl⟩ := hi.loc u d hd
      simp only [findDev_snapOf, hd, Option.map_some, obsOf]
      exact location_isSome le d l _ hl

/-- no device created, none refreshed: every device after was there before with the same `valid_to` and
    no new location -/
theorem inert_of (le : σ → σ → Bool) {s s' : Tracker σ} (hi' : Inv s')
    (h : ∀ k d', get? s'.devices k = some d' →
      ∃ d, get? s.devices k = some d ∧ d'.validTo = d.validTo ∧ ∀ x ∈ d'.locs, x ∈ d.locs) :
    inertOk (snapOf le s) (snapOf le s') = true := by
  unfold inertOk
  apply all_snapOf le s' hi'.nodup
  intro k d' hd'
  obtain ⟨d, h1, h2, h3⟩ := h k d' hd'
  simp only [obsOf, findDev_snapOf, h1, Option.map_some, Bool.and_eq_true, decide_eq_true_eq, List.all_eq_true]
  exact ⟨by simp [h2], fun x hx => by simpa using h3 x hx⟩

theorem inert_same (le : σ → σ → Bool) {s : Tracker σ} (hi : Inv s) : inertOk (snapOf le s) (snapOf le s) = true :=
  inert_of le hi fun k d h => ⟨d, h, rfl, fun _ hx => hx⟩

theorem Keeps.sub {now : Int} {d d' : Dev σ} (h : Keeps now d d') : ∀ x ∈ d'.locs, x ∈ d.locs := by
  intro x hx
  rcases h.2.2.2.2 with h5 | h5
  · rw [h5] at hx; exact hx
  · rw [h5] at hx; exact mem_filter_sub _ _ _ hx

theorem inert_purge (le : σ → σ → Bool) {s : Tracker σ} (hi : Inv s) (t : Int) :
    inertOk (snapOf le s) (snapOf le (purge s t)) = true :=
  inert_of le (inv_purge hi t) fun k d' h => by
    obtain ⟨d, h1, _, h3⟩ := purge_get?_inv hi t k d' h
    exact ⟨d, h1, h3.1, h3.sub⟩

theorem expired_gone_of (le : σ → σ → Bool) {sp : Sp σ} {s : Tracker σ} (hi : Inv s) (hr : Rel sp s) (t : Int)
    (h : ∀ k d, get? s.devices k = some d → t ≤ d.validTo) : expiredGoneOk sp t (snapOf le s) = true := by
  unfold expiredGoneOk
  apply all_snapOf le s hi.nodup
  intro k d hd
  obtain ⟨b, hb⟩ := hr.r1 k d hd
  simp only [obsOf, hb, decide_eq_true_eq]
  exact h k d hd

/-! ### `Rel` along transitions -/

theorem rel_tick {sp : Sp σ} {s : Tracker σ} (hr : Rel sp s) (t : Int) : Rel (tick t sp) s := by
  refine ⟨by rw [keys_tick]; exact hr.spNodup, ?_, ?_⟩
  · intro k d hd
    obtain ⟨b, hb⟩ := hr.r1 k d hd
    exact ⟨_, by rw [get?_tick, hb]; rfl⟩
  · intro u e he
    rw [get?_tick] at he
    cases hg : get? sp u with
    | none => rw [hg] at he; cases he
    | some v =>
      rw [hg] at he
      simp only [Option.map_some, Option.some.injEq, Prod.mk.injEq, Bool.and_eq_true, decide_eq_true_eq] at he
      exact hr.r2 u v.1 (by rw [hg]; obtain ⟨a, b⟩ := v; simp at he ⊢; exact he.2.1)

theorem rel_tick_purge {sp : Sp σ} {s : Tracker σ} (hi : Inv s) (hr : Rel sp s) (t : Int) :
    Rel (tick t sp) (purge s t) := by
  refine ⟨by rw [keys_tick]; exact hr.spNodup, ?_, ?_⟩
  · intro k d' hd'
    obtain ⟨d, h1, _, h3⟩ := purge_get?_inv hi t k d' hd'
    obtain ⟨b, hb⟩ := hr.r1 k d h1
    exact ⟨_, by rw [get?_tick, hb, h3.1]; rfl⟩
  · intro u e he
    rw [get?_tick] at he
    cases hg : get? sp u with
    | none => rw [hg] at he; cases he
    | some v =>
      obtain ⟨a, b⟩ := v
      rw [hg] at he
      simp only [Option.map_some, Option.some.injEq, Prod.mk.injEq, Bool.and_eq_true, decide_eq_true_eq] at he
      obtain ⟨h1, h2, h3⟩ := he
      subst h1; subst h2
      obtain ⟨d, hd⟩ := hr.r2 u a hg
      obtain ⟨b', hb'⟩ := hr.r1 u d hd
      rw [hg] at hb'
      simp only [Option.some.injEq, Prod.mk.injEq] at hb'
      obtain ⟨d', hd', _⟩ := purge_get?_kept t u d hd (by omega)
      exact ⟨d', hd'⟩

theorem rel_sight {sp : Sp σ} {s : Tracker σ} (hr : Rel sp s) (u : σ) (d1 : Dev σ) (nx : Option Int) :
    Rel (set sp u (d1.validTo, true)) ⟨set s.devices u d1, nx⟩ := by
  refine ⟨nodup_keys_set _ _ _ hr.spNodup, ?_, ?_⟩
  · intro k d hd
    simp only [get?_set] at hd ⊢
    by_cases e : u = k
    · simp only [e, if_true, Option.some.injEq] at hd ⊢; subst hd; exact ⟨true, rfl⟩
    · simp only [e, if_false] at hd ⊢; exact hr.r1 k d hd
  · intro w e he
    simp only [get?_set] at he ⊢
    by_cases e' : u = w
    · simp only [e', if_true]; exact ⟨_, rfl⟩
    · simp only [e', if_false] at he ⊢; exact hr.r2 w e he

theorem rel_restore {sp : Sp σ} {s : Tracker σ} (hr : Rel sp s) (u : σ) (d d' : Dev σ) (nx : Option Int)
    (h : get? s.devices u = some d) (hv : d'.validTo = d.validTo) : Rel sp ⟨set s.devices u d', nx⟩ := by
  refine ⟨hr.spNodup, ?_, ?_⟩
  · intro k x hx
    simp only [get?_set] at hx
    by_cases e : u = k
    · subst e; simp only [if_true, Option.some.injEq] at hx; subst hx; rw [hv]; exact hr.r1 u d h
    · simp only [e, if_false] at hx; exact hr.r1 k x hx
  · intro w e he
    obtain ⟨x, hx⟩ := hr.r2 w e he
    simp only [get?_set]
    by_cases e' : u = w
    · simp [e']
    · simp only [e', if_false]; exact ⟨x, hx⟩

theorem rel_erase {sp : Sp σ} {s : Tracker σ} (hi : Inv s) (hr : Rel sp s) (u : σ) (nx : Option Int) :
    Rel (erase sp u) ⟨erase s.devices u, nx⟩ := by
  refine ⟨nodup_keys_erase _ _ hr.spNodup, ?_, ?_⟩
  · intro k d hd
    obtain ⟨hk, hd'⟩ := get?_erase_some hi.nodup hd
    obtain ⟨b, hb⟩ := hr.r1 k d hd'
    exact ⟨b, by rw [get?_erase_ne _ _ _ (Ne.symm hk)]; exact hb⟩
  · intro w e he
    obtain ⟨hk, he'⟩ := get?_erase_some hr.spNodup he
    obtain ⟨d, hd⟩ := hr.r2 w e he'
    exact ⟨d, by simp only; rw [get?_erase_ne _ _ _ (Ne.symm hk)]; exact hd⟩

theorem byebye_ok_erase (le : σ → σ → Bool) {s : Tracker σ} (hi : Inv s) (u : σ) (nx : Option Int) :
    byebyeOk u (snapOf le s) (snapOf le ⟨erase s.devices u, nx⟩) = true := by
  have hi' := inv_erase hi u
  unfold byebyeOk
  simp only [Bool.and_eq_true]
  refine ⟨⟨?_, ?_⟩, ?_⟩
  · simp [findDev_snapOf, get?_erase_self _ _ hi.nodup]
  · apply all_snapOf le s hi.nodup
    intro k d hd
    by_cases e : k = u
    · simp [obsOf, e]
    · simp only [obsOf, e, decide_false, Bool.false_or, findDev_snapOf]
      rw [get?_erase_ne _ _ _ (Ne.symm e), hd]
      simp [sameDev, obsOf]
  · apply all_snapOf le _ (nodup_keys_erase _ _ hi.nodup)
    intro k d hd
    obtain ⟨_, hd'⟩ := get?_erase_some hi.nodup hd
    simp [obsOf, findDev_snapOf, hd']

theorem byebye_ok_unknown (le : σ → σ → Bool) {s : Tracker σ} (hi : Inv s) (u : σ)
    (h : get? s.devices u = none) : byebyeOk u (snapOf le s) (snapOf le s) = true := by
  unfold byebyeOk
  simp only [Bool.and_eq_true]
  refine ⟨⟨?_, ?_⟩, ?_⟩
  · simp [findDev_snapOf, h]
  · apply all_snapOf le s hi.nodup
    intro k d hd
    simp [obsOf, findDev_snapOf, hd, sameDev]
  · apply all_snapOf le s hi.nodup
    intro k d hd
    simp [obsOf, findDev_snapOf, hd]

/-! ### soundness of the judge's own bookkeeping (no model involved) -/

/-- every validity recorded in the judge's spec state comes from a valid sighting among `evs` -/
structure SpFrom (evs : List (Ev σ)) (sp : Sp σ) : Prop where
  nodup : (keys sp).Nodup
  src : ∀ u e b, get? sp u = some (e, b) → ∃ m l, Ev.msg m ∈ evs ∧ m.sighting? = some (u, l) ∧ m.ts + m.maxAge = e

theorem spFrom_nil : SpFrom ([] : List (Ev σ)) ([] : Sp σ) := ⟨by simp [keys], by simp [get?]⟩

theorem spFrom_step {evs : List (Ev σ)} {sp : Sp σ} (h : SpFrom evs sp) (e : Ev σ) :
    SpFrom (evs ++ [e]) (specStep sp e) := by
  have htick : SpFrom (evs ++ [e]) (tick e.time sp) := by
    refine ⟨by rw [keys_tick]; exact h.nodup, ?_⟩
    intro u x b hg
    rw [get?_tick] at hg
    cases hs : get? sp u with
    | none => rw [hs] at hg; cases hg
    | some v =>
      rw [hs] at hg
      simp only [Option.map_some, Option.some.injEq, Prod.mk.injEq] at hg
      obtain ⟨m, l, hm, h1, h2⟩ := h.src u v.1 v.2 (by rw [hs])
      exact ⟨m, l, List.mem_append_left _ hm, h1, by rw [h2]; exact hg.1⟩
  cases e with
  | purge t => exact htick
  | noise t => exact htick
  | msg m =>
    simp only [specStep]
    cases hsi : m.sighting? with
    | some p =>
      obtain ⟨u, l⟩ := p
      simp only
      refine ⟨nodup_keys_set _ _ _ htick.nodup, ?_⟩
      intro k x b hg
      simp only [get?_set] at hg
      by_cases hk : u = k
      · subst hk
        simp only [if_true, Option.some.injEq, Prod.mk.injEq] at hg
        exact ⟨m, l, by simp, hsi, hg.1⟩
      · simp only [hk, if_false] at hg
        exact htick.src k x b hg
    | none =>
      simp only
      cases hb : m.byebye? with
      | none => exact htick
      | some u =>
        simp only
        refine ⟨nodup_keys_erase _ _ htick.nodup, ?_⟩
        intro k x b hg
        exact htick.src k x b (get?_erase_some htick.nodup hg).2

end Upnp.C03
