/-
  Characterisation lemmas for the string layer of the C03/C04 model (`Model/C03Parse.lean`): the `max-age` regex
  matcher, `udn_from_usn`, the location validity test, `ip_version_from_location`, and what `parseEv` / `mkMsg`
  read from the raw header map (so that `invalid_inert` can be stated on the headers the listener receives).
-/
import Upnp.Model.C03Parse
import Upnp.Spec.C03
import Upnp.Lemmas.PyDict
set_option linter.unusedSectionVars false
set_option linter.unusedSimpArgs false
set_option linter.unusedVariables false
namespace Upnp.C03.Parse
open Upnp PyDict Upnp.C16

/-! ### list helpers -/

theorem dropWhile_all_append {α : Type} (p : α → Bool) (a b : List α) (ha : ∀ c ∈ a, p c = true) :
    (a ++ b).dropWhile p = b.dropWhile p := by
  induction a with
  | nil => rfl
  | cons x r ih =>
    have hx := ha x List.mem_cons_self
    simp only [List.cons_append, List.dropWhile_cons, hx, if_true]
    exact ih fun c hc => ha c (List.mem_cons_of_mem _ hc)

theorem takeWhile_all_append {α : Type} (p : α → Bool) (a b : List α) (ha : ∀ c ∈ a, p c = true) :
    (a ++ b).takeWhile p = a ++ b.takeWhile p := by
  induction a with
  | nil => rfl
  | cons x r ih =>
    have hx := ha x List.mem_cons_self
    simp only [List.cons_append, List.takeWhile_cons, hx, if_true]
    rw [ih fun c hc => ha c (List.mem_cons_of_mem _ hc)]

/-! ### decimal numerals -/

def dc (d : Nat) : Char := Char.ofNat (48 + d)

def digitsRev : Nat → Nat → List Nat
  | 0, _ => []
  | f + 1, n => if n < 10 then [n] else (n % 10) :: digitsRev f (n / 10)

/-- the decimal numeral of `n` (`str(n)`) -/
def dec (n : Nat) : List Char := ((digitsRev (n + 1) n).reverse).map dc

theorem dc_props : ∀ d, d < 10 → isDigit (dc d) = true ∧ isWs (dc d) = false ∧ (dc d).toNat - 48 = d := by decide

theorem digitsRev_lt : ∀ f n, ∀ d ∈ digitsRev f n, d < 10 := by
  intro f
  induction f with
  | zero => intro n d h; simp [digitsRev] at h
  | succ f ih =>
    intro n d h
    unfold digitsRev at h
    split at h
    · simp at h; omega
    · simp only [List.mem_cons] at h
      rcases h with h | h
      · omega
      · exact ih _ d h

theorem digitsRev_val : ∀ f n, n < f → (digitsRev f n).foldr (fun d a => a * 10 + d) 0 = n := by
  intro f
  induction f with
  | zero => intro n h; omega
  | succ f ih =>
    intro n h
    unfold digitsRev
    split
    · simp
    · simp only [List.foldr_cons]
      rw [ih (n / 10) (by omega)]
      omega

theorem digitsRev_ne_nil (f n : Nat) : digitsRev (f + 1) n ≠ [] := by
  unfold digitsRev; split <;> simp

theorem dec_ne_nil (n : Nat) : dec n ≠ [] := by
  unfold dec
  simp [digitsRev_ne_nil]

theorem dec_digits (n : Nat) : ∀ c ∈ dec n, isDigit c = true ∧ isWs c = false := by
  intro c hc
  unfold dec at hc
  simp only [List.mem_map, List.mem_reverse] at hc
  obtain ⟨d, hd, rfl⟩ := hc
  have := dc_props d (digitsRev_lt _ _ d hd)
  exact ⟨this.1, this.2.1⟩

theorem digitsToNat_map_dc (l : List Nat) (hl : ∀ d ∈ l, d < 10) :
    digitsToNat (l.map dc) = l.foldl (fun a d => a * 10 + d) 0 := by
  unfold digitsToNat
  rw [List.foldl_map]
  suffices H : ∀ acc, l.foldl (fun acc d => acc * 10 + ((dc d).toNat - 48)) acc = l.foldl (fun a d => a * 10 + d) acc from H 0
  induction l with
  | nil => intro acc; rfl
  | cons x r ih =>
    intro acc
    simp only [List.foldl_cons]
    rw [(dc_props x (hl x List.mem_cons_self)).2.2]
    exact ih (fun d hd => hl d (List.mem_cons_of_mem _ hd)) _

/-- `int(str(n)) = n` for the model's digit reader -/
theorem digitsToNat_dec (n : Nat) : digitsToNat (dec n) = n := by
  unfold dec
  rw [digitsToNat_map_dc _ (fun d hd => digitsRev_lt _ _ d (List.mem_reverse.mp hd)), List.foldl_reverse]
  exact digitsRev_val (n + 1) n (by omega)

/-! ### `CACHE_CONTROL_RE = max-age\s*=\s*(\d+)` (IGNORECASE) -/

/-- the regex anchored at a position: any casing of `max-age`, optional white space around `=`, then the longest
    run of digits -/
theorem maxAgeAt_lit (pre ws1 ws2 ds rest : List Char) (hpre : lowerL pre = "max-age".toList)
    (hw1 : ∀ c ∈ ws1, isWs c = true) (hw2 : ∀ c ∈ ws2, isWs c = true)
    (hds : ∀ c ∈ ds, isDigit c = true ∧ isWs c = false) (hne : ds ≠ []) (hrest : rest.takeWhile isDigit = []) :
    maxAgeAt (pre ++ (ws1 ++ '=' :: (ws2 ++ (ds ++ rest)))) = some ds := by
  have hlen : pre.length = 7 := by
    have := congrArg List.length hpre
    simpa [lowerL] using this
  unfold maxAgeAt
  rw [List.take_left' hlen, List.drop_left' hlen, hpre]
  simp only [beq_self_eq_true, if_true]
  rw [dropWhile_all_append isWs ws1 _ hw1]
  have heq : isWs '=' = false := by decide
  simp only [List.dropWhile_cons, heq, Bool.false_eq_true, if_false]
  rw [dropWhile_all_append isWs ws2 _ hw2]
  cases ds with
  | nil => exact absurd rfl hne
  | cons d r =>
    have hd := hds d List.mem_cons_self
    simp only [List.cons_append, List.dropWhile_cons, hd.2, Bool.false_eq_true, if_false]
    have := takeWhile_all_append isDigit (d :: r) rest (fun c hc => (hds c hc).1)
    simp only [List.cons_append] at this
    rw [this, hrest]
    simp

theorem maxAgeAt_none_of_head (c : Char) (r : List Char) (h : lowerC c ≠ 'm') : maxAgeAt (c :: r) = none := by
  unfold maxAgeAt
  have : (lowerL (List.take 7 (c :: r)) == "max-age".toList) = false := by
    simp only [List.take_succ_cons, lowerL, List.map_cons]
    rw [show "max-age".toList = 'm' :: "ax-age".toList by decide]
    simp [h]
  split
  · rename_i hc; rw [this] at hc; cases hc
  · rfl

/-- `search` skips everything before the first `m` / `M` -/
theorem maxAgeSearch_skip (junk l : List Char) (hj : ∀ c ∈ junk, lowerC c ≠ 'm') :
    maxAgeSearch (junk ++ l) = maxAgeSearch l := by
  induction junk with
  | nil => rfl
  | cons c r ih =>
    simp only [List.cons_append, maxAgeSearch, maxAgeAt_none_of_head c _ (hj c List.mem_cons_self)]
    exact ih fun x hx => hj x (List.mem_cons_of_mem _ hx)

theorem maxAgeSearch_of_at (l : List Char) (n : List Char) (hl : l ≠ []) (h : maxAgeAt l = some n) :
    maxAgeSearch l = some n := by
  cases l with
  | nil => exact absurd rfl hl
  | cons c r => simp [maxAgeSearch, h]

/-- a cache-control value without any `m` / `M` has no max-age -/
theorem maxAgeSearch_none (l : List Char) (h : ∀ c ∈ l, lowerC c ≠ 'm') : maxAgeSearch l = none := by
  have := maxAgeSearch_skip l [] h
  simpa [maxAgeSearch] using this

theorem digitsRev_length : ∀ f n k, n < 10 ^ k → (digitsRev f n).length ≤ max k 1 := by
  intro f
  induction f with
  | zero => intro n k _; simp [digitsRev]
  | succ f ih =>
    intro n k hk
    unfold digitsRev
    split
    · simp; omega
    · rename_i hn
      cases k with
      | zero => simp at hk; omega
      | succ k =>
        have : n / 10 < 10 ^ k := by
          rw [Nat.pow_succ] at hk
          omega
        have := ih (n / 10) k this
        simp only [List.length_cons]
        cases k with
        | zero => simp at *; omega
        | succ k => omega

theorem dec_length (n k : Nat) (h : n < 10 ^ k) : (dec n).length ≤ max k 1 := by
  unfold dec
  simp only [List.length_map, List.length_reverse]
  exact digitsRev_length _ n k h

/-- the regex finds the digit run of `junk max-age <ws> = <ws> <digits> rest` -/
theorem maxAgeSearch_lit (junk pre ws1 ws2 ds rest : List Char)
    (hj : ∀ c ∈ junk, lowerC c ≠ 'm') (hpre : lowerL pre = "max-age".toList)
    (hw1 : ∀ c ∈ ws1, isWs c = true) (hw2 : ∀ c ∈ ws2, isWs c = true)
    (hds : ∀ c ∈ ds, isDigit c = true ∧ isWs c = false) (hne : ds ≠ []) (hrest : rest.takeWhile isDigit = []) :
    maxAgeSearch (junk ++ (pre ++ (ws1 ++ '=' :: (ws2 ++ (ds ++ rest))))) = some ds := by
  have hne' : pre ++ (ws1 ++ '=' :: (ws2 ++ (ds ++ rest))) ≠ [] := by
    intro h
    have := congrArg List.length h
    have hl := congrArg List.length hpre
    simp [lowerL] at hl this
  rw [maxAgeSearch_skip _ _ hj, maxAgeSearch_of_at _ _ hne' (maxAgeAt_lit pre ws1 ws2 ds rest hpre hw1 hw2 hds hne hrest)]

/-- a cache-control value that does not contain `max-age` (any casing) has no match -/
theorem maxAgeSearch_none_of_no_infix (l : List Char) (h : isInfixL "max-age".toList (lowerL l) = false) :
    maxAgeSearch l = none := by
  induction l with
  | nil => rfl
  | cons c r ih =>
    have hl : lowerL (c :: r) = lowerC c :: lowerL r := rfl
    rw [hl] at h
    simp only [isInfixL, Bool.or_eq_false_iff] at h
    obtain ⟨hpre, hrest⟩ := h
    have hat : maxAgeAt (c :: r) = none := by
      unfold maxAgeAt
      have hne : (lowerL (List.take 7 (c :: r)) == "max-age".toList) = false := by
        rw [beq_eq_false_iff_ne]
        intro he
        have hp : ("max-age".toList).isPrefixOf (lowerC c :: lowerL r) = true := by
          rw [← hl, ← he]
          have : lowerL (List.take 7 (c :: r)) = List.take 7 (lowerL (c :: r)) := by simp [lowerL, List.map_take]
          rw [this, List.isPrefixOf_iff_prefix]
          exact List.take_prefix _ _
        rw [hp] at hpre; cases hpre
      simp only [hne, Bool.false_eq_true, if_false]
    simp only [maxAgeSearch, hat]
    exact ih hrest

/-- **max-age is read as written**: `junk max-age <ws> = <ws> <decimal n> rest` yields `n` seconds, for any casing of
    `max-age`, any junk without `m`/`M` before it and any non-digit continuation — as long as `timedelta` accepts
    `n` seconds (`n < tdLimitSec`) and `int()` the numeral -/
theorem maxAgeUs_dec (cfg : Cfg) (junk pre ws1 ws2 rest : List Char) (n : Nat)
    (hj : ∀ c ∈ junk, lowerC c ≠ 'm') (hpre : lowerL pre = "max-age".toList)
    (hw1 : ∀ c ∈ ws1, isWs c = true) (hw2 : ∀ c ∈ ws2, isWs c = true) (hrest : rest.takeWhile isDigit = [])
    (hn : n < cfg.tdLimitSec) (hlen : (dec n).length ≤ cfg.intMaxDigits) :
    maxAgeUs cfg (String.ofList (junk ++ (pre ++ (ws1 ++ '=' :: (ws2 ++ (dec n ++ rest)))))) = (n : Int) * 1000000 := by
  unfold maxAgeUs
  simp only [String.toList_ofList]
  rw [maxAgeSearch_lit junk pre ws1 ws2 (dec n) rest hj hpre hw1 hw2 (dec_digits n) (dec_ne_nil n) hrest]
  simp only [digitsToNat_dec]
  have h1 : ¬ (dec n).length > cfg.intMaxDigits := by omega
  have h2 : ¬ n ≥ cfg.tdLimitSec := by omega
  simp only [h1, h2, if_false]

/-- the simplest instance: `max-age=<n>` -/
theorem maxAgeUs_plain (cfg : Cfg) (n : Nat) (hn : n < cfg.tdLimitSec) (hlen : (dec n).length ≤ cfg.intMaxDigits) :
    maxAgeUs cfg (String.ofList ("max-age=".toList ++ dec n)) = (n : Int) * 1000000 := by
  have := maxAgeUs_dec cfg [] "max-age".toList [] [] [] n (by simp) (by decide) (by simp) (by simp) rfl hn hlen
  simpa using this

/-- **saturation of `extract_uncache_after`**: a numeral `timedelta` rejects (`n ≥ tdLimitSec`, i.e. 10⁹ days or more)
    or `int()` rejects (more than `intMaxDigits` digit characters, leading zeros included) announces `timedelta.max` -/
theorem maxAgeUs_saturated (cfg : Cfg) (junk pre ws1 ws2 ds rest : List Char)
    (hj : ∀ c ∈ junk, lowerC c ≠ 'm') (hpre : lowerL pre = "max-age".toList)
    (hw1 : ∀ c ∈ ws1, isWs c = true) (hw2 : ∀ c ∈ ws2, isWs c = true)
    (hds : ∀ c ∈ ds, isDigit c = true ∧ isWs c = false) (hne : ds ≠ []) (hrest : rest.takeWhile isDigit = [])
    (hbig : ds.length > cfg.intMaxDigits ∨ digitsToNat ds ≥ cfg.tdLimitSec) :
    maxAgeUs cfg (String.ofList (junk ++ (pre ++ (ws1 ++ '=' :: (ws2 ++ (ds ++ rest)))))) = (cfg.tdMaxUs : Int) := by
  unfold maxAgeUs
  simp only [String.toList_ofList]
  rw [maxAgeSearch_lit junk pre ws1 ws2 ds rest hj hpre hw1 hw2 hds hne hrest]
  simp only
  rcases hbig with h | h
  · simp only [h, if_true]
  · by_cases h1 : ds.length > cfg.intMaxDigits
    · simp only [h1, if_true]
    · simp only [h1, h, if_false, if_true]

/-- **default**: without a match the configured default applies (900 s in the source and in the property text) -/
theorem maxAgeUs_default (cfg : Cfg) (cc : String) (h : maxAgeSearch cc.toList = none) :
    maxAgeUs cfg cc = (cfg.defaultMaxAgeSec : Int) * 1000000 := by
  simp [maxAgeUs, h]

theorem maxAgeUs_nonneg (cfg : Cfg) (cc : String) : 0 ≤ maxAgeUs cfg cc := by
  unfold maxAgeUs
  split
  · split
    · omega
    · split <;> omega
  · omega

/-! ### `extract_valid_to`: `timestamp + uncache_after`, saturating at `datetime.max` -/

theorem effMaxAge_nonneg (cfg : Cfg) (ts : Int) (cc : String) (h : ts ≤ cfg.tMax) : 0 ≤ effMaxAge cfg ts cc := by
  unfold effMaxAge
  have := maxAgeUs_nonneg cfg cc
  split <;> omega

/-- `valid_to` never exceeds `datetime.max` … -/
theorem effMaxAge_le (cfg : Cfg) (ts : Int) (cc : String) : ts + effMaxAge cfg ts cc ≤ cfg.tMax := by
  unfold effMaxAge
  split <;> omega

/-- … equals `timestamp + max-age` when that is representable … -/
theorem effMaxAge_exact (cfg : Cfg) (ts : Int) (cc : String) (h : ts + maxAgeUs cfg cc ≤ cfg.tMax) :
    effMaxAge cfg ts cc = maxAgeUs cfg cc := by
  unfold effMaxAge
  have : ¬ ts + maxAgeUs cfg cc > cfg.tMax := by omega
  simp only [this, if_false]

/-- … and is `datetime.max` otherwise ("valid forever") -/
theorem effMaxAge_saturated (cfg : Cfg) (ts : Int) (cc : String) (h : ts + maxAgeUs cfg cc > cfg.tMax) :
    ts + effMaxAge cfg ts cc = cfg.tMax := by
  unfold effMaxAge
  simp only [h, if_true]; omega

/-! ### `udn_from_usn` -/

theorem beforeDoubleColon_spec (x y : List Char) (hx : ∀ c ∈ x, c ≠ ':') :
    beforeDoubleColon (x ++ ':' :: ':' :: y) = x := by
  induction x with
  | nil => simp [beforeDoubleColon]
  | cons c r ih =>
    have hc := hx c List.mem_cons_self
    have := ih fun d hd => hx d (List.mem_cons_of_mem _ hd)
    cases r with
    | nil => simp [beforeDoubleColon] at this ⊢; unfold beforeDoubleColon; simp [hc, beforeDoubleColon]
    | cons c2 r2 =>
      simp only [List.cons_append] at this ⊢
      unfold beforeDoubleColon
      split
      · rename_i heq; simp at heq; exact absurd heq.1 hc
      · rename_i heq; simp at heq; obtain ⟨rfl, rfl⟩ := heq; rw [this]
      · rename_i heq; simp at heq

/-- a USN that does not start with `uuid:` (any casing) names no device -/
theorem udnFromUsn_none (usn : String) (h : lowerL (usn.toList.take 5) ≠ "uuid:".toList) : udnFromUsn usn = none := by
  have : (lowerL (usn.toList.take 5) == "uuid:".toList) = false := by
    rw [beq_eq_false_iff_ne]; exact h
  unfold udnFromUsn
  simp only [this, Bool.false_eq_true, if_false]

/-- `uuid:<id>::<type>` names the device `uuid:<id>` (the casing of `uuid:` is kept) -/
theorem udnFromUsn_typed (pre id ty : List Char) (hpre : lowerL pre = "uuid".toList)
    (hid : ∀ c ∈ id, c ≠ ':') (hne : id ≠ []) :
    udnFromUsn (String.ofList (pre ++ ':' :: (id ++ ':' :: ':' :: ty))) = some (String.ofList (pre ++ ':' :: id)) := by
  have hlen : pre.length = 4 := by
    have := congrArg List.length hpre
    simpa [lowerL] using this
  obtain ⟨a, b, c, d, rfl⟩ : ∃ a b c d, pre = [a, b, c, d] := by
    match pre, hlen with
    | [a, b, c, d], _ => exact ⟨a, b, c, d, rfl⟩
  have hl : lowerL [a, b, c, d] = "uuid".toList := hpre
  simp only [lowerL, List.map_cons, List.map_nil] at hl
  have hl' : "uuid".toList = ['u', 'u', 'i', 'd'] := by decide
  rw [hl'] at hl
  simp only [List.cons.injEq, and_true] at hl
  obtain ⟨ha, hb, hc, hd⟩ := hl
  have hcol : ∀ x : Char, lowerC x ≠ ':' → x ≠ ':' := by
    intro x hx e; subst e; exact hx (by decide)
  have na : a ≠ ':' := hcol a (by rw [ha]; decide)
  have nb : b ≠ ':' := hcol b (by rw [hb]; decide)
  have nc : c ≠ ':' := hcol c (by rw [hc]; decide)
  have nd : d ≠ ':' := hcol d (by rw [hd]; decide)
  unfold udnFromUsn
  simp only [String.toList_ofList, List.cons_append, List.nil_append, List.take_succ_cons, List.take_zero, lowerL,
    List.map_cons, List.map_nil, ha, hb, hc, hd]
  have h5 : ['u', 'u', 'i', 'd', lowerC ':'] = "uuid:".toList := by decide
  rw [h5]
  simp only [beq_self_eq_true, if_true, Option.some.injEq]
  congr 1
  cases id with
  | nil => exact absurd rfl hne
  | cons i0 ir =>
    have hi0 := hid i0 List.mem_cons_self
    have := beforeDoubleColon_spec (i0 :: ir) ty hid
    simp only [List.cons_append] at this
    simp [beforeDoubleColon, na, nb, nc, nd, hi0, this]

theorem beforeDoubleColon_id (l : List Char) (h : isInfixL [':', ':'] l = false) : beforeDoubleColon l = l := by
  induction l with
  | nil => rfl
  | cons c r ih =>
    simp only [isInfixL, Bool.or_eq_false_iff] at h
    obtain ⟨hpre, hr⟩ := h
    unfold beforeDoubleColon
    split
    · rename_i heq
      simp only [List.cons.injEq] at heq
      obtain ⟨rfl, rfl⟩ := heq
      simp [List.isPrefixOf] at hpre
    · rename_i heq
      simp only [List.cons.injEq] at heq
      obtain ⟨rfl, rfl⟩ := heq
      rw [ih hr]
    · rename_i heq; cases heq

/-- a bare `uuid:<id>` USN (no `::` anywhere) names itself -/
theorem udnFromUsn_bare (usn : String) (h5 : lowerL (usn.toList.take 5) = "uuid:".toList)
    (hno : isInfixL [':', ':'] usn.toList = false) : udnFromUsn usn = some usn := by
  unfold udnFromUsn
  simp only [h5, beq_self_eq_true, if_true, beforeDoubleColon_id _ hno, String.ofList_toList]

/-! ### location validity -/

theorem isInfixL_append (n a b : List Char) : isInfixL n (a ++ (n ++ b)) = true := by
  induction a with
  | nil =>
    cases hnb : n ++ b with
    | nil =>
      have : n = [] := by cases n <;> simp_all
      simp [isInfixL, this]
    | cons h t =>
      simp only [List.nil_append, hnb, isInfixL, Bool.or_eq_true]
      left; rw [← hnb]; simp
  | cons x r ih => simp [isInfixL, ih]

/-- **a location containing a bad needle is rejected**, wherever the needle occurs -/
theorem locOk_needle (pre : String) (needles : List String) (n : String) (hn : n ∈ needles) (a b : List Char) :
    locOk pre needles (String.ofList (a ++ (n.toList ++ b))) = false := by
  unfold locOk
  have h2 : (needles.any fun m => isInfix m (String.ofList (a ++ (n.toList ++ b)))) = true := by
    rw [List.any_eq_true]
    exact ⟨n, hn, by unfold isInfix; rw [String.toList_ofList]; exact isInfixL_append _ _ _⟩
  rw [h2]; simp

/-- a location that does not start with the required prefix (`http`) is rejected -/
theorem locOk_prefix (pre : String) (needles : List String) (loc : String)
    (h : pre.toList.isPrefixOf loc.toList = false) : locOk pre needles loc = false := by
  simp [locOk, h]

/-- and conversely an accepted location starts with the prefix and contains no needle -/
theorem locOk_true (pre : String) (needles : List String) (loc : String) (h : locOk pre needles loc = true) :
    pre.toList.isPrefixOf loc.toList = true ∧ ∀ n ∈ needles, isInfix n loc = false := by
  simp only [locOk, Bool.and_eq_true, Bool.not_eq_true', List.any_eq_false] at h
  exact ⟨h.1, fun n hn => by simpa using h.2 n hn⟩

/-! ### `is_usable_location` -/

/-- an accepted location starts with the prefix, has an accepted scheme and a parsable host that is not loopback /
    IPv4 link-local -/
theorem locUsable_true (pre : String) (schemes names : List String) (loc : String)
    (h : locUsable pre schemes names loc = true) :
    pre.toList.isPrefixOf loc.toList = true ∧
    (∃ sc ∈ schemes, (splitScheme (urlClean loc.toList)).1 = sc.toList) ∧
    ∃ host, (netlocOfUrl loc.toList).bind hostOfNetloc = some host ∧ hostBad names host = false := by
  simp only [locUsable, Bool.and_eq_true, List.any_eq_true, beq_iff_eq] at h
  obtain ⟨⟨h1, sc, hsc, he⟩, h3⟩ := h
  refine ⟨h1, ⟨sc, hsc, he⟩, ?_⟩
  cases hh : (netlocOfUrl loc.toList).bind hostOfNetloc with
  | none => rw [hh] at h3; cases h3
  | some host => rw [hh] at h3; exact ⟨host, rfl, by simpa using h3⟩

/-- a location whose host is loopback or IPv4 link-local is refused, whatever else the URL holds -/
theorem locUsable_badHost (pre : String) (schemes names : List String) (loc : String) (host : List Char)
    (hh : (netlocOfUrl loc.toList).bind hostOfNetloc = some host) (hb : hostBad names host = true) :
    locUsable pre schemes names loc = false := by
  simp [locUsable, hh, hb]

/-- a location `urlsplit` cannot give a host for (no `//`, unbalanced brackets, a bracketed non-IPv6 host, empty host)
    is refused -/
theorem locUsable_noHost (pre : String) (schemes names : List String) (loc : String)
    (hh : (netlocOfUrl loc.toList).bind hostOfNetloc = none) : locUsable pre schemes names loc = false := by
  simp [locUsable, hh]

theorem locUsable_prefix (pre : String) (schemes names : List String) (loc : String)
    (h : pre.toList.isPrefixOf loc.toList = false) : locUsable pre schemes names loc = false := by
  simp [locUsable, h]

/-! ### `ip_version_from_location` -/

theorem ipVersion_range (loc : String) (v : Nat) (h : ipVersion loc = some v) : v = 4 ∨ v = 6 := by
  unfold ipVersion at h
  split at h
  · cases h
  · split at h
    · simp at h; omega
    · split at h
      · simp at h; omega
      · cases h

/-- a location in which nothing follows the scheme as `//…` has no IP version (`urlparse(...).hostname` is `None`) -/
theorem ipVersion_no_netloc (loc : String) (h : netlocOfUrl loc.toList = none) : ipVersion loc = none := by
  simp [ipVersion, h]

theorem contains_false_of (l : List Char) (c : Char) (h : ∀ y ∈ l, y ≠ c) : l.contains c = false := by
  cases hc : l.contains c with
  | false => rfl
  | true =>
    rw [List.contains_iff_mem] at hc
    exact absurd rfl (h c hc)

/-- `urlsplit` of `http://<netloc>[/path]`: the netloc, when its characters are not separators and not TAB / CR / LF -/
theorem netlocOfUrl_http (N : List Char) (path : Option (List Char))
    (hN : ∀ c ∈ N, (!(c == '/' || c == '?' || c == '#')) = true ∧ c ≠ '\t' ∧ c ≠ '\r' ∧ c ≠ '\n') :
    netlocOfUrl ("http://".toList ++ (N ++ (match path with
      | some p => '/' :: p
      | none => []))) = some N := by
  have hscheme : "http://".toList = ['h', 't', 't', 'p', ':', '/', '/'] := by decide
  have hfN : N.filter (fun c => !(c == '\t' || c == '\r' || c == '\n')) = N := by
    rw [List.filter_eq_self]
    intro c hc
    obtain ⟨_, h1, h2, h3⟩ := hN c hc
    simp [h1, h2, h3]
  unfold netlocOfUrl urlClean
  rw [hscheme]
  simp only [List.cons_append, List.nil_append, List.filter_cons, List.filter_append, hfN]
  simp only [show (!('h' == '\t' || 'h' == '\r' || 'h' == '\n')) = true by decide,
    show (!('t' == '\t' || 't' == '\r' || 't' == '\n')) = true by decide,
    show (!('p' == '\t' || 'p' == '\r' || 'p' == '\n')) = true by decide,
    show (!(':' == '\t' || ':' == '\r' || ':' == '\n')) = true by decide,
    show (!('/' == '\t' || '/' == '\r' || '/' == '\n')) = true by decide, if_true]
  simp only [List.dropWhile_cons, show decide ('h'.toNat ≤ 32) = false by decide, Bool.false_eq_true, if_false]
  unfold splitScheme
  simp only [List.dropWhile_cons, List.takeWhile_cons,
    show ('h' != ':') = true by decide, show ('t' != ':') = true by decide, show ('p' != ':') = true by decide,
    show (':' != ':') = false by decide, if_true, Bool.false_eq_true, if_false]
  simp only [show isAlphaC 'h' = true by decide, show ['t', 't', 'p'].all schemeChar = true by decide, Bool.and_self, if_true]
  rw [takeWhile_all_append _ N _ (fun c hc => (hN c hc).1)]
  cases path <;> simp

theorem splitOnC_chars (c : Char) (l : List Char) : ∀ g ∈ splitOnC c l, ∀ y ∈ g, y ∈ l := by
  unfold splitOnC
  induction l with
  | nil => intro g hg y hy; simp at hg; subst hg; simp at hy
  | cons x t ih =>
    intro g hg y hy
    simp only [List.foldr_cons, splitStep] at hg
    by_cases hx : (x == c) = true
    · simp only [hx, if_true, List.mem_cons] at hg
      rcases hg with rfl | hg
      · simp at hy
      · exact List.mem_cons_of_mem _ (ih g hg y hy)
    · simp only [hx, Bool.false_eq_true, if_false] at hg
      cases hacc : List.foldr (splitStep c) [[]] t with
      | nil =>
        rw [hacc] at hg
        simp only [List.mem_singleton] at hg
        subst hg
        simp only [List.mem_singleton] at hy
        subst hy; exact List.mem_cons_self
      | cons a r =>
        rw [hacc] at hg ih
        simp only [List.mem_cons] at hg
        rcases hg with rfl | hg
        · simp only [List.mem_cons] at hy
          rcases hy with rfl | hy
          · exact List.mem_cons_self
          · exact List.mem_cons_of_mem _ (ih a List.mem_cons_self y hy)
        · exact List.mem_cons_of_mem _ (ih g (List.mem_cons_of_mem _ hg) y hy)

/-- without a dot there is no embedded IPv4 tail -/
theorem v6Parts_nodot (a : List Char) (h : ∀ y ∈ a, y ≠ '.') : v6Parts a = splitOnC ':' a := by
  unfold v6Parts
  simp only
  cases hl : (splitOnC ':' a).getLast? with
  | none => rfl
  | some last =>
    have hm : last ∈ splitOnC ':' a := List.mem_of_getLast? hl
    have : last.contains '.' = false := contains_false_of last '.' (fun y hy => h y (splitOnC_chars ':' a last hm y hy))
    simp only [this, Bool.false_eq_true, if_false]

/-! #### dotted quads -/

theorem foldr_nosep (c : Char) (x a : List Char) (r : List (List Char)) (hx : ∀ y ∈ x, y ≠ c) :
    x.foldr (splitStep c) (a :: r) = (x ++ a) :: r := by
  induction x with
  | nil => rfl
  | cons y t ih =>
    have hy : (y == c) = false := by rw [beq_eq_false_iff_ne]; exact hx y List.mem_cons_self
    simp only [List.foldr_cons, List.cons_append]
    rw [ih fun z hz => hx z (List.mem_cons_of_mem _ hz)]
    simp [splitStep, hy]

theorem splitOnC_nosep (c : Char) (x : List Char) (hx : ∀ y ∈ x, y ≠ c) : splitOnC c x = [x] := by
  unfold splitOnC
  rw [foldr_nosep c x [] [] hx]; simp

theorem splitOnC_cons (c : Char) (l : List Char) : ∃ a r, splitOnC c l = a :: r := by
  unfold splitOnC
  induction l with
  | nil => exact ⟨[], [], rfl⟩
  | cons y t ih =>
    obtain ⟨a, r, h⟩ := ih
    simp only [List.foldr_cons, h]
    by_cases hy : (y == c) = true
    · exact ⟨[], a :: r, by simp [splitStep, hy]⟩
    · exact ⟨y :: a, r, by simp [splitStep, hy]⟩

theorem splitOnC_sep (c : Char) (x y : List Char) (hx : ∀ z ∈ x, z ≠ c) :
    splitOnC c (x ++ c :: y) = x :: splitOnC c y := by
  obtain ⟨a, r, h⟩ := splitOnC_cons c y
  unfold splitOnC at h ⊢
  rw [List.foldr_append, List.foldr_cons, h]
  simp only [splitStep, beq_self_eq_true, if_true]
  rw [foldr_nosep c x [] (a :: r) hx]; simp

theorem dec_no (n : Nat) (ch : Char) (hc : isDigit ch = false) : ∀ y ∈ dec n, y ≠ ch := by
  intro y hy e
  have := (dec_digits n y hy).1
  rw [e, hc] at this; cases this

set_option maxRecDepth 100000 in
theorem octetOk_dec : ∀ n, n < 256 → octetOk (dec n) = true := by decide

/-- the dotted quad `a.b.c.d` -/
def quad (a b c d : Nat) : List Char := dec a ++ '.' :: (dec b ++ '.' :: (dec c ++ '.' :: dec d))

theorem isV4_quad (a b c d : Nat) (ha : a < 256) (hb : b < 256) (hc : c < 256) (hd : d < 256) :
    isV4 (quad a b c d) = true := by
  have hdot : isDigit '.' = false := by decide
  unfold isV4 quad
  rw [splitOnC_sep _ _ _ (dec_no a '.' hdot), splitOnC_sep _ _ _ (dec_no b '.' hdot),
    splitOnC_sep _ _ _ (dec_no c '.' hdot), splitOnC_nosep _ _ (dec_no d '.' hdot)]
  simp [octetOk_dec a ha, octetOk_dec b hb, octetOk_dec c hc, octetOk_dec d hd]

theorem quad_no (a b c d : Nat) (ch : Char) (hc : isDigit ch = false) (hdot : ch ≠ '.') : ∀ y ∈ quad a b c d, y ≠ ch := by
  intro y hy
  unfold quad at hy
  simp only [List.mem_append, List.mem_cons] at hy
  rcases hy with h | rfl | h | rfl | h | rfl | h
  · exact dec_no a ch hc y h
  · exact fun e => hdot e.symm
  · exact dec_no b ch hc y h
  · exact fun e => hdot e.symm
  · exact dec_no c ch hc y h
  · exact fun e => hdot e.symm
  · exact dec_no d ch hc y h

/-- **ip_version_from_location on IPv4 URLs**: `http://a.b.c.d[:port][/path]` with octets `< 256` (any path) has
    IP version 4 -/
theorem ipVersion_v4 (a b c d : Nat) (ha : a < 256) (hb : b < 256) (hc : c < 256) (hd : d < 256)
    (port : Option Nat) (path : Option (List Char)) :
    ipVersion (String.ofList ("http://".toList ++ (quad a b c d ++
      ((match port with
        | some p => ':' :: dec p
        | none => []) ++
       (match path with
        | some p => '/' :: p
        | none => []))))) = some 4 := by
  let tail : List Char := match port with
    | some p => ':' :: dec p
    | none => []
  have hT : ∀ y ∈ tail, ∀ x : Char, isDigit x = false → x ≠ ':' → y ≠ x := by
    intro y hy x hx hx2
    cases port with
    | none => simp [tail] at hy
    | some p =>
      simp only [tail, List.mem_cons] at hy
      rcases hy with rfl | hy
      · exact Ne.symm hx2
      · exact dec_no p x hx y hy
  have hN : ∀ y ∈ quad a b c d ++ tail, ∀ x : Char, isDigit x = false → x ≠ '.' → x ≠ ':' → y ≠ x := by
    intro y hy x hx h1 h2
    rcases List.mem_append.mp hy with h | h
    · exact quad_no a b c d x hx h1 y h
    · exact hT y h x hx h2
  have e : "http://".toList ++ (quad a b c d ++ ((match port with
        | some p => ':' :: dec p
        | none => []) ++ (match path with
      | some p => '/' :: p
      | none => []))) = "http://".toList ++ ((quad a b c d ++ tail) ++ (match path with
      | some p => '/' :: p
      | none => [])) := by simp [tail]
  have hnl := netlocOfUrl_http (quad a b c d ++ tail) path (by
    intro y hy
    have h1 := hN y hy '/' (by decide) (by decide) (by decide)
    have h2 := hN y hy '?' (by decide) (by decide) (by decide)
    have h3 := hN y hy '#' (by decide) (by decide) (by decide)
    exact ⟨by simp [h1, h2, h3], hN y hy '\t' (by decide) (by decide) (by decide),
      hN y hy '\r' (by decide) (by decide) (by decide), hN y hy '\n' (by decide) (by decide) (by decide)⟩)
  unfold ipVersion
  rw [String.toList_ofList, e, hnl]
  simp only [Option.bind_some]
  have hc1 : (quad a b c d ++ tail).contains '[' = false :=
    contains_false_of _ _ (fun y hy => hN y hy '[' (by decide) (by decide) (by decide))
  have hc2 : (quad a b c d ++ tail).contains ']' = false :=
    contains_false_of _ _ (fun y hy => hN y hy ']' (by decide) (by decide) (by decide))
  have hat : afterLastAt (quad a b c d ++ tail) = quad a b c d ++ tail := by
    unfold afterLastAt
    rw [splitOnC_nosep '@' _ (fun y hy => hN y hy '@' (by decide) (by decide) (by decide))]
    rfl
  have hhost : List.takeWhile (fun x => x != ':') (quad a b c d ++ tail) = quad a b c d := by
    rw [takeWhile_all_append _ (quad a b c d) tail
      (fun y hy => by simpa using quad_no a b c d ':' (by decide) (by decide) y hy)]
    cases port <;> simp [tail]
  have hne : (quad a b c d).isEmpty = false := by
    unfold quad
    cases h : dec a with
    | nil => exact absurd h (dec_ne_nil a)
    | cons x r => rfl
  unfold hostOfNetloc
  simp only [hc1, hc2, bne_self_eq_false, Bool.false_eq_true, if_false, Bool.false_and, hat, hhost, hne,
    isV4_quad a b c d ha hb hc hd, if_true]

/-- every dotted quad in 127/8 or 169.254/16 is a bad host, and so is `::1` written out, and `localhost` -/
theorem hostBad_v4 (names : List String) (a b c d : Nat) (ha : a < 256) (hb : b < 256) (hc : c < 256) (hd : d < 256)
    (h : a = 127 ∨ (a = 169 ∧ b = 254)) : hostBad names (quad a b c d) = true := by
  have hdot : isDigit '.' = false := by decide
  have hsplit : splitOnC '.' (quad a b c d) = [dec a, dec b, dec c, dec d] := by
    unfold quad
    rw [splitOnC_sep _ _ _ (dec_no a '.' hdot), splitOnC_sep _ _ _ (dec_no b '.' hdot),
      splitOnC_sep _ _ _ (dec_no c '.' hdot), splitOnC_nosep _ _ (dec_no d '.' hdot)]
  unfold hostBad
  rw [isV4_quad a b c d ha hb hc hd, hsplit]
  simp only [List.map_cons, List.map_nil, digitsToNat_dec, Bool.true_and]
  rcases h with rfl | ⟨rfl, rfl⟩ <;> simp [v4Bad]

/-! #### bracketed IPv6 literals -/

/-- `g1:g2:…:gk` -/
def joinColon : List (List Char) → List Char
  | [] => []
  | [g] => g
  | g :: g' :: r => g ++ ':' :: joinColon (g' :: r)

theorem hextet_props (g : List Char) (h : hextetOk g = true) :
    g ≠ [] ∧ g.isEmpty = false ∧ (∀ c ∈ g, isHex c = true) := by
  simp only [hextetOk, Bool.and_eq_true, Bool.not_eq_true', decide_eq_true_eq, List.all_eq_true] at h
  exact ⟨by intro e; simp [e] at h, h.1.1, h.2⟩

theorem hex_ne (c x : Char) (hc : isHex c = true) (hx : isHex x = false) : c ≠ x := by
  intro e; rw [e, hx] at hc; cases hc

theorem splitOnC_join (gs : List (List Char)) (hne : gs ≠ []) (hg : ∀ g ∈ gs, ∀ c ∈ g, c ≠ ':') :
    splitOnC ':' (joinColon gs) = gs := by
  induction gs with
  | nil => exact absurd rfl hne
  | cons g r ih =>
    cases r with
    | nil => simp only [joinColon]; exact splitOnC_nosep ':' g (hg g List.mem_cons_self)
    | cons g' r' =>
      simp only [joinColon]
      rw [splitOnC_sep ':' g _ (hg g List.mem_cons_self),
        ih (by simp) (fun x hx => hg x (List.mem_cons_of_mem _ hx))]

theorem splitOnC_join_append (gs : List (List Char)) (y : List Char) (hne : gs ≠ [])
    (hg : ∀ g ∈ gs, ∀ c ∈ g, c ≠ ':') :
    splitOnC ':' (joinColon gs ++ ':' :: y) = gs ++ splitOnC ':' y := by
  induction gs with
  | nil => exact absurd rfl hne
  | cons g r ih =>
    cases r with
    | nil => simp only [joinColon, List.cons_append, List.nil_append]; exact splitOnC_sep ':' g y (hg g List.mem_cons_self)
    | cons g' r' =>
      simp only [joinColon, List.append_assoc, List.cons_append]
      rw [splitOnC_sep ':' g _ (hg g List.mem_cons_self),
        ih (by simp) (fun x hx => hg x (List.mem_cons_of_mem _ hx))]
      simp

theorem joinColon_chars (gs : List (List Char)) (hg : ∀ g ∈ gs, ∀ c ∈ g, isHex c = true) :
    ∀ c ∈ joinColon gs, isHex c = true ∨ c = ':' := by
  induction gs with
  | nil => intro c hc; simp [joinColon] at hc
  | cons g r ih =>
    cases r with
    | nil => intro c hc; exact Or.inl (hg g List.mem_cons_self c (by simpa [joinColon] using hc))
    | cons g' r' =>
      intro c hc
      simp only [joinColon, List.mem_append, List.mem_cons] at hc
      rcases hc with h | rfl | h
      · exact Or.inl (hg g List.mem_cons_self c h)
      · exact Or.inr rfl
      · exact ih (fun x hx => hg x (List.mem_cons_of_mem _ hx)) c h

theorem filter_empty_hextets (L : List (List Char)) (hL : ∀ g ∈ L, hextetOk g = true) :
    L.filter (·.isEmpty) = [] := by
  rw [List.filter_eq_nil_iff]
  intro g hg
  simp [(hextet_props g (hL g hg)).2.1]

/-- the compressed form `L::R` (both sides non-empty, at most 7 hextets in all) is accepted -/
theorem v6PartsOk_compressed (L R : List (List Char)) (hL : ∀ g ∈ L, hextetOk g = true) (hR : ∀ g ∈ R, hextetOk g = true)
    (hLn : L ≠ []) (hRn : R ≠ []) (hlen : L.length + R.length ≤ 7) :
    v6PartsOk (L ++ [] :: R) = true := by
  obtain ⟨l0, L', rfl⟩ : ∃ l0 L', L = l0 :: L' := by cases L with
    | nil => exact absurd rfl hLn
    | cons a b => exact ⟨a, b, rfl⟩
  obtain ⟨rl, hrl⟩ : ∃ rl, R.getLast? = some rl := by
    cases h : R.getLast? with
    | none => simp [List.getLast?_eq_none_iff] at h; exact absurd h hRn
    | some x => exact ⟨x, rfl⟩
  have hrlm : rl ∈ R := List.mem_of_getLast? hrl
  have hl0 := (hextet_props l0 (hL l0 List.mem_cons_self)).2.1
  have hrle := (hextet_props rl (hR rl hrlm)).2.1
  have hfL := filter_empty_hextets (l0 :: L') hL
  have hfR := filter_empty_hextets R hR
  have hlast : ((l0 :: L') ++ [] :: R).getLast? = some rl := by
    rw [List.getLast?_append, show ([] :: R : List (List Char)).getLast? = some rl by
      rw [List.getLast?_cons]; simp [hrl]]
    simp
  have hall : ((l0 :: L') ++ [] :: R).all (fun g => g.isEmpty || hextetOk g) = true := by
    rw [List.all_eq_true]
    intro g hg
    rcases List.mem_append.mp hg with h | h
    · simp [hL g h]
    · rcases List.mem_cons.mp h with rfl | h
      · simp
      · simp [hR g h]
  have hfL' : L'.filter (·.isEmpty) = [] := filter_empty_hextets L' (fun g hg => hL g (List.mem_cons_of_mem _ hg))
  have hlast' : (l0 :: (L' ++ [] :: R)).getLast? = some rl := by simpa using hlast
  have hall' : (l0 :: (L' ++ [] :: R)).all (fun g => g.isEmpty || hextetOk g) = true := by simpa using hall
  unfold v6PartsOk
  simp only [List.cons_append, hlast', hall', List.filter_cons, hl0, List.filter_append, hfL', hfR,
    List.isEmpty_nil, if_true, List.head?_cons, hrle, List.length_append, List.length_cons, List.length_nil]
  simp only [List.length_append, List.length_cons, List.length_nil] at hlen
  simp
  have hRpos : 0 < R.length := List.length_pos_iff.mpr hRn
  omega

/-- the full form `g1:…:g8` is accepted -/
theorem v6PartsOk_full (gs : List (List Char)) (hg : ∀ g ∈ gs, hextetOk g = true) (hlen : gs.length = 8) :
    v6PartsOk gs = true := by
  obtain ⟨g0, r, rfl⟩ : ∃ g0 r, gs = g0 :: r := by cases gs with
    | nil => simp at hlen
    | cons a b => exact ⟨a, b, rfl⟩
  obtain ⟨gl, hgl⟩ : ∃ gl, (g0 :: r).getLast? = some gl := by
    cases h : (g0 :: r).getLast? with
    | none => simp [List.getLast?_eq_none_iff] at h
    | some x => exact ⟨x, rfl⟩
  have hglm : gl ∈ g0 :: r := List.mem_of_getLast? hgl
  have h0 := (hextet_props g0 (hg g0 List.mem_cons_self)).2.1
  have hle := (hextet_props gl (hg gl hglm)).2.1
  have hf := filter_empty_hextets (g0 :: r) hg
  have hall : (g0 :: r).all (fun g => g.isEmpty || hextetOk g) = true := by
    rw [List.all_eq_true]; intro g hgm; simp [hg g hgm]
  unfold v6PartsOk
  simp only [hgl, hall, hf, List.head?_cons, h0, hle, hlen]
  simp

/-- **ip_version_from_location on bracketed IPv6 URLs**: `http://[addr]`, `http://[addr%zone]` (numeric zone, as
    `get_adjusted_url` writes it), optional `:port`, optional `/path` — version 6 whenever `ip_address` accepts `addr`
    (`v6PartsOk` of its `:`-separated parts; `addr` consists of hex digits and colons) -/
theorem ipVersion_v6_of_parts (addr : List Char) (haddr : ∀ c ∈ addr, isHex c = true ∨ c = ':')
    (hok : v6PartsOk (splitOnC ':' addr) = true)
    (zone port : Option Nat) (path : Option (List Char)) :
    ipVersion (String.ofList ("http://".toList ++ ('[' :: (addr ++
      ((match zone with
        | some z => '%' :: dec z
        | none => []) ++ (']' ::
      ((match port with
        | some p => ':' :: dec p
        | none => []) ++
       (match path with
        | some p => '/' :: p
        | none => [])))))))) = some 6 := by
  let zp : List Char := match zone with
    | some z => '%' :: dec z
    | none => []
  let pp : List Char := match port with
    | some p => ':' :: dec p
    | none => []
  have hA : ∀ y ∈ addr, ∀ x : Char, isHex x = false → x ≠ ':' → y ≠ x := by
    intro y hy x hx hx2
    rcases haddr y hy with h | rfl
    · exact hex_ne y x h hx
    · exact Ne.symm hx2
  have hZ : ∀ y ∈ zp, ∀ x : Char, isDigit x = false → x ≠ '%' → y ≠ x := by
    intro y hy x hx hx2
    cases zone with
    | none => simp [zp] at hy
    | some z =>
      simp only [zp, List.mem_cons] at hy
      rcases hy with rfl | hy
      · exact Ne.symm hx2
      · exact dec_no z x hx y hy
  have hP : ∀ y ∈ pp, ∀ x : Char, isDigit x = false → x ≠ ':' → y ≠ x := by
    intro y hy x hx hx2
    cases port with
    | none => simp [pp] at hy
    | some p =>
      simp only [pp, List.mem_cons] at hy
      rcases hy with rfl | hy
      · exact Ne.symm hx2
      · exact dec_no p x hx y hy
  -- every character of the netloc differs from any `x` that is no hex digit and none of `[ ] % :`
  have hN : ∀ y ∈ '[' :: (addr ++ (zp ++ ']' :: pp)), ∀ x : Char, isHex x = false → isDigit x = false →
      x ≠ '[' → x ≠ ']' → x ≠ '%' → x ≠ ':' → y ≠ x := by
    intro y hy x h1 h2 h3 h4 h5 h6
    simp only [List.mem_cons, List.mem_append] at hy
    rcases hy with rfl | h | h | rfl | h
    · exact Ne.symm h3
    · exact hA y h x h1 h6
    · exact hZ y h x h2 h5
    · exact Ne.symm h4
    · exact hP y h x h2 h6
  have e : "http://".toList ++ ('[' :: (addr ++ ((match zone with
        | some z => '%' :: dec z
        | none => []) ++ (']' :: ((match port with
        | some p => ':' :: dec p
        | none => []) ++ (match path with
        | some p => '/' :: p
        | none => [])))))) = "http://".toList ++ (('[' :: (addr ++ (zp ++ ']' :: pp))) ++ (match path with
        | some p => '/' :: p
        | none => [])) := by simp [zp, pp]
  have hnl := netlocOfUrl_http ('[' :: (addr ++ (zp ++ ']' :: pp))) path (by
    intro y hy
    have h1 := hN y hy '/' (by decide) (by decide) (by decide) (by decide) (by decide) (by decide)
    have h2 := hN y hy '?' (by decide) (by decide) (by decide) (by decide) (by decide) (by decide)
    have h3 := hN y hy '#' (by decide) (by decide) (by decide) (by decide) (by decide) (by decide)
    exact ⟨by simp [h1, h2, h3],
      hN y hy '\t' (by decide) (by decide) (by decide) (by decide) (by decide) (by decide),
      hN y hy '\r' (by decide) (by decide) (by decide) (by decide) (by decide) (by decide),
      hN y hy '\n' (by decide) (by decide) (by decide) (by decide) (by decide) (by decide)⟩)
  unfold ipVersion
  rw [String.toList_ofList, e, hnl]
  simp only [Option.bind_some]
  -- host between the brackets
  have hhost : List.takeWhile (fun x => x != ']') (addr ++ (zp ++ ']' :: pp)) = addr ++ zp := by
    rw [← List.append_assoc, takeWhile_all_append _ (addr ++ zp)]
    · simp
    · intro y hy
      rcases List.mem_append.mp hy with h | h
      · simpa using hA y h ']' (by decide) (by decide)
      · simpa using hZ y h ']' (by decide) (by decide)
  have hbr : bracketed ('[' :: (addr ++ (zp ++ ']' :: pp))) = addr ++ zp := by
    simp [bracketed, hhost]
  have hdot : ∀ y ∈ addr, y ≠ '.' := fun y hy => hA y hy '.' (by decide) (by decide)
  have hv6 : isV6 (addr ++ zp) = true := by
    unfold isV6
    cases zone with
    | none =>
      simp only [zp, List.append_nil]
      rw [splitOnC_nosep '%' addr (fun y hy => hA y hy '%' (by decide) (by decide))]
      simp only [v6Parts_nodot addr hdot]
      exact hok
    | some z =>
      simp only [zp]
      rw [splitOnC_sep '%' addr (dec z) (fun y hy => hA y hy '%' (by decide) (by decide)),
        splitOnC_nosep '%' (dec z) (dec_no z '%' (by decide))]
      simp only [v6Parts_nodot addr hdot, hok, Bool.and_true, Bool.not_eq_true']
      cases h : dec z with
      | nil => exact absurd h (dec_ne_nil z)
      | cons a b => rfl
  have hv4 : isV4 (addr ++ zp) = false := by
    unfold isV4
    rw [splitOnC_nosep '.' (addr ++ zp) (by
      intro y hy
      rcases List.mem_append.mp hy with h | h
      · exact hdot y h
      · exact hZ y h '.' (by decide) (by decide))]
    rfl
  have hat : afterLastAt ('[' :: (addr ++ (zp ++ ']' :: pp))) = '[' :: (addr ++ (zp ++ ']' :: pp)) := by
    unfold afterLastAt
    rw [splitOnC_nosep '@' _ (fun y hy =>
      hN y hy '@' (by decide) (by decide) (by decide) (by decide) (by decide) (by decide))]
    rfl
  have hne : (addr ++ zp).isEmpty = false := by
    cases ha : addr with
    | nil => rw [ha] at hok; exact absurd hok (by decide)
    | cons x r => rfl
  unfold hostOfNetloc
  simp only [hat, hbr, hv6, hne, List.contains_cons, beq_self_eq_true, Bool.true_or, bne_self_eq_false,
    Bool.false_eq_true, if_false, Bool.not_true, Bool.and_false, if_true, hv4]
  simp [hv4, hv6]

/-- … for the compressed form `g1:…:gi::h1:…:hj` (both sides non-empty, at most 7 hextets) -/
theorem ipVersion_v6 (L R : List (List Char)) (hL : ∀ g ∈ L, hextetOk g = true) (hR : ∀ g ∈ R, hextetOk g = true)
    (hLn : L ≠ []) (hRn : R ≠ []) (hlen : L.length + R.length ≤ 7)
    (zone port : Option Nat) (path : Option (List Char)) :
    ipVersion (String.ofList ("http://".toList ++ ('[' :: ((joinColon L ++ ':' :: ':' :: joinColon R) ++
      ((match zone with
        | some z => '%' :: dec z
        | none => []) ++ (']' ::
      ((match port with
        | some p => ':' :: dec p
        | none => []) ++
       (match path with
        | some p => '/' :: p
        | none => [])))))))) = some 6 := by
  have hcL : ∀ g ∈ L, ∀ c ∈ g, c ≠ ':' := fun g hg c hc =>
    hex_ne c ':' ((hextet_props g (hL g hg)).2.2 c hc) (by decide)
  have hcR : ∀ g ∈ R, ∀ c ∈ g, c ≠ ':' := fun g hg c hc =>
    hex_ne c ':' ((hextet_props g (hR g hg)).2.2 c hc) (by decide)
  apply ipVersion_v6_of_parts
  · intro c hc
    simp only [List.mem_append, List.mem_cons] at hc
    rcases hc with h | rfl | rfl | h
    · exact joinColon_chars L (fun g hg => (hextet_props g (hL g hg)).2.2) c h
    · exact Or.inr rfl
    · exact Or.inr rfl
    · exact joinColon_chars R (fun g hg => (hextet_props g (hR g hg)).2.2) c h
  · have hsep := splitOnC_sep ':' [] (joinColon R) (by simp)
    simp only [List.nil_append] at hsep
    rw [splitOnC_join_append L _ hLn hcL, hsep, splitOnC_join R hRn hcR]
    exact v6PartsOk_compressed L R hL hR hLn hRn hlen

/-- … and for the full form `g1:…:g8` -/
theorem ipVersion_v6_full (gs : List (List Char)) (hg : ∀ g ∈ gs, hextetOk g = true) (hlen : gs.length = 8)
    (zone port : Option Nat) (path : Option (List Char)) :
    ipVersion (String.ofList ("http://".toList ++ ('[' :: (joinColon gs ++
      ((match zone with
        | some z => '%' :: dec z
        | none => []) ++ (']' ::
      ((match port with
        | some p => ':' :: dec p
        | none => []) ++
       (match path with
        | some p => '/' :: p
        | none => [])))))))) = some 6 := by
  have hc : ∀ g ∈ gs, ∀ c ∈ g, c ≠ ':' := fun g hgm c hcm =>
    hex_ne c ':' ((hextet_props g (hg g hgm)).2.2 c hcm) (by decide)
  have hne : gs ≠ [] := by intro e; simp [e] at hlen
  apply ipVersion_v6_of_parts
  · exact joinColon_chars gs (fun g hgm => (hextet_props g (hg g hgm)).2.2)
  · rw [splitOnC_join gs hne hc]; exact v6PartsOk_full gs hg hlen

/-- sanity pins for the URL grammar of the generator (samples, not a universal claim) -/
example : ipVersion "http://192.168.1.10:80/desc.xml" = some 4 ∧ ipVersion "http://[2001:db8::10]:80/desc.xml" = some 6 ∧
    ipVersion "http://[fe80::1%3]:80/desc.xml" = some 6 ∧ ipVersion "https://tv.example:443/d" = none ∧
    ipVersion "http://256.1.1.1/" = none ∧ ipVersion "http://01.1.1.1/" = none ∧ ipVersion "http://[::1]:80/d" = some 6 ∧
    ipVersion "http://[1::2::3]/" = none ∧ ipVersion "http://user@10.0.0.1:8080/x?y#z" = some 4 := by decide

/-! ### what the tracker reads from the raw header map -/

theorem lower_source : lower "_source" = "_source" := by decide

theorem get?_write_source (h : Hdrs String) (v k : String) (hk : k ≠ "_source") :
    get? (SMap.write lower h "_source" v) k = get? h k := by
  unfold SMap.write
  rw [lower_source, get?_set_ne _ _ _ _ (Ne.symm hk)]

/-- every header map the listener builds has one entry per folded name -/
theorem hdrs_nodup (pairs : List (String × String)) : (keys (SMap.writeAll lower [] pairs : Hdrs String)).Nodup := by
  unfold SMap.writeAll
  suffices H : ∀ (acc : Hdrs String), (keys acc).Nodup →
      (keys (pairs.foldl (fun acc p => SMap.write lower acc p.1 p.2) acc)).Nodup from H [] (by simp [keys])
  induction pairs with
  | nil => intro acc h; exact h
  | cons p r ih => intro acc h; exact ih _ (nodup_keys_set _ _ _ h)

theorem hdrs_nodup_source (pairs : List (String × String)) (v : String) :
    (keys (SMap.write lower (SMap.writeAll lower [] pairs) "_source" v : Hdrs String)).Nodup :=
  nodup_keys_set _ _ _ (hdrs_nodup pairs)

/-- the fields of `mkMsg` that decide validity, in terms of the raw map -/
theorem mkMsg_fields (cfg : Cfg) (kind : Kind) (h : Hdrs String) :
    (mkMsg cfg kind h).kind = kind ∧
    (mkMsg cfg kind h).udn = (truthy (get? h "usn")).bind udnFromUsn ∧
    (mkMsg cfg kind h).ty = truthy (get? h (if kind == .search then "st" else "nt")) ∧
    (mkMsg cfg kind h).loc = truthy (get? h "location") ∧
    (mkMsg cfg kind h).locOk = (match truthy (get? h "location") with
      | some l => locUsable cfg.searchPrefix cfg.schemes cfg.loopbackNames l
      | none => false) ∧
    (tsOf h ≤ cfg.tMax → 0 ≤ (mkMsg cfg kind h).maxAge) ∧ (mkMsg cfg kind h).hdrs = h :=
  ⟨rfl, rfl, rfl, rfl, rfl, fun ht => effMaxAge_nonneg _ _ _ ht, rfl⟩

/-- `_on_data` either drops the packet or hands `mkMsg` of the tagged map to the tracker; the callback is chosen by
    the socket and, on the advertisement socket, by the NTS value -/
theorem parseEv_cases (cfg : Cfg) (sockA : Bool) (pairs : List (String × String)) :
    (∃ ts, parseEv cfg sockA pairs = .noise ts) ∨
    ∃ kind v, parseEv cfg sockA pairs = .msg (mkMsg cfg kind (SMap.write lower (SMap.writeAll lower [] pairs) "_source" v)) ∧
      (sockA = false → kind = .search) ∧ (sockA = true → kind ≠ .search) ∧
      (kind = .byebye → hget (SMap.writeAll lower [] pairs) "nts" = some "ssdp:byebye") ∧
      (kind ≠ .search → (truthy (get? (SMap.writeAll lower [] pairs) "nts")).isSome = true) := by
  have htr : ∀ nts : String, hget (SMap.writeAll lower [] pairs) "nts" = some nts → nts.isEmpty = false →
      (truthy (get? (SMap.writeAll lower [] pairs) "nts")).isSome = true := by
    intro nts h hne
    unfold hget at h
    cases hg : get? (SMap.writeAll lower [] pairs) "nts" with
    | none => rw [hg] at h; cases h
    | some q =>
      rw [hg] at h
      simp only [Option.map_some, Option.some.injEq] at h
      obtain ⟨sp, v⟩ := q
      simp only at h; subst h
      simp [truthy, hne]
  unfold parseEv
  simp only
  by_cases hman : (hget (SMap.writeAll lower [] pairs) "man" == some ssdpDiscover) = true
  · simp only [hman, if_true]; exact Or.inl ⟨_, rfl⟩
  · simp only [hman, Bool.false_eq_true, if_false]
    cases sockA with
    | true =>
      simp only [if_true]
      cases hn : hget (SMap.writeAll lower [] pairs) "nts" with
      | none => exact Or.inl ⟨_, rfl⟩
      | some nts =>
        simp only
        by_cases h1 : (nts == "ssdp:alive") = true
        · simp only [h1, if_true]; exact Or.inr ⟨.alive, _, rfl, by simp, by simp, by simp,
            fun _ => htr nts hn (by rw [beq_iff_eq] at h1; rw [h1]; decide)⟩
        · simp only [h1, Bool.false_eq_true, if_false]
          by_cases h2 : (nts == "ssdp:byebye") = true
          · simp only [h2, if_true]
            exact Or.inr ⟨.byebye, _, rfl, by simp, by simp, fun _ => by rw [beq_iff_eq] at h2; rw [h2],
              fun _ => htr nts hn (by rw [beq_iff_eq] at h2; rw [h2]; decide)⟩
          · simp only [h2, Bool.false_eq_true, if_false]
            by_cases h3 : (nts == "ssdp:update") = true
            · simp only [h3, if_true]; exact Or.inr ⟨.update, _, rfl, by simp, by simp, by simp,
                fun _ => htr nts hn (by rw [beq_iff_eq] at h3; rw [h3]; decide)⟩
            · simp only [h3, Bool.false_eq_true, if_false]; exact Or.inl ⟨_, rfl⟩
    | false =>
      simp only [Bool.false_eq_true, if_false]
      split
      · exact Or.inl ⟨_, rfl⟩
      · exact Or.inr ⟨.search, _, rfl, by simp, by simp, by simp, by simp⟩

/-- **what the receive path guarantees** (`Msg.wf`) follows from one fact about `decode_ssdp_packet`: when the USN
    yields a udn, the `_udn` entry of the header map is that udn — and `_timestamp` is a `datetime` (≤ `datetime.max`).
    The NTS of an advertisement and the sign of the effective max-age are consequences of the dispatch, of `\\d+` and
    of the saturating sum. -/
theorem parseEv_wf (cfg : Cfg) (sockA : Bool) (pairs : List (String × String))
    (hudn : ∀ u, (truthy (get? (SMap.writeAll lower [] pairs) "usn")).bind udnFromUsn = some u →
      truthy (get? (SMap.writeAll lower [] pairs) "_udn") = some u)
    (hts : tsOf (SMap.writeAll lower [] pairs) ≤ cfg.tMax) :
    (parseEv cfg sockA pairs).wf = true := by
  rcases parseEv_cases cfg sockA pairs with ⟨ts, he⟩ | ⟨kind, v, he, _, _, _, hk4⟩
  · rw [he]; rfl
  · rw [he]
    simp only [Ev.wf, Msg.wf, mkMsg, Bool.and_eq_true, Bool.or_eq_true, decide_eq_true_eq,
      get?_write_source _ _ "usn" (by decide), get?_write_source _ _ "_udn" (by decide),
      get?_write_source _ _ "nts" (by decide)]
    have hts' : tsOf (SMap.write lower (SMap.writeAll lower [] pairs) "_source" v) ≤ cfg.tMax := by
      simpa [tsOf, hget, get?_write_source _ _ "_timestamp" (by decide)] using hts
    refine ⟨⟨?_, ?_⟩, effMaxAge_nonneg _ _ _ hts'⟩
    · cases hu : (truthy (get? (SMap.writeAll lower [] pairs) "usn")).bind udnFromUsn with
      | none => left; rfl
      | some u => right; exact hudn u hu
    · by_cases hk : kind = .search
      · exact Or.inl hk
      · exact Or.inr (hk4 hk)

/-- the unicast filter only drops: the filtered event is the unfiltered one or noise -/
theorem parseEvT_cases (cfg : Cfg) (targetHost : String) (sockA : Bool) (pairs : List (String × String)) :
    parseEvT cfg targetHost sockA pairs = parseEv cfg sockA pairs ∨ ∃ ts, parseEvT cfg targetHost sockA pairs = .noise ts := by
  unfold parseEvT
  cases h : parseEv cfg sockA pairs with
  | msg m => simp only; split
             · exact Or.inr ⟨_, rfl⟩
             · exact Or.inl rfl
  | purge n => exact Or.inl rfl
  | noise t => exact Or.inl rfl

/-- a response from the configured target host (and every packet on the advertisement socket, and everything in
    multicast mode) passes the filter -/
theorem parseEvT_pass (cfg : Cfg) (targetHost : String) (sockA : Bool) (pairs : List (String × String))
    (h : sockA = true ∨ targetHost = "" ∨ hget (SMap.writeAll lower [] pairs) "_host" = some targetHost) :
    parseEvT cfg targetHost sockA pairs = parseEv cfg sockA pairs := by
  unfold parseEvT
  cases hp : parseEv cfg sockA pairs with
  | msg m =>
    simp only
    rcases h with h | h | h
    · simp [h]
    · simp [h]
    · simp [h]
  | purge n => rfl
  | noise t => rfl

theorem parseEvT_wf (cfg : Cfg) (targetHost : String) (sockA : Bool) (pairs : List (String × String))
    (h : (parseEv cfg sockA pairs).wf = true) : (parseEvT cfg targetHost sockA pairs).wf = true := by
  rcases parseEvT_cases cfg targetHost sockA pairs with e | ⟨ts, e⟩
  · rw [e]; exact h
  · rw [e]; rfl

/-- what reaches the listener: a decoded packet on the search (`sockA = false`) or advertisement socket, or an explicit
    `purge_devices(now)` call -/
inductive RawOp
  | pkt (sockA : Bool) (pairs : List (String × String))
  | purge (now : Int)
  | drop (ts : Int)          -- a datagram `datagram_received` discards before `_on_data`

/-- the event the model processes for a raw operation -/
def RawOp.ev (cfg : Cfg) : RawOp → Ev String
  | .pkt sockA pairs => parseEv cfg sockA pairs
  | .purge now => .purge now
  | .drop ts => .noise ts

/-- what is assumed about `decode_ssdp_packet`: `_udn` is the udn of a uuid USN, and `_timestamp` is a `datetime`
    (so not beyond `datetime.max`) -/
def RawOp.decoded (cfg : Cfg) : RawOp → Prop
  | .pkt _ pairs => (∀ u, (truthy (get? (SMap.writeAll lower [] pairs) "usn")).bind udnFromUsn = some u →
      truthy (get? (SMap.writeAll lower [] pairs) "_udn") = some u) ∧
      tsOf (SMap.writeAll lower [] pairs) ≤ cfg.tMax
  | .purge _ => True
  | .drop _ => True

theorem RawOp.ev_wf (cfg : Cfg) (o : RawOp) (h : o.decoded cfg) : (o.ev cfg).wf = true := by
  cases o with
  | pkt sockA pairs => exact parseEv_wf cfg sockA pairs h.1 h.2
  | purge now => rfl
  | drop ts => rfl

/-- the event for a raw operation of a listener whose search side has the unicast filter host `tgt` ("" = multicast) -/
def RawOp.evT (cfg : Cfg) (tgt : String) : RawOp → Ev String
  | .pkt sockA pairs => parseEvT cfg tgt sockA pairs
  | .purge now => .purge now
  | .drop ts => .noise ts

theorem RawOp.evT_wf (cfg : Cfg) (tgt : String) (o : RawOp) (h : o.decoded cfg) : (o.evT cfg tgt).wf = true := by
  cases o with
  | pkt sockA pairs => exact parseEvT_wf cfg tgt sockA pairs (parseEv_wf cfg sockA pairs h.1 h.2)
  | purge now => rfl
  | drop ts => rfl

end Upnp.C03.Parse
