/-
  Lemmas for `present_within_max_age`: the fact "`u` is known with `valid_to = E` and location `loc` valid to `E`"
  is established by a valid sighting of `u` and survives every later event that does not name `u`, as long as the
  events that purge carry a time `≤ E`.
-/
import Upnp.Lemmas.C03Step
set_option linter.unusedSectionVars false
set_option linter.unusedSimpArgs false
namespace Upnp.C03
open Upnp PyDict
variable {σ : Type} [DecidableEq σ] (ipv : σ → Option Nat) (skip : σ → Bool)

/-- `u` is in the map, valid to `E`, with `loc` among its locations (valid to `E` as well) -/
def Present (s : Tracker σ) (u loc : σ) (E : Int) : Prop :=
  ∃ d, get? s.devices u = some d ∧ d.validTo = E ∧ get? d.locs loc = some E

/-- the event runs the purge: an explicit purge, or a message handed to `see_search` / `see_advertisement` -/
def Ev.purges : Ev σ → Bool
  | .purge _ => true
  | .msg m => decide (m.kind ≠ .byebye)
  | .noise _ => false

/-- the event names `u`: a byebye for `u` or a valid sighting of `u` (property-text reading) -/
def Ev.names (u : σ) : Ev σ → Bool
  | .msg m => decide (m.byebye? = some u) ||
      (match m.sighting? with
       | some p => decide (p.1 = u)
       | none => false)
  | _ => false

theorem sighting_fields (m : Msg σ) (u loc : σ) (h : m.sighting? = some (u, loc)) :
    m.udn = some u ∧ m.loc = some loc ∧ m.kind ≠ .byebye := by
  unfold Msg.sighting? at h
  split at h
  · cases h
  · rename_i hk
    cases hu : m.udn <;> cases ht : m.ty <;> cases hl : m.loc <;> simp [hu, ht, hl] at h
    exact ⟨by rw [h.2.1], by rw [h.2.2], hk⟩

theorem present_purge {s : Tracker σ} {u loc : σ} {E : Int} (hp : Present s u loc E) (now : Int) (hn : now ≤ E) :
    Present (purge s now) u loc E := by
  obtain ⟨d, hd, hv, hl⟩ := hp
  obtain ⟨d', hd', hk⟩ := purge_get?_kept now u d hd (by omega)
  refine ⟨d', hd', by rw [hk.1, hv], ?_⟩
  rcases hk.2.2.2.2 with h | h
  · rw [h]; exact hl
  · rw [h]; exact get?_filter_of_get? _ _ _ _ hl (by simpa using hn)

theorem unsee_state (s : Tracker σ) (m : Msg σ) (hk : m.kind = .byebye) :
    (unsee s m).1 = s ∨ ∃ u', m.byebye? = some u' ∧ (unsee s m).1 = ⟨erase s.devices u', s.next⟩ := by
  unfold unsee
  split
  · exact Or.inl rfl
  · cases hu : m.udn with
    | none => exact Or.inl rfl
    | some u' =>
      cases hty : m.ty with
      | none => exact Or.inl rfl
      | some ty =>
        simp only
        cases hg : get? s.devices u' with
        | none => exact Or.inl rfl
        | some d => exact Or.inr ⟨u', by simp [Msg.byebye?, hk, hu, hty], rfl⟩

/-- one later event keeps `u` present -/
theorem present_step {s : Tracker σ} (hi : Inv s) {u loc : σ} {E : Int} (hp : Present s u loc E) (e : Ev σ)
    (hw : e.wf = true) (ht : e.purges = true → e.time ≤ E) (hn : e.names u = false) :
    Present (step ipv skip s e).1 u loc E := by
  cases e with
  | noise ts => exact hp
  | purge now => exact present_purge hp now (ht rfl)
  | msg m =>
    simp only [Ev.wf] at hw
    simp only [Ev.names, Bool.or_eq_false_iff, decide_eq_false_iff_not] at hn
    have key : m.kind ≠ .byebye → ∀ s', ((s' = s ∧ m.sighting? = none) ∨
        ∃ u' loc' d nl d', seeDevice ipv s m = ((seeDevice ipv s m).1, some (u', d, nl)) ∧
          m.sighting? = some (u', loc') ∧ d'.validTo = d.validTo ∧ d'.locs = d.locs ∧
          s' = ⟨set (seeDevice ipv s m).1.devices u' d', (seeDevice ipv s m).1.next⟩) → Present s' u loc E := by
      intro hk s' H
      have htm : m.ts ≤ E := ht (by simp [Ev.purges, hk])
      rcases H with ⟨h, _⟩ | ⟨u', loc', d, nl, d', hsd, hsi, _, _, hs'⟩
      · rw [h]; exact hp
      · have hne : u' ≠ u := by
          have h2 := hn.2; rw [hsi] at h2; simpa using h2
        obtain ⟨_, _, _, _, _, hsd1⟩ := seeDevice_dev ipv s m _ u' d nl hsd
        obtain ⟨x, hx, hv, hl⟩ := present_purge hp m.ts htm
        refine ⟨x, ?_, hv, hl⟩
        rw [hs']
        simp only
        rw [get?_set_ne _ _ _ _ hne, hsd1]
        simp only
        rw [get?_set_ne _ _ _ _ hne]
        exact hx
    simp only [step]
    cases hk : m.kind with
    | search => exact key (by simp [hk]) _ (search_cases ipv skip s m hw hk)
    | alive => exact key (by simp [hk]) _ (adv_cases ipv skip s m hw (Or.inl hk))
    | update => exact key (by simp [hk]) _ (adv_cases ipv skip s m hw (Or.inr hk))
    | byebye =>
      rcases unsee_state s m hk with h | ⟨u', hb, h⟩
      · rw [h]; exact hp
      · have hne : u' ≠ u := fun e => hn.1 (by rw [← e]; exact hb)
        obtain ⟨x, hx, hv, hl⟩ := hp
        exact ⟨x, by rw [h]; simp only; rw [get?_erase_ne _ _ _ hne]; exact hx, hv, hl⟩

/-- the sighting itself makes `u` present -/
theorem present_sight {s : Tracker σ} (hi : Inv s) (m : Msg σ) (hw : m.wf = true) (u loc : σ)
    (hs : m.sighting? = some (u, loc)) :
    Present (step ipv skip s (.msg m)).1 u loc (m.ts + m.maxAge) := by
  obtain ⟨hu, hl, hk⟩ := sighting_fields m u loc hs
  have key : ∀ s', ((s' = s ∧ m.sighting? = none) ∨
      ∃ u' loc' d nl d', seeDevice ipv s m = ((seeDevice ipv s m).1, some (u', d, nl)) ∧
        m.sighting? = some (u', loc') ∧ d'.validTo = d.validTo ∧ d'.locs = d.locs ∧
        s' = ⟨set (seeDevice ipv s m).1.devices u' d', (seeDevice ipv s m).1.next⟩) →
      Present s' u loc (m.ts + m.maxAge) := by
    intro s' H
    rcases H with ⟨_, h⟩ | ⟨u', loc', d, nl, d', hsd, hsi, hv, hlo, hs'⟩
    · rw [hs] at h; cases h
    · rw [hs] at hsi
      simp only [Option.some.injEq, Prod.mk.injEq] at hsi
      obtain ⟨rfl, rfl⟩ := hsi
      obtain ⟨loc'', _, hl'', hd, _, _⟩ := seeDevice_dev ipv s m _ u d nl hsd
      rw [hl] at hl''
      simp only [Option.some.injEq] at hl''
      subst hl''
      have hdv : d.validTo = m.ts + m.maxAge := by rw [hd, (sighted_props _ _ _ _).1, refreshed_validTo]
      refine ⟨d', by rw [hs']; simp [get?_set_self], by rw [hv, hdv], ?_⟩
      rw [hlo, hd]; exact (sighted_props _ _ _ _).2.1
  simp only [step]
  cases hk' : m.kind with
  | search => exact key _ (search_cases ipv skip s m hw hk')
  | alive => exact key _ (adv_cases ipv skip s m hw (Or.inl hk'))
  | update => exact key _ (adv_cases ipv skip s m hw (Or.inr hk'))
  | byebye => exact absurd hk' hk

end Upnp.C03
