/-
  Case lemmas for the C03 step theorem: what `see_search` / `see_advertisement` / `unsee_advertisement` do to the
  state, classified by the property text's reading of the message (`sighting?` / `byebye?`), and the judge's step
  relation on each class of transition.
-/
import Upnp.Lemmas.C03Judge
set_option linter.unusedSectionVars false
set_option linter.unusedSimpArgs false
namespace Upnp.C03
open Upnp PyDict
variable {σ : Type} [DecidableEq σ] (ipv : σ → Option Nat) (skip : σ → Bool)

/-! ### one step satisfies the judge -/

theorem wf_not_sighting_of_invalid (m : Msg σ) (hw : m.wf = true)
    (h : (m.kind = .search ∧ m.validSearch = false) ∨ (m.kind ≠ .search ∧ m.validAdv = false)) :
    m.sighting? = none := by
  unfold Msg.sighting?
  split
  · rfl
  · cases hu : m.udn <;> cases ht : m.ty <;> cases hl : m.loc <;> simp
    rename_i u ty loc
    cases hlo : m.locOk with
    | false => rfl
    | true =>
    exfalso
    simp only [Msg.wf, hu, Option.isNone_some, Bool.false_or, Bool.and_eq_true, decide_eq_true_eq, Bool.or_eq_true] at hw
    rcases h with ⟨_, h⟩ | ⟨hk, h⟩
    · simp [Msg.validSearch, hw.1.1, ht, hl, hlo] at h
    · have hn : m.ntsOk = true := by rcases hw.1.2 with h' | h'; exact absurd h' hk; exact h'
      simp [Msg.validAdv, hw.1.1, ht, hl, hlo, hn] at h

/-- the transitions of a search response / alive / update, as seen by the judge -/
theorem sight_step_ok (le : σ → σ → Bool) {s : Tracker σ} {sp : Sp σ} (hi : Inv s) (hr : Rel sp s) (m : Msg σ)
    (hw : m.wf = true) (hk : m.kind ≠ .byebye) (s' : Tracker σ)
    (H : (s' = s ∧ m.sighting? = none) ∨
      ∃ u loc d nl d', seeDevice ipv s m = ((seeDevice ipv s m).1, some (u, d, nl)) ∧ m.sighting? = some (u, loc) ∧
        d'.validTo = d.validTo ∧ d'.locs = d.locs ∧
        s' = ⟨set (seeDevice ipv s m).1.devices u d', (seeDevice ipv s m).1.next⟩) :
    Inv s' ∧ Rel (specStep sp (.msg m)) s' ∧
    stepOk (specStep sp (.msg m)) (.msg m) (snapOf le s) (snapOf le s') = true := by
  have hbye : m.byebye? = none := by simp [Msg.byebye?, hk]
  rcases H with ⟨hs, hsi⟩ | ⟨u, loc, d, nl, d', hsd, hsi, hv, hl, hs⟩
  · rw [hs]
    have hr' : Rel (specStep sp (.msg m)) s := by simp only [specStep, hsi, hbye]; exact rel_tick hr _
    refine ⟨hi, hr', ?_⟩
    simp only [stepOk, hsi, hbye, Bool.and_eq_true]
    exact ⟨present_ok le hi hr', inert_same le hi⟩
  · obtain ⟨loc', hu, hloc, hd, _, hsd1⟩ := seeDevice_dev ipv s m _ u d nl hsd
    have hisd := inv_seeDevice ipv hi m
    have hdv : d.validTo = m.ts + m.maxAge := by rw [hd, (sighted_props _ _ _ _).1, refreshed_validTo]
    have hget : get? (seeDevice ipv s m).1.devices u = some d := by rw [hsd1]; simp [get?_set_self]
    have hrsd : Rel (specStep sp (.msg m)) (seeDevice ipv s m).1 := by
      simp only [specStep, hsi, Ev.time]
      rw [hsd1, ← hdv]
      exact rel_sight (rel_tick_purge hi hr m.ts) u d _
    rw [hs]
    refine ⟨inv_restore hisd u d d' hget hv hl, rel_restore hrsd u d d' _ hget hv, ?_⟩
    rw [snapOf_restore le _ u d d' _ hget hv hl]
    simp only [stepOk, hsi, Bool.and_eq_true]
    refine ⟨present_ok le hisd hrsd, expired_gone_of le hisd hrsd m.ts ?_⟩
    intro k x hx
    rw [hsd1] at hx
    simp only [get?_set] at hx
    by_cases e : u = k
    · simp only [e, if_true, Option.some.injEq] at hx
      subst hx
      have : 0 ≤ m.maxAge := by simp [Msg.wf] at hw; exact hw.2
      omega
    · simp only [e, if_false] at hx
      obtain ⟨x0, _, h2, h3⟩ := purge_get?_inv hi m.ts k x hx
      rw [h3.1]; omega

theorem sighting_of_valid (m : Msg σ) (hk : m.kind ≠ .byebye) (u loc ty : σ)
    (hu : m.udn = some u) (hl : m.loc = some loc) (ht : m.ty = some ty) (hlo : m.locOk = true) :
    m.sighting? = some (u, loc) := by
  simp [Msg.sighting?, hk, hu, hl, ht, hlo]

theorem search_cases (s : Tracker σ) (m : Msg σ) (hw : m.wf = true) (hk : m.kind = .search) :
    ((seeSearch ipv skip s m).1 = s ∧ m.sighting? = none) ∨
      ∃ u loc d nl d', seeDevice ipv s m = ((seeDevice ipv s m).1, some (u, d, nl)) ∧ m.sighting? = some (u, loc) ∧
        d'.validTo = d.validTo ∧ d'.locs = d.locs ∧
        (seeSearch ipv skip s m).1 = ⟨set (seeDevice ipv s m).1.devices u d', (seeDevice ipv s m).1.next⟩ := by
  by_cases hv : m.validSearch = true
  · have hv' := hv
    simp only [Msg.validSearch, Bool.and_eq_true, Option.isSome_iff_exists] at hv'
    obtain ⟨⟨⟨_, ⟨ty, hty⟩⟩, ⟨loc, hloc⟩⟩, hlo⟩ := hv'
    cases hu : m.udn with
    | none =>
      left
      refine ⟨?_, by simp [Msg.sighting?, hu]⟩
      simp [seeSearch, hv, seeDevice_none ipv s m (Or.inl hu)]
    | some u =>
      right
      have hsd := seeDevice_some ipv s m u loc hu hloc
      obtain ⟨d, hd⟩ : ∃ d, d = sighted (refreshed (purge s m.ts) u (m.ts + m.maxAge)) loc (m.ts + m.maxAge) m.ts :=
        ⟨_, rfl⟩
      rw [← hd] at hsd
      refine ⟨u, loc, d, _, { d with search := set d.search ty m.hdrs }, by rw [hsd],
        sighting_of_valid m (by simp [hk]) u loc ty hu hloc hty hlo, rfl, rfl, ?_⟩
      simp only [seeSearch, hv, Bool.not_true, Bool.false_eq_true, if_false, hsd, hty]
  · left
    have hv2 : m.validSearch = false := by simpa using hv
    exact ⟨by simp [seeSearch, hv2], wf_not_sighting_of_invalid m hw (Or.inl ⟨hk, hv2⟩)⟩

theorem adv_cases (s : Tracker σ) (m : Msg σ) (hw : m.wf = true) (hk : m.kind = .alive ∨ m.kind = .update) :
    ((seeAdv ipv skip s m).1 = s ∧ m.sighting? = none) ∨
      ∃ u loc d nl d', seeDevice ipv s m = ((seeDevice ipv s m).1, some (u, d, nl)) ∧ m.sighting? = some (u, loc) ∧
        d'.validTo = d.validTo ∧ d'.locs = d.locs ∧
        (seeAdv ipv skip s m).1 = ⟨set (seeDevice ipv s m).1.devices u d', (seeDevice ipv s m).1.next⟩ := by
  have hnb : m.kind ≠ .byebye := by rcases hk with h | h <;> simp [h]
  have hns : m.kind ≠ .search := by rcases hk with h | h <;> simp [h]
  by_cases hv : m.validAdv = true
  · have hv' := hv
    simp only [Msg.validAdv, Bool.and_eq_true, Option.isSome_iff_exists] at hv'
    obtain ⟨⟨⟨⟨_, ⟨ty, hty⟩⟩, _⟩, ⟨loc, hloc⟩⟩, hlo⟩ := hv'
    cases hu : m.udn with
    | none =>
      left
      refine ⟨?_, by simp [Msg.sighting?, hu]⟩
      simp [seeAdv, hv, seeDevice_none ipv s m (Or.inl hu)]
    | some u =>
      right
      have hsd := seeDevice_some ipv s m u loc hu hloc
      obtain ⟨d, hd⟩ : ∃ d, d = sighted (refreshed (purge s m.ts) u (m.ts + m.maxAge)) loc (m.ts + m.maxAge) m.ts :=
        ⟨_, rfl⟩
      rw [← hd] at hsd
      refine ⟨u, loc, d, _, { d with adv := set d.adv ty m.hdrs }, by rw [hsd],
        sighting_of_valid m hnb u loc ty hu hloc hty hlo, rfl, rfl, ?_⟩
      simp only [seeAdv, hv, Bool.not_true, Bool.false_eq_true, if_false, hsd, hty]
  · left
    have hv2 : m.validAdv = false := by simpa using hv
    exact ⟨by simp [seeAdv, hv2], wf_not_sighting_of_invalid m hw (Or.inr ⟨hns, hv2⟩)⟩

theorem erase_of_get?_none {κ ν : Type} [DecidableEq κ] (d : PyDict κ ν) (k : κ) (h : get? d k = none) :
    erase d k = d := by
  induction d with
  | nil => rfl
  | cons p r ih =>
    obtain ⟨k', v⟩ := p
    by_cases e : k' = k
    · simp [get?, e] at h
    · simp [get?, e] at h; simp [erase, e, ih h]

theorem byebye_step_ok (le : σ → σ → Bool) {s : Tracker σ} {sp : Sp σ} (hi : Inv s) (hr : Rel sp s) (m : Msg σ)
    (hw : m.wf = true) (hk : m.kind = .byebye) :
    Inv (unsee s m).1 ∧ Rel (specStep sp (.msg m)) (unsee s m).1 ∧
    stepOk (specStep sp (.msg m)) (.msg m) (snapOf le s) (snapOf le (unsee s m).1) = true := by
  have hsi : m.sighting? = none := by simp [Msg.sighting?, hk]
  have inert : m.byebye? = none → (unsee s m).1 = s →
      Inv (unsee s m).1 ∧ Rel (specStep sp (.msg m)) (unsee s m).1 ∧
      stepOk (specStep sp (.msg m)) (.msg m) (snapOf le s) (snapOf le (unsee s m).1) = true := by
    intro hb hs
    rw [hs]
    have hr' : Rel (specStep sp (.msg m)) s := by simp only [specStep, hsi, hb]; exact rel_tick hr _
    refine ⟨hi, hr', ?_⟩
    simp only [stepOk, hsi, hb, Bool.and_eq_true]
    exact ⟨present_ok le hi hr', inert_same le hi⟩
  cases hu : m.udn with
  | none => exact inert (by simp [Msg.byebye?, hu]) (by unfold unsee; simp [hu])
  | some u =>
    cases hty : m.ty with
    | none =>
      exact inert (by simp [Msg.byebye?, hu, hty]) (by unfold unsee; simp [hu, hty])
    | some ty =>
      have hb : m.byebye? = some u := by simp [Msg.byebye?, hk, hu, hty]
      have hvalid : m.validByebye = true := by
        simp only [Msg.wf, hu, hk, Option.isNone_some, Bool.false_or, Bool.and_eq_true, decide_eq_true_eq,
          Bool.or_eq_true] at hw
        have hn : m.ntsOk = true := by
          rcases hw.1.2 with h' | h'
          · cases h'
          · exact h'
        simp [Msg.validByebye, hw.1.1, hty, hn]
      cases hg : get? s.devices u with
      | none =>
        have hs : (unsee s m).1 = s := by simp [unsee, hvalid, hu, hty, hg]
        rw [hs]
        have hr' : Rel (specStep sp (.msg m)) s := by
          simp only [specStep, hsi, hb]
          have := rel_erase hi (rel_tick hr (Ev.time (.msg m))) u s.next
          rw [erase_of_get?_none _ _ hg] at this
          exact this
        refine ⟨hi, hr', ?_⟩
        simp only [stepOk, hsi, hb, Bool.and_eq_true]
        exact ⟨present_ok le hi hr', byebye_ok_unknown le hi u hg⟩
      | some d =>
        have hs : (unsee s m).1 = ⟨erase s.devices u, s.next⟩ := by simp [unsee, hvalid, hu, hty, hg]
        rw [hs]
        have hi' := inv_erase hi u
        have hr' : Rel (specStep sp (.msg m)) ⟨erase s.devices u, s.next⟩ := by
          simp only [specStep, hsi, hb]
          exact rel_erase hi (rel_tick hr _) u s.next
        refine ⟨hi', hr', ?_⟩
        simp only [stepOk, hsi, hb, Bool.and_eq_true]
        exact ⟨present_ok le hi' hr', byebye_ok_erase le hi u s.next⟩


end Upnp.C03
