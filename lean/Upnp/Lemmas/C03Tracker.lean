/-
  Lemmas for the tracker model: PyDict extras, the purge loop (lazy purge = eager filter, watermark),
  the state invariant `Inv` and its preservation by every operation.
-/
import Upnp.Model.C03Tracker
import Upnp.Lemmas.PyDict
set_option linter.unusedSectionVars false
set_option linter.unusedSimpArgs false
namespace Upnp.PyDict
variable {κ ν : Type} [DecidableEq κ]

theorem get?_filter_of_get? (d : PyDict κ ν) (p : κ × ν → Bool) (k : κ) (v : ν)
    (h : get? d k = some v) (hp : p (k, v) = true) : get? (d.filter p) k = some v := by
  induction d with
  | nil => simp [get?] at h
  | cons q r ih =>
    obtain ⟨k', v'⟩ := q
    by_cases e : k' = k
    · subst e
      simp [get?] at h; subst h
      simp [List.filter, hp, get?]
    · simp [get?, e] at h
      by_cases hq : p (k', v') = true
      · simp [List.filter, hq, get?, e, ih h]
      · simp [List.filter, hq, ih h]

theorem mem_filter_sub (d : PyDict κ ν) (p : κ × ν → Bool) (x : κ × ν) (h : x ∈ d.filter p) : x ∈ d :=
  (List.mem_filter.mp h).1

theorem erase_sublist (d : PyDict κ ν) (k : κ) : (erase d k).Sublist d := by
  induction d with
  | nil => simp [erase]
  | cons q r ih =>
    obtain ⟨k', v'⟩ := q
    by_cases e : k' = k
    · simp [erase, e]
    · simp [erase, e, ih]

theorem get?_map_val {μ : Type} (d : PyDict κ ν) (f : κ × ν → μ) (k : κ) :
    get? (d.map fun p => (p.1, f p)) k = (get? d k).map fun v => f (k, v) := by
  induction d with
  | nil => simp [get?]
  | cons q r ih =>
    obtain ⟨k', v'⟩ := q
    by_cases e : k' = k
    · subst e; simp [get?]
    · simp [get?, e, ih]

theorem keys_map_val {μ : Type} (d : PyDict κ ν) (f : κ × ν → μ) :
    keys (d.map fun p => (p.1, f p)) = keys d := by
  simp [keys, List.map_map, Function.comp_def]

theorem get?_some_mem_keys {d : PyDict κ ν} {k : κ} {v : ν} (h : get? d k = some v) : k ∈ keys d := by
  rw [← get?_isSome_iff, h]; rfl

end Upnp.PyDict

namespace Upnp.C03
open Upnp PyDict
variable {σ : Type} [DecidableEq σ]

/-- what the purge may do to a device it keeps: only locations can go, and only expired ones -/
def Keeps (now : Int) (d d' : Dev σ) : Prop :=
  d'.validTo = d.validTo ∧ d'.lastSeen = d.lastSeen ∧ d'.search = d.search ∧ d'.adv = d.adv ∧
  (d'.locs = d.locs ∨ d'.locs = purgeLocs d.locs now)

theorem Keeps.refl (now : Int) (d : Dev σ) : Keeps now d d := ⟨rfl, rfl, rfl, rfl, Or.inl rfl⟩

theorem purgeLoop_keys_sublist (now : Int) (l : List (σ × Dev σ)) (nx : Option Int) :
    (keys (purgeLoop now l nx).1).Sublist (keys l) := by
  induction l generalizing nx with
  | nil => simp [purgeLoop, keys]
  | cons p r ih =>
    obtain ⟨k, d⟩ := p
    simp only [purgeLoop]
    split
    · exact (ih nx).trans (by simp [keys])
    · split
      · simpa [keys] using ih (some d.validTo)
      · simpa [keys] using ih nx

theorem purgeLoop_get?_none (now : Int) (l : List (σ × Dev σ)) (nx : Option Int) (u : σ)
    (h : get? l u = none) : get? (purgeLoop now l nx).1 u = none := by
  rw [get?_eq_none_iff] at *
  exact fun hm => h ((purgeLoop_keys_sublist now l nx).subset hm)

theorem purgeLoop_get?_expired (now : Int) (l : List (σ × Dev σ)) (nx : Option Int) (u : σ) (d : Dev σ)
    (hn : (keys l).Nodup) (h : get? l u = some d) (he : now > d.validTo) :
    get? (purgeLoop now l nx).1 u = none := by
  induction l generalizing nx with
  | nil => simp [get?] at h
  | cons p r ih =>
    obtain ⟨k, d0⟩ := p
    have hn' : (keys r).Nodup := by simp [keys] at hn; simpa [keys] using hn.2
    by_cases e : k = u
    · subst e
      simp [get?] at h; subst h
      simp only [purgeLoop, he, if_true]
      apply purgeLoop_get?_none
      rw [get?_eq_none_iff]; simp [keys] at hn; simpa [keys] using hn.1
    · simp [get?, e] at h
      simp only [purgeLoop]
      split
      · exact ih nx hn' h
      · split <;> simp [get?, e, ih _ hn' h]

theorem purgeLoop_get?_kept (now : Int) (l : List (σ × Dev σ)) (nx : Option Int) (u : σ) (d : Dev σ)
    (h : get? l u = some d) (he : ¬ now > d.validTo) :
    ∃ d', get? (purgeLoop now l nx).1 u = some d' ∧ Keeps now d d' := by
  induction l generalizing nx with
  | nil => simp [get?] at h
  | cons p r ih =>
    obtain ⟨k, d0⟩ := p
    by_cases e : k = u
    · subst e
      simp [get?] at h; subst h
      simp only [purgeLoop, he, if_false]
      split
      · exact ⟨{ d0 with locs := purgeLocs d0.locs now }, by simp [get?], rfl, rfl, rfl, rfl, Or.inr rfl⟩
      · exact ⟨d0, by simp [get?], Keeps.refl _ _⟩
    · simp [get?, e] at h
      simp only [purgeLoop]
      split
      · exact ih nx h
      · split <;> simp [get?, e, ih _ h]

/-- every device the loop keeps was there, is not expired, and lost at most expired locations -/
theorem purgeLoop_get?_inv (now : Int) (l : List (σ × Dev σ)) (nx : Option Int) (u : σ) (d' : Dev σ)
    (hn : (keys l).Nodup) (h : get? (purgeLoop now l nx).1 u = some d') :
    ∃ d, get? l u = some d ∧ ¬ now > d.validTo ∧ Keeps now d d' := by
  induction l generalizing nx with
  | nil => simp [purgeLoop, get?] at h
  | cons p r ih =>
    obtain ⟨k, d0⟩ := p
    have hn' : (keys r).Nodup := by simp [keys] at hn; simpa [keys] using hn.2
    simp only [purgeLoop] at h
    by_cases e : k = u
    · subst e
      split at h
      · have hn1 : k ∉ keys r := by simp [keys] at hn; simpa [keys] using hn.1
        have := purgeLoop_get?_none now r nx k ((get?_eq_none_iff _ _).mpr hn1)
        rw [this] at h; cases h
      · split at h
        · simp [get?] at h; subst h
          rename_i hx _
          exact ⟨d0, by simp [get?], hx, rfl, rfl, rfl, rfl, Or.inr rfl⟩
        · simp [get?] at h; subst h
          rename_i hx _
          exact ⟨d0, by simp [get?], hx, Keeps.refl _ _⟩
    · split at h
      · obtain ⟨d, h1, h2⟩ := ih nx hn' h
        exact ⟨d, by simp [get?, e, h1], h2⟩
      · split at h
        · simp [get?, e] at h
          obtain ⟨d, h1, h2⟩ := ih _ hn' h
          exact ⟨d, by simp [get?, e, h1], h2⟩
        · simp [get?, e] at h
          obtain ⟨d, h1, h2⟩ := ih _ hn' h
          exact ⟨d, by simp [get?, e, h1], h2⟩

/-- after the loop the running minimum is below the incoming one and below every kept device -/
theorem purgeLoop_lb (now : Int) (l : List (σ × Dev σ)) (nx : Option Int) :
    (∀ m, nx = some m → ∃ n, (purgeLoop now l nx).2 = some n ∧ n ≤ m) ∧
    (∀ u d', get? (purgeLoop now l nx).1 u = some d' → ∃ n, (purgeLoop now l nx).2 = some n ∧ n ≤ d'.validTo) := by
  induction l generalizing nx with
  | nil => exact ⟨fun m hm => ⟨m, by simp [purgeLoop, hm], Int.le_refl _⟩, by simp [purgeLoop, get?]⟩
  | cons p r ih =>
    obtain ⟨k, d⟩ := p
    simp only [purgeLoop]
    split
    · exact ih nx
    · split
      · rename_i hx hl
        obtain ⟨ih1, ih2⟩ := ih (some d.validTo)
        obtain ⟨n, hn1, hn2⟩ := ih1 _ rfl
        refine ⟨fun m hm => ⟨n, hn1, ?_⟩, fun u d' h => ?_⟩
        · subst hm; simp [lowers] at hl; omega
        · by_cases e : k = u
          · simp [get?, e] at h; subst h; exact ⟨n, hn1, hn2⟩
          · simp [get?, e] at h; exact ih2 u d' h
      · rename_i hx hl
        obtain ⟨ih1, ih2⟩ := ih nx
        refine ⟨ih1, fun u d' h => ?_⟩
        by_cases e : k = u
        · simp [get?, e] at h; subst h
          cases nx with
          | none => simp [lowers] at hl
          | some m =>
            simp [lowers] at hl
            obtain ⟨n, hn1, hn2⟩ := ih1 m rfl
            exact ⟨n, hn1, by omega⟩
        · simp [get?, e] at h; exact ih2 u d' h

/-! ### the state invariant -/

structure Inv (s : Tracker σ) : Prop where
  nodup : (keys s.devices).Nodup
  /-- `next_valid_to` is a lower bound of every `valid_to` (and is set whenever a device is known) -/
  wm : ∀ k d, get? s.devices k = some d → ∃ n, s.next = some n ∧ n ≤ d.validTo
  /-- every device has a location that is valid as long as the device is -/
  loc : ∀ k d, get? s.devices k = some d → ∃ l, get? d.locs l = some d.validTo

theorem inv_empty : Inv ({} : Tracker σ) := ⟨by simp [keys], by simp [get?], by simp [get?]⟩

theorem Keeps.loc {now : Int} {d d' : Dev σ} (h : Keeps now d d') (hv : ¬ now > d.validTo)
    (hl : ∃ l, get? d.locs l = some d.validTo) : ∃ l, get? d'.locs l = some d'.validTo := by
  obtain ⟨l, hl⟩ := hl
  obtain ⟨h1, _, _, _, h5⟩ := h
  rcases h5 with h5 | h5
  · exact ⟨l, by rw [h5, h1]; exact hl⟩
  · refine ⟨l, ?_⟩
    rw [h5, h1]
    exact get?_filter_of_get? _ _ _ _ hl (by simp; omega)

/-- `purge_devices(now)` keeps exactly the devices with `valid_to ≥ now` (whether or not the early exit
    is taken), touching nothing but expired locations -/
theorem purge_get?_kept {s : Tracker σ} (now : Int) (u : σ) (d : Dev σ)
    (h : get? s.devices u = some d) (he : ¬ now > d.validTo) :
    ∃ d', get? (purge s now).devices u = some d' ∧ Keeps now d d' := by
  unfold purge
  split
  · split
    · exact ⟨d, h, Keeps.refl _ _⟩
    · exact purgeLoop_get?_kept now _ _ u d h he
  · exact purgeLoop_get?_kept now _ _ u d h he

theorem purge_get?_inv {s : Tracker σ} (hi : Inv s) (now : Int) (u : σ) (d' : Dev σ)
    (h : get? (purge s now).devices u = some d') :
    ∃ d, get? s.devices u = some d ∧ ¬ now > d.validTo ∧ Keeps now d d' := by
  unfold purge at h
  split at h
  · rename_i n hn
    split at h
    · rename_i hgt
      obtain ⟨n', h1, h2⟩ := hi.wm u d' h
      rw [hn] at h1; cases h1
      exact ⟨d', h, by omega, Keeps.refl _ _⟩
    · exact purgeLoop_get?_inv now _ _ u d' hi.nodup h
  · exact purgeLoop_get?_inv now _ _ u d' hi.nodup h

theorem purge_get?_none {s : Tracker σ} (now : Int) (u : σ) (h : get? s.devices u = none) :
    get? (purge s now).devices u = none := by
  unfold purge
  split
  · split
    · exact h
    · exact purgeLoop_get?_none now _ _ u h
  · exact purgeLoop_get?_none now _ _ u h

theorem purge_get?_expired {s : Tracker σ} (hi : Inv s) (now : Int) (u : σ) (d : Dev σ)
    (h : get? s.devices u = some d) (he : now > d.validTo) : get? (purge s now).devices u = none := by
  cases hg : get? (purge s now).devices u with
  | none => rfl
  | some d' =>
    obtain ⟨d0, h1, h2, _⟩ := purge_get?_inv hi now u d' hg
    rw [h] at h1; cases h1; exact absurd he h2

theorem inv_purge {s : Tracker σ} (hi : Inv s) (now : Int) : Inv (purge s now) := by
  refine ⟨?_, ?_, ?_⟩
  · unfold purge
    split
    · split
      · exact hi.nodup
      · exact (purgeLoop_keys_sublist now _ _).nodup hi.nodup
    · exact (purgeLoop_keys_sublist now _ _).nodup hi.nodup
  · intro k d' h
    unfold purge at h ⊢
    split at h
    · rename_i n hn
      split at h
      · rename_i hgt
        simp only [hn, hgt, if_true]
        obtain ⟨n', h1, h2⟩ := hi.wm k d' h
        exact ⟨n', by rw [← hn]; exact h1, h2⟩
      · rename_i hgt
        simp only [hn, hgt, if_false]
        exact (purgeLoop_lb now _ _).2 k d' h
    · rename_i hn
      simp only [hn]
      exact (purgeLoop_lb now _ _).2 k d' h
  · intro k d' h
    obtain ⟨d, h1, h2, h3⟩ := purge_get?_inv hi now k d' h
    exact h3.loc h2 (hi.loc k d h1)

/-! ### `_see_device`, storing headers, byebye -/

theorem seeDevice_some (ipv : σ → Option Nat) (s : Tracker σ) (m : Msg σ) (u loc : σ)
    (hu : m.udn = some u) (hl : m.loc = some loc) :
    seeDevice ipv s m =
      (⟨set (purge s m.ts).devices u (sighted (refreshed (purge s m.ts) u (m.ts + m.maxAge)) loc (m.ts + m.maxAge) m.ts),
        lowerNext (purge s m.ts).next (m.ts + m.maxAge)⟩,
       some (u, sighted (refreshed (purge s m.ts) u (m.ts + m.maxAge)) loc (m.ts + m.maxAge) m.ts,
             locChanged ipv (refreshed (purge s m.ts) u (m.ts + m.maxAge)).locs loc)) := by
  simp [seeDevice, hu, hl]

theorem refreshed_validTo (s1 : Tracker σ) (u : σ) (vt : Int) : (refreshed s1 u vt).validTo = vt := by
  unfold refreshed; cases get? s1.devices u <;> rfl

theorem seeDevice_none (ipv : σ → Option Nat) (s : Tracker σ) (m : Msg σ)
    (h : m.udn = none ∨ m.loc = none) : seeDevice ipv s m = (s, none) := by
  unfold seeDevice
  rcases h with h | h
  · simp [h]
  · cases hu : m.udn <;> simp [h]

/-- the device record after `_see_device` -/
theorem seeDevice_dev (ipv : σ → Option Nat) (s : Tracker σ) (m : Msg σ) (s1 : Tracker σ) (u : σ) (d : Dev σ) (nl : Bool)
    (h : seeDevice ipv s m = (s1, some (u, d, nl))) :
    ∃ loc, m.udn = some u ∧ m.loc = some loc ∧
      d = sighted (refreshed (purge s m.ts) u (m.ts + m.maxAge)) loc (m.ts + m.maxAge) m.ts ∧
      nl = locChanged ipv (refreshed (purge s m.ts) u (m.ts + m.maxAge)).locs loc ∧
      s1 = ⟨set (purge s m.ts).devices u d, lowerNext (purge s m.ts).next (m.ts + m.maxAge)⟩ := by
  cases hu : m.udn with
  | none => rw [seeDevice_none ipv s m (Or.inl hu)] at h; cases h
  | some u' =>
    cases hl : m.loc with
    | none => rw [seeDevice_none ipv s m (Or.inr hl)] at h; cases h
    | some loc =>
      rw [seeDevice_some ipv s m u' loc hu hl] at h
      simp only [Prod.mk.injEq, Option.some.injEq] at h
      obtain ⟨h1, h2, h3, h4⟩ := h
      subst h2
      exact ⟨loc, rfl, rfl, h3.symm, h4.symm, by rw [← h1, h3]⟩

theorem sighted_props (d0 : Dev σ) (loc : σ) (vt ts : Int) :
    (sighted d0 loc vt ts).validTo = d0.validTo ∧ get? (sighted d0 loc vt ts).locs loc = some vt ∧
    (sighted d0 loc vt ts).search = d0.search ∧ (sighted d0 loc vt ts).adv = d0.adv := by
  simp [sighted, get?_set_self]

theorem inv_seeDevice (ipv : σ → Option Nat) {s : Tracker σ} (hi : Inv s) (m : Msg σ) :
    Inv (seeDevice ipv s m).1 := by
  have hp := inv_purge hi m.ts
  cases hu : m.udn with
  | none => rw [seeDevice_none ipv s m (Or.inl hu)]; exact hi
  | some u =>
    cases hl : m.loc with
    | none => rw [seeDevice_none ipv s m (Or.inr hl)]; exact hi
    | some loc =>
      rw [seeDevice_some ipv s m u loc hu hl]
      have hv : (sighted (refreshed (purge s m.ts) u (m.ts + m.maxAge)) loc (m.ts + m.maxAge) m.ts).validTo
          = m.ts + m.maxAge := by rw [(sighted_props _ _ _ _).1, refreshed_validTo]
      refine ⟨nodup_keys_set _ _ _ hp.nodup, ?_, ?_⟩
      · intro k d h
        simp only [get?_set] at h
        by_cases e : u = k
        · subst e
          simp only [if_true, Option.some.injEq] at h
          rw [← h, hv]
          simp only [lowerNext]
          cases hn : (purge s m.ts).next with
          | none => exact ⟨m.ts + m.maxAge, by simp [lowers], by omega⟩
          | some n =>
            by_cases hlw : lowers (some n) (m.ts + m.maxAge) = true
            · exact ⟨m.ts + m.maxAge, by simp [hlw], by omega⟩
            · simp only [hlw]; simp [lowers] at hlw; exact ⟨n, by simp, by omega⟩
        · simp only [e, if_false] at h
          obtain ⟨n, h1, h2⟩ := hp.wm k d h
          simp only [h1, lowerNext]
          by_cases hlw : lowers (some n) (m.ts + m.maxAge) = true
          · simp only [hlw, if_true]; simp [lowers] at hlw; exact ⟨_, rfl, by omega⟩
          · simp only [hlw]; exact ⟨n, by simp, h2⟩
      · intro k d h
        simp only [get?_set] at h
        by_cases e : u = k
        · subst e
          simp only [if_true, Option.some.injEq] at h
          refine ⟨loc, ?_⟩
          rw [← h, hv]; exact (sighted_props _ _ _ _).2.1
        · simp only [e, if_false] at h
          exact hp.loc k d h

/-- replacing the stored headers of a known device keeps the invariant -/
theorem inv_restore {s : Tracker σ} (hi : Inv s) (u : σ) (d d' : Dev σ) (h : get? s.devices u = some d)
    (hv : d'.validTo = d.validTo) (hl : d'.locs = d.locs) : Inv ⟨set s.devices u d', s.next⟩ := by
  refine ⟨nodup_keys_set _ _ _ hi.nodup, ?_, ?_⟩
  · intro k x hx
    simp only [get?_set] at hx
    by_cases e : u = k
    · simp only [e, if_true, Option.some.injEq] at hx; subst hx; rw [hv]; exact hi.wm u d h
    · simp only [e, if_false] at hx; exact hi.wm k x hx
  · intro k x hx
    simp only [get?_set] at hx
    by_cases e : u = k
    · simp only [e, if_true, Option.some.injEq] at hx; subst hx; rw [hv, hl]; exact hi.loc u d h
    · simp only [e, if_false] at hx; exact hi.loc k x hx

theorem get?_erase_some {κ ν : Type} [DecidableEq κ] {d : PyDict κ ν} (hn : (keys d).Nodup) {u k : κ} {v : ν}
    (h : get? (erase d u) k = some v) : k ≠ u ∧ get? d k = some v := by
  by_cases e : u = k
  · subst e; rw [get?_erase_self _ _ hn] at h; cases h
  · rw [get?_erase_ne _ _ _ e] at h; exact ⟨fun x => e x.symm, h⟩

theorem inv_erase {s : Tracker σ} (hi : Inv s) (u : σ) : Inv ⟨erase s.devices u, s.next⟩ := by
  refine ⟨nodup_keys_erase _ _ hi.nodup, ?_, ?_⟩
  · intro k d h; exact hi.wm k d (get?_erase_some hi.nodup h).2
  · intro k d h; exact hi.loc k d (get?_erase_some hi.nodup h).2

/-- the state part of `see_search` / `see_advertisement`: `_see_device`, then the stored headers of the
    device are replaced (same `valid_to`, same locations) -/
theorem seeSearch_state (ipv : σ → Option Nat) (skip : σ → Bool) (s : Tracker σ) (m : Msg σ) :
    (seeSearch ipv skip s m).1 = s ∨ (seeSearch ipv skip s m).1 = (seeDevice ipv s m).1 ∨
    ∃ u d nl ty, seeDevice ipv s m = ((seeDevice ipv s m).1, some (u, d, nl)) ∧ m.ty = some ty ∧ m.validSearch = true ∧
      (seeSearch ipv skip s m).1 =
        ⟨set (seeDevice ipv s m).1.devices u { d with search := set d.search ty m.hdrs }, (seeDevice ipv s m).1.next⟩ := by
  unfold seeSearch
  by_cases hv : m.validSearch = true
  · simp only [hv, Bool.not_true, Bool.false_eq_true, if_false]
    cases hsd : seeDevice ipv s m with
    | mk s1 r =>
      cases r with
      | none => right; left; cases m.ty <;> rfl
      | some x =>
        obtain ⟨u, d, nl⟩ := x
        cases hty : m.ty with
        | none => right; left; rfl
        | some ty => right; right; exact ⟨u, d, nl, ty, rfl, rfl, trivial, rfl⟩
  · left; simp [hv]

theorem seeAdv_state (ipv : σ → Option Nat) (skip : σ → Bool) (s : Tracker σ) (m : Msg σ) :
    (seeAdv ipv skip s m).1 = s ∨ (seeAdv ipv skip s m).1 = (seeDevice ipv s m).1 ∨
    ∃ u d nl ty, seeDevice ipv s m = ((seeDevice ipv s m).1, some (u, d, nl)) ∧ m.ty = some ty ∧ m.validAdv = true ∧
      (seeAdv ipv skip s m).1 =
        ⟨set (seeDevice ipv s m).1.devices u { d with adv := set d.adv ty m.hdrs }, (seeDevice ipv s m).1.next⟩ := by
  unfold seeAdv
  by_cases hv : m.validAdv = true
  · simp only [hv, Bool.not_true, Bool.false_eq_true, if_false]
    cases hsd : seeDevice ipv s m with
    | mk s1 r =>
      cases r with
      | none => right; left; cases m.ty <;> rfl
      | some x =>
        obtain ⟨u, d, nl⟩ := x
        cases hty : m.ty with
        | none => right; left; rfl
        | some ty => right; right; exact ⟨u, d, nl, ty, rfl, rfl, trivial, rfl⟩
  · left; simp [hv]

theorem inv_seeSearch (ipv : σ → Option Nat) (skip : σ → Bool) {s : Tracker σ} (hi : Inv s) (m : Msg σ) :
    Inv (seeSearch ipv skip s m).1 := by
  have hsd := inv_seeDevice ipv hi m
  rcases seeSearch_state ipv skip s m with h | h | ⟨u, d, nl, ty, h1, _, _, h4⟩
  · rw [h]; exact hi
  · rw [h]; exact hsd
  · rw [h4]
    obtain ⟨loc, _, _, _, _, hs1⟩ := seeDevice_dev ipv s m _ u d nl h1
    exact inv_restore hsd u d _ (by rw [hs1]; simp [get?_set_self]) rfl rfl

theorem inv_seeAdv (ipv : σ → Option Nat) (skip : σ → Bool) {s : Tracker σ} (hi : Inv s) (m : Msg σ) :
    Inv (seeAdv ipv skip s m).1 := by
  have hsd := inv_seeDevice ipv hi m
  rcases seeAdv_state ipv skip s m with h | h | ⟨u, d, nl, ty, h1, _, _, h4⟩
  · rw [h]; exact hi
  · rw [h]; exact hsd
  · rw [h4]
    obtain ⟨loc, _, _, _, _, hs1⟩ := seeDevice_dev ipv s m _ u d nl h1
    exact inv_restore hsd u d _ (by rw [hs1]; simp [get?_set_self]) rfl rfl

theorem inv_unsee {s : Tracker σ} (hi : Inv s) (m : Msg σ) : Inv (unsee s m).1 := by
  unfold unsee
  split
  · exact hi
  · split
    · split
      · exact hi
      · exact inv_erase hi _
    · exact hi

/-- `watermark_inv` for one step -/
theorem inv_step (ipv : σ → Option Nat) (skip : σ → Bool) {s : Tracker σ} (hi : Inv s) (e : Ev σ) :
    Inv (step ipv skip s e).1 := by
  cases e with
  | msg m =>
    simp only [step]
    cases m.kind
    · exact inv_seeSearch ipv skip hi m
    · exact inv_seeAdv ipv skip hi m
    · exact inv_seeAdv ipv skip hi m
    · exact inv_unsee hi m
  | purge now => exact inv_purge hi now
  | noise _ => exact hi

end Upnp.C03
