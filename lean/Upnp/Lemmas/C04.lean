/-
  Lemmas for C04: the model's own observations around one event (`modelObs`), explicit values of
  `see_search` / `see_advertisement` / `unsee_advertisement` on valid messages, and the comparison
  predicates of the judge on them.
-/
import Upnp.Lemmas.C03Judge
import Upnp.Spec.C04
set_option linter.unusedSectionVars false
set_option linter.unusedSimpArgs false
set_option linter.unusedVariables false
namespace Upnp.C04
open Upnp PyDict Upnp.C03 Upnp.C16
variable {σ : Type} [DecidableEq σ] (ipv : σ → Option Nat) (skip : σ → Bool) (src : σ) (mode : CbMode)

/-- the device / type the observations are taken for: the message's -/
def targetOf : Ev σ → Option σ × Option σ
  | .msg m => (m.udn, m.ty)
  | _ => (none, none)

/-- what the model shows around one event: the sender's stored state before and after, the callbacks -/
def modelObs (s : Tracker σ) (e : Ev σ) : Obs σ :=
  ⟨targetOf e, lookOf s (targetOf e).1 (targetOf e).2, cbsOf src mode (step ipv skip s e).2,
   lookOf (step ipv skip s e).1 (targetOf e).1 (targetOf e).2⟩

theorem mapEq_refl (a : Hdrs σ) : mapEq a a = true := by simp [mapEq]

theorem optMapEq_refl (a : Option (Hdrs σ)) : optMapEq a a = true := by
  cases a <;> simp [optMapEq, mapEq_refl]

theorem mapEqBut_refl (a : Hdrs σ) : mapEqBut src a a = true := by simp [mapEqBut]

theorem mapEqBut_remove (x : Hdrs σ) : mapEqBut src (SMap.remove x src) x = true := by
  simp only [mapEqBut, List.all_eq_true, Bool.or_eq_true, decide_eq_true_eq]
  intro k _
  by_cases e : k = src
  · exact Or.inl e
  · right; simp [val, SMap.remove, get?_erase_ne _ _ _ (Ne.symm e)]

theorem mapEqBut_val {a b : Hdrs σ} (h : mapEqBut src a b = true) (k : σ) (hk : k ≠ src) : val a k = val b k := by
  unfold mapEqBut at h
  rw [List.all_eq_true] at h
  by_cases hm : k ∈ keys a ++ keys b
  · have := h k hm
    simpa [hk] using this
  · simp only [List.mem_append, not_or] at hm
    simp [val, (get?_eq_none_iff a k).mpr hm.1, (get?_eq_none_iff b k).mpr hm.2]

/-- **combined_spec** (observation form): `combined_headers(ty)` is the stored search headers overlaid by the
    stored advertisement headers, the entry `_source` apart -/
theorem comb_ok (d : Dev σ) (ty : σ) :
    mapEqBut src (combined src d ty) (overlaid (get? d.search ty) (get? d.adv ty)) = true := by
  unfold combined overlaid
  cases get? d.search ty <;> cases get? d.adv ty <;> simp [mapEqBut_refl, mapEqBut_remove]

theorem flavours_cbsOf (n : Option (Notif σ)) :
    flavours mode (cbsOf src mode n) = some (n.map fun n => ⟨false, n.udn, n.ty, n.source, combined src n.dev n.ty⟩) := by
  cases n <;> cases mode <;> simp [cbsOf, flavours]

theorem contains_keys {ν : Type} (d : PyDict σ ν) (k : σ) : (keys d).contains k = contains d k := by
  unfold PyDict.contains
  cases h : get? d k with
  | none => simp [(get?_eq_none_iff d k).mp h]
  | some v => simp [get?_some_mem_keys h]

/-! ### explicit values of the tracker functions on valid messages -/

theorem seeSearch_valid (s : Tracker σ) (m : Msg σ) (u loc ty : σ) (hv : m.validSearch = true)
    (hu : m.udn = some u) (hh : m.udnHdr = some u) (hl : m.loc = some loc) (ht : m.ty = some ty) :
    seeSearch ipv skip s m =
      (⟨set (set (purge s m.ts).devices u (sighted (refreshed (purge s m.ts) u (m.ts + m.maxAge)) loc (m.ts + m.maxAge) m.ts)) u
          { sighted (refreshed (purge s m.ts) u (m.ts + m.maxAge)) loc (m.ts + m.maxAge) m.ts with
            search := set (refreshed (purge s m.ts) u (m.ts + m.maxAge)).search ty m.hdrs },
        lowerNext (purge s m.ts).next (m.ts + m.maxAge)⟩,
       some ⟨u, ty,
         if (!(contains s.devices u) ||
             (!(contains (refreshed (purge s m.ts) u (m.ts + m.maxAge)).adv ty) &&
              !(contains (refreshed (purge s m.ts) u (m.ts + m.maxAge)).search ty)) ||
             locChanged ipv (refreshed (purge s m.ts) u (m.ts + m.maxAge)).locs loc ||
             (match get? (refreshed (purge s m.ts) u (m.ts + m.maxAge)).search ty with
              | some cur => headersDiffer skip cur m.hdrs
              | none => false)) then .searchChanged else .searchAlive,
         { sighted (refreshed (purge s m.ts) u (m.ts + m.maxAge)) loc (m.ts + m.maxAge) m.ts with
            search := set (refreshed (purge s m.ts) u (m.ts + m.maxAge)).search ty m.hdrs }⟩) := by
  unfold seeSearch
  rw [seeDevice_some ipv s m u loc hu hl]
  simp only [hv, ht, hh, Bool.not_true, Bool.false_eq_true, if_false]
  rfl

theorem seeAdv_valid (s : Tracker σ) (m : Msg σ) (u loc ty : σ) (hv : m.validAdv = true)
    (hu : m.udn = some u) (hh : m.udnHdr = some u) (hl : m.loc = some loc) (ht : m.ty = some ty) :
    seeAdv ipv skip s m =
      (⟨set (set (purge s m.ts).devices u (sighted (refreshed (purge s m.ts) u (m.ts + m.maxAge)) loc (m.ts + m.maxAge) m.ts)) u
          { sighted (refreshed (purge s m.ts) u (m.ts + m.maxAge)) loc (m.ts + m.maxAge) m.ts with
            adv := set (refreshed (purge s m.ts) u (m.ts + m.maxAge)).adv ty m.hdrs },
        lowerNext (purge s m.ts).next (m.ts + m.maxAge)⟩,
       if ((m.kind == .update) || !(contains s.devices u) ||
             (!(contains (refreshed (purge s m.ts) u (m.ts + m.maxAge)).adv ty) &&
              !(contains (refreshed (purge s m.ts) u (m.ts + m.maxAge)).search ty)) ||
             locChanged ipv (refreshed (purge s m.ts) u (m.ts + m.maxAge)).locs loc ||
             (match get? (refreshed (purge s m.ts) u (m.ts + m.maxAge)).adv ty with
              | some cur => headersDiffer skip cur m.hdrs
              | none => false)) then
         some ⟨u, ty, if m.kind == .update then .advUpdate else .advAlive,
           { sighted (refreshed (purge s m.ts) u (m.ts + m.maxAge)) loc (m.ts + m.maxAge) m.ts with
              adv := set (refreshed (purge s m.ts) u (m.ts + m.maxAge)).adv ty m.hdrs }⟩
       else none) := by
  unfold seeAdv
  rw [seeDevice_some ipv s m u loc hu hl]
  simp only [hv, ht, hh, Bool.not_true, Bool.false_eq_true, if_false]
  rfl

/-- the device `_see_device` works on, relative to the state before: fresh when `u` is unknown or expired at
    the message's timestamp; otherwise the known record with (possibly) its expired locations dropped -/
theorem refreshed_cases {s : Tracker σ} (hi : Inv s) (u : σ) (t vt : Int) :
    ((get? s.devices u = none ∨ ∃ d, get? s.devices u = some d ∧ d.validTo < t) ∧
       refreshed (purge s t) u vt = newDev vt) ∨
    (∃ d, get? s.devices u = some d ∧ t ≤ d.validTo ∧
       (refreshed (purge s t) u vt).search = d.search ∧ (refreshed (purge s t) u vt).adv = d.adv ∧
       ((refreshed (purge s t) u vt).locs = d.locs ∨ (refreshed (purge s t) u vt).locs = purgeLocs d.locs t)) := by
  cases hg : get? s.devices u with
  | none =>
    left
    exact ⟨Or.inl rfl, by simp [refreshed, purge_get?_none t u hg]⟩
  | some d =>
    by_cases hv : t ≤ d.validTo
    · right
      obtain ⟨d', hd', hk⟩ := purge_get?_kept t u d hg (by omega)
      exact ⟨d, rfl, hv, by simp [refreshed, hd', hk.2.2.1], by simp [refreshed, hd', hk.2.2.2.1],
        by simpa [refreshed, hd'] using hk.2.2.2.2⟩
    · left
      exact ⟨Or.inr ⟨d, rfl, by omega⟩, by simp [refreshed, purge_get?_expired hi t u d hg (by omega)]⟩

end Upnp.C04
