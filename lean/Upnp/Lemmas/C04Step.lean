/-
  Case lemmas for the C04 step theorem: the judge's step relation on the model's own observations for each kind of
  message (valid search / alive / update sighting, byebye, anything else).
-/
import Upnp.Lemmas.C04
import Upnp.Lemmas.C03Step
import Upnp.Lemmas.C03Present
set_option linter.unusedSectionVars false
set_option linter.unusedSimpArgs false
set_option linter.unusedVariables false
namespace Upnp.C04
open Upnp PyDict Upnp.C03 Upnp.C16
variable {σ : Type} [DecidableEq σ] (ipv : σ → Option Nat) (skip : σ → Bool) (src : σ) (mode : CbMode)

theorem lookOf_restored (s1 : Tracker σ) (u ty : σ) (d d' : Dev σ) (nx : Option Int) :
    lookOf (⟨set (set s1.devices u d) u d', nx⟩ : Tracker σ) (some u) (some ty) =
      ⟨true, keys d'.search, keys d'.adv, get? d'.search ty, get? d'.adv ty⟩ := by
  simp [lookOf, get?_set_self]

theorem differs_eq (skip : σ → Bool) (cur new : Hdrs σ) : differs skip cur new = headersDiffer skip cur new := rfl

theorem combOk_model (c : Bool) (u ty : σ) (sc : Source) (d : Dev σ) (k1 k2 : List σ) (b : Bool) :
    combOk src (Option.map (fun n => ⟨false, n.udn, n.ty, n.source, combined src n.dev n.ty⟩)
        (if c = true then some (⟨u, ty, sc, d⟩ : Notif σ) else none))
      ⟨b, k1, k2, get? d.search ty, get? d.adv ty⟩ = true := by
  cases c <;> simp [combOk, comb_ok]

theorem knownAt_fresh (le : σ → σ → Bool) (s : Tracker σ) (u : σ) (t : Int)
    (h : get? s.devices u = none ∨ ∃ d, get? s.devices u = some d ∧ d.validTo < t) :
    knownAt (snapOf le s) u t = none := by
  unfold knownAt
  rw [findDev_snapOf]
  rcases h with h | ⟨d, h, hv⟩
  · simp [h]
  · simp [h, obsOf]; omega

theorem knownAt_kept (le : σ → σ → Bool) (s : Tracker σ) (u : σ) (t : Int) (d : Dev σ)
    (h : get? s.devices u = some d) (hv : t ≤ d.validTo) :
    knownAt (snapOf le s) u t = some (obsOf le u d) := by
  unfold knownAt
  rw [findDev_snapOf]
  simp [h, obsOf, hv]

theorem lookOf_known (s : Tracker σ) (u ty : σ) (d : Dev σ) (h : get? s.devices u = some d) :
    lookOf s (some u) (some ty) = ⟨true, keys d.search, keys d.adv, get? d.search ty, get? d.adv ty⟩ := by
  simp [lookOf, h]

theorem search_sighting_ok (le : σ → σ → Bool) {s : Tracker σ} (hi : Inv s) (m : Msg σ) (hw : m.wf = true)
    (hk : m.kind = .search) (u loc ty : σ) (hs : m.sighting? = some (u, loc)) (hty : m.ty = some ty) :
    stepOk ipv skip src mode (.msg m) (snapOf le s) (modelObs ipv skip src mode s (.msg m)) = true := by
  have hu : m.udn = some u ∧ m.loc = some loc ∧ m.locOk = true := by
    unfold Msg.sighting? at hs
    simp only [hk] at hs
    cases hu : m.udn <;> cases hl : m.loc <;> simp [hu, hl, hty] at hs
    cases hlo : m.locOk <;> simp [hlo] at hs
    exact ⟨by rw [hs.1], by rw [hs.2], rfl⟩
  obtain ⟨hu, hl, hlo⟩ := hu
  have hh : m.udnHdr = some u := by simp [Msg.wf, hu] at hw; exact hw.1.1
  have hv : m.validSearch = true := by simp [Msg.validSearch, hh, hty, hl, hlo]
  unfold stepOk modelObs
  simp only [flavours_cbsOf, step, hk, targetOf, hu, hty, hs]
  rw [seeSearch_valid ipv skip s m u loc ty hv hu hh hl hty]
  simp only [Option.map_some, lookOf_restored]
  unfold sightingOk
  simp only [Bool.and_eq_true, decide_eq_true_eq, true_and]
  rcases refreshed_cases hi u m.ts (m.ts + m.maxAge) with ⟨hun, hR⟩ | ⟨dOld, hg, hvt, hRs, hRa, hRl⟩
  · rw [knownAt_fresh le s u m.ts hun, hR]
    refine ⟨⟨?_, ?_⟩, ?_⟩
    · simp [notifOk, hk, baseChange, newDev, PyDict.contains, get?]
    · simp [storedOk, hk, prevOther, sighted, newDev, get?_set_self, mapEq_refl, get?, optMapEq]
    · exact comb_ok src _ ty
  · rw [knownAt_kept le s u m.ts dOld hg hvt, lookOf_known s u ty dOld hg]
    have hc : contains s.devices u = true := by simp [PyDict.contains, hg]
    refine ⟨⟨?_, ?_⟩, ?_⟩
    · simp only [notifOk, hk, baseChange, prevSame, Option.isSome_some, Bool.not_true, Bool.false_or, if_true,
        locsAll, obsOf, contains_keys, hc, hRs, hRa, differs_eq, decide_true, Bool.true_and]
      have hX : locChanged ipv (refreshed (purge s m.ts) u (m.ts + m.maxAge)).locs loc = locChanged ipv dOld.locs loc ∨
          locChanged ipv (refreshed (purge s m.ts) u (m.ts + m.maxAge)).locs loc =
            locChanged ipv (List.filter (fun p => decide (m.ts ≤ p.2)) dOld.locs) loc := by
        rcases hRl with h | h <;> rw [h]
        · exact Or.inl rfl
        · exact Or.inr rfl
      generalize locChanged ipv (refreshed (purge s m.ts) u (m.ts + m.maxAge)).locs loc = x at hX ⊢
      generalize locChanged ipv dOld.locs loc = xa at hX ⊢
      generalize locChanged ipv (List.filter (fun p => decide (m.ts ≤ p.2)) dOld.locs) loc = xl at hX ⊢
      generalize contains dOld.adv ty = a
      generalize contains dOld.search ty = b
      cases hgs : get? dOld.search ty with
      | none =>
        cases a <;> cases b <;> cases x <;> cases xa <;> cases xl <;> simp_all
      | some cur =>
        simp only []
        by_cases hdd : headersDiffer skip cur m.hdrs = true
        · simp only [hdd]
          cases a <;> cases b <;> cases x <;> cases xa <;> cases xl <;> simp_all
        · have hdd' : headersDiffer skip cur m.hdrs = false := by simpa using hdd
          simp only [hdd']
          cases a <;> cases b <;> cases x <;> cases xa <;> cases xl <;> simp_all
    · simp [storedOk, hk, prevOther, sighted, get?_set_self, mapEq_refl, hRa, optMapEq_refl]
    · exact comb_ok src _ ty

theorem alive_sighting_ok (le : σ → σ → Bool) {s : Tracker σ} (hi : Inv s) (m : Msg σ) (hw : m.wf = true)
    (hk : m.kind = .alive) (u loc ty : σ) (hs : m.sighting? = some (u, loc)) (hty : m.ty = some ty) :
    stepOk ipv skip src mode (.msg m) (snapOf le s) (modelObs ipv skip src mode s (.msg m)) = true := by
  have hu : m.udn = some u ∧ m.loc = some loc ∧ m.locOk = true := by
    unfold Msg.sighting? at hs
    simp only [hk] at hs
    cases hu : m.udn <;> cases hl : m.loc <;> simp [hu, hl, hty] at hs
    cases hlo : m.locOk <;> simp [hlo] at hs
    exact ⟨by rw [hs.1], by rw [hs.2], rfl⟩
  obtain ⟨hu, hl, hlo⟩ := hu
  have hh : m.udnHdr = some u := by simp [Msg.wf, hu] at hw; exact hw.1.1
  have hn : m.ntsOk = true := by simp [Msg.wf, hk] at hw; exact hw.1.2
  have hv : m.validAdv = true := by simp [Msg.validAdv, hh, hty, hl, hlo, hn]
  unfold stepOk modelObs
  simp only [flavours_cbsOf, step, hk, targetOf, hu, hty, hs]
  rw [seeAdv_valid ipv skip s m u loc ty hv hu hh hl hty]
  simp only [lookOf_restored]
  unfold sightingOk
  simp only [Bool.and_eq_true, decide_eq_true_eq, true_and]
  rcases refreshed_cases hi u m.ts (m.ts + m.maxAge) with ⟨hun, hR⟩ | ⟨dOld, hg, hvt, hRs, hRa, hRl⟩
  · rw [knownAt_fresh le s u m.ts hun, hR]
    have hp : (newDev (σ := σ) (m.ts + m.maxAge)).adv = [] ∧ (newDev (σ := σ) (m.ts + m.maxAge)).search = [] := ⟨rfl, rfl⟩
    refine ⟨⟨?_, ?_⟩, ?_⟩
    · simp [notifOk, hk, baseChange, newDev, PyDict.contains, get?]
    · simp [storedOk, hk, prevOther, sighted, newDev, get?_set_self, mapEq_refl, get?, optMapEq]
    · simp only [hp.1, hp.2, PyDict.contains, get?, Option.isSome_none, Bool.not_false, Bool.and_self, Bool.or_true,
        Bool.true_or, if_true, Option.map_some, combOk]
      exact comb_ok src _ ty
  · rw [knownAt_kept le s u m.ts dOld hg hvt, lookOf_known s u ty dOld hg]
    have hc : contains s.devices u = true := by simp [PyDict.contains, hg]
    refine ⟨⟨?_, ?_⟩, ?_⟩
    · simp only [notifOk, hk, baseChange, prevSame, Option.isSome_some, Bool.not_true, Bool.false_or, if_true,
        locsAll, obsOf, contains_keys, hc, hRs, hRa, differs_eq, decide_true, Bool.true_and]
      have hX : locChanged ipv (refreshed (purge s m.ts) u (m.ts + m.maxAge)).locs loc = locChanged ipv dOld.locs loc ∨
          locChanged ipv (refreshed (purge s m.ts) u (m.ts + m.maxAge)).locs loc =
            locChanged ipv (List.filter (fun p => decide (m.ts ≤ p.2)) dOld.locs) loc := by
        rcases hRl with h | h <;> rw [h]
        · exact Or.inl rfl
        · exact Or.inr rfl
      generalize locChanged ipv (refreshed (purge s m.ts) u (m.ts + m.maxAge)).locs loc = x at hX ⊢
      generalize locChanged ipv dOld.locs loc = xa at hX ⊢
      generalize locChanged ipv (List.filter (fun p => decide (m.ts ≤ p.2)) dOld.locs) loc = xl at hX ⊢
      generalize contains dOld.adv ty = a
      generalize contains dOld.search ty = b
      cases hgs : get? dOld.adv ty with
      | none =>
        cases a <;> cases b <;> cases x <;> cases xa <;> cases xl <;> simp_all
      | some cur =>
        simp only []
        by_cases hdd : headersDiffer skip cur m.hdrs = true
        · simp only [hdd]
          cases a <;> cases b <;> cases x <;> cases xa <;> cases xl <;> simp_all
        · have hdd' : headersDiffer skip cur m.hdrs = false := by simpa using hdd
          simp only [hdd']
          cases a <;> cases b <;> cases x <;> cases xa <;> cases xl <;> simp_all
    · simp [storedOk, hk, prevOther, sighted, get?_set_self, mapEq_refl, hRs, optMapEq_refl]
    · exact combOk_model src _ u ty _ _ _ _ _

theorem update_sighting_ok (le : σ → σ → Bool) {s : Tracker σ} (hi : Inv s) (m : Msg σ) (hw : m.wf = true)
    (hk : m.kind = .update) (u loc ty : σ) (hs : m.sighting? = some (u, loc)) (hty : m.ty = some ty) :
    stepOk ipv skip src mode (.msg m) (snapOf le s) (modelObs ipv skip src mode s (.msg m)) = true := by
  have hu : m.udn = some u ∧ m.loc = some loc ∧ m.locOk = true := by
    unfold Msg.sighting? at hs
    simp only [hk] at hs
    cases hu : m.udn <;> cases hl : m.loc <;> simp [hu, hl, hty] at hs
    cases hlo : m.locOk <;> simp [hlo] at hs
    exact ⟨by rw [hs.1], by rw [hs.2], rfl⟩
  obtain ⟨hu, hl, hlo⟩ := hu
  have hh : m.udnHdr = some u := by simp [Msg.wf, hu] at hw; exact hw.1.1
  have hn : m.ntsOk = true := by simp [Msg.wf, hk] at hw; exact hw.1.2
  have hv : m.validAdv = true := by simp [Msg.validAdv, hh, hty, hl, hlo, hn]
  unfold stepOk modelObs
  simp only [flavours_cbsOf, step, hk, targetOf, hu, hty, hs]
  rw [seeAdv_valid ipv skip s m u loc ty hv hu hh hl hty]
  simp only [lookOf_restored]
  unfold sightingOk
  simp only [Bool.and_eq_true, decide_eq_true_eq, true_and]
  rcases refreshed_cases hi u m.ts (m.ts + m.maxAge) with ⟨hun, hR⟩ | ⟨dOld, hg, hvt, hRs, hRa, hRl⟩
  · rw [knownAt_fresh le s u m.ts hun, hR]
    have hp : (newDev (σ := σ) (m.ts + m.maxAge)).adv = [] ∧ (newDev (σ := σ) (m.ts + m.maxAge)).search = [] := ⟨rfl, rfl⟩
    refine ⟨⟨?_, ?_⟩, ?_⟩
    · simp [notifOk, hk, baseChange, newDev, PyDict.contains, get?]
    · simp [storedOk, hk, prevOther, sighted, newDev, get?_set_self, mapEq_refl, get?, optMapEq]
    · simp only [hp.1, hp.2, PyDict.contains, get?, Option.isSome_none, Bool.not_false, Bool.and_self, Bool.or_true,
        Bool.true_or, if_true, Option.map_some, combOk]
      exact comb_ok src _ ty
  · rw [knownAt_kept le s u m.ts dOld hg hvt, lookOf_known s u ty dOld hg]
    have hc : contains s.devices u = true := by simp [PyDict.contains, hg]
    refine ⟨⟨?_, ?_⟩, ?_⟩
    · simp only [notifOk, hk, baseChange, prevSame, Option.isSome_some, Bool.not_true, Bool.false_or, if_true,
        locsAll, obsOf, contains_keys, hc, hRs, hRa, differs_eq, decide_true, Bool.true_and]
      have hX : locChanged ipv (refreshed (purge s m.ts) u (m.ts + m.maxAge)).locs loc = locChanged ipv dOld.locs loc ∨
          locChanged ipv (refreshed (purge s m.ts) u (m.ts + m.maxAge)).locs loc =
            locChanged ipv (List.filter (fun p => decide (m.ts ≤ p.2)) dOld.locs) loc := by
        rcases hRl with h | h <;> rw [h]
        · exact Or.inl rfl
        · exact Or.inr rfl
      generalize locChanged ipv (refreshed (purge s m.ts) u (m.ts + m.maxAge)).locs loc = x at hX ⊢
      generalize locChanged ipv dOld.locs loc = xa at hX ⊢
      generalize locChanged ipv (List.filter (fun p => decide (m.ts ≤ p.2)) dOld.locs) loc = xl at hX ⊢
      generalize contains dOld.adv ty = a
      generalize contains dOld.search ty = b
      cases hgs : get? dOld.adv ty with
      | none =>
        cases a <;> cases b <;> cases x <;> cases xa <;> cases xl <;> simp_all
      | some cur =>
        simp only []
        by_cases hdd : headersDiffer skip cur m.hdrs = true
        · simp only [hdd]
          cases a <;> cases b <;> cases x <;> cases xa <;> cases xl <;> simp_all
        · have hdd' : headersDiffer skip cur m.hdrs = false := by simpa using hdd
          simp only [hdd']
          cases a <;> cases b <;> cases x <;> cases xa <;> cases xl <;> simp_all
    · simp [storedOk, hk, prevOther, sighted, get?_set_self, mapEq_refl, hRs, optMapEq_refl]
    · exact combOk_model src _ u ty _ _ _ _ _

theorem byebye_ok (le : σ → σ → Bool) {s : Tracker σ} (hi : Inv s) (m : Msg σ) (hw : m.wf = true)
    (hk : m.kind = .byebye) (u ty : σ) (hb : m.byebye? = some u) (hty : m.ty = some ty) :
    stepOk ipv skip src mode (.msg m) (snapOf le s) (modelObs ipv skip src mode s (.msg m)) = true := by
  have hsi : m.sighting? = none := by simp [Msg.sighting?, hk]
  have hu : m.udn = some u := by
    simp only [Msg.byebye?, hk, if_true, hty] at hb
    cases hu : m.udn <;> simp [hu] at hb
    rw [hb]
  have hh : m.udnHdr = some u := by simp [Msg.wf, hu] at hw; exact hw.1.1
  have hn : m.ntsOk = true := by simp [Msg.wf, hk] at hw; exact hw.1.2
  have hv : m.validByebye = true := by simp [Msg.validByebye, hh, hty, hn]
  unfold stepOk modelObs
  simp only [flavours_cbsOf, step, hk, targetOf, hu, hty, hsi, hb]
  unfold byebyeOk4
  cases hg : get? s.devices u with
  | none => simp [unsee, hv, hu, hty, hg, findDev_snapOf]
  | some d =>
    simp only [unsee, hv, hu, hty, hg, findDev_snapOf, Option.map_some, Bool.not_true, Bool.false_eq_true, if_false,
      Option.isSome_some, Bool.true_and, decide_true, lookOf_known s u ty d hg]
    have := comb_ok src ({ d with adv := set d.adv ty m.hdrs } : Dev σ) ty
    simpa [get?_set_self] using this

theorem seeSearch_notif_none (s : Tracker σ) (m : Msg σ) (hk : m.kind = .search) (hs : m.sighting? = none) :
    (seeSearch ipv skip s m).2 = none := by
  by_cases hv : m.validSearch = true
  · have hv' := hv
    simp only [Msg.validSearch, Bool.and_eq_true, Option.isSome_iff_exists] at hv'
    obtain ⟨⟨⟨_, ⟨ty, hty⟩⟩, ⟨loc, hloc⟩⟩, hlo⟩ := hv'
    cases hu : m.udn with
    | none => simp [seeSearch, hv, seeDevice_none ipv s m (Or.inl hu)]
    | some u => simp [Msg.sighting?, hk, hu, hty, hloc, hlo] at hs
  · have hv2 : m.validSearch = false := by simpa using hv
    simp [seeSearch, hv2]

theorem seeAdv_notif_none (s : Tracker σ) (m : Msg σ) (hk : m.kind = .alive ∨ m.kind = .update)
    (hs : m.sighting? = none) : (seeAdv ipv skip s m).2 = none := by
  have hnb : m.kind ≠ .byebye := by rcases hk with h | h <;> simp [h]
  by_cases hv : m.validAdv = true
  · have hv' := hv
    simp only [Msg.validAdv, Bool.and_eq_true, Option.isSome_iff_exists] at hv'
    obtain ⟨⟨⟨⟨_, ⟨ty, hty⟩⟩, _⟩, ⟨loc, hloc⟩⟩, hlo⟩ := hv'
    cases hu : m.udn with
    | none => simp [seeAdv, hv, seeDevice_none ipv s m (Or.inl hu)]
    | some u => simp [Msg.sighting?, hnb, hu, hty, hloc, hlo] at hs
  · have hv2 : m.validAdv = false := by simpa using hv
    simp [seeAdv, hv2]

theorem unsee_notif_none (s : Tracker σ) (m : Msg σ) (hk : m.kind = .byebye) (hb : m.byebye? = none) :
    (unsee s m).2 = none := by
  simp only [Msg.byebye?, hk, if_true] at hb
  unfold unsee
  cases hu : m.udn <;> cases hty : m.ty <;> simp [hu, hty] at hb ⊢
  all_goals (split <;> rfl)


/-! ### for the direct notification theorems of `Props/C04.lean` -/

/-- the "something changed" condition of the text, on the device record `d` the tracker holds for the sender AFTER its
    purge at the message's timestamp (`none`: the device is new — unknown or lapsed): the type is new for the device, or
    the location is a changed one (`location_changed_spec`), or a non-volatile header differs from the previous message
    `prev d` of that kind and type (`same_headers_differ_spec`) -/
def Changed (ipv : σ → Option Nat) (skip : σ → Bool) (m : Msg σ) (loc ty : σ) (prev : Dev σ → Option (Hdrs σ))
    (d? : Option (Dev σ)) : Prop :=
  match d? with
  | none => True
  | some d =>
    (get? d.search ty = none ∧ get? d.adv ty = none) ∨ locChanged ipv d.locs loc = true ∨
    ∃ cur, prev d = some cur ∧ headersDiffer skip cur m.hdrs = true

theorem sighting_fields' (m : Msg σ) (u loc ty : σ) (hw : m.wf = true) (hs : m.sighting? = some (u, loc))
    (hty : m.ty = some ty) :
    m.udn = some u ∧ m.loc = some loc ∧ m.locOk = true ∧ m.udnHdr = some u := by
  obtain ⟨hu, hl, hk⟩ := sighting_fields m u loc hs
  have hlo : m.locOk = true := by
    unfold Msg.sighting? at hs
    simp only [hk, if_false, hu, hty, hl] at hs
    cases hlo : m.locOk <;> simp [hlo] at hs
    rfl
  exact ⟨hu, hl, hlo, by simp [Msg.wf, hu] at hw; exact hw.1.1⟩

/-- what `refreshed` holds, in terms of the purged state -/
theorem changed_bool_iff (s : Tracker σ) (hi : Inv s) (m : Msg σ) (u loc ty : σ) (searchSide : Bool) :
    ((!(contains s.devices u) ||
       (!(contains (refreshed (purge s m.ts) u (m.ts + m.maxAge)).adv ty) &&
        !(contains (refreshed (purge s m.ts) u (m.ts + m.maxAge)).search ty)) ||
       locChanged ipv (refreshed (purge s m.ts) u (m.ts + m.maxAge)).locs loc ||
       (match get? (if searchSide then (refreshed (purge s m.ts) u (m.ts + m.maxAge)).search
                    else (refreshed (purge s m.ts) u (m.ts + m.maxAge)).adv) ty with
        | some cur => headersDiffer skip cur m.hdrs
        | none => false)) = true) ↔
    Changed ipv skip m loc ty (fun d => get? (if searchSide then d.search else d.adv) ty)
      (get? (purge s m.ts).devices u) := by
  unfold Changed refreshed
  cases hg : get? (purge s m.ts).devices u with
  | none => simp [newDev, PyDict.contains, get?]
  | some d =>
    obtain ⟨d0, h0, _, _⟩ := purge_get?_inv hi m.ts u d hg
    have hc : contains s.devices u = true := by simp [PyDict.contains, h0]
    simp only [hc, Bool.not_true, Bool.false_or]
    cases ha : get? d.adv ty <;> cases hsr : get? d.search ty <;> cases hl : locChanged ipv d.locs loc <;>
      cases searchSide <;> simp [PyDict.contains, ha, hsr, hl]

theorem src_ite (b : Bool) :
    ((if b = true then Source.searchChanged else Source.searchAlive) = .searchChanged ∨
     (if b = true then Source.searchChanged else Source.searchAlive) = .searchAlive) ∧
    ((if b = true then Source.searchChanged else Source.searchAlive) = .searchChanged ↔ b = true) := by
  cases b <;> simp

theorem notif_ite (b : Bool) (n : Notif σ) :
    ((if b = true then some n else none) = some n ∨ (if b = true then some n else none) = none) ∧
    ((if b = true then some n else none).isSome = true ↔ b = true) := by
  cases b <;> simp

end Upnp.C04
