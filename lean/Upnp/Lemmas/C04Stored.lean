/-
  The stored header maps keep one entry per folded name: if every message's header map has distinct folded names
  (true of every map the listener builds, `Parse.hdrs_nodup_source`), so has every map stored in a reachable state.
  Used to discharge the hypothesis of `combined_keywise` on reachable states.
-/
import Upnp.Lemmas.C04Step
import Upnp.Lemmas.C03Present
set_option linter.unusedSectionVars false
set_option linter.unusedSimpArgs false
set_option linter.unusedVariables false
namespace Upnp.C04
open Upnp PyDict Upnp.C03 Upnp.C16
variable {σ : Type} [DecidableEq σ] (ipv : σ → Option Nat) (skip : σ → Bool)

def HDev (d : Dev σ) : Prop :=
  ∀ ty h, (get? d.search ty = some h ∨ get? d.adv ty = some h) → (keys h).Nodup

def HInv (s : Tracker σ) : Prop := ∀ k d, get? s.devices k = some d → HDev d

def Ev.hdrsOk : Ev σ → Prop
  | .msg m => (keys m.hdrs).Nodup
  | _ => True

theorem hinv_empty : HInv ({} : Tracker σ) := by intro k d h; simp [get?] at h

theorem hdev_of_eq {d d' : Dev σ} (h : HDev d) (hs : d'.search = d.search) (ha : d'.adv = d.adv) : HDev d' := by
  intro ty x hx; rw [hs, ha] at hx; exact h ty x hx

theorem hinv_purge {s : Tracker σ} (hi : Inv s) (h : HInv s) (t : Int) : HInv (purge s t) := by
  intro k d' hd'
  obtain ⟨d, h1, _, h3⟩ := purge_get?_inv hi t k d' hd'
  exact hdev_of_eq (h k d h1) h3.2.2.1 h3.2.2.2.1

theorem hinv_set {s : Tracker σ} (h : HInv s) (u : σ) (d : Dev σ) (hd : HDev d) (nx : Option Int) :
    HInv ⟨set s.devices u d, nx⟩ := by
  intro k x hx
  simp only [get?_set] at hx
  by_cases e : u = k
  · simp only [e, if_true, Option.some.injEq] at hx; subst hx; exact hd
  · simp only [e, if_false] at hx; exact h k x hx

theorem hdev_refreshed {s1 : Tracker σ} (h : HInv s1) (u : σ) (vt : Int) : HDev (refreshed s1 u vt) := by
  unfold refreshed
  cases hg : get? s1.devices u with
  | none => intro ty x hx; simp [newDev, get?] at hx
  | some d => exact hdev_of_eq (h u d hg) rfl rfl

theorem hdev_store_search {d : Dev σ} (h : HDev d) (ty : σ) (x : Hdrs σ) (hx : (keys x).Nodup) :
    HDev { d with search := set d.search ty x } := by
  intro ty' y hy
  rcases hy with hy | hy
  · simp only [get?_set] at hy
    by_cases e : ty = ty'
    · simp only [e, if_true, Option.some.injEq] at hy; subst hy; exact hx
    · simp only [e, if_false] at hy; exact h ty' y (Or.inl hy)
  · exact h ty' y (Or.inr hy)

theorem hdev_store_adv {d : Dev σ} (h : HDev d) (ty : σ) (x : Hdrs σ) (hx : (keys x).Nodup) :
    HDev { d with adv := set d.adv ty x } := by
  intro ty' y hy
  rcases hy with hy | hy
  · exact h ty' y (Or.inl hy)
  · simp only [get?_set] at hy
    by_cases e : ty = ty'
    · simp only [e, if_true, Option.some.injEq] at hy; subst hy; exact hx
    · simp only [e, if_false] at hy; exact h ty' y (Or.inr hy)

theorem hinv_seeDevice {s : Tracker σ} (hi : Inv s) (h : HInv s) (m : Msg σ) : HInv (seeDevice ipv s m).1 := by
  have hp := hinv_purge hi h m.ts
  cases hu : m.udn with
  | none => rw [seeDevice_none ipv s m (Or.inl hu)]; exact h
  | some u =>
    cases hl : m.loc with
    | none => rw [seeDevice_none ipv s m (Or.inr hl)]; exact h
    | some loc =>
      rw [seeDevice_some ipv s m u loc hu hl]
      exact hinv_set hp u (sighted (refreshed (purge s m.ts) u (m.ts + m.maxAge)) loc (m.ts + m.maxAge) m.ts)
        (hdev_of_eq (hdev_refreshed hp u (m.ts + m.maxAge)) rfl rfl) _

theorem hinv_step {s : Tracker σ} (hi : Inv s) (h : HInv s) (e : Ev σ) (he : Ev.hdrsOk e) :
    HInv (step ipv skip s e).1 := by
  cases e with
  | noise ts => exact h
  | purge now => exact hinv_purge hi h now
  | msg m =>
    simp only [Ev.hdrsOk] at he
    have hsd := hinv_seeDevice ipv hi h m
    have key1 : HInv (seeSearch ipv skip s m).1 := by
      rcases seeSearch_state ipv skip s m with h1 | h1 | ⟨u, d, nl, ty, h1, _, _, h4⟩
      · rw [h1]; exact h
      · rw [h1]; exact hsd
      · rw [h4]
        obtain ⟨loc, _, _, _, _, hs1⟩ := seeDevice_dev ipv s m _ u d nl h1
        have hd : HDev d := hsd u d (by rw [hs1]; simp [get?_set_self])
        exact hinv_set hsd u _ (hdev_store_search hd ty m.hdrs he) _
    have key2 : HInv (seeAdv ipv skip s m).1 := by
      rcases seeAdv_state ipv skip s m with h1 | h1 | ⟨u, d, nl, ty, h1, _, _, h4⟩
      · rw [h1]; exact h
      · rw [h1]; exact hsd
      · rw [h4]
        obtain ⟨loc, _, _, _, _, hs1⟩ := seeDevice_dev ipv s m _ u d nl h1
        have hd : HDev d := hsd u d (by rw [hs1]; simp [get?_set_self])
        exact hinv_set hsd u _ (hdev_store_adv hd ty m.hdrs he) _
    simp only [step]
    cases hk : m.kind with
    | search => exact key1
    | alive => exact key2
    | update => exact key2
    | byebye =>
      rcases unsee_state s m hk with h1 | ⟨u', _, h1⟩
      · rw [h1]; exact h
      · rw [h1]; intro k d hd; exact h k d (get?_erase_some hi.nodup hd).2

/-- the device handed to the callback has well-formed stored maps too (for byebye it is no longer in the map) -/
theorem hdev_notif {s : Tracker σ} (hi : Inv s) (h : HInv s) (e : Ev σ) (he : Ev.hdrsOk e) (n : Notif σ)
    (hn : (step ipv skip s e).2 = some n) : HDev n.dev := by
  cases e with
  | noise ts => simp [step] at hn
  | purge now => simp [step] at hn
  | msg m =>
    simp only [Ev.hdrsOk] at he
    have hsd := hinv_seeDevice ipv hi h m
    have devOf : ∀ s1 u d nl, seeDevice ipv s m = (s1, some (u, d, nl)) → HDev d := by
      intro s1 u d nl h1
      obtain ⟨loc, _, _, _, _, hs1⟩ := seeDevice_dev ipv s m _ u d nl h1
      rw [h1] at hsd
      exact hsd u d (by rw [hs1]; simp [get?_set_self])
    have advCase : (seeAdv ipv skip s m).2 = some n → HDev n.dev := by
      intro hn
      by_cases hv : m.validAdv = true
      · cases hsd' : seeDevice ipv s m with
        | mk s1 r =>
          cases r with
          | none => cases hty : m.ty <;> simp [seeAdv, hv, hsd', hty] at hn
          | some x =>
            obtain ⟨u, d, nl⟩ := x
            cases hty : m.ty with
            | none => simp [seeAdv, hv, hsd', hty] at hn
            | some ty =>
              simp only [seeAdv, hv, hsd', hty, Bool.not_true, Bool.false_eq_true, if_false] at hn
              rw [Option.ite_none_right_eq_some] at hn
              obtain ⟨_, hn⟩ := hn
              simp only [Option.some.injEq] at hn
              subst hn
              exact hdev_store_adv (devOf s1 u d nl hsd') ty m.hdrs he
      · have hv2 : m.validAdv = false := by simpa using hv
        simp [seeAdv, hv2] at hn
    cases hk : m.kind with
    | search =>
      simp only [step, hk] at hn
      by_cases hv : m.validSearch = true
      · cases hsd' : seeDevice ipv s m with
        | mk s1 r =>
          cases r with
          | none => cases hty : m.ty <;> simp [seeSearch, hv, hsd', hty] at hn
          | some x =>
            obtain ⟨u, d, nl⟩ := x
            cases hty : m.ty with
            | none => simp [seeSearch, hv, hsd', hty] at hn
            | some ty =>
              simp only [seeSearch, hv, hsd', hty, Bool.not_true, Bool.false_eq_true, if_false,
                Option.some.injEq] at hn
              subst hn
              exact hdev_store_search (devOf s1 u d nl hsd') ty m.hdrs he
      · have hv2 : m.validSearch = false := by simpa using hv
        simp [seeSearch, hv2] at hn
    | alive => simp only [step, hk] at hn; exact advCase hn
    | update => simp only [step, hk] at hn; exact advCase hn
    | byebye =>
      simp only [step, hk] at hn
      by_cases hv : m.validByebye = true
      · cases hu : m.udn with
        | none => simp [unsee, hv, hu] at hn
        | some u =>
          cases hty : m.ty with
          | none => simp [unsee, hv, hu, hty] at hn
          | some ty =>
            cases hg : get? s.devices u with
            | none => simp [unsee, hv, hu, hty, hg] at hn
            | some d =>
              simp only [unsee, hv, hu, hty, hg, Bool.not_true, Bool.false_eq_true, if_false,
                Option.some.injEq] at hn
              subst hn
              exact hdev_store_adv (h u d hg) ty m.hdrs he
      · have hv2 : m.validByebye = false := by simpa using hv
        simp [unsee, hv2] at hn

end Upnp.C04
