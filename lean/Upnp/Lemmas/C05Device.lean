/-
  C05 lemmas: the device level — `createDevice` on a rendered device tree equals `mirror`
  (mutual structural induction over the description tree).
-/
import Upnp.Lemmas.C05Service
namespace Upnp.C05
open Upnp Upnp.C08

/-! ### the info leaves -/

theorem filter_infoLeaves (t : Tag) : ∀ (ts : List Tag) (os : List (Option Str)) (rest : List Xml), t ∉ ts →
    (infoLeaves ts os ++ rest).filter (Xml.isNamed .device t) = rest.filter (Xml.isNamed .device t) := by
  intro ts
  induction ts with
  | nil => intro os rest _; simp [infoLeaves]
  | cons t' ts ih =>
    intro os rest h
    cases os with
    | nil => simp [infoLeaves]
    | cons o os =>
      simp only [infoLeaves, List.append_assoc]
      rw [filter_optLeaf_ne (by intro e; exact h (by simp [e]))]
      exact ih os rest (by intro hm; exact h (by simp [hm]))

theorem find_infoLeaves (t : Tag) : ∀ (ts : List Tag) (os : List (Option Str)) (rest : List Xml), t ∉ ts →
    (infoLeaves ts os ++ rest).find? (Xml.isNamed .device t) = rest.find? (Xml.isNamed .device t) := by
  intro ts
  induction ts with
  | nil => intro os rest _; simp [infoLeaves]
  | cons t' ts ih =>
    intro os rest h
    cases os with
    | nil => simp [infoLeaves]
    | cons o os =>
      simp only [infoLeaves, List.append_assoc]
      rw [find_optLeaf_ne (by intro e; exact h (by simp [e]))]
      exact ih os rest (by intro hm; exact h (by simp [hm]))

/-- reading a field: the text of the first child of that name, or the field's default -/
def readField (children : List Xml) (t : Tag) : Option Str :=
  match (children.find? (Xml.isNamed .device t)).map (fun c => c.text.getD []) with
  | some s => some s
  | none => infoDefault t

theorem find_optLeaf_self_none (t t' : Tag) (o : Option Str) (h : t ≠ t') :
    (optLeaf .device t o).find? (Xml.isNamed .device t') = none := by
  cases o <;> simp [optLeaf, h]

theorem readFields : ∀ (ts : List Tag) (os : List (Option Str)) (pre rest : List Xml), ts.Nodup →
    (∀ t ∈ ts, pre.find? (Xml.isNamed .device t) = none) → (∀ t ∈ ts, rest.find? (Xml.isNamed .device t) = none) →
    ts.map (readField (pre ++ (infoLeaves ts os ++ rest))) = mirrorInfo ts os := by
  intro ts
  induction ts with
  | nil => intro os pre rest _ _ _; rfl
  | cons t ts ih =>
    intro os pre rest hn hpre hrest
    have hnd := List.nodup_cons.mp hn
    cases os with
    | nil =>
      have ih' := ih [] pre rest hnd.2 (fun x hx => hpre x (by simp [hx])) (fun x hx => hrest x (by simp [hx]))
      have hl : ∀ l : List Tag, infoLeaves l [] = [] := by intro l; cases l <;> rfl
      simp only [hl] at ih' ⊢
      simp only [List.map_cons, mirrorInfo]
      rw [ih']
      congr 1
      simp [readField, List.find?_append, hpre t (by simp), hrest t (by simp)]
    | cons o os =>
      simp only [List.map_cons, mirrorInfo, infoLeaves, List.append_assoc]
      congr 1
      · simp only [readField, List.find?_append, hpre t (by simp), Option.none_or]
        cases o with
        | some s => simp [optLeaf, leaf_text]
        | none =>
          simp only [optLeaf, List.find?_nil, Option.none_or]
          rw [← List.find?_append, find_infoLeaves t ts os rest hnd.1, hrest t (by simp)]
          rfl
      · have := ih os (pre ++ optLeaf .device t o) rest hnd.2
          (by
            intro x hx
            rw [List.find?_append, hpre x (by simp [hx]), Option.none_or]
            exact find_optLeaf_self_none t x o (by intro e; subst e; exact hnd.1 hx))
          (fun x hx => hrest x (by simp [hx]))
        simpa [List.append_assoc] using this

theorem infoTags_nodup : infoTags.Nodup := by decide
theorem infoTags_not_container : ∀ t ∈ infoTags, t ≠ .iconList ∧ t ≠ .serviceList ∧ t ≠ .deviceList := by decide
theorem containers_not_info : Tag.iconList ∉ infoTags ∧ Tag.serviceList ∉ infoTags ∧ Tag.deviceList ∉ infoTags := by decide

theorem parseInfo_children (info : List (Option Str)) (a b c : List Xml) :
    infoTags.map (readField (infoLeaves infoTags info ++ (wrap .device .iconList a ++ (wrap .device .serviceList b
      ++ wrap .device .deviceList c)))) = mirrorInfo infoTags info := by
  have := readFields infoTags info [] (wrap .device .iconList a ++ (wrap .device .serviceList b ++ wrap .device .deviceList c))
    infoTags_nodup (by intro t _; rfl)
    (by
      intro t ht
      obtain ⟨h1, h2, h3⟩ := infoTags_not_container t ht
      rw [find_wrap_ne (Ne.symm h1), find_wrap_ne (Ne.symm h2)]
      have := find_wrap_ne (n := .device) (Ne.symm h3) c []
      simpa using this)
  simpa using this

/-! ### `findall2` on the children of a rendered device -/

theorem wrap_flat (t t' : Tag) (l : List Xml) (h : ∀ x ∈ l, Xml.isNamed .device t' x = true) :
    ((if l.isEmpty then [] else [Xml.node .device t none none l]) : List Xml).flatMap (·.findall .device t') = l := by
  cases l with
  | nil => rfl
  | cons x r =>
    simp only [List.isEmpty_cons, Bool.false_eq_true, if_false, List.flatMap_cons, List.flatMap_nil, List.append_nil,
      Xml.findall, Xml.children]
    exact filter_all_named _ h

theorem renderDevices_named : ∀ (l : List DeviceSpec), ∀ x ∈ renderDevices l, Xml.isNamed .device .device x = true := by
  intro l
  induction l with
  | nil => intro x hx; simp [renderDevices] at hx
  | cons d r ih =>
    intro x hx
    simp only [renderDevices, List.mem_cons] at hx
    rcases hx with rfl | hx
    · cases d; rfl
    · exact ih x hx

theorem containers_filter (info : List (Option Str)) (a b c : List Xml) :
    let ch := infoLeaves infoTags info ++ (wrap .device .iconList a ++ (wrap .device .serviceList b ++ wrap .device .deviceList c))
    ch.filter (Xml.isNamed .device .iconList) = (if a.isEmpty then [] else [Xml.node .device .iconList none none a])
    ∧ ch.filter (Xml.isNamed .device .serviceList) = (if b.isEmpty then [] else [Xml.node .device .serviceList none none b])
    ∧ ch.filter (Xml.isNamed .device .deviceList) = (if c.isEmpty then [] else [Xml.node .device .deviceList none none c]) := by
  obtain ⟨c1, c2, c3⟩ := containers_not_info
  intro ch
  refine ⟨?_, ?_, ?_⟩
  · show (infoLeaves infoTags info ++ _).filter _ = _
    rw [filter_infoLeaves _ _ _ _ c1, filter_wrap_eq, filter_wrap_ne (by decide)]
    have := filter_wrap_ne (n := .device) (t := .iconList) (t' := .deviceList) (by decide) c []
    simp only [List.append_nil, List.filter_nil] at this
    rw [this]; simp
  · show (infoLeaves infoTags info ++ _).filter _ = _
    rw [filter_infoLeaves _ _ _ _ c2, filter_wrap_ne (by decide), filter_wrap_eq]
    have := filter_wrap_ne (n := .device) (t := .serviceList) (t' := .deviceList) (by decide) c []
    simp only [List.append_nil, List.filter_nil] at this
    rw [this]; simp
  · show (infoLeaves infoTags info ++ _).filter _ = _
    rw [filter_infoLeaves _ _ _ _ c3, filter_wrap_ne (by decide), filter_wrap_ne (by decide)]
    have := filter_wrap_eq (n := .device) (t := .deviceList) c []
    simpa using this

structure DevChildren (info : List (Option Str)) (icons : List IconSpec) (svcs : List ServiceSpec) (emb : List DeviceSpec) : Prop where
  hIcons : (renderDevice (.mk info icons svcs emb)).findall2 .device .iconList .icon = icons.map renderIcon
  hSvcs : (renderDevice (.mk info icons svcs emb)).findall2 .device .serviceList .service = svcs.map renderService
  hEmb : (renderDevice (.mk info icons svcs emb)).findall2 .device .deviceList .device = renderDevices emb
  hInfo : parseInfo (renderDevice (.mk info icons svcs emb)) = mirrorInfo infoTags info

theorem devChildren (info : List (Option Str)) (icons : List IconSpec) (svcs : List ServiceSpec) (emb : List DeviceSpec) :
    DevChildren info icons svcs emb := by
  have hi : ∀ x ∈ icons.map renderIcon, Xml.isNamed .device .icon x = true := by
    intro x hx; obtain ⟨v, _, rfl⟩ := List.mem_map.mp hx; rfl
  have hs : ∀ x ∈ svcs.map renderService, Xml.isNamed .device .service x = true := by
    intro x hx; obtain ⟨v, _, rfl⟩ := List.mem_map.mp hx; rfl
  obtain ⟨f1, f2, f3⟩ := containers_filter info (icons.map renderIcon) (svcs.map renderService) (renderDevices emb)
  refine ⟨?_, ?_, ?_, ?_⟩
  · simp only [renderDevice, Xml.findall2, Xml.findall, Xml.children, List.append_assoc]
    rw [f1]; exact wrap_flat _ _ _ hi
  · simp only [renderDevice, Xml.findall2, Xml.findall, Xml.children, List.append_assoc]
    rw [f2]; exact wrap_flat _ _ _ hs
  · simp only [renderDevice, Xml.findall2, Xml.findall, Xml.children, List.append_assoc]
    rw [f3]; exact wrap_flat _ _ _ (renderDevices_named emb)
  · simp only [parseInfo, renderDevice, Xml.findtext, Xml.find, Xml.children, List.append_assoc]
    exact parseInfo_children info _ _ _

/-! ### the whole tree -/

section
variable {F : Type} (fo : FloatOps F) (tb : Table) (fetch : Str → Fetch) (nonStrict : Bool) (base : Str)

/-- the requester serves this service's document at its resolved SCPD URL; names inside it are distinct -/
def SvcGood (s : ServiceSpec) : Prop :=
  (∃ u, joinOpt base s.scpdURL = some u ∧ fetch u = renderDoc s.doc) ∧ s.doc.Distinct

mutual
/-- every service document is served, and names are distinct per scope, throughout the tree -/
def Good : DeviceSpec → Prop
  | .mk _ _ svcs emb =>
      (∀ s ∈ svcs, SvcGood fetch base s) ∧ (svcs.map fun s => s.serviceType.getD []).Nodup
      ∧ Goods emb ∧ (deviceTypes emb).Nodup
def Goods : List DeviceSpec → Prop
  | [] => True
  | d :: r => Good d ∧ Goods r
end

theorem svcOf_type (a b c d e : Option Str) (body : Except FErr (List (VarM F) × List ActM)) (m : SvcM F)
    (h : svcOf base a b c d e body = .ok m) : m.serviceType = b.getD [] := by
  unfold svcOf at h
  split at h
  · cases h
  · simp only [Except.ok.injEq] at h; rw [← h]

theorem svc_types (svcs : List ServiceSpec) (ms : List (SvcM F))
    (h : mapE (mirrorService fo tb nonStrict base) svcs = .ok ms) :
    ms.map (·.serviceType) = svcs.map fun s => s.serviceType.getD [] :=
  mapE_ok_map _ (·.serviceType) (fun s => s.serviceType.getD [])
    (fun s m hm => svcOf_type base _ _ _ _ _ _ m (by simpa [mirrorService] using hm)) svcs ms h

theorem mirrorInfo_head (info : List (Option Str)) :
    (((mirrorInfo infoTags info).head?.getD none).getD []) = ((info.head?.getD none).getD []) := by
  cases info with
  | nil => rfl
  | cons o os => cases o <;> rfl

theorem mirror_deviceType (d : DeviceSpec) (m : DevM F) (h : mirror fo tb nonStrict base d = .ok m) :
    m.deviceType = (deviceTypes [d]).head?.getD [] := by
  cases d with
  | mk info icons svcs emb =>
    rw [mirror] at h
    split at h
    · cases h
    · split at h
      · cases h
      · split at h
        · cases h
        · simp only [Except.ok.injEq] at h
          rw [← h]
          simp only [DevM.deviceType, deviceTypes, List.head?_cons, Option.getD_some]
          exact mirrorInfo_head info

theorem mirrors_deviceTypes : ∀ (l : List DeviceSpec) (ms : List (DevM F)),
    mirrors fo tb nonStrict base l = .ok ms → ms.map DevM.deviceType = deviceTypes l := by
  intro l
  induction l with
  | nil => intro ms h; simp [mirrors] at h; subst h; rfl
  | cons d r ih =>
    intro ms h
    rw [mirrors] at h
    cases hd : mirror fo tb nonStrict base d with
    | error e => rw [hd] at h; cases h
    | ok m =>
      rw [hd] at h
      cases hr : mirrors fo tb nonStrict base r with
      | error e => rw [hr] at h; cases h
      | ok ms' =>
        rw [hr] at h
        simp only [Except.ok.injEq] at h
        subst h
        have h1 := mirror_deviceType fo tb nonStrict base d m hd
        cases d with
        | mk info icons svcs emb =>
          simp only [List.map_cons, deviceTypes, ih ms' hr] at h1 ⊢
          simp only [List.head?_cons, Option.getD_some] at h1
          rw [h1]

mutual
theorem createDevice_render : ∀ (d : DeviceSpec) (fuel : Nat), d.depth ≤ fuel → Good fetch base d →
    createDevice fo tb fetch nonStrict base fuel (renderDevice d) = mirror fo tb nonStrict base d
  | .mk info icons svcs emb, fuel, hf, hg => by
    cases fuel with
    | zero => simp [DeviceSpec.depth] at hf
    | succ f =>
      obtain ⟨hIcons, hSvcs, hEmb, hInfo⟩ := devChildren info icons svcs emb
      obtain ⟨gs, gt, ge, gd⟩ : (∀ s ∈ svcs, SvcGood fetch base s) ∧ (svcs.map fun s => s.serviceType.getD []).Nodup
          ∧ Goods fetch base emb ∧ (deviceTypes emb).Nodup := by simpa [Good] using hg
      have hdep : depths emb ≤ f := by simp [DeviceSpec.depth] at hf; omega
      have e1 : mapE (parseIcon base) (icons.map renderIcon) = mapE (mirrorIcon base) icons := by
        rw [mapE_map]; exact mapE_congr _ _ icons (fun i _ => parseIcon_render base i)
      have e2 : mapE (createService fo tb fetch nonStrict base) (svcs.map renderService)
          = mapE (mirrorService fo tb nonStrict base) svcs := by
        rw [mapE_map]
        refine mapE_congr _ _ svcs (fun s hs => ?_)
        obtain ⟨⟨u, hu, hfu⟩, hdist⟩ := gs s hs
        exact createService_render fo tb fetch nonStrict base s u hu hfu hdist
      have e3 := createDevices_render emb f hdep ge
      rw [createDevice, mirror, hIcons, hSvcs, hEmb, hInfo, e1, e2, e3]
      cases h1 : mapE (mirrorIcon base) icons with
      | error e => rfl
      | ok ic =>
        cases h2 : mapE (mirrorService fo tb nonStrict base) svcs with
        | error e => rfl
        | ok sv =>
          cases h3 : mirrors fo tb nonStrict base emb with
          | error e => rfl
          | ok em =>
            simp only
            rw [dictValues_nodup _ sv (by rw [svc_types fo tb nonStrict base svcs sv h2]; exact gt),
                dictValues_nodup _ em (by rw [mirrors_deviceTypes fo tb nonStrict base emb em h3]; exact gd)]
theorem createDevices_render : ∀ (l : List DeviceSpec) (fuel : Nat), depths l ≤ fuel → Goods fetch base l →
    mapE (createDevice fo tb fetch nonStrict base fuel) (renderDevices l) = mirrors fo tb nonStrict base l
  | [], _, _, _ => by simp [renderDevices, mapE, mirrors]
  | d :: r, fuel, hf, hg => by
    obtain ⟨g1, g2⟩ : Good fetch base d ∧ Goods fetch base r := by simpa [Goods] using hg
    have hd : d.depth ≤ fuel := by simp [depths] at hf; omega
    have hr : depths r ≤ fuel := by simp [depths] at hf; omega
    rw [renderDevices, mapE, mirrors, createDevice_render d fuel hd g1, createDevices_render r fuel hr g2]
    cases mirror fo tb nonStrict base d with
    | error e => rfl
    | ok m => cases mirrors fo tb nonStrict base r <;> rfl
end

end
end Upnp.C05
