/-
  C05 lemmas: the factory model on one rendered icon / state variable / argument / action
  equals the corresponding `mirror*`.
-/
import Upnp.Lemmas.C05Xml
import Upnp.Lemmas.PyDict
namespace Upnp.C05
open Upnp Upnp.C08

section
variable {F : Type} (fo : FloatOps F) (tb : Table)

/-! ### generic helpers -/

theorem mapE_map {α β γ ε : Type} (f : β → Except ε γ) (g : α → β) (l : List α) :
    mapE f (l.map g) = mapE (fun a => f (g a)) l := by
  induction l with
  | nil => rfl
  | cons a r ih => simp only [List.map_cons, mapE, ih]

theorem mapE_congr {α β ε : Type} (f g : α → Except ε β) (l : List α) (h : ∀ a ∈ l, f a = g a) :
    mapE f l = mapE g l := by
  induction l with
  | nil => rfl
  | cons a r ih =>
    simp only [mapE, h a (by simp), ih (fun x hx => h x (by simp [hx]))]

theorem mapE_ok_map {α β γ ε : Type} (f : α → Except ε β) (key : β → γ) (key' : α → γ)
    (hk : ∀ a b, f a = .ok b → key b = key' a) :
    ∀ (l : List α) (bs : List β), mapE f l = .ok bs → bs.map key = l.map key' := by
  intro l
  induction l with
  | nil => intro bs h; simp [mapE] at h; subst h; rfl
  | cons a r ih =>
    intro bs h
    simp only [mapE] at h
    cases hfa : f a with
    | error e => rw [hfa] at h; cases h
    | ok b =>
      rw [hfa] at h
      cases hr : mapE f r with
      | error e => rw [hr] at h; cases h
      | ok bs' =>
        rw [hr] at h
        simp only [Except.ok.injEq] at h
        subst h
        simp [hk a b hfa, ih bs' hr]

/-! ### icons -/

theorem iconFields (i : IconSpec) :
    (renderIcon i).findtext .device .mimetype = i.mimetype ∧ (renderIcon i).findtext .device .width = i.width
    ∧ (renderIcon i).findtext .device .height = i.height ∧ (renderIcon i).findtext .device .depth = i.depth
    ∧ (renderIcon i).findtext .device .url = i.url := by
  obtain ⟨a, b, c, d, e⟩ := i
  refine ⟨?_, ?_, ?_, ?_, ?_⟩ <;>
    cases a <;> cases b <;> cases c <;> cases d <;> cases e <;>
    simp [renderIcon, Xml.findtext, Xml.find, Xml.children, optLeaf, leaf_text]

theorem parseIcon_render (base : Str) (i : IconSpec) : parseIcon base (renderIcon i) = mirrorIcon base i := by
  obtain ⟨h1, h2, h3, h4, h5⟩ := iconFields i
  unfold parseIcon mirrorIcon
  rw [h1, h2, h3, h4, h5]

/-! ### state variables -/

theorem allowed_texts (l : List Str) :
    ((l.map (leaf .service .allowedValue)).filter (Xml.isNamed .service .allowedValue)).map (·.text)
      = l.map (fun s => if s.isEmpty then none else some s) := by
  induction l with
  | nil => rfl
  | cons s r ih =>
    simp only [List.map_cons, List.filter_cons, isNamed_leaf, beq_self_eq_true, Bool.and_self, if_true]
    rw [ih]
    unfold leaf
    by_cases h : s.isEmpty <;> simp [Xml.text, h]

structure VarFields (v : VarSpec) : Prop where
  se : (renderVar v).sendEvents = v.seAttr
  seElem : ((renderVar v).find .service .sendEventsAttribute).map (fun c => c.text.getD []) = v.seElem
  dataType : (renderVar v).findtext .service .dataType = v.dataType
  default : (renderVar v).findtext .service .defaultValue = v.default
  name : (renderVar v).findtext .service .name = v.name
  range : ((renderVar v).find .service .allowedValueRange).map
      (fun r => (r.findtext .service .minimum, r.findtext .service .maximum)) = v.range.map (fun r => (r.1, r.2.1))
  allowed : ((renderVar v).find .service .allowedValueList).map
      (fun l => (l.findall .service .allowedValue).map (·.text))
        = v.allowed.map (fun l => l.map (fun s => if s.isEmpty then none else some s))

theorem renderVar_fields (v : VarSpec) : VarFields v := by
  obtain ⟨n, t, sa, se, df, rg, al⟩ := v
  refine ⟨rfl, ?_, ?_, ?_, ?_, ?_, ?_⟩
  · cases n <;> cases t <;> cases se <;> cases df <;> cases rg <;> cases al <;>
      simp [renderVar, Xml.find, Xml.children, optLeaf, leaf_text]
  · cases n <;> cases t <;> cases se <;> cases df <;> cases rg <;> cases al <;>
      simp [renderVar, Xml.findtext, Xml.find, Xml.children, optLeaf, leaf_text]
  · cases n <;> cases t <;> cases se <;> cases df <;> cases rg <;> cases al <;>
      simp [renderVar, Xml.findtext, Xml.find, Xml.children, optLeaf, leaf_text]
  · cases n <;> cases t <;> cases se <;> cases df <;> cases rg <;> cases al <;>
      simp [renderVar, Xml.findtext, Xml.find, Xml.children, optLeaf, leaf_text]
  · cases rg with
    | none =>
      cases n <;> cases t <;> cases se <;> cases df <;> cases al <;>
        simp [renderVar, Xml.find, Xml.children, optLeaf]
    | some r =>
      obtain ⟨mn, mx, st⟩ := r
      cases n <;> cases t <;> cases se <;> cases df <;> cases al <;> cases mn <;> cases mx <;> cases st <;>
        simp [renderVar, Xml.findtext, Xml.find, Xml.children, optLeaf, leaf_text]
  · cases al with
    | none =>
      cases n <;> cases t <;> cases se <;> cases df <;> cases rg <;>
        simp [renderVar, Xml.find, Xml.children, optLeaf]
    | some l =>
      have := allowed_texts l
      cases n <;> cases t <;> cases se <;> cases df <;> cases rg <;>
        simp [renderVar, Xml.find, Xml.findall, Xml.children, optLeaf, this]

theorem createVar_render (nonStrict : Bool) (v : VarSpec) :
    createVar fo tb nonStrict (renderVar v) = mirrorVar fo tb nonStrict v := by
  have hf := renderVar_fields v
  unfold createVar mirrorVar
  rw [hf.se, hf.seElem, hf.dataType, hf.default, hf.name, hf.range, hf.allowed]

theorem varOf_ok (nonStrict : Bool) (sa se dt df nm : Option Str) (rg : Option (Option Str × Option Str))
    (al : Option (List (Option Str))) (m : VarM F) (h : varOf fo tb nonStrict sa se dt df nm rg al = .ok m) :
    m.name = stripWs (nm.getD []) := by
  unfold varOf at h
  cases dt with
  | none => simp at h
  | some d =>
    simp only at h
    cases hr : tb.row? d with
    | none => simp [hr] at h
    | some row =>
      simp only [hr] at h
      cases hs : mkSchema fo tb row (!nonStrict)
          { range := rg, allowed := al.map (allowedTexts (row.ty == .str)), default := df } with
      | error e => simp [hs] at h
      | ok sc =>
        simp only [hs, Except.ok.injEq] at h
        rw [← h]

/-- the evented flag from the two notations: the attribute wins, only `yes` is true -/
def eventedOf (sa se : Option Str) : Bool :=
  match sa with
  | some a => a == ['y', 'e', 's']
  | none => match se with
      | some e => e == ['y', 'e', 's']
      | none => false

/-- what `varOf` puts into the variable, field by field -/
theorem varOf_fields (nonStrict : Bool) (sa se df nm : Option Str) (dt : Str) (row : TypeRow)
    (rg : Option (Option Str × Option Str)) (al : Option (List (Option Str))) (m : VarM F)
    (hrow : tb.row? dt = some row) (h : varOf fo tb nonStrict sa se (some dt) df nm rg al = .ok m) :
    m.name = stripWs (nm.getD []) ∧ m.dataType = dt
    ∧ m.sendEvents = eventedOf sa se
    ∧ m.min = R.ofExcept (optM (coercePython fo tb row) (rg.bind (·.1)))
    ∧ m.max = R.ofExcept (optM (coercePython fo tb row) (rg.bind (·.2)))
    ∧ m.allowed = R.ofExcept (mapM' (coercePython fo tb row) ((al.map (allowedTexts (row.ty == .str))).getD []))
    ∧ m.default = R.ofExcept (optM (coercePython fo tb row) df) := by
  unfold varOf at h
  simp only [hrow] at h
  cases hs : mkSchema fo tb row (!nonStrict)
      { range := rg, allowed := al.map (allowedTexts (row.ty == .str)), default := df } with
  | error e => simp [hs] at h
  | ok sc =>
    simp only [hs, Except.ok.injEq] at h
    rw [← h]
    refine ⟨rfl, rfl, ?_, rfl, rfl, rfl, rfl⟩
    unfold eventedOf
    cases sa <;> cases se <;> rfl

theorem mirrorVar_name (nonStrict : Bool) (v : VarSpec) (m : VarM F)
    (h : mirrorVar fo tb nonStrict v = .ok m) : m.name = stripWs (v.name.getD []) :=
  varOf_ok fo tb nonStrict _ _ _ _ _ _ _ m h

/-! ### arguments and actions -/

theorem argFields (g : ArgSpec) :
    (renderArg g).findtext .service .name = g.name ∧ (renderArg g).findtext .service .direction = g.direction
      ∧ (renderArg g).findtext .service .relatedStateVariable = g.related := by
  obtain ⟨a, b, c⟩ := g
  refine ⟨?_, ?_, ?_⟩ <;> cases a <;> cases b <;> cases c <;>
    simp [renderArg, Xml.findtext, Xml.find, Xml.children, optLeaf, leaf_text]

theorem parseArgs_render (a : ActionSpec) :
    parseArgs (renderAction a) = a.args.filterMap fun g => completeArg g.name g.direction (g.related.map stripWs) := by
  obtain ⟨nm, args⟩ := a
  have hall : (renderAction ⟨nm, args⟩).findall2 .service .argumentList .argument = args.map renderArg := by
    have hn : ∀ x ∈ args.map renderArg, Xml.isNamed .service .argument x = true := by
      intro x hx; obtain ⟨g, _, rfl⟩ := List.mem_map.mp hx; rfl
    cases args with
    | nil => cases nm <;> simp [renderAction, Xml.findall2, Xml.findall, Xml.children, optLeaf, wrap]
    | cons g r =>
      cases nm <;>
        simp [renderAction, Xml.findall2, Xml.findall, Xml.children, optLeaf, wrap, renderArg]
  unfold parseArgs
  rw [hall, List.filterMap_map]
  congr 1
  funext g
  obtain ⟨h1, h2, h3⟩ := argFields g
  simp only [Function.comp, h1, h2, h3]

theorem actionName_render (a : ActionSpec) : (renderAction a).findtext .service .name = a.name := by
  obtain ⟨nm, args⟩ := a
  cases nm <;> cases args <;>
    simp [renderAction, Xml.findtext, Xml.find, Xml.children, optLeaf, wrap, leaf_text]

/-- with distinct names, the dict lookup of `_create_action` finds the variable of that name -/
theorem svs_lookup (vars : List (VarM F)) (hn : (vars.map (·.name)).Nodup) (r : Str) :
    PyDict.get? (PyDict.ofList (vars.map fun v => (v.name, v))) r = vars.find? (·.name == r) := by
  rw [PyDict.get?_ofList, PyDict.get?_reverse_nodup]
  · induction vars with
    | nil => rfl
    | cons v rest ih =>
      simp only [List.map_cons, PyDict.get?, List.find?_cons]
      by_cases h : v.name = r
      · simp [h]
      · have hb : (v.name == r) = false := by simpa using h
        simp only [h, if_false, hb]
        exact ih (by simpa using (List.nodup_cons.mp hn).2)
  · simpa [PyDict.keys, Function.comp_def] using hn

theorem createAction_render (vars : List (VarM F)) (hn : (vars.map (·.name)).Nodup) (a : ActionSpec) :
    createAction vars (renderAction a) = mirrorAction vars a := by
  unfold createAction mirrorAction
  rw [parseArgs_render, actionName_render]
  congr 1
  funext r
  exact svs_lookup vars hn r

/-! ### the accessors of an action -/

theorem findIdxFrom_append {α : Type} (p : α → Bool) : ∀ (pre l : List α) (k : Nat), (∀ x ∈ pre, p x = false) →
    findIdxFrom p (pre ++ l) k = findIdxFrom p l (k + pre.length) := by
  intro pre
  induction pre with
  | nil => intro l k _; simp
  | cons a r ih =>
    intro l k h
    simp only [List.cons_append, findIdxFrom, h a (by simp), Bool.false_eq_true, if_false]
    rw [ih l (k + 1) (fun x hx => h x (by simp [hx]))]
    simp only [List.length_cons]
    congr 1; omega

theorem lookups_id : ∀ (l pre : List ArgM), ((pre ++ l).map fun a => (a.name, a.direction)).Nodup →
    l.map (fun a => argLookup (pre ++ l) a.name (some a.direction)) = (List.range' pre.length l.length).map some := by
  intro l
  induction l with
  | nil => intro pre _; rfl
  | cons a r ih =>
    intro pre hn
    simp only [List.map_cons, List.length_cons, List.range'_succ]
    congr 1
    · unfold argLookup
      rw [findIdxFrom_append]
      · simp [findIdxFrom]
      · intro x hx
        rw [List.map_append, List.map_cons] at hn
        have := (List.nodup_append.mp hn).2.2 (x.name, x.direction) (List.mem_map.mpr ⟨x, hx, rfl⟩)
          (a.name, a.direction) (by simp)
        simp only [ne_eq, Prod.mk.injEq, not_and] at this
        cases h1 : x.name == a.name
        · rfl
        · cases h2 : x.direction == a.direction
          · simp [h2]
          · exact absurd (by simpa using h2) (this (by simpa using h1))
    · have := ih (pre ++ [a]) (by simpa [List.append_assoc] using hn)
      simpa [List.append_assoc] using this

/-- looking every element up by a key that is distinct within the list finds that very element -/
theorem findIdx_self {α β : Type} [BEq β] [LawfulBEq β] (key : α → β) : ∀ (l pre : List α), ((pre ++ l).map key).Nodup →
    l.map (fun a => findIdxFrom (fun x => key x == key a) (pre ++ l) 0) = (List.range' pre.length l.length).map some := by
  intro l
  induction l with
  | nil => intro pre _; rfl
  | cons a r ih =>
    intro pre hn
    simp only [List.map_cons, List.length_cons, List.range'_succ]
    congr 1
    · rw [findIdxFrom_append]
      · simp [findIdxFrom]
      · intro x hx
        rw [List.map_append, List.map_cons] at hn
        have := (List.nodup_append.mp hn).2.2 (key x) (List.mem_map.mpr ⟨x, hx, rfl⟩) (key a) (by simp)
        simpa using this
    · have := ih (pre ++ [a]) (by simpa [List.append_assoc] using hn)
      simpa [List.append_assoc] using this

theorem byNameDir_id (name : Str) (args : List ArgM) (h : (args.map fun a => (a.name, a.direction)).Nodup) :
    (mkAct name args).byNameDir = (List.range args.length).map some := by
  have := lookups_id args [] (by simpa using h)
  simpa [mkAct, List.range_eq_range'] using this

theorem idxWhere_mem {α : Type} (p : α → Bool) : ∀ (l : List α) (k i : Nat),
    i ∈ idxWhere p l k ↔ ∃ a, k ≤ i ∧ l[i - k]? = some a ∧ p a = true := by
  intro l
  induction l with
  | nil => intro k i; simp [idxWhere]
  | cons x r ih =>
    intro k i
    unfold idxWhere
    have step : (∃ a, k ≤ i ∧ (x :: r)[i - k]? = some a ∧ p a = true) ↔
        ((i = k ∧ p x = true) ∨ ∃ a, k + 1 ≤ i ∧ r[i - (k + 1)]? = some a ∧ p a = true) := by
      constructor
      · rintro ⟨a, hk, hget, hp⟩
        by_cases he : i = k
        · subst he; simp at hget; subst hget; exact Or.inl ⟨rfl, hp⟩
        · right
          have : i - k = (i - (k + 1)) + 1 := by omega
          rw [this, List.getElem?_cons_succ] at hget
          exact ⟨a, by omega, hget, hp⟩
      · rintro (⟨rfl, hp⟩ | ⟨a, hk, hget, hp⟩)
        · exact ⟨x, Nat.le_refl _, by simp, hp⟩
        · have : i - k = (i - (k + 1)) + 1 := by omega
          exact ⟨a, by omega, by rw [this, List.getElem?_cons_succ]; exact hget, hp⟩
    rw [step]
    by_cases hp : p x = true
    · simp only [hp, if_true, List.mem_cons, ih, and_true]
    · simp only [hp, Bool.false_eq_true, if_false, ih, and_false, false_or]

theorem idxWhere_sorted {α : Type} (p : α → Bool) : ∀ (l : List α) (k : Nat),
    (∀ i ∈ idxWhere p l k, k ≤ i) ∧ (idxWhere p l k).Pairwise (· < ·) := by
  intro l
  induction l with
  | nil => intro k; simp [idxWhere]
  | cons x r ih =>
    intro k
    obtain ⟨h1, h2⟩ := ih (k + 1)
    unfold idxWhere
    split
    · refine ⟨?_, ?_⟩
      · intro i hi
        rcases List.mem_cons.mp hi with rfl | hi
        · exact Nat.le_refl _
        · exact Nat.le_of_succ_le (h1 i hi)
      · exact List.pairwise_cons.mpr ⟨fun i hi => h1 i hi, h2⟩
    · exact ⟨fun i hi => Nat.le_of_succ_le (h1 i hi), h2⟩

theorem distinctPairs_nodup : ∀ (l : List (Str × Str)), distinctPairs l = true → l.Nodup := by
  intro l
  induction l with
  | nil => intro _; exact List.nodup_nil
  | cons a r ih =>
    intro h
    simp only [distinctPairs, Bool.and_eq_true, Bool.not_eq_true', List.contains_eq_mem, decide_eq_false_iff_not] at h
    exact List.nodup_cons.mpr ⟨h.1, ih h.2⟩

end
end Upnp.C05
