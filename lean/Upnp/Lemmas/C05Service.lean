/-
  C05 lemmas: one service — the factory model on the rendered service element and SCPD tree
  equals `mirrorService`.
-/
import Upnp.Lemmas.C05Parts
namespace Upnp.C05
open Upnp Upnp.C08

/-! ### `{key(x): x for x in l}.values()` is `l` when the keys are distinct -/

theorem set_append_new {κ ν : Type} [DecidableEq κ] (a : PyDict κ ν) (k : κ) (v : ν) (h : k ∉ PyDict.keys a) :
    PyDict.set a k v = a ++ [(k, v)] := by
  induction a with
  | nil => rfl
  | cons p r ih =>
    obtain ⟨k', v'⟩ := p
    simp only [PyDict.keys, List.map_cons, List.mem_cons, not_or] at h
    simp only [PyDict.set]
    rw [if_neg (fun e => h.1 e.symm)]
    simp [ih (by simpa [PyDict.keys] using h.2)]

theorem foldl_set_append {κ ν : Type} [DecidableEq κ] (l : List (κ × ν)) :
    ∀ (a : PyDict κ ν), (l.map (·.1)).Nodup → (∀ k ∈ l.map (·.1), k ∉ PyDict.keys a) →
      l.foldl (fun acc p => PyDict.set acc p.1 p.2) a = a ++ l := by
  induction l with
  | nil => intro a _ _; simp
  | cons p r ih =>
    intro a hn hd
    simp only [List.foldl_cons]
    rw [set_append_new a p.1 p.2 (hd p.1 (by simp))]
    have hn' : p.1 ∉ r.map (·.1) ∧ (r.map (·.1)).Nodup := List.nodup_cons.mp hn
    rw [ih (a ++ [(p.1, p.2)]) hn'.2]
    · simp
    · intro k hk
      simp only [PyDict.keys, List.map_append, List.map_cons, List.map_nil, List.mem_append, List.mem_singleton, not_or]
      refine ⟨?_, ?_⟩
      · have := hd k (by simp [List.mem_map] at hk ⊢; right; exact hk)
        simpa [PyDict.keys] using this
      · intro e; subst e; exact hn'.1 (by simpa using hk)

theorem dictValues_nodup {α : Type} (key : α → Str) (l : List α) (h : (l.map key).Nodup) : dictValues key l = l := by
  unfold dictValues PyDict.ofList PyDict.merge
  rw [foldl_set_append _ [] (by simpa [Function.comp_def] using h) (by intro k _; simp [PyDict.keys])]
  simp [PyDict.values, Function.comp_def]

theorem allDistinct_nodup : ∀ (l : List Str), allDistinct l = true → l.Nodup := by
  intro l
  induction l with
  | nil => intro _; exact List.nodup_nil
  | cons a r ih =>
    intro h
    simp only [allDistinct, Bool.and_eq_true, Bool.not_eq_true', List.contains_eq_mem, decide_eq_false_iff_not] at h
    exact List.nodup_cons.mpr ⟨h.1, ih h.2⟩

section
variable {F : Type} (fo : FloatOps F) (tb : Table)

def nameless : Str := ['n', 'a', 'm', 'e', 'l', 'e', 's', 's']

/-- names within one SCPD are distinct (state variables by stripped name, actions by name) -/
def ScpdSpec.Distinct (sp : ScpdSpec) : Prop :=
  (∀ l, sp.vars = some l → (l.map fun v => stripWs (v.name.getD [])).Nodup)
  ∧ (∀ lv, sp.vars = some lv → ∀ l, sp.actions = some l → (l.map fun a => a.name.getD nameless).Nodup)

def DocSpec.Distinct : DocSpec → Prop
  | .scpd sp => sp.Distinct
  | _ => True

theorem actionOf_name (lookup : Str → Option (VarM F)) (name : Option Str) (args : List (Str × Str × Str)) (m : ActM)
    (h : actionOf lookup name args = .ok m) : m.name = name.getD nameless := by
  unfold actionOf at h
  split at h
  · simp only [Except.ok.injEq] at h; rw [← h]; rfl
  · cases h

theorem createVars_render (nonStrict : Bool) (sp : ScpdSpec) :
    createVars fo tb nonStrict (renderScpd sp) =
      match sp.vars with
      | none => if nonStrict then .ok [] else .error .xmlContent
      | some l => mapE (mirrorVar fo tb nonStrict) l := by
  obtain ⟨vs, as⟩ := sp
  cases vs with
  | none => cases as <;> simp [createVars, renderScpd, Xml.find, Xml.children]
  | some l =>
    have hall : (l.map renderVar).filter (Xml.isNamed .service .stateVariable) = l.map renderVar :=
      filter_all_named _ (by intro x hx; obtain ⟨v, _, rfl⟩ := List.mem_map.mp hx; rfl)
    have : createVars fo tb nonStrict (renderScpd ⟨some l, as⟩)
        = mapE (createVar fo tb nonStrict) (l.map renderVar) := by
      cases as <;> simp [createVars, renderScpd, Xml.find, Xml.findall, Xml.children, hall]
    rw [this, mapE_map]
    exact mapE_congr _ _ l (fun v _ => createVar_render fo tb nonStrict v)

theorem createActions_render (nonStrict : Bool) (vars : List (VarM F)) (hn : (vars.map (·.name)).Nodup) (sp : ScpdSpec) :
    createActions nonStrict vars (renderScpd sp) =
      match sp.actions with
      | none => .ok []
      | some l => if nonStrict && sp.vars.isNone then .ok [] else mapE (mirrorAction vars) l := by
  obtain ⟨vs, as⟩ := sp
  cases as with
  | none => cases vs <;> simp [createActions, renderScpd, Xml.find, Xml.children]
  | some l =>
    have hall : (l.map renderAction).filter (Xml.isNamed .service .action) = l.map renderAction :=
      filter_all_named _ (by intro x hx; obtain ⟨v, _, rfl⟩ := List.mem_map.mp hx; rfl)
    have hm : mapE (createAction vars) (l.map renderAction) = mapE (mirrorAction vars) l := by
      rw [mapE_map]
      exact mapE_congr _ _ l (fun a _ => createAction_render vars hn a)
    cases vs <;> cases nonStrict <;>
      simp [createActions, renderScpd, Xml.find, Xml.findall, Xml.children, hall, hm]

theorem vars_names (nonStrict : Bool) (l : List VarSpec) (vars : List (VarM F))
    (h : mapE (mirrorVar fo tb nonStrict) l = .ok vars) :
    vars.map (·.name) = l.map fun v => stripWs (v.name.getD []) :=
  mapE_ok_map _ (·.name) (fun v => stripWs (v.name.getD [])) (fun v m hm => mirrorVar_name fo tb nonStrict v m hm) l vars h

theorem acts_names (vars : List (VarM F)) (l : List ActionSpec) (acts : List ActM)
    (h : mapE (mirrorAction vars) l = .ok acts) : acts.map (·.name) = l.map fun a => a.name.getD nameless :=
  mapE_ok_map _ (·.name) (fun a => a.name.getD nameless)
    (fun a m hm => actionOf_name _ _ _ m (by simpa [mirrorAction] using hm)) l acts h

/-- the model's variables / actions of a fetched service document are `mirrorBody`'s -/
theorem body_render (nonStrict : Bool) (doc : DocSpec) (hd : doc.Distinct) :
    serviceBody fo tb nonStrict (renderDoc doc) = mirrorBody fo tb nonStrict doc := by
  unfold serviceBody
  cases doc with
  | status n => rfl
  | unparsable =>
    cases nonStrict <;> simp [renderDoc, mirrorBody, createVars, createActions, Xml.find, Xml.children, dictValues,
      PyDict.ofList, PyDict.merge, PyDict.values, degrade]
  | foreign n t =>
    cases nonStrict
    · simp only [renderDoc, mirrorBody, Bool.not_false, Bool.true_and]
      by_cases h : Xml.isNamed .service .scpd (Xml.node n t none none []) = true
      · simp [h, createVars, Xml.find, Xml.children, degrade]
      · simp [h]
    · simp [renderDoc, mirrorBody, createVars, createActions, Xml.find, Xml.children, dictValues,
        PyDict.ofList, PyDict.merge, PyDict.values, degrade]
  | scpd sp =>
    have hroot : Xml.isNamed .service .scpd (renderScpd sp) = true := rfl
    simp only [renderDoc, hroot, Bool.not_true, Bool.and_false, Bool.false_eq_true, if_false, mirrorBody]
    rw [createVars_render]
    obtain ⟨hdv, hda⟩ := hd
    cases hv : sp.vars with
    | none =>
      cases nonStrict
      · simp [degrade]
      · simp only [if_true]
        rw [createActions_render true [] (by simp) sp, hv]
        cases sp.actions <;> simp [dictValues, PyDict.ofList, PyDict.merge, PyDict.values, degrade]
    | some l =>
      simp only
      congr 1
      cases hm : mapE (mirrorVar fo tb nonStrict) l with
      | error e => rfl
      | ok vars =>
        have hn : (vars.map (·.name)).Nodup := by
          rw [vars_names fo tb nonStrict l vars hm]; exact hdv l hv
        simp only
        rw [createActions_render nonStrict vars hn sp, hv]
        cases ha : sp.actions with
        | none =>
          simp only
          rw [dictValues_nodup _ vars hn]
          simp [dictValues, PyDict.ofList, PyDict.merge, PyDict.values]
        | some la =>
          simp only [Option.isNone_some, Bool.and_false, Bool.false_eq_true, if_false]
          cases hma : mapE (mirrorAction vars) la with
          | error e => rfl
          | ok acts =>
            have hna : (acts.map (·.name)).Nodup := by
              rw [acts_names vars la acts hma]; exact hda l hv la ha
            simp [dictValues_nodup _ vars hn, dictValues_nodup _ acts hna]

theorem createService_render (fetch : Str → Fetch) (nonStrict : Bool) (base : Str) (s : ServiceSpec) (u : Str)
    (hu : joinOpt base s.scpdURL = some u) (hf : fetch u = renderDoc s.doc) (hd : s.doc.Distinct) :
    createService fo tb fetch nonStrict base (renderService s) = mirrorService fo tb nonStrict base s := by
  obtain ⟨h1, h2, h3, h4, h5⟩ := findtext_service s
  unfold createService mirrorService
  simp only [h1, h2, h3, h4, h5, hu, hf, body_render fo tb nonStrict s.doc hd]

end
end Upnp.C05
