/-
  C05 lemmas: a well-formed description served by `serve` satisfies `Good`; on well-formed
  descriptions `mirror` can only refuse with the library's XML errors, and never in non-strict mode.
-/
import Upnp.Lemmas.C05Device
namespace Upnp.C05
open Upnp Upnp.C08

/-! ### `serve` returns each service's own document -/

theorem find_by_key {α : Type} (key : α → Option Str) : ∀ (l : List α), (l.map key).Nodup → ∀ s ∈ l, ∀ u, key s = some u →
    l.find? (fun x => key x == some u) = some s := by
  intro l
  induction l with
  | nil => intro _ s hs; cases hs
  | cons a r ih =>
    intro hn s hs u hk
    have hnd : key a ∉ r.map key ∧ (r.map key).Nodup := List.nodup_cons.mp hn
    by_cases ha : key a = some u
    · have : s = a := by
        rcases List.mem_cons.mp hs with h | h
        · exact h
        · exact absurd (List.mem_map.mpr ⟨s, h, by rw [hk, ha]⟩) hnd.1
      subst this
      simp [ha]
    · have hs' : s ∈ r := by
        rcases List.mem_cons.mp hs with rfl | h
        · exact absurd hk ha
        · exact h
      simp only [List.find?_cons]
      have : (key a == some u) = false := by simpa using ha
      rw [this]; exact ih hnd.2 s hs' u hk

theorem allDistinct_getD (us : List (Option Str)) (hs : ∀ u ∈ us, u.isSome = true)
    (hd : (us.map fun u => u.getD []).Nodup) : us.Nodup := by
  induction us with
  | nil => exact List.nodup_nil
  | cons a r ih =>
    have hnd : a.getD [] ∉ r.map (fun u => u.getD []) ∧ (r.map fun u => u.getD []).Nodup := List.nodup_cons.mp hd
    refine List.nodup_cons.mpr ⟨?_, ih (fun u hu => hs u (by simp [hu])) hnd.2⟩
    intro ha
    exact hnd.1 (List.mem_map.mpr ⟨a, ha, rfl⟩)

/-- `serve` answers a service's resolved SCPD URL with that service's document -/
theorem serve_spec (base : Str) (d : DeviceSpec) (hu : urlsOk base d = true) :
    ∀ s ∈ d.allServices, ∃ u, joinOpt base s.scpdURL = some u ∧ serve base d u = renderDoc s.doc := by
  intro s hs
  simp only [urlsOk, Bool.and_eq_true, List.all_eq_true, Bool.or_eq_true, bne_iff_ne, ne_eq, beq_iff_eq] at hu
  obtain ⟨hall, hsame⟩ := hu
  have hsome := (hall s hs).1
  have hne := (hall s hs).2
  obtain ⟨u, hu'⟩ := Option.isSome_iff_exists.mp hsome
  refine ⟨u, hu', ?_⟩
  unfold serve
  have : (u == base) = false := by
    simp only [beq_eq_false_iff_ne, ne_eq]
    intro e; subst e; exact hne hu'
  rw [this]
  simp only [Bool.false_eq_true, if_false]
  cases hf : d.allServices.find? (fun x => joinOpt base x.scpdURL == some u) with
  | none =>
    have := List.find?_eq_none.mp hf s hs
    simp [hu'] at this
  | some s' =>
    have hp := List.find?_some hf
    have hm := List.mem_of_find?_eq_some hf
    simp only [beq_iff_eq] at hp
    rcases hsame s' hm s hs with h | h
    · exact absurd (by rw [hp, hu']) h
    · simp only [h]

/-! ### well-formed ⇒ `Good` -/

section
variable {F : Type} (fo : FloatOps F) (tb : Table) (fetch : Str → Fetch) (base : Str)

theorem scpd_wf_distinct (sp : ScpdSpec) (h : ScpdSpec.wf fo tb sp = true) : sp.Distinct := by
  obtain ⟨vs, as⟩ := sp
  unfold ScpdSpec.wf at h
  unfold ScpdSpec.Distinct
  cases vs with
  | none => exact ⟨fun l hl => by simp at hl, fun lv hlv => by simp at hlv⟩
  | some vars =>
    simp only [Bool.and_eq_true] at h
    obtain ⟨⟨_, hnames⟩, hacts⟩ := h
    refine ⟨fun l hl => ?_, fun lv _ l hl => ?_⟩
    · simp only [Option.some.injEq] at hl; subst hl; exact allDistinct_nodup _ hnames
    · simp only at hl
      subst hl
      simp only [Bool.and_eq_true, List.all_eq_true] at hacts
      obtain ⟨hd, hall⟩ := hacts
      have : (l.map fun a => a.name.getD nameless) = l.map fun a => a.name.getD [] := by
        apply List.map_congr_left
        intro a ha
        have := (hall a ha).1.1
        cases hn : a.name with
        | none => rw [hn] at this; cases this
        | some n => rfl
      rw [this]
      exact allDistinct_nodup _ hd

theorem service_wf_distinct (s : ServiceSpec) (h : ServiceSpec.wf fo tb s = true) : s.doc.Distinct := by
  unfold ServiceSpec.wf at h
  simp only [Bool.and_eq_true] at h
  cases hd : s.doc with
  | scpd sp => rw [hd] at h; exact scpd_wf_distinct fo tb sp h.2
  | foreign n t => trivial
  | unparsable => trivial
  | status n => trivial

def Served (s : ServiceSpec) : Prop := ∃ u, joinOpt base s.scpdURL = some u ∧ fetch u = renderDoc s.doc

mutual
theorem wf_good : ∀ (d : DeviceSpec), d.wf fo tb base = true → (∀ s ∈ d.allServices, Served fetch base s) →
    Good fetch base d
  | .mk info icons svcs emb, hw, hs => by
    simp only [DeviceSpec.wf, Bool.and_eq_true, List.all_eq_true] at hw
    obtain ⟨⟨⟨⟨⟨⟨⟨⟨_, _⟩, _⟩, hsv⟩, hid⟩, hnh⟩, hemb⟩, hud⟩, hdt⟩ := hw
    simp only [Good]
    refine ⟨fun s hsm => ⟨hs s (by simp [DeviceSpec.allServices, hsm]), service_wf_distinct fo tb s (hsv s hsm)⟩,
      ⟨allDistinct_nodup _ hid, fun s hsm => (noHash_iff _).mp (hnh s hsm)⟩,
      wfs_goods emb hemb (fun s hsm => hs s (by simp [DeviceSpec.allServices, hsm])),
      ⟨allDistinct_nodup _ hud, fun t ht => (noHash_iff _).mp (hdt t ht)⟩⟩
theorem wfs_goods : ∀ (l : List DeviceSpec), wfs fo tb base l = true → (∀ s ∈ allServicesL l, Served fetch base s) →
    Goods fetch base l
  | [], _, _ => by simp [Goods]
  | d :: r, hw, hs => by
    simp only [wfs, Bool.and_eq_true] at hw
    simp only [Goods]
    exact ⟨wf_good d hw.1 (fun s hsm => hs s (by simp [allServicesL, hsm])),
           wfs_goods r hw.2 (fun s hsm => hs s (by simp [allServicesL, hsm]))⟩
end

end


/-! ### on well-formed descriptions `mirror` refuses only with the library's XML errors -/

theorem mapE_err_mem {α β ε : Type} (f : α → Except ε β) : ∀ (l : List α) (e : ε), mapE f l = .error e →
    ∃ a ∈ l, f a = .error e := by
  intro l
  induction l with
  | nil => intro e h; simp [mapE] at h
  | cons a r ih =>
    intro e h
    simp only [mapE] at h
    cases hfa : f a with
    | error e' => rw [hfa] at h; simp only [Except.error.injEq] at h; subst h; exact ⟨a, by simp, hfa⟩
    | ok b =>
      rw [hfa] at h
      cases hr : mapE f r with
      | error e' =>
        rw [hr] at h; simp only [Except.error.injEq] at h; subst h
        obtain ⟨x, hx, hfx⟩ := ih e' hr
        exact ⟨x, by simp [hx], hfx⟩
      | ok bs => rw [hr] at h; cases h

theorem mapM'_ok {α β : Type} (f : α → Except Err β) : ∀ (l : List α), (∀ a ∈ l, isOk (f a) = true) →
    ∃ bs, mapM' f l = .ok bs := by
  intro l
  induction l with
  | nil => intro _; exact ⟨[], rfl⟩
  | cons a r ih =>
    intro h
    obtain ⟨bs, hbs⟩ := ih (fun x hx => h x (by simp [hx]))
    have ha := h a (by simp)
    cases hfa : f a with
    | error e => rw [hfa] at ha; cases ha
    | ok b => exact ⟨b :: bs, by simp [mapM', hfa, hbs]⟩

theorem optM_ok {α β : Type} (f : α → Except Err β) (o : Option α) (h : ∀ a, o = some a → isOk (f a) = true) :
    ∃ r, optM f o = .ok r := by
  cases o with
  | none => exact ⟨none, rfl⟩
  | some a =>
    have ha := h a rfl
    cases hfa : f a with
    | error e => rw [hfa] at ha; cases ha
    | ok b => exact ⟨some b, by simp [optM, hfa]⟩

theorem nonEmpty_some {o : Option Str} {s : Str} (h : nonEmpty o = some s) : o = some s := by
  unfold nonEmpty at h
  cases o with
  | none => cases h
  | some x => simp only at h; split at h <;> simp_all

section
variable {F : Type} (fo : FloatOps F) (tb : Table)

/-- a declaration whose texts all denote values yields a schema (the default is converted with the
    type's own converter: `defaultViaIn`) -/
theorem mkSchema_ok (row : TypeRow) (strict : Bool) (d : Decl) (hvia : tb.defaultViaIn = true)
    (hden : ∀ s, (d.default = some s ∨ (∃ l, d.allowed = some l ∧ s ∈ l)
        ∨ (∃ mn mx, d.range = some (mn, mx) ∧ (mn = some s ∨ mx = some s))) → isOk (coercePython fo tb row s) = true) :
    ∃ sc, mkSchema fo tb row strict d = .ok sc := by
  have h1 : ∃ a, schemaAllowed (coercePython fo tb row) strict d.allowed = .ok a := by
    unfold schemaAllowed
    cases strict with
    | false => exact ⟨none, rfl⟩
    | true =>
      simp only [if_true]
      cases hal : d.allowed with
      | none => exact ⟨none, rfl⟩
      | some l =>
        cases l with
        | nil => exact ⟨none, rfl⟩
        | cons x r =>
          obtain ⟨bs, hbs⟩ := mapM'_ok (coercePython fo tb row) (x :: r)
            (fun s hs => hden s (Or.inr (Or.inl ⟨x :: r, hal, hs⟩)))
          exact ⟨some bs, by simp [optM, hbs]⟩
  have h2 : ∃ a, schemaRange (coercePython fo tb row) strict d.range = .ok a := by
    unfold schemaRange
    cases strict with
    | false => exact ⟨(none, none), rfl⟩
    | true =>
      simp only [if_true]
      cases hr : d.range with
      | none => exact ⟨(none, none), rfl⟩
      | some p =>
        obtain ⟨mn, mx⟩ := p
        obtain ⟨a, ha⟩ := optM_ok (coercePython fo tb row) (nonEmpty mn)
          (fun s hs => hden s (Or.inr (Or.inr ⟨mn, mx, hr, Or.inl (nonEmpty_some hs)⟩)))
        obtain ⟨b, hb⟩ := optM_ok (coercePython fo tb row) (nonEmpty mx)
          (fun s hs => hden s (Or.inr (Or.inr ⟨mn, mx, hr, Or.inr (nonEmpty_some hs)⟩)))
        exact ⟨(a, b), by simp [ha, hb]⟩
  have h3 : schemaDefault fo tb row d.default = .ok () := by
    unfold schemaDefault
    cases hn : nonEmpty d.default with
    | none => rfl
    | some s =>
      simp only
      split
      · rfl
      · have := hden s (Or.inl (nonEmpty_some hn))
        try rw [hvia]
        try simp only [if_true]
        cases hc : coercePython fo tb row s with
        | error e => rw [hc] at this; cases this
        | ok v => rfl
  obtain ⟨a, ha⟩ := h1
  obtain ⟨b, hb⟩ := h2
  obtain ⟨mn, mx⟩ := b
  exact ⟨_, by unfold mkSchema; rw [ha, hb, h3]⟩

theorem mem_allowedTexts (b : Bool) (l : List Str) (t : Str)
    (h : t ∈ allowedTexts b (l.map fun s => if s.isEmpty then none else some s)) : t ∈ l := by
  unfold allowedTexts at h
  obtain ⟨o, ho, hot⟩ := List.mem_filterMap.mp h
  obtain ⟨s0, hs0, rfl⟩ := List.mem_map.mp ho
  by_cases he : s0.isEmpty = true
  · simp only [he, if_true] at hot
    cases b <;> simp at hot
    subst hot
    have : s0 = [] := List.isEmpty_iff.mp he
    rw [← this]; exact hs0
  · simp only [he, Bool.false_eq_true, if_false, Option.some.injEq] at hot
    subst hot; exact hs0

theorem mirrorVar_ok (nonStrict : Bool) (v : VarSpec) (hvia : tb.defaultViaIn = true)
    (hw : VarSpec.wf fo tb v = true) (htyped : VarSpec.typed tb v = true) :
    ∃ m, mirrorVar fo tb nonStrict v = .ok m := by
  unfold VarSpec.wf at hw
  unfold VarSpec.typed at htyped
  simp only [Bool.and_eq_true] at hw
  obtain ⟨⟨⟨⟨⟨_, hty⟩, _⟩, _⟩, _⟩, _⟩ := hw
  unfold mirrorVar varOf
  cases hdt : v.dataType with
  | none => rw [hdt] at htyped; cases htyped
  | some dt =>
    rw [hdt] at hty htyped
    simp only at hty htyped ⊢
    cases hrow : tb.row? dt with
    | none => rw [hrow] at htyped; cases htyped
    | some row =>
      rw [hrow] at hty
      simp only [Bool.and_eq_true, List.all_eq_true] at hty ⊢
      obtain ⟨⟨hdf, hal⟩, hrg⟩ := hty
      obtain ⟨sc, hsc⟩ := mkSchema_ok fo tb row (!nonStrict)
        { range := v.range.map fun r => (r.1, r.2.1),
          allowed := (v.allowed.map fun l => l.map (fun s => if s.isEmpty then none else some s)).map
            (allowedTexts (row.ty == .str)),
          default := v.default } hvia
        (by
          intro s hs
          rcases hs with h | ⟨l, h1, h2⟩ | ⟨mn, mx, h1, h2⟩
          · simp only at h; rw [h] at hdf; exact hdf
          · simp only at h1
            cases hva : v.allowed with
            | none => rw [hva] at h1; cases h1
            | some l0 =>
              rw [hva] at h1 hal
              simp only [Option.map_some, Option.some.injEq] at h1
              subst h1
              exact (hal s (mem_allowedTexts _ _ _ h2)).1
          · simp only at h1
            cases hvr : v.range with
            | none => rw [hvr] at h1; cases h1
            | some r =>
              obtain ⟨a, b, c⟩ := r
              rw [hvr] at h1 hrg
              simp only [Option.map_some, Option.some.injEq, Prod.mk.injEq] at h1
              simp only [Bool.and_eq_true] at hrg
              obtain ⟨rfl, rfl⟩ := h1
              rcases h2 with rfl | rfl
              · exact hrg.1
              · exact hrg.2)
      rw [hsc]
      exact ⟨_, rfl⟩

/-- a well-formed variable can only fail for want of a supported data type -/
theorem mirrorVar_err (nonStrict : Bool) (v : VarSpec) (hvia : tb.defaultViaIn = true)
    (hw : VarSpec.wf fo tb v = true) (e : FErr) (h : mirrorVar fo tb nonStrict v = .error e) : e = .upnpError := by
  by_cases ht : VarSpec.typed tb v = true
  · obtain ⟨m, hm⟩ := mirrorVar_ok fo tb nonStrict v hvia hw ht
    rw [hm] at h; cases h
  · unfold VarSpec.typed at ht
    unfold mirrorVar varOf at h
    cases hdt : v.dataType with
    | none => simp [hdt] at h; exact h.symm
    | some dt =>
      rw [hdt] at ht h
      simp only at ht h
      cases hrow : tb.row? dt with
      | none => simp [hrow] at h; exact h.symm
      | some row => simp [hrow] at ht

theorem find_name_some (vars : List (VarM F)) (r : Str) (h : r ∈ vars.map (·.name)) :
    ∃ v, vars.find? (·.name == r) = some v := by
  induction vars with
  | nil => cases h
  | cons a rest ih =>
    simp only [List.find?_cons]
    by_cases ha : a.name = r
    · exact ⟨a, by simp [ha]⟩
    · have hb : (a.name == r) = false := by simpa using ha
      rw [hb]
      exact ih (by
        simp only [List.map_cons, List.mem_cons] at h
        rcases h with h | h
        · exact absurd h.symm ha
        · exact h)

theorem mapE_ok {α β ε : Type} (f : α → Except ε β) : ∀ (l : List α), (∀ a ∈ l, ∃ b, f a = .ok b) →
    ∃ bs, mapE f l = .ok bs := by
  intro l
  induction l with
  | nil => intro _; exact ⟨[], rfl⟩
  | cons a r ih =>
    intro h
    obtain ⟨bs, hbs⟩ := ih (fun x hx => h x (by simp [hx]))
    obtain ⟨b, hb⟩ := h a (by simp)
    exact ⟨b :: bs, by simp only [mapE, hb, hbs]⟩

theorem actionOf_ok (lookup : Str → Option (VarM F)) (name : Option Str) (args : List (Str × Str × Str))
    (h : ∀ t ∈ args, ∃ v, lookup t.2.2 = some v) : ∃ m, actionOf lookup name args = .ok m := by
  unfold actionOf
  obtain ⟨as, has⟩ := mapE_ok (bindArg lookup) args
    (by intro t ht; obtain ⟨v, hv⟩ := h t ht; refine ⟨{ name := t.1, direction := t.2.1, related := v.name, relatedType := v.dataType }, ?_⟩; simp only [bindArg, hv])
  rw [has]
  exact ⟨_, rfl⟩

theorem mirrorAction_ok (vars : List (VarM F)) (a : ActionSpec)
    (h : ∀ g ∈ a.args, ∀ n d r, completeArg g.name g.direction (g.related.map stripWs) = some (n, d, r) →
      r ∈ vars.map (·.name)) :
    ∃ m, mirrorAction vars a = .ok m := by
  unfold mirrorAction
  apply actionOf_ok
  intro t ht
  obtain ⟨g, hg, hc⟩ := List.mem_filterMap.mp ht
  obtain ⟨n, d, r⟩ := t
  exact find_name_some vars r (h g hg n d r hc)

/-- an action can only fail for an argument whose related state variable is not declared -/
theorem mirrorAction_err (vars : List (VarM F)) (a : ActionSpec) (e : FErr) (h : mirrorAction vars a = .error e) :
    e = .keyError := by
  unfold mirrorAction actionOf at h
  cases hm : mapE (bindArg fun r => vars.find? (·.name == r))
      (a.args.filterMap fun g => completeArg g.name g.direction (g.related.map stripWs)) with
  | ok as => simp [hm] at h
  | error e' =>
    simp only [hm, Except.error.injEq] at h
    subst h
    obtain ⟨t, _, ht⟩ := mapE_err_mem _ _ e' hm
    unfold bindArg at ht
    split at ht
    · cases ht
    · simp only [Except.error.injEq] at ht; exact ht.symm

/-- the library's XML errors -/
def FErr.isXml : FErr → Prop
  | .xmlContent => True
  | .xmlParse => True
  | _ => False

theorem mirrorBody_error (nonStrict : Bool) (s : ServiceSpec) (hvia : tb.defaultViaIn = true)
    (hw : ServiceSpec.wf fo tb s = true) (hcomp : nonStrict = false → ServiceSpec.complete tb s = true)
    (e : FErr) (h : mirrorBody fo tb nonStrict s.doc = .error e) :
    nonStrict = false ∧ e.isXml := by
  unfold ServiceSpec.wf at hw
  unfold ServiceSpec.complete at hcomp
  simp only [Bool.and_eq_true] at hw
  obtain ⟨_, hdoc⟩ := hw
  unfold mirrorBody at h
  cases hd : s.doc with
  | status n => rw [hd] at hdoc; cases hdoc
  | unparsable =>
    rw [hd] at h
    cases nonStrict <;> simp at h
    subst h; exact ⟨rfl, trivial⟩
  | foreign n t =>
    rw [hd] at h
    cases nonStrict <;> simp at h
    subst h; exact ⟨rfl, trivial⟩
  | scpd sp =>
    rw [hd] at h hdoc hcomp
    simp only at h hdoc hcomp
    obtain ⟨vs, as⟩ := sp
    cases vs with
    | none =>
      simp only at h
      cases nonStrict <;> simp at h
      subst h; exact ⟨rfl, trivial⟩
    | some l =>
      exfalso
      simp only [ScpdSpec.wf, Bool.and_eq_true, List.all_eq_true] at hdoc
      obtain ⟨⟨hvars, _⟩, hacts⟩ := hdoc
      simp only at h
      cases nonStrict with
      | true =>
        -- whatever is incomplete degrades to an empty service
        cases hvm : mapE (mirrorVar fo tb true) l with
        | error e' =>
          obtain ⟨v, hv, hve⟩ := mapE_err_mem _ l e' hvm
          have := mirrorVar_err fo tb true v hvia (hvars v hv) e' hve
          subst this
          simp [hvm, degrade, FErr.incomplete] at h
        | ok vars =>
          cases as with
          | none => simp [hvm, degrade] at h
          | some la =>
            cases ham : mapE (mirrorAction vars) la with
            | error e' =>
              obtain ⟨a, _, hae⟩ := mapE_err_mem _ la e' ham
              have := mirrorAction_err vars a e' hae
              subst this
              simp [hvm, ham, degrade, FErr.incomplete] at h
            | ok am => simp [hvm, ham, degrade] at h
      | false =>
        have hc := hcomp rfl
        simp only [ScpdSpec.complete, Bool.and_eq_true, List.all_eq_true] at hc
        obtain ⟨htyped, hrel⟩ := hc
        obtain ⟨vars, hvm⟩ := mapE_ok (mirrorVar fo tb false) l
          (fun v hv => mirrorVar_ok fo tb false v hvia (hvars v hv) (htyped v hv))
        cases as with
        | none => simp [hvm, degrade] at h
        | some la =>
          simp only [List.all_eq_true] at hrel
          obtain ⟨am, ham⟩ := mapE_ok (mirrorAction vars) la (fun a ha => by
            apply mirrorAction_ok
            intro g hg n d r hc
            have hga := hrel a ha g hg
            unfold completeArg at hc
            cases hgn : g.name <;> cases hgd : g.direction <;> cases hgr : g.related <;> simp [hgn, hgd, hgr] at hc
            obtain ⟨_, _, rfl⟩ := hc
            rw [hgr] at hga
            simp only [List.any_eq_true, beq_iff_eq] at hga
            obtain ⟨v, hv, hvn⟩ := hga
            rw [vars_names fo tb false l vars hvm]
            exact List.mem_map.mpr ⟨v, hv, hvn⟩)
          simp [hvm, ham, degrade] at h

theorem mirrorIcon_ok (base : Str) (i : IconSpec) (hw : IconSpec.wf i = true) : ∃ m, mirrorIcon base i = .ok m := by
  unfold IconSpec.wf at hw
  simp only [Bool.and_eq_true] at hw
  obtain ⟨⟨h1, h2⟩, h3⟩ := hw
  have hint : ∀ (o : Option Str), (match o with | some s => (pyInt? s).isSome | none => true) = true →
      ∃ n, optInt o = .ok n := by
    intro o ho
    cases o with
    | none => exact ⟨0, rfl⟩
    | some s =>
      simp only at ho
      obtain ⟨n, hn⟩ := Option.isSome_iff_exists.mp ho
      exact ⟨n, by simp [optInt, hn]⟩
  obtain ⟨a, ha⟩ := hint i.width h1
  obtain ⟨b, hb⟩ := hint i.height h2
  obtain ⟨c, hc⟩ := hint i.depth h3
  refine ⟨{ mimetype := i.mimetype.getD [], width := a, height := b, depth := c, url := absoluteUrl base (i.url.getD []) }, ?_⟩
  simp only [mirrorIcon, iconOf, ha, hb, hc]

mutual
/-- on a well-formed description (in strict mode: with complete service descriptions) `mirror` refuses
    only in strict mode, and only with an XML error -/
theorem mirror_error : ∀ (d : DeviceSpec) (nonStrict : Bool) (base : Str) (e : FErr), tb.defaultViaIn = true →
    d.wf fo tb base = true → (nonStrict = false → ∀ s ∈ d.allServices, ServiceSpec.complete tb s = true) →
    mirror fo tb nonStrict base d = .error e → nonStrict = false ∧ e.isXml
  | .mk info icons svcs emb, nonStrict, base, e, hvia, hw, hc, h => by
    simp only [DeviceSpec.wf, Bool.and_eq_true, List.all_eq_true] at hw
    obtain ⟨⟨⟨⟨⟨⟨⟨⟨_, _⟩, hic⟩, hsv⟩, _⟩, _⟩, hemb⟩, _⟩, _⟩ := hw
    rw [mirror] at h
    obtain ⟨ic, hicm⟩ := mapE_ok (mirrorIcon base) icons (fun i hi => mirrorIcon_ok base i (hic i hi))
    simp only [hicm] at h
    cases hsm : mapE (mirrorService fo tb nonStrict base) svcs with
    | error e' =>
      simp only [hsm, Except.error.injEq] at h
      subst h
      obtain ⟨s, hs, hse⟩ := mapE_err_mem _ svcs e' hsm
      unfold mirrorService svcOf at hse
      cases hb : mirrorBody fo tb nonStrict s.doc with
      | ok r => simp [hb] at hse
      | error e'' =>
        simp only [hb, Except.error.injEq] at hse
        subst hse
        exact mirrorBody_error fo tb nonStrict s hvia (hsv s hs)
          (fun hn => hc hn s (by simp [DeviceSpec.allServices, hs])) e'' hb
    | ok sv =>
      simp only [hsm] at h
      cases hem : mirrors fo tb nonStrict base emb with
      | error e' =>
        simp only [hem, Except.error.injEq] at h
        subst h
        exact mirrors_error emb nonStrict base e' hvia hemb
          (fun hn s hs => hc hn s (by simp [DeviceSpec.allServices, hs])) hem
      | ok em => simp [hem] at h
theorem mirrors_error : ∀ (l : List DeviceSpec) (nonStrict : Bool) (base : Str) (e : FErr), tb.defaultViaIn = true →
    wfs fo tb base l = true → (nonStrict = false → ∀ s ∈ allServicesL l, ServiceSpec.complete tb s = true) →
    mirrors fo tb nonStrict base l = .error e → nonStrict = false ∧ e.isXml
  | [], _, _, _, _, _, _, h => by simp [mirrors] at h
  | d :: r, nonStrict, base, e, hvia, hw, hc, h => by
    simp only [wfs, Bool.and_eq_true] at hw
    rw [mirrors] at h
    cases hd : mirror fo tb nonStrict base d with
    | error e' =>
      simp only [hd, Except.error.injEq] at h
      subst h
      exact mirror_error d nonStrict base e' hvia hw.1 (fun hn s hs => hc hn s (by simp [allServicesL, hs])) hd
    | ok m =>
      simp only [hd] at h
      cases hr : mirrors fo tb nonStrict base r with
      | error e' =>
        simp only [hr, Except.error.injEq] at h
        subst h
        exact mirrors_error r nonStrict base e' hvia hw.2 (fun hn s hs => hc hn s (by simp [allServicesL, hs])) hr
      | ok ms => simp [hr] at h
end

end
end Upnp.C05
