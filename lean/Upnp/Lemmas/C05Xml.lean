/-
  C05 lemmas: `find` / `findall` / `findtext` on the children lists `render*` builds
  (`optLeaf` segments, `wrap`ped containers).
-/
import Upnp.Spec.C05
namespace Upnp.C05
open Upnp Upnp.C08

@[simp] theorem isNamed_node (n n' : Ns) (t t' : Tag) (a : Option Str) (x : Option Str) (c : List Xml) :
    Xml.isNamed n t (.node n' t' a x c) = (n' == n && t' == t) := rfl

@[simp] theorem isNamed_leaf (n n' : Ns) (t t' : Tag) (s : Str) :
    Xml.isNamed n t (leaf n' t' s) = (n' == n && t' == t) := rfl

theorem leaf_text (n : Ns) (t : Tag) (s : Str) : ((leaf n t s).text).getD [] = s := by
  unfold leaf
  by_cases h : s.isEmpty
  · simp [Xml.text, h]; exact List.isEmpty_iff.mp h
  · simp [Xml.text, h]

/-- looking for `t` in `optLeaf n t' o ++ rest`, different tag: skip the segment -/
theorem find_optLeaf_ne {n : Ns} {t t' : Tag} (h : t' ≠ t) (o : Option Str) (rest : List Xml) :
    (optLeaf n t' o ++ rest).find? (Xml.isNamed n t) = rest.find? (Xml.isNamed n t) := by
  cases o <;> simp [optLeaf, h]

/-- same tag: the leaf if present, else continue -/
theorem find_optLeaf_eq {n : Ns} {t : Tag} (o : Option Str) (rest : List Xml) :
    (optLeaf n t o ++ rest).find? (Xml.isNamed n t)
      = match o with
        | some s => some (leaf n t s)
        | none => rest.find? (Xml.isNamed n t) := by
  cases o <;> simp [optLeaf]

theorem find_wrap_ne {n : Ns} {t t' : Tag} (h : t' ≠ t) (c : List Xml) (rest : List Xml) :
    (wrap n t' c ++ rest).find? (Xml.isNamed n t) = rest.find? (Xml.isNamed n t) := by
  unfold wrap; split <;> simp [h]

theorem filter_optLeaf_ne {n : Ns} {t t' : Tag} (h : t' ≠ t) (o : Option Str) (rest : List Xml) :
    (optLeaf n t' o ++ rest).filter (Xml.isNamed n t) = rest.filter (Xml.isNamed n t) := by
  cases o <;> simp [optLeaf, h]

theorem filter_wrap_ne {n : Ns} {t t' : Tag} (h : t' ≠ t) (c : List Xml) (rest : List Xml) :
    (wrap n t' c ++ rest).filter (Xml.isNamed n t) = rest.filter (Xml.isNamed n t) := by
  unfold wrap; split <;> simp [h]

theorem filter_wrap_eq {n : Ns} {t : Tag} (c : List Xml) (rest : List Xml) :
    (wrap n t c ++ rest).filter (Xml.isNamed n t)
      = (if c.isEmpty then [] else [Xml.node n t none none c]) ++ rest.filter (Xml.isNamed n t) := by
  unfold wrap; split <;> simp

/-- all children carry the same name: `filter` keeps them all -/
theorem filter_all_named {n : Ns} {t : Tag} (l : List Xml) (h : ∀ x ∈ l, Xml.isNamed n t x = true) :
    l.filter (Xml.isNamed n t) = l := List.filter_eq_self.mpr h

/-- service description element: the five texts -/
theorem findtext_service (s : ServiceSpec) :
    (renderService s).findtext .device .serviceType = s.serviceType ∧
    (renderService s).findtext .device .serviceId = s.serviceId ∧
    (renderService s).findtext .device .SCPDURL = s.scpdURL ∧
    (renderService s).findtext .device .controlURL = s.controlURL ∧
    (renderService s).findtext .device .eventSubURL = s.eventSubURL := by
  obtain ⟨a, b, c, d, e, doc⟩ := s
  refine ⟨?_, ?_, ?_, ?_, ?_⟩ <;>
    cases a <;> cases b <;> cases c <;> cases d <;> cases e <;>
    simp [renderService, Xml.findtext, Xml.find, Xml.children, optLeaf, leaf_text]

end Upnp.C05
