/-
  C06 lemmas: `xmlDecodeAttr` undoes `quoteattr` for EVERY string (markup, both quote characters,
  TAB / LF / CR included), and the chosen quote character never occurs inside the quoted value.
-/
import Upnp.Model.C06Soap
import Upnp.Lemmas.C06Text
namespace Upnp.C06

/-- `attrTable` plus the `&quot;` replacement of the third branch of `quoteattr` -/
def attrTableQ : List (Char × Str) := attrTable ++ [('"', "&quot;".toList)]

/-- the shapes `escapeChar` can produce with `attrTable` / `attrTableQ` -/
theorem escapeChar_attr_cases (q : Bool) (c : Char) :
    let tbl := if q then attrTableQ else attrTable
    (c = '&' ∧ escapeChar tbl c = "&amp;".toList) ∨ (c = '<' ∧ escapeChar tbl c = "&lt;".toList)
    ∨ (c = '>' ∧ escapeChar tbl c = "&gt;".toList) ∨ (c = '\n' ∧ escapeChar tbl c = "&#10;".toList)
    ∨ (c = '\r' ∧ escapeChar tbl c = "&#13;".toList) ∨ (c = '\t' ∧ escapeChar tbl c = "&#9;".toList)
    ∨ (q = true ∧ c = '"' ∧ escapeChar tbl c = "&quot;".toList)
    ∨ (c ≠ '&' ∧ c ≠ '<' ∧ c ≠ '>' ∧ c ≠ '\n' ∧ c ≠ '\r' ∧ c ≠ '\t' ∧ (q = true → c ≠ '"')
        ∧ escapeChar tbl c = [c]) := by
  intro tbl
  by_cases h1 : c = '&'
  · subst h1; left; cases q <;> exact ⟨rfl, by decide⟩
  by_cases h2 : c = '<'
  · subst h2; right; left; cases q <;> exact ⟨rfl, by decide⟩
  by_cases h3 : c = '>'
  · subst h3; right; right; left; cases q <;> exact ⟨rfl, by decide⟩
  by_cases h4 : c = '\n'
  · subst h4; right; right; right; left; cases q <;> exact ⟨rfl, by decide⟩
  by_cases h5 : c = '\r'
  · subst h5; right; right; right; right; left; cases q <;> exact ⟨rfl, by decide⟩
  by_cases h6 : c = '\t'
  · subst h6; right; right; right; right; right; left; cases q <;> exact ⟨rfl, by decide⟩
  have b4 : (c == '\n') = false := by simpa using h4
  have b5 : (c == '\r') = false := by simpa using h5
  have b6 : (c == '\t') = false := by simpa using h6
  by_cases h7 : c = '"'
  · subst h7
    cases q
    · right; right; right; right; right; right; right
      refine ⟨by decide, by decide, by decide, by decide, by decide, by decide, by simp, by decide⟩
    · right; right; right; right; right; right; left
      exact ⟨rfl, rfl, by decide⟩
  · have b7 : (c == '"') = false := by simpa using h7
    right; right; right; right; right; right; right
    refine ⟨h1, h2, h3, h4, h5, h6, fun _ => h7, ?_⟩
    cases q <;> simp [tbl, escapeChar, h1, h2, h3, attrTable, attrTableQ, List.lookup, b4, b5, b6, b7]

theorem decodeAttr_escapeChar (q : Bool) (c : Char) (r : Str) :
    xmlDecodeAttr (escapeChar (if q then attrTableQ else attrTable) c ++ r) = (xmlDecodeAttr r).map (c :: ·) := by
  rcases escapeChar_attr_cases q c with h | h | h | h | h | h | h | h
  · rw [h.2, h.1]; simp [xmlDecodeAttr]
  · rw [h.2, h.1]; simp [xmlDecodeAttr]
  · rw [h.2, h.1]; simp [xmlDecodeAttr]
  · rw [h.2, h.1]; simp [xmlDecodeAttr]
  · rw [h.2, h.1]; simp [xmlDecodeAttr]
  · rw [h.2, h.1]; simp [xmlDecodeAttr]
  · rw [h.2.2, h.2.1]; simp [xmlDecodeAttr]
  · obtain ⟨h1, h2, _, h4, h5, h6, _, he⟩ := h
    rw [he]
    show xmlDecodeAttr (c :: r) = _
    rw [xmlDecodeAttr]
    all_goals simp_all

theorem decodeAttr_escape_append (q : Bool) (s r : Str) :
    xmlDecodeAttr (escape (if q then attrTableQ else attrTable) s ++ r) = (xmlDecodeAttr r).map (s ++ ·) := by
  induction s with
  | nil => simp [escape]
  | cons c t ih =>
    have : escape (if q then attrTableQ else attrTable) (c :: t) ++ r
        = escapeChar (if q then attrTableQ else attrTable) c ++ (escape (if q then attrTableQ else attrTable) t ++ r) := by
      simp [escape]
    rw [this, decodeAttr_escapeChar, ih]
    cases xmlDecodeAttr r <;> simp

theorem decodeAttr_escape (q : Bool) (s : Str) :
    xmlDecodeAttr (escape (if q then attrTableQ else attrTable) s) = some s := by
  have := decodeAttr_escape_append q s []
  simpa [xmlDecodeAttr] using this

/-- a character that no entity contains occurs in the escaped text only if it occurs in the source -/
theorem not_mem_escape (q : Bool) (x : Char) (hx : x = '"' ∨ x = '\'') (s : Str)
    (hs : x ∉ s ∨ (q = true ∧ x = '"')) : x ∉ escape (if q then attrTableQ else attrTable) s := by
  induction s with
  | nil => simp [escape]
  | cons c t ih =>
    have e : escape (if q then attrTableQ else attrTable) (c :: t)
        = escapeChar (if q then attrTableQ else attrTable) c ++ escape (if q then attrTableQ else attrTable) t := by
      simp [escape]
    rw [e, List.mem_append]
    have hs' : x ∉ t ∨ (q = true ∧ x = '"') := hs.imp (fun h hm => h (List.mem_cons_of_mem _ hm)) id
    rintro (hm | hm)
    · rcases escapeChar_attr_cases q c with h | h | h | h | h | h | h | h
      · rw [h.2] at hm; rcases hx with rfl | rfl <;> simp at hm
      · rw [h.2] at hm; rcases hx with rfl | rfl <;> simp at hm
      · rw [h.2] at hm; rcases hx with rfl | rfl <;> simp at hm
      · rw [h.2] at hm; rcases hx with rfl | rfl <;> simp at hm
      · rw [h.2] at hm; rcases hx with rfl | rfl <;> simp at hm
      · rw [h.2] at hm; rcases hx with rfl | rfl <;> simp at hm
      · rw [h.2.2] at hm; rcases hx with rfl | rfl <;> simp at hm
      · obtain ⟨_, _, _, _, _, _, h7, he⟩ := h
        rw [he] at hm
        simp only [List.mem_singleton] at hm
        rcases hs with hs | hs
        · exact hs (by simp [hm])
        · exact h7 hs.1 (hm ▸ hs.2)
    · exact ih hs' hm

theorem replaceQuot_escape (s : Str) : replaceQuot (escape attrTable s) = escape attrTableQ s := by
  induction s with
  | nil => rfl
  | cons c t ih =>
    have e1 : escape attrTable (c :: t) = escapeChar attrTable c ++ escape attrTable t := by simp [escape]
    have e2 : escape attrTableQ (c :: t) = escapeChar attrTableQ c ++ escape attrTableQ t := by simp [escape]
    have hr : ∀ a b : Str, replaceQuot (a ++ b) = replaceQuot a ++ replaceQuot b := by
      intro a b; simp [replaceQuot]
    rw [e1, e2, hr, ih]
    congr 1
    have hF := escapeChar_attr_cases false c
    have hT := escapeChar_attr_cases true c
    simp only [Bool.false_eq_true, if_false, if_true] at hF hT
    by_cases hq : c = '"'
    · subst hq; decide
    · rcases hF with h | h | h | h | h | h | h | h
      · rw [h.1]; decide
      · rw [h.1]; decide
      · rw [h.1]; decide
      · rw [h.1]; decide
      · rw [h.1]; decide
      · rw [h.1]; decide
      · exact absurd h.1 (by simp)
      · obtain ⟨h1, h2, h3, h4, h5, h6, _, he⟩ := h
        rcases hT with g | g | g | g | g | g | g | g
        · exact absurd g.1 h1
        · exact absurd g.1 h2
        · exact absurd g.1 h3
        · exact absurd g.1 h4
        · exact absurd g.1 h5
        · exact absurd g.1 h6
        · exact absurd g.2.1 hq
        · rw [he, g.2.2.2.2.2.2.2]; simp [replaceQuot, hq]

/-- `quoteattr s` is `q ++ v ++ q` for a quote character `q` that does not occur in `v`, and the
    receiving parser decodes `v` to exactly `s` — for every string `s` -/
theorem quoteattr_spec (s : Str) :
    ∃ (q : Char) (v : Str), (q = '"' ∨ q = '\'') ∧ quoteattr s = q :: v ++ [q] ∧ q ∉ v
      ∧ xmlDecodeAttr v = some s := by
  unfold quoteattr
  simp only
  by_cases h1 : (escape attrTable s).contains '"' = true
  · by_cases h2 : (escape attrTable s).contains '\'' = true
    · simp only [h1, h2, if_true]
      refine ⟨'"', replaceQuot (escape attrTable s), Or.inl rfl, rfl, ?_, ?_⟩
      · rw [replaceQuot_escape]
        exact not_mem_escape true '"' (Or.inl rfl) s (Or.inr ⟨rfl, rfl⟩)
      · rw [replaceQuot_escape]; exact decodeAttr_escape true s
    · simp only [h1, h2, if_true, Bool.false_eq_true, if_false]
      refine ⟨'\'', escape attrTable s, Or.inr rfl, rfl, ?_, decodeAttr_escape false s⟩
      simpa using h2
  · simp only [h1, Bool.false_eq_true, if_false]
    refine ⟨'"', escape attrTable s, Or.inl rfl, rfl, ?_, decodeAttr_escape false s⟩
    simpa using h1

/-- the recogniser is a left inverse of the renderer: the envelope the client emits reads back
    as exactly the action name, namespace and (name, text) pairs it was built from — for EVERY
    service type (it travels through `quoteattr`) -/
theorem readEnvelope_render (name st : Str) (args : List (Str × Str))
    (hn : ' ' ∉ name) (ha : ∀ p ∈ args, nameOk p.1 = true) :
    readEnvelope (renderBody crTable true name st args) = some { action := name, ns := st, args := args } := by
  obtain ⟨q, v, hq, hqa, hnv, hdec⟩ := quoteattr_spec st
  unfold readEnvelope renderBody nsAttr
  simp only [if_true, hqa, List.append_assoc, List.cons_append]
  rw [stripPrefix_append]
  simp only [Option.bind_eq_bind, Option.bind_some]
  rw [splitAt1_append ' ' name _ hn]
  simp only [Option.bind_some]
  rw [stripPrefix_append]
  simp only [Option.bind_some]
  have hqb : (decide (q = '"') || decide (q = '\'')) = true := by
    rcases hq with rfl | rfl <;> decide
  simp only [hqb, if_true, Option.bind_some]
  rw [splitAt1_append q v _ hnv]
  simp only [Option.bind_some, hdec, List.nil_append]
  have h1 : stripPrefix ['>'] ('>' :: (renderArgs crTable args ++ (suf1 ++ (name ++ suf2))))
      = some (renderArgs crTable args ++ (suf1 ++ (name ++ suf2))) := by simp [stripPrefix]
  rw [h1]
  simp only [Option.bind_some]
  have hclose : startsClose (suf1 ++ (name ++ suf2)) = true := by simp [suf1, startsClose]
  have hfuel : args.length < (renderArgs crTable args ++ (suf1 ++ (name ++ suf2))).length + 1 := by
    have := length_le_renderArgs args
    simp only [List.length_append]; omega
  rw [readArgs_render args _ _ hfuel ha hclose]
  simp only [Option.bind_some]
  have h2 : stripPrefix (suf1 ++ (name ++ suf2)) (suf1 ++ (name ++ suf2)) = some [] := by
    have := stripPrefix_append (suf1 ++ (name ++ suf2)) []
    simpa using this
  rw [h2]
  simp

end Upnp.C06
