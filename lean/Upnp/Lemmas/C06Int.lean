/-
  C06 lemma: Python `int(str(n)) == n` for every integer, on the model's `decOfInt` / `pyInt?`.
-/
import Upnp.Model.C06Val
namespace Upnp.C06

theorem digitChar_props : ∀ d, d < 10 →
    (digitVal (digitChar d) = some d ∧ digitChar d ≠ '_' ∧ isPySpace (digitChar d) = false
      ∧ digitChar d ≠ '+' ∧ digitChar d ≠ '-') := by decide

def shiftAcc (acc n : Nat) : Nat :=
  if _h : n < 10 then acc * 10 + n else shiftAcc acc (n / 10) * 10 + n % 10
decreasing_by omega

theorem parse_natDigits (n : Nat) : ∀ (acc : Nat) (pd : Bool) (r : Str),
    parseNatAux (natDigits n ++ r) acc pd = parseNatAux r (shiftAcc acc n) true := by
  induction n using Nat.strongRecOn with
  | _ n ih =>
    intro acc pd r
    rw [natDigits, shiftAcc]
    by_cases h : n < 10
    · obtain ⟨h1, h2, _⟩ := digitChar_props n h
      simp [h, parseNatAux, h1, h2]
    · have hm : n % 10 < 10 := Nat.mod_lt _ (by omega)
      obtain ⟨h1, h2, _⟩ := digitChar_props (n % 10) hm
      simp only [h, dite_false, List.append_assoc]
      rw [ih (n / 10) (by omega)]
      simp [parseNatAux, h1, h2]

theorem shiftAcc_zero (n : Nat) : shiftAcc 0 n = n := by
  induction n using Nat.strongRecOn with
  | _ n ih =>
    rw [shiftAcc]
    by_cases h : n < 10
    · simp [h]
    · simp only [h, dite_false]
      rw [ih (n / 10) (by omega)]; omega

theorem natDigits_all (n : Nat) : ∀ c ∈ natDigits n, ∃ d, d < 10 ∧ c = digitChar d := by
  induction n using Nat.strongRecOn with
  | _ n ih =>
    intro c hc
    rw [natDigits] at hc
    by_cases h : n < 10
    · simp [h] at hc; exact ⟨n, h, hc⟩
    · simp only [h, dite_false, List.mem_append, List.mem_singleton] at hc
      rcases hc with hc | hc
      · exact ih (n / 10) (by omega) c hc
      · exact ⟨n % 10, Nat.mod_lt _ (by omega), hc⟩

theorem natDigits_ne_nil (n : Nat) : natDigits n ≠ [] := by
  rw [natDigits]; by_cases h : n < 10 <;> simp [h]

theorem dropWhile_none {p : Char → Bool} (l : Str) (h : ∀ c ∈ l, p c = false) : l.dropWhile p = l := by
  cases l with
  | nil => rfl
  | cons a r => simp [List.dropWhile, h a (by simp)]

theorem strip_of_no_space (l : Str) (h : ∀ c ∈ l, isPySpace c = false) : strip l = l := by
  unfold strip lstrip
  rw [dropWhile_none l h, dropWhile_none l.reverse (fun c hc => h c (by simpa using hc))]
  simp

theorem parseNat_natDigits (n : Nat) : parseNatAux (natDigits n) 0 false = some n := by
  have := parse_natDigits n 0 false []
  simp only [List.append_nil] at this
  rw [this, shiftAcc_zero]; simp [parseNatAux]

/-- `int(str(n)) == n` for every integer -/
theorem pyInt_decOfInt (n : Int) : pyInt? (decOfInt n) = some n := by
  cases n with
  | ofNat k =>
    have hall := natDigits_all k
    have hs : strip (natDigits k) = natDigits k :=
      strip_of_no_space _ (fun c hc => by obtain ⟨d, hd, rfl⟩ := hall c hc; exact (digitChar_props d hd).2.2.1)
    unfold pyInt? decOfInt
    rw [hs]
    match hk : natDigits k with
    | [] => exact absurd hk (natDigits_ne_nil k)
    | c :: r =>
      obtain ⟨d, hd, rfl⟩ := hall c (by simp [hk])
      obtain ⟨_, _, _, hp, hm⟩ := digitChar_props d hd
      have := parseNat_natDigits k
      rw [hk] at this
      split
      · rename_i heq; simp at heq; exact absurd heq.1 hp
      · rename_i heq; simp at heq; exact absurd heq.1 hm
      · simp [this]
  | negSucc k =>
    have hall := natDigits_all (k + 1)
    have hs : strip ('-' :: natDigits (k + 1)) = '-' :: natDigits (k + 1) :=
      strip_of_no_space _ (fun c hc => by
        rcases List.mem_cons.mp hc with rfl | hc
        · decide
        · obtain ⟨d, hd, rfl⟩ := hall c hc; exact (digitChar_props d hd).2.2.1)
    unfold pyInt? decOfInt
    rw [hs]
    simp [parseNat_natDigits, Int.negSucc_eq]

end Upnp.C06
