/-
  C06 lemmas towards `c06_model_ok`: the schema chain is the declarative acceptance predicate,
  validation refuses exactly the unaccepted assignments, every accepted value's wire text decodes
  back to it, and the tree read back from the rendered envelope passes `envelopeOk`.
-/
import Upnp.Spec.C06
import Upnp.Lemmas.C06Text
import Upnp.Lemmas.C06Attr
import Upnp.Lemmas.C06Int
namespace Upnp.C06

/-- a type row whose `out` coercer is decodable by its `in` coercer for every value of its type
    (decidable; checked over the generated table in `Props/C06.lean`) -/
def rowSound (row : TypeRow) : Bool :=
  match row.ty, row.inn, row.out with
  | .int, .int, .strInt => true
  | .str, .str, .str => true
  | .float, .float, .str => true
  | .bool, .boolIn yes, .boolOut t f => yes.contains (lowerStr t) && !yes.contains (lowerStr f)
  | .date, .dateTime, .iso0 => true
  | .datetime, .dateTime, .isoTSec => true
  | .time, .dateTime, .isoSec => true
  | _, _, _ => false

/-- the oracle hypotheses for one supplied value: `float(repr(x)) == x`,
    `parse_date_time(v.isoformat()) == v` -/
def oracleOk (O : Oracles) : PyVal → Prop
  | .float r x => O.parseFloat r = some (some (.float r x))
  | .dt c a iso => O.parseDt iso = some (some (.dt c a iso))
  | _ => True

theorem schemaOk_eq_accepts (O : Oracles) (strict : Bool) (d : VarDecl) (v : PyVal) :
    schemaOk O strict d v = accepts O strict d v := by
  unfold schemaOk accepts
  cases h1 : isInstance v d.row.ty <;> cases h2 : d.row.needTz <;> cases h3 : awareOf v <;>
    cases strict <;> simp
  all_goals (cases allowedOk O d v <;> try simp)
  all_goals (rename_i b; cases b <;> simp)

theorem validate_accepted (O : Oracles) (strict : Bool) (kw : Kwargs) :
    ∀ ds : List ArgDecl, allAccepted O strict ds kw = some true → validateArgs O strict ds kw = .ok () := by
  intro ds
  induction ds with
  | nil => intro _; rfl
  | cons d r ih =>
    intro h
    unfold allAccepted at h
    unfold validateArgs
    cases hl : kw.lookup d.name with
    | none => simp [hl] at h
    | some v =>
      simp only [hl] at h ⊢
      rw [schemaOk_eq_accepts]
      cases ha : accepts O strict d.var v with
      | none => simp [ha] at h
      | some b =>
        cases b with
        | false => simp [ha] at h
        | true => simp only [ha] at h ⊢; exact ih h

theorem validate_refused (O : Oracles) (strict : Bool) (kw : Kwargs) :
    ∀ ds : List ArgDecl, allAccepted O strict ds kw = some false →
      validateArgs O strict ds kw = .error .upnpError ∨ validateArgs O strict ds kw = .error .upnpValueError := by
  intro ds
  induction ds with
  | nil => intro h; simp [allAccepted] at h
  | cons d r ih =>
    intro h
    unfold allAccepted at h
    unfold validateArgs
    cases hl : kw.lookup d.name with
    | none => left; rfl
    | some v =>
      simp only [hl] at h ⊢
      rw [schemaOk_eq_accepts]
      cases ha : accepts O strict d.var v with
      | none => simp [ha] at h
      | some b =>
        cases b with
        | false => right; rfl
        | true => simp only [ha] at h ⊢; exact ih h

theorem accepted_isInstance (O : Oracles) (strict : Bool) (d : VarDecl) (v : PyVal)
    (h : accepts O strict d v = some true) : isInstance v d.row.ty = true := by
  unfold accepts at h
  cases h1 : isInstance v d.row.ty with
  | true => rfl
  | false => simp [h1] at h

theorem FNum.eq_self_or_nan (x : FNum) : FNum.eq x x = true ∨ x = .nan := by
  cases x <;> simp [FNum.eq]

/-- every accepted value is rendered, and its wire text decodes (declared `in` coercion) to it -/
theorem roundtrip (O : Oracles) (row : TypeRow) (v : PyVal) (hrow : rowSound row = true)
    (hty : isInstance v row.ty = true) (hO : oracleOk O v) :
    ∃ t, coerceUpnp row v = .ok t ∧ decodesTo O row t v = true := by
  obtain ⟨name, ty, tz, inn, out⟩ := row
  simp only [rowSound] at hrow
  simp only at hty
  cases ty <;> cases inn <;> cases out <;> simp at hrow <;> cases v <;> simp [isInstance] at hty
  -- int row
  · rename_i n
    refine ⟨decOfInt n, rfl, ?_⟩
    simp [decodesTo, coercePython, pyInt_decOfInt, pyEq, PyVal.num?, FNum.eq]
  · rename_i b
    cases b
    · refine ⟨['0'], rfl, ?_⟩
      have : pyInt? ['0'] = some 0 := by decide
      simp [decodesTo, coercePython, this, pyEq, PyVal.num?, FNum.eq]
    · refine ⟨['1'], rfl, ?_⟩
      have : pyInt? ['1'] = some 1 := by decide
      simp [decodesTo, coercePython, this, pyEq, PyVal.num?, FNum.eq]
  -- float row
  · rename_i r x
    refine ⟨r, rfl, ?_⟩
    simp only [oracleOk] at hO
    simp only [decodesTo, coercePython, hO, pyEq, PyVal.num?]
    rcases FNum.eq_self_or_nan x with h | h
    · simp [h]
    · subst h; simp [isNanVal]
  -- str row
  · rename_i s
    exact ⟨s, rfl, by simp [decodesTo, coercePython, pyEq, PyVal.num?]⟩
  -- bool row
  · rename_i yes t f b
    cases b
    · refine ⟨f, by simp [coerceUpnp, truthy], ?_⟩
      simp [decodesTo, coercePython, pyEq, PyVal.num?, FNum.eq, hrow.2]
    · refine ⟨t, by simp [coerceUpnp, truthy], ?_⟩
      simp [decodesTo, coercePython, pyEq, PyVal.num?, FNum.eq, hrow.1]
  -- date row: date or datetime value
  · rename_i c a iso
    cases c <;> simp at hty
    all_goals
      refine ⟨iso, rfl, ?_⟩
      simp only [oracleOk] at hO
      simp [decodesTo, coercePython, hO, pyEq, PyVal.num?]
  -- datetime row
  · rename_i c a iso
    cases c <;> simp at hty
    refine ⟨iso, rfl, ?_⟩
    simp only [oracleOk] at hO
    simp [decodesTo, coercePython, hO, pyEq, PyVal.num?]
  -- time row
  · rename_i c a iso
    cases c <;> simp at hty
    refine ⟨iso, rfl, ?_⟩
    simp only [oracleOk] at hO
    simp [decodesTo, coercePython, hO, pyEq, PyVal.num?]

/-- the leaf element an XML parser builds for `<name>text</name>` -/
def leaf (p : Str × Str) : Xml := .node p.1 (if p.2.isEmpty then none else some p.2) []

theorem leaf_text (p : Str × Str) : (leaf p).text.getD [] = p.2 := by
  unfold leaf Xml.text
  cases h : p.2 with
  | nil => simp
  | cons c r => simp

/-- accepted assignments are rendered argument by argument, and the rendered leaves pass `argsOk` -/
theorem coerceArgs_ok (O : Oracles) (strict : Bool) (kw : Kwargs) :
    ∀ ds : List ArgDecl, allAccepted O strict ds kw = some true →
      (∀ d ∈ ds, rowSound d.var.row = true) →
      (∀ d ∈ ds, ∀ v, kw.lookup d.name = some v → oracleOk O v) →
      ∃ args, coerceArgs ds kw = .ok args ∧ args.map (·.1) = ds.map (·.name)
        ∧ argsOk O ds kw (args.map leaf) = true := by
  intro ds
  induction ds with
  | nil => intro _ _ _; exact ⟨[], rfl, rfl, rfl⟩
  | cons d r ih =>
    intro h hrow hO
    unfold allAccepted at h
    cases hl : kw.lookup d.name with
    | none => simp [hl] at h
    | some v =>
      simp only [hl] at h
      cases ha : accepts O strict d.var v with
      | none => simp [ha] at h
      | some b =>
        cases b with
        | false => simp [ha] at h
        | true =>
          simp only [ha] at h
          obtain ⟨args, hc, hn, hok⟩ := ih h (fun d' hd' => hrow d' (by simp [hd']))
            (fun d' hd' => hO d' (by simp [hd']))
          obtain ⟨t, ht, hdec⟩ := roundtrip O d.var.row v (hrow d (by simp))
            (accepted_isInstance O strict d.var v ha) (hO d (by simp) v hl)
          refine ⟨(d.name, t) :: args, ?_, ?_, ?_⟩
          · unfold coerceArgs; simp [hl, ht, hc]
          · simp [hn]
          · simp only [List.map_cons, argsOk, hl]
            have h1 : (leaf (d.name, t)).tag = d.name := rfl
            have h2 : (leaf (d.name, t)).children = [] := rfl
            rw [h1, h2, leaf_text]
            simp [hdec, hok]

end Upnp.C06

namespace Upnp.C06

/-- a character allowed inside an XML name (conservative: ASCII letters, digits, `_ - .`, and
    everything from U+00C0 on except the few non-name code points below U+0370) -/
def isNameChar (c : Char) : Bool :=
  c.isAlphanum || c == '_' || c == '-' || c == '.'
  || (0xC0 ≤ c.toNat && c.toNat != 0xD7 && c.toNat != 0xF7)

def isNameStart (c : Char) : Bool := isNameChar c && !c.isDigit && c != '-' && c != '.'

/-- **domain predicate for action and argument names**: they are written as element names
    (`<u:Name …>`, `<Name>`), where no escaping exists — a name with markup cannot be sent at all.
    (UDA: names are XML names without hyphen; the device description is the source.) -/
def xmlNameOk : Str → Bool
  | [] => false
  | c :: r => isNameStart c && r.all isNameChar

theorem nameChar_facts (c : Char) (h : isNameChar c = true) : c ≠ ' ' ∧ c ≠ '>' ∧ c ≠ '/' := by
  refine ⟨?_, ?_, ?_⟩ <;> (intro e; subst e; revert h; decide)

theorem xmlNameOk_nameOk (n : Str) (h : xmlNameOk n = true) : nameOk n = true ∧ ' ' ∉ n := by
  cases n with
  | nil => simp [xmlNameOk] at h
  | cons c r =>
    simp only [xmlNameOk, Bool.and_eq_true, List.all_eq_true] at h
    have hc : isNameChar c = true := by
      have := h.1; simp only [isNameStart, Bool.and_eq_true] at this; exact this.1.1.1
    have hall : ∀ x ∈ c :: r, isNameChar x = true := by
      intro x hx
      rcases List.mem_cons.mp hx with rfl | hx
      · exact hc
      · exact h.2 x hx
    refine ⟨?_, fun hm => (nameChar_facts _ (hall _ hm)).1 rfl⟩
    simp only [nameOk, Bool.and_eq_true, bne_iff_ne, ne_eq, Bool.not_eq_true', List.contains_eq_mem,
      decide_eq_false_iff_not]
    exact ⟨(nameChar_facts c hc).2.2, fun hm => (nameChar_facts _ (hall _ hm)).2.1 rfl⟩

/-- hypotheses of the main theorem (all satisfiable; see the example in `Props/C06.lean`).
    There is NO hypothesis on the service type: any string is a legal namespace name once quoted. -/
structure Hyp (O : Oracles) (a : ActionDecl) (kw : Kwargs) : Prop where
  url : (urljoin a.deviceUrl a.controlUrl).isSome = true
  action : xmlNameOk a.name = true
  names : ∀ d ∈ a.inArgs, xmlNameOk d.name = true
  rows : ∀ d ∈ a.inArgs, rowSound d.var.row = true
  oracle : ∀ d ∈ a.inArgs, ∀ v, kw.lookup d.name = some v → oracleOk O v

theorem header_soapaction (x y z : Str) :
    header? [("SOAPAction".toList, x), ("Host".toList, y), ("Content-Type".toList, z)] "SOAPAction".toList = some x := by
  have h1 : (lowerStr "SOAPAction".toList == lowerStr "SOAPAction".toList) = true := by decide
  have h2 : (lowerStr "Host".toList == lowerStr "SOAPAction".toList) = false := by decide
  have h3 : (lowerStr "Content-Type".toList == lowerStr "SOAPAction".toList) = false := by decide
  simp only [header?, List.filter, h1, h2, h3]

theorem header_host (x y z : Str) :
    header? [("SOAPAction".toList, x), ("Host".toList, y), ("Content-Type".toList, z)] "Host".toList = some y := by
  have h1 : (lowerStr "SOAPAction".toList == lowerStr "Host".toList) = false := by decide
  have h2 : (lowerStr "Host".toList == lowerStr "Host".toList) = true := by decide
  have h3 : (lowerStr "Content-Type".toList == lowerStr "Host".toList) = false := by decide
  simp only [header?, List.filter, h1, h2, h3]

theorem header_ctype (x y z : Str) :
    header? [("SOAPAction".toList, x), ("Host".toList, y), ("Content-Type".toList, z)] "Content-Type".toList = some z := by
  have h1 : (lowerStr "SOAPAction".toList == lowerStr "Content-Type".toList) = false := by decide
  have h2 : (lowerStr "Host".toList == lowerStr "Content-Type".toList) = false := by decide
  have h3 : (lowerStr "Content-Type".toList == lowerStr "Content-Type".toList) = true := by decide
  simp only [header?, List.filter, h1, h2, h3]

theorem envelopeOk_tree (O : Oracles) (a : ActionDecl) (kw : Kwargs) (args : List (Str × Str))
    (h : argsOk O a.inArgs kw (args.map leaf) = true) :
    envelopeOk O a kw (Envelope.tree { action := a.name, ns := a.serviceType, args := args }) = true := by
  have hb : (Xml.clark soapEnvNs "Body".toList == Xml.clark soapEnvNs "Body".toList) = true := by simp
  simp only [envelopeOk, Envelope.tree, Xml.tag, Xml.children, List.filter, hb]
  simp only [beq_self_eq_true, Bool.true_and]
  exact h

end Upnp.C06
