/-
  C06 lemmas towards `c06_model_ok`: the schema chain is the declarative acceptance predicate,
  validation refuses exactly the unaccepted assignments, every accepted value's wire text decodes
  back to it, and the tree read back from the rendered envelope passes `envelopeOk`.
-/
import Upnp.Spec.C06
import Upnp.Lemmas.C06Text
import Upnp.Lemmas.C06Attr
import Upnp.Props.C08
namespace Upnp.C06

/-- the schema `mkSchema` returns carries the row's class and timezone demand -/
theorem mkSchema_fields (O : Oracles) (row : TypeRow) (strict : Bool) (dc : Upnp.C08.Decl) (sc : Upnp.C08.Schema Fl)
    (h : Upnp.C08.mkSchema O table row strict dc = .ok sc) : sc.ty = row.ty ∧ sc.requireTz = row.requireTz := by
  unfold Upnp.C08.mkSchema at h
  split at h
  · simp at h
  · split at h
    · simp at h
    · split at h
      · simp at h
      · simp only [Except.ok.injEq] at h; subst h; exact ⟨rfl, rfl⟩

/-- **the schema the factory builds decides C08's acceptance predicate** (`C08.check_eq_accept`) -/
theorem schemaOk_eq_accepts (O : Oracles) (strict : Bool) (d : VarDecl) (v : PyVal) :
    schemaOk O strict d v = accepts O strict d v := by
  unfold schemaOk accepts schemaOf
  cases h : Upnp.C08.mkSchema O table d.row strict d.decl with
  | error e => rfl
  | ok sc =>
    obtain ⟨h1, h2⟩ := mkSchema_fields O d.row strict d.decl sc h
    simp only [Option.map_some]
    rw [← h1, ← h2]
    rfl

theorem validate_accepted (O : Oracles) (strict : Bool) (kw : Kwargs) :
    ∀ ds : List ArgDecl, allAccepted O strict ds kw = some true → validateArgs O strict ds kw = .ok () := by
  intro ds
  induction ds with
  | nil => intro _; rfl
  | cons d r ih =>
    intro h
    unfold allAccepted at h
    unfold validateArgs
    cases hl : kw.lookup d.name with
    | none => simp [hl] at h
    | some v =>
      simp only [hl] at h ⊢
      rw [schemaOk_eq_accepts]
      cases ha : accepts O strict d.var v with
      | none => simp [ha] at h
      | some b =>
        cases b with
        | false => simp [ha] at h
        | true => simp only [ha] at h ⊢; exact ih h

theorem validate_refused (O : Oracles) (strict : Bool) (kw : Kwargs) :
    ∀ ds : List ArgDecl, allAccepted O strict ds kw = some false →
      validateArgs O strict ds kw = .error .upnpError ∨ validateArgs O strict ds kw = .error .upnpValueError := by
  intro ds
  induction ds with
  | nil => intro h; simp [allAccepted] at h
  | cons d r ih =>
    intro h
    unfold allAccepted at h
    unfold validateArgs
    cases hl : kw.lookup d.name with
    | none => left; rfl
    | some v =>
      simp only [hl] at h ⊢
      rw [schemaOk_eq_accepts]
      cases ha : accepts O strict d.var v with
      | none => simp [ha] at h
      | some b =>
        cases b with
        | false => right; rfl
        | true => simp only [ha] at h ⊢; exact ih h

/-- **Every type.**  For each of the 26 rows of the generated table and every in-domain value of
    the row's class (C08's `rtDomain`: the class itself, or a `bool` under an integer type; valid
    calendar dates 0001..9999, times / date-times at second precision, naive or with any whole-minute
    offset; integers `str` can print), the value is rendered and its wire text decodes back to it —
    C08's `roundtrip_all_types`; the former float / date-time hypotheses are gone except C08's single
    float assumption `RoundTrips` (`float(repr(x)) == x`). -/
theorem roundtrip (O : Oracles) (hf : Upnp.C08.FloatOps.RoundTrips O) (row : TypeRow)
    (hrow : row ∈ Gen.C08Types.rows) (v : PyVal) (hv : Upnp.C08.rtDomain row.ty v = true) :
    ∃ t, coerceUpnp O row v = .ok t ∧ decodesTo O row t v = true := by
  obtain ⟨h1, h2⟩ := Upnp.C08.roundtrip_all_types O hf row hrow v hv
  refine ⟨Upnp.C08.wire O v, h1, ?_⟩
  unfold decodesTo
  show (match Upnp.C08.coercePython O Gen.C08Types.table row (Upnp.C08.wire O v) with
        | .ok w => w == Upnp.C08.expectBack row.ty v | .error _ => false) = true
  rw [h2]; simp

/-- the `dateTime` row of the generated table (used to transport C08's round trip to a `datetime`
    value given for a `date` argument: both rows parse with `parse_date_time`) -/
def dateTimeRow : TypeRow :=
  (table.row? "dateTime".toList).getD ⟨[], .str, .str, .str, false⟩

theorem dateTimeRow_facts : dateTimeRow ∈ Gen.C08Types.rows ∧ dateTimeRow.ty = .datetime
    ∧ dateTimeRow.inK = .parseDateTime := by decide

theorem date_rows : ∀ row ∈ Gen.C08Types.rows, row.ty = .date →
    row.inK = .parseDateTime ∧ row.outK = .isoformat [] := by decide

/-- the values the decode clause is proved for: C08's round-trip domain, plus a `datetime` given for a
    `date` argument (`datetime ⊑ date`; rendered with `isoformat()` and parsed back by `parse_date_time`) -/
def inDom (ty : PyType) (v : PyVal) : Bool :=
  Upnp.C08.rtDomain ty v || (ty == .date && v.exactType .datetime && Upnp.C08.valueOk v)

/-- a `datetime` under a `date` row: C08's round trip for the `dateTime` row, transported -/
theorem roundtrip_datetime_as_date (O : Oracles) (hf : Upnp.C08.FloatOps.RoundTrips O) (row : TypeRow)
    (hrow : row ∈ Gen.C08Types.rows) (hty : row.ty = .date) (v : PyVal)
    (hex : v.exactType .datetime = true) (hok : Upnp.C08.valueOk v = true) :
    ∃ t, coerceUpnp O row v = .ok t ∧ decodesTo O row t v = true := by
  obtain ⟨hin, hout⟩ := date_rows row hrow hty
  obtain ⟨hdr, hdty, hdin⟩ := dateTimeRow_facts
  cases v with
  | datetime d t o =>
    have hdom : Upnp.C08.rtDomain dateTimeRow.ty (Upnp.C08.Val.datetime (F := Fl) d t o) = true := by
      rw [hdty]; simp [Upnp.C08.rtDomain, Upnp.C08.Val.exactType, hok]
    obtain ⟨_, h2⟩ := Upnp.C08.roundtrip_all_types O hf dateTimeRow hdr _ hdom
    refine ⟨Upnp.C08.wire O (.datetime d t o), ?_, ?_⟩
    · show Upnp.C08.coerceUpnp O row (.datetime d t o) = _
      unfold Upnp.C08.coerceUpnp
      rw [hout]
      rfl
    · unfold decodesTo
      show (match Upnp.C08.coercePython O Gen.C08Types.table row (Upnp.C08.wire O (.datetime d t o)) with
            | .ok w => w == Upnp.C08.expectBack row.ty (.datetime d t o) | .error _ => false) = true
      have heq : Upnp.C08.coercePython O Gen.C08Types.table row (Upnp.C08.wire O (.datetime d t o))
          = Upnp.C08.coercePython O Gen.C08Types.table dateTimeRow (Upnp.C08.wire O (.datetime d t o)) := by
        unfold Upnp.C08.coercePython; rw [hin, hdin]
      rw [heq, h2, hdty, hty]
      simp [Upnp.C08.expectBack]
  | _ => simp [Upnp.C08.Val.exactType] at hex

/-- the decode clause on the whole domain `inDom` -/
theorem roundtrip_inDom (O : Oracles) (hf : Upnp.C08.FloatOps.RoundTrips O) (row : TypeRow)
    (hrow : row ∈ Gen.C08Types.rows) (v : PyVal) (hv : inDom row.ty v = true) :
    ∃ t, coerceUpnp O row v = .ok t ∧ decodesTo O row t v = true := by
  unfold inDom at hv
  cases h1 : Upnp.C08.rtDomain row.ty v with
  | true => exact roundtrip O hf row hrow v h1
  | false =>
    simp only [h1, Bool.false_or, Bool.and_eq_true, beq_iff_eq] at hv
    exact roundtrip_datetime_as_date O hf row hrow hv.1.1 v hv.1.2 hv.2

/-- the leaf element an XML parser builds for `<name>text</name>` -/
def leaf (p : Str × Str) : Xml := .node p.1 (if p.2.isEmpty then none else some p.2) []

theorem leaf_text (p : Str × Str) : (leaf p).text.getD [] = p.2 := by
  unfold leaf Xml.text
  cases h : p.2 with
  | nil => simp
  | cons c r => simp

/-- the in-domain hypothesis of the main theorem for one call: every in-argument's row is a row of
    the generated table and every supplied value lies in C08's round-trip domain for it -/
def InDomain (ds : List ArgDecl) (kw : Kwargs) : Prop :=
  ∀ d ∈ ds, d.var.row ∈ Gen.C08Types.rows ∧ ∀ v, kw.lookup d.name = some v → inDom d.var.row.ty v = true

/-- accepted assignments are rendered argument by argument, and the rendered leaves pass `argsOk` -/
theorem coerceArgs_ok (O : Oracles) (hf : Upnp.C08.FloatOps.RoundTrips O) (strict : Bool) (kw : Kwargs) :
    ∀ ds : List ArgDecl, allAccepted O strict ds kw = some true → InDomain ds kw →
      ∃ args, coerceArgs O ds kw = .ok args ∧ args.map (·.1) = ds.map (·.name)
        ∧ argsOk O ds kw (args.map leaf) = true := by
  intro ds
  induction ds with
  | nil => intro _ _; exact ⟨[], rfl, rfl, rfl⟩
  | cons d r ih =>
    intro h hdom
    unfold allAccepted at h
    cases hl : kw.lookup d.name with
    | none => simp [hl] at h
    | some v =>
      simp only [hl] at h
      cases ha : accepts O strict d.var v with
      | none => simp [ha] at h
      | some b =>
        cases b with
        | false => simp [ha] at h
        | true =>
          simp only [ha] at h
          obtain ⟨args, hc, hn, hok⟩ := ih h (fun d' hd' => hdom d' (by simp [hd']))
          obtain ⟨hrow, hv⟩ := hdom d (by simp)
          obtain ⟨t, ht, hdec⟩ := roundtrip_inDom O hf d.var.row hrow v (hv v hl)
          refine ⟨(d.name, t) :: args, ?_, ?_, ?_⟩
          · unfold coerceArgs; simp [hl, ht, hc]
          · simp [hn]
          · simp only [List.map_cons, argsOk, hl]
            have h1 : (leaf (d.name, t)).tag = d.name := rfl
            have h2 : (leaf (d.name, t)).children = [] := rfl
            rw [h1, h2, leaf_text]
            simp [hdec, hok]

end Upnp.C06

namespace Upnp.C06

/-- a character allowed inside an XML name (conservative: ASCII letters, digits, `_ - .`, and
    everything from U+00C0 on except the few non-name code points below U+0370) -/
def isNameChar (c : Char) : Bool :=
  c.isAlphanum || c == '_' || c == '-' || c == '.'
  || (0xC0 ≤ c.toNat && c.toNat != 0xD7 && c.toNat != 0xF7)

def isNameStart (c : Char) : Bool := isNameChar c && !c.isDigit && c != '-' && c != '.'

/-- **domain predicate for action and argument names**: they are written as element names
    (`<u:Name …>`, `<Name>`), where no escaping exists — a name with markup cannot be sent at all.
    (UDA: names are XML names without hyphen; the device description is the source.) -/
def xmlNameOk : Str → Bool
  | [] => false
  | c :: r => isNameStart c && r.all isNameChar

theorem nameChar_facts (c : Char) (h : isNameChar c = true) : c ≠ ' ' ∧ c ≠ '>' ∧ c ≠ '/' := by
  refine ⟨?_, ?_, ?_⟩ <;> (intro e; subst e; revert h; decide)

theorem xmlNameOk_nameOk (n : Str) (h : xmlNameOk n = true) : nameOk n = true ∧ ' ' ∉ n := by
  cases n with
  | nil => simp [xmlNameOk] at h
  | cons c r =>
    simp only [xmlNameOk, Bool.and_eq_true, List.all_eq_true] at h
    have hc : isNameChar c = true := by
      have := h.1; simp only [isNameStart, Bool.and_eq_true] at this; exact this.1.1.1
    have hall : ∀ x ∈ c :: r, isNameChar x = true := by
      intro x hx
      rcases List.mem_cons.mp hx with rfl | hx
      · exact hc
      · exact h.2 x hx
    refine ⟨?_, fun hm => (nameChar_facts _ (hall _ hm)).1 rfl⟩
    simp only [nameOk, Bool.and_eq_true, bne_iff_ne, ne_eq, Bool.not_eq_true', List.contains_eq_mem,
      decide_eq_false_iff_not]
    exact ⟨(nameChar_facts c hc).2.2, fun hm => (nameChar_facts _ (hall _ hm)).2.1 rfl⟩

/-- hypotheses of the main theorem (all satisfiable; see the example in `Props/C06.lean`).
    There is NO hypothesis on the service type: any string is a legal namespace name once quoted. -/
structure Hyp (O : Oracles) (a : ActionDecl) (kw : Kwargs) : Prop where
  url : (urljoin a.deviceUrl a.controlUrl).isSome = true
  action : xmlNameOk a.name = true
  names : ∀ d ∈ a.inArgs, xmlNameOk d.name = true
  floats : Upnp.C08.FloatOps.RoundTrips O          -- C08's one float assumption: `float(repr(x)) == x`
  domain : InDomain a.inArgs kw

theorem header_soapaction (x y z : Str) :
    header? [("SOAPAction".toList, x), ("Host".toList, y), ("Content-Type".toList, z)] "SOAPAction".toList = some x := by
  have h1 : (lowerStr "SOAPAction".toList == lowerStr "SOAPAction".toList) = true := by decide
  have h2 : (lowerStr "Host".toList == lowerStr "SOAPAction".toList) = false := by decide
  have h3 : (lowerStr "Content-Type".toList == lowerStr "SOAPAction".toList) = false := by decide
  simp only [header?, List.filter, h1, h2, h3]

theorem header_host (x y z : Str) :
    header? [("SOAPAction".toList, x), ("Host".toList, y), ("Content-Type".toList, z)] "Host".toList = some y := by
  have h1 : (lowerStr "SOAPAction".toList == lowerStr "Host".toList) = false := by decide
  have h2 : (lowerStr "Host".toList == lowerStr "Host".toList) = true := by decide
  have h3 : (lowerStr "Content-Type".toList == lowerStr "Host".toList) = false := by decide
  simp only [header?, List.filter, h1, h2, h3]

theorem header_ctype (x y z : Str) :
    header? [("SOAPAction".toList, x), ("Host".toList, y), ("Content-Type".toList, z)] "Content-Type".toList = some z := by
  have h1 : (lowerStr "SOAPAction".toList == lowerStr "Content-Type".toList) = false := by decide
  have h2 : (lowerStr "Host".toList == lowerStr "Content-Type".toList) = false := by decide
  have h3 : (lowerStr "Content-Type".toList == lowerStr "Content-Type".toList) = true := by decide
  simp only [header?, List.filter, h1, h2, h3]

theorem envelopeOk_tree (O : Oracles) (a : ActionDecl) (kw : Kwargs) (args : List (Str × Str))
    (h : argsOk O a.inArgs kw (args.map leaf) = true) :
    envelopeOk O a kw (Envelope.tree { action := a.name, ns := a.serviceType, args := args }) = true := by
  have hb : (Xml.clark soapEnvNs "Body".toList == Xml.clark soapEnvNs "Body".toList) = true := by simp
  simp only [envelopeOk, Envelope.tree, Xml.tag, Xml.children, List.filter, hb]
  simp only [beq_self_eq_true, Bool.true_and]
  exact h

end Upnp.C06
