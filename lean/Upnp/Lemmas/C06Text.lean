/-
  C06 lemmas: `xmlDecodeText ∘ escape = id` (with CR sent as a character reference),
  and the splitting lemmas used to read the rendered envelope back.
-/
import Upnp.Model.C06Soap
namespace Upnp.C06

/-- the entity table under which escaping is lossless: CR as `&#13;` -/
def crTable : List (Char × Str) := [('\r', "&#13;".toList)]

theorem decode_escapeChar (c : Char) (r : Str) :
    xmlDecodeText (escapeChar crTable c ++ r) = (xmlDecodeText r).map (c :: ·) := by
  unfold escapeChar
  by_cases h1 : c = '&'
  · subst h1; simp [xmlDecodeText]
  by_cases h2 : c = '<'
  · subst h2; simp [xmlDecodeText]
  by_cases h3 : c = '>'
  · subst h3; simp [xmlDecodeText]
  by_cases h4 : c = '\r'
  · subst h4; simp [xmlDecodeText, crTable]
  · have : crTable.lookup c = none := by
      have : (c == '\r') = false := by simpa using h4
      simp [crTable, List.lookup, this]
    simp only [h1, h2, h3, this, if_false]
    show xmlDecodeText (c :: r) = _
    rw [xmlDecodeText]
    all_goals simp_all

theorem decode_escape_append (s r : Str) :
    xmlDecodeText (escape crTable s ++ r) = (xmlDecodeText r).map (s ++ ·) := by
  induction s with
  | nil => simp [escape]
  | cons c t ih =>
    have : escape crTable (c :: t) ++ r = escapeChar crTable c ++ (escape crTable t ++ r) := by
      simp [escape]
    rw [this, decode_escapeChar, ih]
    cases xmlDecodeText r <;> simp

/-- what the receiver's XML parser reads is what was supplied — for EVERY string -/
theorem decode_escape (s : Str) : xmlDecodeText (escape crTable s) = some s := by
  have := decode_escape_append s []
  simpa [xmlDecodeText] using this

end Upnp.C06

namespace Upnp.C06

theorem stripPrefix_append (p s : Str) : stripPrefix p (p ++ s) = some s := by
  induction p with
  | nil => cases s <;> rfl
  | cons a p ih => simp [stripPrefix, ih]

theorem splitAt1_append (c : Char) (a b : Str) (h : c ∉ a) :
    splitAt1 c (a ++ c :: b) = some (a, b) := by
  induction a with
  | nil => simp [splitAt1]
  | cons x a ih =>
    have hx : x ≠ c := fun e => h (by simp [e])
    have ha : c ∉ a := fun e => h (by simp [e])
    simp [splitAt1, hx, ih ha]

theorem splitClose_append (a r : Str) (h : '<' ∉ a) :
    splitClose (a ++ '<' :: '/' :: r) = some (a, r) := by
  induction a with
  | nil => simp [splitClose]
  | cons x a ih =>
    have hx : x ≠ '<' := fun e => h (by simp [e])
    have ha : '<' ∉ a := fun e => h (by simp [e])
    rw [List.cons_append, splitClose]
    · simp [ih ha]
    · intro r' e _; exact hx e

theorem lt_not_mem_escapeChar (c : Char) : '<' ∉ escapeChar crTable c := by
  unfold escapeChar
  by_cases h1 : c = '&'
  · subst h1; decide
  by_cases h2 : c = '<'
  · subst h2; decide
  by_cases h3 : c = '>'
  · subst h3; decide
  by_cases h4 : c = '\r'
  · subst h4; decide
  · have h5 : (c == '\r') = false := by simpa using h4
    simp [h1, h2, h3, crTable, List.lookup, h5]
    exact fun e => h2 e.symm

theorem lt_not_mem_escape (s : Str) : '<' ∉ escape crTable s := by
  induction s with
  | nil => simp [escape]
  | cons c t ih =>
    have : escape crTable (c :: t) = escapeChar crTable c ++ escape crTable t := by simp [escape]
    rw [this, List.mem_append]
    exact fun h => h.elim (lt_not_mem_escapeChar c) ih

/-- a name that can be read back: non-empty, does not start with `/`, contains no `>` -/
def nameOk : Str → Bool
  | [] => false
  | c :: r => c != '/' && !(c :: r).contains '>'

/-- `startsClose t` : `t` begins with `</` -/
def startsClose : Str → Bool
  | '<' :: '/' :: _ => true
  | _ => false

theorem startsClose_elim (t : Str) (h : startsClose t = true) : ∃ r, t = '<' :: '/' :: r := by
  unfold startsClose at h
  split at h
  · exact ⟨_, rfl⟩
  · simp at h

theorem readArgs_render (args : List (Str × Str)) :
    ∀ (fuel : Nat) (tail : Str), args.length < fuel → (∀ p ∈ args, nameOk p.1 = true) →
      startsClose tail = true →
      readArgs fuel (renderArgs crTable args ++ tail) = some (args, tail) := by
  induction args with
  | nil =>
    intro fuel tail hf _ ht
    obtain ⟨t, rfl⟩ := startsClose_elim tail ht
    match fuel, hf with
    | f + 1, _ => simp [renderArgs, readArgs]
  | cons p rest ih =>
    intro fuel tail hf hn ht
    obtain ⟨name, text⟩ := p
    have hname : nameOk name = true := hn (name, text) (by simp)
    have hrest : ∀ q ∈ rest, nameOk q.1 = true := fun q hq => hn q (by simp [hq])
    match fuel, hf with
    | f + 1, hf =>
      have hf' : rest.length < f := by simp at hf; omega
      -- shape of the name
      match name, hname with
      | c :: nr, hname =>
        have hc : c ≠ '/' := by
          simp [nameOk] at hname; exact hname.1
        have hgt : '>' ∉ (c :: nr) := by
          simp [nameOk] at hname
          intro hmem
          rcases List.mem_cons.mp hmem with h | h
          · exact hname.2.1 h
          · exact hname.2.2 h
        cases rest with
        | nil =>
          have hin : renderArgs crTable [(c :: nr, text)] ++ tail =
              '<' :: ((c :: nr) ++ '>' :: (escape crTable text ++ '<' :: '/' :: ((c :: nr) ++ ['>'] ++ tail))) := by
            simp [renderArgs, renderArg]
          rw [hin]
          obtain ⟨t, rfl⟩ := startsClose_elim tail ht
          · rw [readArgs]
            · simp only [List.cons_append]
              rw [show (c :: (nr ++ '>' :: (escape crTable text ++ '<' :: '/' :: (c :: (nr ++ ['>'] ++ '<' :: '/' :: t)))))
                    = (c :: nr) ++ '>' :: (escape crTable text ++ '<' :: '/' :: ((c :: nr) ++ ['>'] ++ '<' :: '/' :: t)) by simp]
              rw [splitAt1_append '>' (c :: nr) _ hgt]
              simp only [Option.bind_eq_bind, Option.bind_some]
              rw [splitClose_append _ _ (lt_not_mem_escape text)]
              simp only [Option.bind_some, decode_escape]
              rw [show (c :: nr) ++ ['>'] ++ '<' :: '/' :: t = ((c :: nr) ++ ['>']) ++ ('<' :: '/' :: t) by simp]
              rw [stripPrefix_append]
              simp
              match f, hf' with
              | f' + 1, _ => simp [readArgs]
            · intro r e; simp at e; exact hc e.1
        | cons q rest' =>
          have hin : renderArgs crTable ((c :: nr, text) :: q :: rest') ++ tail =
              '<' :: ((c :: nr) ++ '>' :: (escape crTable text ++ '<' :: '/' :: ((c :: nr) ++ ['>'] ++
                ('\n' :: (renderArgs crTable (q :: rest') ++ tail))))) := by
            simp [renderArgs, renderArg]
          rw [hin]
          rw [readArgs]
          · rw [splitAt1_append '>' (c :: nr) _ hgt]
            simp only [Option.bind_eq_bind, Option.bind_some]
            rw [splitClose_append _ _ (lt_not_mem_escape text)]
            simp only [Option.bind_some, decode_escape]
            rw [stripPrefix_append]
            simp only [Option.bind_some]
            rw [ih f tail hf' hrest ht]
            simp
          · intro r e; simp at e; exact hc e.1

theorem length_le_renderArgs (args : List (Str × Str)) :
    args.length ≤ (renderArgs crTable args).length := by
  induction args with
  | nil => simp
  | cons p rest ih =>
    cases rest with
    | nil => simp [renderArgs, renderArg]
    | cons q r =>
      have : renderArgs crTable (p :: q :: r) = renderArg crTable p ++ '\n' :: renderArgs crTable (q :: r) := rfl
      rw [this]; simp only [List.length_append, List.length_cons] at *; omega

end Upnp.C06
