/-
  C06 lemmas about the URL model: a control URL given as an absolute path is resolved against the
  device URL's scheme and authority, and the `Host` header (netloc of the result) is that authority.
-/
import Upnp.Model.C06Soap
namespace Upnp.C06

theorem takeWhile_append_stop (p : Char → Bool) (a : Str) (x : Char) (b : Str)
    (ha : ∀ c ∈ a, p c = true) (hx : p x = false) : (a ++ x :: b).takeWhile p = a := by
  induction a with
  | nil => simp [List.takeWhile, hx]
  | cons c r ih =>
    have hc : p c = true := ha c (by simp)
    simp only [List.cons_append, List.takeWhile_cons, hc, if_true]
    rw [ih (fun d hd => ha d (by simp [hd]))]

theorem dropWhile_append_stop (p : Char → Bool) (a : Str) (x : Char) (b : Str)
    (ha : ∀ c ∈ a, p c = true) (hx : p x = false) : (a ++ x :: b).dropWhile p = x :: b := by
  induction a with
  | nil => simp [List.dropWhile, hx]
  | cons c r ih =>
    have hc : p c = true := ha c (by simp)
    simp only [List.cons_append, List.dropWhile_cons, hc, if_true]
    exact ih (fun d hd => ha d (by simp [hd]))

theorem mem_takeWhile_sat (p : Char → Bool) (l : Str) : ∀ c ∈ l.takeWhile p, p c = true := by
  induction l with
  | nil => intro c hc; simp at hc
  | cons a r ih =>
    intro c hc
    by_cases ha : p a = true
    · simp only [List.takeWhile_cons, ha, if_true, List.mem_cons] at hc
      rcases hc with rfl | hc
      · exact ha
      · exact ih c hc
    · simp [List.takeWhile_cons, ha] at hc

/-- what `schemeOf` returns is a well-formed scheme followed by `://` -/
theorem schemeOf_spec (u sch r : Str) (h : schemeOf u = some (sch, r)) :
    sch ≠ [] ∧ sch.all isSchemeChar = true ∧ (∀ c ∈ sch, (c != ':') = true) := by
  unfold schemeOf at h
  split at h
  · rename_i r' _
    by_cases hc : (!(u.takeWhile (· != ':')).isEmpty && (u.takeWhile (· != ':')).all isSchemeChar) = true
    · simp only [hc, if_true, Option.some.injEq, Prod.mk.injEq] at h
      obtain ⟨h1, _⟩ := h
      subst h1
      simp only [Bool.and_eq_true, Bool.not_eq_true', List.isEmpty_eq_false_iff] at hc
      exact ⟨hc.1, hc.2, mem_takeWhile_sat _ u⟩
    · simp [hc] at h
  · simp at h

theorem schemeOf_build (sch rest : Str) (h1 : sch ≠ []) (h2 : sch.all isSchemeChar = true)
    (h3 : ∀ c ∈ sch, (c != ':') = true) :
    schemeOf (sch ++ "://".toList ++ rest) = some (sch, rest) := by
  have e : sch ++ "://".toList ++ rest = sch ++ ':' :: ('/' :: '/' :: rest) := by simp
  unfold schemeOf
  rw [e, takeWhile_append_stop _ sch ':' _ h3 (by decide), dropWhile_append_stop _ sch ':' _ h3 (by decide)]
  have : sch.isEmpty = false := by cases sch <;> simp_all
  simp [this, h2]

/-- A control URL written as an absolute path resolves to the device URL's scheme and authority
    followed by that path, and the authority of the result (the `Host` header) is the device's. -/
theorem urljoin_abs_path (base sch r ref : Str) (hb : schemeOf base = some (sch, r))
    (hlow : lowerScheme sch = true)
    (c : Char) (t : Str) (href : ref = '/' :: c :: t) (hc : c ≠ '/') (hp : plainPath ref = true) :
    urljoin base ref = some (sch ++ "://".toList ++ netloc base ++ ref)
    ∧ netloc (sch ++ "://".toList ++ netloc base ++ ref) = netloc base := by
  obtain ⟨h1, h2, h3⟩ := schemeOf_spec base sch r hb
  have hnoscheme : schemeOf ref = none := by
    subst href
    unfold schemeOf
    have : (('/' :: c :: t).takeWhile (· != ':')).all isSchemeChar = false := by
      have hslash : isSchemeChar '/' = false := by decide
      simp [List.takeWhile, hslash]
    split
    · have hslash : isSchemeChar '/' = false := by decide
      simp [hslash]
    · rfl
  constructor
  · subst href
    have hsl : schemeLike ('/' :: c :: t) = false := by
      simp [schemeLike, List.takeWhile]
    unfold urljoin
    simp only [hb, hnoscheme, hp, hlow, hsl]
    simp [hc]
  · have hnl : netloc base = r.takeWhile (!isStop ·) := by simp [netloc, hb]
    generalize netloc base = N at hnl ⊢
    have e : sch ++ "://".toList ++ N ++ ref = sch ++ "://".toList ++ (N ++ ref) := by simp
    rw [e]
    unfold netloc
    rw [schemeOf_build sch _ h1 h2 h3]
    simp only
    subst href
    exact takeWhile_append_stop _ N '/' _ (by rw [hnl]; exact mem_takeWhile_sat _ r) (by decide)

end Upnp.C06
