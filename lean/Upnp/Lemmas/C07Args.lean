/-
  C07 lemmas: the out-argument loop (`readOutArgs`) against the judge's `responseOk`.
-/
import Upnp.Spec.C07
namespace Upnp.C07
open Upnp.C06

theorem find?_eq_head?_filter {α : Type} (p : α → Bool) (l : List α) :
    l.find? p = (l.filter p).head? := by
  induction l with
  | nil => rfl
  | cons a r ih =>
    cases h : p a
    · rw [List.find?_cons_of_neg (by simp [h]), List.filter_cons_of_neg (by simp [h]), ih]
    · rw [List.find?_cons_of_pos (by simp [h]), List.filter_cons_of_pos (by simp [h])]; rfl

abbrev keys (d : List (Str × PyVal)) : List Str := d.map (·.1)

theorem keys_dictSet (d : List (Str × PyVal)) (k : Str) (v : PyVal) :
    ∀ x, x ∈ keys (dictSet d k v) ↔ x ∈ keys d ∨ x = k := by
  induction d with
  | nil => intro x; simp [dictSet, keys]
  | cons p r ih =>
    intro x
    obtain ⟨k', v'⟩ := p
    unfold dictSet
    by_cases h : k' = k
    · subst h
      simp only [if_true, keys, List.map_cons, List.mem_cons]
      constructor
      · intro h; exact Or.inl h
      · rintro (h | h)
        · exact h
        · exact Or.inl h
    · simp only [h, if_false, keys, List.map_cons, List.mem_cons]
      have := ih x
      simp only [keys] at this
      rw [this]
      constructor
      · rintro (h1 | h1 | h1) <;> simp [h1]
      · rintro ((h1 | h1) | h1) <;> simp [h1]

theorem nodup_dictSet (d : List (Str × PyVal)) (k : Str) (v : PyVal) (h : (keys d).Nodup) :
    (keys (dictSet d k v)).Nodup := by
  induction d with
  | nil => simp [dictSet, keys]
  | cons p r ih =>
    obtain ⟨k', v'⟩ := p
    unfold dictSet
    by_cases hk : k' = k
    · subst hk; simpa [keys] using h
    · simp only [hk, if_false]
      simp only [keys, List.map_cons, List.nodup_cons] at h ⊢
      refine ⟨?_, ih h.2⟩
      intro hm
      have := (keys_dictSet r k v k').mp hm
      rcases this with h1 | h1
      · exact h.1 h1
      · exact hk h1

theorem mem_dictSet (d : List (Str × PyVal)) (k : Str) (v : PyVal) (q : Str × PyVal)
    (h : q ∈ dictSet d k v) : q = (k, v) ∨ q ∈ d := by
  induction d with
  | nil => simp [dictSet] at h; exact Or.inl h
  | cons p r ih =>
    obtain ⟨k', v'⟩ := p
    unfold dictSet at h
    by_cases hk : k' = k
    · subst hk
      simp only [if_true, List.mem_cons] at h
      rcases h with h | h
      · exact Or.inl h
      · exact Or.inr (List.mem_cons_of_mem _ h)
    · simp only [hk, if_false, List.mem_cons] at h
      rcases h with h | h
      · exact Or.inr (by simp [h])
      · rcases ih h with h1 | h1
        · exact Or.inl h1
        · exact Or.inr (List.mem_cons_of_mem _ h1)

/-- a child's decoded value, when it is a declared out-argument with convertible text -/
def decoded (O : Oracles) (a : ActionDecl) (c : Xml) : Option PyVal :=
  match outArg? a c.tag with
  | some d => (match coercePython O d.var.row (c.text.getD []) with | .ok v => some v | .error _ => none)
  | none => none

/-- the invariant of the loop: the mapping built so far is exactly the declared out-arguments seen -/
structure Inv (O : Oracles) (a : ActionDecl) (seen : List Xml) (acc : List (Str × PyVal)) : Prop where
  nodup : (keys acc).Nodup
  sound : ∀ q ∈ acc, ∃ c ∈ seen, c.tag = q.1 ∧ decoded O a c = some q.2
  complete : ∀ c ∈ seen, isOutName a c.tag = true → c.tag ∈ keys acc

theorem readOutArgs_ok (O : Oracles) (a : ActionDecl) :
    ∀ (cs seen : List Xml) (acc : List (Str × PyVal)),
      convertible O a cs = true →
      (a.strict = false ∨ ∀ c ∈ cs, isOutName a c.tag = true) →
      Inv O a seen acc →
      ∃ items, readOutArgs O a cs acc = .ok items ∧ Inv O a (seen ++ cs) items := by
  intro cs
  induction cs with
  | nil => intro seen acc _ _ hinv; exact ⟨acc, rfl, by simpa using hinv⟩
  | cons c r ih =>
    intro seen acc hconv hmode hinv
    have hconv' : convertible O a r = true := by
      simp only [convertible, List.all_cons, Bool.and_eq_true] at hconv; exact hconv.2
    have hmode' : a.strict = false ∨ ∀ c ∈ r, isOutName a c.tag = true :=
      hmode.imp id (fun h c hc => h c (List.mem_cons_of_mem _ hc))
    have happ : seen ++ c :: r = (seen ++ [c]) ++ r := by simp
    unfold readOutArgs
    cases ho : outArg? a c.tag with
    | none =>
      have hstrict : a.strict = false := by
        rcases hmode with h | h
        · exact h
        · have := h c (by simp); simp [isOutName, ho] at this
      simp only [hstrict]
      have hinv' : Inv O a (seen ++ [c]) acc :=
        { nodup := hinv.nodup
          sound := fun q hq => by
            obtain ⟨c', hc', h1, h2⟩ := hinv.sound q hq
            exact ⟨c', by simp [hc'], h1, h2⟩
          complete := fun c' hc' hn => by
            rcases List.mem_append.mp hc' with h | h
            · exact hinv.complete c' h hn
            · simp only [List.mem_singleton] at h; subst h; simp [isOutName, ho] at hn }
      rw [happ]
      exact ih (seen ++ [c]) acc hconv' hmode' hinv'
    | some d =>
      have hc1 : ∃ v, coercePython O d.var.row (c.text.getD []) = .ok v := by
        simp only [convertible, List.all_cons, Bool.and_eq_true, ho] at hconv
        cases hcp : coercePython O d.var.row (c.text.getD []) with
        | ok v => exact ⟨v, rfl⟩
        | error e => simp [hcp] at hconv
      obtain ⟨v, hv⟩ := hc1
      simp only [hv]
      have hdec : decoded O a c = some v := by simp [decoded, ho, hv]
      have hinv' : Inv O a (seen ++ [c]) (dictSet acc c.tag v) :=
        { nodup := nodup_dictSet acc c.tag v hinv.nodup
          sound := fun q hq => by
            rcases mem_dictSet acc c.tag v q hq with h | h
            · subst h; exact ⟨c, by simp, rfl, hdec⟩
            · obtain ⟨c', hc', h1, h2⟩ := hinv.sound q h
              exact ⟨c', by simp [hc'], h1, h2⟩
          complete := fun c' hc' hn => by
            rw [keys_dictSet]
            rcases List.mem_append.mp hc' with h | h
            · exact Or.inl (hinv.complete c' h hn)
            · simp only [List.mem_singleton] at h; subst h; exact Or.inr rfl }
      rw [happ]
      exact ih (seen ++ [c]) _ hconv' hmode' hinv'

theorem readOutArgs_unknown (O : Oracles) (a : ActionDecl) (hs : a.strict = true) :
    ∀ (cs : List Xml) (acc : List (Str × PyVal)),
      convertible O a cs = true → (cs.any fun c => !isOutName a c.tag) = true →
      readOutArgs O a cs acc = .error .unknownArg := by
  intro cs
  induction cs with
  | nil => intro acc _ h; simp at h
  | cons c r ih =>
    intro acc hconv hun
    unfold readOutArgs
    cases ho : outArg? a c.tag with
    | none => simp [hs]
    | some d =>
      simp only [convertible, List.all_cons, Bool.and_eq_true, ho] at hconv
      cases hcp : coercePython O d.var.row (c.text.getD []) with
      | error e => simp [hcp] at hconv
      | ok v =>
        simp only [hcp]
        have : (r.any fun c => !isOutName a c.tag) = true := by
          simp only [List.any_cons, isOutName, ho, Option.isSome_some, Bool.not_true, Bool.false_or] at hun
          exact hun
        exact ih _ hconv.2 this

/-- the out-argument loop satisfies the judge's success case, for every response element -/
theorem responseOk_model (O : Oracles) (anc : String → List String) (a : ActionDecl) (r : Xml)
    (hanc : (anc "UpnpError").contains "UpnpError" = true) :
    responseOk O a r (observe anc (match readOutArgs O a r.children [] with
      | .ok args => .ret args
      | .error e => .exc e)) = true := by
  simp only [responseOk]
  cases hconv : convertible O a r.children with
  | false => simp
  | true =>
    simp only [Bool.not_true, Bool.false_eq_true, if_false]
    cases hun : (r.children.any fun c => !isOutName a c.tag) with
    | true =>
      cases hs : a.strict with
      | true =>
        rw [readOutArgs_unknown O a hs r.children [] hconv hun]
        have hanc' : "UpnpError" ∈ anc "UpnpError" := by simpa using hanc
        simp [observe, DExc.cls, isExcOf, ExcObs.isA, hanc']
      | false =>
        simp only [Bool.and_false, Bool.false_eq_true, if_false]
        obtain ⟨items, hok, hinv⟩ := readOutArgs_ok O a r.children [] [] hconv (Or.inl hs)
          ⟨by simp [keys], by simp, by simp⟩
        rw [hok]
        simp only [observe, retOk, List.nil_append] at hinv ⊢
        simp only [Bool.and_eq_true, decide_eq_true_eq, List.all_eq_true, List.any_eq_true, Bool.or_eq_true,
          Bool.not_eq_true', beq_iff_eq]
        refine ⟨⟨hinv.nodup, ?_⟩, ?_⟩
        · intro q hq
          obtain ⟨c, hc, h1, h2⟩ := hinv.sound q hq
          refine ⟨c, hc, h1, ?_⟩
          unfold decoded at h2
          cases ho : outArg? a c.tag with
          | none => simp [ho] at h2
          | some d =>
            simp only [ho] at h2 ⊢
            cases hcp : coercePython O d.var.row (c.text.getD []) with
            | error e => simp [hcp] at h2
            | ok v => simp [hcp] at h2 ⊢; exact h2
        · intro c hc
          cases hn : isOutName a c.tag with
          | false => exact Or.inl rfl
          | true => exact Or.inr (by simpa using hinv.complete c hc hn)
    | false =>
      simp only [Bool.false_and, Bool.false_eq_true, if_false]
      have hall : ∀ c ∈ r.children, isOutName a c.tag = true := by
        intro c hc
        have := List.any_eq_false.mp hun c hc
        simpa using this
      obtain ⟨items, hok, hinv⟩ := readOutArgs_ok O a r.children [] [] hconv (Or.inr hall)
        ⟨by simp [keys], by simp, by simp⟩
      rw [hok]
      simp only [observe, retOk, List.nil_append] at hinv ⊢
      simp only [Bool.and_eq_true, decide_eq_true_eq, List.all_eq_true, List.any_eq_true, Bool.or_eq_true,
        Bool.not_eq_true', beq_iff_eq]
      refine ⟨⟨hinv.nodup, ?_⟩, ?_⟩
      · intro q hq
        obtain ⟨c, hc, h1, h2⟩ := hinv.sound q hq
        refine ⟨c, hc, h1, ?_⟩
        unfold decoded at h2
        cases ho : outArg? a c.tag with
        | none => simp [ho] at h2
        | some d =>
          simp only [ho] at h2 ⊢
          cases hcp : coercePython O d.var.row (c.text.getD []) with
          | error e => simp [hcp] at h2
          | ok v => simp [hcp] at h2 ⊢; exact h2
      · intro c hc
        exact Or.inr (by simpa using hinv.complete c hc (hall c hc))

end Upnp.C07
