/-
  C07 lemmas: `_parse_fault` against the judge's `faultOk`.
-/
import Upnp.Lemmas.C07Args
namespace Upnp.C07
open Upnp.C06

/-- what the theorems need from the exception hierarchy (checked on the generated table) -/
structure AncOk (anc : String → List String) : Prop where
  e : "UpnpError" ∈ anc "UpnpError"
  x : "UpnpXmlParseError" ∈ anc "UpnpXmlParseError"
  r : "UpnpResponseError" ∈ anc "UpnpResponseError"
  ar_r : "UpnpResponseError" ∈ anc "UpnpActionResponseError"
  a : "UpnpActionError" ∈ anc "UpnpActionError"
  ar_a : "UpnpActionError" ∈ anc "UpnpActionResponseError"

theorem findTextDesc_unique (f : Xml) (tag : Str) (r : Option Str)
    (h : uniqueText f tag = some r) : f.findTextDesc tag = r := by
  unfold uniqueText at h
  unfold Xml.findTextDesc Xml.findDesc
  rw [find?_eq_head?_filter]
  generalize f.descendants.filter (·.tag == tag) = l at h ⊢
  match l, h with
  | [], h => simp at h; simp [← h]
  | [e], h => simp at h; simp [← h]
  | _ :: _ :: _, h => simp at h

theorem parseFault_isSome (doc f : Xml) (hf : faults doc = [f]) (hne : f.children.isEmpty = false)
    (st : Option Int) : (parseFault doc st).isSome = true := by
  unfold parseFault
  simp only [hf, List.head?, Xml.truthy, hne]
  simp only [Bool.not_false, Bool.not_true, Bool.false_eq_true, if_false]
  cases faultCode (f.findTextDesc errorCodeTag) <;> cases st <;> simp

theorem faultOk_model (anc : String → List String) (H : AncOk anc) (doc f : Xml)
    (hf : faults doc = [f]) (hne : f.children.isEmpty = false) (status : Int) (e : DExc)
    (hp : parseFault doc (if status == 200 then none else some status) = some e) :
    faultOk f status (observe anc (.exc e)) = true := by
  unfold faultOk
  cases hu1 : uniqueText f errorCodeTag with
  | none => simp
  | some codeStr =>
    cases hu2 : uniqueText f errorDescTag with
    | none => simp
    | some desc =>
      have h1 := findTextDesc_unique f errorCodeTag codeStr hu1
      have h2 := findTextDesc_unique f errorDescTag desc hu2
      unfold parseFault at hp
      simp only [hf, List.head?, Xml.truthy, hne, h1, h2] at hp
      simp only [Bool.not_false, Bool.not_true, Bool.false_eq_true, if_false] at hp
      have ha := H.a; have hara := H.ar_a; have harr := H.ar_r
      simp only []
      cases hc : faultCode codeStr with
      | none => simp
      | some c =>
        simp only [hc] at hp
        cases hs : (status == 200) with
        | true =>
          simp only [hs, if_true] at hp
          cases hp
          simp [observe, DExc.cls, ExcObs.isA, ha]
        | false =>
          simp only [hs] at hp
          simp at hp
          subst hp
          have : status = status := rfl
          simp [observe, DExc.cls, ExcObs.isA, hara, harr]

theorem parseFault_none (doc : Xml) (hf : faults doc = []) (st : Option Int) : parseFault doc st = none := by
  simp [parseFault, hf]

end Upnp.C07
