/-
  C08 lemmas: `parse_date_time` on the ISO renderings of dates, times and date-times.
-/
import Upnp.Lemmas.C08Digits
import Upnp.Model.C08Types
namespace Upnp.C08

/-- the regex / strptime table the proofs are about; `Props/C08.lean` pins the generated table to it -/
def expectedMatchers : List Matcher := [
  { re := [.digits 4, .lit '-', .digits 2, .lit '-', .digits 2, .eos], fmt := [.Y, .lit '-', .m, .lit '-', .d], post := .date },
  { re := [.digits 2, .lit ':', .digits 2, .lit ':', .digits 2, .eos], fmt := [.H, .lit ':', .M, .lit ':', .S], post := .time },
  { re := [.digits 4, .lit '-', .digits 2, .lit '-', .digits 2, .lit 'T', .digits 2, .lit ':', .digits 2, .lit ':', .digits 2, .eos],
    fmt := [.Y, .lit '-', .m, .lit '-', .d, .lit 'T', .H, .lit ':', .M, .lit ':', .S], post := .keep },
  { re := [.digits 4, .lit '-', .digits 2, .lit '-', .digits 2, .lit ' ', .digits 2, .lit ':', .digits 2, .lit ':', .digits 2, .eos],
    fmt := [.Y, .lit '-', .m, .lit '-', .d, .lit ' ', .H, .lit ':', .M, .lit ':', .S], post := .keep },
  { re := [.digits 2, .lit ':', .digits 2, .lit ':', .digits 2, .sign, .digits 4, .eos],
    fmt := [.H, .lit ':', .M, .lit ':', .S, .z], post := .timetz },
  { re := [.digits 2, .lit ':', .digits 2, .lit ':', .digits 2, .lit ' ', .sign, .digits 4, .eos],
    fmt := [.H, .lit ':', .M, .lit ':', .S, .lit ' ', .z], post := .timetz },
  { re := [.digits 4, .lit '-', .digits 2, .lit '-', .digits 2, .lit 'T', .digits 2, .lit ':', .digits 2, .lit ':', .digits 2, .lit 'z', .eos],
    fmt := [.Y, .lit '-', .m, .lit '-', .d, .lit 'T', .H, .lit ':', .M, .lit ':', .S, .lit 'z'], post := .replaceUTC },
  { re := [.digits 4, .lit '-', .digits 2, .lit '-', .digits 2, .lit 'T', .digits 2, .lit ':', .digits 2, .lit ':', .digits 2, .lit 'Z', .eos],
    fmt := [.Y, .lit '-', .m, .lit '-', .d, .lit 'T', .H, .lit ':', .M, .lit ':', .S, .lit 'z'], post := .replaceUTC },
  { re := [.digits 4, .lit '-', .digits 2, .lit '-', .digits 2, .lit 'T', .digits 2, .lit ':', .digits 2, .lit ':', .digits 2, .sign, .digits 4, .eos],
    fmt := [.Y, .lit '-', .m, .lit '-', .d, .lit 'T', .H, .lit ':', .M, .lit ':', .S, .z], post := .keep },
  { re := [.digits 4, .lit '-', .digits 2, .lit '-', .digits 2, .lit 'T', .digits 2, .lit ':', .digits 2, .lit ':', .digits 2, .lit ' ', .sign, .digits 4, .eos],
    fmt := [.Y, .lit '-', .m, .lit '-', .d, .lit 'T', .H, .lit ':', .M, .lit ':', .S, .lit ' ', .z], post := .keep }]

/-! digit characters never equal the punctuation of the formats -/
@[simp] theorem dcm_ne_colon (x : Nat) : (dc (x % 10) == ':') = false := dc_ne_of_not_dig (Nat.mod_lt _ (by decide)) (by decide)
@[simp] theorem dcm_ne_dash (x : Nat) : (dc (x % 10) == '-') = false := dc_ne_of_not_dig (Nat.mod_lt _ (by decide)) (by decide)
@[simp] theorem dcm_ne_plus (x : Nat) : (dc (x % 10) == '+') = false := dc_ne_of_not_dig (Nat.mod_lt _ (by decide)) (by decide)
@[simp] theorem dcm_ne_T (x : Nat) : (dc (x % 10) == 'T') = false := dc_ne_of_not_dig (Nat.mod_lt _ (by decide)) (by decide)
@[simp] theorem dcm_ne_sp (x : Nat) : (dc (x % 10) == ' ') = false := dc_ne_of_not_dig (Nat.mod_lt _ (by decide)) (by decide)
@[simp] theorem colon_ne_dcm (x : Nat) : (':' == dc (x % 10)) = false := by rw [Bool.beq_comm]; simp
@[simp] theorem dash_ne_dcm (x : Nat) : ('-' == dc (x % 10)) = false := by rw [Bool.beq_comm]; simp
@[simp] theorem T_ne_dcm (x : Nat) : ('T' == dc (x % 10)) = false := by rw [Bool.beq_comm]; simp
@[simp] theorem sp_ne_dcm (x : Nat) : (' ' == dc (x % 10)) = false := by rw [Bool.beq_comm]; simp

@[simp] theorem isDig_colon : isDig ':' = false := by decide
@[simp] theorem isDig_dash : isDig '-' = false := by decide
@[simp] theorem isDig_plus : isDig '+' = false := by decide
@[simp] theorem isDig_T : isDig 'T' = false := by decide
@[simp] theorem isDig_sp : isDig ' ' = false := by decide
@[simp] theorem isDig_Z : isDig 'Z' = false := by decide
@[simp] theorem isDig_z : isDig 'z' = false := by decide

theorem val4 {y : Nat} (h : y ≤ 9999) : y / 1000 % 10 * 1000 + y / 100 % 10 * 100 + y / 10 % 10 * 10 + y % 10 = y := by omega
theorem val2 {n : Nat} (h : n < 100) : n / 10 % 10 * 10 + n % 10 = n := by omega
theorem dim_le (y m : Nat) : dim y m ≤ 31 := by unfold dim; split <;> (try split) <;> omega
theorem dim_pos (y m : Nat) : 1 ≤ dim y m := by unfold dim; split <;> (try split) <;> omega

section
variable {F : Type}

theorem parse_isoDate (d : Date) (h : d.valid = true) :
    parseDateTime (F := F) expectedMatchers (some 6) (isoDate d) = .ok (.date d) := by
  obtain ⟨y, m, dd⟩ := d
  simp only [Date.valid, Bool.and_eq_true, decide_eq_true_eq] at h
  obtain ⟨⟨⟨⟨⟨h1, h2⟩, h3⟩, h4⟩, h5⟩, h6⟩ := h
  have hd31 : dd ≤ 31 := Nat.le_trans h6 (dim_le y m)
  simp [parseDateTime, tzFixup, isoDate, pad2, pad4, expectedMatchers, runMatchers, matchRe, takeDigits, strp, num2, num4,
    Fields.ok, applyPost, val4 h2, val2 (show m < 100 by omega), val2 (show dd < 100 by omega), h1, h3, h4, h5, h6, hd31]

theorem time_bounds {t : Time} (h : t.valid = true) : t.h < 24 ∧ t.mi < 60 ∧ t.s < 60 := by
  simp only [Time.valid, Bool.and_eq_true, decide_eq_true_eq] at h
  exact ⟨h.1.1, h.1.2, h.2⟩

theorem date_bounds {d : Date} (h : d.valid = true) :
    1 ≤ d.y ∧ d.y ≤ 9999 ∧ 1 ≤ d.m ∧ d.m ≤ 12 ∧ 1 ≤ d.d ∧ d.d ≤ dim d.y d.m ∧ d.d ≤ 31 := by
  simp only [Date.valid, Bool.and_eq_true, decide_eq_true_eq] at h
  obtain ⟨⟨⟨⟨⟨h1, h2⟩, h3⟩, h4⟩, h5⟩, h6⟩ := h
  exact ⟨h1, h2, h3, h4, h5, h6, Nat.le_trans h6 (dim_le _ _)⟩

theorem off_bounds {o : Int} (h : offValid o = true) : o.natAbs / 60 < 24 ∧ o.natAbs % 60 < 60 ∧ o.natAbs < 1440 := by
  simp only [offValid, Bool.and_eq_true, decide_eq_true_eq] at h
  omega

theorem off_rebuild_neg {o : Int} (h : o < 0) : -Int.ofNat (o.natAbs / 60 * 60 + o.natAbs % 60) = o := by
  have : Int.ofNat (o.natAbs / 60 * 60 + o.natAbs % 60) = ((o.natAbs / 60 * 60 + o.natAbs % 60 : Nat) : Int) := rfl
  rw [this]; omega
theorem off_rebuild_pos {o : Int} (h : ¬ o < 0) : Int.ofNat (o.natAbs / 60 * 60 + o.natAbs % 60) = o := by
  have : Int.ofNat (o.natAbs / 60 * 60 + o.natAbs % 60) = ((o.natAbs / 60 * 60 + o.natAbs % 60 : Nat) : Int) := rfl
  rw [this]; omega

theorem parse_isoTime (t : Time) (h : t.valid = true) :
    parseDateTime (F := F) expectedMatchers (some 6) (isoTime .seconds t) = .ok (.time t none) := by
  obtain ⟨hh, hm, hs⟩ := time_bounds h
  obtain ⟨th, tm, ts⟩ := t
  simp only at hh hm hs
  simp [parseDateTime, tzFixup, isoTime, pad2, expectedMatchers, runMatchers, matchRe, takeDigits, strp, num2, num4,
    Fields.ok, applyPost, val2 (show th < 100 by omega), val2 (show tm < 100 by omega), val2 (show ts < 100 by omega),
    hh, hm, hs, dim, show ts < 62 by omega]

/-- the lemma set that evaluates `parseDateTime` on an explicit character list -/
macro "pdt_simp" "[" ts:Lean.Parser.Tactic.simpLemma,* "]" : tactic =>
  `(tactic| simp [parseDateTime, tzFixup, isoDate, isoTime, isoOff, pad2, pad4, expectedMatchers, runMatchers, matchRe,
      takeDigits, strp, num2, num4, Fields.ok, applyPost, asciiLower, $ts,*])

theorem parse_isoDateTime (sep : Char) (hsep : sep = 'T' ∨ sep = ' ') (d : Date) (t : Time) (hd : d.valid = true) (ht : t.valid = true) :
    parseDateTime (F := F) expectedMatchers (some 6) (isoDate d ++ sep :: isoTime .seconds t) = .ok (.datetime d t none) := by
  obtain ⟨hh, hm, hs⟩ := time_bounds ht
  obtain ⟨h1, h2, h3, h4, h5, h6, h7⟩ := date_bounds hd
  obtain ⟨th, tm, ts⟩ := t
  obtain ⟨y, m, dd⟩ := d
  simp only at hh hm hs h1 h2 h3 h4 h5 h6 h7
  rcases hsep with rfl | rfl <;>
  pdt_simp [val4 h2, val2 (show m < 100 by omega), val2 (show dd < 100 by omega),
    val2 (show th < 100 by omega), val2 (show tm < 100 by omega), val2 (show ts < 100 by omega),
    hh, hm, hs, h1, h3, h4, h5, h6, h7, show ts < 62 by omega]

/-- the four accepted offset spellings: optional space, then ±HH:MM or ±HHMM -/
def offText (sp colon : Bool) (o : Int) : Str :=
  (if sp then [' '] else []) ++ (if o < 0 then '-' else '+') :: pad2 (o.natAbs / 60)
    ++ (if colon then [':'] else []) ++ pad2 (o.natAbs % 60)

theorem isoOff_eq (o : Int) : isoOff (some o) = offText false true o := by
  simp [isoOff, offText]

theorem parse_isoDateTime_off (sp colon : Bool) (d : Date) (t : Time) (o : Int)
    (hd : d.valid = true) (ht : t.valid = true) (ho : offValid o = true) :
    parseDateTime (F := F) expectedMatchers (some 6) (isoDate d ++ 'T' :: isoTime .seconds t ++ offText sp colon o)
      = .ok (.datetime d t (some o)) := by
  obtain ⟨hh, hm, hs⟩ := time_bounds ht
  obtain ⟨h1, h2, h3, h4, h5, h6, h7⟩ := date_bounds hd
  obtain ⟨o1, o2, _⟩ := off_bounds ho
  obtain ⟨th, tm, ts⟩ := t
  obtain ⟨y, m, dd⟩ := d
  simp only at hh hm hs h1 h2 h3 h4 h5 h6 h7
  have hrn : o < 0 → -(((o.natAbs / 60 : Nat) : Int) * 60 + ((o.natAbs % 60 : Nat) : Int)) = o := by omega
  have hrp : ¬ o < 0 → (((o.natAbs / 60 : Nat) : Int) * 60 + ((o.natAbs % 60 : Nat) : Int)) = o := by omega
  unfold offText
  generalize o.natAbs / 60 = oh at *
  generalize o.natAbs % 60 = om at *
  by_cases hneg : o < 0 <;> cases sp <;> cases colon <;>
  pdt_simp [hneg, val4 h2, val2 (show m < 100 by omega), val2 (show dd < 100 by omega),
    val2 (show th < 100 by omega), val2 (show tm < 100 by omega), val2 (show ts < 100 by omega),
    val2 (show oh < 100 by omega), val2 (show om < 100 by omega),
    hh, hm, hs, h1, h3, h4, h5, h6, h7, o1, o2, show ts < 62 by omega, hrn, hrp]

theorem parse_isoTime_off (sp colon : Bool) (t : Time) (o : Int) (ht : t.valid = true) (ho : offValid o = true) :
    parseDateTime (F := F) expectedMatchers (some 6) (isoTime .seconds t ++ offText sp colon o)
      = .ok (.time t (some o)) := by
  obtain ⟨hh, hm, hs⟩ := time_bounds ht
  obtain ⟨o1, o2, _⟩ := off_bounds ho
  obtain ⟨th, tm, ts⟩ := t
  simp only at hh hm hs
  have hrn : o < 0 → -(((o.natAbs / 60 : Nat) : Int) * 60 + ((o.natAbs % 60 : Nat) : Int)) = o := by omega
  have hrp : ¬ o < 0 → (((o.natAbs / 60 : Nat) : Int) * 60 + ((o.natAbs % 60 : Nat) : Int)) = o := by omega
  unfold offText
  generalize o.natAbs / 60 = oh at *
  generalize o.natAbs % 60 = om at *
  by_cases hneg : o < 0 <;> cases sp <;> cases colon <;>
  pdt_simp [hneg, val2 (show th < 100 by omega), val2 (show tm < 100 by omega), val2 (show ts < 100 by omega),
    val2 (show oh < 100 by omega), val2 (show om < 100 by omega),
    hh, hm, hs, o1, o2, show ts < 62 by omega, hrn, hrp, dim]

theorem parse_isoDateTime_zulu (up : Bool) (d : Date) (t : Time) (hd : d.valid = true) (ht : t.valid = true) :
    parseDateTime (F := F) expectedMatchers (some 6) (isoDate d ++ 'T' :: isoTime .seconds t ++ [if up then 'Z' else 'z'])
      = .ok (.datetime d t (some 0)) := by
  obtain ⟨hh, hm, hs⟩ := time_bounds ht
  obtain ⟨h1, h2, h3, h4, h5, h6, h7⟩ := date_bounds hd
  obtain ⟨th, tm, ts⟩ := t
  obtain ⟨y, m, dd⟩ := d
  simp only at hh hm hs h1 h2 h3 h4 h5 h6 h7
  cases up <;>
  pdt_simp [val4 h2, val2 (show m < 100 by omega), val2 (show dd < 100 by omega),
    val2 (show th < 100 by omega), val2 (show tm < 100 by omega), val2 (show ts < 100 by omega),
    hh, hm, hs, h1, h3, h4, h5, h6, h7, show ts < 62 by omega]

/-! ### totality: nothing but ValueError -/

theorem runMatchers_total (ms : List Matcher) (s : Str) :
    (∃ v, runMatchers (F := F) ms s = .ok v) ∨ runMatchers (F := F) ms s = .error .valueError := by
  induction ms with
  | nil => right; rfl
  | cons m r ih =>
    unfold runMatchers
    split
    · split
      · split
        · left; exact ⟨_, rfl⟩
        · right; rfl
      · right; rfl
    · exact ih

theorem tzFixup_total (g : Nat) (hg : 6 ≤ g) (s : Str) : ∃ s', tzFixup (some g) s = .ok s' := by
  unfold tzFixup
  simp only
  by_cases h : s.length < g
  · simp [h]
  · simp only [h, decide_false, Bool.false_eq_true, if_false]
    rw [if_neg (by omega)]
    split <;> exact ⟨_, rfl⟩

/-- `parse_date_time` answers every string with a value or with ValueError -/
theorem parseDateTime_total (ms : List Matcher) (g : Nat) (hg : 6 ≤ g) (s : Str) :
    (∃ v, parseDateTime (F := F) ms (some g) s = .ok v) ∨ parseDateTime (F := F) ms (some g) s = .error .valueError := by
  unfold parseDateTime
  obtain ⟨s', hs⟩ := tzFixup_total g hg s
  rw [hs]
  exact runMatchers_total ms s'

end
end Upnp.C08
