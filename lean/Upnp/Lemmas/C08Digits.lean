/-
  C08 lemmas: decimal digits, `str(int)` / `int(str)` round trip.
-/
import Upnp.Model.C08Data
namespace Upnp.C08

theorem isDig_dc : ∀ n, n < 10 → isDig (dc n) = true := by decide
theorem dv_dc : ∀ n, n < 10 → dv (dc n) = n := by decide
theorem dc_not_space : ∀ n, n < 10 → isPySpace (dc n) = false := by decide
theorem dc_ne_minus : ∀ n, n < 10 → (dc n == '-') = false := by decide
theorem dc_ne_plus : ∀ n, n < 10 → (dc n == '+') = false := by decide

@[simp] theorem isDig_dc_mod (x : Nat) : isDig (dc (x % 10)) = true := isDig_dc _ (Nat.mod_lt _ (by decide))
@[simp] theorem dv_dc_mod (x : Nat) : dv (dc (x % 10)) = x % 10 := dv_dc _ (Nat.mod_lt _ (by decide))

theorem dc_ne_of_not_dig {n : Nat} (h : n < 10) {c : Char} (hc : isDig c = false) : (dc n == c) = false := by
  cases e : dc n == c
  · rfl
  · have : dc n = c := by simpa using e
    rw [← this, isDig_dc n h] at hc; cases hc

/-! ### digitsRev -/

theorem digitsRev_lt : ∀ f n, ∀ d ∈ digitsRev f n, d < 10 := by
  intro f
  induction f with
  | zero => intro n d h; simp [digitsRev] at h
  | succ f ih =>
    intro n d h
    unfold digitsRev at h
    split at h
    · simp at h; omega
    · simp only [List.mem_cons] at h
      rcases h with rfl | h
      · exact Nat.mod_lt _ (by decide)
      · exact ih _ _ h

theorem digitsRev_val : ∀ f n, n < f → (digitsRev f n).foldr (fun d a => a * 10 + d) 0 = n := by
  intro f
  induction f with
  | zero => intro n h; omega
  | succ f ih =>
    intro n h
    unfold digitsRev
    split
    · simp
    · simp only [List.foldr_cons]
      rw [ih (n / 10) (by omega)]
      omega

theorem digitsRev_ne_nil (f n : Nat) : digitsRev (f + 1) n ≠ [] := by
  unfold digitsRev; split <;> simp

theorem natDigits_lt (n : Nat) : ∀ d ∈ natDigits n, d < 10 := by
  intro d h
  exact digitsRev_lt _ _ d (by simpa [natDigits] using h)

theorem natDigits_ne_nil (n : Nat) : natDigits n ≠ [] := by
  simp [natDigits, digitsRev_ne_nil]

theorem natDigits_val (n : Nat) : (natDigits n).foldl (fun a d => a * 10 + d) 0 = n := by
  unfold natDigits
  rw [List.foldl_reverse]
  exact digitsRev_val (n + 1) n (by omega)

/-! ### parsing back -/

theorem parseDigits_map_dc : ∀ (l : List Nat), (∀ d ∈ l, d < 10) → ∀ acc prev, (l ≠ [] ∨ prev = true) →
    parseDigits (l.map dc) acc prev = some (l.foldl (fun a d => a * 10 + d) acc) := by
  intro l
  induction l with
  | nil => intro _ acc prev h; simp at h; simp [parseDigits, h]
  | cons d l ih =>
    intro hl acc prev _
    have hd : d < 10 := hl d (by simp)
    simp only [List.map_cons, parseDigits, isDig_dc d hd, if_true, dv_dc d hd, List.foldl_cons]
    exact ih (fun x hx => hl x (by simp [hx])) _ true (Or.inr rfl)

theorem countDigits_map_dc (l : List Nat) (hl : ∀ d ∈ l, d < 10) : countDigits (l.map dc) = l.length := by
  unfold countDigits
  rw [List.filter_eq_self.mpr]
  · simp
  · intro c hc
    obtain ⟨d, hd, rfl⟩ := List.mem_map.mp hc
    exact isDig_dc d (hl d hd)

theorem parseNat_decNat (n : Nat) (h : (natDigits n).length ≤ maxStrDigits) : parseNat (decNat n) = some n := by
  unfold parseNat decNat
  rw [countDigits_map_dc _ (natDigits_lt n)]
  rw [if_neg (by omega)]
  rw [parseDigits_map_dc _ (natDigits_lt n) 0 false (Or.inl (natDigits_ne_nil n)), natDigits_val]

theorem stripL_of_head {c : Char} {s : Str} (h : isPySpace c = false) : stripL (c :: s) = c :: s := by
  simp [stripL, h]

/-- a numeral has nothing to strip: it starts with a digit or a sign and ends with a digit -/
theorem strip_numeral (c : Char) (hc : isPySpace c = false) (l : List Nat) (_hl : ∀ d ∈ l, d < 10)
    (_hne : l ≠ [] ∨ True) (last : Nat) (hlast : last < 10) :
    strip (c :: (l.map dc ++ [dc last])) = c :: (l.map dc ++ [dc last]) := by
  unfold strip
  rw [stripL_of_head hc]
  have : (c :: (l.map dc ++ [dc last])).reverse = dc last :: ((l.map dc).reverse ++ [c]) := by simp
  rw [this, stripL_of_head (dc_not_space last hlast)]
  simp

theorem strip_digits (l : List Nat) (hl : ∀ d ∈ l, d < 10) (hne : l ≠ []) : strip (l.map dc) = l.map dc := by
  -- split l = first :: mid ++ [last] or a single digit
  match l, hne with
  | [d], _ =>
    have hd := hl d (by simp)
    simp [strip, stripL, dc_not_space d hd]
  | d :: e :: r, _ =>
    have hd := hl d (by simp)
    obtain ⟨init, last, hil⟩ : ∃ init last, e :: r = init ++ [last] :=
      ⟨(e :: r).dropLast, (e :: r).getLast (by simp), (List.dropLast_concat_getLast (by simp)).symm⟩
    have hlast : last < 10 := hl last (by rw [show d :: e :: r = d :: (init ++ [last]) by rw [hil]]; simp)
    have hinit : ∀ x ∈ init, x < 10 := fun x hx => hl x (by rw [show d :: e :: r = d :: (init ++ [last]) by rw [hil]]; simp [hx])
    have := strip_numeral (dc d) (dc_not_space d hd) init hinit (Or.inr trivial) last hlast
    rw [show (d :: e :: r).map dc = dc d :: (init.map dc ++ [dc last]) by rw [hil]; simp]
    exact this

/-- `int(str(i)) == i` for every integer `str` can print -/
theorem pyInt_decInt (i : Int) (h : (natDigits i.natAbs).length ≤ maxStrDigits) : pyInt? (decInt i) = some i := by
  have hl := natDigits_lt i.natAbs
  have hne := natDigits_ne_nil i.natAbs
  unfold pyInt? decInt
  by_cases hi : i < 0
  · rw [if_pos hi]
    -- '-' :: digits
    obtain ⟨init, last, hil⟩ : ∃ init last, natDigits i.natAbs = init ++ [last] :=
      ⟨(natDigits i.natAbs).dropLast, (natDigits i.natAbs).getLast hne, (List.dropLast_concat_getLast hne).symm⟩
    have hlast : last < 10 := hl last (by rw [hil]; simp)
    have hinit : ∀ x ∈ init, x < 10 := fun x hx => hl x (by rw [hil]; simp [hx])
    have hs := strip_numeral '-' (by decide) init hinit (Or.inr trivial) last hlast
    have hd : decNat i.natAbs = init.map dc ++ [dc last] := by simp [decNat, hil]
    rw [hd, hs]
    simp only [beq_self_eq_true, if_true]
    rw [← hd, parseNat_decNat _ h]
    simp only [Option.map_some, Option.some.injEq]
    have : Int.ofNat i.natAbs = (i.natAbs : Int) := rfl
    rw [this]; omega
  · rw [if_neg hi]
    rw [show decNat i.natAbs = (natDigits i.natAbs).map dc from rfl, strip_digits _ hl hne]
    match hnd : natDigits i.natAbs, hne with
    | d :: r, _ =>
      have hd : d < 10 := hl d (by rw [hnd]; simp)
      simp only [List.map_cons, dc_ne_minus d hd, dc_ne_plus d hd, Bool.false_eq_true, if_false]
      have : dc d :: r.map dc = decNat i.natAbs := by simp [decNat, hnd]
      rw [this, parseNat_decNat _ h]
      simp only [Option.map_some, Option.some.injEq]
      have : Int.ofNat i.natAbs = (i.natAbs : Int) := rfl
      rw [this]; omega

end Upnp.C08
