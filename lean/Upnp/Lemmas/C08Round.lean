/-
  C08 lemmas: round trip and accepted spellings for every shape of table row.
-/
import Upnp.Lemmas.C08Dates
import Upnp.Spec.C08
namespace Upnp.C08

/-- the row shapes for which the round trip is proved: (Python class, "in" entry, "out" entry) -/
def goodKinds : List (PyType × InKind × OutKind) := [
  (.int, .int, .strInt),
  (.float, .float, .str),
  (.str, .str, .str),
  (.bool, .lowerIn [['1'], ['t','r','u','e'], ['y','e','s']], .ifElse ['1'] ['0']),
  (.date, .parseDateTime, .isoformat []),
  (.datetime, .parseDateTime, .isoformat [['T'], ['s','e','c','o','n','d','s']]),
  (.time, .parseDateTime, .isoformat [['s','e','c','o','n','d','s']])]

def goodRow (r : TypeRow) : Bool := goodKinds.contains (r.ty, r.inK, r.outK)

/-- what the proofs need from the generated table besides the rows -/
structure GoodTable (tb : Table) : Prop where
  matchers : tb.matchers = expectedMatchers
  guard : tb.tzGuard = some 6

/-- Python's documented guarantee `float(repr(x)) == x` (assumed, sampled by the harness) -/
def FloatOps.RoundTrips {F : Type} (fo : FloatOps F) : Prop := ∀ x, fo.parse (fo.repr x) = some x

/-- in-domain values of exactly the declared class -/
def exactDomain {F : Type} (ty : PyType) (v : Val F) : Bool :=
  v.exactType ty && v.wellFormed &&
  (match v with
   | .int i => (natDigits i.natAbs).length ≤ maxStrDigits
   | _ => true)

section
variable {F : Type} [DecidableEq F] (fo : FloatOps F)

theorem timeSpec_seconds : timeSpec? ['s','e','c','o','n','d','s'] = some .seconds := by decide

theorem lower_mask_word : ∀ (w : Str), (∀ c ∈ w, asciiLower (asciiUpper c) = c ∧ asciiLower c = c) →
    ∀ m, lowerStr (applyMask w m) = w := by
  intro w
  induction w with
  | nil => intro _ m; rfl
  | cons c r ih =>
    intro h m
    have hc := h c (by simp)
    simp only [applyMask, lowerStr, List.map_cons]
    have := ih (fun x hx => h x (by simp [hx])) (m / 2)
    simp only [lowerStr] at this
    rw [this]
    split <;> simp [hc.1, hc.2]

theorem letters_ok : ∀ c ∈ ['t','r','u','e','y','s','f','a','l','n','o','1','0'],
    asciiLower (asciiUpper c) = c ∧ asciiLower c = c := by decide

theorem lower_mask (w : Str) (hw : ∀ c ∈ w, c ∈ ['t','r','u','e','y','s','f','a','l','n','o','1','0']) (m : Nat) :
    lowerStr (applyMask w m) = w :=
  lower_mask_word w (fun c hc => letters_ok c (hw c hc)) m

/-- round trip for one row of a good shape -/
theorem roundtrip_exact_pt (tb : Table) (ht : GoodTable tb) (row : TypeRow) (hr : goodRow row = true)
    (v : Val F) (hf : ∀ f, v = .float f → fo.parse (fo.repr f) = some f) (hv : exactDomain row.ty v = true) :
    coerceUpnp fo row v = .ok (wire fo v) ∧ coercePython fo tb row (wire fo v) = .ok v := by
  obtain ⟨name, ty, inK, outK, tz⟩ := row
  simp only [goodRow, goodKinds, List.contains_cons, List.contains_nil, Bool.or_false, Bool.or_eq_true, beq_iff_eq,
    Prod.mk.injEq] at hr
  simp only [exactDomain, Bool.and_eq_true] at hv
  obtain ⟨⟨hty, hwf⟩, hdig⟩ := hv
  rcases hr with ⟨rfl, rfl, rfl⟩ | ⟨rfl, rfl, rfl⟩ | ⟨rfl, rfl, rfl⟩ | ⟨rfl, rfl, rfl⟩ | ⟨rfl, rfl, rfl⟩ | ⟨rfl, rfl, rfl⟩ | ⟨rfl, rfl, rfl⟩
  · -- int
    cases v <;> simp [Val.exactType] at hty
    rename_i i
    simp only [decide_eq_true_eq] at hdig
    constructor
    · simp [coerceUpnp, pyIntOf, intStr, wire]; omega
    · simp [coercePython, wire, pyInt_decInt i hdig]
  · -- float
    cases v <;> simp [Val.exactType] at hty
    rename_i f
    exact ⟨by simp [coerceUpnp, pyStr, wire], by simp [coercePython, wire, hf f rfl]⟩
  · -- str
    cases v <;> simp [Val.exactType] at hty
    exact ⟨by simp [coerceUpnp, pyStr, wire], by simp [coercePython, wire]⟩
  · -- bool
    cases v <;> simp [Val.exactType] at hty
    rename_i b
    cases b
    · exact ⟨by simp [coerceUpnp, truthy, wire], by simp [coercePython, wire]; decide⟩
    · exact ⟨by simp [coerceUpnp, truthy, wire], by simp [coercePython, wire]; decide⟩
  · -- date
    cases v <;> simp [Val.exactType] at hty
    rename_i d
    simp only [Val.wellFormed] at hwf
    exact ⟨by simp [coerceUpnp, isoformat, wire],
           by simp only [coercePython, wire, ht.matchers, ht.guard]; exact parse_isoDate d hwf⟩
  · -- datetime
    cases v <;> simp [Val.exactType] at hty
    rename_i d t o
    simp only [Val.wellFormed, Bool.and_eq_true] at hwf
    obtain ⟨⟨hd, htv⟩, ho⟩ := hwf
    constructor
    · simp [coerceUpnp, isoformat, wire, timeSpec_seconds]
    · simp only [coercePython, wire, ht.matchers, ht.guard]
      cases o with
      | none => simpa [isoOff] using parse_isoDateTime (F := F) 'T' (Or.inl rfl) d t hd htv
      | some x =>
        rw [isoOff_eq]
        exact parse_isoDateTime_off false true d t x hd htv ho
  · -- time
    cases v <;> simp [Val.exactType] at hty
    rename_i t o
    simp only [Val.wellFormed, Bool.and_eq_true] at hwf
    obtain ⟨htv, ho⟩ := hwf
    constructor
    · simp [coerceUpnp, isoformat, wire, timeSpec_seconds]
    · simp only [coercePython, wire, ht.matchers, ht.guard]
      cases o with
      | none => simpa [isoOff] using parse_isoTime (F := F) t htv
      | some x =>
        rw [isoOff_eq]
        exact parse_isoTime_off false true t x htv ho

/-- round trip for one row of a good shape (global float assumption; the pointwise form is `roundtrip_exact_pt`) -/
theorem roundtrip_exact (tb : Table) (ht : GoodTable tb) (row : TypeRow) (hr : goodRow row = true)
    (hf : fo.RoundTrips) (v : Val F) (hv : exactDomain row.ty v = true) :
    coerceUpnp fo row v = .ok (wire fo v) ∧ coercePython fo tb row (wire fo v) = .ok v :=
  roundtrip_exact_pt fo tb ht row hr v (fun f _ => hf f) hv

theorem offPlainStr_eq (o : Int) : offPlainStr o = offText false false o := by
  simp [offPlainStr, offText]

theorem good_temporal_in (row : TypeRow) (hr : goodRow row = true)
    (h : row.ty = .datetime ∨ row.ty = .time) : row.inK = .parseDateTime := by
  obtain ⟨name, ty, inK, outK, tz⟩ := row
  simp only [goodRow, goodKinds, List.contains_cons, List.contains_nil, Bool.or_false, Bool.or_eq_true, beq_iff_eq,
    Prod.mk.injEq] at hr
  simp only at h
  rcases hr with ⟨rfl, rfl, rfl⟩ | ⟨rfl, rfl, rfl⟩ | ⟨rfl, rfl, rfl⟩ | ⟨rfl, rfl, rfl⟩ | ⟨rfl, rfl, rfl⟩ | ⟨rfl, rfl, rfl⟩ | ⟨rfl, rfl, rfl⟩ <;>
    first | rfl | (rcases h with h | h <;> cases h)

/-- every accepted spelling of an in-domain value is read back as that value -/
theorem spelling_exact_pt (tb : Table) (ht : GoodTable tb) (row : TypeRow) (hr : goodRow row = true)
    (sp : Spelling) (v : Val F) (hf : ∀ f, v = .float f → fo.parse (fo.repr f) = some f) (s : Str)
    (hv : exactDomain row.ty v = true)
    (hs : spell fo sp v = some s) : coercePython fo tb row s = .ok v := by
  cases sp with
  | canon =>
    simp only [spell, Option.some.injEq] at hs
    subst hs
    exact (roundtrip_exact_pt fo tb ht row hr v hf hv).2
  | boolWord k m =>
    obtain ⟨name, ty, inK, outK, tz⟩ := row
    cases v <;> simp [spell] at hs
    rename_i b
    simp only [exactDomain, Val.exactType, Bool.and_eq_true, beq_iff_eq] at hv
    have hty : ty = .bool := hv.1.1
    subst hty
    simp only [goodRow, goodKinds, List.contains_cons, List.contains_nil, Bool.or_false, Bool.or_eq_true, beq_iff_eq,
      Prod.mk.injEq] at hr
    rcases hr with ⟨h, _, _⟩ | ⟨h, _, _⟩ | ⟨h, _, _⟩ | ⟨_, rfl, rfl⟩ | ⟨h, _, _⟩ | ⟨h, _, _⟩ | ⟨h, _, _⟩ <;> try cases h
    cases b
    · match k, hs with
      | 0, hs => simp at hs; subst hs; simp [coercePython]; decide
      | 1, hs => simp at hs; subst hs; simp only [coercePython]; rw [lower_mask _ (by decide)]; simp
      | 2, hs => simp at hs; subst hs; simp only [coercePython]; rw [lower_mask _ (by decide)]; simp
      | _ + 3, hs => simp at hs
    · match k, hs with
      | 0, hs => simp at hs; subst hs; simp [coercePython]; decide
      | 1, hs => simp at hs; subst hs; simp only [coercePython]; rw [lower_mask _ (by decide)]; simp
      | 2, hs => simp at hs; subst hs; simp only [coercePython]; rw [lower_mask _ (by decide)]; simp
      | _ + 3, hs => simp at hs
  | dtSpace =>
    cases v <;> simp [spell] at hs
    rename_i d t o
    cases o <;> simp at hs
    subst hs
    simp only [exactDomain, Val.exactType, Val.wellFormed, Bool.and_eq_true, beq_iff_eq] at hv
    obtain ⟨⟨hty, ⟨hd, htv⟩, _⟩, _⟩ := hv
    simp only [coercePython, good_temporal_in row hr (Or.inl hty), ht.matchers, ht.guard]
    exact parse_isoDateTime ' ' (Or.inr rfl) d t hd htv
  | offPlain =>
    cases v <;> simp [spell] at hs
    · rename_i d t o
      cases o <;> simp at hs
      rename_i x
      subst hs
      simp only [exactDomain, Val.exactType, Val.wellFormed, Bool.and_eq_true, beq_iff_eq] at hv
      obtain ⟨⟨hty, ⟨hd, htv⟩, ho⟩, _⟩ := hv
      simp only [coercePython, good_temporal_in row hr (Or.inl hty), ht.matchers, ht.guard]
      rw [offPlainStr_eq]
      simpa using parse_isoDateTime_off (F := F) false false d t x hd htv ho
    · rename_i t o
      cases o <;> simp at hs
      rename_i x
      subst hs
      simp only [exactDomain, Val.exactType, Val.wellFormed, Bool.and_eq_true, beq_iff_eq] at hv
      obtain ⟨⟨hty, htv, ho⟩, _⟩ := hv
      simp only [coercePython, good_temporal_in row hr (Or.inr hty), ht.matchers, ht.guard]
      rw [offPlainStr_eq]
      exact parse_isoTime_off false false t x htv ho
  | offSpacePlain =>
    cases v <;> simp [spell] at hs
    · rename_i d t o
      cases o <;> simp at hs
      rename_i x
      subst hs
      simp only [exactDomain, Val.exactType, Val.wellFormed, Bool.and_eq_true, beq_iff_eq] at hv
      obtain ⟨⟨hty, ⟨hd, htv⟩, ho⟩, _⟩ := hv
      simp only [coercePython, good_temporal_in row hr (Or.inl hty), ht.matchers, ht.guard]
      have := parse_isoDateTime_off (F := F) true false d t x hd htv ho
      simpa [offText, offPlainStr] using this
    · rename_i t o
      cases o <;> simp at hs
      rename_i x
      subst hs
      simp only [exactDomain, Val.exactType, Val.wellFormed, Bool.and_eq_true, beq_iff_eq] at hv
      obtain ⟨⟨hty, htv, ho⟩, _⟩ := hv
      simp only [coercePython, good_temporal_in row hr (Or.inr hty), ht.matchers, ht.guard]
      have := parse_isoTime_off (F := F) true false t x htv ho
      simpa [offText, offPlainStr] using this
  | offSpaceColon =>
    cases v <;> simp [spell] at hs
    · rename_i d t o
      cases o <;> simp at hs
      rename_i x
      subst hs
      simp only [exactDomain, Val.exactType, Val.wellFormed, Bool.and_eq_true, beq_iff_eq] at hv
      obtain ⟨⟨hty, ⟨hd, htv⟩, ho⟩, _⟩ := hv
      simp only [coercePython, good_temporal_in row hr (Or.inl hty), ht.matchers, ht.guard]
      have := parse_isoDateTime_off (F := F) true true d t x hd htv ho
      simpa [offText, isoOff] using this
    · rename_i t o
      cases o <;> simp at hs
      rename_i x
      subst hs
      simp only [exactDomain, Val.exactType, Val.wellFormed, Bool.and_eq_true, beq_iff_eq] at hv
      obtain ⟨⟨hty, htv, ho⟩, _⟩ := hv
      simp only [coercePython, good_temporal_in row hr (Or.inr hty), ht.matchers, ht.guard]
      have := parse_isoTime_off (F := F) true true t x htv ho
      simpa [offText, isoOff] using this
  | zulu up =>
    cases v <;> simp [spell] at hs
    rename_i d t o
    cases o <;> simp at hs
    rename_i x
    obtain ⟨hx, hs⟩ := hs
    subst hx hs
    simp only [exactDomain, Val.exactType, Val.wellFormed, Bool.and_eq_true, beq_iff_eq] at hv
    obtain ⟨⟨hty, ⟨hd, htv⟩, _⟩, _⟩ := hv
    simp only [coercePython, good_temporal_in row hr (Or.inl hty), ht.matchers, ht.guard]
    simpa using parse_isoDateTime_zulu (F := F) up d t hd htv

theorem spelling_exact (tb : Table) (ht : GoodTable tb) (row : TypeRow) (hr : goodRow row = true)
    (hf : fo.RoundTrips) (sp : Spelling) (v : Val F) (s : Str) (hv : exactDomain row.ty v = true)
    (hs : spell fo sp v = some s) : coercePython fo tb row s = .ok v :=
  spelling_exact_pt fo tb ht row hr sp v (fun f _ => hf f) s hv hs

/-! ### the full round-trip domain: exact class, or a `bool` under an integer type -/

theorem rtDomain_cases (ty : PyType) (v : Val F) (h : rtDomain ty v = true) :
    exactDomain ty v = true ∨ (ty = .int ∧ ∃ b, v = .bool b) := by
  simp only [rtDomain, valueOk, boolAsInt, Bool.and_eq_true, Bool.or_eq_true, beq_iff_eq] at h
  obtain ⟨h1, h2, h3⟩ := h
  rcases h1 with h1 | ⟨h1, hb⟩
  · left; simp only [exactDomain, Bool.and_eq_true]; exact ⟨⟨h1, h2⟩, h3⟩
  · right
    refine ⟨h1, ?_⟩
    cases v <;> simp at hb
    exact ⟨_, rfl⟩

theorem expectBack_exact (ty : PyType) (v : Val F) (h : v.exactType ty = true) : expectBack ty v = v := by
  cases ty <;> cases v <;> simp [Val.exactType] at h <;> rfl

theorem exactDomain_exact (ty : PyType) (v : Val F) (h : exactDomain ty v = true) : v.exactType ty = true := by
  simp only [exactDomain, Bool.and_eq_true] at h; exact h.1.1

/-- an integer row of a good shape sends a `bool` as `1`/`0` and reads it back as the integer `1`/`0` -/
theorem roundtrip_bool_int (tb : Table) (row : TypeRow) (hr : goodRow row = true) (hty : row.ty = .int) (b : Bool) :
    coerceUpnp fo row (.bool b) = .ok [if b then '1' else '0']
    ∧ coercePython fo tb row [if b then '1' else '0'] = .ok (.int (if b then 1 else 0)) := by
  obtain ⟨name, ty, inK, outK, tz⟩ := row
  simp only at hty
  subst hty
  simp only [goodRow, goodKinds, List.contains_cons, List.contains_nil, Bool.or_false, Bool.or_eq_true, beq_iff_eq,
    Prod.mk.injEq] at hr
  rcases hr with ⟨_, rfl, rfl⟩ | ⟨h, _, _⟩ | ⟨h, _, _⟩ | ⟨h, _, _⟩ | ⟨h, _, _⟩ | ⟨h, _, _⟩ | ⟨h, _, _⟩ <;> try cases h
  have i0 : intStr 0 = .ok ['0'] := rfl
  have i1 : intStr 1 = .ok ['1'] := rfl
  have p0 : pyInt? ['0'] = some 0 := by decide
  have p1 : pyInt? ['1'] = some 1 := by decide
  cases b
  · exact ⟨by simp [coerceUpnp, pyIntOf, i0], by simp [coercePython, p0]⟩
  · exact ⟨by simp [coerceUpnp, pyIntOf, i1], by simp [coercePython, p1]⟩

/-- round trip for one row of a good shape, over the whole round-trip domain -/
theorem roundtrip_row (tb : Table) (ht : GoodTable tb) (row : TypeRow) (hr : goodRow row = true)
    (hf : fo.RoundTrips) (v : Val F) (hv : rtDomain row.ty v = true) :
    coerceUpnp fo row v = .ok (wire fo v) ∧ coercePython fo tb row (wire fo v) = .ok (expectBack row.ty v) := by
  rcases rtDomain_cases row.ty v hv with he | ⟨hty, b, rfl⟩
  · rw [expectBack_exact row.ty v (exactDomain_exact row.ty v he)]
    exact roundtrip_exact fo tb ht row hr hf v he
  · have := roundtrip_bool_int fo tb row hr hty b
    simp only [wire, expectBack, hty]
    exact this

/-- the same with the float assumption only for the float at hand: for a value that is not a float
    NO assumption about floats is needed -/
theorem roundtrip_row_pt (tb : Table) (ht : GoodTable tb) (row : TypeRow) (hr : goodRow row = true)
    (v : Val F) (hf : ∀ f, v = .float f → fo.parse (fo.repr f) = some f) (hv : rtDomain row.ty v = true) :
    coerceUpnp fo row v = .ok (wire fo v) ∧ coercePython fo tb row (wire fo v) = .ok (expectBack row.ty v) := by
  rcases rtDomain_cases row.ty v hv with he | ⟨hty, b, rfl⟩
  · rw [expectBack_exact row.ty v (exactDomain_exact row.ty v he)]
    exact roundtrip_exact_pt fo tb ht row hr v hf he
  · have := roundtrip_bool_int fo tb row hr hty b
    simp only [wire, expectBack, hty]
    exact this

/-- every accepted spelling of an in-domain value is read back as that value -/
theorem spelling_row (tb : Table) (ht : GoodTable tb) (row : TypeRow) (hr : goodRow row = true)
    (hf : fo.RoundTrips) (sp : Spelling) (v : Val F) (s : Str) (hv : spellDomain row.ty sp v = true)
    (hs : spell fo sp v = some s) : coercePython fo tb row s = .ok (expectBack row.ty v) := by
  simp only [spellDomain, Bool.and_eq_true, Bool.or_eq_true, beq_iff_eq] at hv
  obtain ⟨hd, hsp⟩ := hv
  rcases hsp with rfl | hex
  · simp only [spell, Option.some.injEq] at hs
    subst hs
    exact (roundtrip_row fo tb ht row hr hf v hd).2
  · rw [expectBack_exact row.ty v hex]
    rcases rtDomain_cases row.ty v hd with he | ⟨hty, b, rfl⟩
    · exact spelling_exact fo tb ht row hr hf sp v s he hs
    · simp [Val.exactType, hty] at hex

/-- spellings with the float assumption only for the float at hand -/
theorem spelling_row_pt (tb : Table) (ht : GoodTable tb) (row : TypeRow) (hr : goodRow row = true)
    (sp : Spelling) (v : Val F) (hf : ∀ f, v = .float f → fo.parse (fo.repr f) = some f) (s : Str)
    (hv : spellDomain row.ty sp v = true) (hs : spell fo sp v = some s) :
    coercePython fo tb row s = .ok (expectBack row.ty v) := by
  simp only [spellDomain, Bool.and_eq_true, Bool.or_eq_true, beq_iff_eq] at hv
  obtain ⟨hd, hsp⟩ := hv
  rcases hsp with rfl | hex
  · simp only [spell, Option.some.injEq] at hs
    subst hs
    exact (roundtrip_row_pt fo tb ht row hr v hf hd).2
  · rw [expectBack_exact row.ty v hex]
    rcases rtDomain_cases row.ty v hd with he | ⟨hty, b, rfl⟩
    · exact spelling_exact_pt fo tb ht row hr sp v hf s he hs
    · simp [Val.exactType, hty] at hex

end
end Upnp.C08
