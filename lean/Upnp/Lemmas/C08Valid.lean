/-
  C08 lemmas: totality of the converters, the schema built from a declaration, the setters.
-/
import Upnp.Lemmas.C08Round
namespace Upnp.C08

section
variable {F : Type} [DecidableEq F] (fo : FloatOps F)

/-- every `"in"` entry answers any string with a value or with ValueError -/
theorem coercePython_total (tb : Table) (g : Nat) (hg : tb.tzGuard = some g) (h6 : 6 ≤ g) (row : TypeRow) (s : Str) :
    (∃ v, coercePython fo tb row s = .ok v) ∨ coercePython fo tb row s = .error .valueError := by
  unfold coercePython
  cases row.inK with
  | int => simp only; split <;> simp
  | float => simp only; split <;> simp
  | str => simp
  | lowerIn l => simp
  | parseDateTime => simp only [hg]; exact parseDateTime_total _ g h6 s

theorem inOk_of_total {r : Except Err (Val F)} (h : (∃ v, r = .ok v) ∨ r = .error .valueError) : inOk r = true := by
  rcases h with ⟨v, rfl⟩ | rfl <;> simp [inOk]

/-! ### what the declared texts denote -/

/-- an optional declared text denotes an optional value (`None` and the empty text declare nothing) -/
def DenOpt (inC : Str → Except Err (Val F)) (o : Option Str) (ov : Option (Val F)) : Prop :=
  match nonEmpty o with
  | none => ov = none
  | some s => ∃ v, ov = some v ∧ inC s = .ok v

/-- the declaration `d` (texts) denotes `dv` (values) under the row's `"in"` entry -/
structure Denotes (inC : Str → Except Err (Val F)) (d : Decl) (dv : DeclVals F) : Prop where
  range : match d.range with
    | none => dv.min = none ∧ dv.max = none
    | some (mn, mx) => DenOpt inC mn dv.min ∧ DenOpt inC mx dv.max
  allowed : match d.allowed with
    | none => dv.allowed = none
    | some [] => dv.allowed = none
    | some (x :: l) => ∃ vs, dv.allowed = some vs ∧ mapM' inC (x :: l) = .ok vs

theorem optM_den {inC : Str → Except Err (Val F)} {o : Option Str} {ov : Option (Val F)} (h : DenOpt inC o ov) :
    optM inC (nonEmpty o) = .ok ov := by
  unfold DenOpt at h
  cases hn : nonEmpty o with
  | none => rw [hn] at h; subst h; rfl
  | some s =>
    rw [hn] at h
    obtain ⟨v, rfl, hv⟩ := h
    simp [optM, hv]

/-- a well-formed declaration (no default) always yields the schema of its denotation -/
theorem mkSchema_denotes_default (tb : Table) (row : TypeRow) (d : Decl) (dv : DeclVals F)
    (hd : Denotes (coercePython fo tb row) d dv) (hdef : schemaDefault fo tb row d.default = .ok ()) :
    mkSchema fo tb row true d =
      .ok { ty := row.ty, requireTz := row.requireTz, allowed := dv.allowed, min := dv.min, max := dv.max } := by
  obtain ⟨hr, ha⟩ := hd
  have h1 : schemaAllowed (coercePython fo tb row) true d.allowed = .ok dv.allowed := by
    unfold schemaAllowed
    simp only [if_true]
    cases hda : d.allowed with
    | none => rw [hda] at ha; simp [ha]
    | some l =>
      cases l with
      | nil => rw [hda] at ha; simp at ha; simp [ha]
      | cons x l =>
        rw [hda] at ha
        obtain ⟨vs, hvs, hm⟩ := ha
        simp [optM, hm, hvs]
  have h2 : schemaRange (coercePython fo tb row) true d.range = .ok (dv.min, dv.max) := by
    unfold schemaRange
    simp only [if_true]
    cases hdr : d.range with
    | none => rw [hdr] at hr; simp [hr.1, hr.2]
    | some p =>
      obtain ⟨mn, mx⟩ := p
      rw [hdr] at hr
      simp [optM_den hr.1, optM_den hr.2]
  unfold mkSchema
  rw [h1, h2, hdef]

/-- the conversion of a declared default succeeds when there is none (or an empty one), for the boolean
    row, and otherwise when the source converts it with the row's own `"in"` entry and the text denotes a value -/
theorem schemaDefault_ok (tb : Table) (row : TypeRow) (o : Option Str)
    (h : nonEmpty o = none ∨ row.ty = .bool
      ∨ (tb.defaultViaIn = true ∧ ∀ s, nonEmpty o = some s → ∃ v, coercePython fo tb row s = .ok v)) :
    schemaDefault fo tb row o = .ok () := by
  unfold schemaDefault
  cases hn : nonEmpty o with
  | none => rfl
  | some s =>
    simp only
    rcases h with h | h | ⟨hvia, h⟩
    · rw [hn] at h; cases h
    · simp [h]
    · obtain ⟨v, hv⟩ := h s hn
      by_cases hb : (row.ty == PyType.bool) = true
      · simp [hb]
      · simp [hb, hvia, hv]

/-- a well-formed declaration without default always yields the schema of its denotation -/
theorem mkSchema_denotes (tb : Table) (row : TypeRow) (d : Decl) (dv : DeclVals F)
    (hd : Denotes (coercePython fo tb row) d dv) (hdef : d.default = none) :
    mkSchema fo tb row true d =
      .ok { ty := row.ty, requireTz := row.requireTz, allowed := dv.allowed, min := dv.min, max := dv.max } :=
  mkSchema_denotes_default fo tb row d dv hd (by simp [schemaDefault, hdef, nonEmpty])

/-- the schema's check is the property's acceptance predicate for the denoted declaration -/
theorem check_eq_accept (ty : PyType) (tz : Bool) (dv : DeclVals F) (v : Val F) :
    Schema.check fo { ty := ty, requireTz := tz, allowed := dv.allowed, min := dv.min, max := dv.max } v
      = accept fo ty tz dv v := rfl

/-- texts that are the wire forms of in-domain values denote those values -/
theorem mapM_wire (tb : Table) (ht : GoodTable tb) (row : TypeRow) (hr : goodRow row = true) (hf : fo.RoundTrips) :
    ∀ (vs : List (Val F)), (∀ v ∈ vs, rtDomain row.ty v = true) →
      mapM' (coercePython fo tb row) (vs.map (wire fo)) = .ok (vs.map (expectBack row.ty)) := by
  intro vs
  induction vs with
  | nil => intro _; rfl
  | cons v r ih =>
    intro h
    simp only [List.map_cons, mapM']
    rw [(roundtrip_row fo tb ht row hr hf v (h v (by simp))).2, ih (fun x hx => h x (by simp [hx]))]

/-! ### the setters -/

theorem setValue_ok (ty : PyType) (tz : Bool) (dv : DeclVals F) (c : Cell F) (v : Val F) :
    let sc : Schema F := { ty := ty, requireTz := tz, allowed := dv.allowed, min := dv.min, max := dv.max }
    setOk fo ty tz dv v (setValue fo sc c v).2 c.read (setValue fo sc c v).1.read = true := by
  intro sc
  unfold setOk setValue
  rw [show sc.check fo v = accept fo ty tz dv v from rfl]
  cases accept fo ty tz dv v <;> simp [Cell.read]

theorem setUpnpValue_ok (tb : Table) (row : TypeRow) (dv : DeclVals F) (c : Cell F) (s : Str) :
    let sc : Schema F := { ty := row.ty, requireTz := row.requireTz, allowed := dv.allowed, min := dv.min, max := dv.max }
    setUpnpOk fo row.ty row.requireTz dv (coercePython fo tb row s) (setUpnpValue fo tb row sc c s).2 c.read
      (setUpnpValue fo tb row sc c s).1.read = true := by
  intro sc
  unfold setUpnpOk setUpnpValue
  cases hcv : coercePython fo tb row s with
  | ok v => exact setValue_ok fo row.ty row.requireTz dv c v
  | error e => cases e <;> simp [Cell.read]

/-- operations on the value cell -/
inductive CellOp (F : Type)
  | set (v : Val F)
  | setUpnp (s : Str)

def stepCell (tb : Table) (row : TypeRow) (sc : Schema F) (c : Cell F) : CellOp F → Cell F
  | .set v => (setValue fo sc c v).1
  | .setUpnp s => (setUpnpValue fo tb row sc c s).1

/-- the cell holds `None` (never set), the error sentinel, or a value the schema accepts -/
def CellInv (sc : Schema F) : Cell F → Prop
  | .err => True
  | .val v => v = .none ∨ sc.check fo v = true

theorem stepCell_inv (tb : Table) (row : TypeRow) (sc : Schema F) (c : Cell F) (op : CellOp F)
    (h : CellInv fo sc c) : CellInv fo sc (stepCell fo tb row sc c op) := by
  cases op with
  | set v =>
    simp only [stepCell, setValue]
    split
    · rename_i hc; exact Or.inr hc
    · exact h
  | setUpnp s =>
    simp only [stepCell, setUpnpValue]
    split
    · simp only [setValue]
      split
      · rename_i hc; exact Or.inr hc
      · exact h
    · trivial
    · exact h

end
end Upnp.C08
