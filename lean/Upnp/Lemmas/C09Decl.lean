/-
  C09 — a first-order reading of the publisher-side fold `foldExch` (the judge's registry clause).

  `Grants`, `Revokes` and `Continues` are written out here WITHOUT the model's `renewedSid`; `foldExch_get` and
  `foldl_foldExch_get` say that the judge's expected table is exactly "granted and not revoked since".
-/
import Upnp.Lemmas.C09Reg
namespace Upnp.C09
open Upnp PyDict

/-- an accepted renewal of `s0`, answered with SID header `sid'`, continues under SID `s`: a non-empty SID
    different from `s0` replaces it, anything else (no header, empty, the same) keeps `s0` -/
def Continues (s0 : Str) (sid' : Option Str) (s : Str) : Prop :=
  (sid' = some s ∧ s ≠ [] ∧ s ≠ s0) ∨ (s = s0 ∧ (sid' = none ∨ sid' = some [] ∨ sid' = some s0))

theorem continues_iff (s0 : Str) (sid' : Option Str) (s : Str) : Continues s0 sid' s ↔ s = renewedSid s0 sid' := by
  cases sid' with
  | none => simp [Continues, renewedSid]
  | some s' =>
    simp only [Continues, renewedSid]
    by_cases h1 : s' = [] <;> by_cases h2 : s' = s0 <;> simp only [h1, h2, ne_eq, not_true_eq_false, not_false_eq_true,
      and_self, and_false, false_and, if_false, if_true, Option.some.injEq, reduceCtorEq, false_or, or_false, true_or, or_true, and_true]
    · constructor
      · rintro (⟨h, hne, _⟩ | h)
        · exact absurd h.symm hne
        · exact h
      · intro h; exact Or.inr h
    · constructor
      · rintro (⟨h, hne, _⟩ | h)
        · exact absurd h.symm hne
        · exact h
      · intro h; exact Or.inr h
    · constructor
      · rintro (⟨h, _, hne⟩ | h)
        · exact absurd h.symm hne
        · exact h
      · intro h; exact Or.inr h
    · constructor
      · intro h; exact h.1.symm
      · intro h; subst h; exact ⟨rfl, h1, h2⟩

/-- the exchange grants SID `s` to service `j`: a 200 to an initial SUBSCRIBE (no SID header) for `j` that carries
    SID `s`, or a 200 to a renewal (SID header `s0`) for `j` that continues under `s` -/
def Grants (e : Exch) (s : Str) (j : Nat) : Prop :=
  e.req.method = mSUBSCRIBE ∧ j = e.req.svc ∧ ∃ sid' th, e.react = .resp 200 sid' th ∧
    ((hdr e.req kSID = none ∧ sid' = some s) ∨ (∃ s0, hdr e.req kSID = some s0 ∧ Continues s0 sid' s))

/-- the exchange revokes SID `s`: an UNSUBSCRIBE for `s` was issued (answered or not), or a renewal of `s` was not
    accepted under the same SID (refused, unreachable, or accepted under another SID) -/
def Revokes (e : Exch) (s : Str) : Prop :=
  hdr e.req kSID = some s ∧
    (e.req.method = mUNSUBSCRIBE ∨
     (e.req.method = mSUBSCRIBE ∧ ¬ ∃ sid' th, e.react = .resp 200 sid' th ∧ Continues s sid' s))

theorem sub_ne_unsub : mSUBSCRIBE ≠ mUNSUBSCRIBE := by decide

/-- **One exchange, read declaratively**: afterwards the publisher expects SID `s` at service `j` iff the exchange
    grants `(s, j)`, or it neither grants nor revokes `s` and `s` was expected at `j` before. -/
theorem foldExch_get (rt : PyDict Str Nat) (hn : (keys rt).Nodup) (e : Exch) (s : Str) (j : Nat) :
    get? (foldExch rt e) s = some j ↔
      Grants e s j ∨ ((∀ j', ¬ Grants e s j') ∧ ¬ Revokes e s ∧ get? rt s = some j) := by
  simp only [Grants, Revokes, continues_iff]
  unfold foldExch
  by_cases hm : e.req.method = mSUBSCRIBE
  · have hmu : e.req.method ≠ mUNSUBSCRIBE := fun h => sub_ne_unsub (hm.symm.trans h)
    simp only [hm, if_true]
    cases hh : hdr e.req kSID with
    | none =>
      cases hr : e.react with
      | connErr => simp
      | connTimeout => simp
      | resp st sid' th =>
        cases sid' with
        | none => simp
        | some s1 =>
          by_cases h200 : st = 200
          · subst h200
            by_cases hs : s1 = s
            · subst hs; simp [get?_set_self]; exact eq_comm
            · simp [hs, get?_set_ne _ _ _ _ hs]
          · simp [h200]
    | some s0 =>
      simp only []
      have herase : ∀ x, get? (erase rt s0) s = some x ↔ (s0 ≠ s ∧ get? rt s = some x) := by
        intro x
        by_cases hs : s0 = s
        · subst hs; simp [get?_erase_self _ _ hn]
        · simp [get?_erase_ne _ _ _ hs, hs]
      cases hr : e.react with
      | connErr => simp [herase]
      | connTimeout => simp [herase]
      | resp st sid' th =>
        by_cases h200 : st = 200
        · subst h200
          simp only [if_true]
          by_cases h2 : renewedSid s0 sid' = s0
          · simp only [h2, ne_eq, not_true_eq_false, if_false]
            by_cases hs : s0 = s
            · subst hs; simp [get?_set_self, h2]; exact eq_comm
            · simp [get?_set_ne _ _ _ _ hs, hs, h2, Ne.symm hs]
          · simp only [ne_eq, h2, not_false_eq_true, if_true]
            by_cases hs : renewedSid s0 sid' = s
            · subst hs; simp [get?_set_self]; exact eq_comm
            · rw [get?_set_ne _ _ _ _ hs, herase]
              simp [Ne.symm hs]
              intro _
              by_cases hs0 : s0 = s
              · subst hs0; simp only [not_true_eq_false, true_implies, false_iff, not_and]
                intro _ h; exact h2 h.symm
              · simp [hs0]
        · simp [h200, herase]
  · simp only [hm, if_false, false_and, and_false, or_false, false_or, not_false_eq_true, forall_const, true_and]
    by_cases hu : e.req.method = mUNSUBSCRIBE
    · simp only [hu, if_true, true_and]
      cases hh : hdr e.req kSID with
      | none => simp
      | some s0 =>
        by_cases hs : s0 = s
        · subst hs; simp [get?_erase_self _ _ hn]
        · simp [get?_erase_ne _ _ _ hs, hs]
    · simp [hu]

theorem foldExch_nodup (rt : PyDict Str Nat) (hn : (keys rt).Nodup) (e : Exch) : (keys (foldExch rt e)).Nodup := by
  unfold foldExch
  repeat' split
  all_goals first
    | exact hn
    | exact nodup_keys_erase _ _ hn
    | exact nodup_keys_set _ _ _ hn
    | exact nodup_keys_set _ _ _ (nodup_keys_erase _ _ hn)
    | (apply nodup_keys_set; split <;> first | exact hn | exact nodup_keys_erase _ _ hn)

/-- no exchange of `b` grants or revokes SID `s` -/
def Untouched (b : List Exch) (s : Str) : Prop := ∀ e ∈ b, (∀ j, ¬ Grants e s j) ∧ ¬ Revokes e s

theorem foldl_foldExch_get_from (l : List Exch) (s : Str) (j : Nat) :
    ∀ (rt : PyDict Str Nat), (keys rt).Nodup →
      (get? (l.foldl foldExch rt) s = some j ↔
        (∃ a e b, l = a ++ e :: b ∧ Grants e s j ∧ Untouched b s) ∨ (Untouched l s ∧ get? rt s = some j)) := by
  induction l with
  | nil =>
    intro rt _
    simp [Untouched]
  | cons e l ih =>
    intro rt hn
    rw [List.foldl_cons, ih _ (foldExch_nodup rt hn e), foldExch_get rt hn]
    constructor
    · rintro (⟨a, e1, b, rfl, hg, hu⟩ | ⟨hu, hg | ⟨hng, hnr, hrt⟩⟩)
      · exact Or.inl ⟨e :: a, e1, b, rfl, hg, hu⟩
      · exact Or.inl ⟨[], e, l, rfl, hg, hu⟩
      · refine Or.inr ⟨?_, hrt⟩
        intro e' he'
        rcases List.mem_cons.1 he' with rfl | h
        · exact ⟨hng, hnr⟩
        · exact hu e' h
    · rintro (⟨a, e1, b, heq, hg, hu⟩ | ⟨hu, hrt⟩)
      · cases a with
        | nil =>
          simp only [List.nil_append, List.cons.injEq] at heq
          obtain ⟨rfl, rfl⟩ := heq
          exact Or.inr ⟨hu, Or.inl hg⟩
        | cons x a =>
          simp only [List.cons_append, List.cons.injEq] at heq
          obtain ⟨rfl, rfl⟩ := heq
          exact Or.inl ⟨a, e1, b, rfl, hg, hu⟩
      · exact Or.inr ⟨fun e' h => hu e' (List.mem_cons_of_mem _ h),
          Or.inr ⟨(hu e List.mem_cons_self).1, (hu e List.mem_cons_self).2, hrt⟩⟩

/-- **The registry clause, first order**: after the exchanges `l` (from an empty table) the publisher expects SID `s` at
    service `j` iff some exchange granted `(s, j)` and no later exchange granted `s` again or revoked it. -/
theorem foldl_foldExch_get (l : List Exch) (s : Str) (j : Nat) :
    get? (l.foldl foldExch []) s = some j ↔
      ∃ a e b, l = a ++ e :: b ∧ Grants e s j ∧ Untouched b s := by
  rw [foldl_foldExch_get_from l s j [] List.nodup_nil]
  simp

end Upnp.C09
