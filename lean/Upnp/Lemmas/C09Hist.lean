/-
  C09 helper lemmas: one step of the history invariant and the induction over histories.
-/
import Upnp.Lemmas.C09Susp
namespace Upnp.C09
open Upnp PyDict

/-- one step of the invariant: the judge accepts the model's step and the routing table stays the
    publisher-side fold — with a requester that answers at once (`susp = false`) or suspends (`susp = true`) -/
theorem step_ok (cfg : Cfg) (susp : Bool) (probes : List Str) (nsvc : Nat) (rt : Routing) (c : Call) (rs : List Reaction)
    (hn : (keys rt).Nodup) (hw : callWF c) :
    stepOk rt (modelStepS cfg susp probes nsvc rt c rs) = true
    ∧ (modelStepS cfg susp probes nsvc rt c rs).exch.foldl foldExch rt = (runCallS cfg susp rt c rs).rt := by
  have h := judgeFacts_runCallS cfg susp rt c rs hn
  have hm := h.mirror
  refine ⟨?_, hm⟩
  simp only [stepOk, Bool.and_eq_true]
  refine ⟨⟨⟨⟨⟨?_, h.result hw _ _⟩, h.target _ _⟩, h.fallback⟩, h.valid hw⟩, h.unsubIssued⟩
  show routedOk ((runCallS cfg susp rt c rs).exch.foldl foldExch rt) _ = true
  rw [hm]
  exact routedOk_model probes nsvc _ h.nodup _ _ _

theorem history_from (cfg : Cfg) (susp : Bool) (probes : List Str) (nsvc : Nat) (hist : List (Call × List Reaction))
    (hw : ∀ p ∈ hist, callWF p.1) (rt : Routing) (hn : (keys rt).Nodup) :
    okFrom rt (modelTraceS cfg susp probes nsvc rt hist) = true := by
  induction hist generalizing rt with
  | nil => rfl
  | cons p rest ih =>
    obtain ⟨c, rs⟩ := p
    simp only [modelTraceS, okFrom]
    split
    case isFalse => rfl
    have h := step_ok cfg susp probes nsvc rt c rs hn (hw (c, rs) List.mem_cons_self)
    rw [h.1, h.2, Bool.true_and]
    exact ih (fun q hq => hw q (List.mem_cons_of_mem _ hq)) _
      (judgeFacts_runCallS cfg susp rt c rs hn).nodup

end Upnp.C09
