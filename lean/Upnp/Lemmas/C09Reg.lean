/-
  C09 — per-call lemmas: each call of the registry model keeps the routing table equal to the
  publisher-side fold (`foldExch`) and satisfies every clause of the judge `stepOk`.
-/
import Upnp.Lemmas.C09Tables
namespace Upnp.C09
open Upnp PyDict

/-! ### granted timeout vs. the code's parse -/

theorem tdOk_of_le {n : Nat} (h : n ≤ maxTd) : tdOk (n : Int) = true := by
  simp only [tdOk, maxTd, Bool.and_eq_true, decide_eq_true_eq] at *
  omega

theorem guards_pinned : Gen.C09Gena.subscribeTimeoutGuarded = true ∧ Gen.C09Gena.renewTimeoutGuarded = true := by decide

/-- the guarded conversion never raises: it keeps the requested timeout or sets a parsed one -/
theorem parse_total (th : Option Str) : parseTimeoutHdr true th = .keep ∨ ∃ n, parseTimeoutHdr true th = .set n := by
  unfold parseTimeoutHdr
  cases parseTimeoutRaw th with
  | keep => exact Or.inl rfl
  | set n => exact Or.inr ⟨n, rfl⟩
  | valueError => exact Or.inl rfl
  | overflowError => exact Or.inl rfl

theorem inScope_parse (th : Option Str) (req : Int) (h : (grantedTimeout th 0).isSome = true) :
    ∃ g, grantedTimeout th req = some g ∧
      ((parseTimeoutHdr true th = .keep ∧ g = req) ∨ parseTimeoutHdr true th = .set g) := by
  cases th with
  | none => exact ⟨req, rfl, Or.inl ⟨rfl, rfl⟩⟩
  | some v =>
    unfold grantedTimeout at h ⊢
    simp only at h ⊢
    by_cases h1 : v = secondInfinite
    · refine ⟨req, by simp [h1], Or.inl ⟨?_, rfl⟩⟩
      simp [parseTimeoutHdr, parseTimeoutRaw, h1]
    · by_cases h2 : isInfixB secondPrefix v = true
      · simp only [h1, if_false, h2, Bool.not_true, Bool.false_eq_true] at h ⊢
        by_cases h3 : (validTimeoutText v && decide (digitsVal (v.drop 7) ≤ maxTd)) = true
        · simp only [h3, if_true]
          refine ⟨_, rfl, Or.inr ?_⟩
          simp only [Bool.and_eq_true, decide_eq_true_eq] at h3
          obtain ⟨hv, hm⟩ := h3
          simp only [validTimeoutText, Bool.and_eq_true, Bool.not_eq_true', List.isEmpty_eq_false_iff] at hv
          have hp := pyInt_digits (v.drop 7) hv.1.2 hv.2
          have ht := tdOk_of_le hm
          simp [parseTimeoutHdr, parseTimeoutRaw, h1, h2, hp, ht]
        · simp [h3] at h
      · refine ⟨req, by simp [h1, h2], Or.inl ⟨?_, rfl⟩⟩
        simp [parseTimeoutHdr, parseTimeoutRaw, h2]

/-- what the guarded conversion yields, against the judge's reading of the granted timeout: some `g'` is
    used, and it is the granted timeout wherever the judge states one -/
theorem parse_spec (th : Option Str) (req : Int) :
    ∃ g', ((parseTimeoutHdr true th = .keep ∧ g' = req) ∨ parseTimeoutHdr true th = .set g')
      ∧ ∀ g, grantedTimeout th req = some g → g' = g := by
  by_cases hs : (grantedTimeout th 0).isSome = true
  · obtain ⟨g, hg, hp⟩ := inScope_parse th req hs
    exact ⟨g, hp, fun g2 h2 => by rw [hg] at h2; cases h2; rfl⟩
  · have hnone : ∀ r, grantedTimeout th r = none := by
      intro r
      cases th with
      | none => simp [grantedTimeout] at hs
      | some v =>
        simp only [grantedTimeout] at hs ⊢
        repeat' split at hs
        all_goals simp_all
    rcases parse_total th with hk | ⟨n, hn⟩
    · exact ⟨req, Or.inl ⟨hk, rfl⟩, fun g h => by rw [hnone] at h; cases h⟩
    · exact ⟨n, Or.inr hn, fun g h => by rw [hnone] at h; cases h⟩

/-! ### sid_for_service -/

theorem sidForService_none {rt : Routing} {i : Nat} (h : sidForService rt i = none) :
    rt.all (fun q => q.2 != i) = true := by
  induction rt with
  | nil => rfl
  | cons p r ih =>
    obtain ⟨s, j⟩ := p
    simp only [sidForService] at h
    split at h
    · cases h
    · simp only [List.all_cons, Bool.and_eq_true, bne_iff_ne, ne_eq]
      exact ⟨by assumption, ih h⟩

theorem sidForService_mem {rt : Routing} {i : Nat} {s : Str} (h : sidForService rt i = some s) :
    (s, i) ∈ rt := by
  induction rt with
  | nil => cases h
  | cons p r ih =>
    obtain ⟨s', j⟩ := p
    simp only [sidForService] at h
    split at h
    · rename_i hj; cases h; subst hj; exact List.mem_cons_self
    · exact List.mem_cons_of_mem _ (ih h)

theorem routedOk_model (probes : List Str) (nsvc : Nat) (rt : Routing) (hn : (keys rt).Nodup)
    (c : Call) (ex : List Exch) (res : Result) :
    routedOk rt { call := c, exch := ex, res := res,
                  routed := probes.map fun s => (s, get? rt s),
                  sidFor := (List.range nsvc).map fun i => (i, sidForService rt i) } = true := by
  simp only [routedOk, Bool.and_eq_true, List.all_eq_true, List.mem_map, forall_exists_index, and_imp]
  constructor
  · intro p s _ hp; subst hp; simp
  · intro p i _ hp; subst hp
    simp only
    cases hs : sidForService rt i with
    | none => simpa [List.all_eq_true] using sidForService_none hs
    | some s => simp [get?_of_mem_nodup hn (sidForService_mem hs)]

/-! ### resolve -/

theorem resolve_get {rt : Routing} (hn : (keys rt).Nodup) {t : Target} {sid : Str} {svc : Nat}
    (h : resolve rt t = some (sid, svc)) : get? rt sid = some svc := by
  cases t with
  | svc i =>
    simp only [resolve] at h
    cases hs : sidForService rt i with
    | none => simp [hs] at h
    | some s =>
      simp only [hs] at h
      split at h
      · cases h
      · cases h; exact get?_of_mem_nodup hn (sidForService_mem hs)
  | sid s =>
    simp only [resolve] at h
    cases hg : get? rt s with
    | none => simp [hg] at h
    | some j => simp [hg] at h; obtain ⟨h1, h2⟩ := h; subst h1 h2; exact hg

theorem resolve_target {rt : Routing} {t : Target} {sid : Str} {svc : Nat}
    (h : resolve rt t = some (sid, svc)) :
    (match t with | .sid x => x = sid | .svc i => i = svc) := by
  cases t with
  | svc i =>
    simp only [resolve] at h
    cases hs : sidForService rt i with
    | none => simp [hs] at h
    | some s => simp only [hs] at h; split at h <;> simp_all
  | sid s =>
    simp only [resolve] at h
    cases hg : get? rt s with
    | none => simp [hg] at h
    | some j => simp [hg] at h; exact h.1

end Upnp.C09

namespace Upnp.C09
open Upnp PyDict

/-- well-formed call: caller-supplied timeouts are not negative -/
def callWF : Call → Prop
  | .subscribe _ t => 0 ≤ t
  | .resubscribe _ t => 0 ≤ t
  | _ => True

instance (c : Call) : Decidable (callWF c) := by
  cases c <;> simp only [callWF] <;> infer_instance

/-- everything the judge asks of one call's outcome (the routing observations aside); only request validity and
    the returned timeout (which is judged against the TIMEOUT on the wire) need the caller's timeout to be ≥ 0 -/
structure CallOk (rt : Routing) (c : Call) (o : Out) : Prop where
  nodup : (keys o.rt).Nodup
  valid : callWF c → o.exch.all (fun e => validReq e.req) = true
  adjacent : fallbackAdjacent o.exch = true
  target : ∀ r s, targetOk ⟨c, o.exch, o.res, r, s⟩ = true
  mirror : o.exch.foldl foldExch rt = o.rt
  result : callWF c → ∀ r s, resultOk ⟨c, o.exch, o.res, r, s⟩ = true

variable (cfg : Cfg)

theorem nodup_subscribeFinish (rt : Routing) (svc : Nat) (t : Int) (r : Reaction) (hn : (keys rt).Nodup) :
    (keys (subscribeFinish rt svc t r).1).Nodup := by
  unfold subscribeFinish
  repeat' split
  all_goals first | exact hn | exact nodup_keys_set _ _ _ hn

/-- the initial SUBSCRIBE exchange: the publisher-side fold is what the code does to the routing table —
    for every timeout, every reaction -/
theorem sub_exch_fold (rt : Routing) (svc : Nat) (t : Int) (r : Reaction) :
    foldExch rt ⟨subscribeRequest cfg svc t, r⟩ = (subscribeFinish rt svc t r).1 := by
  cases r with
  | connErr => simp [foldExch, sub_method, sub_sid, subscribeFinish]
  | connTimeout => simp [foldExch, sub_method, sub_sid, subscribeFinish]
  | resp status sid th =>
    by_cases h200 : status = 200
    · subst h200
      cases sid with
      | none => simp [foldExch, sub_method, sub_sid, subscribeFinish]
      | some s =>
        rcases parse_total th with hk | ⟨n, hk⟩ <;>
          simp [foldExch, sub_method, sub_sid, sub_svc, subscribeFinish, guards_pinned.1, hk]
    · cases sid <;> simp [foldExch, sub_method, sub_sid, subscribeFinish, h200]

/-- the initial SUBSCRIBE exchange: fold and result -/
theorem sub_exch_spec (rt : Routing) (svc : Nat) (t : Int) (r : Reaction) (ht : 0 ≤ t) :
    foldExch rt ⟨subscribeRequest cfg svc t, r⟩ = (subscribeFinish rt svc t r).1
    ∧ (match lastGrant [⟨subscribeRequest cfg svc t, r⟩] with
       | some (sid, th, w) => subResOk (subscribeFinish rt svc t r).2 sid (grantOf th w) = true
       | none => (excOf (subscribeFinish rt svc t r).2).isSome = true) := by
  cases r with
  | connErr => simp [foldExch, lastGrant, sub_method, sub_sid, subscribeFinish, excOf]
  | connTimeout => simp [foldExch, lastGrant, sub_method, sub_sid, subscribeFinish, excOf]
  | resp status sid th =>
    by_cases h200 : status = 200
    · subst h200
      cases sid with
      | none => simp [foldExch, lastGrant, sub_method, sub_sid, subscribeFinish, excOf]
      | some s =>
        obtain ⟨g', hp, hg⟩ := parse_spec th t
        have hres : subResOk (.sub s g') s (grantedTimeout th t) = true := by
          simp only [subResOk, beq_self_eq_true, Bool.true_and]
          cases hgt : grantedTimeout th t with
          | none => rfl
          | some g => simp [hg g hgt]
        have hw := sub_wire cfg svc t ht
        rcases hp with ⟨hk, rfl⟩ | hk
        · simpa [foldExch, lastGrant, sub_method, sub_sid, sub_svc, hw, grantOf, subscribeFinish, guards_pinned.1, hk] using hres
        · simpa [foldExch, lastGrant, sub_method, sub_sid, sub_svc, hw, grantOf, subscribeFinish, guards_pinned.1, hk] using hres
    · cases sid <;> simp [foldExch, lastGrant, sub_method, sub_sid, subscribeFinish, excOf, h200]

theorem doSubscribe_ok (rt : Routing) (svc : Nat) (t : Int) (rs : List Reaction)
    (hn : (keys rt).Nodup) :
    CallOk rt (.subscribe svc t) (doSubscribe cfg rt svc t rs) := by
  unfold doSubscribe
  generalize (nextReact rs).1 = r
  refine ⟨nodup_subscribeFinish _ _ _ _ hn, ?_, ?_, ?_, ?_, ?_⟩
  · intro (ht : 0 ≤ t); simp [sub_valid cfg svc t ht]
  · simp [fallbackAdjacent, sub_isRenewal]
  · intro _ _; simp [targetOk, sub_svc, sub_isInitial]
  · simpa using sub_exch_fold cfg rt svc t r
  · intro (ht : 0 ≤ t) _ _
    have h2 := (sub_exch_spec cfg rt svc t r ht).2
    simp only [resultOk]
    split at h2
    · rename_i sid th w hl
      simp [hl, h2]
    · rename_i hl; simp [hl, h2]

end Upnp.C09

namespace Upnp.C09
open Upnp PyDict
variable (cfg : Cfg)

theorem nodup_renewFinish (rt : Routing) (svc : Nat) (sid : Str) (t : Int) (sid' th : Option Str)
    (hn : (keys rt).Nodup) : (keys (renewFinish rt svc sid t sid' th).1).Nodup := by
  unfold renewFinish
  have h1 : (keys (if renewedSid sid sid' ≠ sid then erase rt sid else rt)).Nodup := by
    split
    · exact nodup_keys_erase _ _ hn
    · exact hn
  simp only
  split
  all_goals first | exact h1 | exact nodup_keys_set _ _ _ h1

/-- an accepted renewal: fold and result -/
theorem ren_exch_spec (rt : Routing) (svc : Nat) (sid : Str) (t : Int) (sid' th : Option Str) :
    foldExch rt ⟨renewRequest cfg svc sid t, .resp 200 sid' th⟩ = (renewFinish rt svc sid t sid' th).1
    ∧ subResOk (renewFinish rt svc sid t sid' th).2 (renewedSid sid sid') (grantedTimeout th t) = true := by
  obtain ⟨g', hp, hg⟩ := parse_spec th t
  have hres : subResOk (.sub (renewedSid sid sid') g') (renewedSid sid sid') (grantedTimeout th t) = true := by
    simp only [subResOk, beq_self_eq_true, Bool.true_and]
    cases hgt : grantedTimeout th t with
    | none => rfl
    | some g => simp [hg g hgt]
  rcases hp with ⟨hk, rfl⟩ | hk
  · simpa [foldExch, ren_method, ren_sid, ren_svc, renewFinish, guards_pinned.2, hk] using hres
  · simpa [foldExch, ren_method, ren_sid, ren_svc, renewFinish, guards_pinned.2, hk] using hres

theorem doResubscribe_ok (rt : Routing) (tg : Target) (t : Int) (rs : List Reaction)
    (hn : (keys rt).Nodup) :
    CallOk rt (.resubscribe tg t) (doResubscribe cfg rt tg t rs) := by
  unfold doResubscribe
  cases hr : resolve rt tg with
  | none =>
    simp only
    exact ⟨hn, fun _ => rfl, rfl, fun _ _ => by simp [targetOk], rfl,
      fun _ _ _ => by simp [resultOk, lastGrant, excOf]⟩
  | some p =>
    obtain ⟨sid, svc⟩ := p
    have htg := resolve_target hr
    have htarget : ∀ (l : List Exch) (res : Result) r s (react : Reaction),
        targetOk ⟨.resubscribe tg t, ⟨renewRequest cfg svc sid t, react⟩ :: l, res, r, s⟩ = true := by
      intro l res r s react
      cases tg with
      | svc i => simp only at htg; subst htg; simp [targetOk, ren_svc, ren_isRenewal]
      | sid x => simp only at htg; subst htg; simp [targetOk, ren_sid, ren_isRenewal]
    simp only
    generalize (nextReact rs).1 = r
    generalize (nextReact rs).2 = rs'
    cases r with
    | connErr =>
      simp only
      refine ⟨nodup_keys_erase _ _ hn, fun (ht : 0 ≤ t) => by simp [ren_valid cfg svc t sid ht], ?_, fun _ _ => htarget _ _ _ _ _, ?_, ?_⟩
      · simp [fallbackAdjacent, ren_isRenewal]
      · simp [foldExch, ren_method, ren_sid]
      · intro _ _ _; simp [resultOk, lastGrant, ren_method, excOf]
    | connTimeout =>
      simp only
      refine ⟨nodup_keys_erase _ _ hn, fun (ht : 0 ≤ t) => by simp [ren_valid cfg svc t sid ht], ?_, fun _ _ => htarget _ _ _ _ _, ?_, ?_⟩
      · simp [fallbackAdjacent, ren_isRenewal]
      · simp [foldExch, ren_method, ren_sid]
      · intro _ _ _; simp [resultOk, lastGrant, ren_method, excOf]
    | resp status sid' th =>
      simp only
      by_cases h200 : status = 200
      · subst h200
        simp only [ne_eq, not_true_eq_false, if_false]
        refine ⟨nodup_renewFinish _ _ _ _ _ _ hn, fun (ht : 0 ≤ t) => by simp [ren_valid cfg svc t sid ht], ?_,
          fun _ _ => htarget _ _ _ _ _, ?_, ?_⟩
        · simp [fallbackAdjacent, ren_isRenewal]
        · simpa using (ren_exch_spec cfg rt svc sid t sid' th).1
        · intro (ht : 0 ≤ t) _ _
          have hres := (ren_exch_spec cfg rt svc sid t sid' th).2
          simp [resultOk, lastGrant, ren_method, ren_sid, ren_wire cfg svc t sid ht, grantOf, hres]
      · simp only [ne_eq, h200, not_false_eq_true, if_true]
        have hsub := doSubscribe_ok cfg (erase rt sid) svc t rs' (nodup_keys_erase _ _ hn)
        unfold doSubscribe at hsub ⊢
        generalize (nextReact rs').1 = r2 at hsub ⊢
        refine ⟨hsub.nodup, ?_, ?_, fun _ _ => htarget _ _ _ _ _, ?_, ?_⟩
        · intro (ht : 0 ≤ t); simp [ren_valid cfg svc t sid ht, sub_valid cfg svc t ht]
        · simp [fallbackAdjacent, ren_isRenewal, sub_isRenewal, sub_isInitial, sub_svc, ren_svc, h200]
        · have := hsub.mirror
          simp only [List.foldl_cons, List.foldl_nil] at this ⊢
          rw [← this]
          simp [foldExch, ren_method, ren_sid, h200]
        · intro (ht : 0 ≤ t) r s
          have := hsub.result ht r s
          simpa [resultOk, lastGrant] using this

theorem doUnsubscribe_ok (rt : Routing) (tg : Target) (rs : List Reaction) (hn : (keys rt).Nodup) :
    CallOk rt (.unsubscribe tg) (doUnsubscribe cfg rt tg rs) := by
  unfold doUnsubscribe
  cases hr : resolve rt tg with
  | none =>
    simp only
    exact ⟨hn, fun _ => rfl, rfl, fun _ _ => by simp [targetOk], rfl,
      fun _ _ _ => by simp [resultOk, excOf]⟩
  | some p =>
    obtain ⟨sid, svc⟩ := p
    have htg := resolve_target hr
    simp only
    generalize (nextReact rs).1 = r
    refine ⟨nodup_keys_erase _ _ hn, fun _ => by simp [uns_valid], by simp [fallbackAdjacent, uns_isRenewal], ?_, ?_, ?_⟩
    · intro _ _
      cases tg with
      | svc i => simp only at htg; subst htg; simp [targetOk, uns_svc, uns_method]
      | sid x => simp only at htg; subst htg; simp [targetOk, uns_sid, uns_method]
    · simp [foldExch, uns_method, uns_sid, Ne.symm mSub_ne_mUnsub]
    · intro _ _ _
      cases r with
      | connErr => simp [resultOk, excOf]
      | connTimeout => simp [resultOk, excOf]
      | resp status a b =>
        by_cases h200 : status = 200
        · simp [resultOk, h200, uns_sid]
        · simp [resultOk, h200, excOf]

end Upnp.C09

namespace Upnp.C09
open Upnp PyDict
variable (cfg : Cfg)

/-! ### the `*_all` calls -/

def headNotInitial : List Exch → Bool
  | [] => true
  | e :: _ => !isInitial e.req

/-- shape of the exchanges of one `async_resubscribe` -/
theorem doResubscribe_shape (rt : Routing) (tg : Target) (t : Int) (rs : List Reaction) :
    (doResubscribe cfg rt tg t rs).exch = []
    ∨ (∃ svc sid react, (doResubscribe cfg rt tg t rs).exch = [⟨renewRequest cfg svc sid t, react⟩]
        ∧ (∀ st a b, react = .resp st a b → st = 200))
    ∨ (∃ svc sid st a b r2, st ≠ 200 ∧ (doResubscribe cfg rt tg t rs).exch =
        [⟨renewRequest cfg svc sid t, .resp st a b⟩, ⟨subscribeRequest cfg svc t, r2⟩]) := by
  unfold doResubscribe
  cases resolve rt tg with
  | none => exact Or.inl rfl
  | some p =>
    obtain ⟨sid, svc⟩ := p
    simp only
    generalize (nextReact rs).1 = r
    cases r with
    | connErr => exact Or.inr (Or.inl ⟨svc, sid, _, rfl, by intro _ _ _ h; cases h⟩)
    | connTimeout => exact Or.inr (Or.inl ⟨svc, sid, _, rfl, by intro _ _ _ h; cases h⟩)
    | resp status a b =>
      simp only
      by_cases h200 : status = 200
      · subst h200
        exact Or.inr (Or.inl ⟨svc, sid, .resp 200 a b, by simp, by intro _ _ _ h; cases h; rfl⟩)
      · exact Or.inr (Or.inr ⟨svc, sid, status, a, b, (nextReact (nextReact rs).2).1, h200, by simp [h200, doSubscribe]⟩)

theorem fallbackAdjacent_resub_append (rt : Routing) (tg : Target) (t : Int) (rs : List Reaction) (b : List Exch)
    (hb : fallbackAdjacent b = true) (hh : headNotInitial b = true) :
    fallbackAdjacent ((doResubscribe cfg rt tg t rs).exch ++ b) = true
    ∧ headNotInitial ((doResubscribe cfg rt tg t rs).exch ++ b) = true := by
  rcases doResubscribe_shape cfg rt tg t rs with h | ⟨svc, sid, react, h, hre⟩ | ⟨svc, sid, st, a, b', r2, hst, h⟩
  · rw [h]; exact ⟨hb, hh⟩
  · rw [h]
    refine ⟨?_, by simp [headNotInitial, ren_isInitial]⟩
    cases react with
    | resp st a b' =>
      have := hre st a b' rfl; subst this
      simp [fallbackAdjacent, ren_isRenewal, hb]
    | connErr =>
      cases b with
      | nil => simp [fallbackAdjacent, ren_isRenewal]
      | cons e r =>
        simp only [headNotInitial, Bool.not_eq_true'] at hh
        rw [List.singleton_append, fallbackAdjacent, hb]
        simp [ren_isRenewal, hh]
    | connTimeout =>
      cases b with
      | nil => simp [fallbackAdjacent, ren_isRenewal]
      | cons e r =>
        simp only [headNotInitial, Bool.not_eq_true'] at hh
        rw [List.singleton_append, fallbackAdjacent, hb]
        simp [ren_isRenewal, hh]
  · rw [h]
    refine ⟨?_, by simp [headNotInitial, ren_isInitial]⟩
    simp [fallbackAdjacent, ren_isRenewal, sub_isRenewal, sub_isInitial, sub_svc, ren_svc, hst, hb]

theorem defaultTimeout_nonneg : (0 : Int) ≤ Gen.C09Gena.defaultTimeoutResubscribe := by decide

structure AllOk (rt : Routing) (o : Out) : Prop where
  nodup : (keys o.rt).Nodup
  valid : o.exch.all (fun e => validReq e.req) = true
  adjacent : fallbackAdjacent o.exch = true
  head : headNotInitial o.exch = true
  mirror : o.exch.foldl foldExch rt = o.rt

theorem resubAll_ok (sids : List Str) (rt : Routing) (rs : List Reaction) (first : Option Exc)
    (hn : (keys rt).Nodup) : AllOk rt (resubAll cfg sids rt rs first) := by
  induction sids generalizing rt rs first with
  | nil => exact ⟨hn, rfl, rfl, rfl, rfl⟩
  | cons s more ih =>
    simp only [resubAll]
    have h1 := doResubscribe_ok cfg rt (.sid s) Gen.C09Gena.defaultTimeoutResubscribe rs hn
    generalize ho : doResubscribe cfg rt (.sid s) Gen.C09Gena.defaultTimeoutResubscribe rs = o at h1
    have h2 := ih o.rt o.rest (match first with | some e => some e | none => excOf o.res) h1.nodup
    generalize resubAll cfg more o.rt o.rest _ = o2 at h2
    have hf := fallbackAdjacent_resub_append cfg rt (.sid s) Gen.C09Gena.defaultTimeoutResubscribe rs o2.exch h2.adjacent h2.head
    rw [ho] at hf
    refine ⟨h2.nodup, ?_, hf.1, hf.2, ?_⟩
    · simp only [List.all_append, Bool.and_eq_true]; exact ⟨h1.valid (by first | exact defaultTimeout_nonneg | trivial), h2.valid⟩
    · simp only [List.foldl_append]
      rw [h1.mirror, h2.mirror]

theorem fallbackAdjacent_of_no_renewal (l : List Exch) (h : ∀ e ∈ l, isRenewal e.req = false) :
    fallbackAdjacent l = true := by
  induction l with
  | nil => rfl
  | cons e r ih =>
    simp only [fallbackAdjacent, h e List.mem_cons_self, Bool.false_eq_true, if_false, Bool.true_and]
    exact ih fun e' he' => h e' (List.mem_cons_of_mem _ he')

theorem doUnsubscribe_no_renewal (rt : Routing) (tg : Target) (rs : List Reaction) :
    ∀ e ∈ (doUnsubscribe cfg rt tg rs).exch, isRenewal e.req = false ∧ isInitial e.req = false := by
  unfold doUnsubscribe
  cases resolve rt tg with
  | none => intro e he; cases he
  | some p =>
    obtain ⟨sid, svc⟩ := p
    intro e he
    simp only [List.mem_singleton] at he
    subst he
    exact ⟨uns_isRenewal cfg svc sid, uns_isInitial cfg svc sid⟩

theorem unsubAll_ok (sids : List Str) (rt : Routing) (rs : List Reaction) (hn : (keys rt).Nodup) :
    AllOk rt (unsubAll cfg sids rt rs)
    ∧ ∀ e ∈ (unsubAll cfg sids rt rs).exch, isRenewal e.req = false ∧ isInitial e.req = false := by
  induction sids generalizing rt rs with
  | nil => exact ⟨⟨hn, rfl, rfl, rfl, rfl⟩, fun e he => by cases he⟩
  | cons s more ih =>
    simp only [unsubAll]
    have h1 := doUnsubscribe_ok cfg rt (.sid s) rs hn
    have hnr := doUnsubscribe_no_renewal cfg rt (.sid s) rs
    generalize doUnsubscribe cfg rt (.sid s) rs = o at h1 hnr
    obtain ⟨h2, h2nr⟩ := ih o.rt o.rest h1.nodup
    generalize unsubAll cfg more o.rt o.rest = o2 at h2 h2nr
    have hall : ∀ e ∈ o.exch ++ o2.exch, isRenewal e.req = false ∧ isInitial e.req = false := by
      intro e he
      rcases List.mem_append.mp he with h | h
      · exact hnr e h
      · exact h2nr e h
    refine ⟨⟨h2.nodup, ?_, fallbackAdjacent_of_no_renewal _ (fun e he => (hall e he).1), ?_, ?_⟩, hall⟩
    · simp only [List.all_append, Bool.and_eq_true]; exact ⟨h1.valid (by first | exact defaultTimeout_nonneg | trivial), h2.valid⟩
    · cases hx : o.exch ++ o2.exch with
      | nil => rfl
      | cons e r =>
        have := (hall e (by rw [hx]; exact List.mem_cons_self)).2
        simp [headNotInitial, this]
    · simp only [List.foldl_append]
      rw [h1.mirror, h2.mirror]

theorem runCall_ok (rt : Routing) (c : Call) (rs : List Reaction) (hn : (keys rt).Nodup) :
    CallOk rt c (runCall cfg rt c rs) := by
  cases c with
  | subscribe svc t => exact doSubscribe_ok cfg rt svc t rs hn
  | resubscribe tg t => exact doResubscribe_ok cfg rt tg t rs hn
  | unsubscribe tg => exact doUnsubscribe_ok cfg rt tg rs hn
  | resubscribeAll =>
    have h := resubAll_ok cfg (keys rt) rt rs none hn
    exact ⟨h.nodup, fun _ => h.valid, h.adjacent, fun _ _ => by simp [targetOk]; split <;> rfl, h.mirror,
      fun _ _ _ => rfl⟩
  | unsubscribeAll =>
    have h := (unsubAll_ok cfg (keys rt) rt rs hn).1
    exact ⟨h.nodup, fun _ => h.valid, h.adjacent, fun _ _ => by simp [targetOk]; split <;> rfl, h.mirror,
      fun _ _ _ => rfl⟩

end Upnp.C09

namespace Upnp.C09
open Upnp PyDict
variable (cfg : Cfg)

/-! ### fallback, counted per service (order independent) -/

/-- no fresh SUBSCRIBE beyond the refused renewals, for service `j` -/
def Balanced (l : List Exch) : Prop := ∀ j, l.countP (initialFor j) = l.countP (refusedRenewalFor j)

theorem balanced_nil : Balanced [] := fun _ => rfl

theorem balanced_append {a b : List Exch} (ha : Balanced a) (hb : Balanced b) : Balanced (a ++ b) := by
  intro j; simp only [List.countP_append, ha j, hb j]

theorem doResubscribe_balanced (rt : Routing) (tg : Target) (t : Int) (rs : List Reaction) :
    Balanced (doResubscribe cfg rt tg t rs).exch := by
  intro j
  rcases doResubscribe_shape cfg rt tg t rs with h | ⟨svc, sid, react, h, hre⟩ | ⟨svc, sid, st, a, b, r2, hst, h⟩
  · rw [h]; rfl
  · rw [h]
    cases react with
    | resp st a b =>
      have := hre st a b rfl; subst this
      simp [List.countP_cons, initialFor, refusedRenewalFor, ren_isInitial]
    | connErr => simp [List.countP_cons, initialFor, refusedRenewalFor, ren_isInitial]
    | connTimeout => simp [List.countP_cons, initialFor, refusedRenewalFor, ren_isInitial]
  · rw [h]
    by_cases e : svc = j
    · simp [List.countP_cons, initialFor, refusedRenewalFor, ren_isInitial, ren_isRenewal, sub_isInitial,
        sub_isRenewal, ren_svc, sub_svc, hst, e]
    · simp [List.countP_cons, initialFor, refusedRenewalFor, ren_isInitial, ren_isRenewal, sub_isInitial,
        sub_isRenewal, ren_svc, sub_svc, hst, e]

theorem resubAll_balanced (sids : List Str) (rt : Routing) (rs : List Reaction) (first : Option Exc) :
    Balanced (resubAll cfg sids rt rs first).exch := by
  induction sids generalizing rt rs first with
  | nil => exact balanced_nil
  | cons s more ih =>
    simp only [resubAll]
    exact balanced_append (doResubscribe_balanced cfg rt (.sid s) _ rs) (ih _ _ _)

theorem balanced_of_none (l : List Exch) (h : ∀ e ∈ l, isRenewal e.req = false ∧ isInitial e.req = false) :
    Balanced l := by
  intro j
  have h1 : l.countP (initialFor j) = 0 := by
    rw [List.countP_eq_zero]; intro e he; simp [initialFor, (h e he).2]
  have h2 : l.countP (refusedRenewalFor j) = 0 := by
    rw [List.countP_eq_zero]; intro e he; simp [refusedRenewalFor, (h e he).1]
  rw [h1, h2]

theorem unsubAll_no_renewal (sids : List Str) (rt : Routing) (rs : List Reaction) :
    ∀ e ∈ (unsubAll cfg sids rt rs).exch, isRenewal e.req = false ∧ isInitial e.req = false := by
  induction sids generalizing rt rs with
  | nil => intro e he; cases he
  | cons s more ih =>
    intro e he
    simp only [unsubAll] at he
    rcases List.mem_append.mp he with h | h
    · exact doUnsubscribe_no_renewal cfg rt (.sid s) rs e h
    · exact ih _ _ e h

/-- **fallback clause of the judge** for every call of the (non-suspending) model -/
theorem runCall_fallback (rt : Routing) (c : Call) (rs : List Reaction) :
    fallbackOk c (runCall cfg rt c rs).exch = true := by
  have key : ∀ j, fallbackAt c (runCall cfg rt c rs).exch j = true := by
    intro j
    simp only [fallbackAt, beq_iff_eq]
    cases c with
    | subscribe svc t =>
      simp only [runCall, doSubscribe, callBonus]
      by_cases e : svc = j
      · simp [List.countP_cons, initialFor, refusedRenewalFor, sub_isInitial, sub_isRenewal, sub_svc, e]
      · simp [List.countP_cons, initialFor, refusedRenewalFor, sub_isInitial, sub_isRenewal, sub_svc, e]
    | resubscribe tg t => simpa [runCall, callBonus] using doResubscribe_balanced cfg rt tg t rs j
    | unsubscribe tg =>
      simpa [runCall, callBonus] using balanced_of_none _ (doUnsubscribe_no_renewal cfg rt tg rs) j
    | resubscribeAll => simpa [runCall, callBonus] using resubAll_balanced cfg (keys rt) rt rs none j
    | unsubscribeAll =>
      simpa [runCall, callBonus] using balanced_of_none _ (unsubAll_no_renewal cfg (keys rt) rt rs) j
  simp only [fallbackOk, List.all_eq_true]
  intro j _
  exact key j

end Upnp.C09
