/-
  C09 — `async_resubscribe_all` with a suspending requester (`resubAllSusp`): the same judge clauses.
-/
import Upnp.Lemmas.C09Reg
namespace Upnp.C09
open Upnp PyDict
variable (cfg : Cfg)

/-- what the judge asks of one call's outcome (routing observations aside) -/
structure JudgeFacts (rt : Routing) (c : Call) (o : Out) : Prop where
  nodup : (keys o.rt).Nodup
  valid : callWF c → o.exch.all (fun e => validReq e.req) = true
  fallback : fallbackOk c o.exch = true
  target : ∀ r s, targetOk ⟨c, o.exch, o.res, r, s⟩ = true
  mirror : o.exch.foldl foldExch rt = o.rt
  result : callWF c → ∀ r s, resultOk ⟨c, o.exch, o.res, r, s⟩ = true
  unsubIssued : unsubIssuedOk o.exch = true

/-! ### "once an unsubscribe has been issued its SID is no longer routed" — at the arrival of every UNSUBSCRIBE -/

def unsubP (e : Exch) : Bool := e.req.method != mUNSUBSCRIBE || e.req.routed.isNone

theorem unsubP_sub (svc : Nat) (t : Int) (r : Reaction) : unsubP ⟨subscribeRequest cfg svc t, r⟩ = true := by
  simp [unsubP, sub_method, mSub_ne_mUnsub]
theorem unsubP_ren (svc : Nat) (sid : Str) (t : Int) (r : Reaction) : unsubP ⟨renewRequest cfg svc sid t, r⟩ = true := by
  simp [unsubP, ren_method, mSub_ne_mUnsub]
theorem unsubP_uns (svc : Nat) (sid : Str) (r : Reaction) : unsubP ⟨unsubRequest cfg svc sid, r⟩ = true := by
  simp [unsubP, uns_routed]

theorem doResubscribe_unsubP (rt : Routing) (tg : Target) (t : Int) (rs : List Reaction) :
    (doResubscribe cfg rt tg t rs).exch.all unsubP = true := by
  rcases doResubscribe_shape cfg rt tg t rs with h | ⟨svc, sid, react, h, _⟩ | ⟨svc, sid, st, a, b, r2, _, h⟩
  · rw [h]; rfl
  · rw [h]; simp [unsubP_ren]
  · rw [h]; simp [unsubP_ren, unsubP_sub]

theorem doUnsubscribe_unsubP (rt : Routing) (tg : Target) (rs : List Reaction) :
    (doUnsubscribe cfg rt tg rs).exch.all unsubP = true := by
  unfold doUnsubscribe
  cases resolve rt tg with
  | none => rfl
  | some p => obtain ⟨sid, svc⟩ := p; simp [unsubP_uns]

theorem resubAll_unsubP (sids : List Str) (rt : Routing) (rs : List Reaction) (first : Option Exc) :
    (resubAll cfg sids rt rs first).exch.all unsubP = true := by
  induction sids generalizing rt rs first with
  | nil => rfl
  | cons s more ih =>
    simp only [resubAll, List.all_append, Bool.and_eq_true]
    exact ⟨doResubscribe_unsubP cfg rt _ _ rs, ih _ _ _⟩

theorem unsubAll_unsubP (sids : List Str) (rt : Routing) (rs : List Reaction) :
    (unsubAll cfg sids rt rs).exch.all unsubP = true := by
  induction sids generalizing rt rs with
  | nil => rfl
  | cons s more ih =>
    simp only [unsubAll, List.all_append, Bool.and_eq_true]
    exact ⟨doUnsubscribe_unsubP cfg rt _ rs, ih _ _⟩

theorem runCall_unsubIssued (rt : Routing) (c : Call) (rs : List Reaction) :
    unsubIssuedOk (runCall cfg rt c rs).exch = true := by
  show (runCall cfg rt c rs).exch.all unsubP = true
  cases c with
  | subscribe svc t => simp [runCall, doSubscribe, unsubP_sub]
  | resubscribe tg t => exact doResubscribe_unsubP cfg rt tg t rs
  | unsubscribe tg => exact doUnsubscribe_unsubP cfg rt tg rs
  | resubscribeAll => exact resubAll_unsubP cfg _ rt rs none
  | unsubscribeAll => exact unsubAll_unsubP cfg _ rt rs

theorem judgeFacts_runCall (rt : Routing) (c : Call) (rs : List Reaction) (hn : (keys rt).Nodup) :
    JudgeFacts rt c (runCall cfg rt c rs) :=
  let h := runCall_ok cfg rt c rs hn
  ⟨h.nodup, h.valid, runCall_fallback cfg rt c rs, h.target, h.mirror, h.result, runCall_unsubIssued cfg rt c rs⟩

theorem takeReacts_length (n : Nat) (rs : List Reaction) : (takeReacts n rs).1.length = n := by
  induction n generalizing rs with
  | zero => rfl
  | succ k ih => simp [takeReacts, ih]

def renE (t : Int) (x : (Str × Nat) × Reaction) : Exch := ⟨renewRequest cfg x.1.2 x.1.1 t, x.2⟩
def subE (t : Int) (x : Nat × Reaction) : Exch := ⟨subscribeRequest cfg x.1 t, x.2⟩

def isRefused : Reaction → Bool
  | .resp st _ _ => st != 200
  | _ => false

theorem phase2_nodup (t : Int) (rens : List ((Str × Nat) × Reaction)) (p : P2) (hn : (keys p.rt).Nodup) :
    (keys (resubPhase2 t rens p).rt).Nodup := by
  induction rens generalizing p with
  | nil => exact hn
  | cons x more ih =>
    obtain ⟨⟨sid, svc⟩, r⟩ := x
    cases r with
    | connErr => exact ih _ (nodup_keys_erase _ _ hn)
    | connTimeout => exact ih _ (nodup_keys_erase _ _ hn)
    | resp status sid' th =>
      simp only [resubPhase2]
      split
      · exact ih _ (nodup_keys_erase _ _ hn)
      · exact ih _ (nodup_renewFinish _ _ _ _ _ _ hn)

theorem phase2_fallbacks (t : Int) (rens : List ((Str × Nat) × Reaction)) (p : P2) :
    (resubPhase2 t rens p).fallbacks = p.fallbacks ++ (rens.filter fun x => isRefused x.2).map (·.1.2) := by
  induction rens generalizing p with
  | nil => simp [resubPhase2]
  | cons x more ih =>
    obtain ⟨⟨sid, svc⟩, r⟩ := x
    cases r with
    | connErr => simp [resubPhase2, ih, isRefused]
    | connTimeout => simp [resubPhase2, ih, isRefused]
    | resp status sid' th =>
      simp only [resubPhase2]
      by_cases h200 : status = 200
      · simp [h200, ih, isRefused]
      · simp [h200, ih, isRefused]

theorem phase2_mirror (t : Int) (rens : List ((Str × Nat) × Reaction)) (p : P2) :
    (rens.map (renE cfg t)).foldl foldExch p.rt = (resubPhase2 t rens p).rt := by
  induction rens generalizing p with
  | nil => rfl
  | cons x more ih =>
    obtain ⟨⟨sid, svc⟩, r⟩ := x
    simp only [List.map_cons, List.foldl_cons]
    cases r with
    | connErr =>
      have : foldExch p.rt (renE cfg t ((sid, svc), .connErr)) = erase p.rt sid := by
        simp [foldExch, renE, ren_method, ren_sid]
      rw [this]; exact ih { p with rt := erase p.rt sid, first := _ }
    | connTimeout =>
      have : foldExch p.rt (renE cfg t ((sid, svc), .connTimeout)) = erase p.rt sid := by
        simp [foldExch, renE, ren_method, ren_sid]
      rw [this]; exact ih { p with rt := erase p.rt sid, first := _ }
    | resp status sid' th =>
      simp only [resubPhase2]
      by_cases h200 : status = 200
      · subst h200
        simp only [ne_eq, not_true_eq_false, if_false]
        have := (ren_exch_spec cfg p.rt svc sid t sid' th).1
        simp only [renE] at this ⊢
        rw [this]
        exact ih { p with rt := (renewFinish p.rt svc sid t sid' th).1, first := _ }
      · simp only [ne_eq, h200, not_false_eq_true, if_true]
        have : foldExch p.rt (renE cfg t ((sid, svc), .resp status sid' th)) = erase p.rt sid := by
          simp [foldExch, renE, ren_method, ren_sid, h200]
        rw [this]; exact ih { p with rt := erase p.rt sid, fallbacks := _ }

theorem phase3_nodup (t : Int) (subs : List (Nat × Reaction)) (p : Routing × Option Exc) (hn : (keys p.1).Nodup) :
    (keys (resubPhase3 t subs p).1).Nodup := by
  induction subs generalizing p with
  | nil => exact hn
  | cons x more ih => exact ih _ (nodup_subscribeFinish _ _ _ _ hn)

theorem phase3_mirror (t : Int) (ht : 0 ≤ t) (subs : List (Nat × Reaction)) (p : Routing × Option Exc) :
    (subs.map (subE cfg t)).foldl foldExch p.1 = (resubPhase3 t subs p).1 := by
  induction subs generalizing p with
  | nil => rfl
  | cons x more ih =>
    obtain ⟨svc, r⟩ := x
    simp only [List.map_cons, List.foldl_cons, resubPhase3]
    have := (sub_exch_spec cfg p.1 svc t r ht).1
    simp only [subE] at this ⊢
    rw [this]
    exact ih (_, _)

theorem count_ren_initial (t : Int) (rens : List ((Str × Nat) × Reaction)) (j : Nat) :
    (rens.map (renE cfg t)).countP (initialFor j) = 0 := by
  rw [List.countP_eq_zero]
  intro e he
  obtain ⟨x, _, rfl⟩ := List.mem_map.mp he
  simp [initialFor, renE, ren_isInitial]

theorem count_sub_refused (t : Int) (subs : List (Nat × Reaction)) (j : Nat) :
    (subs.map (subE cfg t)).countP (refusedRenewalFor j) = 0 := by
  rw [List.countP_eq_zero]
  intro e he
  obtain ⟨x, _, rfl⟩ := List.mem_map.mp he
  simp [refusedRenewalFor, subE, sub_isRenewal]

theorem count_ren_refused (t : Int) (rens : List ((Str × Nat) × Reaction)) (j : Nat) :
    (rens.map (renE cfg t)).countP (refusedRenewalFor j)
      = ((rens.filter fun x => isRefused x.2).map (·.1.2)).count j := by
  induction rens with
  | nil => rfl
  | cons x more ih =>
    obtain ⟨⟨sid, svc⟩, r⟩ := x
    simp only [List.map_cons, List.countP_cons, ih, List.filter_cons]
    cases r with
    | connErr => simp [refusedRenewalFor, renE, isRefused]
    | connTimeout => simp [refusedRenewalFor, renE, isRefused]
    | resp status a b =>
      by_cases h200 : status = 200
      · simp [refusedRenewalFor, renE, isRefused, h200]
      · by_cases e : svc = j
        · simp [refusedRenewalFor, renE, isRefused, h200, ren_isRenewal, ren_svc, e]
        · simp [refusedRenewalFor, renE, isRefused, h200, ren_isRenewal, ren_svc, e, List.count_cons]

theorem count_sub_initial (t : Int) (subs : List (Nat × Reaction)) (j : Nat) :
    (subs.map (subE cfg t)).countP (initialFor j) = (subs.map (·.1)).count j := by
  induction subs with
  | nil => rfl
  | cons x more ih =>
    obtain ⟨svc, r⟩ := x
    simp only [List.map_cons, List.countP_cons, ih]
    by_cases e : svc = j
    · simp [initialFor, subE, sub_isInitial, sub_svc, e]
    · simp [initialFor, subE, sub_isInitial, sub_svc, e, List.count_cons]

theorem zip_map_fst {α β : Type} (l : List α) (m : List β) (h : m.length = l.length) : (l.zip m).map (·.1) = l := by
  induction l generalizing m with
  | nil => simp
  | cons a r ih =>
    cases m with
    | nil => cases h
    | cons b s => simp [ih s (by simpa using h)]

theorem resubAllSusp_facts (rt : Routing) (rs : List Reaction) (hn : (keys rt).Nodup) :
    JudgeFacts rt .resubscribeAll (resubAllSusp cfg rt rs) := by
  unfold resubAllSusp
  simp only
  generalize ht : ((keys rt).filterMap fun s => (get? rt s).map fun i => (s, i)) = targets
  generalize hr1 : takeReacts targets.length rs = r1
  generalize hrens : targets.zip r1.1 = rens
  generalize hp2 : resubPhase2 Gen.C09Gena.defaultTimeoutResubscribe rens { rt := rt, fallbacks := [], first := none } = p2
  generalize hr2 : takeReacts p2.fallbacks.length r1.2 = r2
  generalize hsubs : p2.fallbacks.zip r2.1 = subs
  have hfb : p2.fallbacks = (rens.filter fun x => isRefused x.2).map (·.1.2) := by
    rw [← hp2, phase2_fallbacks]; rfl
  have hsubfst : subs.map (·.1) = p2.fallbacks := by
    rw [← hsubs]; apply zip_map_fst; rw [← hr2, takeReacts_length]
  have e1 : (fun x : (Str × Nat) × Reaction => (⟨renewRequest cfg x.1.2 x.1.1 Gen.C09Gena.defaultTimeoutResubscribe, x.2⟩ : Exch))
      = renE cfg Gen.C09Gena.defaultTimeoutResubscribe := rfl
  have e2 : (fun x : Nat × Reaction => (⟨subscribeRequest cfg x.1 Gen.C09Gena.defaultTimeoutResubscribe, x.2⟩ : Exch))
      = subE cfg Gen.C09Gena.defaultTimeoutResubscribe := rfl
  rw [e1, e2]
  refine ⟨?_, ?_, ?_, fun _ _ => by simp [targetOk]; split <;> rfl, ?_, fun _ _ _ => rfl, ?_⟩
  · apply phase3_nodup
    rw [← hp2]
    exact phase2_nodup _ _ _ hn
  · simp only [List.all_append, List.all_map, Bool.and_eq_true, List.all_eq_true]
    intro _
    exact ⟨fun x _ => by simp [renE, ren_valid cfg _ _ _ defaultTimeout_nonneg],
           fun x _ => by simp [subE, sub_valid cfg _ _ defaultTimeout_nonneg]⟩
  · simp only [fallbackOk, List.all_eq_true]
    intro j _
    simp only [fallbackAt, callBonus, Nat.add_zero, beq_iff_eq, List.countP_append, count_ren_initial,
      count_sub_refused, count_ren_refused, count_sub_initial, hsubfst, hfb, Nat.zero_add]
  · rw [List.foldl_append]
    have h2 := phase2_mirror cfg Gen.C09Gena.defaultTimeoutResubscribe rens { rt := rt, fallbacks := [], first := none }
    simp only at h2
    rw [h2, hp2]
    exact phase3_mirror cfg _ defaultTimeout_nonneg subs (p2.rt, p2.first)
  · show (_ ++ _ : List Exch).all unsubP = true
    simp only [List.all_append, List.all_map, Bool.and_eq_true, List.all_eq_true]
    exact ⟨fun x _ => unsubP_ren cfg _ _ _ _, fun x _ => unsubP_sub cfg _ _ _⟩

theorem judgeFacts_runCallS (susp : Bool) (rt : Routing) (c : Call) (rs : List Reaction) (hn : (keys rt).Nodup)
    : JudgeFacts rt c (runCallS cfg susp rt c rs) := by
  cases susp with
  | false => cases c <;> exact judgeFacts_runCall cfg rt _ rs hn
  | true =>
    cases c with
    | resubscribeAll => exact resubAllSusp_facts cfg rt rs hn
    | subscribe _ _ => exact judgeFacts_runCall cfg rt _ rs hn
    | resubscribe _ _ => exact judgeFacts_runCall cfg rt _ rs hn
    | unsubscribe _ => exact judgeFacts_runCall cfg rt _ rs hn
    | unsubscribeAll => exact judgeFacts_runCall cfg rt _ rs hn

end Upnp.C09
