/-
  C09 — facts about the GENERATED request tables (`Gen.C09Gena`), closed by `decide`: a change of
  event_handler.py that alters a header list or the TIMEOUT expression changes the table and breaks
  these; everything else in the C09 proofs uses the request builders only through this file.
-/
import Upnp.Lemmas.C09Text
import Upnp.Lemmas.PyDict
namespace Upnp.C09
open Upnp PyDict

/-- the TIMEOUT expression renders THE requested timeout as an integer: `int(timeout.total_seconds())`
    (`timeout.seconds` drops whole days — audit C09-2 — and `total_seconds()` alone renders a float) -/
def timeoutExprOk : Option HdrExpr → Bool
  | some .timeoutTotalInt => true
  | _ => false

/-- shape of an initial SUBSCRIBE: NT, CALLBACK, integer TIMEOUT, no SID -/
def subSpecOk (s : ReqSpec) : Bool :=
  s.method == mSUBSCRIBE && get? s.headers kSID == none && get? s.headers kNT == some (.const upnpEvent)
  && get? s.headers kCALLBACK == some .callback && timeoutExprOk (get? s.headers kTIMEOUT)
/-- shape of a renewal: SID, integer TIMEOUT, neither NT nor CALLBACK -/
def renewSpecOk (s : ReqSpec) : Bool :=
  s.method == mSUBSCRIBE && get? s.headers kSID == some .sid && get? s.headers kNT == none
  && get? s.headers kCALLBACK == none && timeoutExprOk (get? s.headers kTIMEOUT)
/-- shape of an UNSUBSCRIBE: SID -/
def unsubSpecOk (s : ReqSpec) : Bool :=
  s.method == mUNSUBSCRIBE && get? s.headers kSID == some .sid

/-- **pin**: the request builders of event_handler.py have the GENA shapes -/
theorem gen_tables_ok :
    subSpecOk Gen.C09Gena.subscribeReq = true ∧ renewSpecOk Gen.C09Gena.renewReq = true
    ∧ unsubSpecOk Gen.C09Gena.unsubReq = true := by decide

theorem hdr_mkReq (cfg : Cfg) (spec : ReqSpec) (svc : Nat) (t : Int) (sid k : Str) :
    hdr (mkReq cfg spec svc t sid) k = (get? spec.headers k).map (evalHdr cfg t sid) := by
  unfold hdr mkReq
  simp only
  induction spec.headers with
  | nil => rfl
  | cons p r ih => simp only [List.map_cons, get?]; split <;> simp_all

theorem timeout_valid (cfg : Cfg) (t : Int) (sid : Str) (h : 0 ≤ t) (oe : Option HdrExpr)
    (hk : timeoutExprOk oe = true) :
    ∃ x, oe.map (evalHdr cfg t sid) = some x ∧ validTimeoutText x = true := by
  cases oe with
  | none => simp [timeoutExprOk] at hk
  | some e =>
    cases e <;> simp [timeoutExprOk] at hk
    exact ⟨_, rfl, by simp [evalHdr, decInt_nonneg h, validTimeoutText_decNat]⟩

theorem digitsVal_decNat (n : Nat) : digitsVal (decNat n) = n := by
  have e : digitsVal (decNat n) = Nat.ofDigitChars 10 (Nat.toDigits 10 n) 0 := by
    unfold Nat.ofDigitChars digitsVal decNat digitVal
    congr 1
    funext a c
    rw [Nat.mul_comm]
    rfl
  rw [e]
  exact Nat.ofDigitChars_toDigits (by decide) (by decide)

/-- the TIMEOUT on the wire is the caller's timeout -/
theorem timeout_wire (cfg : Cfg) (t : Int) (sid : Str) (h : 0 ≤ t) (oe : Option HdrExpr)
    (hk : timeoutExprOk oe = true) :
    ∃ x, oe.map (evalHdr cfg t sid) = some x ∧ validTimeoutText x = true ∧ Int.ofNat (digitsVal (x.drop 7)) = t := by
  cases oe with
  | none => simp [timeoutExprOk] at hk
  | some e =>
    cases e <;> simp [timeoutExprOk] at hk
    refine ⟨_, rfl, by simp [evalHdr, decInt_nonneg h, validTimeoutText_decNat], ?_⟩
    simp only [evalHdr, decInt_nonneg h]
    have : (secondPrefix ++ decNat t.toNat).drop 7 = decNat t.toNat := by simp [secondPrefix]
    rw [this, digitsVal_decNat]
    exact Int.toNat_of_nonneg h

theorem callback_valid (cb : Str) : validCallbackText ('<' :: cb ++ ['>']) = true := by
  simp [validCallbackText]

section
variable (cfg : Cfg) (svc : Nat) (t : Int) (sid : Str)

theorem mSub_ne_mUnsub : mSUBSCRIBE ≠ mUNSUBSCRIBE := by decide

/-! initial SUBSCRIBE -/
theorem sub_method : (subscribeRequest cfg svc t).method = mSUBSCRIBE := by
  have := gen_tables_ok.1; simp only [subSpecOk, Bool.and_eq_true, beq_iff_eq] at this
  exact this.1.1.1.1
theorem sub_svc : (subscribeRequest cfg svc t).svc = svc := rfl
theorem sub_sid : hdr (subscribeRequest cfg svc t) kSID = none := by
  have := gen_tables_ok.1; simp only [subSpecOk, Bool.and_eq_true, beq_iff_eq] at this
  rw [subscribeRequest, hdr_mkReq, this.1.1.1.2]; rfl
theorem sub_callback : hdr (subscribeRequest cfg svc t) kCALLBACK = some ('<' :: cfg.callback ++ ['>']) := by
  have g := gen_tables_ok.1; simp only [subSpecOk, Bool.and_eq_true, beq_iff_eq] at g
  rw [subscribeRequest, hdr_mkReq, g.1.2]; rfl
theorem sub_valid (h : 0 ≤ t) : validReq (subscribeRequest cfg svc t) = true := by
  have g := gen_tables_ok.1; simp only [subSpecOk, Bool.and_eq_true, beq_iff_eq] at g
  obtain ⟨x, hx, hv⟩ := timeout_valid cfg t [] h _ g.2
  unfold validReq
  rw [sub_method, if_pos rfl, sub_sid]
  simp only [subscribeRequest, hdr_mkReq, g.1.1.2, g.1.2, hx]
  simp [evalHdr, validCallbackText, hv]
theorem sub_wire (h : 0 ≤ t) : wireTimeout (subscribeRequest cfg svc t) = some t := by
  have g := gen_tables_ok.1; simp only [subSpecOk, Bool.and_eq_true, beq_iff_eq] at g
  obtain ⟨x, hx, hv, hd⟩ := timeout_wire cfg t [] h _ g.2
  unfold wireTimeout
  simp only [subscribeRequest, hdr_mkReq, hx, hv, if_true, hd]
theorem sub_isInitial : isInitial (subscribeRequest cfg svc t) = true := by
  simp [isInitial, sub_method, sub_sid]
theorem sub_isRenewal : isRenewal (subscribeRequest cfg svc t) = false := by
  simp [isRenewal, sub_sid]

/-! renewal -/
theorem ren_method : (renewRequest cfg svc sid t).method = mSUBSCRIBE := by
  have := gen_tables_ok.2.1; simp only [renewSpecOk, Bool.and_eq_true, beq_iff_eq] at this
  exact this.1.1.1.1
theorem ren_svc : (renewRequest cfg svc sid t).svc = svc := rfl
theorem ren_hdr (k : Str) : hdr (renewRequest cfg svc sid t) k = hdr (mkReq cfg Gen.C09Gena.renewReq svc t sid) k := rfl
theorem ren_sid : hdr (renewRequest cfg svc sid t) kSID = some sid := by
  have := gen_tables_ok.2.1; simp only [renewSpecOk, Bool.and_eq_true, beq_iff_eq] at this
  rw [ren_hdr, hdr_mkReq, this.1.1.1.2]; rfl
theorem ren_valid (h : 0 ≤ t) : validReq (renewRequest cfg svc sid t) = true := by
  have g := gen_tables_ok.2.1; simp only [renewSpecOk, Bool.and_eq_true, beq_iff_eq] at g
  obtain ⟨x, hx, hv⟩ := timeout_valid cfg t sid h _ g.2
  unfold validReq
  rw [ren_method, if_pos rfl, ren_sid]
  simp only [ren_hdr, hdr_mkReq, g.1.1.2, g.1.2, hx]
  simp [hv]
theorem ren_wire (h : 0 ≤ t) : wireTimeout (renewRequest cfg svc sid t) = some t := by
  have g := gen_tables_ok.2.1; simp only [renewSpecOk, Bool.and_eq_true, beq_iff_eq] at g
  obtain ⟨x, hx, hv, hd⟩ := timeout_wire cfg t sid h _ g.2
  unfold wireTimeout
  simp only [ren_hdr, hdr_mkReq, hx, hv, if_true, hd]
theorem ren_routed : (renewRequest cfg svc sid t).routed = some svc := rfl
theorem ren_isInitial : isInitial (renewRequest cfg svc sid t) = false := by
  simp [isInitial, ren_sid]
theorem ren_isRenewal : isRenewal (renewRequest cfg svc sid t) = true := by
  simp [isRenewal, ren_method, ren_sid]

/-! UNSUBSCRIBE -/
theorem uns_method : (unsubRequest cfg svc sid).method = mUNSUBSCRIBE := by
  have := gen_tables_ok.2.2; simp only [unsubSpecOk, Bool.and_eq_true, beq_iff_eq] at this
  exact this.1
theorem uns_svc : (unsubRequest cfg svc sid).svc = svc := rfl
theorem uns_sid : hdr (unsubRequest cfg svc sid) kSID = some sid := by
  have := gen_tables_ok.2.2; simp only [unsubSpecOk, Bool.and_eq_true, beq_iff_eq] at this
  rw [unsubRequest, hdr_mkReq, this.2]; rfl
theorem uns_valid : validReq (unsubRequest cfg svc sid) = true := by
  unfold validReq
  rw [uns_method, if_neg (Ne.symm mSub_ne_mUnsub), if_pos rfl, uns_sid]; rfl
theorem uns_routed : (unsubRequest cfg svc sid).routed = none := rfl
theorem sub_routed : (subscribeRequest cfg svc t).routed = none := rfl
theorem uns_isInitial : isInitial (unsubRequest cfg svc sid) = false := by
  simp [isInitial, uns_method, Ne.symm mSub_ne_mUnsub]
theorem uns_isRenewal : isRenewal (unsubRequest cfg svc sid) = false := by
  simp [isRenewal, uns_method, Ne.symm mSub_ne_mUnsub]
end

end Upnp.C09
