/-
  C09 helper lemmas about text: decimal rendering is digits, Python `int()` reads a digit string
  back, the `Second-N` recogniser accepts what the request builders produce.
-/
import Upnp.Spec.C09
namespace Upnp.C09
open Upnp PyDict

theorem decNat_ne_nil (n : Nat) : decNat n ≠ [] := Nat.toDigits_ne_nil

theorem decNat_all_digit (n : Nat) : (decNat n).all Char.isDigit = true := by
  rw [List.all_eq_true]
  intro c hc
  exact Nat.isDigit_of_mem_toDigits (by decide) (by decide) hc

theorem isPrefixOf_append (p x : Str) : p.isPrefixOf (p ++ x) = true := by
  induction p with
  | nil => simp
  | cons a r ih => simp [ih]

theorem validTimeoutText_digits (ds : Str) (hne : ds ≠ []) (hd : ds.all Char.isDigit = true) :
    validTimeoutText (secondPrefix ++ ds) = true := by
  have hdrop : (secondPrefix ++ ds).drop 7 = ds := by simp [secondPrefix]
  unfold validTimeoutText
  rw [hdrop, isPrefixOf_append]
  cases ds with
  | nil => exact absurd rfl hne
  | cons a r => simpa using hd

theorem validTimeoutText_decNat (n : Nat) : validTimeoutText (secondPrefix ++ decNat n) = true :=
  validTimeoutText_digits _ (decNat_ne_nil n) (decNat_all_digit n)

theorem decInt_nonneg {t : Int} (h : 0 ≤ t) : decInt t = decNat t.toNat := by
  unfold decInt; split
  · omega
  · rfl

/-! ### `int()` on a digit string -/

theorem digit_bounds {c : Char} (h : c.isDigit = true) : 48 ≤ c.toNat ∧ c.toNat ≤ 57 := by
  unfold Char.isDigit at h
  simp only [Bool.and_eq_true, decide_eq_true_eq] at h
  obtain ⟨h1, h2⟩ := h
  rw [ge_iff_le, UInt32.le_iff_toNat_le] at h1
  rw [UInt32.le_iff_toNat_le] at h2
  exact ⟨h1, h2⟩

theorem digit_not_space {c : Char} (h : c.isDigit = true) : isPySpace c = false := by
  have hb := digit_bounds h
  simp only [isPySpace, Bool.or_eq_false_iff, Bool.and_eq_false_iff, decide_eq_false_iff_not]
  constructor <;> right <;> omega

theorem parseDigits_digits (ds : Str) (hd : ds.all Char.isDigit = true) (acc : Nat) (prev : Bool)
    (h : ds ≠ [] ∨ prev = true) :
    parseDigits ds acc prev = some (ds.foldl (fun a c => a * 10 + digitVal c) acc) := by
  induction ds generalizing acc prev with
  | nil => cases h with
    | inl h => exact absurd rfl h
    | inr h => simp [parseDigits, h]
  | cons c r ih =>
    simp only [List.all_cons, Bool.and_eq_true] at hd
    simp only [parseDigits, hd.1, if_true, List.foldl_cons]
    exact ih hd.2 _ true (Or.inr rfl)

theorem stripL_digits (ds : Str) (hd : ds.all Char.isDigit = true) : stripL ds = ds := by
  cases ds with
  | nil => rfl
  | cons c r =>
    simp only [List.all_cons, Bool.and_eq_true] at hd
    simp [stripL, List.dropWhile, digit_not_space hd.1]

theorem strip_digits (ds : Str) (hd : ds.all Char.isDigit = true) : strip ds = ds := by
  unfold strip
  rw [stripL_digits ds hd, stripL_digits ds.reverse (by simpa using hd)]
  simp

theorem pyInt_digits (ds : Str) (hne : ds ≠ []) (hd : ds.all Char.isDigit = true) :
    pyInt? ds = some (Int.ofNat (digitsVal ds)) := by
  unfold pyInt?
  rw [strip_digits ds hd]
  have hp := parseDigits_digits ds hd 0 false (Or.inl hne)
  cases ds with
  | nil => exact absurd rfl hne
  | cons c r =>
    simp only [List.all_cons, Bool.and_eq_true] at hd
    have hc : c ≠ '+' ∧ c ≠ '-' := by
      constructor <;> (intro e; subst e; exact absurd hd.1 (by decide))
    split
    · rename_i h; injection h with h1 _; exact absurd h1 hc.1
    · rename_i h; injection h with h1 _; exact absurd h1 hc.2
    · rw [hp]; rfl

end Upnp.C09
