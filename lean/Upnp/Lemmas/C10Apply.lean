/-
  C10 helper lemmas: the `changes` dict of a well-formed property set, and the per-variable
  characterisation of the loop of `notify_changed_state_variables`.
-/
import Upnp.Lemmas.C10Names
import Upnp.Lemmas.C08Valid
set_option linter.unusedSectionVars false
namespace Upnp.C10
open Upnp PyDict Upnp.C09
variable [FloatOracle]

/-! ### the `changes` dict -/

def pairsOf (b : Body) : List (Str × Str) := (kids b).map fun c => (tagOf c, c.text)

theorem changesOf_eq (b : Body) : changesOf b = (pairsOf b).foldl (fun acc p => set acc p.1 p.2) [] := by
  simp [changesOf, pairsOf, kids, List.foldl_map]

theorem changesOf_nodup (b : Body) : (keys (changesOf b)).Nodup := by
  rw [changesOf_eq]; exact nodup_keys_foldl_set _ _ List.nodup_nil

theorem changesOf_key (b : Body) (t : Str) (ht : t ∈ keys (changesOf b)) : ∃ c ∈ kids b, tagOf c = t := by
  rw [changesOf_eq, mem_keys_foldl_set] at ht
  rcases ht with h | h
  · cases h
  · simp only [pairsOf, List.map_map, List.mem_map, Function.comp] at h
    obtain ⟨c, hc, rfl⟩ := h
    exact ⟨c, hc, rfl⟩

theorem changesOf_get (b : Body) (t : Str) : get? (changesOf b) t = get? (pairsOf b).reverse t := by
  rw [changesOf_eq, get?_foldl_set]; simp

theorem bodyWF_iff (b : Body) :
    bodyWF b = true ↔ (∀ c ∈ kids b, childWF c = true)
      ∧ (∀ c ∈ kids b, ∀ c' ∈ kids b, c.name = c'.name → c.ns = c'.ns) := by
  simp only [bodyWF, Bool.and_eq_true, List.all_eq_true, Bool.or_eq_true, bne_iff_ne, ne_eq, beq_iff_eq]
  constructor
  · rintro ⟨h1, h2⟩
    refine ⟨h1, fun c hc c' hc' e => ?_⟩
    rcases h2 c hc c' hc' with h | h
    · exact absurd e h
    · exact h
  · rintro ⟨h1, h2⟩
    refine ⟨h1, fun c hc c' hc' => ?_⟩
    by_cases e : c.name = c'.name
    · exact Or.inr (h2 c hc c' hc' e)
    · exact Or.inl e

theorem tagOf_eq_of_name {c c' : Child} (hn : c.name = c'.name) (hs : c.ns = c'.ns) : tagOf c = tagOf c' := by
  simp [tagOf, hn, hs]

/-! ### the loop, by variable name -/

/-- the (variable, text) assignments of the `changes` dict among the declared names -/
def assigns (names : List Str) (b : Body) : List (Str × Str) :=
  (changesOf b).filterMap fun p => (resolveName names p.1).map fun n => (n, p.2)

def applyNamed (tick : Nat) : List (Str × Str) → List Var → List Str → List Var × List Str
  | [], vars, ch => (vars, ch)
  | (n, text) :: r, vars, ch =>
    let u := updateVar vars n text tick
    applyNamed tick r u.1 (if u.2 then ch ++ [n] else ch)

theorem applyChanges_named (names : List Str) (tick : Nat) (ch : List (Str × Str)) (vars : List Var) (acc : List Str) :
    applyChanges names tick ch vars acc
      = applyNamed tick (ch.filterMap fun p => (resolveName names p.1).map fun n => (n, p.2)) vars acc := by
  induction ch generalizing vars acc with
  | nil => rfl
  | cons p r ih =>
    obtain ⟨tag, text⟩ := p
    simp only [applyChanges, List.filterMap_cons]
    cases resolveName names tag with
    | none => exact ih _ _
    | some n => simp only [Option.map_some, applyNamed]; exact ih _ _

/-- every coercer of the generated table answers any text with a value or ValueError (C08's totality result):
    no other exception can leave `upnp_value = text` -/
theorem convert_total (v : Var) (text : Str) :
    (∃ x, convert v text = .ok x) ∨ convert v text = .error .valueError :=
  Upnp.C08.coercePython_total FloatOracle.ops table 6 (by decide) (Nat.le_refl _) v.row text

theorem raisesVar_none (v : Var) (text : Str) : raisesVar v text = none := by
  unfold raisesVar
  rcases convert_total v text with ⟨x, h⟩ | h <;> simp [h]

theorem setUpnpValue_decl (v : Var) (text : Str) (tick : Nat) : (setUpnpValue v text tick).1.decl = v.decl := by
  unfold setUpnpValue; split
  · split <;> rfl
  · split <;> rfl

theorem setUpnpValue_row (v : Var) (text : Str) (tick : Nat) :
    (setUpnpValue v text tick).1.row = v.row ∧ (setUpnpValue v text tick).1.sc = v.sc := by
  unfold setUpnpValue; split
  · split <;> exact ⟨rfl, rfl⟩
  · split <;> exact ⟨rfl, rfl⟩

theorem updateVar_fst (vars : List Var) (n text : Str) (tick : Nat) (hnd : (vars.map (·.decl.name)).Nodup) :
    (updateVar vars n text tick).1 =
      vars.map fun v => if v.decl.name = n then (setUpnpValue v text tick).1 else v := by
  induction vars with
  | nil => rfl
  | cons v r ih =>
    simp only [List.map_cons, List.nodup_cons] at hnd
    simp only [updateVar, List.map_cons]
    by_cases h : v.decl.name = n
    · simp only [h, if_true, List.cons.injEq, true_and]
      symm
      rw [List.map_congr_left (g := id)]
      · simp
      · intro w hw
        have : w.decl.name ≠ n := by
          intro e; exact hnd.1 (by rw [h, ← e]; exact List.mem_map_of_mem hw)
        simp [this]
    · simp only [h, if_false, List.cons.injEq, true_and]
      exact ih hnd.2

theorem updateVar_snd (vars : List Var) (n text : Str) (tick : Nat) :
    (updateVar vars n text tick).2 =
      match vars.find? (fun v => v.decl.name = n) with
      | some v => (setUpnpValue v text tick).2
      | none => false := by
  induction vars with
  | nil => rfl
  | cons v r ih =>
    simp only [updateVar, List.find?_cons]
    by_cases h : v.decl.name = n
    · simp [h]
    · simp only [h, if_false, decide_false]; exact ih

/-- the state of one variable after an assignment list (distinct names) -/
def varAfter (pairs : List (Str × Str)) (tick : Nat) (v : Var) : Var :=
  match get? pairs v.decl.name with
  | some text => (setUpnpValue v text tick).1
  | none => v

/-- the names listed by the callback -/
def listedOf (pairs : List (Str × Str)) (tick : Nat) (vars : List Var) : List Str :=
  pairs.filterMap fun p =>
    match vars.find? (fun v => v.decl.name = p.1) with
    | some v => if (setUpnpValue v p.2 tick).2 then some p.1 else none
    | none => none

theorem filterMap_congr' {α β : Type} (l : List α) (f g : α → Option β) (h : ∀ a ∈ l, f a = g a) :
    l.filterMap f = l.filterMap g := by
  induction l with
  | nil => rfl
  | cons a r ih =>
    simp only [List.filterMap_cons, h a List.mem_cons_self]
    rw [ih fun x hx => h x (List.mem_cons_of_mem _ hx)]

theorem find_map_other (vars : List Var) (f : Var → Var) (n m : Str) (hnm : m ≠ n)
    (hf : ∀ v, v.decl.name ≠ n → f v = v) (hfn : ∀ v, (f v).decl.name = v.decl.name) :
    (vars.map f).find? (fun v => v.decl.name = m) = vars.find? (fun v => v.decl.name = m) := by
  induction vars with
  | nil => rfl
  | cons v r ih =>
    simp only [List.map_cons, List.find?_cons, hfn]
    by_cases h : v.decl.name = m
    · have : v.decl.name ≠ n := by rw [h]; exact hnm
      simp [h, hf v this]
    · simp only [h, decide_false]; exact ih

theorem applyNamed_spec (tick : Nat) (pairs : List (Str × Str)) (hp : (pairs.map (·.1)).Nodup)
    (vars : List Var) (hnd : (vars.map (·.decl.name)).Nodup) (ch : List Str) :
    applyNamed tick pairs vars ch = (vars.map (varAfter pairs tick), ch ++ listedOf pairs tick vars) := by
  induction pairs generalizing vars ch with
  | nil =>
    simp only [applyNamed, listedOf, List.filterMap_nil, List.append_nil, Prod.mk.injEq, and_true]
    symm; rw [List.map_congr_left (g := id)]
    · simp
    · intro v _; simp [varAfter]
  | cons p r ih =>
    obtain ⟨n, text⟩ := p
    simp only [List.map_cons, List.nodup_cons] at hp
    simp only [applyNamed]
    have hf1 := updateVar_fst vars n text tick hnd
    have hnames : ((updateVar vars n text tick).1.map (·.decl.name)) = vars.map (·.decl.name) := by
      rw [hf1, List.map_map]
      apply List.map_congr_left
      intro v _
      simp only [Function.comp]
      split
      · exact congrArg Decl.name (setUpnpValue_decl v text tick)
      · rfl
    rw [ih hp.2 _ (hnames ▸ hnd)]
    refine Prod.ext ?_ ?_
    · -- variables
      simp only [hf1, List.map_map]
      apply List.map_congr_left
      intro v _
      simp only [Function.comp, varAfter]
      by_cases h : v.decl.name = n
      · have hnone : get? r n = none := by
          rw [get?_eq_none_iff]; exact hp.1
        simp [h, get?, setUpnpValue_decl, hnone]
      · have : n ≠ v.decl.name := fun e => h e.symm
        simp [h, get?, this]
    · -- listed names
      simp only [updateVar_snd, listedOf, List.filterMap_cons]
      have hrest : (r.filterMap fun p =>
            match (updateVar vars n text tick).1.find? (fun v => v.decl.name = p.1) with
            | some v => if (setUpnpValue v p.2 tick).2 then some p.1 else none
            | none => none)
          = r.filterMap fun p =>
            match vars.find? (fun v => v.decl.name = p.1) with
            | some v => if (setUpnpValue v p.2 tick).2 then some p.1 else none
            | none => none := by
        apply filterMap_congr'
        intro q hq
        have hqn : q.1 ≠ n := by
          intro e; exact hp.1 (e ▸ List.mem_map_of_mem hq)
        rw [hf1, find_map_other vars _ n q.1 hqn]
        · intro v hv; simp [hv]
        · intro v; split
          · exact congrArg Decl.name (setUpnpValue_decl v text tick)
          · rfl
      rw [hrest]
      cases hfind : vars.find? (fun v => v.decl.name = n) with
      | none => simp
      | some v =>
        by_cases hflag : (setUpnpValue v text tick).2 = true
        · simp [hflag]
        · simp [hflag]

end Upnp.C10
