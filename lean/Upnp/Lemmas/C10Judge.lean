/-
  C10 helper lemmas: one NOTIFY applied to one service, stated against the judge's per-variable
  specification (`specVar`, `routedSvcOk`).
-/
import Upnp.Lemmas.C10Apply
namespace Upnp.C10
open Upnp PyDict Upnp.C09

/-- declarations of one service: distinct, brace-free names -/
def declsWF (ds : List Decl) : Prop := (ds.map (·.name)).Nodup ∧ ∀ d ∈ ds, braceFree d.name = true

theorem assigns_names_sublist (names : List Str) (l : List Child) :
    ((l.filterMap fun c => if names.contains c.name then some (c.name, c.text) else none).map (·.1)).Sublist
      (l.map (·.name)) := by
  induction l with
  | nil => simp
  | cons c r ih =>
    simp only [List.filterMap_cons, List.map_cons]
    split
    · rename_i h; split at h <;> simp_all
    · rename_i p h
      split at h
      · cases h; simpa using ih
      · cases h

theorem assigns_nodup (names : List Str) (b : Body) (hb : bodyWF b = true) :
    ((assigns names b).map (·.1)).Nodup :=
  ((bodyWF_iff b).mp hb).2.sublist (assigns_names_sublist names (kids b)) |> fun h => h
where
  _root_.List.Nodup.sublist {α : Type} {l₁ l₂ : List α} (h : l₂.Nodup) (s : l₁.Sublist l₂) : l₁.Nodup :=
    List.Sublist.nodup s h

theorem carried_assigns (names : List Str) (b : Body) (x : Str) (hx : names.contains x = true) :
    carried x b = get? (assigns names b) x := by
  unfold carried assigns
  induction kids b with
  | nil => rfl
  | cons c r ih =>
    simp only [List.find?_cons, List.filterMap_cons]
    by_cases h : c.name = x
    · subst h
      have hm : c.name ∈ names := by simpa using hx
      simp [hm, get?]
    · have h' : (c.name == x) = false := by simpa using h
      rw [h']
      simp only
      split
      · exact ih
      · rename_i p hp
        split at hp
        · cases hp; simp [get?, h, ih]
        · cases hp

/-- `notify_changed_state_variables` on a well-formed property set, by variable -/
theorem notifyChanged_spec (s : Svc) (hs : declsWF (s.vars.map (·.decl))) (b : Body) (hb : bodyWF b = true)
    (tick : Nat) :
    notifyChanged s (changesOf b) tick =
      { vars := s.vars.map (varAfter (assigns s.names b) tick),
        events := s.events ++ [listedOf (assigns s.names b) tick s.vars] } := by
  have hn : ∀ n ∈ s.names, braceFree n = true := by
    intro n hn
    simp only [Svc.names, List.mem_map] at hn
    obtain ⟨v, hv, rfl⟩ := hn
    exact hs.2 v.decl (List.mem_map_of_mem hv)
  have hnd : (s.vars.map (·.decl.name)).Nodup := by
    have := hs.1; simpa [List.map_map, Function.comp_def] using this
  unfold notifyChanged
  rw [changesOf_wf b hb, applyChanges_named s.names hn tick (kids b) ((bodyWF_iff b).mp hb).1]
  have := applyNamed_spec tick (assigns s.names b) (assigns_nodup s.names b hb) s.vars hnd []
  unfold assigns at this ⊢
  rw [this]
  simp

theorem find_of_mem_nodup (vars : List Var) (hnd : (vars.map (·.decl.name)).Nodup) (v : Var) (hv : v ∈ vars) :
    vars.find? (fun w => w.decl.name = v.decl.name) = some v := by
  induction vars with
  | nil => cases hv
  | cons w r ih =>
    simp only [List.map_cons, List.nodup_cons] at hnd
    simp only [List.find?_cons]
    rcases List.mem_cons.mp hv with h | h
    · subst h; simp
    · have : w.decl.name ≠ v.decl.name := by
        intro e; exact hnd.1 (e ▸ List.mem_map_of_mem h)
      simp only [this, decide_false]
      exact ih hnd.2 h

theorem listedOf_sublist (pairs : List (Str × Str)) (tick : Nat) (vars : List Var) :
    (listedOf pairs tick vars).Sublist (pairs.map (·.1)) := by
  unfold listedOf
  induction pairs with
  | nil => simp
  | cons p r ih =>
    simp only [List.filterMap_cons, List.map_cons]
    split
    · exact List.Sublist.cons _ ih
    · rename_i x hx
      have : x = p.1 := by
        split at hx
        · split at hx
          · cases hx; rfl
          · cases hx
        · cases hx
      subst this
      exact List.Sublist.cons_cons _ ih

theorem listedOf_declared (pairs : List (Str × Str)) (tick : Nat) (vars : List Var) :
    ∀ x ∈ listedOf pairs tick vars, x ∈ vars.map (·.decl.name) := by
  intro x hx
  simp only [listedOf, List.mem_filterMap] at hx
  obtain ⟨p, _, hp⟩ := hx
  split at hp
  · rename_i v hv
    split at hp
    · cases hp
      have := List.find?_some hv
      have hm := List.mem_of_find?_eq_some hv
      simp only [decide_eq_true_eq] at this
      exact this ▸ List.mem_map_of_mem hm
    · cases hp
  · cases hp

theorem listedOf_contains (pairs : List (Str × Str)) (hp : (pairs.map (·.1)).Nodup) (tick : Nat)
    (vars : List Var) (hnd : (vars.map (·.decl.name)).Nodup) (v : Var) (hv : v ∈ vars) :
    (listedOf pairs tick vars).contains v.decl.name =
      match get? pairs v.decl.name with
      | some text => (setUpnpValue v text tick).2
      | none => false := by
  induction pairs with
  | nil => rfl
  | cons p r ih =>
    obtain ⟨n, text⟩ := p
    simp only [List.map_cons, List.nodup_cons] at hp
    have ihr := ih hp.2
    simp only [listedOf, List.filterMap_cons] at ihr ⊢
    by_cases h : n = v.decl.name
    · subst h
      have hnone : get? r v.decl.name = none := by rw [get?_eq_none_iff]; exact hp.1
      rw [hnone] at ihr
      simp only [find_of_mem_nodup vars hnd v hv, get?, if_true]
      by_cases hf : (setUpnpValue v text tick).2 = true
      · simp [hf]
      · simp only [hf, Bool.false_eq_true, if_false]
        rw [ihr]
    · simp only [get?, h, if_false]
      rw [← ihr]
      cases hfind : vars.find? (fun w => w.decl.name = n) with
      | none => simp
      | some w =>
        by_cases hf : (setUpnpValue w text tick).2 = true
        · simp [hf, Ne.symm h]
        · simp [hf]

/-- one variable against the judge's per-variable specification -/
theorem varAfter_spec (names : List Str) (b : Body) (tick : Nat) (v : Var) (hx : names.contains v.decl.name = true) :
    let v' := varAfter (assigns names b) tick v
    let flag := match get? (assigns names b) v.decl.name with
      | some text => (setUpnpValue v text tick).2
      | none => false
    v'.decl = v.decl ∧
    (v'.st.stored.read, v'.st.updated, flag) = specVar v.decl b tick v.st.stored.read v.st.updated := by
  simp only [varAfter, specVar, carried_assigns names b v.decl.name hx]
  cases get? (assigns names b) v.decl.name with
  | none => exact ⟨rfl, rfl⟩
  | some text =>
    simp only [setUpnpValue]
    cases convert (inKindOf v.decl.dtype) text with
    | none => exact ⟨rfl, rfl⟩
    | some x =>
      simp only
      by_cases hval : validate v.decl x = true
      · simp [hval, Stored.read]
      · simp [hval]

theorem zip3_map {α β γ δ : Type} (l : List δ) (f : δ → α) (g : δ → β) (h : δ → γ) :
    zip3 (l.map f) (l.map g) (l.map h) = l.map fun x => (f x, g x, h x) := by
  induction l with
  | nil => rfl
  | cons a r ih => simp [zip3, ih]

/-- **the routed service satisfies the judge** -/
theorem routedSvcOk_model (s : Svc) (hs : declsWF (s.vars.map (·.decl))) (b : Body) (hb : bodyWF b = true)
    (tick : Nat) :
    let s' := notifyChanged s (changesOf b) tick
    routedSvcOk (s.vars.map (·.decl)) b tick (svcObs s) (svcObs s') (s'.events.drop s.events.length) = true
    ∧ s'.vars.map (·.decl) = s.vars.map (·.decl) := by
  have hnd : (s.vars.map (·.decl.name)).Nodup := by
    have := hs.1; simpa [List.map_map, Function.comp_def] using this
  simp only [notifyChanged_spec s hs b hb tick, List.drop_left]
  have hdecl : ∀ v ∈ s.vars, (varAfter (assigns s.names b) tick v).decl = v.decl := by
    intro v hv
    have hx : s.names.contains v.decl.name = true := by
      simp only [Svc.names, List.contains_eq_mem, List.mem_map, decide_eq_true_eq]
      exact ⟨v, hv, rfl⟩
    exact (varAfter_spec s.names b tick v hx).1
  refine ⟨?_, ?_⟩
  · simp only [routedSvcOk, Bool.and_eq_true]
    refine ⟨⟨⟨⟨?_, ?_⟩, ?_⟩, ?_⟩, ?_⟩
    · rw [nodupB_iff]
      exact List.Sublist.nodup (listedOf_sublist _ _ _) (assigns_nodup s.names b hb)
    · rw [List.all_eq_true]
      intro x hx
      have := listedOf_declared _ _ _ x hx
      simpa [List.map_map] using this
    · simp [svcObs]
    · simp [svcObs]
    · simp only [svcObs, List.map_map]
      rw [zip3_map, List.all_eq_true]
      intro t ht
      simp only [List.mem_map] at ht
      obtain ⟨v, hv, rfl⟩ := ht
      have hx : s.names.contains v.decl.name = true := by
        simp only [Svc.names, List.contains_eq_mem, List.mem_map, decide_eq_true_eq]
        exact ⟨v, hv, rfl⟩
      obtain ⟨h1, h2⟩ := varAfter_spec s.names b tick v hx
      simp only [varOk, Bool.and_eq_true, beq_iff_eq]
      refine ⟨⟨trivial, by simp only [Function.comp]; rw [h1]⟩, ?_⟩
      rw [listedOf_contains _ (assigns_nodup s.names b hb) tick s.vars hnd v hv]
      exact h2
  · rw [List.map_map]
    apply List.map_congr_left
    intro v hv
    exact hdecl v hv

end Upnp.C10
