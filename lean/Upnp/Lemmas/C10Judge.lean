/-
  C10 helper lemmas: one NOTIFY applied to one service, stated against the judge's per-variable
  specification (`specVar`, `routedSvcOk`).
-/
import Upnp.Lemmas.C10Apply
set_option linter.unusedSectionVars false
namespace Upnp.C10
open Upnp PyDict Upnp.C09
variable [FloatOracle]

/-- declarations of one service: distinct, brace-free names -/
def declsWF (ds : List Var) : Prop := (ds.map (·.decl.name)).Nodup ∧ ∀ d ∈ ds, braceFree d.decl.name = true

/-- under `bodyWF` the name lookup is injective on the tags present in the `changes` dict -/
theorem resolve_inj (names : List Str) (hn : ∀ n ∈ names, braceFree n = true) (b : Body) (hb : bodyWF b = true)
    (t1 t2 : Str) (h1 : t1 ∈ keys (changesOf b)) (h2 : t2 ∈ keys (changesOf b)) (x : Str)
    (e1 : resolveName names t1 = some x) (e2 : resolveName names t2 = some x) : t1 = t2 := by
  obtain ⟨hwf, hsame⟩ := (bodyWF_iff b).mp hb
  obtain ⟨c1, hc1, rfl⟩ := changesOf_key b t1 h1
  obtain ⟨c2, hc2, rfl⟩ := changesOf_key b t2 h2
  rw [resolve_tagOf names hn c1 (hwf c1 hc1)] at e1
  rw [resolve_tagOf names hn c2 (hwf c2 hc2)] at e2
  have n1 : c1.name = x := by split at e1 <;> simp_all
  have n2 : c2.name = x := by split at e2 <;> simp_all
  have hnm : c1.name = c2.name := n1.trans n2.symm
  exact tagOf_eq_of_name hnm (hsame c1 hc1 c2 hc2 hnm)

theorem filterMap_keys_nodup (ch : List (Str × Str)) (f : Str → Option Str) (hnd : (keys ch).Nodup)
    (hinj : ∀ t1 ∈ keys ch, ∀ t2 ∈ keys ch, ∀ x, f t1 = some x → f t2 = some x → t1 = t2) :
    ((ch.filterMap fun p => (f p.1).map fun n => (n, p.2)).map (·.1)).Nodup := by
  induction ch with
  | nil => simp
  | cons p r ih =>
    obtain ⟨t, v⟩ := p
    simp only [keys, List.map_cons, List.nodup_cons] at hnd
    have ihr := ih hnd.2 (fun t1 h1 t2 h2 => hinj t1 (List.mem_cons_of_mem _ h1) t2 (List.mem_cons_of_mem _ h2))
    simp only [List.filterMap_cons]
    cases hf : f t with
    | none => simpa using ihr
    | some n =>
      simp only [Option.map_some, List.map_cons, List.nodup_cons]
      refine ⟨?_, ihr⟩
      intro hmem
      simp only [List.mem_map, List.mem_filterMap] at hmem
      obtain ⟨q, ⟨p', hp', hq⟩, hqn⟩ := hmem
      cases hf' : f p'.1 with
      | none => simp [hf'] at hq
      | some n' =>
        simp only [hf', Option.map_some, Option.some.injEq] at hq
        subst hq
        simp only at hqn
        subst hqn
        have : t = p'.1 := hinj t List.mem_cons_self p'.1
          (List.mem_cons_of_mem _ (List.mem_map_of_mem (f := (·.1)) hp')) _ hf hf'
        exact hnd.1 (this ▸ List.mem_map_of_mem (f := (·.1)) hp')

theorem assigns_nodup (names : List Str) (hn : ∀ n ∈ names, braceFree n = true) (b : Body) (hb : bodyWF b = true) :
    ((assigns names b).map (·.1)).Nodup :=
  filterMap_keys_nodup (changesOf b) (resolveName names) (changesOf_nodup b)
    (fun t1 h1 t2 h2 x e1 e2 => resolve_inj names hn b hb t1 t2 h1 h2 x e1 e2)

theorem get?_filterMap_at (ch : List (Str × Str)) (f : Str → Option Str) (x t0 : Str) (h0 : f t0 = some x)
    (huniq : ∀ t ∈ keys ch, f t = some x → t = t0) :
    get? (ch.filterMap fun p => (f p.1).map fun n => (n, p.2)) x = get? ch t0 := by
  induction ch with
  | nil => rfl
  | cons p r ih =>
    obtain ⟨t, v⟩ := p
    have ihr := ih (fun t' h' => huniq t' (List.mem_cons_of_mem _ h'))
    simp only [List.filterMap_cons]
    by_cases e : t = t0
    · subst e; simp [h0, get?]
    · have hne : f t ≠ some x := fun hf => e (huniq t List.mem_cons_self hf)
      cases hf : f t with
      | none => simp [get?, e, ihr]
      | some n =>
        have : n ≠ x := by intro en; subst en; exact hne hf
        simp [get?, e, this, ihr]

theorem get?_filterMap_none (ch : List (Str × Str)) (f : Str → Option Str) (x : Str)
    (hnone : ∀ t ∈ keys ch, f t ≠ some x) :
    get? (ch.filterMap fun p => (f p.1).map fun n => (n, p.2)) x = none := by
  induction ch with
  | nil => rfl
  | cons p r ih =>
    obtain ⟨t, v⟩ := p
    have ihr := ih (fun t' h' => hnone t' (List.mem_cons_of_mem _ h'))
    simp only [List.filterMap_cons]
    cases hf : f t with
    | none => simpa using ihr
    | some n =>
      have : n ≠ x := by intro en; subst en; exact hnone t List.mem_cons_self hf
      simp [get?, this, ihr]

theorem get?_map_tag (m : List Child) (t0 x : Str) (h : ∀ c ∈ m, tagOf c = t0 ↔ c.name = x) :
    get? (m.map fun c => (tagOf c, c.text)) t0 = (m.find? (·.name == x)).map (·.text) := by
  induction m with
  | nil => rfl
  | cons c r ih =>
    have ihr := ih fun c' hc' => h c' (List.mem_cons_of_mem _ hc')
    simp only [List.map_cons, get?, List.find?_cons]
    by_cases e : c.name = x
    · simp [(h c List.mem_cons_self).mpr e, e]
    · have : tagOf c ≠ t0 := fun ht => e ((h c List.mem_cons_self).mp ht)
      have e' : (c.name == x) = false := by simpa using e
      simp [this, e', ihr]

/-- the text the `changes` dict assigns to a declared variable is that of the last element naming it -/
theorem carried_assigns (names : List Str) (hn : ∀ n ∈ names, braceFree n = true) (b : Body) (hb : bodyWF b = true)
    (x : Str) (hx : names.contains x = true) :
    carried x b = get? (assigns names b) x := by
  obtain ⟨hwf, hsame⟩ := (bodyWF_iff b).mp hb
  have hres : ∀ c ∈ kids b, resolveName names (tagOf c) = some x ↔ c.name = x := by
    intro c hc
    rw [resolve_tagOf names hn c (hwf c hc)]
    constructor
    · intro h; split at h <;> simp_all
    · intro h; subst h; have : c.name ∈ names := by simpa using hx
      simp [this]
  by_cases hex : ∃ c0 ∈ kids b, c0.name = x
  · obtain ⟨c0, hc0, hc0x⟩ := hex
    have htag : ∀ c ∈ kids b, tagOf c = tagOf c0 ↔ c.name = x := by
      intro c hc
      constructor
      · intro ht; rw [tagOf_name c c0 (hwf c hc) (hwf c0 hc0) ht, hc0x]
      · intro hcx
        have hnm : c.name = c0.name := hcx.trans hc0x.symm
        exact tagOf_eq_of_name hnm (hsame c hc c0 hc0 hnm)
    unfold assigns
    rw [get?_filterMap_at (changesOf b) (resolveName names) x (tagOf c0) ((hres c0 hc0).mpr hc0x)]
    · rw [changesOf_get]
      unfold carried pairsOf
      rw [← List.map_reverse]
      exact (get?_map_tag (kids b).reverse (tagOf c0) x (fun c hc => htag c (List.mem_reverse.mp hc))).symm
    · intro t ht hft
      obtain ⟨c, hc, rfl⟩ := changesOf_key b t ht
      exact (htag c hc).mpr ((hres c hc).mp hft)
  · have hno : ∀ c ∈ kids b, c.name ≠ x := fun c hc e => hex ⟨c, hc, e⟩
    unfold assigns
    rw [get?_filterMap_none]
    · unfold carried
      have : (kids b).reverse.find? (·.name == x) = none := by
        rw [List.find?_eq_none]
        intro c hc
        simpa using hno c (List.mem_reverse.mp hc)
      rw [this]; rfl
    · intro t ht hft
      obtain ⟨c, hc, rfl⟩ := changesOf_key b t ht
      exact hno c hc ((hres c hc).mp hft)

theorem names_braceFree (s : Svc) (hs : declsWF s.vars) : ∀ n ∈ s.names, braceFree n = true := by
  intro n hn
  simp only [Svc.names, List.mem_map] at hn
  obtain ⟨v, hv, rfl⟩ := hn
  exact hs.2 v hv

/-- `notify_changed_state_variables` on a well-formed property set, by variable -/
theorem notifyChanged_spec (s : Svc) (hs : declsWF s.vars) (b : Body) (hb : bodyWF b = true)
    (tick : Nat) :
    notifyChanged s (changesOf b) tick =
      { vars := s.vars.map (varAfter (assigns s.names b) tick),
        events := s.events ++ [listedOf (assigns s.names b) tick s.vars] } := by
  have hn : ∀ n ∈ s.names, braceFree n = true := by
    intro n hn
    simp only [Svc.names, List.mem_map] at hn
    obtain ⟨v, hv, rfl⟩ := hn
    exact hs.2 v hv
  have hnd : (s.vars.map (·.decl.name)).Nodup := by
    have := hs.1; simpa [List.map_map, Function.comp_def] using this
  unfold notifyChanged
  rw [applyChanges_named s.names tick (changesOf b)]
  have := applyNamed_spec tick (assigns s.names b) (assigns_nodup s.names hn b hb) s.vars hnd []
  unfold assigns at this ⊢
  rw [this]
  simp

theorem find_of_mem_nodup (vars : List Var) (hnd : (vars.map (·.decl.name)).Nodup) (v : Var) (hv : v ∈ vars) :
    vars.find? (fun w => w.decl.name = v.decl.name) = some v := by
  induction vars with
  | nil => cases hv
  | cons w r ih =>
    simp only [List.map_cons, List.nodup_cons] at hnd
    simp only [List.find?_cons]
    rcases List.mem_cons.mp hv with h | h
    · subst h; simp
    · have : w.decl.name ≠ v.decl.name := by
        intro e; exact hnd.1 (e ▸ List.mem_map_of_mem h)
      simp only [this, decide_false]
      exact ih hnd.2 h

theorem listedOf_sublist (pairs : List (Str × Str)) (tick : Nat) (vars : List Var) :
    (listedOf pairs tick vars).Sublist (pairs.map (·.1)) := by
  unfold listedOf
  induction pairs with
  | nil => simp
  | cons p r ih =>
    simp only [List.filterMap_cons, List.map_cons]
    split
    · exact List.Sublist.cons _ ih
    · rename_i x hx
      have : x = p.1 := by
        split at hx
        · split at hx
          · cases hx; rfl
          · cases hx
        · cases hx
      subst this
      exact List.Sublist.cons_cons _ ih

theorem listedOf_declared (pairs : List (Str × Str)) (tick : Nat) (vars : List Var) :
    ∀ x ∈ listedOf pairs tick vars, x ∈ vars.map (·.decl.name) := by
  intro x hx
  simp only [listedOf, List.mem_filterMap] at hx
  obtain ⟨p, _, hp⟩ := hx
  split at hp
  · rename_i v hv
    split at hp
    · cases hp
      have := List.find?_some hv
      have hm := List.mem_of_find?_eq_some hv
      simp only [decide_eq_true_eq] at this
      exact this ▸ List.mem_map_of_mem hm
    · cases hp
  · cases hp

theorem listedOf_contains (pairs : List (Str × Str)) (hp : (pairs.map (·.1)).Nodup) (tick : Nat)
    (vars : List Var) (hnd : (vars.map (·.decl.name)).Nodup) (v : Var) (hv : v ∈ vars) :
    (listedOf pairs tick vars).contains v.decl.name =
      match get? pairs v.decl.name with
      | some text => (setUpnpValue v text tick).2
      | none => false := by
  induction pairs with
  | nil => rfl
  | cons p r ih =>
    obtain ⟨n, text⟩ := p
    simp only [List.map_cons, List.nodup_cons] at hp
    have ihr := ih hp.2
    simp only [listedOf, List.filterMap_cons] at ihr ⊢
    by_cases h : n = v.decl.name
    · subst h
      have hnone : get? r v.decl.name = none := by rw [get?_eq_none_iff]; exact hp.1
      rw [hnone] at ihr
      simp only [find_of_mem_nodup vars hnd v hv, get?, if_true]
      by_cases hf : (setUpnpValue v text tick).2 = true
      · simp [hf]
      · simp only [hf, Bool.false_eq_true, if_false]
        rw [ihr]
    · simp only [get?, h, if_false]
      rw [← ihr]
      cases hfind : vars.find? (fun w => w.decl.name = n) with
      | none => simp
      | some w =>
        by_cases hf : (setUpnpValue w text tick).2 = true
        · simp [hf, Ne.symm h]
        · simp [hf]

/-- one variable against the judge's per-variable specification -/
theorem varAfter_spec (names : List Str) (hn : ∀ n ∈ names, braceFree n = true) (b : Body) (hb : bodyWF b = true)
    (tick : Nat) (v : Var) (hx : names.contains v.decl.name = true) :
    let v' := varAfter (assigns names b) tick v
    let flag := match get? (assigns names b) v.decl.name with
      | some text => (setUpnpValue v text tick).2
      | none => false
    (v'.decl = v.decl ∧ v'.row = v.row ∧ v'.sc = v.sc) ∧
    (Stored.read v'.st.stored, v'.st.updated, flag) = specVar v b tick (Stored.read v.st.stored) v.st.updated := by
  simp only [varAfter, specVar, carried_assigns names hn b hb v.decl.name hx]
  cases get? (assigns names b) v.decl.name with
  | none => exact ⟨⟨rfl, rfl, rfl⟩, rfl⟩
  | some text =>
    simp only [setUpnpValue]
    rcases convert_total v text with ⟨x, hc⟩ | hc
    · rw [hc]
      simp only
      by_cases hval : validate v x = true
      · simp [hval, Stored.read, Upnp.C08.Cell.read]
      · simp [hval]
    · rw [hc]
      simp [Stored.read, Upnp.C08.Cell.read]

theorem zip3_map {α β γ δ : Type} (l : List δ) (f : δ → α) (g : δ → β) (h : δ → γ) :
    zip3 (l.map f) (l.map g) (l.map h) = l.map fun x => (f x, g x, h x) := by
  induction l with
  | nil => rfl
  | cons a r ih => simp [zip3, ih]

theorem blank_eq {v w : Var} (h : v.decl = w.decl ∧ v.row = w.row ∧ v.sc = w.sc) : Var.blank v = Var.blank w := by
  cases v; cases w; simp only [Var.blank] at *; simp_all

theorem specVar_blank (v : Var) (b : Body) (tick : Nat) (v0 : Val) (u0 : Option Nat) :
    specVar (Var.blank v) b tick v0 u0 = specVar v b tick v0 u0 := rfl

/-- **the routed service satisfies the judge** -/
theorem routedSvcOk_model (s : Svc) (hs : declsWF s.vars) (b : Body) (hb : bodyWF b = true)
    (tick : Nat) :
    let s' := notifyChanged s (changesOf b) tick
    routedSvcOk (declsOf s) b tick (svcObs s) (svcObs s') (s'.events.drop s.events.length) = true
    ∧ declsOf s' = declsOf s := by
  have hnd : (s.vars.map (·.decl.name)).Nodup := hs.1
  simp only [notifyChanged_spec s hs b hb tick, List.drop_left]
  have hdecl : ∀ v ∈ s.vars, Var.blank (varAfter (assigns s.names b) tick v) = Var.blank v := by
    intro v hv
    have hx : s.names.contains v.decl.name = true := by
      simp only [Svc.names, List.contains_eq_mem, List.mem_map, decide_eq_true_eq]
      exact ⟨v, hv, rfl⟩
    exact blank_eq (varAfter_spec s.names (names_braceFree s hs) b hb tick v hx).1
  refine ⟨?_, ?_⟩
  · simp only [routedSvcOk, Bool.and_eq_true]
    refine ⟨⟨⟨⟨?_, ?_⟩, ?_⟩, ?_⟩, ?_⟩
    · rw [nodupB_iff]
      exact List.Sublist.nodup (listedOf_sublist _ _ _) (assigns_nodup s.names (names_braceFree s hs) b hb)
    · rw [List.all_eq_true]
      intro x hx
      have := listedOf_declared _ _ _ x hx
      simpa [declsOf, Var.blank, List.map_map, Function.comp_def] using this
    · simp [svcObs, declsOf]
    · simp [svcObs, declsOf]
    · simp only [svcObs, declsOf, List.map_map]
      rw [zip3_map, List.all_eq_true]
      intro t ht
      simp only [List.mem_map] at ht
      obtain ⟨v, hv, rfl⟩ := ht
      have hx : s.names.contains v.decl.name = true := by
        simp only [Svc.names, List.contains_eq_mem, List.mem_map, decide_eq_true_eq]
        exact ⟨v, hv, rfl⟩
      obtain ⟨h1, h2⟩ := varAfter_spec s.names (names_braceFree s hs) b hb tick v hx
      have hl := listedOf_contains _ (assigns_nodup s.names (names_braceFree s hs) b hb) tick s.vars hnd v hv
      have hn1 : (Var.blank v).decl.name = v.decl.name := rfl
      simp only [varOk, Bool.and_eq_true, Bool.or_eq_true, beq_iff_eq, specVar_blank, hn1, Function.comp, hl, ← h2]
      exact ⟨⟨⟨⟨trivial, by rw [h1.1]⟩, trivial⟩, trivial⟩, Or.inr trivial⟩
  · simp only [declsOf, List.map_map]
    apply List.map_congr_left
    intro v hv
    exact hdecl v hv

end Upnp.C10
