/-
  C10 helper lemmas: ElementTree tags (`{uri}local`) and the name lookup of
  `has_state_variable` / `state_variable` (`name.split("}")[1]` fallback).
-/
import Upnp.Spec.C10
import Upnp.Lemmas.PyDict
set_option linter.unusedSectionVars false
namespace Upnp.C10
open Upnp PyDict Upnp.C09
variable [FloatOracle]

theorem dropWhile_append_all {α : Type} (p : α → Bool) (a b : List α) (h : ∀ x ∈ a, p x = true) :
    (a ++ b).dropWhile p = b.dropWhile p := by
  induction a with
  | nil => rfl
  | cons x r ih =>
    simp only [List.cons_append, List.dropWhile_cons, h x List.mem_cons_self, if_true]
    exact ih fun y hy => h y (List.mem_cons_of_mem _ hy)

theorem takeWhile_all {α : Type} (p : α → Bool) (l : List α) (h : ∀ x ∈ l, p x = true) :
    l.takeWhile p = l := by
  induction l with
  | nil => rfl
  | cons x r ih =>
    simp only [List.takeWhile_cons, h x List.mem_cons_self, if_true]
    rw [ih fun y hy => h y (List.mem_cons_of_mem _ hy)]

theorem braceFree_mem {s : Str} (h : braceFree s = true) : ∀ c ∈ s, c ≠ '{' ∧ c ≠ '}' := by
  intro c hc
  simp only [braceFree, List.all_eq_true, Bool.and_eq_true, bne_iff_ne, ne_eq] at h
  exact h c hc

theorem afterBrace_tag (ns name : Str) (hns : braceFree ns = true) (hn : braceFree name = true) :
    afterBrace ('{' :: ns ++ '}' :: name) = name := by
  unfold afterBrace
  have h1 : ('{' :: ns ++ '}' :: name).dropWhile (fun c => decide (c ≠ '}')) = '}' :: name := by
    have : ('{' :: ns ++ '}' :: name) = ('{' :: ns) ++ ('}' :: name) := by simp
    rw [this, dropWhile_append_all]
    · simp
    · intro x hx
      rcases List.mem_cons.mp hx with h | h
      · subst h; decide
      · simpa using (braceFree_mem hns x h).2
  rw [h1]
  simp only [List.drop_succ_cons, List.drop_zero]
  apply takeWhile_all
  intro x hx
  simpa using (braceFree_mem hn x hx).2

theorem tag_not_braceFree (c : Child) (h : c.ns ≠ []) : braceFree (tagOf c) = false := by
  simp [tagOf, h, braceFree]

theorem mem_names_braceFree {names : List Str} (hn : ∀ n ∈ names, braceFree n = true) {t : Str}
    (ht : braceFree t = false) : names.contains t = false := by
  rw [Bool.eq_false_iff]
  intro hc
  have := hn t (by simpa using hc)
  rw [ht] at this; cases this

theorem contains_brace_of_braceFree {s : Str} (h : braceFree s = true) : s.contains '}' = false := by
  rw [Bool.eq_false_iff]
  intro hc
  have := (braceFree_mem h '}' (by simpa using hc)).2
  exact this rfl

/-- the lookup of `notify_changed_state_variables` finds exactly the variable with the element's local
    name, with or without a namespace -/
theorem resolve_tagOf (names : List Str) (hn : ∀ n ∈ names, braceFree n = true) (c : Child)
    (hc : childWF c = true) :
    resolveName names (tagOf c) = if names.contains c.name then some c.name else none := by
  simp only [childWF, Bool.and_eq_true] at hc
  by_cases hns : c.ns = []
  · simp only [tagOf, hns, if_true, resolveName]
    split
    · rfl
    · rw [contains_brace_of_braceFree hc.2]; simp
  · have ht := tag_not_braceFree c hns
    unfold resolveName
    rw [mem_names_braceFree hn ht]
    simp only [Bool.false_eq_true, if_false]
    have hcb : (tagOf c).contains '}' = true := by simp [tagOf, hns]
    rw [hcb, if_pos rfl]
    simp only [tagOf, hns, if_false]
    rw [afterBrace_tag c.ns c.name hc.1 hc.2]

/-- distinct local names give distinct tags -/
theorem tagOf_name (c1 c2 : Child) (h1 : childWF c1 = true) (h2 : childWF c2 = true)
    (h : tagOf c1 = tagOf c2) : c1.name = c2.name := by
  simp only [childWF, Bool.and_eq_true] at h1 h2
  by_cases e1 : c1.ns = [] <;> by_cases e2 : c2.ns = []
  · simpa [tagOf, e1, e2] using h
  · have := tag_not_braceFree c2 e2
    rw [← h] at this
    simp [tagOf, e1, h1.2] at this
  · have := tag_not_braceFree c1 e1
    rw [h] at this
    simp [tagOf, e2, h2.2] at this
  · have a1 := afterBrace_tag c1.ns c1.name h1.1 h1.2
    have a2 := afterBrace_tag c2.ns c2.name h2.1 h2.2
    simp only [tagOf, e1, e2, if_false] at h
    rw [← a1, ← a2, h]

theorem nodupB_iff (l : List Str) : nodupB l = true ↔ l.Nodup := by
  induction l with
  | nil => simp [nodupB]
  | cons a r ih => simp [nodupB, ih]

end Upnp.C10
