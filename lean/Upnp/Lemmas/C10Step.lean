/-
  C10 helper lemmas: all services of the handler against `svcsOkAux`.
-/
import Upnp.Lemmas.C10Judge
set_option linter.unusedSectionVars false
namespace Upnp.C10
open Upnp PyDict Upnp.C09
variable [FloatOracle]

def evDrop (p : Svc × Svc) : List (List Str) := p.2.events.drop p.1.events.length

/-- nothing changed: every service is untouched -/
theorem svcsOkAux_same (b : Body) (tick : Nat) (target : Option Nat) (l : List Svc) (k : Nat)
    (ht : ∀ i, target = some i → i < k) :
    svcsOkAux b tick target k (l.map declsOf) (l.map svcObs) (l.map svcObs) ((l.zip l).map evDrop) = true := by
  induction l generalizing k with
  | nil => rfl
  | cons s r ih =>
    simp only [List.map_cons, List.zip_cons_cons, svcsOkAux, Bool.and_eq_true]
    constructor
    · have : (target == some k) = false := by
        cases target with
        | none => rfl
        | some i => have := ht i rfl; simp; omega
      simp [this, untouched, evDrop]
    · exact ih (k + 1) fun i hi => Nat.lt_succ_of_lt (ht i hi)

/-- service `k + i` was replaced by `f s`; it satisfies the routed-service clause, all others are untouched -/
theorem svcsOkAux_modify (b : Body) (tick : Nat) (f : Svc → Svc) (l : List Svc) (i k : Nat)
    (hf : ∀ s ∈ l, bodyWF b = true →
      routedSvcOk (declsOf s) b tick (svcObs s) (svcObs (f s)) ((f s).events.drop s.events.length) = true) :
    svcsOkAux b tick (some (k + i)) k (l.map declsOf) (l.map svcObs) ((modifyAt l i f).map svcObs)
      ((l.zip (modifyAt l i f)).map evDrop) = true := by
  induction l generalizing i k with
  | nil => cases i <;> rfl
  | cons s r ih =>
    cases i with
    | zero =>
      simp only [modifyAt, List.map_cons, List.zip_cons_cons, svcsOkAux, Nat.add_zero, beq_self_eq_true,
        if_true, Bool.and_eq_true, evDrop]
      constructor
      · by_cases hb : bodyWF b = true
        · simp [hb, hf s List.mem_cons_self hb]
        · simp [hb]
      · exact svcsOkAux_same b tick (some k) r (k + 1) (by intro i hi; cases hi; omega)
    | succ i' =>
      simp only [modifyAt, List.map_cons, List.zip_cons_cons, svcsOkAux, Bool.and_eq_true]
      constructor
      · have : (some (k + (i' + 1)) == some k) = false := by simp
        simp [this, untouched, evDrop]
      · have := ih i' (k + 1) fun s hs => hf s (List.mem_cons_of_mem _ hs)
        have e : k + 1 + i' = k + (i' + 1) := by omega
        rw [e] at this
        exact this

theorem declsOf_modifyAt (l : List Svc) (i : Nat) (f : Svc → Svc) (hf : ∀ s ∈ l, declsOf (f s) = declsOf s) :
    (modifyAt l i f).map declsOf = l.map declsOf := by
  induction l generalizing i with
  | nil => cases i <;> rfl
  | cons s r ih =>
    cases i with
    | zero => simp [modifyAt, hf s List.mem_cons_self]
    | succ i' => simp [modifyAt, ih i' fun s hs => hf s (List.mem_cons_of_mem _ hs)]

end Upnp.C10

namespace Upnp.C10
open Upnp PyDict Upnp.C09
variable [FloatOracle]

theorem setUpnpValue_blank (v : Var) (text : Str) (tick : Nat) : Var.blank (setUpnpValue v text tick).1 = Var.blank v :=
  blank_eq ⟨setUpnpValue_decl v text tick, (setUpnpValue_row v text tick).1, (setUpnpValue_row v text tick).2⟩

theorem updateVar_decls (vars : List Var) (n text : Str) (tick : Nat) :
    (updateVar vars n text tick).1.map Var.blank = vars.map Var.blank := by
  induction vars with
  | nil => rfl
  | cons v r ih =>
    simp only [updateVar]
    split
    · simp [setUpnpValue_blank]
    · simp [ih]

theorem applyChanges_decls (names : List Str) (tick : Nat) (ch : List (Str × Str)) (vars : List Var) (acc : List Str) :
    (applyChanges names tick ch vars acc).1.map Var.blank = vars.map Var.blank := by
  induction ch generalizing vars acc with
  | nil => rfl
  | cons p r ih =>
    obtain ⟨tag, text⟩ := p
    simp only [applyChanges]
    split
    · exact ih _ _
    · rw [ih, updateVar_decls]

theorem notifyChanged_decls (s : Svc) (ch : PyDict Str Str) (tick : Nat) :
    declsOf (notifyChanged s ch tick) = declsOf s := by
  simp [declsOf, notifyChanged, applyChanges_decls]

/-- no exception escapes the loop (C08's totality of the coercers): the loop as coded is the total loop -/
theorem applyChangesE_eq (names : List Str) (tick : Nat) (ch : List (Str × Str)) (vars : List Var) (acc : List Str) :
    applyChangesE names tick ch vars acc =
      ((applyChanges names tick ch vars acc).1, (applyChanges names tick ch vars acc).2, none) := by
  induction ch generalizing vars acc with
  | nil => rfl
  | cons p r ih =>
    obtain ⟨tag, text⟩ := p
    simp only [applyChangesE, applyChanges]
    cases resolveName names tag with
    | none => exact ih _ _
    | some n =>
      have : ((findVar vars n).bind fun v => raisesVar v text) = none := by
        cases findVar vars n with
        | none => rfl
        | some v => exact raisesVar_none v text
      simp only [this]
      exact ih _ _

theorem notifyChangedE_eq (s : Svc) (ch : PyDict Str Str) (tick : Nat) :
    notifyChangedE s ch tick = (notifyChanged s ch tick, none) := by
  simp [notifyChangedE, notifyChanged, applyChangesE_eq]

/-- `handle_notify` with the early exit of the loop removed (it cannot be taken) -/
theorem handleNotify_eq (h : Handler) (n : Notify) (tick : Nat) :
    handleNotify h n tick =
      match runLadder n.hdrs Gen.C10Notify.notifyLadder with
      | some r => (h, r)
      | none =>
        match n.hdrs.sid with
        | none => (h, .keyError)
        | some sid =>
          match get? h.rt sid with
          | none =>
            ({ h with backlog := set h.backlog sid ((get? h.backlog sid).getD [] ++ [n]) },
             .status Gen.C10Notify.backlogStatus)
          | some i =>
            if n.malformed then (h, .parseError)
            else ({ h with svcs := modifyAt h.svcs i fun s => notifyChanged s (changesOf n.body) tick },
                  .status Gen.C10Notify.doneStatus) := by
  unfold handleNotify
  cases runLadder n.hdrs Gen.C10Notify.notifyLadder with
  | some r => rfl
  | none =>
    cases n.hdrs.sid with
    | none => rfl
    | some sid =>
      simp only
      cases get? h.rt sid with
      | none => rfl
      | some i =>
        simp only
        by_cases hm : n.malformed = true
        · simp [hm]
        · have : (h.svcs[i]?.bind fun s => (notifyChangedE s (changesOf n.body) tick).2) = none := by
            cases h.svcs[i]? with
            | none => rfl
            | some s => simp [notifyChangedE_eq]
          simp [hm, this]

theorem declsWF_blank (vars : List Var) : declsWF (vars.map Var.blank) ↔ declsWF vars := by
  simp [declsWF, Var.blank, List.map_map, Function.comp_def]

/-- exactly one more callback, whatever the property set -/
theorem notifyChanged_events (s : Svc) (ch : PyDict Str Str) (tick : Nat) :
    ∃ listed, (notifyChanged s ch tick).events = s.events ++ [listed] := ⟨_, rfl⟩

/-- (proof of `C10.status_spec`) over the generated ladder: for every combination of present / absent / wrong
    NT, NTS, SID the leading header tests return 400 when NT or NTS is missing, 412 when NT / NTS is wrong
    or SID is missing, and fall through (to the 200 paths) otherwise; no header combination raises. -/
theorem ladder_spec (h : NHeaders) :
    runLadder h Gen.C10Notify.notifyLadder =
      (if specStatus h = 200 then none else some (.status (specStatus h)))
    ∧ Gen.C10Notify.backlogStatus = 200 ∧ Gen.C10Notify.doneStatus = 200 := by
  refine ⟨?_, by decide, by decide⟩
  obtain ⟨nt, nts, sid⟩ := h
  cases nt with
  | none => cases nts <;> cases sid <;> simp [runLadder, evalOr, evalCond, hget, specStatus, Gen.C10Notify.notifyLadder, kNT, kNTS, kSID]
  | some v =>
    cases nts with
    | none => cases sid <;> simp [runLadder, evalOr, evalCond, hget, specStatus, Gen.C10Notify.notifyLadder, kNT, kNTS, kSID]
    | some w =>
      by_cases h1 : v = ntEvent <;> by_cases h2 : w = ntsPropchange <;> cases sid <;>
        simp [runLadder, evalOr, evalCond, hget, specStatus, Gen.C10Notify.notifyLadder, kNT, kNTS, kSID, h1, h2] <;>
        simp_all [ntEvent, ntsPropchange]


/-- the variable of another index is literally the same after `modifyAt` -/
theorem frame_other {α : Type} (l : List α) (i j : Nat) (f : α → α) (h : i ≠ j) :
    (modifyAt l i f)[j]? = l[j]? := by
  induction l generalizing i j with
  | nil => cases i <;> rfl
  | cons a r ih =>
    cases i with
    | zero => cases j with
      | zero => exact absurd rfl h
      | succ j' => rfl
    | succ i' => cases j with
      | zero => rfl
      | succ j' => simpa [modifyAt] using ih i' j' (by omega)


end Upnp.C10

namespace Upnp.C10
open Upnp PyDict Upnp.C09
variable [FloatOracle]

/-! ### exact semantics of the loop for ANY list of assignments (no distinctness) -/

/-- the variable after all assignments addressed to it, in order -/
def varFold (tick : Nat) (pairs : List (Str × Str)) (v : Var) : Var :=
  pairs.foldl (fun w p => if p.1 = v.decl.name then (setUpnpValue w p.2 tick).1 else w) v

theorem setUpnpValue_flag_blank (v w : Var) (h : Var.blank v = Var.blank w) (text : Str) (tick : Nat) :
    (setUpnpValue v text tick).2 = (setUpnpValue w text tick).2 := by
  have hr : v.row = w.row := by
    show (Var.blank v).row = (Var.blank w).row
    rw [h]
  have hs : v.sc = w.sc := by
    show (Var.blank v).sc = (Var.blank w).sc
    rw [h]
  unfold setUpnpValue convert validate
  rw [hr, hs]
  split
  · split <;> rfl
  · split <;> rfl

theorem varFold_blank (tick : Nat) (pairs : List (Str × Str)) (v : Var) :
    Var.blank (varFold tick pairs v) = Var.blank v := by
  unfold varFold
  suffices H : ∀ (w : Var), Var.blank w = Var.blank v →
      Var.blank (pairs.foldl (fun w p => if p.1 = v.decl.name then (setUpnpValue w p.2 tick).1 else w) w) = Var.blank v from H v rfl
  induction pairs with
  | nil => intro w hw; exact hw
  | cons p r ih =>
    intro w hw
    simp only [List.foldl_cons]
    apply ih
    split
    · rw [setUpnpValue_blank]; exact hw
    · exact hw

theorem find_map_pres (vars : List Var) (f : Var → Var) (m : Str) (hfn : ∀ v, (f v).decl.name = v.decl.name) :
    (vars.map f).find? (fun v => v.decl.name = m) = (vars.find? (fun v => v.decl.name = m)).map f := by
  induction vars with
  | nil => rfl
  | cons v r ih =>
    simp only [List.map_cons, List.find?_cons, hfn]
    by_cases h : v.decl.name = m
    · simp [h]
    · simp only [h, decide_false]; exact ih

theorem blank_name {v w : Var} (h : Var.blank v = Var.blank w) : v.decl.name = w.decl.name := by
  show (Var.blank v).decl.name = (Var.blank w).decl.name
  rw [h]

/-- the loop over ANY assignment list: every variable ends as the fold of the setter over the assignments
    addressed to it, in order; the callback lists, in order, the assignments that did not raise UpnpValueError -/
theorem applyNamed_exact (tick : Nat) (pairs : List (Str × Str)) (vars : List Var)
    (hnd : (vars.map (·.decl.name)).Nodup) (ch : List Str) :
    applyNamed tick pairs vars ch = (vars.map (varFold tick pairs), ch ++ listedOf pairs tick vars) := by
  induction pairs generalizing vars ch with
  | nil =>
    simp only [applyNamed, listedOf, List.filterMap_nil, List.append_nil, Prod.mk.injEq, and_true]
    symm; rw [List.map_congr_left (g := id)]
    · simp
    · intro v _; rfl
  | cons p r ih =>
    obtain ⟨n, text⟩ := p
    simp only [applyNamed]
    have hf1 := updateVar_fst vars n text tick hnd
    let f : Var → Var := fun v => if v.decl.name = n then (setUpnpValue v text tick).1 else v
    have hfb : ∀ v, Var.blank (f v) = Var.blank v := by
      intro v; simp only [f]; split
      · exact setUpnpValue_blank v text tick
      · rfl
    have hfn : ∀ v, (f v).decl.name = v.decl.name := fun v => blank_name (hfb v)
    have hnames : ((updateVar vars n text tick).1.map (·.decl.name)) = vars.map (·.decl.name) := by
      rw [hf1, List.map_map]
      apply List.map_congr_left
      intro v _; exact hfn v
    rw [ih _ (hnames ▸ hnd)]
    refine Prod.ext ?_ ?_
    · simp only [hf1, List.map_map]
      apply List.map_congr_left
      intro v _
      simp only [Function.comp, varFold, List.foldl_cons]
      have hn' : ((if v.decl.name = n then (setUpnpValue v text tick).1 else v)).decl.name = v.decl.name := hfn v
      rw [hn']
      by_cases h : v.decl.name = n
      · simp [h]
      · have : ¬ n = v.decl.name := fun e => h e.symm
        simp [h, this]
    · have hrest : listedOf r tick (updateVar vars n text tick).1 = listedOf r tick vars := by
        unfold listedOf
        apply filterMap_congr'
        intro q _
        rw [hf1, find_map_pres vars f q.1 hfn]
        cases vars.find? (fun v => v.decl.name = q.1) with
        | none => rfl
        | some v =>
          simp only [Option.map_some]
          rw [setUpnpValue_flag_blank (f v) v (hfb v)]
      rw [hrest]
      simp only [updateVar_snd, listedOf, List.filterMap_cons]
      cases hfind : vars.find? (fun v => v.decl.name = n) with
      | none => simp
      | some v =>
        by_cases hflag : (setUpnpValue v text tick).2 = true
        · simp [hflag]
        · simp [hflag]

end Upnp.C10
