/-
  C11 helper lemmas: the simulation invariant between the event-driven model and the judge's
  bookkeeping, and its preservation by every in-domain event.
-/
import Upnp.Lemmas.C11Vals
import Upnp.Lemmas.C09Reg
set_option linter.unusedSectionVars false
namespace Upnp.C11
open Upnp PyDict Upnp.C09 Upnp.C10
variable [FloatOracle]

/-! ### small list facts -/

theorem getElem?_modifyAt_eq {α : Type} (l : List α) (i : Nat) (f : α → α) :
    (modifyAt l i f)[i]? = l[i]?.map f := by
  induction l generalizing i with
  | nil => cases i <;> rfl
  | cons a r ih =>
    cases i with
    | zero => rfl
    | succ i' => simpa [modifyAt] using ih i'

theorem length_modifyAt {α : Type} (l : List α) (i : Nat) (f : α → α) : (modifyAt l i f).length = l.length := by
  induction l generalizing i with
  | nil => cases i <;> rfl
  | cons a r ih => cases i with
    | zero => rfl
    | succ i' => simp [modifyAt, ih i']

theorem modifyAt_modifyAt {α : Type} (l : List α) (i : Nat) (f g : α → α) :
    modifyAt (modifyAt l i f) i g = modifyAt l i (fun a => g (f a)) := by
  induction l generalizing i with
  | nil => cases i <;> rfl
  | cons a r ih => cases i with
    | zero => rfl
    | succ i' => simp [modifyAt, ih i']

theorem modifyAt_id {α : Type} (l : List α) (i : Nat) : modifyAt l i (fun a => a) = l := by
  induction l generalizing i with
  | nil => cases i <;> rfl
  | cons a r ih => cases i with
    | zero => rfl
    | succ i' => simp [modifyAt, ih i']

/-! ### the invariant -/

/-- every service holds what the NOTIFYs received so far for its granted SID leave, in arrival order -/
def SvcsInv (decls : List (List Var)) (js : JS) (svcs : List Svc) : Prop :=
  svcs.length = decls.length ∧
  ∀ i ds s, decls[i]? = some ds → svcs[i]? = some s →
    valsOf s = ideal ds (notifiesFor js i) ∧ s.events.length = (notifiesFor js i).length

structure Inv (decls : List (List Var)) (s : St) (js : JS) : Prop where
  pendNodup : (keys s.pending).Nodup
  pend : ∀ i, (get? s.pending i).isSome = js.pend.contains i
  pendStarted : ∀ i ∈ js.pend, i ∈ js.started
  grantedDone : ∀ p ∈ js.granted, p.1 ∈ js.started ∧ p.1 ∉ js.pend
  grantedSvcNodup : (js.granted.map (·.1)).Nodup
  grantedSidNodup : (js.granted.map (·.2)).Nodup
  rt : ∀ sid, get? s.h.rt sid = (js.granted.find? (·.2 == sid)).map (·.1)
  backlog : ∀ sid, get? s.h.rt sid = none →
    (get? s.h.backlog sid).getD [] = js.seen.filter (fun n => n.hdrs.sid == some sid)
  seenWF : ∀ n ∈ js.seen, hdrsOk n.hdrs = true ∧ bodyWF n.body = true ∧ n.malformed = false
  svcs : SvcsInv decls js s.h.svcs

theorem valsOf_decls (s : Svc) : (valsOf s).map (·.1) = declsOf s := by
  simp [valsOf, declsOf, List.map_map, Function.comp_def]

theorem ideal_decls (ds : List Var) (N : List Notify) : (ideal ds N).map (·.1) = ds.map Var.blank := by
  rw [ideal_eq]; simp [List.map_map, Function.comp_def]

theorem declsOf_of_inv {ds : List Var} {s : Svc} {N : List Notify} (h : valsOf s = ideal ds N) : declsOf s = ds.map Var.blank := by
  rw [← valsOf_decls, h, ideal_decls]

theorem hdrsOk_specStatus (h : NHeaders) : hdrsOk h = true ↔ specStatus h = 200 := by
  obtain ⟨nt, nts, sid⟩ := h
  cases nt <;> cases nts <;> cases sid <;> simp [hdrsOk, specStatus]
  all_goals (rename_i v w; by_cases h1 : v = ntEvent <;> by_cases h2 : w = ntsPropchange <;> simp [h1, h2])

theorem hdrsOk_sid {h : NHeaders} (hk : hdrsOk h = true) : ∃ s, h.sid = some s := by
  simp only [hdrsOk, Bool.and_eq_true] at hk
  cases hs : h.sid with
  | none => simp [hs] at hk
  | some s => exact ⟨s, rfl⟩

/-- `handle_notify` for a request with valid headers -/
theorem handleNotify_ok (h : Handler) (n : Notify) (tick : Nat) (hk : hdrsOk n.hdrs = true) (s : Str)
    (hs : n.hdrs.sid = some s) (hm : n.malformed = false) :
    handleNotify h n tick =
      match get? h.rt s with
      | none => ({ h with backlog := set h.backlog s ((get? h.backlog s).getD [] ++ [n]) }, .status 200)
      | some i => ({ h with svcs := modifyAt h.svcs i fun sv => notifyChanged sv (changesOf n.body) tick }, .status 200) := by
  have h200 := (hdrsOk_specStatus n.hdrs).mp hk
  have hl := (ladder_spec n.hdrs).1
  rw [if_pos h200] at hl
  simp only [handleNotify_eq, hl, hs, hm, (ladder_spec n.hdrs).2.1, (ladder_spec n.hdrs).2.2]
  cases get? h.rt s <;> simp

/-- `handle_notify` for a request with invalid headers: nothing happens -/
theorem handleNotify_bad (h : Handler) (n : Notify) (tick : Nat) (hk : hdrsOk n.hdrs = false) :
    (handleNotify h n tick).1 = h := by
  have h200 : specStatus n.hdrs ≠ 200 := by
    intro e; rw [← hdrsOk_specStatus] at e; rw [hk] at e; cases e
  have hl := (ladder_spec n.hdrs).1
  rw [if_neg h200] at hl
  simp [handleNotify_eq, hl]

end Upnp.C11

namespace Upnp.C11
open Upnp PyDict Upnp.C09 Upnp.C10
variable [FloatOracle]

/-! ### granted bookkeeping -/

theorem find_fst {l : List (Nat × Str)} (hn : (l.map (·.1)).Nodup) {i : Nat} {s : Str} (h : (i, s) ∈ l) :
    l.find? (·.1 == i) = some (i, s) := by
  induction l with
  | nil => cases h
  | cons p r ih =>
    simp only [List.map_cons, List.nodup_cons] at hn
    rcases List.mem_cons.mp h with e | e
    · subst e; simp
    · have : p.1 ≠ i := by intro e'; exact hn.1 (e' ▸ List.mem_map_of_mem (f := (·.1)) e)
      simp [List.find?_cons, this, ih hn.2 e]

theorem find_snd {l : List (Nat × Str)} (hn : (l.map (·.2)).Nodup) {i : Nat} {s : Str} (h : (i, s) ∈ l) :
    l.find? (·.2 == s) = some (i, s) := by
  induction l with
  | nil => cases h
  | cons p r ih =>
    simp only [List.map_cons, List.nodup_cons] at hn
    rcases List.mem_cons.mp h with e | e
    · subst e; simp
    · have : p.2 ≠ s := by intro e'; exact hn.1 (e' ▸ List.mem_map_of_mem (f := (·.2)) e)
      simp [List.find?_cons, this, ih hn.2 e]

theorem grantedSid_mem {js : JS} {i : Nat} {s : Str} (h : grantedSid js i = some s) : (i, s) ∈ js.granted := by
  simp only [grantedSid, Option.map_eq_some_iff] at h
  obtain ⟨p, hp, rfl⟩ := h
  have h1 := List.find?_some hp
  have h2 := List.mem_of_find?_eq_some hp
  simp only [beq_iff_eq] at h1
  rw [← h1]; exact h2

theorem routed_mem {decls : List (List Var)} {s : St} {js : JS} (inv : Inv decls s js) {sid : Str} {i : Nat}
    (h : get? s.h.rt sid = some i) : (i, sid) ∈ js.granted := by
  rw [inv.rt sid] at h
  simp only [Option.map_eq_some_iff] at h
  obtain ⟨p, hp, rfl⟩ := h
  have h1 := List.find?_some hp
  have h2 := List.mem_of_find?_eq_some hp
  simp only [beq_iff_eq] at h1
  rw [← h1]; exact h2

theorem unrouted_not_granted {decls : List (List Var)} {s : St} {js : JS} (inv : Inv decls s js) {sid : Str}
    (h : get? s.h.rt sid = none) : ∀ j, grantedSid js j ≠ some sid := by
  intro j hj
  have hm := grantedSid_mem hj
  rw [inv.rt sid, find_snd inv.grantedSidNodup hm] at h
  cases h

theorem routed_grantedSid {decls : List (List Var)} {s : St} {js : JS} (inv : Inv decls s js) {sid : Str} {i : Nat}
    (h : get? s.h.rt sid = some i) : ∀ j, grantedSid js j = some sid ↔ j = i := by
  intro j
  have hm := routed_mem inv h
  constructor
  · intro hj
    have hm' := grantedSid_mem hj
    have a := find_snd inv.grantedSidNodup hm
    have b := find_snd inv.grantedSidNodup hm'
    rw [a] at b; cases b; rfl
  · intro e; subst e
    simp [grantedSid, find_fst inv.grantedSvcNodup hm]

/-! ### NOTIFY arrives -/

theorem filter_seen_aux (x : Option Str) (seen : List Notify) (n : Notify) :
    (match x with
      | some s => (seen ++ [n]).filter (fun m => m.hdrs.sid == some s)
      | none => []) =
      if x = n.hdrs.sid ∧ n.hdrs.sid.isSome then
        (match x with
          | some s => seen.filter (fun m => m.hdrs.sid == some s)
          | none => []) ++ [n]
      else
        match x with
        | some s => seen.filter (fun m => m.hdrs.sid == some s)
        | none => [] := by
  cases x with
  | none => simp; intro h; exact h.symm
  | some s =>
    simp only [List.filter_append, List.filter_cons, List.filter_nil]
    by_cases h : n.hdrs.sid = some s
    · simp [h]
    · have h' : (n.hdrs.sid == some s) = false := by simpa using h
      have h2 : ¬ (some s = n.hdrs.sid ∧ n.hdrs.sid.isSome = true) := fun ⟨e, _⟩ => h e.symm
      simp [h', h2]

theorem notifiesFor_seen (js : JS) (n : Notify) (k : Nat) :
    notifiesFor { js with seen := js.seen ++ [n] } k =
      if grantedSid js k = n.hdrs.sid ∧ n.hdrs.sid.isSome then notifiesFor js k ++ [n] else notifiesFor js k :=
  filter_seen_aux (grantedSid js k) js.seen n

theorem inv_notify (decls : List (List Var)) (hd : ∀ ds ∈ decls, declsWF ds) (s : St) (js : JS)
    (inv : Inv decls s js) (n : Notify) (tick : Nat) (hk : hdrsOk n.hdrs = true) (hb : bodyWF n.body = true)
    (hm : n.malformed = false) :
    Inv decls { s with h := (handleNotify s.h n tick).1 } { js with seen := js.seen ++ [n] }
    ∧ (handleNotify s.h n tick).2 = .status 200 := by
  obtain ⟨sid, hsid⟩ := hdrsOk_sid hk
  rw [handleNotify_ok s.h n tick hk sid hsid hm]
  have hseen : ∀ m ∈ js.seen ++ [n], hdrsOk m.hdrs = true ∧ bodyWF m.body = true ∧ m.malformed = false := by
    intro m hmm
    rcases List.mem_append.mp hmm with h | h
    · exact inv.seenWF m h
    · simp only [List.mem_singleton] at h; subst h; exact ⟨hk, hb, hm⟩
  cases hr : get? s.h.rt sid with
  | none =>
    refine ⟨?_, rfl⟩
    have hng := unrouted_not_granted inv hr
    refine { inv with seenWF := hseen, backlog := ?_, svcs := ?_ }
    · intro sid' hsid'
      simp only at hsid' ⊢
      by_cases e : sid = sid'
      · subst e
        rw [get?_set_self]
        simp [inv.backlog sid hr, List.filter_append, hsid]
      · rw [get?_set_ne _ _ _ _ e, inv.backlog sid' hsid']
        have : (n.hdrs.sid == some sid') = false := by rw [hsid]; simpa using e
        simp [List.filter_append, this]
    · refine ⟨inv.svcs.1, ?_⟩
      intro i ds sv h1 h2
      rw [notifiesFor_seen, hsid]
      have : ¬ (grantedSid js i = some sid ∧ (some sid).isSome = true) := fun ⟨e, _⟩ => hng i e
      rw [if_neg this]
      exact inv.svcs.2 i ds sv h1 h2
  | some i =>
    refine ⟨?_, rfl⟩
    have hgr := routed_grantedSid inv hr
    refine { inv with seenWF := hseen, backlog := ?_, svcs := ?_ }
    · intro sid' hsid'
      simp only at hsid' ⊢
      have e : sid ≠ sid' := by intro e; subst e; rw [hr] at hsid'; cases hsid'
      rw [inv.backlog sid' hsid']
      have : (n.hdrs.sid == some sid') = false := by rw [hsid]; simpa using e
      simp [List.filter_append, this]
    · refine ⟨by simp only [length_modifyAt]; exact inv.svcs.1, ?_⟩
      intro j ds sv h1 h2
      simp only at h2
      rw [notifiesFor_seen, hsid]
      by_cases e : j = i
      · subst e
        rw [getElem?_modifyAt_eq] at h2
        cases h3 : s.h.svcs[j]? with
        | none => simp [h3] at h2
        | some sv0 =>
          simp only [h3, Option.map_some, Option.some.injEq] at h2
          subst h2
          have hv := inv.svcs.2 j ds sv0 h1 h3
          have hds : declsWF sv0.vars := by
            apply (declsWF_blank sv0.vars).mp
            have := declsOf_of_inv hv.1
            rw [declsOf] at this
            rw [this]; exact (declsWF_blank ds).mpr (hd ds (List.mem_of_getElem? h1))
          rw [if_pos ⟨(hgr j).mpr rfl, rfl⟩, ideal_snoc, ← hv.1]
          exact ⟨valsOf_notifyChanged sv0 hds n.body hb tick, by simp [notifyChanged, hv.2]⟩
      · have : ¬ (grantedSid js j = some sid ∧ (some sid).isSome = true) := fun ⟨e', _⟩ => e ((hgr j).mp e')
        rw [if_neg this]
        rw [frame_other _ _ _ _ (Ne.symm e)] at h2
        exact inv.svcs.2 j ds sv h1 h2

end Upnp.C11

namespace Upnp.C11
open Upnp PyDict Upnp.C09 Upnp.C10
variable [FloatOracle]

/-! ### a subscribe call starts -/

theorem inv_start (decls : List (List Var)) (s : St) (js : JS) (inv : Inv decls s js) (svc : Nat) (t : Int)
    (hsc : (!js.pend.contains svc && (grantedSid js svc).isNone) = true) :
    contains s.pending svc = false
    ∧ Inv decls { s with pending := set s.pending svc t }
        { js with started := svc :: js.started, pend := svc :: js.pend } := by
  simp only [Bool.and_eq_true, Bool.not_eq_true', Option.isNone_iff_eq_none] at hsc
  have hnp : svc ∉ js.pend := by simpa using hsc.1
  have hng : ∀ p ∈ js.granted, p.1 ≠ svc := by
    intro p hp e
    have := find_fst inv.grantedSvcNodup (i := p.1) (s := p.2) hp
    have hg : grantedSid js svc = some p.2 := by simp [grantedSid, ← e, this]
    rw [hsc.2] at hg; cases hg
  have hc : contains s.pending svc = false := by
    unfold PyDict.contains; rw [inv.pend svc]; simpa using hnp
  refine ⟨hc, ?_⟩
  refine { inv with pendNodup := nodup_keys_set _ _ _ inv.pendNodup, pend := ?_, pendStarted := ?_, grantedDone := ?_ }
  · intro i
    simp only [get?_set, List.contains_cons]
    by_cases e : svc = i
    · subst e; simp
    · have e' : (i == svc) = false := by simpa using Ne.symm e
      simp [e, e', inv.pend i]
  · intro i hi
    rcases List.mem_cons.mp hi with h | h
    · subst h; exact List.mem_cons_self
    · exact List.mem_cons_of_mem _ (inv.pendStarted i h)
  · intro p hp
    have := inv.grantedDone p hp
    refine ⟨List.mem_cons_of_mem _ this.1, ?_⟩
    intro h
    rcases List.mem_cons.mp h with e | e
    · exact hng p hp e
    · exact this.2 e

/-! ### the SUBSCRIBE response arrives -/

theorem subscribeFinish_grant (rt : Routing) (svc : Nat) (t : Int) (x : Str) (th : Option Str)
    (hs : (grantedTimeout th 0).isSome = true) :
    ∃ g, subscribeFinish rt svc t (.resp 200 (some x) th) = (set rt x svc, .sub x g) := by
  obtain ⟨g, _, hp⟩ := inScope_parse th t hs
  rcases hp with ⟨hk, rfl⟩ | hk
  · exact ⟨g, by simp [subscribeFinish, guards_pinned.1, hk]⟩
  · exact ⟨g, by simp [subscribeFinish, guards_pinned.1, hk]⟩

/-- a 200 carrying a SID grants it whatever the TIMEOUT header says (the conversion is guarded: F09b) -/
theorem grant_any_timeout (rt : Routing) (svc : Nat) (t : Int) (x : Str) (th : Option Str) :
    ∃ g, subscribeFinish rt svc t (.resp 200 (some x) th) = (set rt x svc, .sub x g) := by
  rcases parse_total th with hk | ⟨n, hk⟩
  · exact ⟨t, by simp [subscribeFinish, guards_pinned.1, hk]⟩
  · exact ⟨n, by simp [subscribeFinish, guards_pinned.1, hk]⟩

/-- a response that grants nothing leaves the routing table alone and the call raises -/
theorem subscribeFinish_nogrant (rt : Routing) (svc : Nat) (t : Int) (r : Reaction)
    (hr : ∀ x th, r ≠ .resp 200 (some x) th) :
    ∃ e, subscribeFinish rt svc t r = (rt, .exc e) := by
  cases r with
  | connErr => exact ⟨_, rfl⟩
  | connTimeout => exact ⟨_, rfl⟩
  | resp status sid th =>
    by_cases h200 : status = 200
    · subst h200
      cases sid with
      | none => exact ⟨.sidError, by simp [subscribeFinish]⟩
      | some x => exact absurd rfl (hr x th)
    · exact ⟨.responseError status, by simp [subscribeFinish, h200]⟩

theorem replay_spec (h : Handler) (sid : Str) (i : Nat) (hr : get? h.rt sid = some i) (items : List Notify)
    (hitems : ∀ n ∈ items, hdrsOk n.hdrs = true ∧ n.hdrs.sid = some sid ∧ n.malformed = false) (tick : Nat) :
    replay h items tick =
      { h with svcs := modifyAt h.svcs i fun sv =>
          items.foldl (fun sv n => notifyChanged sv (changesOf n.body) tick) sv } := by
  induction items generalizing h with
  | nil => simp [replay, modifyAt_id]
  | cons n r ih =>
    have hn := hitems n List.mem_cons_self
    simp only [replay, List.foldl_cons]
    rw [handleNotify_ok h n tick hn.1 sid hn.2.1 hn.2.2, hr]
    simp only
    have := ih { h with svcs := modifyAt h.svcs i fun sv => notifyChanged sv (changesOf n.body) tick } hr
      (fun m hm => hitems m (List.mem_cons_of_mem _ hm))
    simp only [replay] at this
    rw [this, modifyAt_modifyAt]

/-- the replay as coded never leaves its loop early on well-formed items: it is the plain replay -/
theorem replayE_eq (h : Handler) (sid : Str) (i : Nat) (hr : get? h.rt sid = some i) (items : List Notify)
    (hitems : ∀ n ∈ items, hdrsOk n.hdrs = true ∧ n.hdrs.sid = some sid ∧ n.malformed = false) (tick : Nat) :
    replayE h items tick = (replay h items tick, none) := by
  induction items generalizing h with
  | nil => rfl
  | cons n r ih =>
    have hn := hitems n List.mem_cons_self
    simp only [replayE, replay, List.foldl_cons]
    rw [handleNotify_ok h n tick hn.1 sid hn.2.1 hn.2.2, hr]
    simp only
    exact ih _ hr (fun m hm => hitems m (List.mem_cons_of_mem _ hm))

theorem declsWF_notifyChanged (sv : Svc) (ch : PyDict Str Str) (tick : Nat) (h : declsWF sv.vars) :
    declsWF (notifyChanged sv ch tick).vars := by
  apply (declsWF_blank _).mp
  have := notifyChanged_decls sv ch tick
  simp only [declsOf] at this
  rw [this]
  exact (declsWF_blank _).mpr h

theorem valsOf_foldl (items : List Notify) (hb : ∀ n ∈ items, bodyWF n.body = true) (sv : Svc)
    (hds : declsWF sv.vars) (tick : Nat) :
    valsOf (items.foldl (fun sv n => notifyChanged sv (changesOf n.body) tick) sv)
      = items.foldl (fun vs n => valsStep n.body vs) (valsOf sv) := by
  induction items generalizing sv with
  | nil => rfl
  | cons n r ih =>
    simp only [List.foldl_cons]
    rw [ih (fun m hm => hb m (List.mem_cons_of_mem _ hm)) _ (declsWF_notifyChanged sv _ tick hds)]
    rw [valsOf_notifyChanged sv hds n.body (hb n List.mem_cons_self) tick]

theorem events_foldl (items : List Notify) (sv : Svc) (tick : Nat) :
    (items.foldl (fun sv n => notifyChanged sv (changesOf n.body) tick) sv).events.length
      = sv.events.length + items.length := by
  induction items generalizing sv with
  | nil => rfl
  | cons n r ih => simp only [List.foldl_cons, ih, List.length_cons]; simp [notifyChanged]; omega

theorem pend_erase (s : St) (js : JS) (hn : (keys s.pending).Nodup)
    (hp : ∀ i, (get? s.pending i).isSome = js.pend.contains i) (svc : Nat) :
    ∀ i, (get? (erase s.pending svc) i).isSome = (js.pend.filter (· != svc)).contains i := by
  intro i
  by_cases e : svc = i
  · subst e
    rw [get?_erase_self _ _ hn]
    simp
  · rw [get?_erase_ne _ _ _ e, hp i]
    have : (i != svc) = true := by simpa using Ne.symm e
    simp [List.contains_eq_mem, List.mem_filter, this]

end Upnp.C11

namespace Upnp.C11
open Upnp PyDict Upnp.C09 Upnp.C10
variable [FloatOracle]

theorem inv_respond_nogrant (decls : List (List Var)) (s : St) (js : JS) (inv : Inv decls s js) (svc : Nat) :
    Inv decls { h := s.h, pending := erase s.pending svc } { js with pend := js.pend.filter (· != svc) } := by
  refine { inv with pendNodup := nodup_keys_erase _ _ inv.pendNodup,
                    pend := pend_erase s js inv.pendNodup inv.pend svc, pendStarted := ?_, grantedDone := ?_ }
  · intro i hi
    exact inv.pendStarted i (List.mem_filter.mp hi).1
  · intro p hp
    have := inv.grantedDone p hp
    exact ⟨this.1, fun h => this.2 (List.mem_filter.mp h).1⟩

theorem grantedSid_append_other (js js' : JS) (svc j : Nat) (x : Str) (hg : js'.granted = js.granted ++ [(svc, x)])
    (h : j ≠ svc) : grantedSid js' j = grantedSid js j := by
  simp only [grantedSid, hg, List.find?_append]
  cases js.granted.find? (·.1 == j) with
  | some p => rfl
  | none =>
    have : (svc == j) = false := by simpa using Ne.symm h
    simp [List.find?_cons, this]

theorem grantedSid_append_self (js js' : JS) (svc : Nat) (x : Str) (hg : js'.granted = js.granted ++ [(svc, x)])
    (h : svc ∉ js.granted.map (·.1)) : grantedSid js' svc = some x := by
  simp only [grantedSid, hg, List.find?_append]
  have : js.granted.find? (·.1 == svc) = none := by
    rw [List.find?_eq_none]
    intro p hp hps
    simp only [beq_iff_eq] at hps
    exact h (hps ▸ List.mem_map_of_mem (f := (·.1)) hp)
  simp [this]

theorem backlog_items_ok (decls : List (List Var)) (s : St) (js : JS) (inv : Inv decls s js) (x : Str)
    (hx : x ∉ js.granted.map (·.2)) :
    ∀ n ∈ (get? s.h.backlog x).getD [], hdrsOk n.hdrs = true ∧ n.hdrs.sid = some x ∧ n.malformed = false := by
  have hfind : js.granted.find? (·.2 == x) = none := by
    rw [List.find?_eq_none]
    intro p hp' hps
    simp only [beq_iff_eq] at hps
    exact hx (hps ▸ List.mem_map_of_mem (f := (·.2)) hp')
  have hunr : get? s.h.rt x = none := by rw [inv.rt x, hfind]; rfl
  intro n hn
  rw [inv.backlog x hunr] at hn
  obtain ⟨hm, hs⟩ := List.mem_filter.mp hn
  exact ⟨(inv.seenWF n hm).1, by simpa using hs, (inv.seenWF n hm).2.2⟩

theorem inv_respond_grant (decls : List (List Var)) (hd : ∀ ds ∈ decls, declsWF ds) (s : St) (js : JS)
    (inv : Inv decls s js) (svc : Nat) (hp : svc ∈ js.pend) (x : Str) (hx : x ∉ js.granted.map (·.2)) (tick : Nat) :
    let h1 := replay { s.h with rt := set s.h.rt x svc } ((get? s.h.backlog x).getD []) tick
    Inv decls { h := { h1 with backlog := erase h1.backlog x }, pending := erase s.pending svc }
      { js with pend := js.pend.filter (· != svc), granted := js.granted ++ [(svc, x)] } := by
  intro h1
  -- the SID is fresh, the service has no grant yet
  have hfind : js.granted.find? (·.2 == x) = none := by
    rw [List.find?_eq_none]
    intro p hp' hps
    simp only [beq_iff_eq] at hps
    exact hx (hps ▸ List.mem_map_of_mem (f := (·.2)) hp')
  have hunr : get? s.h.rt x = none := by rw [inv.rt x, hfind]; rfl
  have hsvc : svc ∉ js.granted.map (·.1) := by
    intro h
    obtain ⟨p, hp', e⟩ := List.mem_map.mp h
    exact (inv.grantedDone p hp').2 (e ▸ hp)
  have hgs : grantedSid js svc = none := by
    cases hg : grantedSid js svc with
    | none => rfl
    | some y => exact absurd (List.mem_map_of_mem (f := (·.1)) (grantedSid_mem hg)) hsvc
  -- the backlog of the SID is what was seen for it
  have hitems : (get? s.h.backlog x).getD [] = js.seen.filter (fun n => n.hdrs.sid == some x) := inv.backlog x hunr
  have hall : ∀ n ∈ (get? s.h.backlog x).getD [], hdrsOk n.hdrs = true ∧ n.hdrs.sid = some x ∧ n.malformed = false := by
    intro n hn
    rw [hitems] at hn
    obtain ⟨hm, hs⟩ := List.mem_filter.mp hn
    exact ⟨(inv.seenWF n hm).1, by simpa using hs, (inv.seenWF n hm).2.2⟩
  have hbw : ∀ n ∈ (get? s.h.backlog x).getD [], bodyWF n.body = true := by
    intro n hn
    rw [hitems] at hn
    exact (inv.seenWF n (List.mem_filter.mp hn).1).2.1
  have hrep : h1 = (⟨PyDict.set s.h.rt x svc, s.h.backlog,
      modifyAt s.h.svcs svc (fun sv =>
        ((get? s.h.backlog x).getD []).foldl (fun sv n => notifyChanged sv (changesOf n.body) tick) sv)⟩ : Handler) :=
    replay_spec { s.h with rt := PyDict.set s.h.rt x svc } x svc (get?_set_self _ _ _) _ hall tick
  rw [hrep]
  have hrt : ∀ sid, get? (set s.h.rt x svc) sid = if x = sid then some svc else get? s.h.rt sid := fun sid => get?_set _ _ _ _
  refine { pendNodup := nodup_keys_erase _ _ inv.pendNodup,
           pend := pend_erase s js inv.pendNodup inv.pend svc,
           pendStarted := ?_, grantedDone := ?_, grantedSvcNodup := ?_, grantedSidNodup := ?_,
           rt := ?_, backlog := ?_, seenWF := inv.seenWF, svcs := ?_ }
  · intro i hi; exact inv.pendStarted i (List.mem_filter.mp hi).1
  · intro p hp'
    rcases List.mem_append.mp hp' with h | h
    · have := inv.grantedDone p h
      exact ⟨this.1, fun h' => this.2 (List.mem_filter.mp h').1⟩
    · simp only [List.mem_singleton] at h; subst h
      exact ⟨inv.pendStarted svc hp, fun h' => by simpa using (List.mem_filter.mp h').2⟩
  · simp only [List.map_append, List.map_cons, List.map_nil]
    exact List.nodup_append.mpr ⟨inv.grantedSvcNodup, by simp, by
      intro a ha b hb; simp only [List.mem_singleton] at hb; subst hb; intro e; exact hsvc (e ▸ ha)⟩
  · simp only [List.map_append, List.map_cons, List.map_nil]
    exact List.nodup_append.mpr ⟨inv.grantedSidNodup, by simp, by
      intro a ha b hb; simp only [List.mem_singleton] at hb; subst hb; intro e; exact hx (e ▸ ha)⟩
  · intro sid
    simp only [hrt, List.find?_append]
    by_cases e : x = sid
    · subst e; simp [hfind]
    · rw [if_neg e, inv.rt sid]
      cases js.granted.find? (·.2 == sid) with
      | some p => rfl
      | none =>
        have : (x == sid) = false := by simpa using e
        simp [List.find?_cons, this]
  · intro sid hsid
    simp only [hrt] at hsid
    by_cases e : x = sid
    · rw [if_pos e] at hsid; cases hsid
    · rw [if_neg e] at hsid
      simp only
      rw [get?_erase_ne _ _ _ e]
      exact inv.backlog sid hsid
  · refine ⟨by simp only [length_modifyAt]; exact inv.svcs.1, ?_⟩
    intro j ds sv hj1 hj2
    simp only at hj2
    by_cases e : j = svc
    · subst e
      rw [getElem?_modifyAt_eq] at hj2
      cases h3 : s.h.svcs[j]? with
      | none => simp [h3] at hj2
      | some sv0 =>
        simp only [h3, Option.map_some, Option.some.injEq] at hj2
        subst hj2
        have hv := inv.svcs.2 j ds sv0 hj1 h3
        have hds : declsWF sv0.vars := by
          apply (declsWF_blank sv0.vars).mp
          have := declsOf_of_inv hv.1
          rw [declsOf] at this
          rw [this]; exact (declsWF_blank ds).mpr (hd ds (List.mem_of_getElem? hj1))
        rw [valsOf_foldl _ hbw sv0 hds tick, hv.1, events_foldl, hv.2]
        have hgj := grantedSid_append_self js
          { js with pend := js.pend.filter (· != j), granted := js.granted ++ [(j, x)] } j x rfl hsvc
        simp only [notifiesFor, hgs, hitems]
        rw [hgj]
        exact ⟨rfl, by simp⟩
    · rw [frame_other _ _ _ _ (Ne.symm e)] at hj2
      have := inv.svcs.2 j ds sv hj1 hj2
      have hgj := grantedSid_append_other js
        { js with pend := js.pend.filter (· != svc), granted := js.granted ++ [(svc, x)] } svc j x rfl e
      simp only [notifiesFor] at this ⊢
      rw [hgj]
      exact this

end Upnp.C11
