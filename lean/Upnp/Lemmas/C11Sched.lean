/-
  C11 helper lemmas: from the invariant to the judge's clauses; one in-domain event; whole schedules.
-/
import Upnp.Lemmas.C11Inv
set_option linter.unusedSectionVars false
namespace Upnp.C11
open Upnp PyDict Upnp.C09 Upnp.C10
variable [FloatOracle]

def readSvc (sv : Svc) : List (Str × Val) := sv.vars.map fun v => (v.decl.name, Stored.read v.st.stored)

theorem readSvc_valsOf (sv : Svc) : readSvc sv = (valsOf sv).map fun p => (p.1.decl.name, Stored.read p.2) := by
  simp [readSvc, valsOf, Var.blank, List.map_map, Function.comp_def]

theorem valsOkAux_of (js : JS) (k : Nat) (dl : List (List Var)) (sl : List Svc) (hlen : sl.length = dl.length)
    (h : ∀ i ds sv, dl[i]? = some ds → sl[i]? = some sv → valsOf sv = ideal ds (notifiesFor js (k + i))) :
    valsOkAux js k dl (sl.map readSvc) = true := by
  induction dl generalizing sl k with
  | nil => cases sl with
    | nil => rfl
    | cons _ _ => cases hlen
  | cons ds dr ih =>
    cases sl with
    | nil => cases hlen
    | cons sv sr =>
      simp only [List.map_cons, valsOkAux, Bool.and_eq_true]
      constructor
      · have := h 0 ds sv rfl rfl
        rw [readSvc_valsOf, this]
        exact svcValsOk_ideal ds (grantedSid js k) js.seen
      · apply ih (k + 1) sr (by simpa using hlen)
        intro i ds' sv' h1 h2
        have := h (i + 1) ds' sv' (by simpa using h1) (by simpa using h2)
        have e : k + (i + 1) = k + 1 + i := by omega
        rw [e] at this
        exact this

theorem valsOk_of_inv (decls : List (List Var)) (s : St) (js : JS) (inv : Inv decls s js) :
    valsOk decls js (readVals s) = true := by
  have := valsOkAux_of js 0 decls s.h.svcs inv.svcs.1 (by
    intro i ds sv h1 h2; simpa using (inv.svcs.2 i ds sv h1 h2).1)
  exact this

theorem cbsOkAux_of (js : JS) (k : Nat) (dl : List (List Var)) (sl : List Svc) (hlen : sl.length = dl.length)
    (h : ∀ i ds sv, dl[i]? = some ds → sl[i]? = some sv → sv.events.length = (notifiesFor js (k + i)).length) :
    cbsOkAux js k (sl.map (·.events.length)) = true := by
  induction dl generalizing sl k with
  | nil => cases sl with
    | nil => rfl
    | cons _ _ => cases hlen
  | cons ds dr ih =>
    cases sl with
    | nil => cases hlen
    | cons sv sr =>
      simp only [List.map_cons, cbsOkAux, Bool.and_eq_true]
      constructor
      · have := h 0 ds sv rfl rfl
        simp only [Nat.add_zero] at this
        rw [this]
        simp only [cbCountOk, Nat.le_refl, decide_true, Bool.true_and, Bool.or_eq_true, beq_iff_eq, decide_eq_true_eq]
        omega
      · apply ih (k + 1) sr (by simpa using hlen)
        intro i ds' sv' h1 h2
        have := h (i + 1) ds' sv' (by simpa using h1) (by simpa using h2)
        have e : k + (i + 1) = k + 1 + i := by omega
        rw [e] at this
        exact this

theorem cbsOk_of_inv (decls : List (List Var)) (s : St) (js : JS) (inv : Inv decls s js) :
    cbsOk decls js (readCbs s) = true := by
  have := cbsOkAux_of js 0 decls s.h.svcs inv.svcs.1 (by
    intro i ds sv h1 h2; simpa using (inv.svcs.2 i ds sv h1 h2).2)
  simp only [cbsOk, readCbs, List.length_map, inv.svcs.1, beq_self_eq_true, Bool.true_and]
  exact this

/-- one in-domain event keeps the invariant and produces an acceptable answer -/
theorem step_inv (cfg : Cfg) (decls : List (List Var)) (hd : ∀ ds ∈ decls, declsWF ds) (s : St) (js : JS)
    (inv : Inv decls s js) (e : Ev) (k : Nat) (hsc : evInScope js e = true) :
    Inv decls (step cfg s e k).1 (advance js e)
    ∧ outOk { ev := e, out := (step cfg s e k).2, vals := readVals (step cfg s e k).1,
              cbs := readCbs (step cfg s e k).1 } = true := by
  cases e with
  | start svc t =>
    simp only [evInScope] at hsc
    obtain ⟨hc, hinv⟩ := inv_start decls s js inv svc t hsc
    simp only [step, hc, Bool.false_eq_true, if_false, advance, outOk]
    exact ⟨hinv, trivial⟩
  | notify n =>
    simp only [evInScope, Bool.or_eq_true, Bool.not_eq_true'] at hsc
    simp only [step, advance, outOk]
    by_cases hk : hdrsOk n.hdrs = true
    · have hb : bodyWF n.body = true ∧ n.malformed = false := by
        rcases hsc with h | h
        · rw [hk] at h; cases h
        · simpa [Bool.and_eq_true, and_comm] using h
      obtain ⟨hinv, hres⟩ := inv_notify decls hd s js inv n k hk hb.1 hb.2
      simp only [hk, if_true, hres]
      exact ⟨hinv, trivial⟩
    · have hk' : hdrsOk n.hdrs = false := by simpa using hk
      simp only [hk', Bool.false_eq_true, if_false, handleNotify_bad s.h n k hk']
      exact ⟨inv, trivial⟩
  | respond svc r =>
    simp only [step, advance, outOk, and_true]
    by_cases hp : js.pend.contains svc = true
    · have hsome : (get? s.pending svc).isSome = true := by rw [inv.pend svc]; exact hp
      obtain ⟨t, ht⟩ := Option.isSome_iff_exists.mp hsome
      simp only [ht, hp, if_true]
      have hmem : svc ∈ js.pend := by simpa using hp
      by_cases hg : ∃ x th, r = .resp 200 (some x) th
      · obtain ⟨x, th, rfl⟩ := hg
        simp only [evInScope, hp, Bool.not_true, Bool.false_or, if_true, Bool.and_eq_true,
          Bool.not_eq_true'] at hsc
        obtain ⟨g, hfin⟩ := subscribeFinish_grant s.h.rt svc t x th hsc.2
        have hx : x ∉ js.granted.map (·.2) := by simpa using hsc.1
        have := inv_respond_grant decls hd s js inv svc hmem x hx k
        have hE := replayE_eq { s.h with rt := PyDict.set s.h.rt x svc } x svc (get?_set_self _ _ _) _
          (backlog_items_ok decls s js inv x hx) k
        simp only [finishSubscribe, hfin, hE]
        exact this
      · have hr : ∀ x th, r ≠ .resp 200 (some x) th := fun x th e => hg ⟨x, th, e⟩
        obtain ⟨e, hfin⟩ := subscribeFinish_nogrant s.h.rt svc t r hr
        have hinv := inv_respond_nogrant decls s js inv svc
        simp only [finishSubscribe, hfin]
        cases r with
        | connErr => exact hinv
        | connTimeout => exact hinv
        | resp status sid th =>
          cases sid with
          | none => exact hinv
          | some x =>
            by_cases h200 : status = 200
            · subst h200; exact absurd rfl (hr x th)
            · simp only [h200, if_false]; exact hinv
    · have hp' : js.pend.contains svc = false := by simpa using hp
      have hnone : get? s.pending svc = none := by
        have := inv.pend svc
        rw [hp'] at this
        cases h : get? s.pending svc with
        | none => rfl
        | some _ => rw [h] at this; cases this
      simp only [hnone, hp', Bool.false_eq_true, if_false]
      exact inv

theorem schedules_from (cfg : Cfg) (decls : List (List Var)) (hd : ∀ ds ∈ decls, declsWF ds) (evs : List Ev)
    (s : St) (js : JS) (k : Nat) (inv : Inv decls s js) :
    okFrom decls js (modelTrace cfg s evs k) = true := by
  induction evs generalizing s js k with
  | nil => rfl
  | cons e r ih =>
    simp only [modelTrace, okFrom]
    split
    · rename_i hsc
      obtain ⟨hinv, hout⟩ := step_inv cfg decls hd s js inv e k hsc
      rw [hout, valsOk_of_inv decls _ _ hinv, cbsOk_of_inv decls _ _ hinv, ih _ _ _ hinv]
      rfl
    · rfl

theorem inv_init (decls : List (List Var)) : Inv decls (initSt decls) {} := by
  refine { pendNodup := List.nodup_nil, pend := fun _ => rfl, pendStarted := fun _ h => (by cases h),
           grantedDone := fun _ h => (by cases h), grantedSvcNodup := List.nodup_nil, grantedSidNodup := List.nodup_nil,
           rt := fun _ => rfl, backlog := fun _ _ => rfl, seenWF := fun _ h => (by cases h), svcs := ?_ }
  refine ⟨by simp [initSt], ?_⟩
  intro i ds sv h1 h2
  simp only [initSt, List.getElem?_map, h1, Option.map_some, Option.some.injEq] at h2
  subst h2
  simp [valsOf, initSvc, ideal, notifiesFor, grantedSid, List.map_map, Function.comp_def]
  intro a _; exact ⟨rfl, rfl⟩

end Upnp.C11
