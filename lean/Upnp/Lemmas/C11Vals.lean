/-
  C11 helper lemmas, value level: what a sequence of well-formed NOTIFYs leaves in a service's
  variables ("latest carrier wins"), independent of ticks and callbacks.
-/
import Upnp.Lemmas.C10Step
import Upnp.Spec.C11
set_option linter.unusedSectionVars false
namespace Upnp.C11
open Upnp PyDict Upnp.C09 Upnp.C10
variable [FloatOracle]

/-- the stored value of a variable after one well-formed property set -/
def storedAfter (d : Var) (b : Body) (st : Stored) : Stored :=
  match carried d.decl.name b with
  | none => st
  | some text =>
    match convert d text with
    | .error _ => .err
    | .ok x => if validate d x then .val x else st

def valsOf (s : Svc) : List (Var × Stored) := s.vars.map fun v => (Var.blank v, v.st.stored)
def valsStep (b : Body) (vs : List (Var × Stored)) : List (Var × Stored) :=
  vs.map fun p => (p.1, storedAfter p.1 b p.2)

/-- the values of a service after receiving the NOTIFYs `N` in order, from the initial state -/
def ideal (ds : List Var) (N : List Notify) : List (Var × Stored) :=
  N.foldl (fun vs n => valsStep n.body vs) (ds.map fun d => (Var.blank d, .val .none))

def finalStored (d : Var) (N : List Notify) (init : Stored) : Stored :=
  N.foldl (fun st n => storedAfter d n.body st) init

theorem storedAfter_blank (v : Var) (b : Body) (st : Stored) : storedAfter (Var.blank v) b st = storedAfter v b st := rfl

theorem varAfter_stored (names : List Str) (hn : ∀ n ∈ names, braceFree n = true) (b : Body) (hb : bodyWF b = true)
    (tick : Nat) (v : Var) (hx : names.contains v.decl.name = true) :
    Var.blank (varAfter (assigns names b) tick v) = Var.blank v
    ∧ (varAfter (assigns names b) tick v).st.stored = storedAfter v b v.st.stored := by
  refine ⟨blank_eq (varAfter_spec names hn b hb tick v hx).1, ?_⟩
  simp only [varAfter, storedAfter, carried_assigns names hn b hb v.decl.name hx]
  cases get? (assigns names b) v.decl.name with
  | none => rfl
  | some text =>
    simp only [setUpnpValue]
    rcases convert_total v text with ⟨x, hc⟩ | hc
    · rw [hc]
      simp only
      by_cases hval : validate v x = true
      · simp [hval]
      · simp [hval]
    · rw [hc]; simp

/-- one NOTIFY applied to a service, at value level -/
theorem valsOf_notifyChanged (s : Svc) (hs : declsWF s.vars) (b : Body) (hb : bodyWF b = true) (tick : Nat) :
    valsOf (notifyChanged s (changesOf b) tick) = valsStep b (valsOf s) := by
  rw [notifyChanged_spec s hs b hb tick]
  simp only [valsOf, valsStep, List.map_map]
  apply List.map_congr_left
  intro v hv
  have hx : s.names.contains v.decl.name = true := by
    simp only [Svc.names, List.contains_eq_mem, List.mem_map, decide_eq_true_eq]
    exact ⟨v, hv, rfl⟩
  obtain ⟨h1, h2⟩ := varAfter_stored s.names (names_braceFree s hs) b hb tick v hx
  simp [Function.comp, h1, h2, storedAfter_blank]

theorem ideal_snoc (ds : List Var) (N : List Notify) (n : Notify) :
    ideal ds (N ++ [n]) = valsStep n.body (ideal ds N) := by
  simp [ideal, List.foldl_append]

theorem ideal_eq (ds : List Var) (N : List Notify) :
    ideal ds N = ds.map fun d => (Var.blank d, finalStored d N (.val .none)) := by
  unfold ideal
  suffices H : ∀ (f : Var → Stored),
      N.foldl (fun vs n => valsStep n.body vs) (ds.map fun d => (Var.blank d, f d))
        = ds.map fun d => (Var.blank d, finalStored d N (f d)) from H fun _ => (.val .none)
  induction N with
  | nil => intro f; rfl
  | cons n r ih =>
    intro f
    simp only [List.foldl_cons, finalStored]
    have : valsStep n.body (ds.map fun d => (Var.blank d, f d)) = ds.map fun d => (Var.blank d, storedAfter d n.body (f d)) := by
      simp [valsStep, List.map_map, Function.comp_def, storedAfter_blank]
    rw [this, ih]
    rfl

/-- **latest carrier wins**: after the NOTIFYs `N`, a variable no NOTIFY carried still has its initial
    stored value; otherwise, if the text of the latest carrier is a valid value, it holds that value -/
theorem finalStored_latest (d : Var) (N : List Notify) (init : Stored) :
    match (N.filterMap fun n => carried d.decl.name n.body).getLast? with
    | none => finalStored d N init = init
    | some text =>
      match convert d text with
      | .ok x => validate d x = true → finalStored d N init = .val x
      | .error _ => True := by
  induction N generalizing init with
  | nil => rfl
  | cons n r ih =>
    have ihr := ih (storedAfter d n.body init)
    simp only [List.filterMap_cons, finalStored, List.foldl_cons] at ihr ⊢
    cases hc : carried d.decl.name n.body with
    | none =>
      simp only [storedAfter, hc] at ihr ⊢
      exact ihr
    | some t =>
      simp only
      cases hl : (r.filterMap fun n => carried d.decl.name n.body).getLast? with
      | some t' =>
        have : (t :: r.filterMap fun n => carried d.decl.name n.body).getLast? = some t' := by
          cases hr : r.filterMap fun n => carried d.decl.name n.body with
          | nil => simp [hr] at hl
          | cons a l => rw [hr] at hl; simpa [List.getLast?_cons_cons] using hl
        rw [this]
        simp only [hl] at ihr
        exact ihr
      | none =>
        have hnil : (r.filterMap fun n => carried d.decl.name n.body) = [] := by
          simpa [List.getLast?_eq_none_iff] using hl
        simp only [hl] at ihr
        simp only [hnil, List.getLast?_singleton]
        change finalStored d r (storedAfter d n.body init) = storedAfter d n.body init at ihr
        cases hcv : convert d t with
        | error _ => trivial
        | ok x =>
          intro hv
          change finalStored d r (storedAfter d n.body init) = .val x
          rw [ihr]
          simp [storedAfter, hc, hcv, hv]

theorem zip_map_self {α β : Type} (l : List α) (f : α → β) : l.zip (l.map f) = l.map fun a => (a, f a) := by
  induction l with
  | nil => rfl
  | cons a r ih => simp [ih]

/-- the values read from `ideal ds (the NOTIFYs for the granted SID)` satisfy the judge's clause for one service -/
theorem svcValsOk_ideal (ds : List Var) (sid : Option Str) (seen : List Notify) :
    svcValsOk ds sid seen
      ((ideal ds (match sid with | some s => seen.filter (fun n => n.hdrs.sid == some s) | none => [])).map
        fun p => (p.1.decl.name, Stored.read p.2)) = true := by
  rw [ideal_eq]
  simp only [svcValsOk, List.map_map, List.length_map, beq_self_eq_true, Bool.true_and]
  rw [zip_map_self, List.all_eq_true]
  intro p hp
  simp only [List.mem_map] at hp
  obtain ⟨d, _, rfl⟩ := hp
  have hbn : (Var.blank d).decl.name = d.decl.name := rfl
  simp only [Function.comp, hbn, beq_self_eq_true, Bool.true_and]
  cases sid with
  | none => simp [expectedVal, finalStored, Stored.read, Upnp.C08.Cell.read]
  | some s =>
    simp only [expectedVal, latestText]
    have h := finalStored_latest d (seen.filter (fun n => n.hdrs.sid == some s)) (.val .none)
    cases hl : ((seen.filter (fun n => n.hdrs.sid == some s)).filterMap fun n => carried d.decl.name n.body).getLast? with
    | none => simp only [hl] at h; simp [h, Stored.read, Upnp.C08.Cell.read]
    | some text =>
      simp only [hl] at h ⊢
      cases hc : convert d text with
      | error _ => rfl
      | ok x =>
        simp only [hc] at h ⊢
        by_cases hv : validate d x = true
        · simp [hv, h hv, Stored.read, Upnp.C08.Cell.read]
        · simp [hv]

end Upnp.C11
