/-
  C12 — the shape of `doSub`'s trace and the judge's post-conditions for it (proof of `all_or_nothing`).
-/
import Upnp.Lemmas.C12Sub
namespace Upnp.C12
open Upnp PyDict

theorem all_or_nothing_shape (cfg : Cfg) (n : Nat) (auto : Bool) (st : St) (h : Core st)
    (hh : st.halted = false) (hs : st.subs = []) (ha : st.task.alive = false) :
    ∃ (reqs : List Req) (res : Res) (t : Time) (subs routed : List Sid) (task av : Bool),
      (doSub cfg n auto st).rtrace =
        .snap t subs routed task av :: .ret t (.sub auto) res :: (reqs.reverse.map Ev.req) ++ .call st.now (.sub auto) :: st.rtrace
      ∧ (res = none → subOkPost n reqs subs routed = true)
      ∧ (res ≠ none → subFailPost n reqs subs routed task = true) := by
  have hpre : (st.halted || !st.subs.isEmpty || st.task.alive) = false := by simp [hh, hs, ha]
  obtain ⟨reqs, hr⟩ := subLoop_run cfg st.now (List.range n) (st.emit (.call st.now (.sub auto))) (h.emit _)
  have hcore := (subLoop_core cfg st.now (List.range n) (st.emit (.call st.now (.sub auto))) (h.emit _)).1
  unfold doSub
  simp only [hpre, Bool.false_eq_true, if_false]
  -- name the loop's result
  have hnow : (st.emit (.call st.now (.sub auto))).now = st.now := rfl
  simp only [hnow]
  generalize subLoop cfg st.now (List.range n) (st.emit (.call st.now (.sub auto))) = L at hr hcore ⊢
  obtain ⟨S, err⟩ := L
  cases err with
  | none =>
    obtain ⟨hlen, hacc, hglen⟩ := hr.okCase rfl
    have hsub0 : (st.emit (.call st.now (.sub auto))).subs = [] := hs
    dsimp only at hr hcore ⊢
    generalize hF : (if (S.subs.isEmpty || !auto) = true then S else { S with task := startTask cfg S.task }) = F
    have hF1 : F.subs = S.subs := by rw [← hF]; split <;> rfl
    have hF2 : F.routed = S.routed := by rw [← hF]; split <;> rfl
    have hF3 : F.rtrace = S.rtrace := by rw [← hF]; split <;> rfl
    have htr : S.rtrace = (reqs.reverse.map Ev.req) ++ (st.emit (.call st.now (.sub auto))).rtrace := hr.trace
    refine ⟨reqs, none, F.now, keys F.subs, sortSids (keys F.routed), F.task.alive, F.avail, ?_, fun _ => ?_,
      fun hne => absurd rfl hne⟩
    · simp only [St.snap, St.emit, hF3, htr]
      simp
    · rw [hF1, hF2]
      unfold subOkPost
      rw [subReqs_of_kinds reqs hr.kinds, unsubReqs_of_kinds reqs hr.kinds]
      simp only [onlyProfile_of_prefix n reqs hr.kinds hr.svcs, Bool.true_and, Bool.and_eq_true, List.all_eq_true,
        beq_iff_eq, List.isEmpty_nil, and_true, List.contains_iff_mem]
      have hcount : S.subs.length = (st.emit (.call st.now (.sub auto))).subs.length + (grantedSids reqs).length := hr.count
      rw [hsub0] at hcount
      simp only [List.length_nil, Nat.zero_add] at hcount
      refine ⟨⟨⟨⟨⟨?_, ?_⟩, ?_⟩, ?_⟩, ?_⟩, ?_⟩
      · rw [hlen]; simp
      · intro r hr'; exact hacc r hr'
      · simp only [keys, List.length_map]; rw [hcount, hglen]; simp
      · intro g hg; exact (hr.held g hg).1
      · intro s hs'
        rcases hr.only s hs' with h1 | h1
        · rw [hsub0] at h1; simp [keys] at h1
        · exact h1
      · intro g hg; rw [mem_sortSids]; exact (hr.held g hg).2
  | some e =>
    dsimp only at hr hcore ⊢
    have hu := unsubscribeServices_clean S hcore
    obtain ⟨ureqs, hu1, hu2, hu3⟩ := unsubAll_run (keys S.subs) { S with subs := [], task := .none }
      hcore.routedNodup hcore.subsNodup
    have htrace : (unsubscribeServices S).rtrace = (ureqs.reverse.map Ev.req) ++ S.rtrace := by
      unfold unsubscribeServices; exact hu1
    have htr : S.rtrace = (reqs.reverse.map Ev.req) ++ (st.emit (.call st.now (.sub auto))).rtrace := hr.trace
    refine ⟨reqs ++ ureqs, some e, (unsubscribeServices S).now, keys (unsubscribeServices S).subs,
      sortSids (keys (unsubscribeServices S).routed), (unsubscribeServices S).task.alive, (unsubscribeServices S).avail,
      ?_, (fun hc => by cases hc), fun _ => ?_⟩
    · simp only [St.snap, St.emit, htrace, htr]
      simp
    · simp only [hu.1, hu.2.1, hu.2.2.1, keys, List.map_nil, sortSids_nil, TaskPc.alive]
      unfold subFailPost
      have hsr : subReqs (reqs ++ ureqs) = reqs := by
        unfold subReqs; rw [List.filter_append]
        have a := subReqs_of_kinds reqs hr.kinds
        have b := subReqs_of_unsub ureqs hu2
        unfold subReqs at a b
        rw [a, b]; simp
      have hur : unsubReqs (reqs ++ ureqs) = ureqs := by
        unfold unsubReqs; rw [List.filter_append]
        have a := unsubReqs_of_kinds reqs hr.kinds
        have b := unsubReqs_of_unsub ureqs hu2
        unfold unsubReqs at a b
        rw [a, b]; simp
      have honly : onlyProfileServices n (reqs ++ ureqs) = true := by
        have := onlyProfile_of_prefix n reqs hr.kinds hr.svcs
        unfold onlyProfileServices at this ⊢
        rw [hsr]; rw [subReqs_of_kinds reqs hr.kinds] at this; exact this
      rw [honly, hsr, hur]
      simp only [Bool.true_and, List.isEmpty_nil, Bool.not_false, Bool.and_true, Bool.and_eq_true, List.any_eq_true,
        List.all_eq_true, Bool.not_eq_eq_eq_not, Bool.not_true, beq_iff_eq, List.contains_iff_mem]
      refine ⟨⟨?_, ?_⟩, ?_⟩
      · obtain ⟨r, hr1, hr2⟩ := hr.failCase e rfl
        exact ⟨r, hr1, hr2⟩
      · intro g _; simp
      · intro g hg
        obtain ⟨q, hq1, hq2⟩ := hu3 g (hr.held g hg).1 (hr.held g hg).2
        exact ⟨q, hq1, hq2⟩

end Upnp.C12
