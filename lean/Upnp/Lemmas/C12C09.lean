/-
  C12 ∘ C09 — refinement between the profile model's minimal routing table (`St.routed`, SIDs as numbers) and
  the event-handler model of C09 (`Upnp.C09.Routing`, `doSubscribe` / `doResubscribe` / `doUnsubscribe` /
  `unsubAll`, SIDs as text), for the operations the profile uses.

  `f` renders a SID number as the SID text (injective, never empty; the harness uses `uuid:s<k>`).  The
  routing effect of C09's calls does not depend on the TIMEOUT header text (`C09.parse_total`: the guarded
  conversion keeps or sets, never raises), so every lemma holds for any header `th`.
-/
import Upnp.Lemmas.C09Reg
import Upnp.Lemmas.C12Zeno
namespace Upnp.C12
open Upnp PyDict

/-- the profile model's routing table seen as a C09 routing table -/
def mapRt (f : Sid → C09.Str) (rt : PyDict Sid Nat) : C09.Routing := rt.map (fun p => (f p.1, p.2))

section
variable (f : Sid → C09.Str) (hinj : ∀ a b, f a = f b → a = b)
include hinj

theorem get?_mapRt (rt : PyDict Sid Nat) (k : Sid) : get? (mapRt f rt) (f k) = get? rt k := by
  induction rt with
  | nil => rfl
  | cons p r ih =>
    obtain ⟨k', v⟩ := p
    simp only [mapRt, List.map_cons, get?]
    by_cases h : k' = k
    · subst h; simp
    · have : ¬ f k' = f k := fun e => h (hinj _ _ e)
      simp only [h, this, if_false]; exact ih

theorem set_mapRt (rt : PyDict Sid Nat) (k : Sid) (v : Nat) : PyDict.set (mapRt f rt) (f k) v = mapRt f (PyDict.set rt k v) := by
  induction rt with
  | nil => rfl
  | cons p r ih =>
    obtain ⟨k', v'⟩ := p
    simp only [mapRt, List.map_cons, PyDict.set]
    by_cases h : k' = k
    · subst h; simp [mapRt]
    · have : ¬ f k' = f k := fun e => h (hinj _ _ e)
      simp only [h, this, if_false, List.map_cons]
      congr 1

theorem erase_mapRt (rt : PyDict Sid Nat) (k : Sid) : erase (mapRt f rt) (f k) = mapRt f (erase rt k) := by
  induction rt with
  | nil => rfl
  | cons p r ih =>
    obtain ⟨k', v'⟩ := p
    simp only [mapRt, List.map_cons, erase]
    by_cases h : k' = k
    · subst h; simp [mapRt]
    · have : ¬ f k' = f k := fun e => h (hinj _ _ e)
      simp only [h, this, if_false, List.map_cons]
      congr 1

/-! ### `async_subscribe` -/

/-- accepted SUBSCRIBE answered with SID `g`: C09's handler registers it exactly like the profile model -/
theorem c09_subscribe_accept (c : C09.Cfg) (rt : PyDict Sid Nat) (i : Nat) (T : Int) (g : Sid) (th : Option C09.Str)
    (rs : List C09.Reaction) :
    (C09.doSubscribe c (mapRt f rt) i T (.resp 200 (some (f g)) th :: rs)).rt = mapRt f (PyDict.set rt g i)
    ∧ ∃ T', (C09.doSubscribe c (mapRt f rt) i T (.resp 200 (some (f g)) th :: rs)).res = .sub (f g) T' := by
  rcases C09.parse_total th with hk | ⟨n, hk⟩ <;>
    simp [C09.doSubscribe, C09.nextReact, C09.subscribeFinish, C09.guards_pinned.1, hk, set_mapRt f hinj]

omit hinj in
/-- refused / unreachable SUBSCRIBE: the routing table is untouched and the call raises -/
theorem c09_subscribe_reject (c : C09.Cfg) (R : C09.Routing) (i : Nat) (T : Int) (r : C09.Reaction) (rs : List C09.Reaction)
    (hr : r = .connErr ∨ r = .connTimeout ∨ ∃ st sid th, r = .resp st sid th ∧ st ≠ 200) :
    (C09.doSubscribe c R i T (r :: rs)).rt = R ∧ ∃ e, (C09.doSubscribe c R i T (r :: rs)).res = .exc e := by
  rcases hr with rfl | rfl | ⟨st, sid, th, rfl, hst⟩ <;>
    simp [C09.doSubscribe, C09.nextReact, C09.subscribeFinish, *]

/-! ### `async_resubscribe` (by SID) -/

theorem c09_resolve (rt : PyDict Sid Nat) (s : Sid) (svc : Nat) (h : get? rt s = some svc) :
    C09.resolve (mapRt f rt) (.sid (f s)) = some (f s, svc) := by
  simp [C09.resolve, get?_mapRt f hinj, h]

/-- accepted renewal of `s` answered with SID `g` (the same or another one) -/
theorem c09_renew_accept (hne : ∀ a, f a ≠ []) (c : C09.Cfg) (rt : PyDict Sid Nat) (s g : Sid) (svc : Nat) (T : Int)
    (th : Option C09.Str) (rs : List C09.Reaction) (h : get? rt s = some svc) :
    (C09.doResubscribe c (mapRt f rt) (.sid (f s)) T (.resp 200 (some (f g)) th :: rs)).rt
      = mapRt f (PyDict.set (if g != s then erase rt s else rt) g svc) := by
  have hren : C09.renewedSid (f s) (some (f g)) = if g = s then f s else f g := by
    unfold C09.renewedSid
    by_cases e : g = s
    · subst e; simp
    · have : f g ≠ f s := fun h' => e (hinj _ _ h')
      simp [e, this, hne g]
  by_cases e : g = s
  · subst e
    rcases C09.parse_total th with hk | ⟨n, hk⟩ <;>
      simp [C09.doResubscribe, c09_resolve f hinj rt g svc h, C09.nextReact, C09.renewFinish, hren, C09.guards_pinned.2, hk,
        set_mapRt f hinj]
  · have hfg : f g ≠ f s := fun h' => e (hinj _ _ h')
    have hb : (g != s) = true := by simp [e]
    rcases C09.parse_total th with hk | ⟨n, hk⟩ <;>
      simp [C09.doResubscribe, c09_resolve f hinj rt s svc h, C09.nextReact, C09.renewFinish, hren, e, hfg, hb,
        C09.guards_pinned.2, hk, set_mapRt f hinj, erase_mapRt f hinj]

/-- unreachable publisher: the SID is dropped, no fresh SUBSCRIBE -/
theorem c09_renew_unreach (c : C09.Cfg) (rt : PyDict Sid Nat) (s : Sid) (svc : Nat) (T : Int) (rs : List C09.Reaction)
    (h : get? rt s = some svc) :
    (C09.doResubscribe c (mapRt f rt) (.sid (f s)) T (.connErr :: rs)).rt = mapRt f (erase rt s)
    ∧ (C09.doResubscribe c (mapRt f rt) (.sid (f s)) T (.connErr :: rs)).exch.length = 1 := by
  simp [C09.doResubscribe, c09_resolve f hinj rt s svc h, C09.nextReact, erase_mapRt f hinj]

/-- refused renewal: the SID is dropped and the handler performs `async_subscribe` on the remaining table —
    the profile model's two steps (erase at the refusal, then the fall-back SUBSCRIBE) -/
theorem c09_renew_refused (c : C09.Cfg) (rt : PyDict Sid Nat) (s : Sid) (svc : Nat) (T : Int) (st : Nat) (sid' th : Option C09.Str)
    (rs : List C09.Reaction) (h : get? rt s = some svc) (hst : st ≠ 200) :
    (C09.doResubscribe c (mapRt f rt) (.sid (f s)) T (.resp st sid' th :: rs)).rt
      = (C09.doSubscribe c (mapRt f (erase rt s)) svc T rs).rt := by
  simp [C09.doResubscribe, c09_resolve f hinj rt s svc h, C09.nextReact, hst, erase_mapRt f hinj]

/-! ### `async_unsubscribe` -/

/-- unsubscribing a routed SID removes it whatever the publisher answers; an unknown SID is a KeyError
    without a request -/
theorem c09_unsubscribe (c : C09.Cfg) (rt : PyDict Sid Nat) (s : Sid) (rs : List C09.Reaction) :
    (C09.doUnsubscribe c (mapRt f rt) (.sid (f s)) rs).rt = mapRt f (erase rt s)
    ∧ ((C09.doUnsubscribe c (mapRt f rt) (.sid (f s)) rs).exch = [] ↔ get? rt s = none) := by
  cases h : get? rt s with
  | none =>
    have he : erase rt s = rt := by
      have hk : s ∉ keys rt := (get?_eq_none_iff _ _).1 h
      clear h
      induction rt with
      | nil => rfl
      | cons p r ih =>
        obtain ⟨k, v⟩ := p
        have hk1 : ¬ k = s := by intro e; apply hk; simp [keys, e]
        have hk2 : s ∉ keys r := by intro hm; apply hk; simp only [keys, List.map_cons, List.mem_cons]; exact Or.inr hm
        simp only [erase, hk1, if_false]; rw [ih hk2]
    simp [C09.doUnsubscribe, C09.resolve, get?_mapRt f hinj, h, he]
  | some svc =>
    simp [C09.doUnsubscribe, C09.resolve, get?_mapRt f hinj, h, erase_mapRt f hinj]

/-- C09's `unsubAll` over the rendered SIDs = erasing them one by one from the profile model's table,
    whatever the publisher answers -/
theorem c09_unsubAll (c : C09.Cfg) (sids : List Sid) :
    ∀ (rt : PyDict Sid Nat) (rs : List C09.Reaction),
      (C09.unsubAll c (sids.map f) (mapRt f rt) rs).rt = mapRt f (sids.foldl (fun d s => erase d s) rt) := by
  induction sids with
  | nil => intro rt rs; rfl
  | cons s r ih =>
    intro rt rs
    simp only [List.map_cons, C09.unsubAll, List.foldl_cons]
    rw [(c09_unsubscribe f hinj c rt s rs).1]
    exact ih _ _

/-! ### the profile model's steps, as calls of C09's handler -/

omit hinj in
theorem runHead_routed (cfg : Cfg) : ∀ (k : Nat) (st : St), (runHead cfg k st).routed = st.routed := by
  intro k
  induction k with
  | zero => intro st; rfl
  | succ k ih =>
    intro st
    simp only [runHead]
    split
    · rfl
    · split
      · rfl
      · split
        · exact (roundStep_frame cfg st.now st.subs st).2.2.2
        · rw [ih]; exact (roundStep_frame cfg st.now st.subs st).2.2.2

omit hinj in
theorem cont_routed (cfg : Cfg) (rnow : Time) (rest : List (Sid × Time)) (X : St) :
    (if (roundStep cfg rnow rest X).2 = true then (roundStep cfg rnow rest X).1
     else runHead cfg (headFuel (roundStep cfg rnow rest X).1) (roundStep cfg rnow rest X).1).routed = X.routed := by
  split
  · exact (roundStep_frame cfg rnow rest X).2.2.2
  · rw [runHead_routed]; exact (roundStep_frame cfg rnow rest X).2.2.2

omit hinj in
theorem erase_absent (rt : PyDict Sid Nat) (s : Sid) (h : s ∉ keys rt) : erase rt s = rt := by
  induction rt with
  | nil => rfl
  | cons p r ih =>
    obtain ⟨k, v⟩ := p
    have hk1 : ¬ k = s := by intro e; apply h; simp [keys, e]
    have hk2 : s ∉ keys r := by intro hm; apply h; simp only [keys, List.map_cons, List.mem_cons]; exact Or.inr hm
    simp only [erase, hk1, if_false]; rw [ih hk2]

/-- **an accepted SUBSCRIBE of the profile's subscribe loop is C09's `async_subscribe`** -/
theorem subscribe_step_refines (cfg : Cfg) (c : C09.Cfg) (now0 : Time) (i : Nat) (st : St) (T : Int) (th : Option C09.Str)
    (rs : List C09.Reaction) (hacc : (send st .sub i none).1.reac.accepts = true) :
    mapRt f (subNext cfg now0 i st).routed
      = (C09.doSubscribe c (mapRt f st.routed) i T (.resp 200 (some (f st.nextSid)) th :: rs)).rt := by
  have hg := send_sub_granted st i hacc
  rw [(c09_subscribe_accept f hinj c st.routed i T st.nextSid th rs).1]
  simp only [subNext, hg.1, Option.getD_some, send_routed]

/-- **the profile's unsubscribe is C09's `async_unsubscribe` for every SID of the bookkeeping** (any answers) -/
theorem unsubscribe_refines (c : C09.Cfg) (st : St) (rs : List C09.Reaction) :
    mapRt f (unsubscribeServices st).routed
      = (C09.unsubAll c ((keys st.subs).map f) (mapRt f st.routed) rs).rt := by
  rw [c09_unsubAll f hinj c (keys st.subs) st.routed rs]
  unfold unsubscribeServices
  rw [(unsubAll_frame (keys st.subs) { st with subs := [], task := .none }).1]

/-- **the delivery of an accepted renewal is C09's `async_resubscribe` answered 200** -/
theorem renew_accept_refines (hne : ∀ a, f a ≠ []) (cfg : Cfg) (c : C09.Cfg) (st : St) (htask : TaskOk st)
    (rnow : Time) (rest : List (Sid × Time)) (cur : Sid) (svc : Nat) (replyAt : Time) (reac : Reac) (tmo : Tmo)
    (granted : Option Sid) (ht : st.task = .inflight rnow rest cur svc false replyAt reac tmo granted)
    (hacc : reac.accepts = true) (T : Int) (th : Option C09.Str) (rs : List C09.Reaction) :
    mapRt f (deliver cfg st).routed
      = (C09.doResubscribe c (mapRt f st.routed) (.sid (f cur)) T (.resp 200 (some (f (granted.getD cur))) th :: rs)).rt := by
  simp only [TaskOk, ht] at htask
  have hsvc := htask.2.2.2 trivial
  rw [deliver_accepted cfg st rnow rest cur svc false replyAt reac tmo granted ht hacc, cont_routed,
    c09_renew_accept f hinj hne c st.routed cur (granted.getD cur) svc T th rs hsvc]
  rfl

/-- **an unreachable publisher: C09's `async_resubscribe` drops the SID** -/
theorem renew_unreach_refines (cfg : Cfg) (c : C09.Cfg) (st : St) (htask : TaskOk st)
    (rnow : Time) (rest : List (Sid × Time)) (cur : Sid) (svc : Nat) (replyAt : Time) (reac : Reac) (tmo : Tmo)
    (granted : Option Sid) (ht : st.task = .inflight rnow rest cur svc false replyAt reac tmo granted)
    (hacc : reac.accepts = false) (hun : (reac == Reac.unreach) = true) (T : Int) (rs : List C09.Reaction) :
    mapRt f (deliver cfg st).routed = (C09.doResubscribe c (mapRt f st.routed) (.sid (f cur)) T (.connErr :: rs)).rt := by
  simp only [TaskOk, ht] at htask
  have hsvc := htask.2.2.2 trivial
  rw [deliver_failed cfg st rnow rest cur svc false replyAt reac tmo granted ht hacc (Or.inr hun), cont_routed,
    (c09_renew_unreach f hinj c st.routed cur svc T rs hsvc).1]
  simp [failed1, failed]

/-- **a refused renewal: C09's `async_resubscribe` drops the SID and calls `async_subscribe` on what is
    left** — the profile model's table after the refusal is exactly the table that fall-back call starts from -/
theorem renew_refused_refines (cfg : Cfg) (c : C09.Cfg) (st : St) (htask : TaskOk st)
    (rnow : Time) (rest : List (Sid × Time)) (cur : Sid) (svc : Nat) (replyAt : Time) (reac : Reac) (tmo : Tmo)
    (granted : Option Sid) (ht : st.task = .inflight rnow rest cur svc false replyAt reac tmo granted)
    (hacc : reac.accepts = false) (hun : (reac == Reac.unreach) = false) (T : Int) (stt : Nat) (hst : stt ≠ 200)
    (sid' th : Option C09.Str) (rs : List C09.Reaction) :
    (C09.doResubscribe c (mapRt f st.routed) (.sid (f cur)) T (.resp stt sid' th :: rs)).rt
      = (C09.doSubscribe c (mapRt f (deliver cfg st).routed) svc T rs).rt := by
  simp only [TaskOk, ht] at htask
  have hsvc := htask.2.2.2 trivial
  rw [c09_renew_refused f hinj c st.routed cur svc T stt sid' th rs hsvc hst,
    deliver_refused cfg st rnow rest cur svc replyAt reac tmo granted ht hacc hun]
  rfl

/-- **the fall-back SUBSCRIBE accepted: C09's `async_subscribe` on the current table** -/
theorem fallback_accept_refines (cfg : Cfg) (c : C09.Cfg) (st : St) (htask : TaskOk st)
    (rnow : Time) (rest : List (Sid × Time)) (cur : Sid) (svc : Nat) (replyAt : Time) (reac : Reac) (tmo : Tmo)
    (granted : Option Sid) (ht : st.task = .inflight rnow rest cur svc true replyAt reac tmo granted)
    (hacc : reac.accepts = true) (T : Int) (th : Option C09.Str) (rs : List C09.Reaction) :
    mapRt f (deliver cfg st).routed
      = (C09.doSubscribe c (mapRt f st.routed) svc T (.resp 200 (some (f (granted.getD cur))) th :: rs)).rt := by
  simp only [TaskOk, ht] at htask
  have hnot := htask.2.1 trivial
  rw [deliver_accepted cfg st rnow rest cur svc true replyAt reac tmo granted ht hacc, cont_routed,
    (c09_subscribe_accept f hinj c st.routed svc T (granted.getD cur) th rs).1]
  show mapRt f (PyDict.set (if granted.getD cur != cur then erase st.routed cur else st.routed) (granted.getD cur) svc) = _
  rw [erase_absent st.routed cur hnot]
  simp

/-! ### the whole subscribe loop as a sequence of C09 `async_subscribe` calls -/

/-- the profile's subscribe loop on C09's handler: one `async_subscribe` per (service, publisher reaction) until
    one raises; result: routing table, and whether all succeeded -/
def c09SubLoop (c : C09.Cfg) (T : Int) : List (Nat × C09.Reaction) → C09.Routing → C09.Routing × Bool
  | [], R => (R, true)
  | (i, r) :: rest, R =>
    match (C09.doSubscribe c R i T [r]).res with
    | .sub _ _ => c09SubLoop c T rest (C09.doSubscribe c R i T [r]).rt
    | _ => ((C09.doSubscribe c R i T [r]).rt, false)

/-- the handler-level reaction a publisher answer of the profile model stands for (`th`: any TIMEOUT text) -/
def reactionOf (r : Req) (th : Option C09.Str) : C09.Reaction :=
  if r.reac.accepts then .resp 200 (r.granted.map f) th
  else if r.reac == .unreach then .connErr else .resp 412 none th

/-- **the subscribe loop of the profile model is the same loop run on C09's handler model**: same routing
    table (rendered), same success/failure -/
theorem subLoop_refines (cfg : Cfg) (c : C09.Cfg) (now0 : Time) (T : Int) (th : Option C09.Str) (l : List Nat) :
    ∀ st : St, ∃ calls : List (Nat × C09.Reaction), calls.map (·.1) = l.take calls.length ∧
      c09SubLoop c T calls (mapRt f st.routed)
        = (mapRt f (subLoop cfg now0 l st).1.routed, (subLoop cfg now0 l st).2.isNone) := by
  induction l with
  | nil => intro st; exact ⟨[], rfl, rfl⟩
  | cons i rest ih =>
    intro st
    by_cases hacc : (send st .sub i none).1.reac.accepts = true
    · obtain ⟨calls, h1, h2⟩ := ih (subNext cfg now0 i st)
      refine ⟨(i, .resp 200 (some (f st.nextSid)) th) :: calls, by simp [h1], ?_⟩
      rw [subLoop_cons_acc cfg now0 i rest st hacc]
      have ha := c09_subscribe_accept f hinj c st.routed i T st.nextSid th []
      obtain ⟨T', hres⟩ := ha.2
      simp only [c09SubLoop, hres]
      rw [← subscribe_step_refines f hinj cfg c now0 i st T th [] hacc]
      exact h2
    · have hacc' : (send st .sub i none).1.reac.accepts = false := by simpa using hacc
      rw [subLoop_cons_rej cfg now0 i rest st hacc']
      refine ⟨[(i, if (send st .sub i none).1.reac == .unreach then .connErr else .resp 412 none th)], by simp, ?_⟩
      have hr := c09_subscribe_reject c (mapRt f st.routed) i T
        (if (send st .sub i none).1.reac == .unreach then .connErr else .resp 412 none th) [] (by
          split
          · exact Or.inl rfl
          · exact Or.inr (Or.inr ⟨412, none, th, rfl, by decide⟩))
      obtain ⟨e, he⟩ := hr.2
      simp only [c09SubLoop, he, hr.1]
      rfl

end

end Upnp.C12
