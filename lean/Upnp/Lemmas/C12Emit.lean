/-
  C12 — helper lemmas about what the renewal task's steps append to the trace.
-/
import Upnp.Lemmas.C12Step
namespace Upnp.C12
open Upnp PyDict

def Ev.isCb : Ev → Bool
  | .cb .. => true
  | _ => false

def Ev.isReq : Ev → Bool
  | .req _ => true
  | _ => false

/-- `roundStep` appends at most one request, never a callback -/
theorem roundStep_emits (cfg : Cfg) (rnow : Time) (q : List (Sid × Time)) :
    ∀ st : St, ∃ more, (roundStep cfg rnow q st).1.rtrace = more ++ st.rtrace ∧ ∀ e ∈ more, e.isCb = false := by
  induction q with
  | nil => intro st; exact ⟨[], by simp [roundStep], by simp⟩
  | cons p rest ih =>
    intro st
    obtain ⟨sid, rt⟩ := p
    simp only [roundStep]
    split
    · exact ih st
    · split
      · obtain ⟨more, h1, h2⟩ := ih { st with subs := erase st.subs sid }
        exact ⟨more, h1, h2⟩
      · rename_i svc _
        split
        · exact ⟨[.req (send { st with subs := erase st.subs sid } .renew svc (some sid)).1], by simp, by simp [Ev.isCb]⟩
        · exact ⟨[.req (send st .renew svc (some sid)).1], by simp, by simp [Ev.isCb]⟩

theorem runHead_emits (cfg : Cfg) :
    ∀ (f : Nat) (st : St), ∃ more, (runHead cfg f st).rtrace = more ++ st.rtrace ∧ (∀ e ∈ more, e.isCb = false)
      ∧ (runHead cfg f st).avail = st.avail ∧ (runHead cfg f st).now = st.now := by
  intro f
  induction f with
  | zero => intro st; exact ⟨[.spin st.now], by simp [runHead], by simp [Ev.isCb], rfl, rfl⟩
  | succ f ih =>
    intro st
    simp only [runHead]
    split
    · exact ⟨[], by simp, by simp, rfl, rfl⟩
    · split
      · exact ⟨[], by simp, by simp, rfl, rfl⟩
      · obtain ⟨m1, h1, h2⟩ := roundStep_emits cfg st.now st.subs st
        have hf := roundStep_frame cfg st.now st.subs st
        split
        · exact ⟨m1, h1, h2, hf.2.2.1, hf.2.1⟩
        · obtain ⟨m2, g1, g2, g3, g4⟩ := ih (roundStep cfg st.now st.subs st).1
          refine ⟨m2 ++ m1, by rw [g1, h1, List.append_assoc], ?_, by rw [g3, hf.2.2.1], by rw [g4, hf.2.1]⟩
          intro e he
          rcases List.mem_append.1 he with he | he
          · exact g2 e he
          · exact h2 e he

/-- continuing a round (and possibly the loop head) appends requests / a spin marker only and leaves
    `available` alone -/
theorem cont_emits (cfg : Cfg) (rnow : Time) (rest : List (Sid × Time)) (st : St) :
    ∃ more, (if (roundStep cfg rnow rest st).2 = true then (roundStep cfg rnow rest st).1
             else runHead cfg (headFuel (roundStep cfg rnow rest st).1) (roundStep cfg rnow rest st).1).rtrace = more ++ st.rtrace
      ∧ (∀ e ∈ more, e.isCb = false)
      ∧ (if (roundStep cfg rnow rest st).2 = true then (roundStep cfg rnow rest st).1
             else runHead cfg (headFuel (roundStep cfg rnow rest st).1) (roundStep cfg rnow rest st).1).avail = st.avail := by
  obtain ⟨m1, h1, h2⟩ := roundStep_emits cfg rnow rest st
  have hf := roundStep_frame cfg rnow rest st
  split
  · exact ⟨m1, h1, h2, hf.2.2.1⟩
  · obtain ⟨m2, g1, g2, g3, _⟩ := runHead_emits cfg (headFuel (roundStep cfg rnow rest st).1) (roundStep cfg rnow rest st).1
    refine ⟨m2 ++ m1, by rw [g1, h1, List.append_assoc], ?_, by rw [g3, hf.2.2.1]⟩
    intro e he
    rcases List.mem_append.1 he with he | he
    · exact g2 e he
    · exact h2 e he

end Upnp.C12
