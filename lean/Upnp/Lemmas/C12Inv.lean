/-
  C12 — helper lemmas: what `send` changes, the representation invariant of the profile model
  (`Core`, `TaskOk`) and its preservation by the renewal task's steps.
-/
import Upnp.Lemmas.PyDict
import Upnp.Model.C12Profile
namespace Upnp.C12
open Upnp PyDict

/-! ### `send` touches only the publisher script, the SID counter and the trace -/

@[simp] theorem send_subs (st : St) (k : Kind) (svc : Nat) (sid : Option Sid) : (send st k svc sid).2.subs = st.subs := rfl
@[simp] theorem send_routed (st : St) (k : Kind) (svc : Nat) (sid : Option Sid) : (send st k svc sid).2.routed = st.routed := rfl
@[simp] theorem send_task (st : St) (k : Kind) (svc : Nat) (sid : Option Sid) : (send st k svc sid).2.task = st.task := rfl
@[simp] theorem send_now (st : St) (k : Kind) (svc : Nat) (sid : Option Sid) : (send st k svc sid).2.now = st.now := rfl
@[simp] theorem send_avail (st : St) (k : Kind) (svc : Nat) (sid : Option Sid) : (send st k svc sid).2.avail = st.avail := rfl
@[simp] theorem send_halted (st : St) (k : Kind) (svc : Nat) (sid : Option Sid) : (send st k svc sid).2.halted = st.halted := rfl
@[simp] theorem send_rtrace (st : St) (k : Kind) (svc : Nat) (sid : Option Sid) :
    (send st k svc sid).2.rtrace = .req (send st k svc sid).1 :: st.rtrace := rfl
@[simp] theorem send_req_t (st : St) (k : Kind) (svc : Nat) (sid : Option Sid) : (send st k svc sid).1.t = st.now := rfl
@[simp] theorem send_req_kind (st : St) (k : Kind) (svc : Nat) (sid : Option Sid) : (send st k svc sid).1.kind = k := rfl
@[simp] theorem send_req_svc (st : St) (k : Kind) (svc : Nat) (sid : Option Sid) : (send st k svc sid).1.svc = svc := rfl
@[simp] theorem send_req_sid (st : St) (k : Kind) (svc : Nat) (sid : Option Sid) : (send st k svc sid).1.sid = sid := rfl

theorem send_nextSid_le (st : St) (k : Kind) (svc : Nat) (sid : Option Sid) :
    st.nextSid ≤ (send st k svc sid).2.nextSid := by
  simp only [send]; split <;> omega

/-- a SID handed out by the publisher is below the counter afterwards, provided the SID of the
    request was -/
theorem send_granted_lt (st : St) (k : Kind) (svc : Nat) (sid : Option Sid)
    (hs : ∀ s, sid = some s → s < st.nextSid) (g : Sid)
    (hg : (send st k svc sid).1.granted = some g) : g < (send st k svc sid).2.nextSid := by
  unfold send at hg ⊢
  simp only at hg ⊢
  generalize ((st.script.headD st.dflt).reac.accepts && k != Kind.unsub) = A at hg ⊢
  generalize (k == Kind.sub || (st.script.headD st.dflt).reac == Reac.newSid) = B at hg ⊢
  cases A <;> cases B <;> simp at hg ⊢
  · exact hs g hg
  · subst hg; exact Nat.lt_succ_self _

/-- an initial SUBSCRIBE that is accepted is granted exactly the counter value -/
theorem send_sub_granted (st : St) (svc : Nat) (h : (send st .sub svc none).1.reac.accepts = true) :
    (send st .sub svc none).1.granted = some st.nextSid ∧ (send st .sub svc none).2.nextSid = st.nextSid + 1 := by
  unfold send at h ⊢
  simp only at h
  simp only [h]
  exact ⟨rfl, rfl⟩

/-! ### invariant -/

/-- bookkeeping and routing table are dictionaries; every routed SID is in the profile's bookkeeping;
    every SID is below the publisher's counter -/
structure Core (st : St) : Prop where
  subsNodup : (keys st.subs).Nodup
  routedNodup : (keys st.routed).Nodup
  routedSub : ∀ s, s ∈ keys st.routed → s ∈ keys st.subs
  subsLt : ∀ s, s ∈ keys st.subs → s < st.nextSid

/-- the in-flight renewal's SID is still in the bookkeeping (`delEarly = false`); during the fall-back
    SUBSCRIBE it is no longer routed; a granted SID is below the counter -/
def TaskOk (st : St) : Prop :=
  match st.task with
  | .inflight _ _ cur svc fb _ _ _ granted =>
      cur ∈ keys st.subs ∧ (fb = true → cur ∉ keys st.routed) ∧ (∀ g, granted = some g → g < st.nextSid)
      ∧ (fb = false → get? st.routed cur = some svc)
  | _ => True

theorem Core.init (script : List Entry) (dflt : Entry) : Core (init script dflt) :=
  ⟨by simp [C12.init, keys], by simp [C12.init, keys], by simp [C12.init, keys], by simp [C12.init, keys]⟩

theorem Core.send {st : St} (h : Core st) (k : Kind) (svc : Nat) (sid : Option Sid) : Core (send st k svc sid).2 :=
  ⟨h.subsNodup, h.routedNodup, h.routedSub, fun s hs => Nat.lt_of_lt_of_le (h.subsLt s hs) (send_nextSid_le ..)⟩

/-- dropping a SID from the bookkeeping that is not (or no longer) routed -/
theorem Core.eraseSub {st : St} (h : Core st) (sid : Sid) (hr : sid ∉ keys st.routed) :
    Core { st with subs := erase st.subs sid } := by
  refine ⟨nodup_keys_erase _ _ h.subsNodup, h.routedNodup, ?_, ?_⟩
  · intro s hs
    show s ∈ keys (erase st.subs sid)
    rw [mem_keys_erase _ _ _ h.subsNodup]
    exact ⟨fun e => hr (e ▸ hs), h.routedSub s hs⟩
  · intro s hs
    have hs' : s ∈ keys (erase st.subs sid) := hs
    rw [mem_keys_erase _ _ _ h.subsNodup] at hs'
    exact h.subsLt s hs'.2

theorem Core.eraseRouted {st : St} (h : Core st) (sid : Sid) :
    Core { st with routed := erase st.routed sid } := by
  refine ⟨h.subsNodup, nodup_keys_erase _ _ h.routedNodup, ?_, h.subsLt⟩
  intro s hs
  have hs' : s ∈ keys (erase st.routed sid) := hs
  rw [mem_keys_erase _ _ _ h.routedNodup] at hs'
  exact h.routedSub s hs'.2

theorem not_mem_erase_self {ν : Type} (d : PyDict Sid ν) (k : Sid) (h : (keys d).Nodup) : k ∉ keys (erase d k) := by
  rw [mem_keys_erase _ _ _ h]; simp

/-! ### the renewal round -/

/-- `roundStep` keeps the invariant; when it stops at an await the task state is consistent -/
theorem roundStep_core (cfg : Cfg) (hd : cfg.delEarly = false) (rnow : Time) (q : List (Sid × Time)) :
    ∀ st : St, Core st →
      Core (roundStep cfg rnow q st).1 ∧ ((roundStep cfg rnow q st).2 = true → TaskOk (roundStep cfg rnow q st).1) := by
  induction q with
  | nil => intro st h; exact ⟨h, by simp [roundStep]⟩
  | cons p rest ih =>
    intro st h
    obtain ⟨sid, rt⟩ := p
    simp only [roundStep]
    split
    · exact ih st h
    · split
      · rename_i hnone
        have hr : sid ∉ keys st.routed := (get?_eq_none_iff _ _).1 hnone
        exact ih _ (h.eraseSub sid hr)
      · rename_i svc hsome
        simp only [hd, Bool.false_eq_true, if_false]
        have hmem : sid ∈ keys st.subs := by
          apply h.routedSub
          rw [← get?_isSome_iff, hsome]; rfl
        refine ⟨?_, fun _ => ?_⟩
        · exact ⟨h.subsNodup, h.routedNodup, h.routedSub,
            fun s hs => Nat.lt_of_lt_of_le (h.subsLt s hs) (send_nextSid_le st .renew svc (some sid))⟩
        · refine ⟨hmem, by simp, ?_, fun _ => hsome⟩
          intro g hg
          exact send_granted_lt st .renew svc (some sid) (fun s e => by cases e; exact h.subsLt _ hmem) g hg

/-- fields `roundStep` never touches -/
theorem roundStep_frame (cfg : Cfg) (rnow : Time) (q : List (Sid × Time)) :
    ∀ st : St, (roundStep cfg rnow q st).1.halted = st.halted ∧ (roundStep cfg rnow q st).1.now = st.now
      ∧ (roundStep cfg rnow q st).1.avail = st.avail ∧ (roundStep cfg rnow q st).1.routed = st.routed := by
  induction q with
  | nil => intro st; simp [roundStep]
  | cons p rest ih =>
    intro st
    obtain ⟨sid, rt⟩ := p
    simp only [roundStep]
    split
    · exact ih st
    · split
      · exact ih _
      · split <;> simp

/-- a round that ends without awaiting anything (and does not skip) has removed every entry of its
    snapshot from the bookkeeping, and emitted nothing -/
theorem roundStep_noawait (cfg : Cfg) (hs : cfg.skipStale = false) (rnow : Time) (q : List (Sid × Time)) :
    ∀ st : St, (roundStep cfg rnow q st).2 = false →
      (roundStep cfg rnow q st).1.subs = q.foldl (fun d p => erase d p.1) st.subs
      ∧ (roundStep cfg rnow q st).1.rtrace = st.rtrace ∧ (roundStep cfg rnow q st).1.task = st.task := by
  induction q with
  | nil => intro st _; simp [roundStep]
  | cons p rest ih =>
    intro st
    obtain ⟨sid, rt⟩ := p
    simp only [roundStep, hs, Bool.false_and, Bool.false_eq_true, if_false, List.foldl_cons]
    split
    · intro h; exact ih _ h
    · intro h; simp at h

theorem foldl_erase_self (d : PyDict Sid Time) (h : (keys d).Nodup) :
    d.foldl (fun d p => erase d p.1) d = [] := by
  suffices H : ∀ (d : PyDict Sid Time), (keys d).Nodup → d.foldl (fun d p => erase d p.1) d = [] from H d h
  intro d
  induction d with
  | nil => intro _; rfl
  | cons p r ih =>
    intro h
    obtain ⟨k, v⟩ := p
    simp only [List.foldl_cons, erase, if_true]
    exact ih (by simp [keys] at h ⊢; exact h.2)

/-! ### the loop head -/

theorem runHead_core (cfg : Cfg) (hd : cfg.delEarly = false) :
    ∀ (f : Nat) (st : St), Core st → Core (runHead cfg f st) ∧ TaskOk (runHead cfg f st) := by
  intro f
  induction f with
  | zero => intro st h; exact ⟨⟨h.subsNodup, h.routedNodup, h.routedSub, h.subsLt⟩, by simp [runHead, TaskOk]⟩
  | succ f ih =>
    intro st h
    simp only [runHead]
    split
    · exact ⟨⟨h.subsNodup, h.routedNodup, h.routedSub, h.subsLt⟩, by simp [TaskOk]⟩
    · rename_i p ps hsubs
      split
      · exact ⟨⟨h.subsNodup, h.routedNodup, h.routedSub, h.subsLt⟩, by simp [TaskOk]⟩
      · have hr := roundStep_core cfg hd st.now st.subs st h
        split
        · rename_i haw; exact ⟨hr.1, hr.2 haw⟩
        · exact ih _ hr.1

/-- **the loop always reaches an await**: without the stale-skip, two iterations of the loop head
    suffice — an iteration that awaits nothing has emptied the bookkeeping and the loop ends -/
theorem runHead_no_spin (cfg : Cfg) (hs : cfg.skipStale = false) (f : Nat) (st : St)
    (hn : (keys st.subs).Nodup) : (runHead cfg (f + 2) st).halted = st.halted := by
  simp only [runHead]
  split
  · rfl
  · rename_i p ps hsubs
    split
    · rfl
    · split
      · rename_i haw
        exact (roundStep_frame cfg st.now st.subs st).1
      · rename_i haw
        have haw' : (roundStep cfg st.now st.subs st).2 = false := by simpa using haw
        have h1 := roundStep_noawait cfg hs st.now st.subs st haw'
        have h2 : (roundStep cfg st.now st.subs st).1.subs = [] := by
          rw [h1.1]; exact foldl_erase_self st.subs hn
        simp only [h2]
        exact (roundStep_frame cfg st.now st.subs st).1

end Upnp.C12
