/-
  C12 — helper lemmas for `lapse_trace`: the lapse-clause monitor `lapseMon` folded over the model's trace.

  Core idea (window argument): order the subscriptions held in a calm auto-renewal session by the time of
  their last grant, oldest first.  If `τ` is the time at which the next request can be sent (the reply time
  of the request in flight, the wake-up time of the sleeping loop, or now), the `c`-th entry from the end
  has an expiry `e ≥ τ + tolerance − (sum of the c most recent request latencies)`.  Sending the next request
  (latency `l`) moves `τ` by `l` and puts `l` in front of the latency window, which preserves the bound for
  every other entry with `c+1`; the renewed entry restarts with `c = 1` because its granted timeout is at
  least the tolerance; a sleep ends `tolerance` before the earliest deadline, and every deadline is at most
  the publisher's expiry.  As the `n` most recent latencies add up to less than the tolerance, every bound
  is strictly above `τ`.
-/
import Upnp.Lemmas.C12Yield
import Upnp.Lemmas.C12Renew
namespace Upnp.C12
open Upnp PyDict

/-! ### sums of latencies -/

theorem sumNat_foldl (l : List Nat) (a : Nat) : l.foldl (· + ·) a = a + sumNat l := by
  unfold sumNat
  induction l generalizing a with
  | nil => simp
  | cons x r ih => simp only [List.foldl_cons]; rw [ih (a + x), ih (0 + x)]; omega

theorem sumNat_cons (a : Nat) (l : List Nat) : sumNat (a :: l) = a + sumNat l := by
  unfold sumNat; simp only [List.foldl_cons]; rw [sumNat_foldl]; unfold sumNat; omega

@[simp] theorem sumNat_nil : sumNat [] = 0 := rfl

theorem sumNat_take_le (l : List Nat) (j : Nat) : sumNat (l.take j) ≤ sumNat l := by
  induction l generalizing j with
  | nil => simp
  | cons a r ih =>
    cases j with
    | zero => simp
    | succ j => simp only [List.take_succ_cons, sumNat_cons]; have := ih j; omega

/-- sum of the `j` most recent latencies -/
def S (w : List Nat) (j : Nat) : Int := (sumNat (w.take j) : Int)

theorem S_le (w : List Nat) (j : Nat) : S w j ≤ (sumNat w : Int) := by
  unfold S; exact Int.ofNat_le.2 (sumNat_take_le w j)

theorem S_nonneg (w : List Nat) (j : Nat) : 0 ≤ S w j := by unfold S; exact Int.natCast_nonneg _

/-- pushing latency `l` in front of the window (kept to `n` entries) -/
theorem S_push (w : List Nat) (l n j : Nat) (hj : j + 1 ≤ n) :
    S ((l :: w).take n) (j + 1) = (l : Int) + S w j := by
  unfold S
  rw [List.take_take, Nat.min_eq_left hj, List.take_succ_cons, sumNat_cons]
  simp

/-! ### the indexed bound -/

/-- every entry of `L` (oldest grant first; `k` more entries follow after `L`): a finite expiry `e` of the
    `c`-th entry from the end satisfies `τ + tol − S w c ≤ e` -/
def Fresh (ex : PyDict Sid (Option Time)) (w : List Nat) (tol τ : Int) (k : Nat) : List Sid → Prop
  | [] => True
  | s :: rest => (∀ e, get? ex s = some (some e) → τ + tol - S w (rest.length + 1 + k) ≤ e) ∧ Fresh ex w tol τ k rest

theorem fresh_append (ex : PyDict Sid (Option Time)) (w : List Nat) (tol τ : Int) (k : Nat) (a b : List Sid) :
    Fresh ex w tol τ k (a ++ b) ↔ Fresh ex w tol τ (k + b.length) a ∧ Fresh ex w tol τ k b := by
  induction a with
  | nil => simp [Fresh]
  | cons s r ih =>
    simp only [List.cons_append, Fresh, ih, List.length_append]
    have : r.length + b.length + 1 + k = r.length + 1 + (k + b.length) := by omega
    rw [this]
    constructor
    · rintro ⟨h1, h2, h3⟩; exact ⟨⟨h1, h2⟩, h3⟩
    · rintro ⟨⟨h1, h2⟩, h3⟩; exact ⟨h1, h2, h3⟩

/-- weakening: every listed entry's finite expiry is above `τ + tol − (whole window)` -/
theorem fresh_mem (ex : PyDict Sid (Option Time)) (w : List Nat) (tol τ : Int) (k : Nat) (L : List Sid)
    (h : Fresh ex w tol τ k L) (s : Sid) (hs : s ∈ L) (e : Time) (he : get? ex s = some (some e)) :
    τ + tol - (sumNat w : Int) ≤ e := by
  induction L with
  | nil => cases hs
  | cons a r ih =>
    rcases List.mem_cons.1 hs with rfl | hs
    · have := h.1 e he
      have := S_le w (r.length + 1 + k)
      unfold Time at *; omega
    · exact ih h.2 hs

/-- every listed entry whose expiry is at least `τ' + tol` is fresh with respect to `τ'` -/
theorem fresh_of_ge (ex : PyDict Sid (Option Time)) (w : List Nat) (tol τ : Int) (k : Nat) (L : List Sid)
    (h : ∀ s ∈ L, ∀ e, get? ex s = some (some e) → τ + tol ≤ e) : Fresh ex w tol τ k L := by
  induction L with
  | nil => trivial
  | cons a r ih =>
    refine ⟨fun e he => ?_, ih (fun s hs => h s (List.mem_cons_of_mem _ hs))⟩
    have := h a List.mem_cons_self e he
    have := S_nonneg w (r.length + 1 + k)
    unfold Time at *; omega

/-- entries untouched by a table update keep their bound when one more request (latency `l`) is sent -/
theorem fresh_push (ex ex' : PyDict Sid (Option Time)) (w : List Nat) (tol τ : Int) (l n k : Nat) (L : List Sid)
    (hsame : ∀ s ∈ L, get? ex' s = get? ex s) (hlen : L.length + k + 1 ≤ n)
    (h : Fresh ex w tol τ k L) : Fresh ex' ((l :: w).take n) tol (τ + (l : Int)) (k + 1) L := by
  induction L with
  | nil => trivial
  | cons a r ih =>
    refine ⟨fun e he => ?_, ih (fun s hs => hsame s (List.mem_cons_of_mem _ hs))
      (by simp only [List.length_cons] at hlen; omega) h.2⟩
    rw [hsame a List.mem_cons_self] at he
    have h1 := h.1 e he
    have hp : S ((l :: w).take n) (r.length + 1 + (k + 1)) = (l : Int) + S w (r.length + 1 + k) := by
      have : r.length + 1 + (k + 1) = (r.length + 1 + k) + 1 := by omega
      rw [this]
      exact S_push w l n _ (by simp only [List.length_cons] at hlen; omega)
    rw [hp]
    unfold Time at *; omega

/-! ### dictionary facts -/

theorem set_append_new {ν : Type} (d : PyDict Sid ν) (k : Sid) (v : ν) (h : k ∉ keys d) :
    PyDict.set d k v = d ++ [(k, v)] := by
  induction d with
  | nil => rfl
  | cons p r ih =>
    obtain ⟨k', v'⟩ := p
    have hk : ¬ k' = k := by
      intro e; apply h; simp [keys, e]
    have hr : k ∉ keys r := by
      intro hm; apply h; simp only [keys, List.map_cons, List.mem_cons]; exact Or.inr hm
    simp only [PyDict.set, hk, if_false, List.cons_append]
    rw [ih hr]

theorem erase_head {ν : Type} (k : Sid) (v : ν) (r : PyDict Sid ν) : erase ((k, v) :: r) k = r := by
  simp [erase]

/-! ### the publisher's table after an accepted (re)subscription -/

/-- when the publisher's answer implies the tolerance margin: a finite expiry is at least `tolerance`
    after the arrival -/
theorem expiry_margin (subT : Nat) (tolMs : Int) (r : Req) (hsub : tolMs ≤ (subT : Int) * 1000)
    (htmo : (match r.tmo with | .sec k => decide (tolMs ≤ (k : Int) * 1000) | _ => true) = true)
    (e : Time) (he : expiryOf subT r = some e) : r.t + tolMs ≤ e := by
  unfold expiryOf at he
  cases ht : r.tmo with
  | sec k => simp only [ht, Option.some.injEq, decide_eq_true_eq] at he htmo; unfold Time at *; omega
  | infinite => simp [ht] at he
  | absent => simp only [ht, Option.some.injEq] at he; unfold Time at *; omega

theorem expiry_deadline (cfg : Cfg) (base : Time) (r : Req) (h : base ≤ r.t) (e : Time)
    (he : expiryOf cfg.subTimeout r = some e) : base + ms (r.tmo.secs cfg) ≤ e := by
  unfold expiryOf at he
  cases ht : r.tmo with
  | sec k => simp only [ht, Option.some.injEq] at he; simp only [Tmo.secs, ms]; unfold Time at *; omega
  | infinite => simp [ht] at he
  | absent => simp only [ht, Option.some.injEq] at he; simp only [Tmo.secs, ms]; unfold Time at *; omega

/-- accepted renewal of `s` answered with SID `g`: the table afterwards -/
theorem pubUpdate_renew (subT : Nat) (ex : PyDict Sid (Option Time)) (r : Req) (s g : Sid)
    (hk : r.kind = .renew) (hacc : r.reac.accepts = true) (hs : r.sid = some s) (hg : r.granted = some g)
    (hn : (keys ex).Nodup) :
    (keys (pubUpdate subT ex r)).Nodup
    ∧ get? (pubUpdate subT ex r) g = some (expiryOf subT r)
    ∧ (∀ x, x ≠ g → x ≠ s → get? (pubUpdate subT ex r) x = get? ex x)
    ∧ (∀ x, x ∈ keys (pubUpdate subT ex r) → x = g ∨ (x ∈ keys ex ∧ (s ≠ g → x ≠ s))) := by
  have hup : pubUpdate subT ex r = set (if s != g then erase ex s else ex) g (expiryOf subT r) := by
    simp [pubUpdate, hacc, hk, hg, hs]
  rw [hup]
  by_cases hsg : s = g
  · subst hsg
    simp only [bne_self_eq_false, Bool.false_eq_true, if_false]
    refine ⟨nodup_keys_set _ _ _ hn, get?_set_self _ _ _, ?_, ?_⟩
    · intro x hx _; exact get?_set_ne _ _ _ _ (fun e => hx e.symm)
    · intro x hx
      rw [mem_keys_set] at hx
      rcases hx with h | h
      · exact Or.inl h
      · exact Or.inr ⟨h, fun e => absurd rfl e⟩
  · have : (s != g) = true := by simp [hsg]
    simp only [this, if_true]
    refine ⟨nodup_keys_set _ _ _ (nodup_keys_erase _ _ hn), get?_set_self _ _ _, ?_, ?_⟩
    · intro x hx hxs
      rw [get?_set_ne _ _ _ _ (fun e => hx e.symm), get?_erase_ne _ _ _ (fun e => hxs e.symm)]
    · intro x hx
      rw [mem_keys_set] at hx
      rcases hx with h | h
      · exact Or.inl h
      · rw [mem_keys_erase _ _ _ hn] at h
        exact Or.inr ⟨h.2, fun _ => h.1⟩

/-- accepted initial SUBSCRIBE answered with SID `g` -/
theorem pubUpdate_sub (subT : Nat) (ex : PyDict Sid (Option Time)) (r : Req) (g : Sid)
    (hk : r.kind = .sub) (hacc : r.reac.accepts = true) (hg : r.granted = some g) (hn : (keys ex).Nodup) :
    (keys (pubUpdate subT ex r)).Nodup
    ∧ get? (pubUpdate subT ex r) g = some (expiryOf subT r)
    ∧ (∀ x, x ≠ g → get? (pubUpdate subT ex r) x = get? ex x)
    ∧ (∀ x, x ∈ keys (pubUpdate subT ex r) → x = g ∨ x ∈ keys ex) := by
  have hup : pubUpdate subT ex r = set ex g (expiryOf subT r) := by
    simp [pubUpdate, hacc, hk, hg]
  rw [hup]
  refine ⟨nodup_keys_set _ _ _ hn, get?_set_self _ _ _, ?_, ?_⟩
  · intro x hx; exact get?_set_ne _ _ _ _ (fun e => hx e.symm)
  · intro x hx; rw [mem_keys_set] at hx; exact hx

/-! ### monitor and model, coupled -/

def lapseOf (n tolSecs subT : Nat) (rt : List Ev) : LapseMon :=
  rt.foldr (fun e m => lapseStep m e) { n, tolMs := (tolSecs : Int) * 1000, subTimeout := subT }

theorem lapseMon_trace (n tolSecs subT : Nat) (st : St) : lapseMon n tolSecs subT st.trace = lapseOf n tolSecs subT st.rtrace := by
  simp [lapseMon, St.trace, lapseOf, List.foldl_reverse]

theorem lapseOf_cons (n tolSecs subT : Nat) (e : Ev) (rt : List Ev) :
    lapseOf n tolSecs subT (e :: rt) = lapseStep (lapseOf n tolSecs subT rt) e := rfl

theorem lapseOf_append (n tolSecs subT : Nat) (evs rt : List Ev) :
    lapseOf n tolSecs subT (evs ++ rt) = evs.foldr (fun e m => lapseStep m e) (lapseOf n tolSecs subT rt) := by
  simp [lapseOf, List.foldr_append]

theorem lapseStep_static (m : LapseMon) (e : Ev) :
    (lapseStep m e).n = m.n ∧ (lapseStep m e).tolMs = m.tolMs ∧ (lapseStep m e).subTimeout = m.subTimeout := by
  cases e with
  | req r => simp [lapseStep]
  | cb t a b c => simp [lapseStep]
  | spin t => simp [lapseStep]
  | snap t a b c d => simp only [lapseStep]; split <;> simp
  | call t c => cases c <;> simp [lapseStep]
  | ret t c res => cases c <;> simp [lapseStep]

structure LCommon (st : St) (m : LapseMon) : Prop where
  exNodup : (keys m.expiry).Nodup
  wsum : (sumNat m.window : Int) < m.tolMs
  routedAll : ∀ s ∈ keys st.subs, s ∈ keys st.routed
  lenLe : st.subs.length ≤ m.n

/-- no request in flight: table ⊆ bookkeeping, every entry fresh w.r.t. `τ`, every deadline ≤ expiry -/
structure HeadOk (st : St) (m : LapseMon) (τ : Time) : Prop where
  tbl : ∀ s ∈ keys m.expiry, s ∈ keys st.subs
  fresh : Fresh m.expiry m.window m.tolMs τ 0 (keys st.subs)
  dl : ∀ p ∈ st.subs, ∀ e, get? m.expiry p.1 = some (some e) → p.2 ≤ e

/-- a renewal of `cur` is in flight (already in the publisher's table under the granted SID) -/
def FlightOk (cfg : Cfg) (st : St) (m : LapseMon) (rnow : Time) (queue : List (Sid × Time)) (cur : Sid)
    (replyAt : Time) (tmo : Tmo) (granted : Option Sid) : Prop :=
  rnow ≤ replyAt ∧ st.now ≤ replyAt ∧
  ∃ (dcur : Time) (dn : List (Sid × Time)), st.subs = (cur, dcur) :: queue ++ dn ∧
    (∀ s ∈ keys m.expiry, s ∈ keys (queue ++ dn) ∨ s = granted.getD cur) ∧
    granted.getD cur ∉ keys (queue ++ dn) ∧
    Fresh m.expiry m.window m.tolMs replyAt 1 (keys (queue ++ dn)) ∧
    (∀ e, get? m.expiry (granted.getD cur) = some (some e) →
        replyAt + m.tolMs - S m.window 1 ≤ e ∧ rnow + ms (tmo.secs cfg) ≤ e) ∧
    (∀ p ∈ queue ++ dn, ∀ e, get? m.expiry p.1 = some (some e) → p.2 ≤ e)

/-- the session invariant while auto-renewal is in force and the publisher has been calm -/
def LInv (cfg : Cfg) (st : St) (m : LapseMon) : Prop :=
  LCommon st m ∧
  match st.task with
  | .inflight rnow queue cur _ fb replyAt reac tmo granted =>
      fb = false ∧ reac.accepts = true ∧ FlightOk cfg st m rnow queue cur replyAt tmo granted
  | .sleeping u => st.now ≤ u ∧ HeadOk st m u
  | .fresh => HeadOk st m st.now
  | _ => st.subs = [] ∧ HeadOk st m st.now

theorem send_renew_facts (X : St) (svc : Nat) (s : Sid) (hacc : (send X .renew svc (some s)).1.reac.accepts = true) :
    (send X .renew svc (some s)).1.granted = some s ∨ (send X .renew svc (some s)).1.granted = some X.nextSid := by
  unfold send at hacc ⊢
  simp only at hacc ⊢
  simp only [hacc]
  generalize ((X.script.headD X.dflt).reac == Reac.newSid) = b
  cases b
  · left; rfl
  · right; rfl

theorem keys_append {ν : Type} (a b : PyDict Sid ν) : keys (a ++ b) = keys a ++ keys b := by
  simp [keys]

/-- **sending the next renewal of a calm round**: no lapse is flagged, and if the publisher stays calm the
    in-flight invariant holds -/
theorem lapse_send (cfg : Cfg) (hsubT : (cfg.tol : Int) * 1000 ≤ (cfg.subTimeout : Int) * 1000)
    (X : St) (m : LapseMon) (hmt : m.tolMs = (cfg.tol : Int) * 1000) (hms : m.subTimeout = cfg.subTimeout)
    (s : Sid) (d : Time) (q' dn : List (Sid × Time)) (svc : Nat) (rnow : Time)
    (hsubs : X.subs = (s, d) :: q' ++ dn) (hcore : Core X) (hc : LCommon X m) (hh : HeadOk X m X.now)
    (hrn : rnow ≤ X.now) (hauto : m.auto = true) :
    (lapseStep m (.req (send X .renew svc (some s)).1)).bad = m.bad
    ∧ (lapseStep m (.req (send X .renew svc (some s)).1)).auto = true
    ∧ ((lapseStep m (.req (send X .renew svc (some s)).1)).calm = true →
        LInv cfg { (send X .renew svc (some s)).2 with
            task := .inflight rnow q' s svc false (X.now + ((send X .renew svc (some s)).1.lat : Int))
              (send X .renew svc (some s)).1.reac (send X .renew svc (some s)).1.tmo (send X .renew svc (some s)).1.granted }
          (lapseStep m (.req (send X .renew svc (some s)).1))) := by
  generalize hr : send X .renew svc (some s) = sr
  have hk : sr.1.kind = .renew := by rw [← hr]; rfl
  have hsid : sr.1.sid = some s := by rw [← hr]; rfl
  have ht : sr.1.t = X.now := by rw [← hr]; rfl
  have hX2subs : sr.2.subs = X.subs := by rw [← hr]; rfl
  have hX2routed : sr.2.routed = X.routed := by rw [← hr]; rfl
  have hX2now : sr.2.now = X.now := by rw [← hr]; rfl
  have hkeys : keys X.subs = s :: keys (q' ++ dn) := by rw [hsubs]; rfl
  have hnd : (s :: keys (q' ++ dn)).Nodup := by rw [← hkeys]; exact hcore.subsNodup
  have hsnot : s ∉ keys (q' ++ dn) := (List.nodup_cons.1 hnd).1
  have hlen : (keys (q' ++ dn)).length + 1 ≤ m.n := by
    have := hc.lenLe; rw [hsubs] at this; simpa [keys] using this
  -- no lapse: the entry of `s` is fresh
  have hfresh := hh.fresh
  rw [hkeys] at hfresh
  have hnolapse : lapsed m.expiry s sr.1.t = false := by
    unfold lapsed
    cases hg : get? m.expiry s with
    | none => rfl
    | some eo =>
      cases eo with
      | none => rfl
      | some e =>
        have h1 := hfresh.1 e hg
        have h2 := S_le m.window ((keys (q' ++ dn)).length + 1 + 0)
        have h3 := hc.wsum
        simp only [decide_eq_false_iff_not, Int.not_lt]
        rw [ht]; unfold Time at *; omega
  refine ⟨?_, ?_, ?_⟩
  · simp only [lapseStep, hk, hsid, hnolapse, Bool.and_false, Bool.not_false, flagged, if_true]
  · simp only [lapseStep, hauto]
  · intro hcalm'
    simp only [lapseStep, hk, Bool.and_eq_true, Bool.or_eq_true, decide_eq_true_eq] at hcalm'
    have hsubK : (Kind.renew != Kind.unsub) = true := rfl
    simp only [hsubK, Bool.not_true, Bool.false_eq_true, false_or, if_true] at hcalm'
    obtain ⟨_, ⟨hacc, htmo⟩, hw'⟩ := hcalm'
    -- the SID in the answer
    have hgr : sr.1.granted = some s ∨ sr.1.granted = some X.nextSid := by
      rw [← hr]; exact send_renew_facts X svc s (by rw [hr]; exact hacc)
    obtain ⟨g, hg, hgnot⟩ : ∃ g, sr.1.granted = some g ∧ g ∉ keys (q' ++ dn) := by
      rcases hgr with h | h
      · exact ⟨s, h, hsnot⟩
      · refine ⟨X.nextSid, h, fun hm => ?_⟩
        have : X.nextSid ∈ keys X.subs := by rw [hkeys]; exact List.mem_cons_of_mem _ hm
        exact Nat.lt_irrefl _ (hcore.subsLt _ this)
    obtain ⟨u1, u2, u3, u4⟩ := pubUpdate_renew m.subTimeout m.expiry sr.1 s g hk hacc hsid hg hc.exNodup
    have hw'' : (sumNat ((sr.1.lat :: m.window).take m.n) : Int) < m.tolMs := hw'
    have hlat : (0 : Int) ≤ (sr.1.lat : Int) := Int.natCast_nonneg _
    refine ⟨⟨?_, ?_, ?_, ?_⟩, ?_⟩
    · simpa [lapseStep] using u1
    · simpa [lapseStep, hk] using hw''
    · intro x hx; show x ∈ keys sr.2.routed; rw [hX2routed]; exact hc.routedAll x (by rw [← hX2subs]; exact hx)
    · show sr.2.subs.length ≤ _; rw [hX2subs]; simpa [lapseStep] using hc.lenLe
    · simp only []
      refine ⟨trivial, hacc, ?_, ?_, d, dn, ?_, ?_, ?_, ?_, ?_, ?_⟩
      · unfold Time at *; omega
      · show sr.2.now ≤ _; rw [hX2now]; unfold Time at *; omega
      · show sr.2.subs = _; rw [hX2subs, hsubs]
      · intro x hx
        have hx' : x ∈ keys (pubUpdate m.subTimeout m.expiry sr.1) := by simpa [lapseStep] using hx
        simp only [hg, Option.getD_some]
        rcases u4 x hx' with h | ⟨h1, h2⟩
        · exact Or.inr h
        · have hxs := hh.tbl x h1
          rw [hkeys] at hxs
          rcases List.mem_cons.1 hxs with rfl | hxs
          · by_cases e : x = g
            · exact Or.inr e
            · exact absurd rfl (h2 e)
          · exact Or.inl hxs
      · simpa [hg] using hgnot
      · -- the other entries: one more request in the window
        have hpush := fresh_push m.expiry (pubUpdate m.subTimeout m.expiry sr.1) m.window m.tolMs X.now sr.1.lat m.n 0
          (keys (q' ++ dn)) (fun x hx => u3 x (fun e => hgnot (e ▸ hx)) (fun e => hsnot (e ▸ hx))) (by omega) hfresh.2
        simpa [lapseStep, hk] using hpush
      · intro e he
        have he' : get? (pubUpdate m.subTimeout m.expiry sr.1) g = some (some e) := by
          simpa [lapseStep, hg] using he
        rw [u2] at he'
        have hexp : expiryOf m.subTimeout sr.1 = some e := by simpa using he'
        have h1 := expiry_margin m.subTimeout m.tolMs sr.1 (by rw [hmt, hms]; exact hsubT) htmo e hexp
        have h2 := expiry_deadline cfg rnow sr.1 (by rw [ht]; exact hrn) e (by rw [← hms]; exact hexp)
        refine ⟨?_, h2⟩
        have hS1 : S ((sr.1.lat :: m.window).take m.n) 1 = (sr.1.lat : Int) := by
          have := S_push m.window sr.1.lat m.n 0 (by omega)
          simpa [S] using this
        simp only [lapseStep, hk, hsubK, if_true, hS1]
        rw [ht] at h1; unfold Time at *; omega
      · intro p hp e he
        have hpk : p.1 ∈ keys (q' ++ dn) := List.mem_map_of_mem hp
        have he' : get? m.expiry p.1 = some (some e) := by
          have : get? (pubUpdate m.subTimeout m.expiry sr.1) p.1 = some (some e) := by simpa [lapseStep] using he
          rw [u3 p.1 (fun e => hgnot (e ▸ hpk)) (fun e => hsnot (e ▸ hpk))] at this
          exact this
        exact hh.dl p (by rw [hsubs]; exact List.mem_cons_of_mem _ hp) e he'

/-! ### outside the calm auto-renewal regime nothing is flagged -/

theorem lapse_task_noflag (m : LapseMon) (e : Ev) (he : e.isSubCallRet = false) (h : ¬ (m.auto = true ∧ m.calm = true)) :
    (lapseStep m e).bad = m.bad ∧ ¬ ((lapseStep m e).auto = true ∧ (lapseStep m e).calm = true) := by
  cases e with
  | req r =>
    have hf : (r.kind == Kind.renew && m.auto && m.calm && (match r.sid with | some s => lapsed m.expiry s r.t | none => false)) = false := by
      cases ha : m.auto <;> cases hc : m.calm <;> simp_all
    refine ⟨by simp only [lapseStep, flagged]; cases ha : m.auto <;> cases hc : m.calm <;> simp_all, ?_⟩
    simp only [lapseStep]
    intro ⟨h1, h2⟩
    apply h
    refine ⟨h1, ?_⟩
    simp only [Bool.and_eq_true] at h2
    exact h2.1
  | cb t a b c => exact ⟨rfl, h⟩
  | spin t => exact ⟨rfl, h⟩
  | snap t a b c d =>
    have : (m.auto && m.calm) = false := by cases ha : m.auto <;> cases hc : m.calm <;> simp_all
    simp only [lapseStep, this, Bool.false_eq_true, if_false]
    exact ⟨trivial, h⟩
  | call t c => cases c with
    | sub a => simp [Ev.isSubCallRet] at he
    | unsub => exact ⟨rfl, by simp [lapseStep]⟩
  | ret t c res => cases c with
    | sub a => simp [Ev.isSubCallRet] at he
    | unsub => exact ⟨rfl, h⟩

theorem lapse_noflag_fold (evs : List Ev) (hev : ∀ e ∈ evs, e.isSubCallRet = false) (m : LapseMon)
    (h : ¬ (m.auto = true ∧ m.calm = true)) :
    (evs.foldr (fun e m => lapseStep m e) m).bad = m.bad
    ∧ ¬ ((evs.foldr (fun e m => lapseStep m e) m).auto = true ∧ (evs.foldr (fun e m => lapseStep m e) m).calm = true) := by
  induction evs with
  | nil => exact ⟨rfl, h⟩
  | cons e r ih =>
    have ih' := ih (fun x hx => hev x (List.mem_cons_of_mem _ hx))
    simp only [List.foldr_cons]
    have := lapse_task_noflag _ e (hev e List.mem_cons_self) ih'.2
    exact ⟨by rw [this.1, ih'.1], this.2⟩

/-- what the lapse theorems carry along a run: nothing flagged, the static fields, and the session
    invariant whenever auto-renewal is in force and the publisher has been calm -/
structure LP (cfg : Cfg) (n : Nat) (st : St) : Prop where
  bad : (lapseOf n cfg.tol cfg.subTimeout st.rtrace).bad = []
  sess : (lapseOf n cfg.tol cfg.subTimeout st.rtrace).auto = true → (lapseOf n cfg.tol cfg.subTimeout st.rtrace).calm = true →
    LInv cfg st (lapseOf n cfg.tol cfg.subTimeout st.rtrace)

theorem lapseOf_static (n tolSecs subT : Nat) (rt : List Ev) :
    (lapseOf n tolSecs subT rt).n = n ∧ (lapseOf n tolSecs subT rt).tolMs = (tolSecs : Int) * 1000
    ∧ (lapseOf n tolSecs subT rt).subTimeout = subT := by
  induction rt with
  | nil => exact ⟨rfl, rfl, rfl⟩
  | cons e r ih =>
    rw [lapseOf_cons]
    have := lapseStep_static (lapseOf n tolSecs subT r) e
    exact ⟨this.1.trans ih.1, this.2.1.trans ih.2.1, this.2.2.trans ih.2.2⟩

/-- the result of a task step: like `LP` but relative to the monitor before the step -/
structure LStep (cfg : Cfg) (m : LapseMon) (Y : St) (m' : LapseMon) : Prop where
  bad : m'.bad = m.bad
  auto : m'.auto = m.auto
  sess : m'.calm = true → LInv cfg Y m'

theorem ms_eq (k : Nat) : ms k = (k : Int) * 1000 := rfl

/-- the loop head in a calm session -/
theorem lapse_head (cfg : Cfg) (hs : cfg.skipStale = false) (hd : cfg.delEarly = false)
    (hsubT : (cfg.tol : Int) * 1000 ≤ (cfg.subTimeout : Int) * 1000) (n : Nat)
    (X : St) (hcore : Core X) (m : LapseMon) (hm : m = lapseOf n cfg.tol cfg.subTimeout X.rtrace)
    (hmt : m.tolMs = (cfg.tol : Int) * 1000) (hms : m.subTimeout = cfg.subTimeout)
    (hc : LCommon X m) (hh : HeadOk X m X.now) (hauto : m.auto = true) :
    LStep cfg m (runHead cfg (headFuel X) X) (lapseOf n cfg.tol cfg.subTimeout (runHead cfg (headFuel X) X).rtrace) := by
  unfold headFuel
  simp only [runHead]
  split
  · rename_i hsubs
    refine ⟨by rw [← hm], by rw [← hm], fun _ => ?_⟩
    show LInv cfg _ (lapseOf n cfg.tol cfg.subTimeout X.rtrace)
    rw [← hm]
    exact ⟨⟨hc.exNodup, hc.wsum, hc.routedAll, hc.lenLe⟩, hsubs, ⟨hh.tbl, hh.fresh, hh.dl⟩⟩
  · rename_i p ps hsubs
    split
    · rename_i hw
      refine ⟨by rw [← hm], by rw [← hm], fun _ => ?_⟩
      show LInv cfg _ (lapseOf n cfg.tol cfg.subTimeout X.rtrace)
      rw [← hm]
      refine ⟨⟨hc.exNodup, hc.wsum, hc.routedAll, hc.lenLe⟩, ?_, ⟨hh.tbl, ?_, hh.dl⟩⟩
      · show X.now ≤ _; unfold Time at *; omega
      · -- asleep until a tolerance before the earliest deadline, and every deadline is at most the expiry
        apply fresh_of_ge
        intro s hs' e he
        obtain ⟨q, hq, rfl⟩ := List.mem_map.1 hs'
        have h1 := head_sleep_margin cfg X p ps hsubs hw q hq
        have h2 := hh.dl q hq e he
        rw [hmt, ← ms_eq]
        show X.now + _ + ms cfg.tol ≤ e
        unfold Time at *; omega
    · -- no sleep: the round starts now with the first entry
      obtain ⟨s, d⟩ := p
      have hrt : ∃ svc, get? X.routed s = some svc := by
        have : s ∈ keys X.routed := hc.routedAll s (by rw [hsubs]; simp [keys])
        rw [← get?_isSome_iff] at this
        cases hg : get? X.routed s with
        | none => rw [hg] at this; cases this
        | some svc => exact ⟨svc, rfl⟩
      obtain ⟨svc, hsvc⟩ := hrt
      have hstep : roundStep cfg X.now X.subs X
          = ({ (send X .renew svc (some s)).2 with
                task := .inflight X.now ps s svc false ((send X .renew svc (some s)).2.now + ((send X .renew svc (some s)).1.lat : Int))
                  (send X .renew svc (some s)).1.reac (send X .renew svc (some s)).1.tmo (send X .renew svc (some s)).1.granted }, true) := by
        rw [hsubs]
        simp only [roundStep, hs, Bool.false_and, Bool.false_eq_true, if_false, hsvc, hd]
      simp only [hstep, if_true]
      have := lapse_send cfg hsubT X m hmt hms s d ps [] svc X.now (by rw [hsubs]; simp) hcore hc hh (Int.le_refl _) hauto
      have key : ∀ Y : St, Y.rtrace = .req (send X .renew svc (some s)).1 :: X.rtrace →
          lapseOf n cfg.tol cfg.subTimeout Y.rtrace = lapseStep m (.req (send X .renew svc (some s)).1) := by
        intro Y hY; rw [hY, lapseOf_cons, ← hm]
      refine ⟨?_, ?_, ?_⟩
      · rw [key _ rfl]; exact this.1
      · rw [key _ rfl, this.2.1, hauto]
      · rw [key _ rfl]; exact this.2.2

/-- continuing a round (after a reply, or at wake-up) in a calm session -/
theorem lapse_cont (cfg : Cfg) (hs : cfg.skipStale = false) (hd : cfg.delEarly = false)
    (hsubT : (cfg.tol : Int) * 1000 ≤ (cfg.subTimeout : Int) * 1000) (n : Nat)
    (X : St) (hcore : Core X) (m : LapseMon) (hm : m = lapseOf n cfg.tol cfg.subTimeout X.rtrace)
    (hmt : m.tolMs = (cfg.tol : Int) * 1000) (hms : m.subTimeout = cfg.subTimeout)
    (hc : LCommon X m) (hh : HeadOk X m X.now) (hauto : m.auto = true)
    (rnow : Time) (hrn : rnow ≤ X.now) (queue dn : List (Sid × Time)) (hsubs : X.subs = queue ++ dn) :
    LStep cfg m
      (if (roundStep cfg rnow queue X).2 = true then (roundStep cfg rnow queue X).1
       else runHead cfg (headFuel (roundStep cfg rnow queue X).1) (roundStep cfg rnow queue X).1)
      (lapseOf n cfg.tol cfg.subTimeout
        (if (roundStep cfg rnow queue X).2 = true then (roundStep cfg rnow queue X).1
         else runHead cfg (headFuel (roundStep cfg rnow queue X).1) (roundStep cfg rnow queue X).1).rtrace) := by
  cases queue with
  | nil =>
    have : roundStep cfg rnow [] X = (X, false) := rfl
    simp only [this, Bool.false_eq_true, if_false]
    exact lapse_head cfg hs hd hsubT n X hcore m hm hmt hms hc hh hauto
  | cons p q' =>
    obtain ⟨s, d⟩ := p
    have hrt : ∃ svc, get? X.routed s = some svc := by
      have : s ∈ keys X.routed := hc.routedAll s (by rw [hsubs]; simp [keys])
      rw [← get?_isSome_iff] at this
      cases hg : get? X.routed s with
      | none => rw [hg] at this; cases this
      | some svc => exact ⟨svc, rfl⟩
    obtain ⟨svc, hsvc⟩ := hrt
    have hstep : roundStep cfg rnow ((s, d) :: q') X
        = ({ (send X .renew svc (some s)).2 with
              task := .inflight rnow q' s svc false ((send X .renew svc (some s)).2.now + ((send X .renew svc (some s)).1.lat : Int))
                (send X .renew svc (some s)).1.reac (send X .renew svc (some s)).1.tmo (send X .renew svc (some s)).1.granted }, true) := by
      simp only [roundStep, hs, Bool.false_and, Bool.false_eq_true, if_false, hsvc, hd]
    simp only [hstep, if_true]
    have := lapse_send cfg hsubT X m hmt hms s d q' dn svc rnow hsubs hcore hc hh hrn hauto
    have key : ∀ Y : St, Y.rtrace = .req (send X .renew svc (some s)).1 :: X.rtrace →
        lapseOf n cfg.tol cfg.subTimeout Y.rtrace = lapseStep m (.req (send X .renew svc (some s)).1) := by
      intro Y hY; rw [hY, lapseOf_cons, ← hm]
    refine ⟨?_, ?_, ?_⟩
    · rw [key _ rfl]; exact this.1
    · rw [key _ rfl, this.2.1, hauto]
    · rw [key _ rfl]; exact this.2.2

/-- the state right after an accepted reply has been processed (before the round continues) -/
def granted1 (cfg : Cfg) (st : St) (rnow : Time) (cur : Sid) (svc : Nat) (tmo : Tmo) (granted : Option Sid) : St :=
  { st with routed := PyDict.set (if granted.getD cur != cur then erase st.routed cur else st.routed) (granted.getD cur) svc,
            subs := PyDict.set (erase st.subs cur) (granted.getD cur) (rnow + ms (tmo.secs cfg)) }

theorem deliver_accepted (cfg : Cfg) (st : St) (rnow : Time) (rest : List (Sid × Time)) (cur : Sid) (svc : Nat) (fb : Bool)
    (replyAt : Time) (reac : Reac) (tmo : Tmo) (granted : Option Sid)
    (ht : st.task = .inflight rnow rest cur svc fb replyAt reac tmo granted) (hacc : reac.accepts = true) :
    deliver cfg st =
      (if (roundStep cfg rnow rest (granted1 cfg st rnow cur svc tmo granted)).2 = true
       then (roundStep cfg rnow rest (granted1 cfg st rnow cur svc tmo granted)).1
       else runHead cfg (headFuel (roundStep cfg rnow rest (granted1 cfg st rnow cur svc tmo granted)).1)
              (roundStep cfg rnow rest (granted1 cfg st rnow cur svc tmo granted)).1) := by
  unfold deliver
  split
  · rename_i a b c d e f g h i heq
    rw [ht] at heq
    injection heq with h1 h2 h3 h4 h5 h6 h7 h8 h9
    subst h1 h2 h3 h4 h5 h6 h7 h8 h9
    simp only [hacc, if_true]
    rfl
  · rename_i hn; exact absurd ht (hn _ _ _ _ _ _ _ _ _)

/-- the reply of a calm in-flight renewal arrives -/
theorem lapse_deliver (cfg : Cfg) (hs : cfg.skipStale = false) (hd : cfg.delEarly = false)
    (hsubT : (cfg.tol : Int) * 1000 ≤ (cfg.subTimeout : Int) * 1000) (n : Nat)
    (st : St) (hcore : Core st) (htask : TaskOk st) (m : LapseMon) (hm : m = lapseOf n cfg.tol cfg.subTimeout st.rtrace)
    (hmt : m.tolMs = (cfg.tol : Int) * 1000) (hms : m.subTimeout = cfg.subTimeout)
    (hauto : m.auto = true) (hinv : LInv cfg st m)
    (rnow : Time) (queue : List (Sid × Time)) (cur : Sid) (svc : Nat) (fb : Bool) (replyAt : Time) (reac : Reac)
    (tmo : Tmo) (granted : Option Sid) (ht : st.task = .inflight rnow queue cur svc fb replyAt reac tmo granted) :
    LStep cfg m (deliver cfg { st with now := replyAt })
      (lapseOf n cfg.tol cfg.subTimeout (deliver cfg { st with now := replyAt }).rtrace) := by
  obtain ⟨hc, hfl⟩ := hinv
  simp only [ht] at hfl
  obtain ⟨hfb, hacc, hrn, hnl, dcur, dn, hsubs, htbl, hgnot, hfr, hgE, hdl⟩ := hfl
  simp only [TaskOk, ht] at htask
  obtain ⟨hcurmem, _, hglt, _⟩ := htask
  have hglt' : granted.getD cur < st.nextSid := by
    cases granted with
    | none => exact hcore.subsLt _ hcurmem
    | some g => exact hglt g rfl
  have htX : ({ st with now := replyAt } : St).task = .inflight rnow queue cur svc fb replyAt reac tmo granted := ht
  rw [deliver_accepted cfg { st with now := replyAt } rnow queue cur svc fb replyAt reac tmo granted htX hacc]
  -- the state after the accepted reply
  have hsub1 : (granted1 cfg { st with now := replyAt } rnow cur svc tmo granted).subs
      = queue ++ (dn ++ [(granted.getD cur, rnow + ms (tmo.secs cfg))]) := by
    show PyDict.set (erase st.subs cur) (granted.getD cur) (rnow + ms (tmo.secs cfg)) = _
    rw [hsubs, List.cons_append, erase_head, set_append_new _ _ _ hgnot, List.append_assoc]
  have hcore1 : Core (granted1 cfg { st with now := replyAt } rnow cur svc tmo granted) :=
    (hcore.setNow replyAt).grant cur (granted.getD cur) svc (rnow + ms (tmo.secs cfg)) hglt'
  have hkeys : keys st.subs = cur :: keys (queue ++ dn) := by rw [hsubs]; rfl
  have hnd : (cur :: keys (queue ++ dn)).Nodup := by rw [← hkeys]; exact hcore.subsNodup
  refine lapse_cont cfg hs hd hsubT n (granted1 cfg { st with now := replyAt } rnow cur svc tmo granted) hcore1 m hm hmt hms
    ?_ ?_ hauto rnow hrn queue (dn ++ [(granted.getD cur, rnow + ms (tmo.secs cfg))]) hsub1
  · -- LCommon
    refine ⟨hc.exNodup, hc.wsum, ?_, ?_⟩
    · intro x hx
      have hx' : x ∈ keys (queue ++ (dn ++ [(granted.getD cur, rnow + ms (tmo.secs cfg))])) := by rw [← hsub1]; exact hx
      show x ∈ keys (PyDict.set (if granted.getD cur != cur then erase st.routed cur else st.routed) (granted.getD cur) svc)
      rw [mem_keys_set]
      rw [← List.append_assoc, keys_append] at hx'
      rcases List.mem_append.1 hx' with h | h
      · right
        have hxs : x ∈ keys st.subs := by rw [hkeys]; exact List.mem_cons_of_mem _ h
        have hxr := hc.routedAll x hxs
        have hne : x ≠ cur := fun e => (List.nodup_cons.1 hnd).1 (e ▸ h)
        split
        · rw [mem_keys_erase _ _ _ hcore.routedNodup]; exact ⟨hne, hxr⟩
        · exact hxr
      · left; simpa [keys] using h
    · rw [hsub1]
      have := hc.lenLe
      rw [hsubs] at this
      simp only [List.length_append, List.length_cons, List.length_nil] at this ⊢
      omega
  · -- HeadOk at the reply time
    refine ⟨?_, ?_, ?_⟩
    · intro x hx
      rw [hsub1, ← List.append_assoc, keys_append]
      rcases htbl x hx with h | h
      · exact List.mem_append_left _ h
      · exact List.mem_append_right _ (by simp [keys, h])
    · show Fresh m.expiry m.window m.tolMs replyAt 0 _
      rw [hsub1, ← List.append_assoc, keys_append, fresh_append]
      refine ⟨by simpa [keys] using hfr, ?_⟩
      simp only [keys, List.map_cons, List.map_nil, Fresh, List.length_nil, Nat.zero_add, Nat.add_zero, and_true]
      intro e he; exact (hgE e he).1
    · intro p hp e he
      have hp' : p ∈ queue ++ (dn ++ [(granted.getD cur, rnow + ms (tmo.secs cfg))]) := by rw [← hsub1]; exact hp
      rw [← List.append_assoc] at hp'
      rcases List.mem_append.1 hp' with h | h
      · exact hdl p h e he
      · simp only [List.mem_singleton] at h
        subst h
        exact (hgE e he).2

/-! ### waiting -/

theorem LInv_congr (cfg : Cfg) (X Y : St) (m : LapseMon) (ht : Y.task = X.task) (hs : Y.subs = X.subs)
    (hr : Y.routed = X.routed) (hn : Y.now = X.now) (h : LInv cfg X m) : LInv cfg Y m := by
  obtain ⟨hc, hrest⟩ := h
  refine ⟨⟨hc.exNodup, hc.wsum, by rw [hs, hr]; exact hc.routedAll, by rw [hs]; exact hc.lenLe⟩, ?_⟩
  rw [ht]
  cases hX : X.task with
  | inflight a b c d e f g h i =>
    simp only [hX] at hrest ⊢
    obtain ⟨h1, h2, h3, h4, dcur, dn, h5, h6⟩ := hrest
    exact ⟨h1, h2, h3, by rw [hn]; exact h4, dcur, dn, by rw [hs]; exact h5, h6⟩
  | sleeping u =>
    simp only [hX] at hrest ⊢
    exact ⟨by rw [hn]; exact hrest.1, ⟨by rw [hs]; exact hrest.2.tbl, by rw [hs]; exact hrest.2.fresh, by rw [hs]; exact hrest.2.dl⟩⟩
  | fresh =>
    simp only [hX] at hrest ⊢
    exact ⟨by rw [hs]; exact hrest.tbl, by rw [hs, hn]; exact hrest.fresh, by rw [hs]; exact hrest.dl⟩
  | none =>
    simp only [hX] at hrest ⊢
    exact ⟨by rw [hs]; exact hrest.1, ⟨by rw [hs]; exact hrest.2.tbl, by rw [hs, hn]; exact hrest.2.fresh, by rw [hs]; exact hrest.2.dl⟩⟩
  | done =>
    simp only [hX] at hrest ⊢
    exact ⟨by rw [hs]; exact hrest.1, ⟨by rw [hs]; exact hrest.2.tbl, by rw [hs, hn]; exact hrest.2.fresh, by rw [hs]; exact hrest.2.dl⟩⟩

/-- one task step (its events are task events) carries `LP` along, given the calm-regime analysis -/
theorem lp_of_step (cfg : Cfg) (n : Nat) (st Y : St) (h : LP cfg n st)
    (hev : ∃ more, Y.rtrace = more ++ st.rtrace ∧ ∀ e ∈ more, e.isTaskEv = true)
    (hcalm : (lapseOf n cfg.tol cfg.subTimeout st.rtrace).auto = true → (lapseOf n cfg.tol cfg.subTimeout st.rtrace).calm = true →
      LStep cfg (lapseOf n cfg.tol cfg.subTimeout st.rtrace) Y (lapseOf n cfg.tol cfg.subTimeout Y.rtrace)) : LP cfg n Y := by
  by_cases hreg : (lapseOf n cfg.tol cfg.subTimeout st.rtrace).auto = true ∧ (lapseOf n cfg.tol cfg.subTimeout st.rtrace).calm = true
  · have hst := hcalm hreg.1 hreg.2
    exact ⟨by rw [hst.bad]; exact h.bad, fun _ hc => hst.sess hc⟩
  · obtain ⟨more, htr, hm⟩ := hev
    have := lapse_noflag_fold more (fun e he => taskEv_not_subCallRet e (hm e he)) _ hreg
    rw [← lapseOf_append, ← htr] at this
    exact ⟨by rw [this.1]; exact h.bad, fun ha hc => absurd ⟨ha, hc⟩ this.2⟩

theorem lapse_waitLoop (cfg : Cfg) (hs : cfg.skipStale = false) (hd : cfg.delEarly = false)
    (hsubT : (cfg.tol : Int) * 1000 ≤ (cfg.subTimeout : Int) * 1000) (n : Nat) (H : Time) :
    ∀ (k : Nat) (st : St), Core st → TaskOk st → LP cfg n st → LP cfg n (waitLoop cfg H k st) := by
  intro k
  induction k with
  | zero =>
    intro st _ _ h
    have hm : lapseOf n cfg.tol cfg.subTimeout (waitLoop cfg H 0 st).rtrace = lapseOf n cfg.tol cfg.subTimeout st.rtrace := by
      simp only [waitLoop, lapseOf_cons, lapseStep]
    refine ⟨by rw [hm]; exact h.bad, fun ha hc => ?_⟩
    rw [hm] at ha hc ⊢
    exact LInv_congr cfg st _ _ rfl rfl rfl rfl (h.sess ha hc)
  | succ k ih =>
    intro st hcore htask h
    have hst := lapseOf_static n cfg.tol cfg.subTimeout st.rtrace
    simp only [waitLoop]
    split
    · exact h
    · split
      · rename_i hfresh
        have hc2 := runHead_core cfg hd (headFuel st) st hcore
        refine ih _ hc2.1 hc2.2 (lp_of_step cfg n st _ h (runHead_taskEvs cfg _ st) ?_)
        intro ha hc
        have hinv := h.sess ha hc
        obtain ⟨hcm, hrest⟩ := hinv
        simp only [hfresh] at hrest
        exact lapse_head cfg hs hd hsubT n st hcore _ rfl hst.2.1 hst.2.2 hcm hrest ha
      · rename_i u hsl
        split
        · have hc2 := cont_core cfg hd u st.subs { st with now := u } (hcore.setNow u)
          refine ih _ hc2.1 hc2.2 (lp_of_step cfg n st _ h (cont_taskEvs cfg u st.subs { st with now := u }) ?_)
          intro ha hc
          have hinv := h.sess ha hc
          obtain ⟨hcm, hrest⟩ := hinv
          simp only [hsl] at hrest
          exact lapse_cont cfg hs hd hsubT n { st with now := u } (hcore.setNow u) _ rfl hst.2.1 hst.2.2
            ⟨hcm.exNodup, hcm.wsum, hcm.routedAll, hcm.lenLe⟩ ⟨hrest.2.tbl, hrest.2.fresh, hrest.2.dl⟩ ha u (Int.le_refl _)
            st.subs [] (by simp)
        · exact h
      · rename_i rnow q cur svc fb replyAt reac tmo granted hfl
        split
        · have ht' : TaskOk { st with now := replyAt } := by
            simp only [TaskOk, hfl] at htask ⊢; exact htask
          have hc2 := deliver_core cfg hd { st with now := replyAt } (hcore.setNow replyAt) ht'
          refine ih _ hc2.1 hc2.2 (lp_of_step cfg n st _ h (deliver_taskEvs cfg { st with now := replyAt }) ?_)
          intro ha hc
          exact lapse_deliver cfg hs hd hsubT n st hcore htask _ rfl hst.2.1 hst.2.2 ha (h.sess ha hc)
            rnow q cur svc fb replyAt reac tmo granted hfl
        · exact h
      · exact h

theorem waitLoop_late2 (cfg : Cfg) (H : Time) :
    ∀ (k : Nat) (st : St), (waitLoop cfg H k st).halted = false →
      match (waitLoop cfg H k st).task with
      | .sleeping u => H < u
      | .fresh => False
      | _ => True := by
  intro k
  induction k with
  | zero => intro st h; simp [waitLoop] at h
  | succ k ih =>
    intro st
    simp only [waitLoop]
    split
    · rename_i hh; intro h; rw [hh] at h; cases h
    · split
      · exact ih _
      · rename_i u htask
        split
        · exact ih _
        · rename_i hgt; intro _; simp only [htask]; unfold Time at *; omega
      · rename_i htask
        split
        · exact ih _
        · intro _; simp [htask]
      · rename_i hn1 hn2 hn3
        intro _
        cases ht : st.task with
        | fresh => exact absurd ht hn1
        | sleeping u => exact absurd ht (hn2 u)
        | _ => trivial

/-- in a calm session every finite expiry in the publisher's table lies strictly after the time at which
    the next request can be sent -/
theorem linv_bound (cfg : Cfg) (st : St) (m : LapseMon) (h : LInv cfg st m) (s : Sid) (hs : s ∈ keys m.expiry)
    (e : Time) (he : get? m.expiry s = some (some e)) :
    (match st.task with
      | .inflight _ _ _ _ _ replyAt _ _ _ => replyAt
      | .sleeping u => u
      | _ => st.now) < e := by
  obtain ⟨hc, hrest⟩ := h
  have hw := hc.wsum
  cases ht : st.task with
  | inflight a b c d f replyAt g tm gr =>
    simp only [ht] at hrest ⊢
    obtain ⟨_, _, _, _, dcur, dn, _, htbl, _, hfr, hgE, _⟩ := hrest
    rcases htbl s hs with h1 | h1
    · have := fresh_mem _ _ _ _ _ _ hfr s h1 e he
      unfold Time at *; omega
    · rw [h1] at he
      have := (hgE e he).1
      have := S_le m.window 1
      unfold Time at *; omega
  | sleeping u =>
    simp only [ht] at hrest ⊢
    have := fresh_mem _ _ _ _ _ _ hrest.2.fresh s (hrest.2.tbl s hs) e he
    unfold Time at *; omega
  | fresh =>
    simp only [ht] at hrest ⊢
    have := fresh_mem _ _ _ _ _ _ hrest.fresh s (hrest.tbl s hs) e he
    unfold Time at *; omega
  | none =>
    simp only [ht] at hrest ⊢
    have := hrest.2.tbl s hs
    rw [hrest.1] at this; simp [keys] at this
  | done =>
    simp only [ht] at hrest ⊢
    have := hrest.2.tbl s hs
    rw [hrest.1] at this; simp [keys] at this

theorem noneExpired_of (ex : PyDict Sid (Option Time)) (hn : (keys ex).Nodup) (t : Time)
    (h : ∀ s ∈ keys ex, ∀ e, get? ex s = some (some e) → t ≤ e) : noneExpired ex t = true := by
  unfold noneExpired
  rw [List.all_eq_true]
  intro p hp
  obtain ⟨s, eo⟩ := p
  cases eo with
  | none => rfl
  | some e =>
    have hg : get? ex s = some (some e) := get?_of_mem_nodup hn hp
    have hk : s ∈ keys ex := List.mem_map_of_mem (f := Prod.fst) hp
    simp only [decide_eq_true_eq]
    exact h s hk e hg

theorem lapse_doWait (cfg : Cfg) (hs : cfg.skipStale = false) (hd : cfg.delEarly = false)
    (hsubT : (cfg.tol : Int) * 1000 ≤ (cfg.subTimeout : Int) * 1000) (n d : Nat) (st : St)
    (hcore : Core st) (htask : TaskOk st) (h : LP cfg n st) : LP cfg n (doWait cfg d st) := by
  unfold doWait
  split
  · exact h
  · have hW := lapse_waitLoop cfg hs hd hsubT n (st.now + (d : Int)) (waitFuel d st) st hcore htask h
    have hl1 := waitLoop_late cfg (st.now + (d : Int)) (waitFuel d st) st
    have hl2 := waitLoop_late2 cfg (st.now + (d : Int)) (waitFuel d st) st
    simp only []
    generalize waitLoop cfg (st.now + (d : Int)) (waitFuel d st) st = W at hW hl1 hl2
    split
    · exact hW
    · rename_i hh
      have hh' : W.halted = false := by simpa using hh
      have hl1 := hl1 hh'
      have hl2 := hl2 hh'
      have hrt : (St.snap { W with now := st.now + (d : Int) }).rtrace
          = .snap (st.now + (d : Int)) (keys W.subs) (sortSids (keys W.routed)) W.task.alive W.avail :: W.rtrace := rfl
      by_cases hreg : (lapseOf n cfg.tol cfg.subTimeout W.rtrace).auto = true ∧ (lapseOf n cfg.tol cfg.subTimeout W.rtrace).calm = true
      · have hinv := hW.sess hreg.1 hreg.2
        -- nothing in the table has expired at the end of the wait
        have hne : noneExpired (lapseOf n cfg.tol cfg.subTimeout W.rtrace).expiry (st.now + (d : Int)) = true := by
          apply noneExpired_of _ hinv.1.exNodup
          intro s hs' e he
          have hb := linv_bound cfg W _ hinv s hs' e he
          cases hWt : W.task with
          | inflight a b c d' f replyAt g tm gr => simp only [hWt] at hb hl1; unfold Time at *; omega
          | sleeping u => simp only [hWt] at hb hl2; unfold Time at *; omega
          | fresh => simp only [hWt] at hl2
          | none =>
            have h2 := hinv.2; simp only [hWt] at h2
            have h3 := h2.2.tbl s hs'; rw [h2.1] at h3; simp [keys] at h3
          | done =>
            have h2 := hinv.2; simp only [hWt] at h2
            have h3 := h2.2.tbl s hs'; rw [h2.1] at h3; simp [keys] at h3
        have hm : lapseOf n cfg.tol cfg.subTimeout (St.snap { W with now := st.now + (d : Int) }).rtrace
            = lapseOf n cfg.tol cfg.subTimeout W.rtrace := by
          rw [hrt, lapseOf_cons]
          have hcond : ((lapseOf n cfg.tol cfg.subTimeout W.rtrace).auto && (lapseOf n cfg.tol cfg.subTimeout W.rtrace).calm) = true := by
            rw [hreg.1, hreg.2]; rfl
          generalize lapseOf n cfg.tol cfg.subTimeout W.rtrace = mW at hcond hne
          simp only [lapseStep, hcond, if_true, hne, flagged]
        refine ⟨by rw [hm]; exact hW.bad, fun _ _ => ?_⟩
        rw [hm]
        obtain ⟨hc, hrest⟩ := hinv
        refine ⟨⟨hc.exNodup, hc.wsum, hc.routedAll, hc.lenLe⟩, ?_⟩
        show match W.task with | _ => _
        cases hWt : W.task with
        | inflight a b c d' f replyAt g tm gr =>
          simp only [hWt] at hrest hl1 ⊢
          obtain ⟨h1, h2, h3, _, dcur, dn, h5, h6⟩ := hrest
          exact ⟨h1, h2, h3, by show st.now + (d : Int) ≤ replyAt; unfold Time at *; omega, dcur, dn, h5, h6⟩
        | sleeping u =>
          simp only [hWt] at hrest hl2 ⊢
          exact ⟨by show st.now + (d : Int) ≤ u; unfold Time at *; omega, ⟨hrest.2.tbl, hrest.2.fresh, hrest.2.dl⟩⟩
        | fresh => simp only [hWt] at hl2
        | none =>
          simp only [hWt] at hrest ⊢
          refine ⟨hrest.1, ⟨hrest.2.tbl, ?_, hrest.2.dl⟩⟩
          show Fresh _ _ _ _ 0 (keys W.subs); rw [hrest.1]; trivial
        | done =>
          simp only [hWt] at hrest ⊢
          refine ⟨hrest.1, ⟨hrest.2.tbl, ?_, hrest.2.dl⟩⟩
          show Fresh _ _ _ _ 0 (keys W.subs); rw [hrest.1]; trivial
      · have := lapse_task_noflag (lapseOf n cfg.tol cfg.subTimeout W.rtrace)
          (.snap (st.now + (d : Int)) (keys W.subs) (sortSids (keys W.routed)) W.task.alive W.avail) rfl hreg
        rw [← lapseOf_cons, ← hrt] at this
        exact ⟨by rw [this.1]; exact hW.bad, fun ha hc => absurd ⟨ha, hc⟩ this.2⟩

/-! ### unsubscribing ends the auto-renewal regime -/

theorem lapse_doUnsub (cfg : Cfg) (hd : cfg.delEarly = false) (n : Nat) (st : St)
    (hcore : Core st) (htask : TaskOk st) (h : LP cfg n st) : LP cfg n (doUnsub cfg st) := by
  by_cases hh : st.halted = true
  · have : doUnsub cfg st = st := by simp [doUnsub, hh]
    rw [this]; exact h
  have hh' : st.halted = false := by simpa using hh
  obtain ⟨sevs, hsev, hS, hcase⟩ := doUnsub_shape cfg hd st hcore htask hh'
  -- after `call unsub` auto-renewal is off; everything else is flag-free
  have hcall : ¬ ((lapseStep (lapseOf n cfg.tol cfg.subTimeout st.rtrace) (.call st.now .unsub)).auto = true
      ∧ (lapseStep (lapseOf n cfg.tol cfg.subTimeout st.rtrace) (.call st.now .unsub)).calm = true) := by
    simp [lapseStep]
  have hcallbad : (lapseStep (lapseOf n cfg.tol cfg.subTimeout st.rtrace) (.call st.now .unsub)).bad = [] := h.bad
  have fin : ∀ (evs : List Ev), (∀ e ∈ evs, e.isSubCallRet = false) →
      (doUnsub cfg st).rtrace = evs ++ .call st.now .unsub :: st.rtrace → LP cfg n (doUnsub cfg st) := by
    intro evs hev htr
    have := lapse_noflag_fold evs hev _ hcall
    rw [← lapseOf_cons, ← lapseOf_append, ← htr] at this
    exact ⟨by rw [this.1]; exact hcallbad, fun ha hc => absurd ⟨ha, hc⟩ this.2⟩
  rcases hcase with ⟨_, heq⟩ | ⟨_, ureqs, t, av, _, htr⟩
  · exact fin sevs (fun e he => taskEv_not_subCallRet e (hsev e he)) (by rw [heq, hS])
  · refine fin (.snap t [] [] false av :: .ret t .unsub none :: (ureqs.reverse.map Ev.req) ++ sevs) ?_ (by rw [htr])
    intro e he
    simp only [List.cons_append, List.mem_cons, List.mem_append] at he
    rcases he with rfl | rfl | he | he
    · rfl
    · rfl
    · exact taskEv_not_subCallRet e (reqs_taskEvs _ e he)
    · exact taskEv_not_subCallRet e (hsev e he)

/-! ### subscribing starts a session -/

/-- the subscribe loop, seen by the monitor (auto-renewal not yet in force) -/
theorem lapse_subLoop (cfg : Cfg) (hsubT : (cfg.tol : Int) * 1000 ≤ (cfg.subTimeout : Int) * 1000) (n : Nat)
    (now0 : Time) (l : List Nat) :
    ∀ X : St, Core X → now0 ≤ X.now →
      (lapseOf n cfg.tol cfg.subTimeout X.rtrace).auto = false →
      ((lapseOf n cfg.tol cfg.subTimeout X.rtrace).calm = true →
        LCommon X (lapseOf n cfg.tol cfg.subTimeout X.rtrace) ∧ X.subs.length + l.length ≤ n
        ∧ HeadOk X (lapseOf n cfg.tol cfg.subTimeout X.rtrace) X.now) →
      (lapseOf n cfg.tol cfg.subTimeout (subLoop cfg now0 l X).1.rtrace).bad = (lapseOf n cfg.tol cfg.subTimeout X.rtrace).bad
      ∧ (lapseOf n cfg.tol cfg.subTimeout (subLoop cfg now0 l X).1.rtrace).auto = false
      ∧ ((subLoop cfg now0 l X).2 = none → (lapseOf n cfg.tol cfg.subTimeout (subLoop cfg now0 l X).1.rtrace).calm = true →
          LCommon (subLoop cfg now0 l X).1 (lapseOf n cfg.tol cfg.subTimeout (subLoop cfg now0 l X).1.rtrace)
          ∧ HeadOk (subLoop cfg now0 l X).1 (lapseOf n cfg.tol cfg.subTimeout (subLoop cfg now0 l X).1.rtrace) (subLoop cfg now0 l X).1.now) := by
  induction l with
  | nil =>
    intro X _ _ ha hpre
    exact ⟨rfl, ha, fun _ hc => ⟨(hpre hc).1, (hpre hc).2.2⟩⟩
  | cons i rest ih =>
    intro X hcore hnow ha hpre
    have hst := lapseOf_static n cfg.tol cfg.subTimeout X.rtrace
    generalize hm : lapseOf n cfg.tol cfg.subTimeout X.rtrace = m at ha hpre hst
    generalize hr : send X .sub i none = sr
    have hk : sr.1.kind = .sub := by rw [← hr]; rfl
    have ht : sr.1.t = X.now := by rw [← hr]; rfl
    have hbad1 : (lapseStep m (.req sr.1)).bad = m.bad := by
      simp [lapseStep, hk, flagged]
    have hauto1 : (lapseStep m (.req sr.1)).auto = false := by simp [lapseStep, ha]
    by_cases hacc : sr.1.reac.accepts = true
    · have hacc0 : (send X .sub i none).1.reac.accepts = true := by rw [hr]; exact hacc
      rw [subLoop_cons_acc cfg now0 i rest X hacc0]
      have hg := send_sub_granted X i hacc0
      have hgd : (send X .sub i none).1.granted.getD 0 = X.nextSid := by rw [hg.1]; rfl
      have hfreshg : X.nextSid ∉ keys X.subs := fun hmem => Nat.lt_irrefl _ (hcore.subsLt _ hmem)
      have hsubs' : (subNext cfg now0 i X).subs = X.subs ++ [(X.nextSid, now0 + ms ((send X .sub i none).1.tmo.secs cfg))] := by
        simp only [subNext, hgd, send_subs]; exact set_append_new _ _ _ hfreshg
      have hrouted' : (subNext cfg now0 i X).routed = PyDict.set X.routed X.nextSid i := by
        simp only [subNext, hgd, send_routed]
      have hnow' : (subNext cfg now0 i X).now = X.now + ((send X .sub i none).1.lat : Int) := rfl
      have hm1 : lapseOf n cfg.tol cfg.subTimeout (subNext cfg now0 i X).rtrace = lapseStep m (.req sr.1) := by
        show lapseOf n cfg.tol cfg.subTimeout (.req (send X .sub i none).1 :: X.rtrace) = _
        rw [lapseOf_cons, hm, hr]
      have hlat : (0 : Int) ≤ ((send X .sub i none).1.lat : Int) := Int.natCast_nonneg _
      have := ih (subNext cfg now0 i X) (subNext_core cfg now0 i X hcore hacc0)
        (by rw [hnow']; unfold Time at *; omega) (by rw [hm1]; exact hauto1) ?_
      · rw [hm1] at this
        exact ⟨by rw [this.1, hbad1], this.2.1, this.2.2⟩
      · -- the premise for the rest of the loop
        rw [hm1]
        intro hcalm1
        simp only [lapseStep, hk, Bool.and_eq_true, Bool.or_eq_true, decide_eq_true_eq] at hcalm1
        have hsubK : (Kind.sub != Kind.unsub) = true := rfl
        simp only [hsubK, Bool.not_true, Bool.false_eq_true, false_or, if_true] at hcalm1
        obtain ⟨hcalm, ⟨_, htmo⟩, hw'⟩ := hcalm1
        obtain ⟨hc, hlen, hh⟩ := hpre hcalm
        have hgs : sr.1.granted = some X.nextSid := by rw [← hr]; exact hg.1
        obtain ⟨u1, u2, u3, u4⟩ := pubUpdate_sub m.subTimeout m.expiry sr.1 X.nextSid hk hacc hgs hc.exNodup
        have hn1 : 1 ≤ m.n := by rw [hst.1]; simp only [List.length_cons] at hlen; omega
        have hS1 : S ((sr.1.lat :: m.window).take m.n) 1 = (sr.1.lat : Int) := by
          have := S_push m.window sr.1.lat m.n 0 (by omega)
          simpa [S] using this
        have hlatr : sr.1.lat = (send X .sub i none).1.lat := by rw [hr]
        refine ⟨⟨?_, ?_, ?_, ?_⟩, ?_, ⟨?_, ?_, ?_⟩⟩
        · simpa [lapseStep] using u1
        · simpa [lapseStep, hk] using hw'
        · intro x hx
          rw [hsubs', keys_append] at hx
          rw [hrouted', mem_keys_set]
          rcases List.mem_append.1 hx with h1 | h1
          · exact Or.inr (hc.routedAll x h1)
          · left; simpa [keys] using h1
        · rw [hsubs']; simp only [List.length_append, List.length_cons, List.length_nil, lapseStep]
          rw [hst.1]; simp only [List.length_cons] at hlen; omega
        · rw [hsubs']; simp only [List.length_append, List.length_cons, List.length_nil]
          simp only [List.length_cons] at hlen; omega
        · intro x hx
          have hx' : x ∈ keys (pubUpdate m.subTimeout m.expiry sr.1) := by simpa [lapseStep] using hx
          rw [hsubs', keys_append]
          rcases u4 x hx' with h1 | h1
          · exact List.mem_append_right _ (by simp [keys, h1])
          · exact List.mem_append_left _ (hh.tbl x h1)
        · rw [hsubs', keys_append, fresh_append, hnow']
          refine ⟨?_, ?_⟩
          · have hpush := fresh_push m.expiry (pubUpdate m.subTimeout m.expiry sr.1) m.window m.tolMs X.now sr.1.lat m.n 0
              (keys X.subs) (fun x hx => u3 x (fun e => hfreshg (e ▸ hx)))
              (by rw [hst.1]; simp only [keys, List.length_map]; simp only [List.length_cons] at hlen; omega) hh.fresh
            simpa [lapseStep, hk, keys, hlatr] using hpush
          · simp only [keys, List.map_cons, List.map_nil, Fresh, List.length_nil, Nat.zero_add, Nat.add_zero, and_true]
            intro e he
            have he' : get? (pubUpdate m.subTimeout m.expiry sr.1) X.nextSid = some (some e) := by simpa [lapseStep] using he
            rw [u2] at he'
            have hexp : expiryOf m.subTimeout sr.1 = some e := by simpa using he'
            have h1 := expiry_margin m.subTimeout m.tolMs sr.1 (by rw [hst.2.1, hst.2.2]; exact hsubT) htmo e hexp
            simp only [lapseStep, hk, hsubK, if_true, hS1]
            rw [ht] at h1; rw [← hlatr]; unfold Time at *; omega
        · intro p hp e he
          rw [hsubs'] at hp
          rcases List.mem_append.1 hp with h1 | h1
          · have hpk : p.1 ∈ keys X.subs := List.mem_map_of_mem h1
            have he' : get? m.expiry p.1 = some (some e) := by
              have : get? (pubUpdate m.subTimeout m.expiry sr.1) p.1 = some (some e) := by simpa [lapseStep] using he
              rw [u3 p.1 (fun e => hfreshg (e ▸ hpk))] at this; exact this
            exact hh.dl p h1 e he'
          · simp only [List.mem_singleton] at h1
            subst h1
            have he' : get? (pubUpdate m.subTimeout m.expiry sr.1) X.nextSid = some (some e) := by simpa [lapseStep] using he
            rw [u2] at he'
            have hexp : expiryOf m.subTimeout sr.1 = some e := by simpa using he'
            have := expiry_deadline cfg now0 sr.1 (by rw [ht]; exact hnow) e (by rw [← hst.2.2]; exact hexp)
            rw [← hr] at this; exact this
    · have hacc' : (send X .sub i none).1.reac.accepts = false := by rw [hr]; simpa using hacc
      rw [subLoop_cons_rej cfg now0 i rest X hacc']
      have hm1 : lapseOf n cfg.tol cfg.subTimeout
          ({ (send X .sub i none).2 with now := (send X .sub i none).2.now + ((send X .sub i none).1.lat : Int) } : St).rtrace
          = lapseStep m (.req sr.1) := by
        show lapseOf n cfg.tol cfg.subTimeout (.req (send X .sub i none).1 :: X.rtrace) = _
        rw [lapseOf_cons, hm, hr]
      refine ⟨by rw [hm1]; exact hbad1, by rw [hm1]; exact hauto1, fun hnone => by cases hnone⟩

theorem headok_bound (st : St) (m : LapseMon) (hc : LCommon st m) (hh : HeadOk st m st.now) (s : Sid)
    (hs : s ∈ keys m.expiry) (e : Time) (he : get? m.expiry s = some (some e)) : st.now ≤ e := by
  have := fresh_mem _ _ _ _ _ _ hh.fresh s (hh.tbl s hs) e he
  have := hc.wsum
  unfold Time at *; omega

theorem lapse_doSub (cfg : Cfg) (hcd : cfg.clearDone = true) (htolpos : 0 < cfg.tol)
    (hsubT : (cfg.tol : Int) * 1000 ≤ (cfg.subTimeout : Int) * 1000) (n : Nat) (auto : Bool) (st : St)
    (hcore : Core st) (h : LP cfg n st) : LP cfg n (doSub cfg n auto st) := by
  by_cases hpre : (st.halted || !st.subs.isEmpty || st.task.alive) = true
  · have : doSub cfg n auto st = st := by simp only [doSub, hpre, if_true]
    rw [this]; exact h
  have hpre0 : (st.halted || !st.subs.isEmpty || st.task.alive) = false := by simpa using hpre
  have hpre' : st.halted = false ∧ st.subs = [] ∧ st.task.alive = false := by
    simp only [Bool.or_eq_false_iff] at hpre0
    refine ⟨hpre0.1.1, ?_, hpre0.2⟩
    have := hpre0.1.2
    simpa using this
  have hst := lapseOf_static n cfg.tol cfg.subTimeout st.rtrace
  -- the monitor after `call sub`: a fresh session
  have hcall : lapseOf n cfg.tol cfg.subTimeout (st.emit (.call st.now (.sub auto))).rtrace
      = { lapseOf n cfg.tol cfg.subTimeout st.rtrace with calm := true, window := [], auto := false, expiry := [] } := by
    show lapseOf n cfg.tol cfg.subTimeout (.call st.now (.sub auto) :: st.rtrace) = _
    rw [lapseOf_cons]; rfl
  have hloop := lapse_subLoop cfg hsubT n st.now (List.range n) (st.emit (.call st.now (.sub auto))) (hcore.emit _)
    (Int.le_refl _) (by rw [hcall]) (by
      rw [hcall]
      intro _
      refine ⟨⟨by simp [keys], ?_, ?_, ?_⟩, ?_, ⟨?_, ?_, ?_⟩⟩
      · simp only [sumNat_nil]; rw [hst.2.1]; have : (0 : Int) < (cfg.tol : Int) := by exact_mod_cast htolpos
        omega
      · intro x hx; have : x ∈ keys st.subs := hx; rw [hpre'.2.1] at this; simp [keys] at this
      · show st.subs.length ≤ _; rw [hpre'.2.1]; simp
      · show st.subs.length + _ ≤ n; rw [hpre'.2.1]; simp
      · intro x hx; simp [keys] at hx
      · show Fresh _ _ _ _ 0 (keys st.subs); rw [hpre'.2.1]; trivial
      · intro p hp; have : p ∈ st.subs := hp; rw [hpre'.2.1] at this; cases this)
  have hcoreS := subLoop_core cfg st.now (List.range n) (st.emit (.call st.now (.sub auto))) (hcore.emit _)
  have hbad0 : (lapseOf n cfg.tol cfg.subTimeout (st.emit (.call st.now (.sub auto))).rtrace).bad = [] := by
    rw [hcall]; exact h.bad
  unfold doSub
  simp only [hpre0, Bool.false_eq_true, if_false]
  have hnow : (st.emit (.call st.now (.sub auto))).now = st.now := rfl
  simp only [hnow]
  generalize subLoop cfg st.now (List.range n) (st.emit (.call st.now (.sub auto))) = L at hloop hcoreS
  obtain ⟨S, err⟩ := L
  obtain ⟨hlb, hla, hls⟩ := hloop
  cases err with
  | some e =>
    dsimp only at hlb hla hcoreS ⊢
    -- roll-back: UNSUBSCRIBEs, then `ret` with an error: auto-renewal stays off
    obtain ⟨ureqs, hu1, _, _⟩ := unsubAll_run (keys S.subs) { S with subs := [], task := .none } hcoreS.1.routedNodup hcoreS.1.subsNodup
    have htrace : (unsubscribeServices S).rtrace = (ureqs.reverse.map Ev.req) ++ S.rtrace := by
      unfold unsubscribeServices; exact hu1
    have hreg : ¬ ((lapseOf n cfg.tol cfg.subTimeout S.rtrace).auto = true ∧ (lapseOf n cfg.tol cfg.subTimeout S.rtrace).calm = true) := by
      rw [hla]; simp
    have h1 := lapse_noflag_fold (ureqs.reverse.map Ev.req) (fun e he => taskEv_not_subCallRet e (reqs_taskEvs _ e he)) _ hreg
    rw [← lapseOf_append, ← htrace] at h1
    generalize unsubscribeServices S = U at h1
    have hfin : lapseOf n cfg.tol cfg.subTimeout (St.snap (U.emit (.ret U.now (.sub auto) (some e)))).rtrace
        = { lapseOf n cfg.tol cfg.subTimeout U.rtrace with auto := false } := by
      show lapseOf n cfg.tol cfg.subTimeout (.snap U.now (keys U.subs) (sortSids (keys U.routed)) U.task.alive U.avail
        :: .ret U.now (.sub auto) (some e) :: U.rtrace) = _
      rw [lapseOf_cons, lapseOf_cons]
      simp [lapseStep]
    refine ⟨by rw [hfin]; show (lapseOf n cfg.tol cfg.subTimeout U.rtrace).bad = []; rw [h1.1, hlb]; exact hbad0,
      fun ha => ?_⟩
    rw [hfin] at ha; cases ha
  | none =>
    dsimp only at hlb hla hls hcoreS ⊢
    have hls := hls rfl
    generalize hF : (if (S.subs.isEmpty || !auto) = true then S else { S with task := startTask cfg S.task }) = F
    have hF1 : F.subs = S.subs := by rw [← hF]; split <;> rfl
    have hF2 : F.routed = S.routed := by rw [← hF]; split <;> rfl
    have hF3 : F.rtrace = S.rtrace := by rw [← hF]; split <;> rfl
    have hF4 : F.now = S.now := by rw [← hF]; split <;> rfl
    generalize hmS : lapseOf n cfg.tol cfg.subTimeout S.rtrace = mS at hlb hla hls
    have hret : lapseOf n cfg.tol cfg.subTimeout (.ret F.now (.sub auto) none :: F.rtrace) = { mS with auto := auto } := by
      rw [lapseOf_cons, hF3, hmS]; simp [lapseStep]
    by_cases hreg : auto = true ∧ mS.calm = true
    · obtain ⟨hcS, hhS⟩ := hls hreg.2
      have hne : noneExpired mS.expiry F.now = true := by
        apply noneExpired_of _ hcS.exNodup
        intro s hs' e he
        rw [hF4]; exact headok_bound S mS hcS hhS s hs' e he
      have hfin : lapseOf n cfg.tol cfg.subTimeout (St.snap (F.emit (.ret F.now (.sub auto) none))).rtrace = { mS with auto := auto } := by
        show lapseOf n cfg.tol cfg.subTimeout (.snap F.now (keys F.subs) (sortSids (keys F.routed)) F.task.alive F.avail
          :: .ret F.now (.sub auto) none :: F.rtrace) = _
        rw [lapseOf_cons, hret]
        simp only [lapseStep, hreg.1, hreg.2, Bool.and_self, if_true, hne, flagged]
      refine ⟨by rw [hfin]; show mS.bad = []; rw [hlb]; exact hbad0, fun _ _ => ?_⟩
      rw [hfin]
      -- the session invariant at the start: the renewal task is fresh (or there is nothing to renew)
      have htaskS : S.task = st.task := hcoreS.2.1
      have hcm : LCommon (St.snap (F.emit (.ret F.now (.sub auto) none))) { mS with auto := auto } :=
        ⟨hcS.exNodup, hcS.wsum, by show ∀ s ∈ keys F.subs, s ∈ keys F.routed; rw [hF1, hF2]; exact hcS.routedAll,
          by show F.subs.length ≤ _; rw [hF1]; exact hcS.lenLe⟩
      have hhd : HeadOk (St.snap (F.emit (.ret F.now (.sub auto) none))) { mS with auto := auto } F.now :=
        ⟨by show ∀ s ∈ keys mS.expiry, s ∈ keys F.subs; rw [hF1]; exact hhS.tbl,
         by show Fresh mS.expiry mS.window mS.tolMs F.now 0 (keys F.subs); rw [hF1, hF4]; exact hhS.fresh,
         by show ∀ p ∈ F.subs, _; rw [hF1]; exact hhS.dl⟩
      refine ⟨hcm, ?_⟩
      simp only [St.snap, St.emit] at hhd ⊢
      by_cases hemp : S.subs.isEmpty = true
      · have hFS : F = S := by rw [← hF]; simp [hemp]
        have hsubs0 : F.subs = [] := by rw [hF1]; exact List.isEmpty_iff.1 hemp
        have hFt : F.task = st.task := by rw [hFS, htaskS]
        rw [hFt]
        cases hstt : st.task with
        | none => exact ⟨hsubs0, ⟨hhd.tbl, hhd.fresh, hhd.dl⟩⟩
        | done => exact ⟨hsubs0, ⟨hhd.tbl, hhd.fresh, hhd.dl⟩⟩
        | fresh => rw [hstt] at hpre'; simp [TaskPc.alive] at hpre'
        | sleeping u => rw [hstt] at hpre'; simp [TaskPc.alive] at hpre'
        | inflight a b c d e f g h i => rw [hstt] at hpre'; simp [TaskPc.alive] at hpre'
      · have hFt : F.task = startTask cfg st.task := by
          rw [← hF, ← htaskS]; simp [hemp, hreg.1]
        rw [hFt]
        cases hstt : st.task with
        | none => exact ⟨hhd.tbl, hhd.fresh, hhd.dl⟩
        | done => simp only [startTask, hcd, if_true]; exact ⟨hhd.tbl, hhd.fresh, hhd.dl⟩
        | fresh => rw [hstt] at hpre'; simp [TaskPc.alive] at hpre'
        | sleeping u => rw [hstt] at hpre'; simp [TaskPc.alive] at hpre'
        | inflight a b c d e f g h i => rw [hstt] at hpre'; simp [TaskPc.alive] at hpre'
    · have hreg' : ¬ (({ mS with auto := auto } : LapseMon).auto = true ∧ ({ mS with auto := auto } : LapseMon).calm = true) := hreg
      have h1 := lapse_task_noflag { mS with auto := auto }
        (.snap F.now (keys F.subs) (sortSids (keys F.routed)) F.task.alive F.avail) rfl hreg'
      have hfin : lapseOf n cfg.tol cfg.subTimeout (St.snap (F.emit (.ret F.now (.sub auto) none))).rtrace
          = lapseStep { mS with auto := auto } (.snap F.now (keys F.subs) (sortSids (keys F.routed)) F.task.alive F.avail) := by
        show lapseOf n cfg.tol cfg.subTimeout (.snap F.now (keys F.subs) (sortSids (keys F.routed)) F.task.alive F.avail
          :: .ret F.now (.sub auto) none :: F.rtrace) = _
        rw [lapseOf_cons, hret]
      refine ⟨by rw [hfin, h1.1]; show mS.bad = []; rw [hlb]; exact hbad0, fun ha hc => ?_⟩
      rw [hfin] at ha hc
      exact absurd ⟨ha, hc⟩ h1.2

end Upnp.C12
