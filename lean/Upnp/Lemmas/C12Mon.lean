/-
  C12 — helper lemmas: the clause monitors of `Spec/C12.lean` folded over the model's trace.
  The model keeps its trace newest-first (`rtrace`), so a monitor over `st.trace` is a `foldr` over
  `st.rtrace`, and appending events to the trace is a further `foldr` on top.
-/
import Upnp.Lemmas.C12Trace
import Upnp.Lemmas.C12Aon
namespace Upnp.C12
open Upnp PyDict

def cleanOf (rt : List Ev) : CleanMon := rt.foldr (fun e m => cleanStep m e) {}
def aonOf (n : Nat) (rt : List Ev) : AonMon := rt.foldr (fun e m => aonStep m e) { n }

theorem cleanMon_trace (st : St) : cleanMon st.trace = cleanOf st.rtrace := by
  simp [cleanMon, St.trace, cleanOf, List.foldl_reverse]

theorem aonMon_trace (n : Nat) (st : St) : aonMon n st.trace = aonOf n st.rtrace := by
  simp [aonMon, St.trace, aonOf, List.foldl_reverse]

theorem cleanOf_append (evs rt : List Ev) :
    cleanOf (evs ++ rt) = evs.foldr (fun e m => cleanStep m e) (cleanOf rt) := by
  simp [cleanOf, List.foldr_append]

theorem aonOf_append (n : Nat) (evs rt : List Ev) :
    aonOf n (evs ++ rt) = evs.foldr (fun e m => aonStep m e) (aonOf n rt) := by
  simp [aonOf, List.foldr_append]

/-! ### clean clause -/

/-- folding task events (requests, callbacks, spin) with no snapshot pending: nothing is flagged as long
    as no request occurs while quiet -/
theorem clean_fold_task (evs : List Ev) (hev : ∀ e ∈ evs, e.isTaskEv = true) :
    ∀ (m : CleanMon), m.pend = false → (m.quiet = true → ∀ e ∈ evs, e.isReq = false) →
      (evs.foldr (fun e m => cleanStep m e) m).pend = false
      ∧ (evs.foldr (fun e m => cleanStep m e) m).quiet = m.quiet
      ∧ (m.bad = [] → (evs.foldr (fun e m => cleanStep m e) m).bad = []) := by
  induction evs with
  | nil => intro m hp _; exact ⟨hp, rfl, id⟩
  | cons e r ih =>
    intro m hp hq
    obtain ⟨h1, h2, h3⟩ := ih (fun x hx => hev x (List.mem_cons_of_mem _ hx)) m hp
      (fun hqt x hx => hq hqt x (List.mem_cons_of_mem _ hx))
    simp only [List.foldr_cons]
    generalize r.foldr (fun e m => cleanStep m e) m = m1 at h1 h2 h3
    have he := hev e List.mem_cons_self
    cases e with
    | req q =>
      have hnq : m1.quiet = false := by
        cases hqq : m1.quiet with
        | false => rfl
        | true =>
          have := hq (h2 ▸ hqq) (.req q) List.mem_cons_self
          simp [Ev.isReq] at this
      simp only [cleanStep, h1, Bool.false_eq_true, if_false, hnq, Bool.not_false, flagged, if_true]
      exact ⟨trivial, by rw [← h2, hnq], h3⟩
    | cb t svc nv av => simp only [cleanStep, h1, Bool.false_eq_true, if_false]; exact ⟨trivial, h2, h3⟩
    | spin t => simp only [cleanStep, h1, Bool.false_eq_true, if_false]; exact ⟨trivial, h2, h3⟩
    | call t c => simp [Ev.isTaskEv] at he
    | ret t c res => simp [Ev.isTaskEv] at he
    | snap t a b c d => simp [Ev.isTaskEv] at he

theorem clean_snap_nopend (m : CleanMon) (hp : m.pend = false) (t : Time) (a b : List Sid) (c d : Bool) :
    cleanStep m (.snap t a b c d) = m := by
  simp [cleanStep, hp]

theorem reqs_taskEvs (reqs : List Req) : ∀ e ∈ reqs.map Ev.req, e.isTaskEv = true := by
  intro e he
  obtain ⟨r, _, rfl⟩ := List.mem_map.1 he
  rfl

/-- nothing is subscribed and no task exists (or the run has halted) -/
def QuietOrHalted (st : St) : Prop := st.halted = true ∨ (st.subs = [] ∧ st.task = .none)

/-- the clean-clause monitor, folded over the trace so far, has flagged nothing, expects no snapshot, and
    is `quiet` only if the model really is -/
structure CleanInv (st : St) : Prop where
  bad : (cleanOf st.rtrace).bad = []
  pend : (cleanOf st.rtrace).pend = false
  quiet : (cleanOf st.rtrace).quiet = true → QuietOrHalted st

theorem CleanInv.init (script : List Entry) (dflt : Entry) : CleanInv (init script dflt) :=
  ⟨rfl, rfl, by intro h; simp [cleanOf, C12.init] at h⟩

/-- quiet model states append no request (restated from the model: waits and unsubscribes only) -/
theorem quiet_no_req (cfg : Cfg) (n : Nat) (st : St) (hs : st.subs = []) (ht : st.task = .none) (hh : st.halted = false)
    (op : Op) (hop : ∀ a, op ≠ .sub a) :
    (step cfg n st op).subs = [] ∧ (step cfg n st op).task = .none ∧ (step cfg n st op).halted = false
    ∧ ∃ evs, (step cfg n st op).rtrace = evs ++ st.rtrace ∧ ∀ e ∈ evs, e.isReq = false := by
  cases op with
  | sub a => exact absurd rfl (hop a)
  | wait d =>
    have hk : ∃ k, waitFuel d st = k + 1 := by
      refine ⟨waitFuel d st - 1, ?_⟩
      have : 0 < waitFuel d st := by unfold waitFuel; exact Nat.mul_pos (by omega) (by omega)
      omega
    obtain ⟨k, hk⟩ := hk
    simp only [step, doWait, hh, Bool.false_eq_true, if_false, hk, waitLoop, ht]
    refine ⟨by simp [St.snap, St.emit, hs], by simp [St.snap, St.emit], by simp [St.snap, St.emit, hh], [_], rfl, ?_⟩
    simp [Ev.isReq]
  | unsub =>
    simp only [step, doUnsub, hh, Bool.false_eq_true, if_false, settle, St.emit, ht, unsubscribeServices, hs, keys,
      List.map_nil, unsubAll, St.snap]
    refine ⟨trivial, trivial, by simp [hh], [_, _, _], rfl, ?_⟩
    simp [Ev.isReq]

theorem cleanInv_wait (cfg : Cfg) (d : Nat) (st : St) (hi : CleanInv st) : CleanInv (doWait cfg d st) := by
  by_cases hh : st.halted = true
  · have : doWait cfg d st = st := by simp [doWait, hh]
    rw [this]; exact hi
  have hh' : st.halted = false := by simpa using hh
  obtain ⟨more, hm, hshape⟩ := doWait_shape cfg d st
  -- while quiet, no request is appended
  have hnoreq : (cleanOf st.rtrace).quiet = true → ∀ e ∈ more, e.isReq = false := by
    intro hq
    rcases hi.quiet hq with hhalt | ⟨hs, ht⟩
    · exact absurd hhalt hh
    · obtain ⟨_, _, _, evs, he1, he2⟩ := quiet_no_req cfg 0 st hs ht hh' (.wait d) (by intro a; simp)
      have he1' : (doWait cfg d st).rtrace = evs ++ st.rtrace := he1
      intro e hem
      rcases hshape with h | ⟨t, a, b, c, d', h⟩
      · have : more = evs := List.append_cancel_right (h.symm.trans he1')
        exact he2 e (this ▸ hem)
      · have : (.snap t a b c d' :: more) = evs := List.append_cancel_right
          (by rw [← he1', h])
        exact he2 e (this ▸ List.mem_cons_of_mem _ hem)
  have hquiet' : (cleanOf st.rtrace).quiet = true → QuietOrHalted (doWait cfg d st) := by
    intro hq
    rcases hi.quiet hq with hhalt | ⟨hs, ht⟩
    · exact absurd hhalt hh
    · obtain ⟨a, b, _, _⟩ := quiet_no_req cfg 0 st hs ht hh' (.wait d) (by intro a; simp)
      exact Or.inr ⟨a, b⟩
  obtain ⟨f1, f2, f3⟩ := clean_fold_task more hm (cleanOf st.rtrace) hi.pend hnoreq
  rcases hshape with h | ⟨t, a, b, c, d', h⟩
  · refine ⟨?_, ?_, ?_⟩
    · rw [h, cleanOf_append]; exact f3 hi.bad
    · rw [h, cleanOf_append]; exact f1
    · rw [h, cleanOf_append, f2]; exact hquiet'
  · have hcons : cleanOf (doWait cfg d st).rtrace = more.foldr (fun e m => cleanStep m e) (cleanOf st.rtrace) := by
      rw [h]
      have : cleanOf (.snap t a b c d' :: more ++ st.rtrace) = cleanStep (cleanOf (more ++ st.rtrace)) (.snap t a b c d') := rfl
      rw [this, cleanOf_append, clean_snap_nopend _ f1]
    refine ⟨?_, ?_, ?_⟩
    · rw [hcons]; exact f3 hi.bad
    · rw [hcons]; exact f1
    · rw [hcons, f2]; exact hquiet'

theorem cleanOf_cons (e : Ev) (rt : List Ev) : cleanOf (e :: rt) = cleanStep (cleanOf rt) e := rfl

theorem cleanInv_unsub (cfg : Cfg) (hd : cfg.delEarly = false) (hs : cfg.skipStale = false) (st : St)
    (h : Core st) (ht : TaskOk st) (hi : CleanInv st) : CleanInv (doUnsub cfg st) := by
  by_cases hh : st.halted = true
  · have : doUnsub cfg st = st := by simp [doUnsub, hh]
    rw [this]; exact hi
  have hh' : st.halted = false := by simpa using hh
  obtain ⟨sevs, hsev, hS, hcase⟩ := doUnsub_shape cfg hd st h ht hh'
  have hnohalt : (settle cfg (st.emit (.call st.now .unsub))).halted = false := by
    rw [settle_halted cfg hs (st.emit (.call st.now .unsub)) h.subsNodup]; exact hh'
  rcases hcase with ⟨hbad, _⟩ | ⟨_, ureqs, t, av, hkinds, htr⟩
  · rw [hnohalt] at hbad; cases hbad
  -- while quiet nothing is sent
  have hnoreq : (cleanOf st.rtrace).quiet = true → (∀ e ∈ sevs, e.isReq = false) ∧ ureqs = [] := by
    intro hq
    rcases hi.quiet hq with hhalt | ⟨hs', ht'⟩
    · exact absurd hhalt hh
    · obtain ⟨_, _, _, evs, he1, he2⟩ := quiet_no_req cfg 0 st hs' ht' hh' .unsub (by intro a; simp)
      have he1' : (doUnsub cfg st).rtrace = evs ++ st.rtrace := he1
      have heq : (Ev.snap t [] [] false av :: Ev.ret t .unsub none :: (ureqs.reverse.map Ev.req) ++ sevs ++ [Ev.call st.now .unsub]) = evs := by
        apply List.append_cancel_right (bs := st.rtrace)
        rw [← he1', htr]; simp
      refine ⟨?_, ?_⟩
      · intro e he
        apply he2 e; rw [← heq]; simp [he]
      · cases hu : ureqs.reverse with
        | nil => simpa using hu
        | cons r rest =>
          exfalso
          have : Ev.req r ∈ evs := by rw [← heq, hu]; simp
          have := he2 _ this
          simp [Ev.isReq] at this
  -- fold the monitor over the appended events, oldest first
  have hcall : cleanOf (Ev.call st.now .unsub :: st.rtrace) = cleanOf st.rtrace := by
    rw [cleanOf_cons]; simp [cleanStep, hi.pend]
  obtain ⟨a1, a2, a3⟩ := clean_fold_task sevs hsev (cleanOf st.rtrace) hi.pend (fun hq => (hnoreq hq).1)
  generalize hm1 : sevs.foldr (fun e m => cleanStep m e) (cleanOf st.rtrace) = m1 at a1 a2 a3
  obtain ⟨b1, b2, b3⟩ := clean_fold_task (ureqs.reverse.map Ev.req) (reqs_taskEvs _) m1 a1
    (fun hq => by rw [(hnoreq (a2 ▸ hq)).2]; simp)
  generalize hm2 : (ureqs.reverse.map Ev.req).foldr (fun e m => cleanStep m e) m1 = m2 at b1 b2 b3
  have hfold : cleanOf (doUnsub cfg st).rtrace
      = cleanStep (cleanStep m2 (.ret t .unsub none)) (.snap t [] [] false av) := by
    rw [htr]
    have : (Ev.snap t [] [] false av :: Ev.ret t .unsub none :: (ureqs.reverse.map Ev.req) ++ sevs ++ Ev.call st.now .unsub :: st.rtrace)
        = Ev.snap t [] [] false av :: Ev.ret t .unsub none :: ((ureqs.reverse.map Ev.req) ++ (sevs ++ Ev.call st.now .unsub :: st.rtrace)) := by
      simp
    rw [this, cleanOf_cons, cleanOf_cons, cleanOf_append, cleanOf_append, hcall, hm1, hm2]
  have hret : cleanStep m2 (.ret t .unsub none) = { m2 with pend := true, quiet := true } := by
    simp [cleanStep, b1]
  have hclean := doUnsub_clean cfg hd st h ht (by
    unfold doUnsub
    simp only [hh', Bool.false_eq_true, if_false, hnohalt]
    show (unsubscribeServices _).halted = false
    have hc := (settle_core cfg hd _ (h.emit (.call st.now .unsub)) (by simpa [TaskOk, St.emit] using ht)).1
    rw [(unsubscribeServices_clean _ hc).2.2.2.1]; exact hnohalt)
  refine ⟨?_, ?_, fun _ => Or.inr ⟨hclean.1, hclean.2.2⟩⟩
  · rw [hfold, hret]
    simp only [cleanStep, if_true, cleanSnap, List.isEmpty_nil, Bool.not_false, List.all_nil, Bool.and_self, flagged]
    exact b3 (a3 hi.bad)
  · rw [hfold, hret]
    simp [cleanStep]

theorem cleanInv_sub (cfg : Cfg) (n : Nat) (auto : Bool) (st : St) (h : Core st) (hi : CleanInv st) :
    CleanInv (doSub cfg n auto st) := by
  by_cases hpre : (st.halted || !st.subs.isEmpty || st.task.alive) = true
  · have : doSub cfg n auto st = st := by simp only [doSub, hpre, if_true]
    rw [this]; exact hi
  have hpre' : st.halted = false ∧ st.subs = [] ∧ st.task.alive = false := by
    simp only [Bool.or_eq_true, not_or, Bool.not_eq_true, Bool.not_eq_true'] at hpre
    refine ⟨hpre.1.1, ?_, hpre.2⟩
    have := hpre.1.2
    simpa using this
  obtain ⟨reqs, res, t, subs, routed, task, av, htr, _, _⟩ := all_or_nothing_shape cfg n auto st h hpre'.1 hpre'.2.1 hpre'.2.2
  -- after `call sub` the monitor is not quiet; requests are then harmless
  have hcall : cleanOf (Ev.call st.now (.sub auto) :: st.rtrace) = { cleanOf st.rtrace with quiet := false } := by
    rw [cleanOf_cons]; simp [cleanStep, hi.pend]
  obtain ⟨b1, b2, b3⟩ := clean_fold_task (reqs.reverse.map Ev.req) (reqs_taskEvs _)
    { cleanOf st.rtrace with quiet := false } hi.pend (by intro hq; simp at hq)
  generalize hm2 : (reqs.reverse.map Ev.req).foldr (fun e m => cleanStep m e) { cleanOf st.rtrace with quiet := false } = m2 at b1 b2 b3
  have hfold : cleanOf (doSub cfg n auto st).rtrace = m2 := by
    rw [htr]
    have : (Ev.snap t subs routed task av :: Ev.ret t (.sub auto) res :: (reqs.reverse.map Ev.req) ++ Ev.call st.now (.sub auto) :: st.rtrace)
        = Ev.snap t subs routed task av :: Ev.ret t (.sub auto) res :: ((reqs.reverse.map Ev.req) ++ Ev.call st.now (.sub auto) :: st.rtrace) := by
      simp
    rw [this, cleanOf_cons, cleanOf_cons, cleanOf_append, hcall, hm2]
    have hret : cleanStep m2 (.ret t (.sub auto) res) = m2 := by simp [cleanStep, b1]
    rw [hret, clean_snap_nopend _ b1]
  refine ⟨by rw [hfold]; exact b3 hi.bad, by rw [hfold]; exact b1, ?_⟩
  rw [hfold, b2]; intro hq; simp at hq

/-! ### all-or-nothing clause -/

def Ev.isSubCallRet : Ev → Bool
  | .call _ (.sub _) | .ret _ (.sub _) _ => true
  | _ => false

theorem aon_idle_step (m : AonMon) (hp : m.pend = none) (hi : m.inSub = false) (e : Ev) (he : e.isSubCallRet = false) :
    aonStep m e = m := by
  cases e with
  | req r => simp [aonStep, hp, hi]
  | cb t a b c => simp [aonStep, hp]
  | spin t => simp [aonStep, hp]
  | snap t a b c d => simp [aonStep, hp]
  | call t c => cases c with
    | sub a => simp [Ev.isSubCallRet] at he
    | unsub => simp [aonStep, hp]
  | ret t c res => cases c with
    | sub a => simp [Ev.isSubCallRet] at he
    | unsub => simp [aonStep, hp]

theorem aon_idle_fold (evs : List Ev) (hev : ∀ e ∈ evs, e.isSubCallRet = false) (m : AonMon)
    (hp : m.pend = none) (hi : m.inSub = false) : evs.foldr (fun e m => aonStep m e) m = m := by
  induction evs with
  | nil => rfl
  | cons e r ih =>
    simp only [List.foldr_cons]
    rw [ih (fun x hx => hev x (List.mem_cons_of_mem _ hx))]
    exact aon_idle_step m hp hi e (hev e List.mem_cons_self)

theorem aon_collect (l : List Req) (m : AonMon) (hp : m.pend = none) (hi : m.inSub = true) :
    (l.map Ev.req).foldr (fun e m => aonStep m e) m = { m with reqs := l ++ m.reqs } := by
  induction l with
  | nil => rfl
  | cons r rest ih =>
    simp only [List.map_cons, List.foldr_cons, ih]
    simp [aonStep, hp, hi]

structure AonInv (n : Nat) (st : St) : Prop where
  bad : (aonOf n st.rtrace).bad = []
  pend : (aonOf n st.rtrace).pend = none
  idle : (aonOf n st.rtrace).inSub = false
  nEq : (aonOf n st.rtrace).n = n

theorem AonInv.init (n : Nat) (script : List Entry) (dflt : Entry) : AonInv n (init script dflt) :=
  ⟨rfl, rfl, rfl, rfl⟩

theorem taskEv_not_subCallRet (e : Ev) (h : e.isTaskEv = true) : e.isSubCallRet = false := by
  cases e <;> simp_all [Ev.isTaskEv, Ev.isSubCallRet]

theorem aonOf_cons (n : Nat) (e : Ev) (rt : List Ev) : aonOf n (e :: rt) = aonStep (aonOf n rt) e := rfl

theorem aonInv_of_idle (n : Nat) (st st' : St) (hi : AonInv n st) (evs : List Ev) (htr : st'.rtrace = evs ++ st.rtrace)
    (hev : ∀ e ∈ evs, e.isSubCallRet = false) : AonInv n st' := by
  have : aonOf n st'.rtrace = aonOf n st.rtrace := by
    rw [htr, aonOf_append, aon_idle_fold evs hev _ hi.pend hi.idle]
  exact ⟨by rw [this]; exact hi.bad, by rw [this]; exact hi.pend, by rw [this]; exact hi.idle, by rw [this]; exact hi.nEq⟩

theorem aonInv_wait (cfg : Cfg) (n d : Nat) (st : St) (hi : AonInv n st) : AonInv n (doWait cfg d st) := by
  obtain ⟨more, hm, hshape⟩ := doWait_shape cfg d st
  rcases hshape with h | ⟨t, a, b, c, d', h⟩
  · exact aonInv_of_idle n st _ hi more h (fun e he => taskEv_not_subCallRet e (hm e he))
  · refine aonInv_of_idle n st _ hi (.snap t a b c d' :: more) (by rw [h]) ?_
    intro e he
    rcases List.mem_cons.1 he with rfl | he
    · rfl
    · exact taskEv_not_subCallRet e (hm e he)

theorem aonInv_unsub (cfg : Cfg) (hd : cfg.delEarly = false) (n : Nat) (st : St) (h : Core st) (ht : TaskOk st)
    (hi : AonInv n st) : AonInv n (doUnsub cfg st) := by
  by_cases hh : st.halted = true
  · have : doUnsub cfg st = st := by simp [doUnsub, hh]
    rw [this]; exact hi
  have hh' : st.halted = false := by simpa using hh
  obtain ⟨sevs, hsev, hS, hcase⟩ := doUnsub_shape cfg hd st h ht hh'
  rcases hcase with ⟨_, heq⟩ | ⟨_, ureqs, t, av, _, htr⟩
  · refine aonInv_of_idle n st _ hi (sevs ++ [.call st.now .unsub]) (by rw [heq, hS]; simp) ?_
    intro e he
    rcases List.mem_append.1 he with he | he
    · exact taskEv_not_subCallRet e (hsev e he)
    · simp at he; subst he; rfl
  · refine aonInv_of_idle n st _ hi
      (.snap t [] [] false av :: .ret t .unsub none :: (ureqs.reverse.map Ev.req) ++ sevs ++ [.call st.now .unsub])
      (by rw [htr]; simp) ?_
    intro e he
    simp only [List.cons_append, List.mem_cons, List.mem_append, List.mem_singleton, List.append_assoc] at he
    rcases he with rfl | rfl | he | he | he
    · rfl
    · rfl
    · exact taskEv_not_subCallRet e (reqs_taskEvs _ e he)
    · exact taskEv_not_subCallRet e (hsev e he)
    · rcases he with rfl | he
      · rfl
      · simp at he

theorem aonInv_sub (cfg : Cfg) (n : Nat) (auto : Bool) (st : St) (h : Core st) (hi : AonInv n st) :
    AonInv n (doSub cfg n auto st) := by
  by_cases hpre : (st.halted || !st.subs.isEmpty || st.task.alive) = true
  · have : doSub cfg n auto st = st := by simp only [doSub, hpre, if_true]
    rw [this]; exact hi
  have hpre' : st.halted = false ∧ st.subs = [] ∧ st.task.alive = false := by
    simp only [Bool.or_eq_true, not_or, Bool.not_eq_true, Bool.not_eq_true'] at hpre
    refine ⟨hpre.1.1, ?_, hpre.2⟩
    have := hpre.1.2
    simpa using this
  obtain ⟨reqs, res, t, subs, routed, task, av, htr, hok, hfail⟩ :=
    all_or_nothing_shape cfg n auto st h hpre'.1 hpre'.2.1 hpre'.2.2
  have hcall : aonOf n (Ev.call st.now (.sub auto) :: st.rtrace) = { aonOf n st.rtrace with inSub := true, reqs := [] } := by
    rw [aonOf_cons]; simp [aonStep, hi.pend]
  have hcoll := aon_collect reqs.reverse { aonOf n st.rtrace with inSub := true, reqs := [] } hi.pend rfl
  have hfold : aonOf n (doSub cfg n auto st).rtrace
      = aonStep (aonStep { aonOf n st.rtrace with inSub := true, reqs := reqs.reverse } (.ret t (.sub auto) res))
          (.snap t subs routed task av) := by
    rw [htr]
    have : (Ev.snap t subs routed task av :: Ev.ret t (.sub auto) res :: (reqs.reverse.map Ev.req) ++ Ev.call st.now (.sub auto) :: st.rtrace)
        = Ev.snap t subs routed task av :: Ev.ret t (.sub auto) res :: ((reqs.reverse.map Ev.req) ++ Ev.call st.now (.sub auto) :: st.rtrace) := by
      simp
    rw [this, aonOf_cons, aonOf_cons, aonOf_append, hcall, hcoll]
    simp
  have hret : aonStep { aonOf n st.rtrace with inSub := true, reqs := reqs.reverse } (.ret t (.sub auto) res)
      = { aonOf n st.rtrace with inSub := false, reqs := reqs.reverse, pend := some res } := by
    simp [aonStep, hi.pend]
  rw [hret] at hfold
  cases res with
  | none =>
    have := hok rfl
    refine ⟨?_, ?_, ?_, ?_⟩ <;> rw [hfold] <;> simp [aonStep, flagged, hi.nEq, this, hi.bad]
  | some e =>
    have := hfail (by simp)
    refine ⟨?_, ?_, ?_, ?_⟩ <;> rw [hfold] <;> simp [aonStep, flagged, hi.nEq, this, hi.bad]

end Upnp.C12
