/-
  C12 — helper lemmas about the caller operations (`doUnsub`, `doSub`) and reachability.
-/
import Upnp.Lemmas.C12Emit
namespace Upnp.C12
open Upnp PyDict

def TaskPc.isInflight : TaskPc → Bool
  | .inflight .. => true
  | _ => false

theorem taskOk_of_not_inflight (st : St) (h : st.task.isInflight = false) : TaskOk st := by
  unfold TaskOk
  cases ht : st.task <;> simp_all [TaskPc.isInflight]

theorem startTask_not_inflight (cfg : Cfg) (t : TaskPc) (h : t.alive = false) : (startTask cfg t).isInflight = false := by
  cases t <;> simp_all [TaskPc.alive, startTask, TaskPc.isInflight]
  cases cfg.clearDone <;> rfl

theorem not_inflight_of_not_alive (t : TaskPc) (h : t.alive = false) : t.isInflight = false := by
  cases t <;> simp_all [TaskPc.alive, TaskPc.isInflight]

theorem taskOk_of_none (st : St) (h : st.task = .none) : TaskOk st := by
  simp [TaskOk, h]

theorem settle_core (cfg : Cfg) (hd : cfg.delEarly = false) (st : St) (h : Core st) (ht : TaskOk st) :
    Core (settle cfg st) ∧ TaskOk (settle cfg st) := by
  unfold settle
  split
  · exact runHead_core cfg hd _ _ h
  · exact ⟨h, ht⟩

theorem settle_halted (cfg : Cfg) (hs : cfg.skipStale = false) (st : St) (hn : (keys st.subs).Nodup) :
    (settle cfg st).halted = st.halted := by
  unfold settle
  split
  · exact runHead_no_spin cfg hs _ st hn
  · rfl

theorem sortSids_nil : sortSids [] = [] := rfl

/-- `doUnsub` from any consistent state ends with empty bookkeeping, empty routing table, no task -/
theorem doUnsub_clean (cfg : Cfg) (hd : cfg.delEarly = false) (st : St) (h : Core st) (ht : TaskOk st)
    (hh : (doUnsub cfg st).halted = false) :
    (doUnsub cfg st).subs = [] ∧ (doUnsub cfg st).routed = [] ∧ (doUnsub cfg st).task = .none := by
  unfold doUnsub at hh ⊢
  split
  · rename_i h1; simp [h1] at hh
  · rename_i h1
    simp only [h1, Bool.false_eq_true, if_false] at hh
    dsimp only at hh ⊢
    split
    · rename_i h2; simp [h2] at hh
    · have hc := (settle_core cfg hd _ (h.emit (.call st.now .unsub)) (by simpa [TaskOk, St.emit] using ht)).1
      have := unsubscribeServices_clean _ hc
      simp only [St.snap, St.emit]
      exact ⟨this.1, this.2.1, this.2.2.1⟩

theorem doUnsub_core (cfg : Cfg) (hd : cfg.delEarly = false) (st : St) (h : Core st) (ht : TaskOk st) :
    Core (doUnsub cfg st) ∧ TaskOk (doUnsub cfg st) := by
  unfold doUnsub
  have hs := settle_core cfg hd _ (h.emit (.call st.now .unsub)) (by simpa [TaskOk, St.emit] using ht)
  split
  · exact ⟨h, ht⟩
  · dsimp only
    split
    · exact hs
    · have := unsubscribeServices_clean _ hs.1
      refine ⟨core_of_empty _ ?_ ?_, ?_⟩
      · simp only [St.snap, St.emit]; exact this.1
      · simp only [St.snap, St.emit]; exact this.2.1
      · exact taskOk_of_none _ this.2.2.1

/-! ### the subscribe loop -/

theorem subLoop_core (cfg : Cfg) (now0 : Time) (l : List Nat) :
    ∀ st : St, Core st → Core (subLoop cfg now0 l st).1 ∧ (subLoop cfg now0 l st).1.task = st.task
      ∧ (subLoop cfg now0 l st).1.halted = st.halted := by
  induction l with
  | nil => intro st h; exact ⟨h, rfl, rfl⟩
  | cons i rest ih =>
    intro st h
    simp only [subLoop]
    split
    · rename_i hacc
      have hg := send_sub_granted st i hacc
      have hc : Core { (send st .sub i none).2 with now := (send st .sub i none).2.now + ((send st .sub i none).1.lat : Int) } :=
        (h.send .sub i none).setNow _
      have := ih _ (hc.grantNew ((send st .sub i none).1.granted.getD 0) i
          (now0 + ms ((send st .sub i none).1.tmo.secs cfg)) (by
            show (send st .sub i none).1.granted.getD 0 < (send st .sub i none).2.nextSid
            rw [hg.1, hg.2]; exact Nat.lt_succ_self _))
      exact ⟨this.1, this.2.1, this.2.2⟩
    · exact ⟨(h.send .sub i none).setNow _, rfl, rfl⟩

theorem doSub_core (cfg : Cfg) (n : Nat) (auto : Bool) (st : St) (h : Core st) (ht : TaskOk st) :
    Core (doSub cfg n auto st) ∧ TaskOk (doSub cfg n auto st) := by
  unfold doSub
  split
  · exact ⟨h, ht⟩
  · rename_i hpre
    have hl := subLoop_core cfg st.now (List.range n) (st.emit (.call st.now (.sub auto))) (h.emit _)
    simp only []
    split
    · rename_i e he
      have := unsubscribeServices_clean _ hl.1
      refine ⟨core_of_empty _ ?_ ?_, ?_⟩
      · simp only [St.snap, St.emit]; exact this.1
      · simp only [St.snap, St.emit]; exact this.2.1
      · exact taskOk_of_none _ this.2.2.1
    · refine ⟨?_, ?_⟩
      · split
        · exact (hl.1.emit _).snap
        · exact ⟨hl.1.subsNodup, hl.1.routedNodup, hl.1.routedSub, hl.1.subsLt⟩
      · have halive : st.task.alive = false := by
          simp only [Bool.or_eq_true, not_or] at hpre
          simpa using hpre.2
        have htask : (subLoop cfg st.now (List.range n) (st.emit (.call st.now (.sub auto)))).1.task = st.task := hl.2.1
        split
        · apply taskOk_of_not_inflight
          show (subLoop cfg st.now (List.range n) (st.emit (.call st.now (.sub auto)))).1.task.isInflight = false
          rw [htask]; exact not_inflight_of_not_alive _ halive
        · apply taskOk_of_not_inflight
          show (startTask cfg (subLoop cfg st.now (List.range n) (st.emit (.call st.now (.sub auto)))).1.task).isInflight = false
          rw [htask]; exact startTask_not_inflight cfg _ halive

theorem step_core (cfg : Cfg) (hd : cfg.delEarly = false) (n : Nat) (st : St) (op : Op) (h : Core st) (ht : TaskOk st) :
    Core (step cfg n st op) ∧ TaskOk (step cfg n st op) := by
  cases op with
  | sub auto => exact doSub_core cfg n auto st h ht
  | wait d => exact doWait_core cfg hd d st h ht
  | unsub => exact doUnsub_core cfg hd st h ht

/-- every state reachable by caller operations is consistent -/
theorem run_core (cfg : Cfg) (hd : cfg.delEarly = false) (n : Nat) (script : List Entry) (dflt : Entry) (ops : List Op) :
    Core (run cfg n script dflt ops) ∧ TaskOk (run cfg n script dflt ops) := by
  unfold run
  suffices H : ∀ st, Core st → TaskOk st → Core (ops.foldl (step cfg n) st) ∧ TaskOk (ops.foldl (step cfg n) st) from
    H _ (Core.init script dflt) (by simp [TaskOk, init])
  induction ops with
  | nil => intro st h ht; exact ⟨h, ht⟩
  | cons op r ih =>
    intro st h ht
    have := step_core cfg hd n st op h ht
    exact ih _ this.1 this.2

end Upnp.C12
