/-
  C12 — helper lemmas for `renew_before_expiry`: the wake-up margin of the loop, what a round step
  sends, and the calm-round invariant.
-/
import Upnp.Lemmas.C12Ops
namespace Upnp.C12
open Upnp PyDict

theorem minTime_le (l : List Time) : ∀ m : Time, minTime m l ≤ m ∧ ∀ x ∈ l, minTime m l ≤ x := by
  induction l with
  | nil => intro m; exact ⟨Int.le_refl _, by simp⟩
  | cons a r ih =>
    intro m
    simp only [minTime]
    have h := ih (if a < m then a else m)
    refine ⟨?_, ?_⟩
    · have := h.1; unfold Time at *; split at this <;> omega
    · intro x hx
      rcases List.mem_cons.1 hx with rfl | hx
      · have := h.1; unfold Time at *; split at this <;> omega
      · exact h.2 x hx

/-- the branch of the loop head that sleeps: wake-up time and margin -/
theorem head_sleep_margin (cfg : Cfg) (st : St) (p : Sid × Time) (ps : List (Sid × Time)) (hs : st.subs = p :: ps)
    (hw : minTime p.2 (values ps) - st.now - ms cfg.tol > 0) :
    ∀ q ∈ st.subs, (st.now + (minTime p.2 (values ps) - st.now - ms cfg.tol)) + ms cfg.tol ≤ q.2 := by
  intro q hq
  rw [hs] at hq
  have hm := minTime_le (values ps) p.2
  rcases List.mem_cons.1 hq with rfl | hq
  · have := hm.1; unfold Time at *; omega
  · have : q.2 ∈ values ps := List.mem_map_of_mem hq
    have := hm.2 _ this; unfold Time at *; omega

/-- what `roundStep` sends when it stops at an await (no stale-skip, late delete) -/
theorem roundStep_request (cfg : Cfg) (hs : cfg.skipStale = false) (hd : cfg.delEarly = false) (rnow : Time)
    (q : List (Sid × Time)) :
    ∀ st : St, (roundStep cfg rnow q st).2 = true →
      ∃ (sid : Sid) (rt : Time) (svc : Nat) (q' : List (Sid × Time)) (r : Req),
        (sid, rt) ∈ q ∧ q'.length < q.length ∧ (∀ p ∈ q', p ∈ q)
        ∧ (roundStep cfg rnow q st).1.rtrace = .req r :: st.rtrace
        ∧ r.kind = .renew ∧ r.sid = some sid ∧ r.t = st.now
        ∧ r.reac = (st.script.headD st.dflt).reac ∧ r.lat = (st.script.headD st.dflt).lat
        ∧ (roundStep cfg rnow q st).1.task = .inflight rnow q' sid svc false (st.now + (r.lat : Int)) r.reac r.tmo r.granted
        ∧ (roundStep cfg rnow q st).1.script = st.script.tail ∧ (roundStep cfg rnow q st).1.dflt = st.dflt
        ∧ (roundStep cfg rnow q st).1.now = st.now := by
  induction q with
  | nil => intro st h; simp [roundStep] at h
  | cons p rest ih =>
    intro st
    obtain ⟨sid, rt⟩ := p
    simp only [roundStep, hs, Bool.false_and, Bool.false_eq_true, if_false, hd]
    split
    · intro h
      obtain ⟨sid', rt', svc, q', r, h1, h2, h2', h3, h4, h5, h6, h7, h8, h9, h10, h11, h12⟩ := ih _ h
      exact ⟨sid', rt', svc, q', r, List.mem_cons_of_mem _ h1, by simp at h2 ⊢; omega,
        fun p hp => List.mem_cons_of_mem _ (h2' p hp), h3, h4, h5, h6, h7, h8, h9, h10, h11, h12⟩
    · rename_i svc _
      intro _
      exact ⟨sid, rt, svc, rest, (send st .renew svc (some sid)).1, List.mem_cons_self, by simp,
        fun p hp => List.mem_cons_of_mem _ hp, rfl, rfl, rfl, rfl, rfl, rfl, rfl, rfl, rfl, rfl⟩

/-- the next `k` reactions accept and their latencies add up to less than `budget` ms -/
def calmNext : Nat → List Entry → Entry → Int → Prop
  | 0, _, _, budget => 0 < budget
  | k + 1, script, dflt, budget =>
      (script.headD dflt).reac.accepts = true ∧ calmNext k script.tail dflt (budget - ((script.headD dflt).lat : Int))

theorem calmNext_mono : ∀ (k : Nat) (script : List Entry) (dflt : Entry) (b : Int),
    calmNext (k + 1) script dflt b → calmNext k script dflt b := by
  intro k
  induction k with
  | zero =>
    intro script dflt b h
    simp only [calmNext] at h ⊢
    have : (0 : Int) ≤ ((script.headD dflt).lat : Int) := Int.natCast_nonneg _
    omega
  | succ k ih =>
    intro script dflt b h
    exact ⟨h.1, ih _ _ _ h.2⟩

theorem calmNext_le (k j : Nat) (hj : j ≤ k) (script : List Entry) (dflt : Entry) (b : Int)
    (h : calmNext k script dflt b) : calmNext j script dflt b := by
  induction k with
  | zero => have : j = 0 := by omega
            subst this; exact h
  | succ k ih =>
    by_cases e : j = k + 1
    · subst e; exact h
    · exact ih (by omega) (calmNext_mono k script dflt b h)

theorem calmNext_pos (k : Nat) (script : List Entry) (dflt : Entry) (b : Int) (h : calmNext k script dflt b) : 0 < b :=
  calmNext_le k 0 (Nat.zero_le _) script dflt b h

/-- **calm-round invariant**: a renewal is in flight whose reply arrives with budget to spare, the
    remaining reactions of the round accept within that budget, and every deadline still to be renewed
    lies at least the tolerance after the start of the round -/
def RoundInv (cfg : Cfg) (st : St) : Prop :=
  match st.task with
  | .inflight rnow queue _ _ fb replyAt reac _ _ =>
      fb = false ∧ reac.accepts = true ∧ rnow ≤ replyAt
      ∧ calmNext queue.length st.script st.dflt (rnow + ms cfg.tol - replyAt)
      ∧ ∀ p ∈ queue, rnow + ms cfg.tol ≤ p.2
  | _ => False

/-- from a state whose next `k+1` reactions are calm, after one request the remaining `j ≤ k` are calm
    within the budget that is left -/
theorem calmNext_step (k j : Nat) (hj : j ≤ k) (script : List Entry) (dflt : Entry) (b : Int)
    (h : calmNext (k + 1) script dflt b) :
    (script.headD dflt).reac.accepts = true ∧ calmNext j script.tail dflt (b - ((script.headD dflt).lat : Int)) :=
  ⟨h.1, calmNext_le k j hj _ _ _ h.2⟩

/-- the round step establishes / re-establishes the calm-round invariant and sends its request at the
    current time -/
theorem roundStep_calm (cfg : Cfg) (hs : cfg.skipStale = false) (hd : cfg.delEarly = false) (rnow : Time)
    (q : List (Sid × Time)) (st : St) (haw : (roundStep cfg rnow q st).2 = true)
    (hm : ∀ p ∈ q, rnow + ms cfg.tol ≤ p.2) (hnow : rnow ≤ st.now)
    (hc : calmNext q.length st.script st.dflt (rnow + ms cfg.tol - st.now)) :
    RoundInv cfg (roundStep cfg rnow q st).1
    ∧ ∃ (r : Req) (sid : Sid) (rt : Time), (roundStep cfg rnow q st).1.rtrace = .req r :: st.rtrace
        ∧ r.kind = .renew ∧ r.sid = some sid ∧ (sid, rt) ∈ q ∧ r.t = st.now ∧ rnow + ms cfg.tol ≤ rt := by
  obtain ⟨sid, rt, svc, q', r, h1, h2, h2', h3, h4, h5, h6, h7, h8, h9, h10, h11, h12⟩ :=
    roundStep_request cfg hs hd rnow q st haw
  obtain ⟨k, hk⟩ : ∃ k, q.length = k + 1 := ⟨q.length - 1, by omega⟩
  rw [hk] at hc
  have hstep := calmNext_step k q'.length (by omega) st.script st.dflt _ hc
  refine ⟨?_, r, sid, rt, h3, h4, h5, h1, h6, hm _ h1⟩
  unfold RoundInv
  rw [h9]
  refine ⟨rfl, by rw [h7]; exact hstep.1, ?_, ?_, fun p hp => hm p (h2' p hp)⟩
  · have : (0 : Int) ≤ (r.lat : Int) := Int.natCast_nonneg _
    unfold Time at *; omega
  rw [h10, h11, h8]
  have he : rnow + ms cfg.tol - (st.now + ((st.script.headD st.dflt).lat : Int))
      = rnow + ms cfg.tol - st.now - ((st.script.headD st.dflt).lat : Int) := by
    unfold Time at *; omega
  rw [he]; exact hstep.2

end Upnp.C12
