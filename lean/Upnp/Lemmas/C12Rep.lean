/-
  C12 — helper lemmas for `report_trace`: the precise outcome of one run of the renewal task to its next
  await, and the report-clause monitor `repMon` folded over it.
-/
import Upnp.Lemmas.C12Mon
namespace Upnp.C12
open Upnp PyDict

/-- what running the task from a ready point to its next await does to the observable part of the state -/
inductive Outcome (old new : St) : Prop where
  /-- nothing emitted: the loop ended or went to sleep -/
  | quiet (htr : new.rtrace = old.rtrace) (htask : new.task.isInflight = false) (hh : new.halted = old.halted)
      (hav : new.avail = old.avail) (hnow : new.now = old.now)
  /-- the head fuel ran out -/
  | spun (t : Time) (htr : new.rtrace = .spin t :: old.rtrace) (htask : new.task = .done) (hh : new.halted = true)
      (hav : new.avail = old.avail) (hnow : new.now = old.now)
  /-- exactly one renewal request was sent and is now in flight -/
  | sent (r : Req) (rnow : Time) (q : List (Sid × Time)) (sid : Sid)
      (htr : new.rtrace = .req r :: old.rtrace) (hk : r.kind = .renew) (ht : r.t = old.now)
      (htask : new.task = .inflight rnow q sid r.svc false (old.now + (r.lat : Int)) r.reac r.tmo r.granted)
      (hh : new.halted = old.halted) (hav : new.avail = old.avail) (hnow : new.now = old.now)

/-- `roundStep`: either it sends one request (and awaits), or it changes nothing observable -/
theorem roundStep_outcome (cfg : Cfg) (hs : cfg.skipStale = false) (hd : cfg.delEarly = false) (rnow : Time)
    (q : List (Sid × Time)) :
    ∀ st : St, ((roundStep cfg rnow q st).2 = true ∧
        ∃ (r : Req) (q' : List (Sid × Time)) (sid : Sid),
          (roundStep cfg rnow q st).1.rtrace = .req r :: st.rtrace ∧ r.kind = .renew ∧ r.t = st.now
          ∧ (roundStep cfg rnow q st).1.task = .inflight rnow q' sid r.svc false (st.now + (r.lat : Int)) r.reac r.tmo r.granted)
      ∨ ((roundStep cfg rnow q st).2 = false ∧ (roundStep cfg rnow q st).1.rtrace = st.rtrace
          ∧ (roundStep cfg rnow q st).1.task = st.task) := by
  induction q with
  | nil => intro st; right; simp [roundStep]
  | cons p rest ih =>
    intro st
    obtain ⟨sid, rt⟩ := p
    simp only [roundStep, hs, Bool.false_and, Bool.false_eq_true, if_false, hd]
    split
    · rcases ih { st with subs := erase st.subs sid } with ⟨h1, r, q', sid', h2, h3, h4, h5⟩ | ⟨h1, h2, h3⟩
      · left; exact ⟨h1, r, q', sid', h2, h3, h4, h5⟩
      · right; exact ⟨h1, h2, h3⟩
    · rename_i svc _
      left
      exact ⟨rfl, (send st .renew svc (some sid)).1, rest, sid, rfl, rfl, rfl, rfl⟩

theorem runHead_outcome (cfg : Cfg) (hs : cfg.skipStale = false) (hd : cfg.delEarly = false) :
    ∀ (f : Nat) (st : St), Outcome st (runHead cfg f st) := by
  intro f
  induction f with
  | zero => intro st; exact .spun st.now rfl rfl rfl rfl rfl
  | succ f ih =>
    intro st
    simp only [runHead]
    split
    · exact .quiet rfl rfl rfl rfl rfl
    · split
      · exact .quiet rfl rfl rfl rfl rfl
      · have hf := roundStep_frame cfg st.now st.subs st
        rcases roundStep_outcome cfg hs hd st.now st.subs st with ⟨h1, r, q', sid', h2, h3, h4, h5⟩ | ⟨h1, h2, h3⟩
        · simp only [h1, if_true]
          exact .sent r st.now q' sid' h2 h3 h4 h5 hf.1 hf.2.2.1 hf.2.1
        · simp only [h1, Bool.false_eq_true, if_false]
          -- nothing happened in the round: continue from a state that looks the same from outside
          have := ih (roundStep cfg st.now st.subs st).1
          cases this with
          | quiet a b c d e => exact .quiet (by rw [a, h2]) b (by rw [c, hf.1]) (by rw [d, hf.2.2.1]) (by rw [e, hf.2.1])
          | spun t a b c d e => exact .spun t (by rw [a, h2]) b c (by rw [d, hf.2.2.1]) (by rw [e, hf.2.1])
          | sent r rn q s a b c d e f' g =>
            exact .sent r rn q s (by rw [a, h2]) b (by rw [c, hf.2.1]) (by rw [d, hf.2.1]) (by rw [e, hf.1])
              (by rw [f', hf.2.2.1]) (by rw [g, hf.2.1])

/-- continuing a round after a reply (and possibly the loop head) -/
theorem cont_outcome (cfg : Cfg) (hs : cfg.skipStale = false) (hd : cfg.delEarly = false) (rnow : Time)
    (rest : List (Sid × Time)) (st : St) :
    Outcome st (if (roundStep cfg rnow rest st).2 = true then (roundStep cfg rnow rest st).1
          else runHead cfg (headFuel (roundStep cfg rnow rest st).1) (roundStep cfg rnow rest st).1) := by
  have hf := roundStep_frame cfg rnow rest st
  rcases roundStep_outcome cfg hs hd rnow rest st with ⟨h1, r, q', sid', h2, h3, h4, h5⟩ | ⟨h1, h2, h3⟩
  · simp only [h1, if_true]
    exact .sent r rnow q' sid' h2 h3 h4 h5 hf.1 hf.2.2.1 hf.2.1
  · simp only [h1, Bool.false_eq_true, if_false]
    have := runHead_outcome cfg hs hd (headFuel (roundStep cfg rnow rest st).1) (roundStep cfg rnow rest st).1
    cases this with
    | quiet a b c d e => exact .quiet (by rw [a, h2]) b (by rw [c, hf.1]) (by rw [d, hf.2.2.1]) (by rw [e, hf.2.1])
    | spun t a b c d e => exact .spun t (by rw [a, h2]) b c (by rw [d, hf.2.2.1]) (by rw [e, hf.2.1])
    | sent r rn q s a b c d e f' g =>
      exact .sent r rn q s (by rw [a, h2]) b (by rw [c, hf.2.1]) (by rw [d, hf.2.1]) (by rw [e, hf.1])
        (by rw [f', hf.2.2.1]) (by rw [g, hf.2.1])

/-! ### the report monitor over the model's trace -/

def repOf (rt : List Ev) : RepMon := rt.foldr (fun e m => repStep m e) {}

theorem repMon_trace (st : St) : repMon st.trace = repOf st.rtrace := by
  simp [repMon, St.trace, repOf, List.foldl_reverse]

theorem repOf_cons (e : Ev) (rt : List Ev) : repOf (e :: rt) = repStep (repOf rt) e := rfl

theorem repOf_append (evs rt : List Ev) :
    repOf (evs ++ rt) = evs.foldr (fun e m => repStep m e) (repOf rt) := by
  simp [repOf, List.foldr_append]

/-- what the monitor expects while a renewal (or its fall-back SUBSCRIBE) is in flight -/
def expect (svc : Nat) (fb : Bool) (reac : Reac) (avail : Bool) (due : Time) : RPend :=
  if reac.accepts then .none
  else if fb then .cbFor svc (avail && reac != .unreach) due
  else if reac == .unreach then .cbFor svc false due
  else .fallbackFor svc due

/-- the monitor's pending expectation mirrors the model's in-flight request -/
def PendRel (st : St) (p : RPend) : Prop :=
  match st.task with
  | .inflight _ _ _ svc fb replyAt reac _ _ => st.now ≤ replyAt ∧ p = expect svc fb reac st.avail replyAt
  | _ => p = .none

theorem pendRel_of_not_inflight (st : St) (h : st.task.isInflight = false) : PendRel st .none := by
  unfold PendRel
  cases ht : st.task <;> simp_all [TaskPc.isInflight]

/-- the monitor, folded over the trace so far, agrees with the model between two task steps -/
structure RepInv (st : St) : Prop where
  bad : (repOf st.rtrace).bad = []
  avail : (repOf st.rtrace).avail = st.avail
  idle : (repOf st.rtrace).inCall = false
  pend : PendRel st (repOf st.rtrace).pend

theorem RepInv.init (script : List Entry) (dflt : Entry) : RepInv (init script dflt) :=
  ⟨rfl, rfl, rfl, by simp [PendRel, C12.init, repOf]⟩

/-- a monitor state with nothing pending, outside a call, absorbs one task-step outcome -/
theorem rep_outcome (old new : St) (ho : Outcome old new) (m : RepMon) (hm : m = repOf old.rtrace)
    (hb : m.bad = []) (ha : m.avail = old.avail) (hi : m.inCall = false) (hp : m.pend = .none) : RepInv new := by
  subst hm
  cases ho with
  | quiet htr htask hh hav hnow =>
    exact ⟨by rw [htr]; exact hb, by rw [htr, hav]; exact ha, by rw [htr]; exact hi,
      by rw [htr, hp]; exact pendRel_of_not_inflight new htask⟩
  | spun t htr htask hh hav hnow =>
    have : repOf new.rtrace = repOf old.rtrace := by rw [htr, repOf_cons]; rfl
    exact ⟨by rw [this]; exact hb, by rw [this, hav]; exact ha, by rw [this]; exact hi,
      by rw [this, hp]; exact pendRel_of_not_inflight new (by rw [htask]; rfl)⟩
  | sent r rnow q sid htr hk ht htask hh hav hnow =>
    have hfold : repOf new.rtrace = repStep (repOf old.rtrace) (.req r) := by rw [htr, repOf_cons]
    have hdue : repDue (repOf old.rtrace) (.req r) = repOf old.rtrace := by simp [repDue, hp]
    have hlat : (0 : Int) ≤ (r.lat : Int) := Int.natCast_nonneg _
    have hle : new.now ≤ old.now + (r.lat : Int) := by rw [hnow]; unfold Time at *; omega
    have hpr : ∀ p, p = expect r.svc false r.reac new.avail (old.now + (r.lat : Int)) → PendRel new p := by
      intro p hpe
      unfold PendRel; rw [htask]; exact ⟨hle, hpe⟩
    by_cases hacc : r.reac.accepts = true
    · have hstep : repStep (repOf old.rtrace) (.req r) = repOf old.rtrace := by
        simp [repStep, hdue, hi, hk, hacc]
      rw [hstep] at hfold
      refine ⟨by rw [hfold]; exact hb, by rw [hfold, hav]; exact ha, by rw [hfold]; exact hi, ?_⟩
      rw [hfold, hp]
      exact hpr _ (by simp [expect, hacc])
    · have hacc' : r.reac.accepts = false := by simpa using hacc
      by_cases hun : (r.reac == Reac.unreach) = true
      · have hstep : repStep (repOf old.rtrace) (.req r)
            = { repOf old.rtrace with pend := .cbFor r.svc false (r.t + r.lat) } := by
          simp only [repStep, hdue, hi, hk, hacc', hun, Bool.false_eq_true, if_false, if_true]
        rw [hstep] at hfold
        refine ⟨by rw [hfold]; exact hb, by rw [hfold, hav]; exact ha, by rw [hfold]; exact hi, ?_⟩
        rw [hfold]
        exact hpr _ (by simp only [expect, hacc', hun, Bool.false_eq_true, if_false, if_true, ht])
      · have hun' : (r.reac == Reac.unreach) = false := by simpa using hun
        have hstep : repStep (repOf old.rtrace) (.req r)
            = { repOf old.rtrace with pend := .fallbackFor r.svc (r.t + r.lat) } := by
          simp only [repStep, hdue, hi, hk, hacc', hun', Bool.false_eq_true, if_false]
        rw [hstep] at hfold
        refine ⟨by rw [hfold]; exact hb, by rw [hfold, hav]; exact ha, by rw [hfold]; exact hi, ?_⟩
        rw [hfold]
        exact hpr _ (by simp only [expect, hacc', hun', Bool.false_eq_true, if_false, ht])

/-- the reply of the in-flight request is delivered at its due time: the monitor's expectation is met
    exactly, and monitor and model agree again afterwards -/
theorem rep_deliver (cfg : Cfg) (hs : cfg.skipStale = false) (hd : cfg.delEarly = false) (st : St)
    (rnow : Time) (rest : List (Sid × Time)) (sid : Sid) (svc : Nat) (fb : Bool) (replyAt : Time) (reac : Reac)
    (tmo : Tmo) (granted : Option Sid)
    (ht : st.task = .inflight rnow rest sid svc fb replyAt reac tmo granted) (hnow : st.now = replyAt)
    (hb : (repOf st.rtrace).bad = []) (ha : (repOf st.rtrace).avail = st.avail)
    (hi : (repOf st.rtrace).inCall = false)
    (hp : (repOf st.rtrace).pend = expect svc fb reac st.avail replyAt) : RepInv (deliver cfg st) := by
  unfold deliver
  simp only [ht]
  by_cases hacc : reac.accepts = true
  · simp only [hacc, if_true]
    have hp' : (repOf st.rtrace).pend = .none := by rw [hp]; simp [expect, hacc]
    exact rep_outcome _ _ (cont_outcome cfg hs hd rnow rest _) (repOf st.rtrace) rfl hb ha hi hp'
  · have hacc' : reac.accepts = false := by simpa using hacc
    simp only [hacc', Bool.false_eq_true, if_false]
    -- the callback a final failure produces, and what the monitor makes of it
    have hcb : ∀ (av : Bool), (repOf st.rtrace).pend = .cbFor svc av replyAt →
        av = (st.avail && reac != .unreach) →
        ∀ F : St, F.rtrace = .cb st.now svc 0 (st.avail && reac != .unreach) :: st.rtrace →
          F.avail = (st.avail && reac != .unreach) →
          (repOf F.rtrace).bad = [] ∧ (repOf F.rtrace).avail = F.avail ∧ (repOf F.rtrace).inCall = false
          ∧ (repOf F.rtrace).pend = .none := by
      intro av hpend hav F hF hFa
      have hstep : repOf F.rtrace = { repOf st.rtrace with pend := .none, avail := av } := by
        rw [hF, repOf_cons]
        simp only [repStep, repDue, hpend, Ev.time, hnow, Int.lt_irrefl, if_false, hav, beq_self_eq_true, Bool.and_self,
          flagged, if_true, hb]
      rw [hstep]
      exact ⟨hb, by rw [hFa, hav], hi, rfl⟩
    by_cases hfb : fb = true
    · simp only [hfb, if_true]
      have hpend : (repOf st.rtrace).pend = .cbFor svc (st.avail && reac != .unreach) replyAt := by
        rw [hp]; simp [expect, hacc', hfb]
      obtain ⟨f1, f2, f3, f4⟩ := hcb _ hpend rfl (failed st sid svc reac) rfl rfl
      exact rep_outcome _ _ (cont_outcome cfg hs hd rnow rest _) (repOf (failed st sid svc reac).rtrace) rfl f1 f2 f3 f4
    · have hfb' : fb = false := by simpa using hfb
      simp only [hfb', Bool.false_eq_true, if_false]
      by_cases hun : (reac == Reac.unreach) = true
      · simp only [hun, if_true]
        have hne : (reac != Reac.unreach) = false := by simp [bne, hun]
        have hpend : (repOf st.rtrace).pend = .cbFor svc false replyAt := by
          rw [hp]; simp only [expect, hacc', hfb', hun, Bool.false_eq_true, if_false, if_true]
        obtain ⟨f1, f2, f3, f4⟩ := hcb false hpend (by rw [hne]; simp)
          (failed { st with routed := erase st.routed sid, task := .inflight rnow rest sid svc false replyAt reac tmo granted } sid svc reac)
          rfl rfl
        exact rep_outcome _ _ (cont_outcome cfg hs hd rnow rest _) _ rfl f1 f2 f3 f4
      · have hun' : (reac == Reac.unreach) = false := by simpa using hun
        simp only [hun', Bool.false_eq_true, if_false]
        have hpend : (repOf st.rtrace).pend = .fallbackFor svc replyAt := by
          rw [hp]; simp only [expect, hacc', hfb', hun', Bool.false_eq_true, if_false]
        -- the fall-back SUBSCRIBE
        generalize hr : (send { st with routed := erase st.routed sid, task := TaskPc.inflight rnow rest sid svc false replyAt reac tmo granted } Kind.sub svc none) = sr
        have hr1 : sr.1.kind = .sub := by rw [← hr]; rfl
        have hr2 : sr.1.svc = svc := by rw [← hr]; rfl
        have hr3 : sr.1.t = st.now := by rw [← hr]; rfl
        have hr4 : sr.2.rtrace = .req sr.1 :: st.rtrace := by rw [← hr]; rfl
        have hr5 : sr.2.avail = st.avail := by rw [← hr]; rfl
        have hr6 : sr.2.now = st.now := by rw [← hr]; rfl
        have hlat : (0 : Int) ≤ (sr.1.lat : Int) := Int.natCast_nonneg _
        have hdue : repDue (repOf st.rtrace) (.req sr.1) = { repOf st.rtrace with pend := .none } := by
          simp only [repDue, hpend, Ev.time, hr3, hnow, Int.lt_irrefl, if_false, hr1, hr2, beq_self_eq_true, Bool.and_self,
            flagged, if_true]
        refine ⟨?_, ?_, ?_, ?_⟩
        · show (repOf sr.2.rtrace).bad = []
          rw [hr4, repOf_cons]
          simp only [repStep, hdue, hi, hr1, Bool.false_eq_true, if_false]
          split <;> exact hb
        · show (repOf sr.2.rtrace).avail = sr.2.avail
          rw [hr4, repOf_cons]
          simp only [repStep, hdue, hi, hr1, Bool.false_eq_true, if_false]
          split <;> (simp only [hr5]; exact ha)
        · show (repOf sr.2.rtrace).inCall = false
          rw [hr4, repOf_cons]
          simp only [repStep, hdue, hi, hr1, Bool.false_eq_true, if_false]
          split <;> rfl
        · unfold PendRel
          simp only []
          rw [hr4, repOf_cons]
          simp only [repStep, hdue, hi, hr1, Bool.false_eq_true, if_false, hr6, hr5]
          refine ⟨by unfold Time at *; omega, ?_⟩
          by_cases hsa : sr.1.reac.accepts = true
          · simp [hsa, expect]
          · have hsa' : sr.1.reac.accepts = false := by simpa using hsa
            simp only [hsa', Bool.false_eq_true, if_false, expect, if_true, hr2, hr3, ha]

/-! ### waiting -/

theorem RepInv.setNow {st : St} (h : RepInv st) (t : Time) (hnot : st.task.isInflight = false) :
    RepInv { st with now := t } :=
  ⟨h.bad, h.avail, h.idle, by
    have hp := h.pend
    unfold PendRel at hp ⊢
    cases ht : st.task <;> simp_all [TaskPc.isInflight]⟩

theorem rep_waitLoop (cfg : Cfg) (hs : cfg.skipStale = false) (hd : cfg.delEarly = false) (H : Time) :
    ∀ (k : Nat) (st : St), RepInv st → RepInv (waitLoop cfg H k st) := by
  intro k
  induction k with
  | zero =>
    intro st h
    have : repOf (waitLoop cfg H 0 st).rtrace = repOf st.rtrace := by simp only [waitLoop, repOf_cons, repStep]
    refine ⟨by rw [this]; exact h.bad, by rw [this]; exact h.avail, by rw [this]; exact h.idle, ?_⟩
    rw [this]
    have hp := h.pend
    unfold PendRel at hp ⊢
    simpa [waitLoop] using hp
  | succ k ih =>
    intro st h
    simp only [waitLoop]
    split
    · exact h
    · split
      · rename_i htask
        have hp : (repOf st.rtrace).pend = .none := by
          have := h.pend; unfold PendRel at this; simpa [htask] using this
        exact ih _ (rep_outcome _ _ (runHead_outcome cfg hs hd _ st) _ rfl h.bad h.avail h.idle hp)
      · rename_i u htask
        split
        · have hp : (repOf st.rtrace).pend = .none := by
            have := h.pend; unfold PendRel at this; simpa [htask] using this
          exact ih _ (rep_outcome { st with now := u } _ (cont_outcome cfg hs hd u st.subs { st with now := u })
            (repOf st.rtrace) rfl h.bad h.avail h.idle hp)
        · exact h
      · rename_i rnow q cur svc fb replyAt reac tmo granted htask
        split
        · have hp := h.pend
          unfold PendRel at hp
          simp only [htask] at hp
          exact ih _ (rep_deliver cfg hs hd { st with now := replyAt } rnow q cur svc fb replyAt reac tmo granted
            htask rfl h.bad h.avail h.idle hp.2)
        · exact h
      · exact h

/-- when the wait ends without halting, a request still in flight is due strictly later -/
def Strict (st : St) : Prop :=
  match st.task with
  | .inflight _ _ _ _ _ replyAt _ _ _ => st.now < replyAt
  | _ => True

theorem waitLoop_late (cfg : Cfg) (H : Time) :
    ∀ (k : Nat) (st : St), (waitLoop cfg H k st).halted = false →
      match (waitLoop cfg H k st).task with
      | .inflight _ _ _ _ _ replyAt _ _ _ => H < replyAt
      | _ => True := by
  intro k
  induction k with
  | zero => intro st h; simp [waitLoop] at h
  | succ k ih =>
    intro st
    simp only [waitLoop]
    split
    · rename_i hh; intro h; rw [hh] at h; cases h
    · split
      · exact ih _
      · split
        · exact ih _
        · rename_i htask _; intro _; simp [htask]
      · rename_i htask
        split
        · exact ih _
        · rename_i hgt; intro _; simp only [htask]; unfold Time at *; omega
      · rename_i hn1 hn2 hn3
        intro _
        cases ht : st.task with
        | inflight a b c d e f g h i => exact absurd ht (hn3 a b c d e f g h i)
        | _ => trivial

theorem repDue_snap_early (m : RepMon) (svc : Nat) (fb : Bool) (reac : Reac) (av : Bool) (due : Time)
    (hp : m.pend = expect svc fb reac av due) (t : Time) (ht : t < due) (a b : List Sid) (c d : Bool) :
    repDue m (.snap t a b c d) = m := by
  unfold repDue
  unfold expect at hp
  by_cases h1 : reac.accepts = true
  · simp only [h1, if_true] at hp; simp [hp]
  · have h1' : reac.accepts = false := by simpa using h1
    simp only [h1', Bool.false_eq_true, if_false] at hp
    by_cases h2 : fb = true
    · simp only [h2, if_true] at hp; simp [hp, Ev.time, ht]
    · have h2' : fb = false := by simpa using h2
      simp only [h2', Bool.false_eq_true, if_false] at hp
      by_cases h3 : (reac == Reac.unreach) = true
      · simp only [h3, if_true] at hp; simp [hp, Ev.time, ht]
      · have h3' : (reac == Reac.unreach) = false := by simpa using h3
        simp only [h3', Bool.false_eq_true, if_false] at hp; simp [hp, Ev.time, ht]

theorem repDue_call_early (m : RepMon) (svc : Nat) (fb : Bool) (reac : Reac) (av : Bool) (due : Time)
    (hp : m.pend = expect svc fb reac av due) (t : Time) (ht : t < due) :
    repDue m (.call t .unsub) = { m with pend := .none } := by
  unfold repDue
  unfold expect at hp
  by_cases h1 : reac.accepts = true
  · simp only [h1, if_true] at hp
    simp only [hp]
    cases m; simp_all
  · have h1' : reac.accepts = false := by simpa using h1
    simp only [h1', Bool.false_eq_true, if_false] at hp
    by_cases h2 : fb = true
    · simp only [h2, if_true] at hp; simp [hp, Ev.time, ht]
    · have h2' : fb = false := by simpa using h2
      simp only [h2', Bool.false_eq_true, if_false] at hp
      by_cases h3 : (reac == Reac.unreach) = true
      · simp only [h3, if_true] at hp; simp [hp, Ev.time, ht]
      · have h3' : (reac == Reac.unreach) = false := by simpa using h3
        simp only [h3', Bool.false_eq_true, if_false] at hp; simp [hp, Ev.time, ht]

/-- the boundary invariant between caller operations -/
def RepB (st : St) : Prop := RepInv st ∧ (st.halted = false → Strict st)

theorem rep_doWait (cfg : Cfg) (hs : cfg.skipStale = false) (hd : cfg.delEarly = false) (d : Nat) (st : St)
    (h : RepB st) : RepB (doWait cfg d st) := by
  unfold doWait
  split
  · exact h
  · have hW := rep_waitLoop cfg hs hd (st.now + (d : Int)) (waitFuel d st) st h.1
    have hlate := waitLoop_late cfg (st.now + (d : Int)) (waitFuel d st) st
    simp only []
    generalize waitLoop cfg (st.now + (d : Int)) (waitFuel d st) st = W at hW hlate
    split
    · rename_i hh; exact ⟨hW, fun hf => by rw [hh] at hf; cases hf⟩
    · rename_i hh
      have hh' : W.halted = false := by simpa using hh
      have hl := hlate hh'
      -- the snapshot at the end of the wait
      have hfold : repOf (St.snap { W with now := st.now + (d : Int) }).rtrace = repOf W.rtrace := by
        simp only [St.snap, St.emit, repOf_cons, repStep]
        have hp := hW.pend
        unfold PendRel at hp
        have hdue : repDue (repOf W.rtrace) (.snap (st.now + (d : Int)) (keys W.subs) (sortSids (keys W.routed)) W.task.alive W.avail)
            = repOf W.rtrace := by
          cases hWt : W.task with
          | inflight a b c svc fb replyAt reac g i =>
            simp only [hWt] at hp hl
            exact repDue_snap_early _ svc fb reac W.avail replyAt hp.2 _ hl _ _ _ _
          | none => simp only [hWt] at hp; simp [repDue, hp]
          | fresh => simp only [hWt] at hp; simp [repDue, hp]
          | sleeping u => simp only [hWt] at hp; simp [repDue, hp]
          | done => simp only [hWt] at hp; simp [repDue, hp]
        rw [hdue]
        have : (W.avail == (repOf W.rtrace).avail) = true := by rw [hW.avail]; simp
        simp only [this, flagged, if_true]
      refine ⟨⟨by rw [hfold]; exact hW.bad, by rw [hfold]; exact hW.avail, by rw [hfold]; exact hW.idle, ?_⟩, fun _ => ?_⟩
      · rw [hfold]
        have hp := hW.pend
        unfold PendRel at hp ⊢
        cases hWt : W.task with
        | inflight a b c svc fb replyAt reac g i =>
          simp only [hWt] at hp hl
          simp only [St.snap, St.emit, hWt]
          exact ⟨by unfold Time at *; omega, hp.2⟩
        | none => simp only [hWt] at hp; simpa [St.snap, St.emit, hWt] using hp
        | fresh => simp only [hWt] at hp; simpa [St.snap, St.emit, hWt] using hp
        | sleeping u => simp only [hWt] at hp; simpa [St.snap, St.emit, hWt] using hp
        | done => simp only [hWt] at hp; simpa [St.snap, St.emit, hWt] using hp
      · unfold Strict
        cases hWt : W.task with
        | inflight a b c svc fb replyAt reac g i =>
          simp only [hWt] at hl
          simpa [St.snap, St.emit, hWt] using hl
        | none => simp [St.snap, St.emit, hWt]
        | fresh => simp [St.snap, St.emit, hWt]
        | sleeping u => simp [St.snap, St.emit, hWt]
        | done => simp [St.snap, St.emit, hWt]

/-! ### caller operations -/

/-- inside a caller operation requests (and the watchdog marker) leave the monitor alone -/
theorem rep_incall_step (m : RepMon) (hi : m.inCall = true) (hp : m.pend = .none) (e : Ev)
    (he : e.isReq = true ∨ ∃ t, e = .spin t) : repStep m e = m := by
  rcases he with he | ⟨t, rfl⟩
  · cases e with
    | req r => simp [repStep, repDue, hp, hi]
    | _ => simp [Ev.isReq] at he
  · rfl

theorem rep_incall_fold (evs : List Ev) (hev : ∀ e ∈ evs, e.isReq = true ∨ ∃ t, e = .spin t) (m : RepMon)
    (hi : m.inCall = true) (hp : m.pend = .none) : evs.foldr (fun e m => repStep m e) m = m := by
  induction evs with
  | nil => rfl
  | cons e r ih =>
    simp only [List.foldr_cons]
    rw [ih (fun x hx => hev x (List.mem_cons_of_mem _ hx))]
    exact rep_incall_step m hi hp e (hev e List.mem_cons_self)

theorem reqs_isReq (reqs : List Req) : ∀ e ∈ reqs.map Ev.req, e.isReq = true ∨ ∃ t, e = .spin t := by
  intro e he
  obtain ⟨r, _, rfl⟩ := List.mem_map.1 he
  exact Or.inl rfl

/-- the events `settle` appends: nothing, the watchdog marker, or one request -/
theorem settle_events (cfg : Cfg) (hs : cfg.skipStale = false) (hd : cfg.delEarly = false) (st : St) :
    ∃ sevs, (settle cfg st).rtrace = sevs ++ st.rtrace ∧ (∀ e ∈ sevs, e.isReq = true ∨ ∃ t, e = .spin t)
      ∧ (settle cfg st).avail = st.avail := by
  unfold settle
  split
  · cases runHead_outcome cfg hs hd (headFuel st) st with
    | quiet a b c d e => exact ⟨[], by simpa using a, by simp, d⟩
    | spun t a b c d e => exact ⟨[.spin t], by simpa using a, by simp, d⟩
    | sent r rn q s a b c d e f g => exact ⟨[.req r], by simpa using a, by simp [Ev.isReq], f⟩
  · exact ⟨[], by simp, by simp, rfl⟩

theorem rep_doUnsub (cfg : Cfg) (hs : cfg.skipStale = false) (hd : cfg.delEarly = false) (st : St)
    (hc : Core st) (ht : TaskOk st) (h : RepB st) : RepB (doUnsub cfg st) := by
  by_cases hh : st.halted = true
  · have : doUnsub cfg st = st := by simp [doUnsub, hh]
    rw [this]; exact h
  have hh' : st.halted = false := by simpa using hh
  obtain ⟨hinv, hstrict⟩ := h
  have hstrict := hstrict hh'
  -- the monitor after `call unsub`: a pending expectation is dropped, we are inside a call
  have hcall : repOf (st.emit (.call st.now .unsub)).rtrace
      = { repOf st.rtrace with pend := .none, inCall := true } := by
    show repOf (.call st.now .unsub :: st.rtrace) = _
    rw [repOf_cons]
    have hp := hinv.pend
    unfold PendRel at hp
    unfold Strict at hstrict
    have hdue : repDue (repOf st.rtrace) (.call st.now .unsub) = { repOf st.rtrace with pend := .none } := by
      cases hst : st.task with
      | inflight a b c svc fb replyAt reac g i =>
        simp only [hst] at hp hstrict
        exact repDue_call_early _ svc fb reac st.avail replyAt hp.2 _ hstrict
      | none => simp only [hst] at hp; simp only [repDue, hp]; cases hm : repOf st.rtrace; simp_all
      | fresh => simp only [hst] at hp; simp only [repDue, hp]; cases hm : repOf st.rtrace; simp_all
      | sleeping u => simp only [hst] at hp; simp only [repDue, hp]; cases hm : repOf st.rtrace; simp_all
      | done => simp only [hst] at hp; simp only [repDue, hp]; cases hm : repOf st.rtrace; simp_all
    simp only [repStep, hdue]
  obtain ⟨sevs, hs1, hs2, hs3⟩ := settle_events cfg hs hd (st.emit (.call st.now .unsub))
  have hnohalt : (settle cfg (st.emit (.call st.now .unsub))).halted = false := by
    rw [settle_halted cfg hs (st.emit (.call st.now .unsub)) hc.subsNodup]; exact hh'
  have hcS := (settle_core cfg hd _ (hc.emit (.call st.now .unsub)) (by simpa [TaskOk, St.emit] using ht)).1
  have hu := unsubscribeServices_clean _ hcS
  obtain ⟨ureqs, hu1, _, _⟩ := unsubAll_run (keys (settle cfg (st.emit (.call st.now .unsub))).subs)
    { settle cfg (st.emit (.call st.now .unsub)) with subs := [], task := .none } hcS.routedNodup hcS.subsNodup
  have htrace : (unsubscribeServices (settle cfg (st.emit (.call st.now .unsub)))).rtrace
      = (ureqs.reverse.map Ev.req) ++ (settle cfg (st.emit (.call st.now .unsub))).rtrace := by
    unfold unsubscribeServices; exact hu1
  -- the monitor after the requests of the call
  have hU : repOf (unsubscribeServices (settle cfg (st.emit (.call st.now .unsub)))).rtrace
      = { repOf st.rtrace with pend := .none, inCall := true } := by
    rw [htrace, repOf_append, hs1, repOf_append, hcall,
      rep_incall_fold sevs hs2 _ rfl rfl, rep_incall_fold _ (reqs_isReq _) _ rfl rfl]
  have hUav : (unsubscribeServices (settle cfg (st.emit (.call st.now .unsub)))).avail = st.avail := by
    rw [hu.2.2.2.2, hs3]; rfl
  have hres : doUnsub cfg st = St.snap ((unsubscribeServices (settle cfg (st.emit (.call st.now .unsub)))).emit
      (.ret (unsubscribeServices (settle cfg (st.emit (.call st.now .unsub)))).now .unsub none)) := by
    unfold doUnsub
    simp only [hh', Bool.false_eq_true, if_false, hnohalt]
  rw [hres]
  generalize unsubscribeServices (settle cfg (st.emit (.call st.now .unsub))) = U at hu hU hUav
  have hfold : repOf (St.snap (U.emit (.ret U.now .unsub none))).rtrace = { repOf st.rtrace with pend := .none } := by
    show repOf (.snap U.now (keys U.subs) (sortSids (keys U.routed)) U.task.alive U.avail :: .ret U.now .unsub none :: U.rtrace) = _
    rw [repOf_cons, repOf_cons, hU]
    have hidle := hinv.idle
    have hav : (U.avail == (repOf st.rtrace).avail) = true := by rw [hUav, hinv.avail]; simp
    simp only [repStep, repDue, hav, flagged, if_true]
    cases hm : repOf st.rtrace; simp_all
  refine ⟨⟨?_, ?_, ?_, ?_⟩, fun _ => ?_⟩
  · rw [hfold]; exact hinv.bad
  · rw [hfold]; show (repOf st.rtrace).avail = U.avail; rw [hUav]; exact hinv.avail
  · rw [hfold]; exact hinv.idle
  · rw [hfold]
    apply pendRel_of_not_inflight
    show U.task.isInflight = false
    rw [hu.2.2.1]; rfl
  · unfold Strict
    show match U.task with | .inflight _ _ _ _ _ replyAt _ _ _ => _ | _ => True
    rw [hu.2.2.1]; trivial

theorem subLoop_avail (cfg : Cfg) (now0 : Time) (l : List Nat) :
    ∀ st : St, (subLoop cfg now0 l st).1.avail = st.avail := by
  induction l with
  | nil => intro st; rfl
  | cons i rest ih =>
    intro st
    simp only [subLoop]
    split
    · rw [ih]; rfl
    · rfl

/-- `doSub` (precondition met) ends in a snapshot carrying the unchanged `available` flag, with no request
    in flight -/
theorem doSub_final (cfg : Cfg) (n : Nat) (auto : Bool) (st : St) (h : Core st)
    (hpre : (st.halted || !st.subs.isEmpty || st.task.alive) = false) :
    (doSub cfg n auto st).avail = st.avail ∧ (doSub cfg n auto st).task.isInflight = false
    ∧ ∃ t a b c rest, (doSub cfg n auto st).rtrace = .snap t a b c (doSub cfg n auto st).avail :: rest := by
  have halive : st.task.alive = false := by
    simp only [Bool.or_eq_false_iff] at hpre; exact hpre.2
  have hcore := subLoop_core cfg st.now (List.range n) (st.emit (.call st.now (.sub auto))) (h.emit _)
  have hav := subLoop_avail cfg st.now (List.range n) (st.emit (.call st.now (.sub auto)))
  unfold doSub
  simp only [hpre, Bool.false_eq_true, if_false]
  have hnow : (st.emit (.call st.now (.sub auto))).now = st.now := rfl
  simp only [hnow]
  generalize subLoop cfg st.now (List.range n) (st.emit (.call st.now (.sub auto))) = L at hcore hav
  obtain ⟨S, err⟩ := L
  cases err with
  | some e =>
    dsimp only at hcore hav ⊢
    have hu := unsubscribeServices_clean S hcore.1
    refine ⟨?_, ?_, _, _, _, _, _, rfl⟩
    · show (unsubscribeServices S).avail = st.avail
      rw [hu.2.2.2.2, hav]; rfl
    · show (unsubscribeServices S).task.isInflight = false
      rw [hu.2.2.1]; rfl
  | none =>
    dsimp only at hcore hav ⊢
    have htask : S.task = st.task := hcore.2.1
    refine ⟨?_, ?_, _, _, _, _, _, rfl⟩
    · split
      · show S.avail = st.avail; rw [hav]; rfl
      · show S.avail = st.avail; rw [hav]; rfl
    · split
      · show S.task.isInflight = false
        rw [htask]; exact not_inflight_of_not_alive _ halive
      · show (startTask cfg S.task).isInflight = false
        rw [htask]; exact startTask_not_inflight cfg _ halive

theorem rep_doSub (cfg : Cfg) (n : Nat) (auto : Bool) (st : St) (hc : Core st) (h : RepB st) :
    RepB (doSub cfg n auto st) := by
  by_cases hpre : (st.halted || !st.subs.isEmpty || st.task.alive) = true
  · have : doSub cfg n auto st = st := by simp only [doSub, hpre, if_true]
    rw [this]; exact h
  have hpre0 : (st.halted || !st.subs.isEmpty || st.task.alive) = false := by simpa using hpre
  have hpre' : st.halted = false ∧ st.subs = [] ∧ st.task.alive = false := by
    simp only [Bool.or_eq_false_iff] at hpre0
    refine ⟨hpre0.1.1, ?_, hpre0.2⟩
    have := hpre0.1.2
    simpa using this
  obtain ⟨hinv, _⟩ := h
  obtain ⟨reqs, res, t, subs, routed, task, av, htr, _, _⟩ :=
    all_or_nothing_shape cfg n auto st hc hpre'.1 hpre'.2.1 hpre'.2.2
  obtain ⟨hfav, hfin, t', a', b', c', rest', hhead⟩ := doSub_final cfg n auto st hc hpre0
  -- the snapshot's flag is the unchanged one
  have hav : av = st.avail := by
    rw [htr] at hhead
    have := (List.cons.inj hhead).1
    simp only [Ev.snap.injEq] at this
    rw [this.2.2.2.2, hfav]
  -- nothing pending: the task was not in flight
  have hp : (repOf st.rtrace).pend = .none := by
    have hp := hinv.pend
    unfold PendRel at hp
    cases hst : st.task <;> simp_all [TaskPc.alive]
  have hcall : repOf (Ev.call st.now (.sub auto) :: st.rtrace) = { repOf st.rtrace with inCall := true } := by
    rw [repOf_cons]; simp [repStep, repDue, hp]
  have hfold : repOf (doSub cfg n auto st).rtrace = repOf st.rtrace := by
    rw [htr]
    have : (Ev.snap t subs routed task av :: Ev.ret t (.sub auto) res :: (reqs.reverse.map Ev.req) ++ Ev.call st.now (.sub auto) :: st.rtrace)
        = Ev.snap t subs routed task av :: Ev.ret t (.sub auto) res :: ((reqs.reverse.map Ev.req) ++ Ev.call st.now (.sub auto) :: st.rtrace) := by
      simp
    rw [this, repOf_cons, repOf_cons, repOf_append, hcall,
      rep_incall_fold _ (reqs_isReq _) { repOf st.rtrace with inCall := true } rfl hp]
    have hidle := hinv.idle
    have hava : (av == (repOf st.rtrace).avail) = true := by rw [hav, hinv.avail]; simp
    simp only [repStep, repDue, hp, hava, flagged, if_true]
    cases hm : repOf st.rtrace; simp_all
  refine ⟨⟨by rw [hfold]; exact hinv.bad, by rw [hfold, hfav]; exact hinv.avail, by rw [hfold]; exact hinv.idle, ?_⟩,
    fun _ => ?_⟩
  · rw [hfold, hp]; exact pendRel_of_not_inflight _ hfin
  · unfold Strict
    cases hT : (doSub cfg n auto st).task <;> simp_all [TaskPc.isInflight]

end Upnp.C12
