/-
  C12 — helper lemmas for `report_trace`: the precise outcome of one run of the renewal task to its next
  await, and the report-clause monitor `repMon` folded over it.
-/
import Upnp.Lemmas.C12Mon
namespace Upnp.C12
open Upnp PyDict

/-- what running the task from a ready point to its next await does to the observable part of the state -/
inductive Outcome (old new : St) : Prop where
  /-- nothing emitted: the loop ended or went to sleep -/
  | quiet (htr : new.rtrace = old.rtrace) (htask : new.task.isInflight = false) (hh : new.halted = old.halted)
      (hav : new.avail = old.avail) (hnow : new.now = old.now)
  /-- the head fuel ran out -/
  | spun (t : Time) (htr : new.rtrace = .spin t :: old.rtrace) (htask : new.task = .done) (hh : new.halted = true)
      (hav : new.avail = old.avail) (hnow : new.now = old.now)
  /-- exactly one renewal request was sent and is now in flight -/
  | sent (r : Req) (rnow : Time) (q : List (Sid × Time)) (sid : Sid)
      (htr : new.rtrace = .req r :: old.rtrace) (hk : r.kind = .renew) (ht : r.t = old.now)
      (htask : new.task = .inflight rnow q sid r.svc false (old.now + (r.lat : Int)) r.reac r.tmo r.granted)
      (hh : new.halted = old.halted) (hav : new.avail = old.avail) (hnow : new.now = old.now)

/-- `roundStep`: either it sends one request (and awaits), or it changes nothing observable -/
theorem roundStep_outcome (cfg : Cfg) (hs : cfg.skipStale = false) (hd : cfg.delEarly = false) (rnow : Time)
    (q : List (Sid × Time)) :
    ∀ st : St, ((roundStep cfg rnow q st).2 = true ∧
        ∃ (r : Req) (q' : List (Sid × Time)) (sid : Sid),
          (roundStep cfg rnow q st).1.rtrace = .req r :: st.rtrace ∧ r.kind = .renew ∧ r.t = st.now
          ∧ (roundStep cfg rnow q st).1.task = .inflight rnow q' sid r.svc false (st.now + (r.lat : Int)) r.reac r.tmo r.granted)
      ∨ ((roundStep cfg rnow q st).2 = false ∧ (roundStep cfg rnow q st).1.rtrace = st.rtrace
          ∧ (roundStep cfg rnow q st).1.task = st.task) := by
  induction q with
  | nil => intro st; right; simp [roundStep]
  | cons p rest ih =>
    intro st
    obtain ⟨sid, rt⟩ := p
    simp only [roundStep, hs, Bool.false_and, Bool.false_eq_true, if_false, hd]
    split
    · rcases ih { st with subs := erase st.subs sid } with ⟨h1, r, q', sid', h2, h3, h4, h5⟩ | ⟨h1, h2, h3⟩
      · left; exact ⟨h1, r, q', sid', h2, h3, h4, h5⟩
      · right; exact ⟨h1, h2, h3⟩
    · rename_i svc _
      left
      exact ⟨rfl, (send st .renew svc (some sid)).1, rest, sid, rfl, rfl, rfl, rfl⟩

theorem runHead_outcome (cfg : Cfg) (hs : cfg.skipStale = false) (hd : cfg.delEarly = false) :
    ∀ (f : Nat) (st : St), Outcome st (runHead cfg f st) := by
  intro f
  induction f with
  | zero => intro st; exact .spun st.now rfl rfl rfl rfl rfl
  | succ f ih =>
    intro st
    simp only [runHead]
    split
    · exact .quiet rfl rfl rfl rfl rfl
    · split
      · exact .quiet rfl rfl rfl rfl rfl
      · have hf := roundStep_frame cfg st.now st.subs st
        rcases roundStep_outcome cfg hs hd st.now st.subs st with ⟨h1, r, q', sid', h2, h3, h4, h5⟩ | ⟨h1, h2, h3⟩
        · simp only [h1, if_true]
          exact .sent r st.now q' sid' h2 h3 h4 h5 hf.1 hf.2.2.1 hf.2.1
        · simp only [h1, Bool.false_eq_true, if_false]
          -- nothing happened in the round: continue from a state that looks the same from outside
          have := ih (roundStep cfg st.now st.subs st).1
          cases this with
          | quiet a b c d e => exact .quiet (by rw [a, h2]) b (by rw [c, hf.1]) (by rw [d, hf.2.2.1]) (by rw [e, hf.2.1])
          | spun t a b c d e => exact .spun t (by rw [a, h2]) b c (by rw [d, hf.2.2.1]) (by rw [e, hf.2.1])
          | sent r rn q s a b c d e f' g =>
            exact .sent r rn q s (by rw [a, h2]) b (by rw [c, hf.2.1]) (by rw [d, hf.2.1]) (by rw [e, hf.1])
              (by rw [f', hf.2.2.1]) (by rw [g, hf.2.1])

/-- continuing a round after a reply (and possibly the loop head) -/
theorem cont_outcome (cfg : Cfg) (hs : cfg.skipStale = false) (hd : cfg.delEarly = false) (rnow : Time)
    (rest : List (Sid × Time)) (st : St) :
    Outcome st (if (roundStep cfg rnow rest st).2 = true then (roundStep cfg rnow rest st).1
          else runHead cfg (headFuel (roundStep cfg rnow rest st).1) (roundStep cfg rnow rest st).1) := by
  have hf := roundStep_frame cfg rnow rest st
  rcases roundStep_outcome cfg hs hd rnow rest st with ⟨h1, r, q', sid', h2, h3, h4, h5⟩ | ⟨h1, h2, h3⟩
  · simp only [h1, if_true]
    exact .sent r rnow q' sid' h2 h3 h4 h5 hf.1 hf.2.2.1 hf.2.1
  · simp only [h1, Bool.false_eq_true, if_false]
    have := runHead_outcome cfg hs hd (headFuel (roundStep cfg rnow rest st).1) (roundStep cfg rnow rest st).1
    cases this with
    | quiet a b c d e => exact .quiet (by rw [a, h2]) b (by rw [c, hf.1]) (by rw [d, hf.2.2.1]) (by rw [e, hf.2.1])
    | spun t a b c d e => exact .spun t (by rw [a, h2]) b c (by rw [d, hf.2.2.1]) (by rw [e, hf.2.1])
    | sent r rn q s a b c d e f' g =>
      exact .sent r rn q s (by rw [a, h2]) b (by rw [c, hf.2.1]) (by rw [d, hf.2.1]) (by rw [e, hf.1])
        (by rw [f', hf.2.2.1]) (by rw [g, hf.2.1])

end Upnp.C12
