/-
  C12 — judge soundness: what an accepted trace (a clause monitor of `Spec/C12.lean` that flags nothing) says in
  first-order terms about ANY trace — the implementation's included.  No model is involved here.
-/
import Upnp.Lemmas.PyDict
import Upnp.Spec.C12
namespace Upnp.C12
open Upnp PyDict

theorem flagged_ne_nil (bad : List String) (c : Bool) (w : String) (h : bad ≠ []) : flagged bad c w ≠ [] := by
  unfold flagged; split
  · exact h
  · simp

theorem flagged_nil (bad : List String) (c : Bool) (w : String) (h : flagged bad c w = []) : bad = [] ∧ c = true := by
  unfold flagged at h
  split at h
  · rename_i hc; exact ⟨h, hc⟩
  · cases h

/-! ### pigeonhole: `n` distinct numbers below `n` are all of `0 .. n-1` -/

theorem nodup_lt_length_le : ∀ (n : Nat) (l : List Nat), l.Nodup → (∀ x ∈ l, x < n) → l.length ≤ n := by
  intro n
  induction n with
  | zero =>
    intro l _ h
    cases l with
    | nil => simp
    | cons a r => exact absurd (h a List.mem_cons_self) (Nat.not_lt_zero _)
  | succ n ih =>
    intro l hn hlt
    by_cases hm : n ∈ l
    · have h1 := ih (l.erase n) (hn.erase n) (by
        intro x hx
        have := (hn.mem_erase_iff).1 hx
        have := hlt x this.2
        omega)
      rw [List.length_erase_of_mem hm] at h1
      omega
    · have := ih l hn (by
        intro x hx
        have h1 := hlt x hx
        have : x ≠ n := fun e => hm (e ▸ hx)
        omega)
      omega

theorem pigeonhole : ∀ (n : Nat) (l : List Nat), l.Nodup → (∀ x ∈ l, x < n) → l.length = n → ∀ i, i < n → i ∈ l := by
  intro n
  induction n with
  | zero => intro l _ _ _ i hi; exact absurd hi (Nat.not_lt_zero _)
  | succ n ih =>
    intro l hn hlt hlen i hi
    have hm : n ∈ l := by
      apply Classical.byContradiction
      intro hm
      have := nodup_lt_length_le n l hn (by
        intro x hx
        have h1 := hlt x hx
        have : x ≠ n := fun e => hm (e ▸ hx)
        omega)
      omega
    by_cases e : i = n
    · subst e; exact hm
    · have h1 := ih (l.erase n) (hn.erase n) (by
        intro x hx
        have := (hn.mem_erase_iff).1 hx
        have := hlt x this.2
        omega) (by rw [List.length_erase_of_mem hm]; omega) i (by omega)
      exact List.mem_of_mem_erase h1

theorem nodupB_nodup (l : List Nat) (h : nodupB l = true) : l.Nodup := by
  induction l with
  | nil => exact List.nodup_nil
  | cons a r ih =>
    simp only [nodupB, Bool.and_eq_true, Bool.not_eq_true', List.contains_eq_mem, decide_eq_false_iff_not] at h
    exact List.nodup_cons.2 ⟨h.1, ih h.2⟩

/-! ### what the all-or-nothing post-conditions say -/

/-- **`subOkPost`, spelled out**: every profile service `0 .. n-1` received a SUBSCRIBE ("all"), every SUBSCRIBE
    of the call went to a profile service and there are exactly `n` of them, so none went anywhere else and none
    twice ("and only"), all were accepted, nothing was unsubscribed, and the bookkeeping holds exactly the granted
    SIDs, all of them routed -/
theorem subOkPost_decl (n : Nat) (reqs : List Req) (subs routed : List Sid) (h : subOkPost n reqs subs routed = true) :
    (∀ i, i < n → ∃ r ∈ reqs, r.kind = .sub ∧ r.svc = i)
    ∧ (∀ r ∈ reqs, r.kind = .sub → r.svc < n ∧ r.reac.accepts = true)
    ∧ (reqs.filter (·.kind == .sub)).length = n
    ∧ (∀ r ∈ reqs, r.kind ≠ .unsub)
    ∧ subs.length = n
    ∧ (∀ g, g ∈ subs ↔ ∃ r ∈ reqs, r.kind = .sub ∧ r.granted = some g)
    ∧ (∀ r ∈ reqs, r.kind = .sub → ∀ g, r.granted = some g → g ∈ routed) := by
  simp only [subOkPost, onlyProfileServices, Bool.and_eq_true, List.all_eq_true, decide_eq_true_eq, beq_iff_eq,
    List.isEmpty_iff, List.contains_eq_mem] at h
  obtain ⟨⟨⟨⟨⟨⟨⟨⟨hlt, hnd⟩, hlen⟩, hacc⟩, hun⟩, hsl⟩, hgs⟩, hsg⟩, hgr⟩ := h
  have hmemsub : ∀ r, r ∈ subReqs reqs ↔ r ∈ reqs ∧ r.kind = .sub := by
    intro r; simp [subReqs, List.mem_filter]
  have hgranted : ∀ g, g ∈ grantedSids (subReqs reqs) ↔ ∃ r ∈ reqs, r.kind = .sub ∧ r.granted = some g := by
    intro g
    simp only [grantedSids, List.mem_filterMap, hmemsub]
    constructor
    · rintro ⟨r, ⟨h1, h2⟩, h3⟩; exact ⟨r, h1, h2, h3⟩
    · rintro ⟨r, h1, h2, h3⟩; exact ⟨r, ⟨h1, h2⟩, h3⟩
  refine ⟨?_, ?_, hlen, ?_, hsl, ?_, ?_⟩
  · intro i hi
    have := pigeonhole n ((subReqs reqs).map (·.svc)) (nodupB_nodup _ hnd) (by
      intro x hx
      obtain ⟨r, hr, rfl⟩ := List.mem_map.1 hx
      exact hlt r hr) (by rw [List.length_map]; exact hlen) i hi
    obtain ⟨r, hr, hr2⟩ := List.mem_map.1 this
    exact ⟨r, ((hmemsub r).1 hr).1, ((hmemsub r).1 hr).2, hr2⟩
  · intro r hr hk
    exact ⟨hlt r ((hmemsub r).2 ⟨hr, hk⟩), hacc r ((hmemsub r).2 ⟨hr, hk⟩)⟩
  · intro r hr hk
    have : r ∈ unsubReqs reqs := by simp [unsubReqs, List.mem_filter, hr, hk]
    rw [hun] at this; cases this
  · intro g
    rw [← hgranted]
    exact ⟨fun hg => by simpa using hsg g hg, fun hg => by simpa using hgs g hg⟩
  · intro r hr hk g hg
    have : g ∈ grantedSids (subReqs reqs) := (hgranted g).2 ⟨r, hr, hk, hg⟩
    simpa using hgr g this

/-- **`subFailPost`, spelled out**: some SUBSCRIBE of the call was not accepted; no SUBSCRIBE went outside the
    profile's services; afterwards the bookkeeping is empty, no renewal task runs, and every SID granted during the
    call is not routed and was sent an UNSUBSCRIBE -/
theorem subFailPost_decl (n : Nat) (reqs : List Req) (subs routed : List Sid) (task : Bool)
    (h : subFailPost n reqs subs routed task = true) :
    (∃ r ∈ reqs, r.kind = .sub ∧ r.reac.accepts = false)
    ∧ (∀ r ∈ reqs, r.kind = .sub → r.svc < n)
    ∧ subs = [] ∧ task = false
    ∧ (∀ r ∈ reqs, r.kind = .sub → ∀ g, r.granted = some g →
        g ∉ routed ∧ ∃ u ∈ reqs, u.kind = .unsub ∧ u.sid = some g) := by
  simp only [subFailPost, onlyProfileServices, Bool.and_eq_true, List.all_eq_true, List.any_eq_true, decide_eq_true_eq,
    Bool.not_eq_true', List.isEmpty_iff, List.contains_eq_mem, decide_eq_false_iff_not, beq_iff_eq] at h
  obtain ⟨⟨⟨⟨⟨⟨hlt, _⟩, hfail⟩, hsubs⟩, htask⟩, hnr⟩, hun⟩ := h
  have hmemsub : ∀ r, r ∈ subReqs reqs ↔ r ∈ reqs ∧ r.kind = .sub := by
    intro r; simp [subReqs, List.mem_filter]
  have hmemun : ∀ r, r ∈ unsubReqs reqs ↔ r ∈ reqs ∧ r.kind = .unsub := by
    intro r; simp [unsubReqs, List.mem_filter]
  refine ⟨?_, ?_, hsubs, htask, ?_⟩
  · obtain ⟨r, hr, hr2⟩ := hfail
    exact ⟨r, ((hmemsub r).1 hr).1, ((hmemsub r).1 hr).2, hr2⟩
  · intro r hr hk; exact hlt r ((hmemsub r).2 ⟨hr, hk⟩)
  · intro r hr hk g hg
    have hgm : g ∈ grantedSids (subReqs reqs) := by
      simp only [grantedSids, List.mem_filterMap]; exact ⟨r, (hmemsub r).2 ⟨hr, hk⟩, hg⟩
    refine ⟨hnr g hgm, ?_⟩
    obtain ⟨u, hu, hu2⟩ := hun g hgm
    exact ⟨u, ((hmemun u).1 hu).1, ((hmemun u).1 hu).2, hu2⟩

/-! ### flags only accumulate -/

theorem cleanStep_bad_mono (m : CleanMon) (e : Ev) (h : m.bad ≠ []) : (cleanStep m e).bad ≠ [] := by
  cases hp : m.pend <;> cases e <;> simp only [cleanStep, hp, Bool.false_eq_true, if_false, if_true] <;>
    (try split) <;> (try split)
  all_goals (try dsimp only)
  all_goals first
    | exact h
    | exact flagged_ne_nil _ _ _ h
    | exact flagged_ne_nil _ _ _ (flagged_ne_nil _ _ _ h)

theorem clean_fold_mono (evs : List Ev) : ∀ m : CleanMon, m.bad ≠ [] → (evs.foldl cleanStep m).bad ≠ [] := by
  induction evs with
  | nil => intro m h; exact h
  | cons e r ih => intro m h; exact ih _ (cleanStep_bad_mono m e h)

theorem aonStep_bad_mono (m : AonMon) (e : Ev) (h : m.bad ≠ []) : (aonStep m e).bad ≠ [] := by
  cases hp : m.pend <;> cases e <;> simp only [aonStep, hp] <;>
    (try split) <;> (try split) <;> (try split)
  all_goals (try dsimp only)
  all_goals first
    | exact h
    | exact flagged_ne_nil _ _ _ h
    | exact flagged_ne_nil _ _ _ (flagged_ne_nil _ _ _ h)

theorem aon_fold_mono (evs : List Ev) : ∀ m : AonMon, m.bad ≠ [] → (evs.foldl aonStep m).bad ≠ [] := by
  induction evs with
  | nil => intro m h; exact h
  | cons e r ih => intro m h; exact ih _ (aonStep_bad_mono m e h)

theorem lapseStep_bad_mono (m : LapseMon) (e : Ev) (h : m.bad ≠ []) : (lapseStep m e).bad ≠ [] := by
  cases e with
  | req q => simp only [lapseStep]; exact flagged_ne_nil _ _ _ h
  | cb t a b c => exact h
  | spin t => exact h
  | snap t a b c d =>
    simp only [lapseStep]; split
    · exact flagged_ne_nil _ _ _ h
    · exact h
  | call t c => cases c <;> exact h
  | ret t c res => cases c <;> exact h

theorem lapse_fold_mono (evs : List Ev) : ∀ m : LapseMon, m.bad ≠ [] → (evs.foldl lapseStep m).bad ≠ [] := by
  induction evs with
  | nil => intro m h; exact h
  | cons e r ih => intro m h; exact ih _ (lapseStep_bad_mono m e h)

theorem nil_of_fold_nil {β : Type} (bad : β → List String) (step : β → Ev → β)
    (mono : ∀ (evs : List Ev) (m : β), bad m ≠ [] → bad (evs.foldl step m) ≠ []) (evs : List Ev) (m : β)
    (h : bad (evs.foldl step m) = []) : bad m = [] := by
  cases hb : bad m with
  | nil => rfl
  | cons x xs => exact absurd h (mono evs m (by rw [hb]; simp))

/-! ### cleanly ended: what an accepted trace says -/

theorem cleanStep_ret (m : CleanMon) (t : Time) (res : Res) :
    (cleanStep m (.ret t .unsub res)).pend = true ∧ (cleanStep m (.ret t .unsub res)).quiet = true
    ∧ (cleanStep m (.ret t .unsub res)).ever = m.ever := by
  cases hp : m.pend <;> simp [cleanStep, hp]

theorem cleanStep_snap_pend (m : CleanMon) (hp : m.pend = true) (t : Time) (subs routed : List Sid) (task av : Bool) :
    (cleanStep m (.snap t subs routed task av)).bad = flagged m.bad (cleanSnap m.ever subs routed task) "clean:state-after-unsubscribe" := by
  simp [cleanStep, hp]

theorem cleanStep_ever_mono (m : CleanMon) (e : Ev) (g : Sid) (h : g ∈ m.ever) : g ∈ (cleanStep m e).ever := by
  cases hp : m.pend <;> cases e <;> simp only [cleanStep, hp, Bool.false_eq_true, if_false, if_true] <;>
    (try split) <;> (try split)
  all_goals (try dsimp only)
  all_goals first
    | exact h
    | exact List.mem_cons_of_mem _ h
    | (split <;> first | exact h | exact List.mem_cons_of_mem _ h)

theorem clean_fold_ever_mono (evs : List Ev) : ∀ (m : CleanMon) (g : Sid), g ∈ m.ever → g ∈ (evs.foldl cleanStep m).ever := by
  induction evs with
  | nil => intro m g h; exact h
  | cons e r ih => intro m g h; exact ih _ g (cleanStep_ever_mono m e g h)

theorem cleanStep_req_ever (m : CleanMon) (r : Req) (g : Sid) (hg : r.granted = some g) : g ∈ (cleanStep m (.req r)).ever := by
  cases hp : m.pend <;> simp [cleanStep, hp, hg]

/-- every SID granted in a trace is in the monitor's `ever` set afterwards -/
theorem clean_ever_mem (pre : List Ev) (r : Req) (g : Sid) (hr : Ev.req r ∈ pre) (hg : r.granted = some g) :
    g ∈ (cleanMon pre).ever := by
  unfold cleanMon
  generalize ({} : CleanMon) = m0
  induction pre generalizing m0 with
  | nil => cases hr
  | cons e rest ih =>
    simp only [List.foldl_cons]
    rcases List.mem_cons.1 hr with h | h
    · subst h; exact clean_fold_ever_mono rest _ g (cleanStep_req_ever m0 r g hg)
    · exact ih h _

/-- **clean_sound** — an accepted trace, in plain terms: whenever `async_unsubscribe_services` has returned, the
    snapshot taken then shows an empty bookkeeping, no renewal task, and no SID that any earlier answer of the
    publisher granted to this profile in the routing table -/
theorem clean_sound (tr pre post : List Ev) (t t' : Time) (res : Res) (subs routed : List Sid) (task av : Bool)
    (h : (cleanMon tr).bad = []) (htr : tr = pre ++ .ret t .unsub res :: .snap t' subs routed task av :: post) :
    subs = [] ∧ task = false ∧ ∀ r g, Ev.req r ∈ pre → r.granted = some g → g ∉ routed := by
  subst htr
  unfold cleanMon at h
  rw [List.foldl_append] at h
  simp only [List.foldl_cons] at h
  have h1 := nil_of_fold_nil CleanMon.bad cleanStep clean_fold_mono post _ h
  have hret := cleanStep_ret (pre.foldl cleanStep {}) t res
  rw [cleanStep_snap_pend _ hret.1] at h1
  have h2 := (flagged_nil _ _ _ h1).2
  rw [hret.2.2] at h2
  simp only [cleanSnap, Bool.and_eq_true, List.isEmpty_iff, Bool.not_eq_true', List.all_eq_true, List.contains_eq_mem,
    decide_eq_false_iff_not] at h2
  refine ⟨h2.1.1, h2.1.2, ?_⟩
  intro r g hr hg hmem
  exact h2.2 g hmem (clean_ever_mem pre r g hr hg)

theorem cleanStep_quiet_keep (m : CleanMon) (e : Ev) (hq : m.quiet = true) (he : ∀ t a, e ≠ .call t (.sub a)) :
    (cleanStep m e).quiet = true := by
  cases hp : m.pend <;> cases e <;> simp only [cleanStep, hp, Bool.false_eq_true, if_false, if_true] <;>
    (try split) <;> (try split)
  all_goals (try dsimp only)
  all_goals first
    | exact hq
    | rfl
    | (rename_i heq; exact absurd heq (he _ _))
    | (rename_i heq _; exact absurd heq (he _ _))

/-- **clean_sound_quiet**: in an accepted trace no request follows the return of an unsubscribe before the
    caller subscribes again -/
theorem clean_sound_quiet (tr pre mid post : List Ev) (t : Time) (res : Res) (r : Req)
    (h : (cleanMon tr).bad = []) (htr : tr = pre ++ .ret t .unsub res :: (mid ++ .req r :: post)) :
    ∃ e ∈ mid, ∃ t' a, e = .call t' (.sub a) := by
  apply Classical.byContradiction
  intro hno
  have hmid : ∀ e ∈ mid, ∀ t' a, e ≠ .call t' (.sub a) := by
    intro e he t' a heq; exact hno ⟨e, he, t', a, heq⟩
  subst htr
  unfold cleanMon at h
  rw [List.foldl_append] at h
  simp only [List.foldl_cons, List.foldl_append] at h
  have hret := cleanStep_ret (pre.foldl cleanStep {}) t res
  have hq : ∀ (l : List Ev) (m : CleanMon), m.quiet = true → (∀ e ∈ l, ∀ t' a, e ≠ .call t' (.sub a)) →
      (l.foldl cleanStep m).quiet = true := by
    intro l
    induction l with
    | nil => intro m hm _; exact hm
    | cons e rest ih =>
      intro m hm hl
      exact ih _ (cleanStep_quiet_keep m e hm (hl e List.mem_cons_self)) (fun x hx => hl x (List.mem_cons_of_mem _ hx))
  have hquiet := hq mid _ hret.2.1 hmid
  have h1 := nil_of_fold_nil CleanMon.bad cleanStep clean_fold_mono post _ h
  generalize mid.foldl cleanStep (cleanStep (pre.foldl cleanStep {}) (.ret t .unsub res)) = m at hquiet h1
  have : (cleanStep m (.req r)).bad ≠ [] := by
    cases hp : m.pend <;> simp [cleanStep, hp, hquiet, flagged]
  exact this h1

/-! ### all or nothing: what an accepted trace says -/

theorem aonStep_n (m : AonMon) (e : Ev) : (aonStep m e).n = m.n := by
  cases hp : m.pend <;> cases e <;> simp only [aonStep, hp] <;> (try split) <;> (try split) <;> (try split)
  all_goals (try dsimp only)
  all_goals rfl

theorem aon_fold_n (evs : List Ev) : ∀ m : AonMon, (evs.foldl aonStep m).n = m.n := by
  induction evs with
  | nil => intro m; rfl
  | cons e r ih => intro m; simp only [List.foldl_cons]; rw [ih, aonStep_n]

theorem aonStep_call (m : AonMon) (t : Time) (a : Bool) :
    (aonStep m (.call t (.sub a))).pend = none ∧ (aonStep m (.call t (.sub a))).inSub = true
    ∧ (aonStep m (.call t (.sub a))).reqs = [] ∧ (aonStep m (.call t (.sub a))).n = m.n := by
  cases hp : m.pend <;> simp [aonStep, hp]

theorem aon_collect_l (l : List Req) : ∀ (m : AonMon), m.pend = none → m.inSub = true →
    (l.map Ev.req).foldl aonStep m = { m with reqs := l.reverse ++ m.reqs } := by
  induction l with
  | nil => intro m _ _; rfl
  | cons r rest ih =>
    intro m hp hi
    simp only [List.map_cons, List.foldl_cons]
    have h1 : aonStep m (.req r) = { m with reqs := r :: m.reqs } := by simp [aonStep, hp, hi]
    rw [h1, ih { m with reqs := r :: m.reqs } hp hi]
    simp

/-- **all_or_nothing_sound** — an accepted trace, in plain terms: for every subscribe call in it (the call event,
    the requests `reqs` made during it, its return and the snapshot after it): if it returned normally `subOkPost`
    holds for exactly those requests, if it raised `subFailPost` does (see `subOkPost_decl` / `subFailPost_decl`
    for what these say) -/
theorem aon_sound (n : Nat) (tr pre post : List Ev) (t t' t'' : Time) (a a' : Bool) (reqs : List Req) (res : Res)
    (subs routed : List Sid) (task av : Bool) (h : (aonMon n tr).bad = [])
    (htr : tr = pre ++ .call t (.sub a) :: ((reqs.map Ev.req) ++ .ret t' (.sub a') res :: .snap t'' subs routed task av :: post)) :
    (res = none → subOkPost n reqs subs routed = true) ∧ (res ≠ none → subFailPost n reqs subs routed task = true) := by
  subst htr
  unfold aonMon at h
  rw [List.foldl_append] at h
  simp only [List.foldl_cons, List.foldl_append] at h
  have hn : (pre.foldl aonStep { n := n }).n = n := aon_fold_n pre _
  generalize pre.foldl aonStep { n := n } = m0 at h hn
  have hc := aonStep_call m0 t a
  rw [aon_collect_l reqs _ hc.1 hc.2.1] at h
  have h1 := nil_of_fold_nil AonMon.bad aonStep aon_fold_mono post _ h
  generalize aonStep m0 (.call t (.sub a)) = m1 at hc h1
  obtain ⟨hp, hi, hr, hn1⟩ := hc
  have hret : aonStep { m1 with reqs := reqs.reverse ++ m1.reqs } (.ret t' (.sub a') res)
      = { m1 with reqs := reqs.reverse, inSub := false, pend := some res } := by
    simp [aonStep, hp, hr]
  rw [hret] at h1
  cases res with
  | none =>
    refine ⟨fun _ => ?_, fun hne => absurd rfl hne⟩
    have : (aonStep { m1 with reqs := reqs.reverse, inSub := false, pend := some none } (.snap t'' subs routed task av)).bad
        = flagged m1.bad (subOkPost m1.n reqs subs routed) "allornothing:after-success" := by
      simp [aonStep]
    rw [this] at h1
    have := (flagged_nil _ _ _ h1).2
    rw [hn1, hn] at this; exact this
  | some e =>
    refine ⟨(fun hc => by cases hc), fun _ => ?_⟩
    have : (aonStep { m1 with reqs := reqs.reverse, inSub := false, pend := some (some e) } (.snap t'' subs routed task av)).bad
        = flagged m1.bad (subFailPost m1.n reqs subs routed task) "allornothing:after-failure" := by
      simp [aonStep]
    rw [this] at h1
    have := (flagged_nil _ _ _ h1).2
    rw [hn1, hn] at this; exact this

/-! ### kept alive: what an accepted trace says -/

/-- **lapse_sound** — an accepted trace, in plain terms: a renewal request for SID `s` that is sent while
    auto-renewal is in force and the history so far is calm reaches the publisher no later than the expiry the
    publisher holds for `s` (`expiry` = the table recomputed from the request log: arrival + granted timeout) -/
theorem lapse_sound (n tolSecs subT : Nat) (tr pre post : List Ev) (r : Req) (s : Sid) (e : Time)
    (h : (lapseMon n tolSecs subT tr).bad = []) (htr : tr = pre ++ .req r :: post)
    (hk : r.kind = .renew) (hs : r.sid = some s)
    (hauto : (lapseMon n tolSecs subT pre).auto = true) (hcalm : (lapseMon n tolSecs subT pre).calm = true)
    (he : get? (lapseMon n tolSecs subT pre).expiry s = some (some e)) : r.t ≤ e := by
  subst htr
  have hsplit : lapseMon n tolSecs subT (pre ++ .req r :: post)
      = post.foldl lapseStep (lapseStep (lapseMon n tolSecs subT pre) (.req r)) := by
    simp [lapseMon, List.foldl_append]
  rw [hsplit] at h
  have hstep := nil_of_fold_nil LapseMon.bad lapseStep lapse_fold_mono post _ h
  generalize lapseMon n tolSecs subT pre = m at hauto hcalm he hstep
  simp only [lapseStep, hk, hs, hauto, hcalm, lapsed, he, beq_self_eq_true, Bool.true_and, flagged] at hstep
  by_cases hlt : e < r.t
  · simp [hlt] at hstep
  · unfold Time at *; omega

/-- **lapse_sound_snapshot**: in an accepted trace, at every snapshot taken while auto-renewal is in force and the
    history is calm, no subscription in the publisher's table has passed its expiry -/
theorem lapse_sound_snapshot (n tolSecs subT : Nat) (tr pre post : List Ev) (t : Time) (a b : List Sid) (c d : Bool)
    (h : (lapseMon n tolSecs subT tr).bad = []) (htr : tr = pre ++ .snap t a b c d :: post)
    (hauto : (lapseMon n tolSecs subT pre).auto = true) (hcalm : (lapseMon n tolSecs subT pre).calm = true) :
    ∀ p ∈ (lapseMon n tolSecs subT pre).expiry, ∀ e, p.2 = some e → t ≤ e := by
  subst htr
  have hsplit : lapseMon n tolSecs subT (pre ++ .snap t a b c d :: post)
      = post.foldl lapseStep (lapseStep (lapseMon n tolSecs subT pre) (.snap t a b c d)) := by
    simp [lapseMon, List.foldl_append]
  rw [hsplit] at h
  have hstep := nil_of_fold_nil LapseMon.bad lapseStep lapse_fold_mono post _ h
  generalize lapseMon n tolSecs subT pre = m at hauto hcalm hstep
  simp only [lapseStep, hauto, hcalm, Bool.and_self, if_true] at hstep
  have := (flagged_nil _ _ _ hstep).2
  unfold noneExpired at this
  rw [List.all_eq_true] at this
  intro p hp e hpe
  have := this p hp
  rw [hpe] at this
  simpa using this

/-- `ok` is the conjunction of the five clause monitors -/
theorem ok_parts (n tolSecs subT : Nat) (tr : List Ev) (h : ok n tolSecs subT tr = true) :
    (aonMon n tr).bad = [] ∧ (lapseMon n tolSecs subT tr).bad = [] ∧ (repMon tr).bad = [] ∧ (cleanMon tr).bad = []
    ∧ yieldBad tr = [] := by
  simp only [ok, violations, List.isEmpty_iff, List.append_eq_nil_iff, List.reverse_eq_nil_iff] at h
  exact ⟨h.1.1.1.1, h.1.1.1.2, h.1.1.2, h.1.2, h.2⟩

/-- an accepted trace contains no `spin` -/
theorem yield_sound (tr : List Ev) (h : yieldBad tr = []) : ∀ t, Ev.spin t ∉ tr := by
  intro t hm
  unfold yieldBad at h
  split at h
  · cases h
  · rename_i hany
    apply hany
    rw [List.any_eq_true]
    exact ⟨_, hm, rfl⟩

end Upnp.C12
