/-
  C12 — helper lemmas: the invariant is preserved by reply delivery, by waiting, and by the caller
  operations; what `unsubAll` does to the routing table.
-/
import Upnp.Lemmas.C12Inv
namespace Upnp.C12
open Upnp PyDict

/-- a (re)granted subscription replaces the old SID by the granted one in both tables -/
theorem Core.grant {st : St} (h : Core st) (sid g : Sid) (svc : Nat) (d : Time) (hg : g < st.nextSid) :
    Core { st with routed := set (if g != sid then erase st.routed sid else st.routed) g svc,
                   subs := set (erase st.subs sid) g d } := by
  have hsn := nodup_keys_erase st.subs sid h.subsNodup
  refine ⟨nodup_keys_set _ _ _ hsn, ?_, ?_, ?_⟩
  · show (keys (set (if g != sid then erase st.routed sid else st.routed) g svc)).Nodup
    split
    · exact nodup_keys_set _ _ _ (nodup_keys_erase _ _ h.routedNodup)
    · exact nodup_keys_set _ _ _ h.routedNodup
  · intro s hs
    have hs' : s ∈ keys (set (if g != sid then erase st.routed sid else st.routed) g svc) := hs
    show s ∈ keys (set (erase st.subs sid) g d)
    rw [mem_keys_set] at hs' ⊢
    rcases hs' with rfl | hs'
    · exact Or.inl rfl
    · by_cases hgs : g = sid
      · subst hgs
        simp only [bne_self_eq_false, Bool.false_eq_true, if_false] at hs'
        by_cases e : s = g
        · exact Or.inl e
        · right; rw [mem_keys_erase _ _ _ h.subsNodup]; exact ⟨e, h.routedSub s hs'⟩
      · have : (g != sid) = true := by simp [hgs]
        simp only [this, if_true] at hs'
        rw [mem_keys_erase _ _ _ h.routedNodup] at hs'
        right; rw [mem_keys_erase _ _ _ h.subsNodup]; exact ⟨hs'.1, h.routedSub s hs'.2⟩
  · intro s hs
    have hs' : s ∈ keys (set (erase st.subs sid) g d) := hs
    rw [mem_keys_set] at hs'
    rcases hs' with rfl | hs'
    · exact hg
    · rw [mem_keys_erase _ _ _ h.subsNodup] at hs'; exact h.subsLt s hs'.2

/-- a fresh subscription is added to both tables -/
theorem Core.grantNew {st : St} (h : Core st) (g : Sid) (svc : Nat) (d : Time) (hg : g < st.nextSid) :
    Core { st with routed := set st.routed g svc, subs := set st.subs g d } := by
  refine ⟨nodup_keys_set _ _ _ h.subsNodup, nodup_keys_set _ _ _ h.routedNodup, ?_, ?_⟩
  · intro s hs
    have hs' : s ∈ keys (set st.routed g svc) := hs
    show s ∈ keys (set st.subs g d)
    rw [mem_keys_set] at hs' ⊢
    rcases hs' with e | hs'
    · exact Or.inl e
    · exact Or.inr (h.routedSub s hs')
  · intro s hs
    have hs' : s ∈ keys (set st.subs g d) := hs
    rw [mem_keys_set] at hs'
    rcases hs' with rfl | hs'
    · exact hg
    · exact h.subsLt s hs'

theorem Core.failed {st : St} (h : Core st) (sid : Sid) (svc : Nat) (r : Reac) (hr : sid ∉ keys st.routed) :
    Core (failed st sid svc r) := by
  have := h.eraseSub sid hr
  exact ⟨this.subsNodup, this.routedNodup, this.routedSub, this.subsLt⟩

theorem Core.setNow {st : St} (h : Core st) (t : Time) : Core { st with now := t } :=
  ⟨h.subsNodup, h.routedNodup, h.routedSub, h.subsLt⟩

theorem Core.emit {st : St} (h : Core st) (e : Ev) : Core (st.emit e) :=
  ⟨h.subsNodup, h.routedNodup, h.routedSub, h.subsLt⟩

theorem Core.snap {st : St} (h : Core st) : Core st.snap := h.emit _

/-- continuing the round after a reply, then (round over) back to the loop head -/
theorem cont_core (cfg : Cfg) (hd : cfg.delEarly = false) (rnow : Time) (rest : List (Sid × Time)) (st : St) (h : Core st) :
    Core (if (roundStep cfg rnow rest st).2 = true then (roundStep cfg rnow rest st).1
          else runHead cfg (headFuel (roundStep cfg rnow rest st).1) (roundStep cfg rnow rest st).1)
    ∧ TaskOk (if (roundStep cfg rnow rest st).2 = true then (roundStep cfg rnow rest st).1
          else runHead cfg (headFuel (roundStep cfg rnow rest st).1) (roundStep cfg rnow rest st).1) := by
  have hr := roundStep_core cfg hd rnow rest st h
  split
  · rename_i haw; exact ⟨hr.1, hr.2 haw⟩
  · exact runHead_core cfg hd _ _ hr.1

/-- delivering the reply of the in-flight request keeps the invariant -/
theorem deliver_core (cfg : Cfg) (hd : cfg.delEarly = false) (st : St) (h : Core st) (ht : TaskOk st) :
    Core (deliver cfg st) ∧ TaskOk (deliver cfg st) := by
  unfold deliver
  split
  · rename_i rnow rest sid svc fb at_ reac tmo granted htask
    simp only [TaskOk, htask] at ht
    obtain ⟨hcur, hfb, hg, _⟩ := ht
    have hglt : granted.getD sid < st.nextSid := by
      cases granted with
      | none => exact h.subsLt _ hcur
      | some g => exact hg g rfl
    simp only []
    split
    · exact cont_core cfg hd rnow rest _ (h.grant sid (granted.getD sid) svc _ hglt)
    · split
      · rename_i hfbt
        exact cont_core cfg hd rnow rest _ (h.failed sid svc reac (hfb hfbt))
      · split
        · refine cont_core cfg hd rnow rest _ ((h.eraseRouted sid).failed sid svc reac ?_)
          exact not_mem_erase_self _ _ h.routedNodup
        · have h1 := (h.eraseRouted sid).send .sub svc none
          refine ⟨⟨h1.subsNodup, h1.routedNodup, h1.routedSub, h1.subsLt⟩, ?_⟩
          simp only [TaskOk]
          refine ⟨hcur, fun _ => not_mem_erase_self _ _ h.routedNodup, ?_, fun hf => by cases hf⟩
          intro g hgg
          exact send_granted_lt _ .sub svc none (fun s e => by cases e) g hgg
  · exact ⟨h, ht⟩

theorem waitLoop_core (cfg : Cfg) (hd : cfg.delEarly = false) (H : Time) :
    ∀ (k : Nat) (st : St), Core st → TaskOk st → Core (waitLoop cfg H k st) ∧ TaskOk (waitLoop cfg H k st) := by
  intro k
  induction k with
  | zero =>
    intro st h ht
    exact ⟨⟨h.subsNodup, h.routedNodup, h.routedSub, h.subsLt⟩, ht⟩
  | succ k ih =>
    intro st h ht
    simp only [waitLoop]
    split
    · exact ⟨h, ht⟩
    · split
      · have := runHead_core cfg hd (headFuel st) st h
        exact ih _ this.1 this.2
      · rename_i u htask
        split
        · have := cont_core cfg hd u st.subs { st with now := u } (h.setNow u)
          exact ih _ this.1 this.2
        · exact ⟨h, ht⟩
      · rename_i rnow q cur svc fb replyAt reac tmo granted htask
        split
        · have ht' : TaskOk { st with now := replyAt } := by
            simp only [TaskOk, htask] at ht ⊢; exact ht
          have := deliver_core cfg hd { st with now := replyAt } (h.setNow replyAt) ht'
          exact ih _ this.1 this.2
        · exact ⟨h, ht⟩
      · exact ⟨h, ht⟩

theorem doWait_core (cfg : Cfg) (hd : cfg.delEarly = false) (d : Nat) (st : St) (h : Core st) (ht : TaskOk st) :
    Core (doWait cfg d st) ∧ TaskOk (doWait cfg d st) := by
  unfold doWait
  split
  · exact ⟨h, ht⟩
  · have := waitLoop_core cfg hd (st.now + (d : Int)) (waitFuel d st) st h ht
    simp only []
    split
    · exact this
    · refine ⟨(this.1.setNow _).snap, ?_⟩
      have h2 := this.2
      simp only [TaskOk, St.snap, St.emit] at h2 ⊢
      exact h2

/-! ### unsubscribing -/

theorem unsubAll_frame (sids : List Sid) :
    ∀ st : St, (unsubAll sids st).1.routed = sids.foldl (fun d s => erase d s) st.routed
      ∧ (unsubAll sids st).1.subs = st.subs ∧ (unsubAll sids st).1.task = st.task
      ∧ (unsubAll sids st).1.halted = st.halted ∧ (unsubAll sids st).1.avail = st.avail
      ∧ (unsubAll sids st).1.now = st.now ∧ st.nextSid ≤ (unsubAll sids st).1.nextSid := by
  induction sids with
  | nil => intro st; simp [unsubAll]
  | cons s r ih =>
    intro st
    simp only [unsubAll, List.foldl_cons]
    split
    · rename_i hnone
      have hr : s ∉ keys st.routed := (get?_eq_none_iff _ _).1 hnone
      have he : erase st.routed s = st.routed := by
        have : ∀ (d : PyDict Sid Nat), s ∉ keys d → erase d s = d := by
          intro d
          induction d with
          | nil => intro _; rfl
          | cons p t iht =>
            intro hm
            obtain ⟨k, v⟩ := p
            simp [keys] at hm
            have hk : ¬ k = s := fun e => hm.1 e.symm
            simp only [erase, hk, if_false]
            rw [iht (by simpa [keys] using hm.2)]
        exact this _ hr
      rw [he]; exact ih st
    · rename_i svc hsome
      have := ih (send { st with routed := erase st.routed s } .unsub svc (some s)).2
      simp only [send_routed, send_subs, send_task, send_halted, send_avail, send_now] at this
      refine ⟨this.1, this.2.1, this.2.2.1, this.2.2.2.1, this.2.2.2.2.1, this.2.2.2.2.2.1, ?_⟩
      exact Nat.le_trans (send_nextSid_le { st with routed := erase st.routed s } .unsub svc (some s)) this.2.2.2.2.2.2

theorem mem_keys_foldl_erase (l : List Sid) :
    ∀ (d : PyDict Sid Nat), (keys d).Nodup → ∀ k, k ∈ keys (l.foldl (fun d s => erase d s) d) ↔ k ∈ keys d ∧ k ∉ l := by
  induction l with
  | nil => intro d _ k; simp
  | cons s r ih =>
    intro d hn k
    simp only [List.foldl_cons]
    rw [ih (erase d s) (nodup_keys_erase _ _ hn) k, mem_keys_erase _ _ _ hn]
    simp only [List.mem_cons, not_or]
    constructor
    · rintro ⟨⟨h1, h2⟩, h3⟩; exact ⟨h2, h1, h3⟩
    · rintro ⟨h2, h1, h3⟩; exact ⟨⟨h1, h2⟩, h3⟩

/-- unsubscribing every SID of a list that covers the routing table empties the routing table -/
theorem foldl_erase_cover (l : List Sid) (d : PyDict Sid Nat) (hn : (keys d).Nodup) (hc : ∀ k, k ∈ keys d → k ∈ l) :
    l.foldl (fun d s => erase d s) d = [] := by
  have h := mem_keys_foldl_erase l d hn
  generalize l.foldl (fun d s => erase d s) d = r at h
  cases r with
  | nil => rfl
  | cons p t =>
    exfalso
    have := (h p.1).1 (by simp [keys])
    exact this.2 (hc _ this.1)

/-- **after `async_unsubscribe_services`** (any task state): bookkeeping empty, routing table empty,
    no renewal task -/
theorem unsubscribeServices_clean (st : St) (h : Core st) :
    (unsubscribeServices st).subs = [] ∧ (unsubscribeServices st).routed = [] ∧ (unsubscribeServices st).task = .none
    ∧ (unsubscribeServices st).halted = st.halted ∧ (unsubscribeServices st).avail = st.avail := by
  unfold unsubscribeServices
  have hf := unsubAll_frame (keys st.subs) { st with subs := [], task := .none }
  simp only [] at hf ⊢
  refine ⟨hf.2.1, ?_, hf.2.2.1, hf.2.2.2.1, hf.2.2.2.2.1⟩
  rw [hf.1]
  exact foldl_erase_cover _ _ h.routedNodup h.routedSub

theorem core_of_empty (st : St) (hs : st.subs = []) (hr : st.routed = []) : Core st :=
  ⟨by simp [hs, keys], by simp [hr, keys], by simp [hr, keys], by simp [hs, keys]⟩

end Upnp.C12
