/-
  C12 — helper lemmas for `all_or_nothing`: what the subscribe loop and the roll-back emit.
-/
import Upnp.Lemmas.C12Ops
import Upnp.Spec.C12
namespace Upnp.C12
open Upnp PyDict

/-- the subscribe loop only adds to the two tables -/
theorem subLoop_keeps (cfg : Cfg) (now0 : Time) (l : List Nat) :
    ∀ (st : St) (k : Sid), (k ∈ keys st.subs → k ∈ keys (subLoop cfg now0 l st).1.subs)
      ∧ (k ∈ keys st.routed → k ∈ keys (subLoop cfg now0 l st).1.routed) := by
  induction l with
  | nil => intro st k; exact ⟨id, id⟩
  | cons i rest ih =>
    intro st k
    simp only [subLoop]
    split
    · refine ⟨fun hk => (ih _ k).1 ?_, fun hk => (ih _ k).2 ?_⟩
      · show k ∈ keys (set _ _ _); rw [mem_keys_set]; exact Or.inr hk
      · show k ∈ keys (set _ _ _); rw [mem_keys_set]; exact Or.inr hk
    · exact ⟨id, id⟩

theorem subLoop_keeps_subs (cfg : Cfg) (now0 : Time) (l : List Nat) (st : St) (k : Sid) (h : k ∈ keys st.subs) :
    k ∈ keys (subLoop cfg now0 l st).1.subs := (subLoop_keeps cfg now0 l st k).1 h
theorem subLoop_keeps_routed (cfg : Cfg) (now0 : Time) (l : List Nat) (st : St) (k : Sid) (h : k ∈ keys st.routed) :
    k ∈ keys (subLoop cfg now0 l st).1.routed := (subLoop_keeps cfg now0 l st k).2 h

/-- the state after an accepted SUBSCRIBE for service `i` -/
def subNext (cfg : Cfg) (now0 : Time) (i : Nat) (st : St) : St :=
  { (send st .sub i none).2 with
      now := (send st .sub i none).2.now + ((send st .sub i none).1.lat : Int),
      routed := set (send st .sub i none).2.routed ((send st .sub i none).1.granted.getD 0) i,
      subs := set (send st .sub i none).2.subs ((send st .sub i none).1.granted.getD 0)
                (now0 + ms ((send st .sub i none).1.tmo.secs cfg)) }

theorem subLoop_cons_acc (cfg : Cfg) (now0 : Time) (i : Nat) (rest : List Nat) (st : St)
    (hacc : (send st .sub i none).1.reac.accepts = true) :
    subLoop cfg now0 (i :: rest) st = subLoop cfg now0 rest (subNext cfg now0 i st) := by
  simp only [subLoop, hacc, if_true, subNext]

theorem subLoop_cons_rej (cfg : Cfg) (now0 : Time) (i : Nat) (rest : List Nat) (st : St)
    (hacc : (send st .sub i none).1.reac.accepts = false) :
    subLoop cfg now0 (i :: rest) st =
      ({ (send st .sub i none).2 with now := (send st .sub i none).2.now + ((send st .sub i none).1.lat : Int) },
        some (send st .sub i none).1.reac) := by
  simp only [subLoop, hacc, Bool.false_eq_true, if_false]

theorem subNext_core (cfg : Cfg) (now0 : Time) (i : Nat) (st : St) (h : Core st)
    (hacc : (send st .sub i none).1.reac.accepts = true) : Core (subNext cfg now0 i st) := by
  have hg := send_sub_granted st i hacc
  have hc : Core { (send st .sub i none).2 with now := (send st .sub i none).2.now + ((send st .sub i none).1.lat : Int) } :=
    (h.send .sub i none).setNow _
  exact hc.grantNew ((send st .sub i none).1.granted.getD 0) i (now0 + ms ((send st .sub i none).1.tmo.secs cfg)) (by
    show (send st .sub i none).1.granted.getD 0 < (send st .sub i none).2.nextSid
    rw [hg.1, hg.2]; exact Nat.lt_succ_self _)

/-- the requests of an uninterrupted subscribe loop over the service list `l`, from `st` to `res` -/
structure SubRun (l : List Nat) (st : St) (res : St × Option Reac) (reqs : List Req) : Prop where
  trace : res.1.rtrace = (reqs.reverse.map Ev.req) ++ st.rtrace
  kinds : ∀ r ∈ reqs, r.kind = .sub
  svcs : ∃ k, reqs.map (·.svc) = l.take k
  /-- SIDs granted in this loop are in the bookkeeping and routed afterwards -/
  held : ∀ g ∈ grantedSids reqs, g ∈ keys res.1.subs ∧ g ∈ keys res.1.routed
  /-- nothing else was added to the bookkeeping -/
  only : ∀ s ∈ keys res.1.subs, s ∈ keys st.subs ∨ s ∈ grantedSids reqs
  count : res.1.subs.length = st.subs.length + (grantedSids reqs).length
  okCase : res.2 = none → reqs.length = l.length ∧ (∀ r ∈ reqs, r.reac.accepts = true)
      ∧ (grantedSids reqs).length = l.length
  failCase : ∀ e, res.2 = some e → ∃ r ∈ reqs, r.reac.accepts = false

theorem subLoop_run (cfg : Cfg) (now0 : Time) (l : List Nat) :
    ∀ st : St, Core st → ∃ reqs, SubRun l st (subLoop cfg now0 l st) reqs := by
  induction l with
  | nil =>
    intro st _
    exact ⟨[], ⟨by simp [subLoop], by simp, ⟨0, by simp⟩, by simp [grantedSids], fun s hs => Or.inl hs,
      by simp [subLoop, grantedSids], by simp [subLoop, grantedSids], by simp [subLoop]⟩⟩
  | cons i rest ih =>
    intro st h
    by_cases hacc : (send st .sub i none).1.reac.accepts = true
    · have hg := send_sub_granted st i hacc
      obtain ⟨reqs, hr⟩ := ih _ (subNext_core cfg now0 i st h hacc)
      have hgd : (send st .sub i none).1.granted.getD 0 = st.nextSid := by rw [hg.1]; rfl
      have hfresh : st.nextSid ∉ keys st.subs := fun hm => Nat.lt_irrefl _ (h.subsLt _ hm)
      have hsubs : (subNext cfg now0 i st).subs = set st.subs st.nextSid (now0 + ms ((send st .sub i none).1.tmo.secs cfg)) := by
        simp only [subNext, hgd, send_subs]
      have hrouted : (subNext cfg now0 i st).routed = set st.routed st.nextSid i := by
        simp only [subNext, hgd, send_routed]
      have htr : (subNext cfg now0 i st).rtrace = .req (send st .sub i none).1 :: st.rtrace := rfl
      refine ⟨(send st .sub i none).1 :: reqs, ?_⟩
      rw [subLoop_cons_acc cfg now0 i rest st hacc]
      refine ⟨?_, ?_, ?_, ?_, ?_, ?_, ?_, ?_⟩
      · rw [hr.trace, htr]; simp
      · intro r hr'
        rcases List.mem_cons.1 hr' with rfl | hr'
        · rfl
        · exact hr.kinds r hr'
      · obtain ⟨k, hk⟩ := hr.svcs
        exact ⟨k + 1, by simp [hk]⟩
      · intro g hgm
        simp only [grantedSids, List.filterMap_cons, hg.1] at hgm
        rcases List.mem_cons.1 hgm with rfl | hgm
        · refine ⟨subLoop_keeps_subs cfg now0 rest _ _ ?_, subLoop_keeps_routed cfg now0 rest _ _ ?_⟩
          · rw [hsubs, mem_keys_set]; exact Or.inl rfl
          · rw [hrouted, mem_keys_set]; exact Or.inl rfl
        · exact hr.held g hgm
      · intro s hs
        rcases hr.only s hs with h1 | h1
        · rw [hsubs, mem_keys_set] at h1
          rcases h1 with rfl | h1
          · right; simp [grantedSids, hg.1]
          · exact Or.inl h1
        · right
          simp only [grantedSids, List.filterMap_cons, hg.1]
          exact List.mem_cons_of_mem _ h1
      · rw [hr.count, hsubs, length_set, if_neg hfresh]
        simp only [grantedSids, List.filterMap_cons, hg.1, List.length_cons]
        omega
      · intro hnone
        obtain ⟨a, b, c⟩ := hr.okCase hnone
        refine ⟨by simp [a], ?_, by simp [grantedSids, hg.1] at c ⊢; exact c⟩
        intro r hr'
        rcases List.mem_cons.1 hr' with rfl | hr'
        · exact hacc
        · exact b r hr'
      · intro e he
        obtain ⟨r, hr1, hr2⟩ := hr.failCase e he
        exact ⟨r, List.mem_cons_of_mem _ hr1, hr2⟩
    · have hacc' : (send st .sub i none).1.reac.accepts = false := by simpa using hacc
      have hgn : (send st .sub i none).1.granted = none := by
        unfold send at hacc' ⊢
        simp only at hacc' ⊢
        simp only [hacc', Bool.false_and, Bool.false_eq_true, if_false]
      refine ⟨[(send st .sub i none).1], ?_⟩
      rw [subLoop_cons_rej cfg now0 i rest st hacc']
      refine ⟨by simp, by simp, ⟨1, by simp⟩, by simp [grantedSids, hgn], ?_, by simp [grantedSids, hgn], by simp, ?_⟩
      · intro s hs; exact Or.inl hs
      · intro e _; exact ⟨_, List.mem_singleton.2 rfl, hacc'⟩

/-! ### the roll-back -/

theorem unsubAll_run (sids : List Sid) :
    ∀ st : St, (keys st.routed).Nodup → sids.Nodup →
      ∃ ureqs : List Req, (unsubAll sids st).1.rtrace = (ureqs.reverse.map Ev.req) ++ st.rtrace
        ∧ (∀ r ∈ ureqs, r.kind = .unsub)
        ∧ ∀ s ∈ sids, s ∈ keys st.routed → ∃ r ∈ ureqs, r.sid = some s := by
  induction sids with
  | nil => intro st _ _; exact ⟨[], by simp [unsubAll], by simp, by simp⟩
  | cons s r ih =>
    intro st hn hs
    have hsr : s ∉ r := (List.nodup_cons.1 hs).1
    have hr : r.Nodup := (List.nodup_cons.1 hs).2
    simp only [unsubAll]
    split
    · rename_i hnone
      obtain ⟨ureqs, h1, h2, h3⟩ := ih st hn hr
      refine ⟨ureqs, h1, h2, ?_⟩
      intro s' hs' hrt
      rcases List.mem_cons.1 hs' with rfl | hs'
      · exact absurd hrt ((get?_eq_none_iff _ _).1 hnone)
      · exact h3 s' hs' hrt
    · rename_i svc hsome
      obtain ⟨ureqs, h1, h2, h3⟩ := ih (send { st with routed := erase st.routed s } .unsub svc (some s)).2
        (nodup_keys_erase _ _ hn) hr
      refine ⟨(send { st with routed := erase st.routed s } .unsub svc (some s)).1 :: ureqs, ?_, ?_, ?_⟩
      · simp only [h1, send_rtrace]; simp
      · intro q hq
        rcases List.mem_cons.1 hq with rfl | hq
        · rfl
        · exact h2 q hq
      · intro s' hs' hrt
        rcases List.mem_cons.1 hs' with rfl | hs'
        · exact ⟨_, List.mem_cons_self, rfl⟩
        · have hne : s' ≠ s := fun e => hsr (e ▸ hs')
          have : s' ∈ keys (send { st with routed := erase st.routed s } .unsub svc (some s)).2.routed := by
            show s' ∈ keys (erase st.routed s)
            rw [mem_keys_erase _ _ _ hn]; exact ⟨hne, hrt⟩
          obtain ⟨q, hq1, hq2⟩ := h3 s' hs' this
          exact ⟨q, List.mem_cons_of_mem _ hq1, hq2⟩

/-! ### list facts used by the clause predicates -/

theorem nodupB_iff (l : List Nat) : nodupB l = true ↔ l.Nodup := by
  induction l with
  | nil => simp [nodupB]
  | cons a r ih => simp [nodupB, ih]

theorem subReqs_of_kinds (reqs : List Req) (h : ∀ r ∈ reqs, r.kind = .sub) : subReqs reqs = reqs := by
  unfold subReqs; rw [List.filter_eq_self]; intro r hr; simp [h r hr]

theorem unsubReqs_of_kinds (reqs : List Req) (h : ∀ r ∈ reqs, r.kind = .sub) : unsubReqs reqs = [] := by
  unfold unsubReqs; rw [List.filter_eq_nil_iff]; intro r hr; simp [h r hr]

theorem subReqs_of_unsub (reqs : List Req) (h : ∀ r ∈ reqs, r.kind = .unsub) : subReqs reqs = [] := by
  unfold subReqs; rw [List.filter_eq_nil_iff]; intro r hr; simp [h r hr]

theorem unsubReqs_of_unsub (reqs : List Req) (h : ∀ r ∈ reqs, r.kind = .unsub) : unsubReqs reqs = reqs := by
  unfold unsubReqs; rw [List.filter_eq_self]; intro r hr; simp [h r hr]

/-- "all and only the profile's services, each once" for a prefix of `0 .. n-1` -/
theorem onlyProfile_of_prefix (n : Nat) (reqs : List Req) (hk : ∀ r ∈ reqs, r.kind = .sub)
    (hs : ∃ k, reqs.map (·.svc) = (List.range n).take k) : onlyProfileServices n reqs = true := by
  obtain ⟨k, hk'⟩ := hs
  unfold onlyProfileServices
  rw [subReqs_of_kinds reqs hk, hk']
  simp only [Bool.and_eq_true, List.all_eq_true, decide_eq_true_eq]
  refine ⟨?_, ?_⟩
  · intro r hr
    have : r.svc ∈ reqs.map (·.svc) := List.mem_map_of_mem hr
    rw [hk'] at this
    exact List.mem_range.1 (List.mem_of_mem_take this)
  · rw [nodupB_iff]
    exact (List.take_sublist k _).nodup List.nodup_range

theorem mem_insertSid (a s : Sid) (l : List Sid) : s ∈ insertSid a l ↔ s = a ∨ s ∈ l := by
  induction l with
  | nil => simp [insertSid]
  | cons b r ih =>
    simp only [insertSid]
    split
    · simp
    · simp only [List.mem_cons, ih]
      constructor
      · rintro (h | h | h)
        · exact Or.inr (Or.inl h)
        · exact Or.inl h
        · exact Or.inr (Or.inr h)
      · rintro (h | h | h)
        · exact Or.inr (Or.inl h)
        · exact Or.inl h
        · exact Or.inr (Or.inr h)

theorem mem_sortSids (l : List Sid) (s : Sid) : s ∈ sortSids l ↔ s ∈ l := by
  unfold sortSids
  induction l with
  | nil => simp
  | cons a r ih => simp only [List.foldr_cons, mem_insertSid, ih, List.mem_cons]

end Upnp.C12
