/-
  C12 — helper lemmas for the trace-level theorems: which kinds of events each step appends, and how the
  clause monitors of `Spec/C12.lean` fold over them.
-/
import Upnp.Lemmas.C12Sub
namespace Upnp.C12
open Upnp PyDict

/-- events only a caller operation emits -/
def Ev.isCallRet : Ev → Bool
  | .call .. | .ret .. => true
  | _ => false

def Ev.isSnap : Ev → Bool
  | .snap .. => true
  | _ => false

/-- the renewal task's own events: requests, callbacks, the spin marker -/
def Ev.isTaskEv : Ev → Bool
  | .req _ | .cb .. | .spin _ => true
  | _ => false

/-! ### what the renewal task appends -/

theorem roundStep_taskEvs (cfg : Cfg) (rnow : Time) (q : List (Sid × Time)) :
    ∀ st : St, ∃ more, (roundStep cfg rnow q st).1.rtrace = more ++ st.rtrace ∧ ∀ e ∈ more, e.isTaskEv = true := by
  induction q with
  | nil => intro st; exact ⟨[], by simp [roundStep], by simp⟩
  | cons p rest ih =>
    intro st
    obtain ⟨sid, rt⟩ := p
    simp only [roundStep]
    split
    · exact ih st
    · split
      · obtain ⟨more, h1, h2⟩ := ih { st with subs := erase st.subs sid }
        exact ⟨more, h1, h2⟩
      · rename_i svc _
        split
        · exact ⟨[.req (send { st with subs := erase st.subs sid } .renew svc (some sid)).1], by simp, by simp [Ev.isTaskEv]⟩
        · exact ⟨[.req (send st .renew svc (some sid)).1], by simp, by simp [Ev.isTaskEv]⟩

theorem runHead_taskEvs (cfg : Cfg) :
    ∀ (f : Nat) (st : St), ∃ more, (runHead cfg f st).rtrace = more ++ st.rtrace ∧ ∀ e ∈ more, e.isTaskEv = true := by
  intro f
  induction f with
  | zero => intro st; exact ⟨[.spin st.now], by simp [runHead], by simp [Ev.isTaskEv]⟩
  | succ f ih =>
    intro st
    simp only [runHead]
    split
    · exact ⟨[], by simp, by simp⟩
    · split
      · exact ⟨[], by simp, by simp⟩
      · obtain ⟨m1, h1, h2⟩ := roundStep_taskEvs cfg st.now st.subs st
        split
        · exact ⟨m1, h1, h2⟩
        · obtain ⟨m2, g1, g2⟩ := ih (roundStep cfg st.now st.subs st).1
          refine ⟨m2 ++ m1, by rw [g1, h1, List.append_assoc], ?_⟩
          intro e he
          rcases List.mem_append.1 he with he | he
          · exact g2 e he
          · exact h2 e he

theorem cont_taskEvs (cfg : Cfg) (rnow : Time) (rest : List (Sid × Time)) (st : St) :
    ∃ more, (if (roundStep cfg rnow rest st).2 = true then (roundStep cfg rnow rest st).1
             else runHead cfg (headFuel (roundStep cfg rnow rest st).1) (roundStep cfg rnow rest st).1).rtrace = more ++ st.rtrace
      ∧ ∀ e ∈ more, e.isTaskEv = true := by
  obtain ⟨m1, h1, h2⟩ := roundStep_taskEvs cfg rnow rest st
  split
  · exact ⟨m1, h1, h2⟩
  · obtain ⟨m2, g1, g2⟩ := runHead_taskEvs cfg (headFuel (roundStep cfg rnow rest st).1) (roundStep cfg rnow rest st).1
    refine ⟨m2 ++ m1, by rw [g1, h1, List.append_assoc], ?_⟩
    intro e he
    rcases List.mem_append.1 he with he | he
    · exact g2 e he
    · exact h2 e he

theorem deliver_taskEvs (cfg : Cfg) (st : St) :
    ∃ more, (deliver cfg st).rtrace = more ++ st.rtrace ∧ ∀ e ∈ more, e.isTaskEv = true := by
  unfold deliver
  split
  · rename_i rnow rest sid svc fb at_ reac tmo granted _
    simp only []
    split
    · exact cont_taskEvs cfg rnow rest _
    · split
      · obtain ⟨m, h1, h2⟩ := cont_taskEvs cfg rnow rest (failed st sid svc reac)
        refine ⟨m ++ [.cb st.now svc 0 (st.avail && reac != .unreach)], by rw [h1]; simp [failed], ?_⟩
        intro e he
        rcases List.mem_append.1 he with he | he
        · exact h2 e he
        · simp at he; subst he; rfl
      · split
        · obtain ⟨m, h1, h2⟩ := cont_taskEvs cfg rnow rest (failed { st with routed := erase st.routed sid } sid svc reac)
          refine ⟨m ++ [.cb st.now svc 0 (st.avail && reac != .unreach)], by rw [h1]; simp [failed], ?_⟩
          intro e he
          rcases List.mem_append.1 he with he | he
          · exact h2 e he
          · simp at he; subst he; rfl
        · exact ⟨[.req (send { st with routed := erase st.routed sid } .sub svc none).1], by simp, by simp [Ev.isTaskEv]⟩
  · exact ⟨[], by simp, by simp⟩

theorem waitLoop_taskEvs (cfg : Cfg) (H : Time) :
    ∀ (k : Nat) (st : St), ∃ more, (waitLoop cfg H k st).rtrace = more ++ st.rtrace ∧ ∀ e ∈ more, e.isTaskEv = true := by
  intro k
  induction k with
  | zero => intro st; exact ⟨[.spin st.now], by simp [waitLoop], by simp [Ev.isTaskEv]⟩
  | succ k ih =>
    intro st
    simp only [waitLoop]
    split
    · exact ⟨[], by simp, by simp⟩
    · have chain : ∀ (X : St), (∃ m1, X.rtrace = m1 ++ st.rtrace ∧ ∀ e ∈ m1, e.isTaskEv = true) →
          ∃ more, (waitLoop cfg H k X).rtrace = more ++ st.rtrace ∧ ∀ e ∈ more, e.isTaskEv = true := by
        intro X ⟨m1, h1, h2⟩
        obtain ⟨m2, g1, g2⟩ := ih X
        refine ⟨m2 ++ m1, by rw [g1, h1, List.append_assoc], ?_⟩
        intro e he
        rcases List.mem_append.1 he with he | he
        · exact g2 e he
        · exact h2 e he
      split
      · exact chain _ (runHead_taskEvs cfg _ st)
      · rename_i u _
        split
        · exact chain _ (cont_taskEvs cfg u st.subs { st with now := u })
        · exact ⟨[], by simp, by simp⟩
      · rename_i replyAt _ _ _ _
        split
        · exact chain _ (deliver_taskEvs cfg { st with now := replyAt })
        · exact ⟨[], by simp, by simp⟩
      · exact ⟨[], by simp, by simp⟩

/-- `doWait` appends task events and, unless the run halted, a final snapshot -/
theorem doWait_shape (cfg : Cfg) (d : Nat) (st : St) :
    ∃ more, (∀ e ∈ more, e.isTaskEv = true) ∧
      ((doWait cfg d st).rtrace = more ++ st.rtrace
       ∨ ∃ t subs routed task av, (doWait cfg d st).rtrace = .snap t subs routed task av :: more ++ st.rtrace) := by
  unfold doWait
  split
  · exact ⟨[], by simp, Or.inl (by simp)⟩
  · obtain ⟨more, h1, h2⟩ := waitLoop_taskEvs cfg (st.now + (d : Int)) (waitFuel d st) st
    simp only []
    split
    · exact ⟨more, h2, Or.inl h1⟩
    · generalize hW : waitLoop cfg (st.now + (d : Int)) (waitFuel d st) st = W at h1
      refine ⟨more, h2, Or.inr ⟨st.now + (d : Int), keys W.subs, sortSids (keys W.routed), W.task.alive, W.avail, ?_⟩⟩
      simp only [St.snap, St.emit]
      rw [h1]; rfl

/-! ### the shape of `doUnsub` -/

theorem doUnsub_shape (cfg : Cfg) (hd : cfg.delEarly = false) (st : St) (h : Core st) (ht : TaskOk st)
    (hh : st.halted = false) :
    ∃ sevs, (∀ e ∈ sevs, e.isTaskEv = true) ∧
      (settle cfg (st.emit (.call st.now .unsub))).rtrace = sevs ++ .call st.now .unsub :: st.rtrace ∧
      (((settle cfg (st.emit (.call st.now .unsub))).halted = true ∧
          (doUnsub cfg st) = settle cfg (st.emit (.call st.now .unsub)))
       ∨ ((settle cfg (st.emit (.call st.now .unsub))).halted = false ∧
          ∃ (ureqs : List Req) (t : Time) (av : Bool), (∀ r ∈ ureqs, r.kind = .unsub) ∧
            (doUnsub cfg st).rtrace =
              .snap t [] [] false av :: .ret t .unsub none :: (ureqs.reverse.map Ev.req) ++ sevs ++ .call st.now .unsub :: st.rtrace)) := by
  have hsev : ∃ sevs, (settle cfg (st.emit (.call st.now .unsub))).rtrace = sevs ++ (st.emit (.call st.now .unsub)).rtrace
      ∧ ∀ e ∈ sevs, e.isTaskEv = true := by
    unfold settle
    split
    · exact runHead_taskEvs cfg _ _
    · exact ⟨[], by simp, by simp⟩
  obtain ⟨sevs, hs1, hs2⟩ := hsev
  refine ⟨sevs, hs2, hs1, ?_⟩
  have hc := (settle_core cfg hd _ (h.emit (.call st.now .unsub)) (by simpa [TaskOk, St.emit] using ht)).1
  by_cases hS : (settle cfg (st.emit (.call st.now .unsub))).halted = true
  · left
    refine ⟨hS, ?_⟩
    unfold doUnsub
    simp only [hh, Bool.false_eq_true, if_false, hS, if_true]
  · right
    have hS' : (settle cfg (st.emit (.call st.now .unsub))).halted = false := by simpa using hS
    refine ⟨hS', ?_⟩
    have hu := unsubscribeServices_clean _ hc
    obtain ⟨ureqs, hu1, hu2, _⟩ := unsubAll_run (keys (settle cfg (st.emit (.call st.now .unsub))).subs)
      { settle cfg (st.emit (.call st.now .unsub)) with subs := [], task := .none } hc.routedNodup hc.subsNodup
    have htrace : (unsubscribeServices (settle cfg (st.emit (.call st.now .unsub)))).rtrace
        = (ureqs.reverse.map Ev.req) ++ (settle cfg (st.emit (.call st.now .unsub))).rtrace := by
      unfold unsubscribeServices; exact hu1
    refine ⟨ureqs, (unsubscribeServices (settle cfg (st.emit (.call st.now .unsub)))).now,
      (unsubscribeServices (settle cfg (st.emit (.call st.now .unsub)))).avail, hu2, ?_⟩
    unfold doUnsub
    simp only [hh, Bool.false_eq_true, if_false, hS']
    have hs1' : (settle cfg (st.emit (.call st.now .unsub))).rtrace = sevs ++ .call st.now .unsub :: st.rtrace := hs1
    generalize settle cfg (st.emit (.call st.now .unsub)) = S at hu htrace hs1' ⊢
    generalize unsubscribeServices S = U at hu htrace ⊢
    simp only [St.snap, St.emit, hu.1, hu.2.1, hu.2.2.1, keys, List.map_nil, sortSids_nil, TaskPc.alive, htrace, hs1']
    simp

end Upnp.C12
