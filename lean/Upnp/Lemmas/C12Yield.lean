/-
  C12 — helper lemmas for `yield_trace_partial`: a run that has not halted has emitted no `spin`.
-/
import Upnp.Lemmas.C12Rep
namespace Upnp.C12
open Upnp PyDict

def Ev.isSpin : Ev → Bool
  | .spin _ => true
  | _ => false

/-- the events appended between `old` and `new` contain no watchdog marker -/
@[reducible] def NoSpinSince (old new : St) : Prop :=
  ∃ evs, new.rtrace = evs ++ old.rtrace ∧ ∀ e ∈ evs, e.isSpin = false

theorem NoSpinSince.refl (st : St) : NoSpinSince st st := ⟨[], by simp, by simp⟩

theorem NoSpinSince.trans {a b c : St} (h1 : NoSpinSince a b) (h2 : NoSpinSince b c) : NoSpinSince a c := by
  obtain ⟨e1, t1, p1⟩ := h1
  obtain ⟨e2, t2, p2⟩ := h2
  refine ⟨e2 ++ e1, by rw [t2, t1, List.append_assoc], ?_⟩
  intro e he
  rcases List.mem_append.1 he with he | he
  · exact p2 e he
  · exact p1 e he

/-- a task step that does not halt appends no marker -/
theorem outcome_nospin {old new : St} (ho : Outcome old new) (hold : old.halted = false) (hnew : new.halted = false) :
    NoSpinSince old new := by
  cases ho with
  | quiet a b c d e => exact ⟨[], by simpa using a, by simp⟩
  | spun t a b c d e => rw [c] at hnew; cases hnew
  | sent r rn q s a b c d e f g => exact ⟨[.req r], by simpa using a, by simp [Ev.isSpin]⟩

theorem outcome_halted_of_old {old new : St} (ho : Outcome old new) (hold : old.halted = true) : new.halted = true := by
  cases ho with
  | quiet a b c d e => rw [c]; exact hold
  | spun t a b c d e => exact c
  | sent r rn q s a b c d e f g => rw [e]; exact hold

theorem cont_nospin (cfg : Cfg) (hs : cfg.skipStale = false) (hd : cfg.delEarly = false) (rnow : Time)
    (rest : List (Sid × Time)) (S : St) (hold : S.halted = false)
    (hnew : (if (roundStep cfg rnow rest S).2 = true then (roundStep cfg rnow rest S).1
          else runHead cfg (headFuel (roundStep cfg rnow rest S).1) (roundStep cfg rnow rest S).1).halted = false) :
    NoSpinSince S (if (roundStep cfg rnow rest S).2 = true then (roundStep cfg rnow rest S).1
          else runHead cfg (headFuel (roundStep cfg rnow rest S).1) (roundStep cfg rnow rest S).1) :=
  outcome_nospin (cont_outcome cfg hs hd rnow rest S) hold hnew

theorem deliver_nospin (cfg : Cfg) (hs : cfg.skipStale = false) (hd : cfg.delEarly = false) (st : St)
    (hold : st.halted = false) (hnew : (deliver cfg st).halted = false) : NoSpinSince st (deliver cfg st) := by
  cases htask : st.task with
  | inflight rnow rest sid svc fb at_ reac tmo granted =>
    unfold deliver at hnew ⊢
    simp only [htask] at hnew ⊢
    by_cases hacc : reac.accepts = true
    · simp only [hacc, if_true] at hnew ⊢
      exact cont_nospin cfg hs hd rnow rest _ hold hnew
    · have hacc' : reac.accepts = false := by simpa using hacc
      simp only [hacc', Bool.false_eq_true, if_false] at hnew ⊢
      by_cases hfb : fb = true
      · simp only [hfb, if_true] at hnew ⊢
        have h1 : NoSpinSince st (failed st sid svc reac) := ⟨[_], rfl, by simp [Ev.isSpin]⟩
        exact h1.trans (cont_nospin cfg hs hd rnow rest _ hold hnew)
      · have hfb' : fb = false := by simpa using hfb
        simp only [hfb', Bool.false_eq_true, if_false] at hnew ⊢
        by_cases hun : (reac == Reac.unreach) = true
        · simp only [hun, if_true] at hnew ⊢
          have h1 : NoSpinSince st (failed { st with routed := erase st.routed sid, task := .inflight rnow rest sid svc false at_ reac tmo granted } sid svc reac) :=
            ⟨[_], rfl, by simp [Ev.isSpin]⟩
          exact h1.trans (cont_nospin cfg hs hd rnow rest _ hold hnew)
        · have hun' : (reac == Reac.unreach) = false := by simpa using hun
          simp only [hun', Bool.false_eq_true, if_false]
          exact ⟨[_], rfl, by simp [Ev.isSpin]⟩
  | none => unfold deliver; simp only [htask]; exact NoSpinSince.refl st
  | fresh => unfold deliver; simp only [htask]; exact NoSpinSince.refl st
  | sleeping u => unfold deliver; simp only [htask]; exact NoSpinSince.refl st
  | done => unfold deliver; simp only [htask]; exact NoSpinSince.refl st

theorem deliver_halted_of_old (cfg : Cfg) (hs : cfg.skipStale = false) (hd : cfg.delEarly = false) (st : St)
    (hold : st.halted = true) : (deliver cfg st).halted = true := by
  unfold deliver
  split
  · rename_i rnow rest sid svc fb at_ reac tmo granted htask
    simp only []
    split
    · exact outcome_halted_of_old (cont_outcome cfg hs hd rnow rest _) hold
    · split
      · exact outcome_halted_of_old (cont_outcome cfg hs hd rnow rest _) hold
      · split
        · exact outcome_halted_of_old (cont_outcome cfg hs hd rnow rest _) hold
        · exact hold
  · exact hold

theorem waitLoop_nospin (cfg : Cfg) (hs : cfg.skipStale = false) (hd : cfg.delEarly = false) (H : Time) :
    ∀ (k : Nat) (st : St), st.halted = false → (waitLoop cfg H k st).halted = false →
      NoSpinSince st (waitLoop cfg H k st) := by
  intro k
  induction k with
  | zero => intro st _ h; simp [waitLoop] at h
  | succ k ih =>
    intro st hold
    -- one task step `X` (starting from a state with st's trace), then the rest of the wait
    have chain : ∀ X : St, (X.halted = false → NoSpinSince st X) → (waitLoop cfg H k X).halted = false →
        NoSpinSince st (waitLoop cfg H k X) := by
      intro X hX hres
      have hXh : X.halted = false := by
        cases hx : X.halted with
        | false => rfl
        | true =>
          have : (waitLoop cfg H k X).halted = true := by
            cases k with
            | zero => simp [waitLoop]
            | succ k => simp [waitLoop, hx]
          rw [this] at hres; cases hres
      exact (hX hXh).trans (ih X hXh hres)
    simp only [waitLoop]
    split
    · rename_i hh; rw [hold] at hh; cases hh
    · split
      · intro hres
        exact chain _ (fun hx => outcome_nospin (runHead_outcome cfg hs hd _ st) hold hx) hres
      · rename_i u _
        split
        · intro hres
          refine chain _ (fun hx => ?_) hres
          have h1 : NoSpinSince { st with now := u } _ :=
            outcome_nospin (cont_outcome cfg hs hd u st.subs { st with now := u }) hold hx
          exact h1
        · intro _; exact NoSpinSince.refl st
      · rename_i replyAt _ _ _ _
        split
        · intro hres
          refine chain _ (fun hx => ?_) hres
          have h1 : NoSpinSince { st with now := replyAt } _ := deliver_nospin cfg hs hd { st with now := replyAt } hold hx
          exact h1
        · intro _; exact NoSpinSince.refl st
      · intro _; exact NoSpinSince.refl st

/-- no marker in the trace as long as the run has not halted -/
def NoSpinInv (st : St) : Prop := st.halted = false → ∀ e ∈ st.rtrace, e.isSpin = false

theorem noSpinInv_of_since {old new : St} (h : NoSpinInv old) (hold : old.halted = false) (hs : NoSpinSince old new) :
    NoSpinInv new := by
  intro _ e he
  obtain ⟨evs, htr, hev⟩ := hs
  rw [htr] at he
  rcases List.mem_append.1 he with he | he
  · exact hev e he
  · exact h hold e he

theorem noSpin_doWait (cfg : Cfg) (hs : cfg.skipStale = false) (hd : cfg.delEarly = false) (d : Nat) (st : St)
    (h : NoSpinInv st) : NoSpinInv (doWait cfg d st) := by
  unfold doWait
  split
  · exact h
  · rename_i hh
    have hh' : st.halted = false := by simpa using hh
    simp only []
    split
    · rename_i hW; intro hf; rw [hW] at hf; cases hf
    · rename_i hW
      have hW' : (waitLoop cfg (st.now + (d : Int)) (waitFuel d st) st).halted = false := by simpa using hW
      have := waitLoop_nospin cfg hs hd _ _ st hh' hW'
      refine noSpinInv_of_since h hh' (this.trans ⟨[_], rfl, by simp [Ev.isSpin]⟩)

theorem noSpin_doUnsub (cfg : Cfg) (hs : cfg.skipStale = false) (hd : cfg.delEarly = false) (st : St)
    (hc : Core st) (ht : TaskOk st) (h : NoSpinInv st) : NoSpinInv (doUnsub cfg st) := by
  by_cases hh : st.halted = true
  · have : doUnsub cfg st = st := by simp [doUnsub, hh]
    rw [this]; exact h
  have hh' : st.halted = false := by simpa using hh
  obtain ⟨sevs, hsev, hS, hcase⟩ := doUnsub_shape cfg hd st hc ht hh'
  have hnohalt : (settle cfg (st.emit (.call st.now .unsub))).halted = false := by
    rw [settle_halted cfg hs (st.emit (.call st.now .unsub)) hc.subsNodup]; exact hh'
  rcases hcase with ⟨hbad, _⟩ | ⟨_, ureqs, t, av, _, htr⟩
  · rw [hnohalt] at hbad; cases hbad
  -- the settle events contain no marker: settle did not halt
  have hsev' : ∀ e ∈ sevs, e.isSpin = false := by
    have ho : NoSpinSince (st.emit (.call st.now .unsub)) (settle cfg (st.emit (.call st.now .unsub))) := by
      unfold settle at hnohalt ⊢
      split
      · rename_i hf
        simp only [hf] at hnohalt
        exact outcome_nospin (runHead_outcome cfg hs hd _ _) hh' hnohalt
      · exact NoSpinSince.refl _
    obtain ⟨evs, he1, he2⟩ := ho
    have : sevs = evs := by
      apply List.append_cancel_right (bs := (st.emit (.call st.now .unsub)).rtrace)
      rw [← he1]; exact hS.symm
    intro e he; exact he2 e (this ▸ he)
  refine noSpinInv_of_since h hh' ⟨.snap t [] [] false av :: .ret t .unsub none :: (ureqs.reverse.map Ev.req) ++ sevs ++ [.call st.now .unsub],
    by rw [htr]; simp, ?_⟩
  intro e he
  simp only [List.cons_append, List.mem_cons, List.mem_append, List.append_assoc] at he
  rcases he with rfl | rfl | he | he | he
  · rfl
  · rfl
  · obtain ⟨r, _, rfl⟩ := List.mem_map.1 he; rfl
  · exact hsev' e he
  · rcases he with rfl | he
    · rfl
    · simp at he

theorem noSpin_doSub (cfg : Cfg) (n : Nat) (auto : Bool) (st : St) (hc : Core st) (h : NoSpinInv st) :
    NoSpinInv (doSub cfg n auto st) := by
  by_cases hpre : (st.halted || !st.subs.isEmpty || st.task.alive) = true
  · have : doSub cfg n auto st = st := by simp only [doSub, hpre, if_true]
    rw [this]; exact h
  have hpre0 : (st.halted || !st.subs.isEmpty || st.task.alive) = false := by simpa using hpre
  have hpre' : st.halted = false ∧ st.subs = [] ∧ st.task.alive = false := by
    simp only [Bool.or_eq_false_iff] at hpre0
    refine ⟨hpre0.1.1, ?_, hpre0.2⟩
    have := hpre0.1.2
    simpa using this
  obtain ⟨reqs, res, t, subs, routed, task, av, htr, _, _⟩ :=
    all_or_nothing_shape cfg n auto st hc hpre'.1 hpre'.2.1 hpre'.2.2
  refine noSpinInv_of_since h hpre'.1 ⟨.snap t subs routed task av :: .ret t (.sub auto) res :: (reqs.reverse.map Ev.req) ++ [.call st.now (.sub auto)],
    by rw [htr]; simp, ?_⟩
  intro e he
  simp only [List.cons_append, List.mem_cons, List.mem_append] at he
  rcases he with rfl | rfl | he | he
  · rfl
  · rfl
  · obtain ⟨r, _, rfl⟩ := List.mem_map.1 he; rfl
  · rcases he with rfl | he
    · rfl
    · simp at he

end Upnp.C12
