/-
  C12 — Zeno-freedom of the model's wait loop: when every timeout the publisher grants exceeds the
  tolerance, consecutive renewal rounds start at least one second of virtual time apart, so the number of
  awaits in a wait of `d` ms is bounded and the await budget `waitFuel` is never exhausted.

  Measure `mu H st`: (requests still to be answered in the current round) + (number of round starts that
  still fit before `H`) × (2·|subscriptions| + 2); every iteration of `waitLoop` strictly decreases it.
-/
import Upnp.Lemmas.C12Lapse
namespace Upnp.C12
open Upnp PyDict

/-! ### arithmetic -/

/-- number of round starts that fit into `[t, H]` when rounds are at least a second apart -/
def Nrounds (H t : Int) : Nat := if t ≤ H then ((H - t) / 1000).toNat + 1 else 0

theorem Nrounds_anti (H t t' : Int) (h : t ≤ t') : Nrounds H t' ≤ Nrounds H t := by
  unfold Nrounds; split <;> split <;> omega

theorem Nrounds_step (H t : Int) (h : t ≤ H) : Nrounds H t = Nrounds H (t + 1000) + 1 := by
  unfold Nrounds; simp only [h, if_true]; split <;> omega

theorem Nrounds_le (now t : Int) (d : Nat) (h : now ≤ t) : Nrounds (now + d) t ≤ d / 1000 + 1 := by
  unfold Nrounds; split <;> omega

theorem mul_step (A B c c' r : Nat) (hB : A + 1 ≤ B) (hc : c ≤ c') (hr : r < c') : A * c + r < B * c' := by
  have h1 : (A + 1) * c' ≤ B * c' := Nat.mul_le_mul_right c' hB
  have h2 : A * c ≤ A * c' := Nat.mul_le_mul_left A hc
  rw [Nat.add_mul, Nat.one_mul] at h1
  omega

theorem mul_mono (A B c c' : Nat) (hA : A ≤ B) (hc : c ≤ c') : A * c ≤ B * c' := Nat.mul_le_mul hA hc

/-! ### long timeouts -/

/-- the granted timeout (the requested one for an infinite / absent TIMEOUT header) exceeds the tolerance -/
def LongT (cfg : Cfg) (t : Tmo) : Prop := cfg.tol + 1 ≤ t.secs cfg

/-- every reaction the publisher can still give grants a long timeout -/
def LongS (cfg : Cfg) (script : List Entry) (dflt : Entry) : Prop :=
  (∀ e ∈ script, LongT cfg e.tmo) ∧ LongT cfg dflt.tmo

theorem LongS.tail {cfg : Cfg} {script : List Entry} {dflt : Entry} (h : LongS cfg script dflt) :
    LongS cfg script.tail dflt :=
  ⟨fun e he => h.1 e (List.mem_of_mem_tail he), h.2⟩

theorem LongS.head {cfg : Cfg} {script : List Entry} {dflt : Entry} (h : LongS cfg script dflt) :
    LongT cfg (script.headD dflt).tmo := by
  cases script with
  | nil => exact h.2
  | cons a r => exact h.1 a List.mem_cons_self

@[simp] theorem send_script (st : St) (k : Kind) (svc : Nat) (sid : Option Sid) : (send st k svc sid).2.script = st.script.tail := rfl
@[simp] theorem send_dflt (st : St) (k : Kind) (svc : Nat) (sid : Option Sid) : (send st k svc sid).2.dflt = st.dflt := rfl
theorem send_tmo (st : St) (k : Kind) (svc : Nat) (sid : Option Sid) : (send st k svc sid).1.tmo = (st.script.headD st.dflt).tmo := rfl

theorem ms_long (cfg : Cfg) (t : Tmo) (h : LongT cfg t) : ms cfg.tol + 1000 ≤ ms (t.secs cfg) := by
  unfold LongT at h; unfold ms
  have : ((cfg.tol + 1 : Nat) : Int) ≤ ((t.secs cfg : Nat) : Int) := by exact_mod_cast h
  push_cast at this
  omega

theorem send_granted_cases (X : St) (k : Kind) (svc : Nat) (sid : Option Sid) :
    (send X k svc sid).1.granted = none ∨ (send X k svc sid).1.granted = sid
    ∨ (send X k svc sid).1.granted = some X.nextSid := by
  unfold send
  simp only
  split
  · split
    · exact Or.inr (Or.inr rfl)
    · exact Or.inr (Or.inl rfl)
  · exact Or.inl rfl

/-! ### the measure and the invariant -/

def mu (H : Time) (st : St) : Nat :=
  match st.task with
  | .fresh => 1 + Nrounds H st.now * (2 * st.subs.length + 2)
  | .sleeping u => if u ≤ H then Nrounds H u * (2 * st.subs.length + 2) else 0
  | .inflight rnow queue _ _ fb replyAt _ _ _ =>
      if replyAt ≤ H then
        (2 * queue.length + (if fb then 1 else 2)) + Nrounds H (max (rnow + 1000) st.now) * (2 * st.subs.length + 2) + 1
      else 0
  | _ => 0

/-- structure of the bookkeeping during a round (any publisher behaviour): the entry in flight first, then
    the entries still to be renewed, then those renewed in this round — whose deadlines are more than a
    tolerance plus one second after the round's start -/
def ZInv (cfg : Cfg) (st : St) : Prop :=
  LongS cfg st.script st.dflt ∧
  match st.task with
  | .inflight rnow queue cur _ _ replyAt _ tmo granted =>
      rnow ≤ st.now ∧ st.now ≤ replyAt ∧ LongT cfg tmo ∧
      ∃ dcur dn, st.subs = (cur, dcur) :: queue ++ dn ∧ granted.getD cur ∉ keys (queue ++ dn)
        ∧ ∀ p ∈ dn, rnow + ms cfg.tol + 1000 ≤ p.2
  | .sleeping u => st.now ≤ u
  | _ => True

/-- what `roundStep` does when the bookkeeping is `q ++ dn` (`q` = entries still to be renewed) -/
theorem roundStep_z (cfg : Cfg) (hs : cfg.skipStale = false) (hd : cfg.delEarly = false) (rnow : Time)
    (dn : List (Sid × Time)) :
    ∀ (q : List (Sid × Time)) (st : St), st.subs = q ++ dn → (keys st.subs).Nodup → (∀ k ∈ keys st.subs, k < st.nextSid) →
      ((roundStep cfg rnow q st).2 = true ∧ ∃ (s : Sid) (d : Time) (svc : Nat) (q' : List (Sid × Time)) (r : Req),
          (roundStep cfg rnow q st).1.task = .inflight rnow q' s svc false (st.now + (r.lat : Int)) r.reac r.tmo r.granted
          ∧ (roundStep cfg rnow q st).1.subs = (s, d) :: q' ++ dn ∧ q'.length < q.length
          ∧ r.tmo = (st.script.headD st.dflt).tmo ∧ r.granted.getD s ∉ keys (q' ++ dn)
          ∧ (roundStep cfg rnow q st).1.script = st.script.tail ∧ (roundStep cfg rnow q st).1.dflt = st.dflt)
      ∨ ((roundStep cfg rnow q st).2 = false ∧ (roundStep cfg rnow q st).1.subs = dn
          ∧ (roundStep cfg rnow q st).1.script = st.script ∧ (roundStep cfg rnow q st).1.dflt = st.dflt
          ∧ (roundStep cfg rnow q st).1.task = st.task) := by
  intro q
  induction q with
  | nil => intro st h _ _; right; simp only [roundStep]; exact ⟨trivial, by simpa using h, trivial, trivial, trivial⟩
  | cons p rest ih =>
    intro st hsubs hnd hlt
    obtain ⟨sid, rt⟩ := p
    simp only [roundStep, hs, Bool.false_and, Bool.false_eq_true, if_false, hd]
    split
    · -- lost: dropped from the front of the bookkeeping
      have he : erase st.subs sid = rest ++ dn := by rw [hsubs, List.cons_append, erase_head]
      have hnd' : (keys (erase st.subs sid)).Nodup := nodup_keys_erase _ _ hnd
      have hlt' : ∀ k ∈ keys (erase st.subs sid), k < st.nextSid := by
        intro k hk; rw [mem_keys_erase _ _ _ hnd] at hk; exact hlt k hk.2
      rcases ih { st with subs := erase st.subs sid } he hnd' hlt' with ⟨h1, s, d, svc, q', r, h2, h3, h4, h5, h6, h7, h8⟩ | ⟨h1, h2, h3, h4, h5⟩
      · left; exact ⟨h1, s, d, svc, q', r, h2, h3, by simp only [List.length_cons]; omega, h5, h6, h7, h8⟩
      · right; exact ⟨h1, h2, h3, h4, h5⟩
    · rename_i svc _
      left
      refine ⟨rfl, sid, rt, svc, rest, (send st .renew svc (some sid)).1, rfl, by simpa using hsubs, by simp, rfl, ?_, rfl, rfl⟩
      have hkeys : keys st.subs = sid :: keys (rest ++ dn) := by rw [hsubs]; rfl
      have hnd2 : (sid :: keys (rest ++ dn)).Nodup := by rw [← hkeys]; exact hnd
      rcases send_granted_cases st .renew svc (some sid) with h | h | h
      · rw [h]; exact (List.nodup_cons.1 hnd2).1
      · rw [h]; exact (List.nodup_cons.1 hnd2).1
      · rw [h]; intro hm
        have : st.nextSid ∈ keys st.subs := by rw [hkeys]; exact List.mem_cons_of_mem _ hm
        exact Nat.lt_irrefl _ (hlt _ this)

theorem minTime_mem (l : List Time) : ∀ m : Time, minTime m l = m ∨ minTime m l ∈ l := by
  induction l with
  | nil => intro m; exact Or.inl rfl
  | cons a r ih =>
    intro m
    simp only [minTime]
    rcases ih (if a < m then a else m) with h | h
    · rw [h]; split
      · exact Or.inr List.mem_cons_self
      · exact Or.inl rfl
    · exact Or.inr (List.mem_cons_of_mem _ h)

/-- the earliest deadline is one of the deadlines -/
theorem min_deadline_ge (p : Sid × Time) (ps : List (Sid × Time)) (b : Time) (h : ∀ q ∈ p :: ps, b ≤ q.2) :
    b ≤ minTime p.2 (values ps) := by
  rcases minTime_mem (values ps) p.2 with h1 | h1
  · rw [h1]; exact h p List.mem_cons_self
  · obtain ⟨q, hq, hq2⟩ := List.mem_map.1 h1
    rw [← hq2]; exact h q (List.mem_cons_of_mem _ hq)

/-- the loop head at time `X.now ≤ H`, all deadlines at least `tl + tolerance` -/
theorem z_head (cfg : Cfg) (hs : cfg.skipStale = false) (hd : cfg.delEarly = false) (H : Time) (X : St)
    (hcore : Core X) (hls : LongS cfg X.script X.dflt) (hnow : X.now ≤ H) (tl : Time)
    (htl : ∀ p ∈ X.subs, tl + ms cfg.tol ≤ p.2) :
    ZInv cfg (runHead cfg (headFuel X) X) ∧ (runHead cfg (headFuel X) X).now = X.now
    ∧ mu H (runHead cfg (headFuel X) X) ≤ Nrounds H (max tl X.now) * (2 * X.subs.length + 2) := by
  unfold headFuel
  simp only [runHead]
  split
  · exact ⟨⟨hls, trivial⟩, rfl, by simp [mu]⟩
  · rename_i p ps hsubs
    split
    · rename_i hw
      refine ⟨⟨hls, ?_⟩, rfl, ?_⟩
      · show X.now ≤ _; unfold Time at *; omega
      · have hmin := min_deadline_ge p ps (tl + ms cfg.tol) (by rw [← hsubs]; exact htl)
        simp only [mu]
        split
        · apply Nat.mul_le_mul_right
          apply Nrounds_anti
          unfold Time at *; omega
        · exact Nat.zero_le _
    · rename_i hw
      have hfr := roundStep_frame cfg X.now X.subs X
      have hmin := min_deadline_ge p ps (tl + ms cfg.tol) (by rw [← hsubs]; exact htl)
      have hmax : max tl X.now = X.now := by unfold Time at *; omega
      rcases roundStep_z cfg hs hd X.now [] X.subs X (by simp) hcore.subsNodup hcore.subsLt with
        ⟨h1, s, d, svc, q', r, h2, h3, h4, h5, h6, h7, h8⟩ | ⟨h1, h2, h3, h4, h5⟩
      · simp only [h1, if_true]
        refine ⟨⟨by rw [h7, h8]; exact hls.tail, ?_⟩, hfr.2.1, ?_⟩
        · rw [h2]
          have hlat : (0 : Int) ≤ (r.lat : Int) := Int.natCast_nonneg _
          refine ⟨by rw [hfr.2.1]; exact Int.le_refl _, by rw [hfr.2.1]; unfold Time at *; omega, by rw [h5]; exact hls.head,
            d, [], h3, h6, by simp⟩
        · simp only [mu, h2, Bool.false_eq_true, if_false]
          split
          · rw [hmax, Nrounds_step H X.now hnow, hfr.2.1, h3]
            have hm1 : max (X.now + 1000) X.now = X.now + 1000 := by unfold Time at *; omega
            rw [hm1]
            simp only [List.append_nil, List.length_cons]
            have hmul := mul_mono (Nrounds H (X.now + 1000)) (Nrounds H (X.now + 1000)) (2 * (q'.length + 1) + 2) (2 * X.subs.length + 2)
              (Nat.le_refl _) (by omega)
            rw [Nat.add_mul, Nat.one_mul]
            omega
          · exact Nat.zero_le _
      · simp only [h1, Bool.false_eq_true, if_false]
        simp only [runHead, h2]
        exact ⟨⟨by rw [h3, h4]; exact hls, trivial⟩, hfr.2.1, by simp [mu]⟩

/-- continuing the round started at `rnow` over `queue`; `dn` = the entries already renewed in it -/
theorem z_cont (cfg : Cfg) (hs : cfg.skipStale = false) (hd : cfg.delEarly = false) (H : Time) (X : St)
    (hcore : Core X) (hls : LongS cfg X.script X.dflt) (hnow : X.now ≤ H) (rnow : Time) (hrn : rnow ≤ X.now)
    (queue dn : List (Sid × Time)) (hsubs : X.subs = queue ++ dn) (hdn : ∀ p ∈ dn, rnow + ms cfg.tol + 1000 ≤ p.2) :
    ZInv cfg (if (roundStep cfg rnow queue X).2 = true then (roundStep cfg rnow queue X).1
              else runHead cfg (headFuel (roundStep cfg rnow queue X).1) (roundStep cfg rnow queue X).1)
    ∧ (if (roundStep cfg rnow queue X).2 = true then (roundStep cfg rnow queue X).1
              else runHead cfg (headFuel (roundStep cfg rnow queue X).1) (roundStep cfg rnow queue X).1).now = X.now
    ∧ mu H (if (roundStep cfg rnow queue X).2 = true then (roundStep cfg rnow queue X).1
              else runHead cfg (headFuel (roundStep cfg rnow queue X).1) (roundStep cfg rnow queue X).1)
        ≤ 2 * queue.length + Nrounds H (max (rnow + 1000) X.now) * (2 * X.subs.length + 2) + 1 := by
  have hfr := roundStep_frame cfg rnow queue X
  rcases roundStep_z cfg hs hd rnow dn queue X hsubs hcore.subsNodup hcore.subsLt with
    ⟨h1, s, d, svc, q', r, h2, h3, h4, h5, h6, h7, h8⟩ | ⟨h1, h2, h3, h4, h5⟩
  · simp only [h1, if_true]
    have hlat : (0 : Int) ≤ (r.lat : Int) := Int.natCast_nonneg _
    refine ⟨⟨by rw [h7, h8]; exact hls.tail, ?_⟩, hfr.2.1, ?_⟩
    · rw [h2]
      exact ⟨by rw [hfr.2.1]; exact hrn, by rw [hfr.2.1]; unfold Time at *; omega, by rw [h5]; exact hls.head,
        d, dn, h3, h6, hdn⟩
    · simp only [mu, h2, Bool.false_eq_true, if_false]
      split
      · rw [hfr.2.1, h3]
        have hlen : ((s, d) :: q' ++ dn).length ≤ X.subs.length := by
          rw [hsubs]; simp only [List.length_cons, List.length_append]; omega
        have hmul := mul_mono (Nrounds H (max (rnow + 1000) X.now)) (Nrounds H (max (rnow + 1000) X.now))
          (2 * ((s, d) :: q' ++ dn).length + 2) (2 * X.subs.length + 2) (Nat.le_refl _) (by omega)
        omega
      · exact Nat.zero_le _
  · simp only [h1, Bool.false_eq_true, if_false]
    have hcore' := (roundStep_core cfg hd rnow queue X hcore).1
    have := z_head cfg hs hd H (roundStep cfg rnow queue X).1 hcore' (by rw [h3, h4]; exact hls)
      (by rw [hfr.2.1]; exact hnow) (rnow + 1000) (by
        rw [h2]; intro p hp; have := hdn p hp; unfold Time at *; omega)
    refine ⟨this.1, by rw [this.2.1, hfr.2.1], ?_⟩
    have h6 := this.2.2
    rw [hfr.2.1, h2] at h6
    have hlen : dn.length ≤ X.subs.length := by rw [hsubs]; simp
    have hmul := mul_mono (Nrounds H (max (rnow + 1000) X.now)) (Nrounds H (max (rnow + 1000) X.now))
      (2 * dn.length + 2) (2 * X.subs.length + 2) (Nat.le_refl _) (by omega)
    omega

/-- the state right after a finally failed renewal has been processed -/
def failed1 (st : St) (cur : Sid) (svc : Nat) (fb : Bool) (reac : Reac) : St :=
  if fb then failed st cur svc reac else failed { st with routed := erase st.routed cur } cur svc reac

theorem deliver_failed (cfg : Cfg) (st : St) (rnow : Time) (rest : List (Sid × Time)) (cur : Sid) (svc : Nat) (fb : Bool)
    (replyAt : Time) (reac : Reac) (tmo : Tmo) (granted : Option Sid)
    (ht : st.task = .inflight rnow rest cur svc fb replyAt reac tmo granted) (hacc : reac.accepts = false)
    (hfin : fb = true ∨ (reac == Reac.unreach) = true) :
    deliver cfg st =
      (if (roundStep cfg rnow rest (failed1 st cur svc fb reac)).2 = true
       then (roundStep cfg rnow rest (failed1 st cur svc fb reac)).1
       else runHead cfg (headFuel (roundStep cfg rnow rest (failed1 st cur svc fb reac)).1)
              (roundStep cfg rnow rest (failed1 st cur svc fb reac)).1) := by
  unfold deliver
  split
  · rename_i a b c d e f g h i heq
    rw [ht] at heq
    injection heq with h1 h2 h3 h4 h5 h6 h7 h8 h9
    subst h1 h2 h3 h4 h5 h6 h7 h8 h9
    simp only [hacc, Bool.false_eq_true, if_false]
    unfold failed1
    by_cases hfb : fb = true
    · simp only [hfb, if_true]
    · have hfb' : fb = false := by simpa using hfb
      have hun : (reac == Reac.unreach) = true := by rcases hfin with h | h; exact absurd h hfb; exact h
      simp only [hfb', Bool.false_eq_true, if_false, hun, if_true]
  · rename_i hn; exact absurd ht (hn _ _ _ _ _ _ _ _ _)

theorem deliver_refused (cfg : Cfg) (st : St) (rnow : Time) (rest : List (Sid × Time)) (cur : Sid) (svc : Nat)
    (replyAt : Time) (reac : Reac) (tmo : Tmo) (granted : Option Sid)
    (ht : st.task = .inflight rnow rest cur svc false replyAt reac tmo granted) (hacc : reac.accepts = false)
    (hun : (reac == Reac.unreach) = false) :
    deliver cfg st =
      { (send { st with routed := erase st.routed cur } .sub svc none).2 with
          task := .inflight rnow rest cur svc true (st.now + ((send { st with routed := erase st.routed cur } .sub svc none).1.lat : Int))
            (send { st with routed := erase st.routed cur } .sub svc none).1.reac
            (send { st with routed := erase st.routed cur } .sub svc none).1.tmo
            (send { st with routed := erase st.routed cur } .sub svc none).1.granted } := by
  unfold deliver
  split
  · rename_i a b c d e f g h i heq
    rw [ht] at heq
    injection heq with h1 h2 h3 h4 h5 h6 h7 h8 h9
    subst h1 h2 h3 h4 h5 h6 h7 h8 h9
    simp only [hacc, Bool.false_eq_true, if_false, hun]
    rfl
  · rename_i hn; exact absurd ht (hn _ _ _ _ _ _ _ _ _)

/-- delivering the reply of the in-flight request strictly decreases the measure -/
theorem z_deliver (cfg : Cfg) (hs : cfg.skipStale = false) (hd : cfg.delEarly = false) (H : Time) (st : St)
    (hcore : Core st) (htask : TaskOk st) (hz : ZInv cfg st)
    (rnow : Time) (queue : List (Sid × Time)) (cur : Sid) (svc : Nat) (fb : Bool) (replyAt : Time) (reac : Reac)
    (tmo : Tmo) (granted : Option Sid) (ht : st.task = .inflight rnow queue cur svc fb replyAt reac tmo granted)
    (hH : replyAt ≤ H) :
    ZInv cfg (deliver cfg { st with now := replyAt }) ∧ (deliver cfg { st with now := replyAt }).now = replyAt
    ∧ mu H (deliver cfg { st with now := replyAt }) < mu H st := by
  obtain ⟨hls, hrest⟩ := hz
  simp only [ht] at hrest
  obtain ⟨hrn, hnl, hlong, dcur, dn, hsubs, hgnot, hdn⟩ := hrest
  simp only [TaskOk, ht] at htask
  obtain ⟨hcurmem, hfbr, hglt, _⟩ := htask
  have hkeys : keys st.subs = cur :: keys (queue ++ dn) := by rw [hsubs]; rfl
  have hnd : (cur :: keys (queue ++ dn)).Nodup := by rw [← hkeys]; exact hcore.subsNodup
  have hmu : mu H st = (2 * queue.length + (if fb then 1 else 2))
      + Nrounds H (max (rnow + 1000) st.now) * (2 * st.subs.length + 2) + 1 := by
    simp only [mu, ht, hH, if_true]
  have hN : Nrounds H (max (rnow + 1000) replyAt) ≤ Nrounds H (max (rnow + 1000) st.now) := by
    apply Nrounds_anti; unfold Time at *; omega
  have hfbpos : 1 ≤ (if fb then 1 else 2 : Nat) := by split <;> omega
  have htX : ({ st with now := replyAt } : St).task = .inflight rnow queue cur svc fb replyAt reac tmo granted := ht
  by_cases hacc : reac.accepts = true
  · rw [deliver_accepted cfg { st with now := replyAt } rnow queue cur svc fb replyAt reac tmo granted htX hacc]
    have hglt' : granted.getD cur < st.nextSid := by
      cases granted with
      | none => exact hcore.subsLt _ hcurmem
      | some g => exact hglt g rfl
    have hsub1 : (granted1 cfg { st with now := replyAt } rnow cur svc tmo granted).subs
        = queue ++ (dn ++ [(granted.getD cur, rnow + ms (tmo.secs cfg))]) := by
      show PyDict.set (erase st.subs cur) (granted.getD cur) (rnow + ms (tmo.secs cfg)) = _
      rw [hsubs, List.cons_append, erase_head, set_append_new _ _ _ hgnot, List.append_assoc]
    have hcore1 : Core (granted1 cfg { st with now := replyAt } rnow cur svc tmo granted) :=
      (hcore.setNow replyAt).grant cur (granted.getD cur) svc (rnow + ms (tmo.secs cfg)) hglt'
    have hc := z_cont cfg hs hd H (granted1 cfg { st with now := replyAt } rnow cur svc tmo granted) hcore1 hls hH rnow
      (by show rnow ≤ replyAt; unfold Time at *; omega) queue (dn ++ [(granted.getD cur, rnow + ms (tmo.secs cfg))]) hsub1
      (by
        intro p hp
        rcases List.mem_append.1 hp with h | h
        · exact hdn p h
        · simp only [List.mem_singleton] at h; subst h
          have := ms_long cfg tmo hlong
          show rnow + ms cfg.tol + 1000 ≤ rnow + ms (tmo.secs cfg)
          unfold Time at *; omega)
    refine ⟨hc.1, hc.2.1, ?_⟩
    have h3 := hc.2.2
    have hlen : (granted1 cfg { st with now := replyAt } rnow cur svc tmo granted).subs.length = st.subs.length := by
      rw [hsub1, hsubs]; simp only [List.length_append, List.length_cons, List.length_nil]; omega
    rw [hlen] at h3
    have hnowX : (granted1 cfg { st with now := replyAt } rnow cur svc tmo granted).now = replyAt := rfl
    rw [hnowX] at h3
    have hmul := Nat.mul_le_mul_right (2 * st.subs.length + 2) hN
    rw [hmu]; omega
  · have hacc' : reac.accepts = false := by simpa using hacc
    by_cases hfin : fb = true ∨ (reac == Reac.unreach) = true
    · rw [deliver_failed cfg { st with now := replyAt } rnow queue cur svc fb replyAt reac tmo granted htX hacc' hfin]
      have hsub1 : (failed1 { st with now := replyAt } cur svc fb reac).subs = queue ++ dn := by
        unfold failed1; split
        · show erase st.subs cur = _; rw [hsubs, List.cons_append, erase_head]
        · show erase st.subs cur = _; rw [hsubs, List.cons_append, erase_head]
      have hcore1 : Core (failed1 { st with now := replyAt } cur svc fb reac) := by
        unfold failed1; split
        · rename_i hfbt; exact (hcore.setNow replyAt).failed cur svc reac (hfbr hfbt)
        · exact ((hcore.setNow replyAt).eraseRouted cur).failed cur svc reac (not_mem_erase_self _ _ hcore.routedNodup)
      have hls1 : LongS cfg (failed1 { st with now := replyAt } cur svc fb reac).script (failed1 { st with now := replyAt } cur svc fb reac).dflt := by
        unfold failed1; split <;> exact hls
      have hnow1 : (failed1 { st with now := replyAt } cur svc fb reac).now = replyAt := by
        unfold failed1; split <;> rfl
      have hc := z_cont cfg hs hd H (failed1 { st with now := replyAt } cur svc fb reac) hcore1 hls1 (by rw [hnow1]; exact hH) rnow
        (by rw [hnow1]; unfold Time at *; omega) queue dn hsub1 hdn
      refine ⟨hc.1, by rw [hc.2.1, hnow1], ?_⟩
      have h3 := hc.2.2
      rw [hnow1, hsub1] at h3
      have hlen : (queue ++ dn).length ≤ st.subs.length := by rw [hsubs]; simp
      have hmul := mul_mono _ _ (2 * (queue ++ dn).length + 2) (2 * st.subs.length + 2) hN (by omega)
      rw [hmu]; omega
    · have hfb' : fb = false := by
        cases fb with
        | false => rfl
        | true => exact absurd (Or.inl rfl) hfin
      have hun : (reac == Reac.unreach) = false := by
        cases h : (reac == Reac.unreach) with
        | false => rfl
        | true => exact absurd (Or.inr h) hfin
      subst hfb'
      rw [deliver_refused cfg { st with now := replyAt } rnow queue cur svc replyAt reac tmo granted htX hacc' hun]
      generalize hr : send ({ ({ st with now := replyAt } : St) with routed := erase st.routed cur }) .sub svc none = sr
      have hr1 : sr.2.subs = st.subs := by rw [← hr]; rfl
      have hr2 : sr.2.now = replyAt := by rw [← hr]; rfl
      have hr3 : sr.2.script = st.script.tail := by rw [← hr]; rfl
      have hr4 : sr.2.dflt = st.dflt := by rw [← hr]; rfl
      have hr5 : sr.1.tmo = (st.script.headD st.dflt).tmo := by rw [← hr]; rfl
      have hlat : (0 : Int) ≤ (sr.1.lat : Int) := Int.natCast_nonneg _
      have hg' : sr.1.granted.getD cur ∉ keys (queue ++ dn) := by
        have := send_granted_cases ({ ({ st with now := replyAt } : St) with routed := erase st.routed cur }) .sub svc none
        rw [hr] at this
        rcases this with h | h | h
        · rw [h]; exact (List.nodup_cons.1 hnd).1
        · rw [h]; exact (List.nodup_cons.1 hnd).1
        · rw [h]; intro hm
          have : st.nextSid ∈ keys st.subs := by rw [hkeys]; exact List.mem_cons_of_mem _ hm
          exact Nat.lt_irrefl _ (hcore.subsLt _ this)
      refine ⟨⟨by show LongS cfg sr.2.script sr.2.dflt; rw [hr3, hr4]; exact hls.tail, ?_⟩, hr2, ?_⟩
      · simp only []
        refine ⟨by show rnow ≤ sr.2.now; rw [hr2]; unfold Time at *; omega,
          by show sr.2.now ≤ replyAt + _; rw [hr2]; unfold Time at *; omega,
          by rw [hr5]; exact hls.head, dcur, dn, by show sr.2.subs = _; rw [hr1, hsubs], hg', hdn⟩
      · rw [hmu]
        simp only [mu]
        split
        · show 2 * queue.length + 1 + Nrounds H (max (rnow + 1000) sr.2.now) * (2 * sr.2.subs.length + 2) + 1 < _
          rw [hr2, hr1]
          have hmul := Nat.mul_le_mul_right (2 * st.subs.length + 2) hN
          simp only [Bool.false_eq_true, if_false]
          omega
        · omega

/-! ### the wait loop stays within its budget -/

theorem cont_halted (cfg : Cfg) (hs : cfg.skipStale = false) (hd : cfg.delEarly = false) (rnow : Time)
    (rest : List (Sid × Time)) (X : St) (hcore : Core X) :
    (if (roundStep cfg rnow rest X).2 = true then (roundStep cfg rnow rest X).1
     else runHead cfg (headFuel (roundStep cfg rnow rest X).1) (roundStep cfg rnow rest X).1).halted = X.halted := by
  have hf := roundStep_frame cfg rnow rest X
  split
  · exact hf.1
  · have hc := (roundStep_core cfg hd rnow rest X hcore).1
    unfold headFuel
    rw [runHead_no_spin cfg hs _ _ hc.subsNodup]; exact hf.1

theorem deliver_halted (cfg : Cfg) (hs : cfg.skipStale = false) (hd : cfg.delEarly = false) (X : St)
    (hcore : Core X) (htask : TaskOk X) : (deliver cfg X).halted = X.halted := by
  cases ht : X.task with
  | inflight rnow rest cur svc fb replyAt reac tmo granted =>
    simp only [TaskOk, ht] at htask
    obtain ⟨hcurmem, hfbr, hglt, _⟩ := htask
    by_cases hacc : reac.accepts = true
    · rw [deliver_accepted cfg X rnow rest cur svc fb replyAt reac tmo granted ht hacc]
      have hglt' : granted.getD cur < X.nextSid := by
        cases granted with
        | none => exact hcore.subsLt _ hcurmem
        | some g => exact hglt g rfl
      exact cont_halted cfg hs hd rnow rest _ (hcore.grant cur (granted.getD cur) svc (rnow + ms (tmo.secs cfg)) hglt')
    · have hacc' : reac.accepts = false := by simpa using hacc
      by_cases hfin : fb = true ∨ (reac == Reac.unreach) = true
      · rw [deliver_failed cfg X rnow rest cur svc fb replyAt reac tmo granted ht hacc' hfin]
        have hcore1 : Core (failed1 X cur svc fb reac) := by
          unfold failed1; split
          · rename_i hfbt; exact hcore.failed cur svc reac (hfbr hfbt)
          · exact (hcore.eraseRouted cur).failed cur svc reac (not_mem_erase_self _ _ hcore.routedNodup)
        rw [cont_halted cfg hs hd rnow rest _ hcore1]
        unfold failed1; split <;> rfl
      · have hfb' : fb = false := by
          cases fb with
          | false => rfl
          | true => exact absurd (Or.inl rfl) hfin
        have hun : (reac == Reac.unreach) = false := by
          cases h : (reac == Reac.unreach) with
          | false => rfl
          | true => exact absurd (Or.inr h) hfin
        subst hfb'
        rw [deliver_refused cfg X rnow rest cur svc replyAt reac tmo granted ht hacc' hun]
        rfl
  | none => simp [deliver, ht]
  | fresh => simp [deliver, ht]
  | sleeping u => simp [deliver, ht]
  | done => simp [deliver, ht]

/-- **Zeno-freedom**: with long timeouts the wait loop never exhausts a budget larger than the measure -/
theorem waitLoop_budget (cfg : Cfg) (hs : cfg.skipStale = false) (hd : cfg.delEarly = false) (H : Time) :
    ∀ (k : Nat) (st : St), st.halted = false → Core st → TaskOk st → ZInv cfg st → st.now ≤ H → mu H st < k →
      (waitLoop cfg H k st).halted = false ∧ ZInv cfg (waitLoop cfg H k st) ∧ (waitLoop cfg H k st).now ≤ H := by
  intro k
  induction k with
  | zero => intro st _ _ _ _ _ h; omega
  | succ k ih =>
    intro st hh hcore htask hz hnow hmu
    simp only [waitLoop]
    split
    · rename_i hht; rw [hh] at hht; cases hht
    split
    · rename_i hfresh
      -- the first step of a fresh task
      have hc2 := runHead_core cfg hd (headFuel st) st hcore
      have hhalt : (runHead cfg (headFuel st) st).halted = false := by
        unfold headFuel; rw [runHead_no_spin cfg hs _ st hcore.subsNodup]; exact hh
      have hzh : ∃ tl : Time, ∀ p ∈ st.subs, tl + ms cfg.tol ≤ p.2 := by
        cases hsub : st.subs with
        | nil => exact ⟨0, by simp⟩
        | cons p ps =>
          refine ⟨minTime p.2 (values ps) - ms cfg.tol, ?_⟩
          intro q hq
          have hm := minTime_le (values ps) p.2
          rcases List.mem_cons.1 hq with rfl | hq
          · have := hm.1; unfold Time at *; omega
          · have := hm.2 q.2 (List.mem_map_of_mem hq); unfold Time at *; omega
      obtain ⟨tl, htl⟩ := hzh
      have hz2 := z_head cfg hs hd H st hcore hz.1 hnow tl htl
      refine ih _ hhalt hc2.1 hc2.2 hz2.1 (by rw [hz2.2.1]; exact hnow) ?_
      have hmu' : mu H st = 1 + Nrounds H st.now * (2 * st.subs.length + 2) := by simp only [mu, hfresh]
      have hN : Nrounds H (max tl st.now) ≤ Nrounds H st.now := by apply Nrounds_anti; unfold Time at *; omega
      have hmul := Nat.mul_le_mul_right (2 * st.subs.length + 2) hN
      have := hz2.2.2
      omega
    · rename_i u hsl
      split
      · rename_i hu
        have hc2 := cont_core cfg hd u st.subs { st with now := u } (hcore.setNow u)
        have hhalt := cont_halted cfg hs hd u st.subs { st with now := u } (hcore.setNow u)
        have hz2 := z_cont cfg hs hd H { st with now := u } (hcore.setNow u) hz.1 hu u (Int.le_refl _) st.subs [] (by simp) (by simp)
        refine ih _ (by rw [hhalt]; exact hh) hc2.1 hc2.2 hz2.1 (by rw [hz2.2.1]; exact hu) ?_
        have hmu' : mu H st = Nrounds H u * (2 * st.subs.length + 2) := by simp only [mu, hsl, hu, if_true]
        have h3 := hz2.2.2
        have hm1 : max (u + 1000) u = u + 1000 := by unfold Time at *; omega
        have hst := Nrounds_step H u hu
        simp only [hm1] at h3
        rw [hmu', hst, Nat.add_mul, Nat.one_mul] at hmu
        omega
      · exact ⟨hh, hz, hnow⟩
    · rename_i rnow q cur svc fb replyAt reac tmo granted hfl
      split
      · rename_i hr
        have ht' : TaskOk { st with now := replyAt } := by
          simp only [TaskOk, hfl] at htask ⊢; exact htask
        have hc2 := deliver_core cfg hd { st with now := replyAt } (hcore.setNow replyAt) ht'
        have hhalt := deliver_halted cfg hs hd { st with now := replyAt } (hcore.setNow replyAt) ht'
        have hz2 := z_deliver cfg hs hd H st hcore htask hz rnow q cur svc fb replyAt reac tmo granted hfl hr
        exact ih _ (by rw [hhalt]; exact hh) hc2.1 hc2.2 hz2.1 (by rw [hz2.2.1]; exact hr) (by have := hz2.2.2; omega)
      · exact ⟨hh, hz, hnow⟩
    · exact ⟨hh, hz, hnow⟩

instance (cfg : Cfg) (script : List Entry) (dflt : Entry) : Decidable (LongS cfg script dflt) := by
  unfold LongS LongT; infer_instance

/-- the measure fits into the await budget of the wait -/
theorem mu_lt_fuel (cfg : Cfg) (d : Nat) (st : St) (hz : ZInv cfg st) :
    mu (st.now + (d : Int)) st < waitFuel d st := by
  have key : ∀ (N r m : Nat), N ≤ d / 1000 + 1 → r ≤ 2 * m + 1 → r + N * (2 * m + 2) < (d / 125 + 64) * (m + 2) := by
    intro N r m hN hr
    have h1 : N * (2 * m + 2) ≤ (d / 1000 + 1) * (2 * (m + 2)) := mul_mono _ _ _ _ hN (by omega)
    have h2 : (d / 1000 + 1) * (2 * (m + 2)) = 2 * ((d / 1000 + 1) * (m + 2)) := Nat.mul_left_comm _ _ _
    have h3 : (2 * (d / 1000 + 1) + 2) * (m + 2) ≤ (d / 125 + 64) * (m + 2) := Nat.mul_le_mul_right _ (by omega)
    have h4 : (2 * (d / 1000 + 1) + 2) * (m + 2) = 2 * (d / 1000 + 1) * (m + 2) + 2 * (m + 2) := Nat.add_mul _ _ _
    have h5 : 2 * (d / 1000 + 1) * (m + 2) = 2 * ((d / 1000 + 1) * (m + 2)) := Nat.mul_assoc _ _ _
    omega
  unfold waitFuel
  obtain ⟨_, hrest⟩ := hz
  cases ht : st.task with
  | fresh =>
    simp only [mu, ht]
    have := key (Nrounds (st.now + (d : Int)) st.now) 1 st.subs.length (Nrounds_le st.now st.now d (Int.le_refl _)) (by omega)
    omega
  | sleeping u =>
    simp only [ht] at hrest
    simp only [mu, ht]
    split
    · have := key (Nrounds (st.now + (d : Int)) u) 0 st.subs.length (Nrounds_le st.now u d hrest) (by omega)
      omega
    · exact Nat.mul_pos (by omega) (by omega)
  | inflight rnow queue cur svc fb replyAt reac tmo granted =>
    simp only [ht] at hrest
    obtain ⟨_, _, _, dcur, dn, hsubs, _, _⟩ := hrest
    simp only [mu, ht]
    split
    · have hq : 2 * queue.length + 2 ≤ 2 * st.subs.length := by
        rw [hsubs]; simp only [List.length_cons, List.length_append]; omega
      have hfb : (if fb = true then 1 else 2 : Nat) ≤ 2 := by split <;> omega
      have := key (Nrounds (st.now + (d : Int)) (max (rnow + 1000) st.now)) (2 * queue.length + (if fb = true then 1 else 2) + 1)
        st.subs.length (Nrounds_le st.now _ d (by unfold Time at *; omega)) (by omega)
      omega
    · exact Nat.mul_pos (by omega) (by omega)
  | none => simp only [mu, ht]; exact Nat.mul_pos (by omega) (by omega)
  | done => simp only [mu, ht]; exact Nat.mul_pos (by omega) (by omega)

/-! ### the script only shrinks -/

theorem subLoop_longS (cfg : Cfg) (now0 : Time) (l : List Nat) :
    ∀ st : St, LongS cfg st.script st.dflt → LongS cfg (subLoop cfg now0 l st).1.script (subLoop cfg now0 l st).1.dflt := by
  induction l with
  | nil => intro st h; exact h
  | cons i rest ih =>
    intro st h
    simp only [subLoop]
    split
    · exact ih _ h.tail
    · exact h.tail

theorem unsubAll_longS (cfg : Cfg) (sids : List Sid) :
    ∀ st : St, LongS cfg st.script st.dflt → LongS cfg (unsubAll sids st).1.script (unsubAll sids st).1.dflt := by
  induction sids with
  | nil => intro st h; exact h
  | cons s r ih =>
    intro st h
    simp only [unsubAll]
    split
    · exact ih st h
    · exact ih _ h.tail

theorem unsubscribeServices_longS (cfg : Cfg) (st : St) (h : LongS cfg st.script st.dflt) :
    LongS cfg (unsubscribeServices st).script (unsubscribeServices st).dflt := by
  unfold unsubscribeServices
  exact unsubAll_longS cfg (keys st.subs) { st with subs := [], task := .none } h

/-! ### along a run -/

structure ZRun (cfg : Cfg) (st : St) : Prop where
  halted : st.halted = false
  z : ZInv cfg st

theorem zinv_of_idle (cfg : Cfg) (st : St) (hl : LongS cfg st.script st.dflt)
    (ht : st.task = .none ∨ st.task = .fresh ∨ st.task = .done) : ZInv cfg st := by
  refine ⟨hl, ?_⟩
  rcases ht with h | h | h <;> simp [h]

theorem z_doWait (cfg : Cfg) (hs : cfg.skipStale = false) (hd : cfg.delEarly = false) (d : Nat) (st : St)
    (hcore : Core st) (htask : TaskOk st) (h : ZRun cfg st) : ZRun cfg (doWait cfg d st) := by
  unfold doWait
  simp only [h.halted, Bool.false_eq_true, if_false]
  have hb := waitLoop_budget cfg hs hd (st.now + (d : Int)) (waitFuel d st) st h.halted hcore htask h.z
    (by have : (0 : Int) ≤ (d : Int) := Int.natCast_nonneg _; unfold Time at *; omega) (mu_lt_fuel cfg d st h.z)
  have hl1 := waitLoop_late cfg (st.now + (d : Int)) (waitFuel d st) st hb.1
  have hl2 := waitLoop_late2 cfg (st.now + (d : Int)) (waitFuel d st) st hb.1
  generalize waitLoop cfg (st.now + (d : Int)) (waitFuel d st) st = W at hb hl1 hl2
  simp only [hb.1, Bool.false_eq_true, if_false]
  refine ⟨rfl, hb.2.1.1, ?_⟩
  have hz := hb.2.1.2
  show match W.task with | _ => _
  cases hW : W.task with
  | inflight rnow queue cur svc fb replyAt reac tmo granted =>
    simp only [hW] at hz hl1 ⊢
    obtain ⟨h1, h2, h3, h4⟩ := hz
    refine ⟨?_, ?_, h3, h4⟩
    · show rnow ≤ st.now + (d : Int); have := hb.2.2; unfold Time at *; omega
    · show st.now + (d : Int) ≤ replyAt; unfold Time at *; omega
  | sleeping u =>
    simp only [hW] at hl2 ⊢
    show st.now + (d : Int) ≤ u; unfold Time at *; omega
  | fresh => simp only [hW] at hl2
  | none => trivial
  | done => trivial

theorem z_doUnsub (cfg : Cfg) (hs : cfg.skipStale = false) (hd : cfg.delEarly = false) (st : St)
    (hcore : Core st) (htask : TaskOk st) (h : ZRun cfg st) : ZRun cfg (doUnsub cfg st) := by
  have hset : (settle cfg (st.emit (.call st.now .unsub))).halted = false := by
    rw [settle_halted cfg hs (st.emit (.call st.now .unsub)) hcore.subsNodup]; exact h.halted
  have hc := (settle_core cfg hd _ (hcore.emit (.call st.now .unsub)) (by simpa [TaskOk, St.emit] using htask)).1
  have hu := unsubscribeServices_clean _ hc
  have hlS : LongS cfg (settle cfg (st.emit (.call st.now .unsub))).script (settle cfg (st.emit (.call st.now .unsub))).dflt := by
    unfold settle
    split
    · have hzh : ∃ tl : Time, ∀ p ∈ st.subs, tl + ms cfg.tol ≤ p.2 := by
        cases hsub : st.subs with
        | nil => exact ⟨0, by simp⟩
        | cons p ps =>
          refine ⟨minTime p.2 (values ps) - ms cfg.tol, ?_⟩
          intro q hq
          have hm := minTime_le (values ps) p.2
          rcases List.mem_cons.1 hq with rfl | hq
          · have := hm.1; unfold Time at *; omega
          · have := hm.2 q.2 (List.mem_map_of_mem hq); unfold Time at *; omega
      obtain ⟨tl, htl⟩ := hzh
      exact (z_head cfg hs hd st.now (st.emit (.call st.now .unsub)) (hcore.emit _) h.z.1 (Int.le_refl _) tl htl).1.1
    · exact h.z.1
  unfold doUnsub
  simp only [h.halted, Bool.false_eq_true, if_false, hset]
  refine ⟨?_, ?_⟩
  · show (unsubscribeServices _).halted = false
    rw [hu.2.2.2.1]; exact hset
  · apply zinv_of_idle
    · exact unsubscribeServices_longS cfg _ hlS
    · left; show (unsubscribeServices _).task = .none; exact hu.2.2.1

theorem z_doSub (cfg : Cfg) (n : Nat) (auto : Bool) (st : St) (hcore : Core st) (h : ZRun cfg st) :
    ZRun cfg (doSub cfg n auto st) := by
  by_cases hpre : (st.halted || !st.subs.isEmpty || st.task.alive) = true
  · have : doSub cfg n auto st = st := by simp only [doSub, hpre, if_true]
    rw [this]; exact h
  have hpre0 : (st.halted || !st.subs.isEmpty || st.task.alive) = false := by simpa using hpre
  have halive : st.task.alive = false := by simp only [Bool.or_eq_false_iff] at hpre0; exact hpre0.2
  have hl := subLoop_core cfg st.now (List.range n) (st.emit (.call st.now (.sub auto))) (hcore.emit _)
  have hls := subLoop_longS cfg st.now (List.range n) (st.emit (.call st.now (.sub auto))) h.z.1
  unfold doSub
  simp only [hpre0, Bool.false_eq_true, if_false]
  have hnow : (st.emit (.call st.now (.sub auto))).now = st.now := rfl
  simp only [hnow]
  generalize subLoop cfg st.now (List.range n) (st.emit (.call st.now (.sub auto))) = L at hl hls
  obtain ⟨S, err⟩ := L
  have htaskS : S.task = st.task := hl.2.1
  have hidle : ∀ t : TaskPc, t.alive = false → (t = .none ∨ t = .fresh ∨ t = .done) := by
    intro t ht; cases t <;> simp_all [TaskPc.alive]
  cases err with
  | some e =>
    dsimp only at hl hls ⊢
    have hu := unsubscribeServices_clean S hl.1
    refine ⟨?_, ?_⟩
    · show (unsubscribeServices S).halted = false
      rw [hu.2.2.2.1, hl.2.2]; exact h.halted
    · apply zinv_of_idle
      · exact unsubscribeServices_longS cfg S hls
      · left; show (unsubscribeServices S).task = .none; exact hu.2.2.1
  | none =>
    dsimp only at hl hls ⊢
    split
    · refine ⟨by show S.halted = false; rw [hl.2.2]; exact h.halted, zinv_of_idle cfg _ hls ?_⟩
      show S.task = .none ∨ S.task = .fresh ∨ S.task = .done
      rw [htaskS]; exact hidle _ halive
    · refine ⟨by show S.halted = false; rw [hl.2.2]; exact h.halted, zinv_of_idle cfg _ hls ?_⟩
      show startTask cfg S.task = .none ∨ startTask cfg S.task = .fresh ∨ startTask cfg S.task = .done
      rw [htaskS]
      cases hst : st.task with
      | none => right; left; rfl
      | done => simp only [startTask]; split
                · right; left; rfl
                · right; right; rfl
      | fresh => rw [hst] at halive; simp [TaskPc.alive] at halive
      | sleeping u => rw [hst] at halive; simp [TaskPc.alive] at halive
      | inflight a b c d e f g h i => rw [hst] at halive; simp [TaskPc.alive] at halive

end Upnp.C12
