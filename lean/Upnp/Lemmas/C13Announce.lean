/-
  C13 — the announcer's cycle and the byebyes of a model run satisfy the judge.
-/
import Upnp.Lemmas.C13Run
namespace Upnp.C13

def toMsg (e : Exp) : Msg := ⟨e.st, e.usn⟩
def keyM (m : Msg) : Str × Str := (m.st, m.usn)

/-- **what is advertised is the table**, in the table's order -/
theorem advertisements_eq (t : DevTree) : advertisements t = (expAll t).map toMsg := by
  simp [advertisements, expAll, toMsg, expRoot, expUuid, expDevType, expSvc, List.map_flatMap, Function.comp_def]

theorem advertisements_keys (t : DevTree) :
    (advertisements t).map keyM = (expAll t).map fun e => (e.st, e.usn) := by
  rw [advertisements_eq, List.map_map]; rfl

theorem advertisements_pos (t : DevTree) : 0 < (advertisements t).length := by
  simp [advertisements]

theorem aliveAt_mem (t : DevTree) (i : Nat) : aliveAt t i ∈ advertisements t := by
  unfold aliveAt
  have h := Nat.mod_lt i (advertisements_pos t)
  simp only [List.getElem?_eq_getElem h, Option.getD_some]
  exact List.getElem_mem h

theorem aliveAt_add_length (t : DevTree) (i : Nat) :
    aliveAt t (i + (advertisements t).length) = aliveAt t i := by
  unfold aliveAt; simp

theorem aliveAt_lt (t : DevTree) {i : Nat} (h : i < (advertisements t).length) :
    (advertisements t)[i]? = some (aliveAt t i) := by
  unfold aliveAt
  simp [Nat.mod_eq_of_lt h, List.getElem?_eq_getElem h]

theorem subMulti_append {α : Type} [BEq α] [LawfulBEq α] (c r : List α) : subMulti c (c ++ r) = true := by
  induction c with
  | nil => rfl
  | cons x c ih => simp [subMulti, ih]

theorem subMulti_take {α : Type} [BEq α] [LawfulBEq α] (e : List α) (m : Nat) : subMulti (e.take m) e = true := by
  have := subMulti_append (e.take m) (e.drop m)
  rwa [List.take_append_drop] at this

theorem map_range_eq_take {α : Type} (l : List α) (f : Nat → α) :
    ∀ m, m ≤ l.length → (∀ i, i < m → l[i]? = some (f i)) → (List.range m).map f = l.take m := by
  intro m
  induction m with
  | zero => intro _ _; simp
  | succ m ih =>
    intro hm hf
    rw [List.range_succ, List.map_append, ih (by omega) (fun i hi => hf i (by omega))]
    have h1 := hf m (by omega)
    rw [List.take_add_one, h1]; rfl

variable {k : Consts} {t : DevTree} (cfg : Cfg) (target : Str)

/-- the announcements of a model run, written out -/
def aliveObs (k : Consts) (t : DevTree) (cfg : Cfg) (target : Str) (start : Int) (i : Nat) : ObsMsg :=
  obsAlive cfg target ⟨start + Int.ofNat (i * k.announceMs), aliveAt t i⟩

theorem runCase_alives (searches : List SearchIn) (a : AnnIn) :
    (runCase k cfg target t searches (some a)).alives
      = (List.range (ticks k a)).map (aliveObs k t cfg target a.start) := by
  simp [runCase, alives, List.map_map, Function.comp_def, aliveObs]

theorem okNotify_alive (hw : WF t) (searches : List SearchIn)
    (ann : Option AnnIn) (start : Int) (i : Nat) :
    okNotify (runCase k cfg target t searches ann) ntsAlive 1 (aliveObs k t cfg target start i) = true := by
  have hm := aliveAt_mem t i
  rw [advertisements_eq] at hm
  obtain ⟨e, he, hem⟩ := List.mem_map.mp hm
  have heok := expAll_ok hw e he
  have h1 : (aliveAt t i).st = e.st := by rw [← hem]; rfl
  have h2 : (aliveAt t i).usn = e.usn := by rw [← hem]; rfl
  simp only [okNotify, aliveObs, obsAlive, runCase, Bool.and_eq_true, beq_iff_eq, List.any_eq_true, beq_self_eq_true,
    true_and, and_true]
  refine ⟨e, he, ⟨⟨h1.symm, h2.symm⟩, ?_⟩, ?_⟩
  · rw [h2]; exact heok.usn_prefix
  · by_cases hl : validLocation cfg.location = true
    · rw [hearAlive_ok heok cfg h2 (by rw [h1]; exact heok.st) hl]; simp [heardOk, hl]
    · have hl' : validLocation cfg.location = false := by simpa using hl
      simp [heardOk, hl']

theorem okNotify_byebye (hw : WF t) (searches : List SearchIn)
    (ann : Option AnnIn) (time : Int) {m : Msg} (hm : m ∈ byebyes t) :
    okNotify (runCase k cfg target t searches ann) ntsByebye 2 (obsByebye cfg target time m) = true := by
  unfold byebyes at hm
  rw [advertisements_eq] at hm
  obtain ⟨e, he, hem⟩ := List.mem_map.mp hm
  have heok := expAll_ok hw e he
  have h1 : m.st = e.st := by rw [← hem]; rfl
  have h2 : m.usn = e.usn := by rw [← hem]; rfl
  simp only [okNotify, obsByebye, runCase, Bool.and_eq_true, beq_iff_eq, List.any_eq_true, beq_self_eq_true,
    true_and, and_true]
  refine ⟨e, he, ⟨⟨h1.symm, h2.symm⟩, ?_⟩, ?_⟩
  · rw [h2]; exact heok.usn_prefix
  · by_cases hl : validLocation cfg.location = true
    · rw [hearByebye_ok heok cfg h2 (by rw [h1]; exact heok.st) hl]; simp [heardOk, hl]
    · have hl' : validLocation cfg.location = false := by simpa using hl
      simp [heardOk, hl']

theorem keyOf_aliveObs (start : Int) (i : Nat) :
    keyOf (aliveObs k t cfg target start i) = keyM (aliveAt t i) := rfl

/-- **round-robin**: the announcer of a model run satisfies the judge's announcement clause -/
theorem okAlives_run (hk : ConstsOk k) (hw : WF t)
    (searches : List SearchIn) (ann : Option AnnIn) :
    okAlives (runCase k cfg target t searches ann) = true := by
  cases ann with
  | none => simp [okAlives, runCase, subMulti]
  | some a =>
    unfold okAlives
    rw [runCase_alives]
    have hE := advertisements_keys t
    have hL : (expAll t).length = (advertisements t).length := by
      rw [advertisements_eq, List.length_map]
    generalize hn : ticks k a = n
    have htree : (runCase k cfg target t searches (some a)).tree = t := rfl
    simp only [htree, List.map_map, List.length_map, List.length_range, Bool.and_eq_true]
    have hkeys : (keyOf ∘ aliveObs k t cfg target a.start) = fun i => keyM (aliveAt t i) := by
      funext i; rfl
    rw [hkeys]
    have hms := hk.ann
    have g : ∀ j, j < n → ((List.range n).map ((fun x => x.time) ∘ aliveObs k t cfg target a.start)).getD j 0
        = a.start + Int.ofNat (j * k.announceMs) := by
      intro j hj
      simp [List.getD, List.getElem?_map, List.getElem?_range hj, aliveObs, obsAlive]
    refine ⟨⟨⟨⟨⟨?_, ?_⟩, ?_⟩, ?_⟩, ?_⟩, ?_⟩
    · -- first round
      rw [hL, ← List.map_take, List.take_range]
      have : (List.range (min (advertisements t).length n)).map (fun i => keyM (aliveAt t i))
            = ((expAll t).map fun e => (e.st, e.usn)).take (min (advertisements t).length n) := by
        apply map_range_eq_take
        · rw [List.length_map, hL]; exact Nat.min_le_left _ _
        · intro i hi
          rw [← hE, List.getElem?_map, aliveAt_lt t (by omega)]; rfl
      rw [this]; exact subMulti_take _ _
    · -- period
      rw [List.all_eq_true]
      intro i hi
      rw [List.mem_range] at hi
      rw [hL] at hi ⊢
      rw [List.getElem?_map, List.getElem?_map, List.getElem?_range (by omega), List.getElem?_range (by omega)]
      simp [aliveAt_add_length]
    · rw [List.all_eq_true]
      intro m hm
      obtain ⟨i, _, rfl⟩ := List.mem_map.mp hm
      exact okNotify_alive cfg target hw searches (some a) a.start i
    · -- none after the stop
      simp only [runCase]
      split
      · rename_i ts hts
        split at hts
        · rename_i hstopped
          injection hts with hts
          subst hts
          rw [List.all_eq_true]
          intro m hm
          obtain ⟨i, hi, rfl⟩ := List.mem_map.mp hm
          rw [List.mem_range] at hi
          apply decide_eq_true
          show a.start + Int.ofNat (i * k.announceMs) ≤ a.upto
          -- i < ticks → start + i * ms ≤ upto
          rw [← hn] at hi
          unfold ticks at hi
          split at hi
          · omega
          · rename_i hle
            simp only [Int.ofNat_eq_natCast] at hi ⊢
            have hms : (0 : Int) < (k.announceMs : Int) := by have := hk.ann; omega
            have hq : (i : Int) ≤ (a.upto - a.start) / (k.announceMs : Int) := by
              have hnn : 0 ≤ (a.upto - a.start) / (k.announceMs : Int) :=
                Int.ediv_nonneg (by omega) (by omega)
              have : i ≤ ((a.upto - a.start) / (k.announceMs : Int)).toNat := by omega
              have h2 := Int.toNat_of_nonneg hnn
              omega
            have := (Int.le_ediv_iff_mul_le hms).mp hq
            have e : ((i * k.announceMs : Nat) : Int) = (i : Int) * (k.announceMs : Int) := by simp
            rw [e]; omega
        · simp at hts
      · rfl
    · -- the cycle goes on until the end of the observation
      have hu : (runCase k cfg target t searches (some a)).annUpto = some a.upto := rfl
      rw [hu]
      simp only [Bool.or_eq_true, decide_eq_true_eq, List.length_map, List.length_range, List.any_eq_true,
        List.mem_range, List.all_eq_true]
      by_cases hn2 : n < 2
      · left; intro i hi; omega
      · right
        refine ⟨0, by omega, ?_⟩
        rw [g (n - 1) (by omega), g 1 (by omega), g 0 (by omega)]
        have hn' : ticks k a = n := hn
        unfold ticks at hn'
        split at hn'
        · omega
        · rename_i hle
          simp only [Int.ofNat_eq_natCast] at hn' ⊢
          have hpos : (0 : Int) < (k.announceMs : Int) := by omega
          have hlt := Int.lt_ediv_add_one_mul_self (a.upto - a.start) hpos
          have hnn : 0 ≤ (a.upto - a.start) / (k.announceMs : Int) := Int.ediv_nonneg (by omega) (by omega)
          have h2 := Int.toNat_of_nonneg hnn
          have e1 : (((n - 1) * k.announceMs : Nat) : Int) = ((n : Int) - 1) * (k.announceMs : Int) := by
            have h3 : ((n - 1 : Nat) : Int) = (n : Int) - 1 := by omega
            simp [h3]
          have e2 : (((0 + 1) * k.announceMs : Nat) : Int) = (k.announceMs : Int) := by simp
          have e3 : ((0 * k.announceMs : Nat) : Int) = 0 := by simp
          rw [e1, e2, e3]
          have hn'' : (n : Int) = (a.upto - a.start) / (k.announceMs : Int) + 1 := by omega
          rw [hn'']
          have : ((a.upto - a.start) / (k.announceMs : Int) + 1 - 1) * (k.announceMs : Int) + (k.announceMs : Int)
              = ((a.upto - a.start) / (k.announceMs : Int) + 1) * (k.announceMs : Int) := by
            rw [Int.add_mul, Int.add_sub_cancel]; omega
          omega

    · -- it does advertise
      have h1 : (runCase k cfg target t searches (some a)).annStart = some a.start := rfl
      have h2 : (runCase k cfg target t searches (some a)).annUpto = some a.upto := rfl
      rw [h1, h2]
      simp only [Bool.or_eq_true, decide_eq_true_eq, Bool.not_eq_true']
      cases n with
      | succ m => right; simp [List.range_succ]
      | zero =>
        left
        have hn' : ticks k a = 0 := hn
        unfold ticks at hn'
        split at hn'
        · by_cases hm : (runCase k cfg target t searches (some a)).maxAgeMs ≤ 0
          · left; exact hm
          · right; omega
        · omega

theorem okByebyes_run (hw : WF t)
    (searches : List SearchIn) (ann : Option AnnIn) :
    okByebyes (runCase k cfg target t searches ann) = true := by
  cases ann with
  | none => simp [okByebyes, runCase]
  | some a =>
    unfold okByebyes
    by_cases hs : a.stopped = true
    · have h1 : (runCase k cfg target t searches (some a)).stopTime = some a.upto := by simp [runCase, hs]
      have h2 : (runCase k cfg target t searches (some a)).byebyes = (byebyes t).map (obsByebye cfg target a.upto) := by
        simp [runCase, hs]
      have h3 : (runCase k cfg target t searches (some a)).tree = t := rfl
      rw [h1]
      simp only [h2, h3, Bool.and_eq_true]
      constructor
      · rw [List.isPerm_iff, List.map_map]
        have : (keyOf ∘ obsByebye cfg target a.upto) = keyM := by funext m; rfl
        rw [this]
        unfold byebyes
        rw [advertisements_keys]
      · rw [List.all_eq_true]
        intro m hm
        obtain ⟨m', hm', rfl⟩ := List.mem_map.mp hm
        rw [Bool.and_eq_true]
        exact ⟨okNotify_byebye cfg target hw searches (some a) a.upto hm', by simp [obsByebye]⟩
    · have h1 : (runCase k cfg target t searches (some a)).stopTime = none := by simp [runCase, hs]
      have h2 : (runCase k cfg target t searches (some a)).byebyes = [] := by simp [runCase, hs]
      rw [h1]; simp [h2]

end Upnp.C13
