/-
  C13 — the keying scheme of `UpnpDevice.__init__` keeps every declared service / embedded device,
  in order, whenever the keys it actually uses are pairwise different.
-/
import Upnp.Model.C13Server
namespace Upnp.C13
open Upnp PyDict

/-- the key an item is actually stored under, given the dict so far -/
def slot {α : Type} (key alt : α → Str) (d : PyDict Str α) (x : α) : Str :=
  if PyDict.contains d (key x) then key x ++ '#' :: alt x else key x

/-- the keys used one after the other -/
def slotsFrom {α : Type} (key alt : α → Str) : PyDict Str α → List α → List Str
  | _, [] => []
  | d, x :: r => slot key alt d x :: slotsFrom key alt (PyDict.set d (slot key alt d x) x) r

theorem set_of_not_mem {α : Type} (d : PyDict Str α) (k : Str) (v : α) (h : k ∉ keys d) :
    PyDict.set d k v = d ++ [(k, v)] := by
  induction d with
  | nil => rfl
  | cons p d ih =>
    obtain ⟨k', v'⟩ := p
    simp only [keys, List.map_cons, List.mem_cons, not_or] at h
    have h2 : k ∉ keys d := by simpa [keys] using h.2
    simp [PyDict.set, Ne.symm h.1, ih h2]

theorem fold_keeps {α : Type} (key alt : α → Str) : ∀ (xs : List α) (d : PyDict Str α),
    (keys d ++ slotsFrom key alt d xs).Nodup →
    (xs.foldl (fun (d : PyDict Str α) x => PyDict.set d (slot key alt d x) x) d).map (·.2) = d.map (·.2) ++ xs := by
  intro xs
  induction xs with
  | nil => intro d _; simp
  | cons x r ih =>
    intro d h
    simp only [slotsFrom] at h
    have hk : slot key alt d x ∉ keys d := by
      intro hm
      have := List.nodup_append.mp h
      exact this.2.2 _ hm _ (List.mem_cons_self) rfl
    simp only [List.foldl_cons]
    rw [set_of_not_mem d _ x hk] at h ⊢
    have h' : (keys (d ++ [(slot key alt d x, x)]) ++ slotsFrom key alt (d ++ [(slot key alt d x, x)]) r).Nodup := by
      simpa [keys, List.append_assoc] using h
    rw [ih _ h']
    simp

end Upnp.C13
