/-
  C13 ∘ C03 — a message of the server, decoded the way `ssdp.decode_ssdp_packet` does and fed to
  the merged listener model (`C03.Parse.parseEv` + `C03.step`), is reported as the device the
  message describes, under its ST/NT, at its LOCATION.
-/
import Upnp.Lemmas.C13Exp
import Upnp.Lemmas.C13Listener
namespace Upnp.C13
open Upnp PyDict C03

/-! ### the tracker model on a message with known derived fields -/

theorem purge_empty (now : Int) : purge ({} : Tracker String) now = {} := by
  simp [purge, purgeLoop]

theorem seeSearch_fresh (ipv : String → Option Nat) (skip : String → Bool) (msg : C03.Msg String) {u ty loc : String}
    (hu : msg.udnHdr = some u) (hud : msg.udn = some u) (hty : msg.ty = some ty) (hloc : msg.loc = some loc)
    (hok : msg.locOk = true) :
    notifHeard (seeSearch ipv skip {} msg).2 = ⟨true, u.toList, ty.toList, loc.toList, 0⟩ := by
  simp [seeSearch, Msg.validSearch, hu, hud, hty, hloc, hok, seeDevice, purge_empty, notifHeard, sighted, refreshed,
    newDev, PyDict.get?, PyDict.set, PyDict.contains, srcCode]

theorem seeAdv_fresh (ipv : String → Option Nat) (skip : String → Bool) (msg : C03.Msg String) {u ty loc : String}
    (hk : msg.kind = .alive) (hn : msg.ntsOk = true)
    (hu : msg.udnHdr = some u) (hud : msg.udn = some u) (hty : msg.ty = some ty) (hloc : msg.loc = some loc)
    (hok : msg.locOk = true) :
    notifHeard (seeAdv ipv skip {} msg).2 = ⟨true, u.toList, ty.toList, loc.toList, 1⟩
    ∧ ∃ d, get? (seeAdv ipv skip {} msg).1.devices u = some d ∧ d.locs.head?.map (·.1) = some loc := by
  simp [seeAdv, Msg.validAdv, hk, hn, hu, hud, hty, hloc, hok, seeDevice, purge_empty, notifHeard, sighted, refreshed,
    newDev, PyDict.get?, PyDict.set, PyDict.contains, srcCode]

theorem unsee_known (s : Tracker String) (msg : C03.Msg String) {u ty loc : String} {d : C03.Dev String}
    (hn : msg.ntsOk = true) (hu : msg.udnHdr = some u) (hud : msg.udn = some u) (hty : msg.ty = some ty)
    (hd : get? s.devices u = some d) (hl : d.locs.head?.map (·.1) = some loc) :
    notifHeard (unsee s msg).2 = ⟨true, u.toList, ty.toList, loc.toList, 2⟩ := by
  cases hh : d.locs with
  | nil => rw [hh] at hl; simp at hl
  | cons p r =>
    rw [hh] at hl; simp at hl
    simp [unsee, Msg.validByebye, hn, hu, hud, hty, hd, notifHeard, srcCode, hh, hl]

/-! ### look-ups in the decoded header map -/

theorem lookW (P : List (String × String)) (k : String) :
    get? (C16.SMap.writeAll Parse.lower [] P) k
      = get? ((P.map fun p => (Parse.lower p.1, (p.1, p.2))).reverse) k := by
  rw [C16.writeAll_eq_overlay]
  unfold C16.SMap.overlay
  rw [get?_foldl_set]
  simp [get?]

theorem k1 : Parse.lower (toS "CACHE-CONTROL".toList) = "cache-control" := by decide
theorem k2 : Parse.lower (toS "DATE".toList) = "date" := by decide
theorem k3 : Parse.lower (toS "SERVER".toList) = "server" := by decide
theorem k4 : Parse.lower (toS "ST".toList) = "st" := by decide
theorem k5 : Parse.lower (toS "USN".toList) = "usn" := by decide
theorem k6 : Parse.lower (toS "EXT".toList) = "ext" := by decide
theorem k7 : Parse.lower (toS "LOCATION".toList) = "location" := by decide
theorem k8 : Parse.lower (toS "BOOTID.UPNP.ORG".toList) = "bootid.upnp.org" := by decide
theorem k9 : Parse.lower (toS "CONFIGID.UPNP.ORG".toList) = "configid.upnp.org" := by decide
theorem k10 : Parse.lower (toS "NTS".toList) = "nts" := by decide
theorem k11 : Parse.lower (toS "HOST".toList) = "host" := by decide
theorem k12 : Parse.lower (toS "NT".toList) = "nt" := by decide
theorem e1 : Parse.lower "_host" = "_host" := by decide
theorem e2 : Parse.lower "_udn" = "_udn" := by decide
theorem e3 : Parse.lower "_location_original" = "_location_original" := by decide
theorem e4 : Parse.lower "location" = "location" := by decide
theorem e5 : Parse.lower "_timestamp" = "_timestamp" := by decide
theorem e6 : Parse.lower "_remote_addr" = "_remote_addr" := by decide
theorem e7 : Parse.lower "_port" = "_port" := by decide
theorem e8 : Parse.lower "_local_addr" = "_local_addr" := by decide
theorem e9 : Parse.lower "_source" = "_source" := by decide

/-- what `decode_ssdp_packet` adds to a message whose USN names device `dev` -/
def extras (dev loc : Str) : List (String × String) :=
  [("_host", senderHost), ("_udn", toS dev), ("_location_original", toS loc), ("location", toS loc),
   ("_timestamp", "0"), ("_remote_addr", senderHost), ("_port", "1900"), ("_local_addr", "-")]

theorem toS_isEmpty {l : Str} (h : l ≠ []) : (toS l).isEmpty = false := by
  cases l with
  | nil => exact absurd rfl h
  | cons c r => simp [toS, String.isEmpty_iff]

theorem hasText_of_valid {l : Str} (h : validLocation l = true) : hasText l = true := by
  have hp := startsWith_http_of_valid h
  cases l with
  | nil => revert hp; decide
  | cons c r =>
    have : c = 'h' := by
      have e : "http".toList = ['h', 't', 't', 'p'] := by decide
      rw [e] at hp
      simp only [startsWith, Bool.and_eq_true, beq_iff_eq] at hp; exact hp.1
    subst this
    have : isSpace 'h' = false := by decide
    simp [hasText, this]

theorem ne_nil_of_valid {l : Str} (h : validLocation l = true) : l ≠ [] := by
  have hp := startsWith_http_of_valid h
  rintro rfl; revert hp; decide

theorem usn_ne_nil {usn dev : Str} (hu : udnFromUsn usn = some dev) : usn ≠ [] := by
  rintro rfl
  have : udnFromUsn [] = none := by decide
  rw [this] at hu; exact absurd hu (by simp)

theorem decoded_eq {hs : List (Str × Str)} {usn loc dev : Str}
    (h1 : hdr? hs "usn".toList = some usn) (h2 : hdr? hs "location".toList = some loc)
    (hu : udnFromUsn usn = some dev) (hd : dev ≠ []) (hl : validLocation loc = true) :
    decoded hs = (hs.map fun h => (toS h.1, toS h.2)) ++ extras dev loc := by
  have hne : usn.isEmpty = false := by
    cases usn with
    | nil => exact absurd rfl (usn_ne_nil hu)
    | cons _ _ => rfl
  unfold decoded
  simp only [h1, h2, Option.getD_some, hne, Bool.false_eq_true, if_false, udnFromUsn_eq, hu, Option.map_some,
    toS_isEmpty hd, hasText_of_valid hl, if_true, extras, List.append_assoc, List.cons_append, List.nil_append]

/-! ### search answers -/

/-- the decoded header map of a search answer, most recent write first -/
def respL (c : Cfg) (m : Msg) (dev : Str) : List (String × String × String) :=
      [("_local_addr", ("_local_addr", "-")), ("_port", ("_port", "1900")), ("_remote_addr", ("_remote_addr", senderHost)),
       ("_timestamp", ("_timestamp", "0")), ("location", ("location", toS c.location)),
       ("_location_original", ("_location_original", toS c.location)), ("_udn", ("_udn", toS dev)), ("_host", ("_host", senderHost)),
       ("configid.upnp.org", (toS "CONFIGID.UPNP.ORG".toList, toS c.configId)),
       ("bootid.upnp.org", (toS "BOOTID.UPNP.ORG".toList, toS c.bootId)),
       ("location", (toS "LOCATION".toList, toS c.location)), ("ext", (toS "EXT".toList, toS [])),
       ("usn", (toS "USN".toList, toS m.usn)), ("st", (toS "ST".toList, toS m.st)),
       ("server", (toS "SERVER".toList, toS c.server)), ("date", (toS "DATE".toList, toS c.date)),
       ("cache-control", (toS "CACHE-CONTROL".toList, toS c.cacheControl))]

theorem respP_rev (c : Cfg) (m : Msg) (dev : Str) :
    ((((responseHeaders c m).map fun h => (toS h.1, toS h.2)) ++ extras dev c.location).map
        fun p => (Parse.lower p.1, (p.1, p.2))).reverse = respL c m dev := by
  simp only [respL, extras, responseHeaders, List.map_cons, List.map_nil, List.reverse_cons,
    List.reverse_nil, List.nil_append, List.cons_append, k1, k2, k3, k4, k5, k6, k7, k8, k9, e1, e2, e3, e4, e5, e6, e7, e8]

/-- the decoded header map of an advertisement, most recent write first -/
def notifL (c : Cfg) (nts : Str) (m : Msg) (dev : Str) : List (String × String × String) :=
      [("_local_addr", ("_local_addr", "-")), ("_port", ("_port", "1900")), ("_remote_addr", ("_remote_addr", senderHost)),
       ("_timestamp", ("_timestamp", "0")), ("location", ("location", toS c.location)),
       ("_location_original", ("_location_original", toS c.location)), ("_udn", ("_udn", toS dev)), ("_host", ("_host", senderHost)),
       ("usn", (toS "USN".toList, toS m.usn)), ("nt", (toS "NT".toList, toS m.st)),
       ("location", (toS "LOCATION".toList, toS c.location)),
       ("configid.upnp.org", (toS "CONFIGID.UPNP.ORG".toList, toS c.configId)),
       ("bootid.upnp.org", (toS "BOOTID.UPNP.ORG".toList, toS c.bootId)),
       ("server", (toS "SERVER".toList, toS c.server)),
       ("cache-control", (toS "CACHE-CONTROL".toList, toS c.cacheControl)),
       ("host", (toS "HOST".toList, toS c.host)), ("nts", (toS "NTS".toList, toS nts))]

theorem notifP_rev (c : Cfg) (nts : Str) (m : Msg) (dev : Str) :
    ((((notifyHeaders c nts m).map fun h => (toS h.1, toS h.2)) ++ extras dev c.location).map
        fun p => (Parse.lower p.1, (p.1, p.2))).reverse = notifL c nts m dev := by
  simp only [notifL, extras, notifyHeaders, List.map_cons, List.map_nil, List.reverse_cons,
    List.reverse_nil, List.nil_append, List.cons_append, k1, k3, k5, k7, k8, k9, k10, k11, k12, e1, e2, e3, e4, e5, e6, e7, e8]

theorem truthy_some {k v : String} (h : v.isEmpty = false) : Parse.truthy (some (k, v)) = some v := by
  simp [Parse.truthy, h]

theorem hearResponse_ok {e : Exp} (h : ExpOk e) (c : Cfg) {m : Msg} (husn : m.usn = e.usn) (hst : m.st ≠ [])
    (hl : validLocation c.location = true) :
    hearResponse c m = ⟨true, e.dev, m.st, c.location, 0⟩ := by
  have hdev := ne_nil_of_wfUdn h.dev
  have hu : udnFromUsn m.usn = some e.dev := by rw [husn]; exact h.udn_of_usn
  have hdec := decoded_eq (hs := responseHeaders c m) (usn := m.usn) (loc := c.location) rfl rfl hu hdev hl
  unfold hearResponse listen
  rw [hdec]
  generalize hP : ((responseHeaders c m).map fun h => (toS h.1, toS h.2)) ++ extras e.dev c.location = P
  have look : ∀ k, get? (C16.SMap.writeAll Parse.lower [] P) k = get? (respL c m e.dev) k := fun k => by
    rw [lookW, ← hP, respP_rev]
  have l_man := look "man"
  have l_nts := look "nts"
  have l_loc := look "location"
  have l_udn := look "_udn"
  have l_usn := look "usn"
  have l_st := look "st"
  simp [get?, respL] at l_man l_nts l_loc l_udn l_usn l_st
  have hmsg : Parse.parseEv genCfg false P
      = .msg (Parse.mkMsg genCfg .search (C16.SMap.write Parse.lower (C16.SMap.writeAll Parse.lower [] P) "_source" "search")) := by
    simp [Parse.parseEv, Parse.hget, l_man, l_nts, Parse.truthy]
  rw [hmsg]
  have hset : ∀ k, k ≠ "_source" → get? (C16.SMap.write Parse.lower (C16.SMap.writeAll Parse.lower [] P) "_source" "search") k
      = get? (C16.SMap.writeAll Parse.lower [] P) k := by
    intro k hk
    unfold C16.SMap.write
    rw [e9, get?_set_ne _ _ _ _ (Ne.symm hk)]
  have hres := seeSearch_fresh Parse.ipVersion (Parse.skipHdr genCfg)
    (Parse.mkMsg genCfg .search (C16.SMap.write Parse.lower (C16.SMap.writeAll Parse.lower [] P) "_source" "search"))
    (u := toS e.dev) (ty := toS m.st) (loc := toS c.location)
    (by simp [Parse.mkMsg, hset, l_udn, truthy_some (toS_isEmpty hdev)])
    (by simp [Parse.mkMsg, hset, l_usn, truthy_some (toS_isEmpty (usn_ne_nil hu)),
          udnFromUsn_eq, hu])
    (by simp [Parse.mkMsg, hset, l_st, truthy_some (toS_isEmpty hst)])
    (by simp [Parse.mkMsg, hset, l_loc, truthy_some (toS_isEmpty (ne_nil_of_valid hl))])
    (by simp [Parse.mkMsg, hset, l_loc, truthy_some (toS_isEmpty (ne_nil_of_valid hl)), validLocation_eq c.location, hl])
  simpa [step, Parse.mkMsg, toS_toList] using hres

/-! ### advertisements -/

theorem nts_alive : toS ntsAlive = "ssdp:alive" := by decide
theorem nts_byebye : toS ntsByebye = "ssdp:byebye" := by decide

/-- the message the C03 model derives from one of the server's NOTIFY datagrams -/
theorem notify_event {e : Exp} (h : ExpOk e) (c : Cfg) {m : Msg} (husn : m.usn = e.usn) (hst : m.st ≠ [])
    (hl : validLocation c.location = true) (nts : Str) (kind : Kind)
    (hk : (nts = ntsAlive ∧ kind = .alive) ∨ (nts = ntsByebye ∧ kind = .byebye)) :
    ∃ msg : C03.Msg String, Parse.parseEv genCfg true (decoded (notifyHeaders c nts m)) = .msg msg ∧
      msg.kind = kind ∧ msg.ntsOk = true ∧ msg.udnHdr = some (toS e.dev) ∧ msg.udn = some (toS e.dev) ∧
      msg.ty = some (toS m.st) ∧ msg.loc = some (toS c.location) ∧ msg.locOk = true := by
  have hdev := ne_nil_of_wfUdn h.dev
  have hu : udnFromUsn m.usn = some e.dev := by rw [husn]; exact h.udn_of_usn
  have hdec := decoded_eq (hs := notifyHeaders c nts m) (usn := m.usn) (loc := c.location) rfl rfl hu hdev hl
  rw [hdec]
  generalize hP : ((notifyHeaders c nts m).map fun h => (toS h.1, toS h.2)) ++ extras e.dev c.location = P
  have look : ∀ k, get? (C16.SMap.writeAll Parse.lower [] P) k = get? (notifL c nts m e.dev) k := fun k => by
    rw [lookW, ← hP, notifP_rev]
  have l_man := look "man"
  have l_nts := look "nts"
  have l_loc := look "location"
  have l_udn := look "_udn"
  have l_usn := look "usn"
  have l_nt := look "nt"
  simp [get?, notifL] at l_man l_nts l_loc l_udn l_usn l_nt
  have hset : ∀ k, k ≠ "_source" → get? (C16.SMap.write Parse.lower (C16.SMap.writeAll Parse.lower [] P) "_source" "advertisement") k
      = get? (C16.SMap.writeAll Parse.lower [] P) k := by
    intro k hk
    unfold C16.SMap.write
    rw [e9, get?_set_ne _ _ _ _ (Ne.symm hk)]
  have hntsE : (toS nts).isEmpty = false := by
    rcases hk with ⟨rfl, _⟩ | ⟨rfl, _⟩
    · rw [nts_alive]; decide
    · rw [nts_byebye]; decide
  refine ⟨Parse.mkMsg genCfg kind (C16.SMap.write Parse.lower (C16.SMap.writeAll Parse.lower [] P) "_source" "advertisement"),
    ?_, rfl, ?_, ?_, ?_, ?_, ?_, ?_⟩
  · rcases hk with ⟨rfl, rfl⟩ | ⟨rfl, rfl⟩
    · simp [Parse.parseEv, Parse.hget, l_man, l_nts, nts_alive]
    · simp [Parse.parseEv, Parse.hget, l_man, l_nts, nts_byebye]
  · simp [Parse.mkMsg, hset, l_nts, truthy_some hntsE]
  · simp [Parse.mkMsg, hset, l_udn, truthy_some (toS_isEmpty hdev)]
  · simp [Parse.mkMsg, hset, l_usn, truthy_some (toS_isEmpty (usn_ne_nil hu)), udnFromUsn_eq, hu]
  · have : kind ≠ .search := by rcases hk with ⟨_, rfl⟩ | ⟨_, rfl⟩ <;> decide
    simp [Parse.mkMsg, hset, l_nt, truthy_some (toS_isEmpty hst), this]
  · simp [Parse.mkMsg, hset, l_loc, truthy_some (toS_isEmpty (ne_nil_of_valid hl))]
  · have : kind ≠ .search := by rcases hk with ⟨_, rfl⟩ | ⟨_, rfl⟩ <;> decide
    simp [Parse.mkMsg, hset, l_loc, truthy_some (toS_isEmpty (ne_nil_of_valid hl)), validLocation_eq c.location, hl, this]

theorem hearAlive_ok {e : Exp} (h : ExpOk e) (c : Cfg) {m : Msg} (husn : m.usn = e.usn) (hst : m.st ≠ [])
    (hl : validLocation c.location = true) :
    hearAlive c m = ⟨true, e.dev, m.st, c.location, 1⟩ := by
  obtain ⟨msg, hev, hk, hn, hu, hud, hty, hloc, hok⟩ := notify_event h c husn hst hl ntsAlive .alive (Or.inl ⟨rfl, rfl⟩)
  unfold hearAlive listen
  rw [hev]
  have := (seeAdv_fresh Parse.ipVersion (Parse.skipHdr genCfg) msg hk hn hu hud hty hloc hok).1
  simpa [step, hk, toS_toList] using this

theorem hearByebye_ok {e : Exp} (h : ExpOk e) (c : Cfg) {m : Msg} (husn : m.usn = e.usn) (hst : m.st ≠ [])
    (hl : validLocation c.location = true) :
    hearByebye c m = ⟨true, e.dev, m.st, c.location, 2⟩ := by
  obtain ⟨msg, hev, hk, hn, hu, hud, hty, hloc, hok⟩ := notify_event h c husn hst hl ntsAlive .alive (Or.inl ⟨rfl, rfl⟩)
  obtain ⟨msg2, hev2, hk2, hn2, hu2, hud2, hty2, _, _⟩ := notify_event h c husn hst hl ntsByebye .byebye (Or.inr ⟨rfl, rfl⟩)
  unfold hearByebye listen
  rw [hev, hev2]
  obtain ⟨d, hd, hdl⟩ := (seeAdv_fresh Parse.ipVersion (Parse.skipHdr genCfg) msg hk hn hu hud hty hloc hok).2
  have := unsee_known (seeAdv Parse.ipVersion (Parse.skipHdr genCfg) {} msg).1 msg2 hn2 hu2 hud2 hty2 hd hdl
  simpa [step, hk, hk2, toS_toList] using this

/-! ### a description URL the listener refuses -/

theorem look_location_resp (c : Cfg) (m : Msg) :
    ∃ k, get? (C16.SMap.writeAll Parse.lower [] (decoded (responseHeaders c m))) "location" = some (k, toS c.location) := by
  have h1 : hdr? (responseHeaders c m) "usn".toList = some m.usn := rfl
  have h2 : hdr? (responseHeaders c m) "location".toList = some c.location := rfl
  unfold decoded
  simp only [h1, h2, Option.getD_some]
  by_cases hT : hasText c.location = true <;> simp only [hT, if_true, Bool.false_eq_true, if_false] <;>
    split <;> (try split) <;>
    simp only [lookW, responseHeaders, List.map_cons, List.map_nil,
      List.map_append, List.reverse_append, List.reverse_cons, List.reverse_nil, List.nil_append, List.cons_append,
      List.append_nil, k1, k2, k3, k4, k5, k6, k7, k8, k9, e1, e2, e3, e4, e5, e6, e7, e8] <;>
    simp [get?]
theorem look_location_notif (c : Cfg) (nts : Str) (m : Msg) :
    ∃ k, get? (C16.SMap.writeAll Parse.lower [] (decoded (notifyHeaders c nts m))) "location" = some (k, toS c.location) := by
  have h1 : hdr? (notifyHeaders c nts m) "usn".toList = some m.usn := rfl
  have h2 : hdr? (notifyHeaders c nts m) "location".toList = some c.location := rfl
  unfold decoded
  simp only [h1, h2, Option.getD_some]
  by_cases hT : hasText c.location = true <;> simp only [hT, if_true, Bool.false_eq_true, if_false] <;>
    split <;> (try split) <;>
    simp only [lookW, notifyHeaders, List.map_cons, List.map_nil,
      List.map_append, List.reverse_append, List.reverse_cons, List.reverse_nil, List.nil_append, List.cons_append,
      List.append_nil, k1, k3, k5, k7, k8, k9, k10, k11, k12, e1, e2, e3, e4, e5, e6, e7, e8] <;>
    simp [get?]

theorem mkMsg_locOk_false (kind : Kind) (h : Hdrs String) (src : String) {k : String} {loc : Str}
    (hl : get? h "location" = some (k, toS loc)) (hv : validLocation loc = false) :
    (Parse.mkMsg genCfg kind (C16.SMap.write Parse.lower h "_source" src)).locOk = false := by
  have hset : get? (C16.SMap.write Parse.lower h "_source" src) "location" = get? h "location" := by
    unfold C16.SMap.write
    rw [e9, get?_set_ne _ _ _ _ (by decide)]
  simp only [Parse.mkMsg, hset, hl, Parse.truthy]
  split
  · rename_i v heq
    split at heq
    · simp at heq
    · simp only [Option.some.injEq] at heq; subst heq; exact hv
  · rfl

/-- the listener model on a datagram whose LOCATION it refuses: nothing is reported, nothing is stored -/
theorem listen_refused (P : List (String × String)) {loc : Str}
    (hlook : ∃ k, get? (C16.SMap.writeAll Parse.lower [] P) "location" = some (k, toS loc))
    (hv : validLocation loc = false) (sockA : Bool) :
    step Parse.ipVersion (Parse.skipHdr genCfg) {} (Parse.parseEv genCfg sockA P) = ({}, none) := by
  obtain ⟨k, hl⟩ := hlook
  have hS := fun src kind => mkMsg_locOk_false kind (C16.SMap.writeAll Parse.lower [] P) src hl hv
  have unsee0 : ∀ msg : C03.Msg String, unsee ({} : Tracker String) msg = ({}, none) := by
    intro msg
    unfold unsee
    split
    · rfl
    · split
      · simp [PyDict.get?]
      · rfl
  unfold Parse.parseEv
  simp only
  split
  · rfl
  · cases sockA with
    | false =>
      simp only [Bool.false_eq_true, if_false]
      split
      · rfl
      · have := hS "search" .search
        generalize hm : Parse.mkMsg genCfg .search _ = msg at this ⊢
        have hk : msg.kind = .search := by rw [← hm]; rfl
        simp [step, hk, seeSearch, Msg.validSearch, this]
    | true =>
      simp only [if_true]
      split
      · rfl
      · split
        · have := hS "advertisement" .alive
          generalize hm : Parse.mkMsg genCfg .alive _ = msg at this ⊢
          have hk : msg.kind = .alive := by rw [← hm]; rfl
          simp [step, hk, seeAdv, Msg.validAdv, this]
        · split
          · generalize hm : Parse.mkMsg genCfg .byebye _ = msg
            have hk : msg.kind = .byebye := by rw [← hm]; rfl
            simp [step, hk, unsee0]
          · split
            · have := hS "advertisement" .update
              generalize hm : Parse.mkMsg genCfg .update _ = msg at this ⊢
              have hk : msg.kind = .update := by rw [← hm]; rfl
              simp [step, hk, seeAdv, Msg.validAdv, this]
            · rfl
theorem hear_refused (c : Cfg) (m : Msg) (hv : validLocation c.location = false) :
    hearResponse c m = Heard.no ∧ hearAlive c m = Heard.no ∧ hearByebye c m = Heard.no := by
  have r1 := listen_refused _ (look_location_resp c m) hv false
  have r2 := listen_refused _ (look_location_notif c ntsAlive m) hv true
  have r3 := listen_refused _ (look_location_notif c ntsByebye m) hv true
  refine ⟨?_, ?_, ?_⟩
  · unfold hearResponse listen; rw [r1]; rfl
  · unfold hearAlive listen; rw [r2]; rfl
  · unfold hearByebye listen; rw [r2]; simp only; rw [r3]; rfl

end Upnp.C13
