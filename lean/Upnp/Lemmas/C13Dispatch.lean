/-
  C13 — `_build_responses` against the UDA table (`expected`), for well-formed trees.
-/
import Upnp.Lemmas.C13Server
namespace Upnp.C13

/-- `wfTree` unpacked -/
structure WF (t : DevTree) : Prop where
  udn : ∀ d ∈ allDevices t, wfUdn d.udn = true
  dtype : ∀ d ∈ allDevices t, (typeParts (lower d.type)).isSome = true
  stype : ∀ s ∈ allServices t, (typeParts (lower s.type)).isSome = true
  root : wfUdn t.udn = true

theorem WF.of_wfTree {t : DevTree} (h : wfTree t = true) : WF t := by
  simp only [wfTree, Bool.and_eq_true, List.all_eq_true, baseOf, Option.isSome_map] at h
  obtain ⟨⟨h1, h2⟩, h4⟩ := h
  exact
    { udn := fun d hd => (h1 d hd).1
      dtype := fun d hd => (h1 d hd).2
      stype := h2
      root := h4 }

def msgKey (ci : Bool) (m : Msg) : Str × Str := normKey ci m.st m.usn
def expKey (ci : Bool) (e : Exp) : Str × Str := normKey ci e.st e.usn

theorem baseOf_congr {a b : Str} (h : lower a = lower b) : baseOf a = baseOf b := by
  unfold baseOf; rw [h]

theorem strOr_some_ne_nil {a b : Str} (h : a ≠ []) : strOr (some a) b = a := by
  cases a with
  | nil => exact absurd rfl h
  | cons c r => rfl

theorem perm_map_map_flatMap {α β : Type} (f g : α → β) (l : List α) :
    (l.map f ++ l.map g).Perm (l.flatMap fun a => [f a, g a]) := by
  induction l with
  | nil => exact List.Perm.refl _
  | cons a l ih =>
    simp only [List.map_cons, List.flatMap_cons, List.cons_append]
    refine List.Perm.cons _ ?_
    refine (List.perm_middle).trans ?_
    exact List.Perm.cons _ ih

/-- **target dispatch**: for a well-formed tree the responder's answer to any search target is,
    as a multiset of (ST, USN) (ST compared ignoring case when it echoes the request), exactly the
    table prescribed for that target — whatever UDNs / types repeat in the tree, for both settings
    of the always-root option -/
theorem dispatch_perm {t : DevTree} (hw : WF t) (ar : Bool) (st : Str) :
    ((buildResponses t ar st).map (msgKey (expected t ar st).2)).Perm
      ((expected t ar st).1.map (expKey (expected t ar st).2)) := by
  unfold buildResponses expected expectedBase
  simp only [List.map_append]
  refine List.Perm.append ?_ (by cases ar <;> exact List.Perm.refl _)
  by_cases hall : lower st = ssdpAll
  · simp only [hall, if_true, expAll, List.map_cons, List.map_append, List.map_flatMap, List.map_map]
    refine List.Perm.cons _ ?_
    have := perm_map_map_flatMap (msgKey false ∘ respUdn) (msgKey false ∘ respDevType none) (allDevices t)
    refine List.Perm.append ?_ (List.Perm.refl _)
    refine this.trans ?_
    exact List.Perm.refl _
  · by_cases hroot : lower st = rootDevice
    · simp only [hall, hroot, if_true, if_false]
      exact List.Perm.refl _
    · simp only [hall, hroot, if_false]
      rw [devicesMatchingUdn_eq]
      have hD : (allDevices t).filter (fun d => matchTypeVersions d.type (lower st))
              = (allDevices t).filter (fun d => typeMatches d.type st) :=
        List.filter_congr fun d hd => matchTypeVersions_eq_typeMatches (hw.dtype d hd) st
      have hS : (allServices t).filter (fun s => matchTypeVersions s.type (lower st))
              = (allServices t).filter (fun s => typeMatches s.type st) :=
        List.filter_congr fun s hs => matchTypeVersions_eq_typeMatches (hw.stype s hs) st
      rw [hD, hS]
      simp only [List.map_append, List.map_map]
      apply List.Perm.of_eq
      congr 1
      · congr 1
        apply List.map_congr_left
        intro d hd
        have hm : typeMatches d.type st = true := by
          have := List.mem_filter.mp hd; simpa using this.2
        have hne := typeMatches_ne_nil hm
        simp [msgKey, expKey, respDevType, expDevType, normKey, strOr_some_ne_nil hne, lower_lower]
      · apply List.map_congr_left
        intro s hs
        have hm : typeMatches s.type st = true := by
          have := List.mem_filter.mp hs; simpa using this.2
        have hne := typeMatches_ne_nil hm
        simp [msgKey, expKey, respSvc, expSvc, normKey, strOr_some_ne_nil hne, lower_lower]

end Upnp.C13
