/-
  C13 — `_build_responses` against the UDA table (`expected`), for well-formed trees.
-/
import Upnp.Lemmas.C13Server
namespace Upnp.C13

/-- `wfTree` unpacked -/
structure WF (t : DevTree) : Prop where
  udn : ∀ d ∈ allDevices t, wfUdn d.udn = true
  dtype : ∀ d ∈ allDevices t, (typeParts (lower d.type)).isSome = true
  stype : ∀ s ∈ allServices t, (typeParts (lower s.type)).isSome = true
  ud : ∀ d ∈ allDevices t, ∀ d' ∈ allDevices t, baseOf d.udn ≠ baseOf d'.type
  us : ∀ d ∈ allDevices t, ∀ s ∈ allServices t, baseOf d.udn ≠ baseOf s.type
  ds : ∀ d ∈ allDevices t, ∀ s ∈ allServices t, baseOf d.type ≠ baseOf s.type
  root : wfUdn t.udn = true

theorem WF.of_wfTree {t : DevTree} (h : wfTree t = true) : WF t := by
  simp only [wfTree, Bool.and_eq_true, List.all_eq_true, bne_iff_ne, ne_eq, baseOf, Option.isSome_map] at h
  obtain ⟨⟨⟨h1, h2⟩, h3⟩, h4⟩ := h
  exact
    { udn := fun d hd => (h1 d hd).1
      dtype := fun d hd => (h1 d hd).2
      stype := h2
      ud := fun d hd d' hd' => (h3 d hd).1 d' hd'
      us := fun d hd s hs => ((h3 d hd).2 s hs).1
      ds := fun d hd s hs => ((h3 d hd).2 s hs).2
      root := h4 }

def msgKey (ci : Bool) (m : Msg) : Str × Str := normKey ci m.st m.usn
def expKey (ci : Bool) (e : Exp) : Str × Str := normKey ci e.st e.usn

theorem baseOf_congr {a b : Str} (h : lower a = lower b) : baseOf a = baseOf b := by
  unfold baseOf; rw [h]

theorem strOr_some_ne_nil {a b : Str} (h : a ≠ []) : strOr (some a) b = a := by
  cases a with
  | nil => exact absurd rfl h
  | cons c r => rfl

theorem perm_map_map_flatMap {α β : Type} (f g : α → β) (l : List α) :
    (l.map f ++ l.map g).Perm (l.flatMap fun a => [f a, g a]) := by
  induction l with
  | nil => exact List.Perm.refl _
  | cons a l ih =>
    simp only [List.map_cons, List.flatMap_cons, List.cons_append]
    refine List.Perm.cons _ ?_
    refine (List.perm_middle).trans ?_
    exact List.Perm.cons _ ih

/-- **target dispatch**: for a well-formed tree the responder's answer to any search target is,
    as a multiset of (ST, USN) (ST compared ignoring case when it echoes the request), exactly the
    table prescribed for that target -/
theorem dispatch_perm {t : DevTree} (hw : WF t) (st : Str) :
    ((buildResponses t st).map (msgKey (expected t st).2)).Perm
      ((expected t st).1.map (expKey (expected t st).2)) := by
  unfold buildResponses expected
  simp only
  by_cases hall : lower st = ssdpAll
  · simp only [hall, if_true, expAll, List.map_cons, List.map_append, List.map_flatMap, List.map_map]
    refine List.Perm.cons _ ?_
    have := perm_map_map_flatMap (msgKey false ∘ respUdn) (msgKey false ∘ respDevType none) (allDevices t)
    refine List.Perm.append ?_ (List.Perm.refl _)
    refine this.trans ?_
    exact List.Perm.refl _
  · by_cases hroot : lower st = rootDevice
    · simp only [hroot, if_true]
      exact List.Perm.refl _
    · simp only [hall, hroot, if_false]
      rw [devicesMatchingUdn_eq]
      -- the type filters of the code and of the table coincide on a well-formed tree
      have hD : (allDevices t).filter (fun d => matchTypeVersions d.type (lower st))
              = (allDevices t).filter (fun d => typeMatches d.type st) :=
        List.filter_congr fun d hd => matchTypeVersions_eq_typeMatches (hw.dtype d hd) st
      have hS : (allServices t).filter (fun s => matchTypeVersions s.type (lower st))
              = (allServices t).filter (fun s => typeMatches s.type st) :=
        List.filter_congr fun s hs => matchTypeVersions_eq_typeMatches (hw.stype s hs) st
      rw [hD, hS]
      cases hU : (allDevices t).filter (fun d => lower d.udn == lower st) with
      | cons d ds =>
        -- a UDN matched: no type can
        have hd : d ∈ allDevices t ∧ lower d.udn = lower st := by
          have : d ∈ (allDevices t).filter (fun d => lower d.udn == lower st) := by rw [hU]; simp
          simpa using this
        have hD0 : (allDevices t).filter (fun d => typeMatches d.type st) = [] := by
          rw [List.filter_eq_nil_iff]
          intro d' hd' hm
          obtain ⟨b, h1, h2⟩ := typeMatches_base hm
          exact hw.ud d hd.1 d' hd' (by rw [baseOf_congr hd.2, h1, h2])
        have hS0 : (allServices t).filter (fun s => typeMatches s.type st) = [] := by
          rw [List.filter_eq_nil_iff]
          intro s hs hm
          obtain ⟨b, h1, h2⟩ := typeMatches_base hm
          exact hw.us d hd.1 s hs (by rw [baseOf_congr hd.2, h1, h2])
        simp only [hD0, hS0, List.map_nil, List.append_nil, List.map_map]
        exact List.Perm.refl _
      | nil =>
        simp only [List.map_nil, List.nil_append]
        cases hDD : (allDevices t).filter (fun d => typeMatches d.type st) with
        | cons d ds =>
          have hd : d ∈ allDevices t ∧ typeMatches d.type st = true := by
            have : d ∈ (allDevices t).filter (fun d => typeMatches d.type st) := by rw [hDD]; simp
            simpa using this
          have hS0 : (allServices t).filter (fun s => typeMatches s.type st) = [] := by
            rw [List.filter_eq_nil_iff]
            intro s hs hm
            obtain ⟨b, h1, h2⟩ := typeMatches_base hm
            obtain ⟨b', h1', h2'⟩ := typeMatches_base hd.2
            have : b = b' := by rw [h2] at h2'; exact Option.some.inj h2'
            exact hw.ds d hd.1 s hs (by rw [h1, h1', this])
          have hne := typeMatches_ne_nil hd.2
          simp only [hS0, List.map_nil, List.append_nil, List.map_map]
          apply List.Perm.of_eq
          apply List.map_congr_left
          intro d' _
          simp [msgKey, expKey, respDevType, expDevType, normKey, strOr_some_ne_nil hne, lower_lower]
        | nil =>
          simp only [List.map_nil, List.nil_append, List.map_map]
          apply List.Perm.of_eq
          apply List.map_congr_left
          intro s hs
          have hm : typeMatches s.type st = true := by
            have := List.mem_filter.mp hs; simpa using this.2
          have hne := typeMatches_ne_nil hm
          simp [msgKey, expKey, respSvc, expSvc, normKey, strOr_some_ne_nil hne, lower_lower]

end Upnp.C13
