/-
  C13 — facts about the entries of the UDA table (`ExpOk`): described device, USN shape, and that
  `udn_from_usn` recovers the device's UDN.
-/
import Upnp.Lemmas.C13Dispatch
namespace Upnp.C13

/-! ### entries of the table -/

structure ExpOk (e : Exp) : Prop where
  dev : wfUdn e.dev = true
  usn : e.usn = e.dev ∨ ∃ x, e.usn = e.dev ++ sep ++ x
  st : e.st ≠ []

theorem ne_nil_of_wfUdn {u : Str} (h : wfUdn u = true) : u ≠ [] := by
  rintro rfl; revert h; decide

theorem ne_nil_of_parts {s : Str} (h : (typeParts (lower s)).isSome = true) : s ≠ [] := by
  rintro rfl; revert h; decide

theorem rootDevice_ne_nil : rootDevice ≠ [] := by decide

theorem expAll_ok {t : DevTree} (hw : WF t) : ∀ e ∈ expAll t, ExpOk e := by
  intro e he
  simp only [expAll, List.mem_cons, List.mem_append, List.mem_flatMap, List.mem_map,
    List.not_mem_nil, or_false] at he
  rcases he with rfl | ⟨d, hd, rfl | rfl⟩ | ⟨s, hs, rfl⟩
  · exact ⟨hw.root, Or.inr ⟨_, rfl⟩, rootDevice_ne_nil⟩
  · exact ⟨hw.udn d hd, Or.inl rfl, ne_nil_of_wfUdn (hw.udn d hd)⟩
  · exact ⟨hw.udn d hd, Or.inr ⟨_, rfl⟩, ne_nil_of_parts (hw.dtype d hd)⟩
  · obtain ⟨d, hd, ho, _⟩ := mem_allServices.mp hs
    exact ⟨by simp only [expSvc]; rw [ho]; exact hw.udn d hd, Or.inr ⟨_, rfl⟩, ne_nil_of_parts (hw.stype s hs)⟩

theorem expected_ok {t : DevTree} (hw : WF t) (ar : Bool) (st : Str) : ∀ e ∈ (expected t ar st).1, ExpOk e := by
  intro e he
  unfold expected at he
  simp only [List.mem_append] at he
  rcases he with he | he
  · unfold expectedBase at he
    simp only at he
    split at he
    · exact expAll_ok hw e he
    · split at he
      · simp only [List.mem_singleton] at he
        subst he
        exact ⟨hw.root, Or.inr ⟨_, rfl⟩, rootDevice_ne_nil⟩
      · simp only [List.mem_append, List.mem_map, List.mem_filter] at he
        rcases he with (⟨d, ⟨hd, _⟩, rfl⟩ | ⟨d, ⟨hd, hm⟩, rfl⟩) | ⟨s, ⟨hs, hm⟩, rfl⟩
        · exact ⟨hw.udn d hd, Or.inl rfl, ne_nil_of_wfUdn (hw.udn d hd)⟩
        · refine ⟨hw.udn d hd, Or.inr ⟨_, rfl⟩, ?_⟩
          have := typeMatches_ne_nil hm
          simp only [expDevType]; intro h; apply this; rw [h]; rfl
        · obtain ⟨d, hd, ho, _⟩ := mem_allServices.mp hs
          refine ⟨by simp only [expSvc]; rw [ho]; exact hw.udn d hd, Or.inr ⟨_, rfl⟩, ?_⟩
          have := typeMatches_ne_nil hm
          simp only [expSvc]; intro h; apply this; rw [h]; rfl
  · cases ar with
    | false => simp at he
    | true =>
      simp only [if_true, List.mem_singleton] at he
      subst he
      exact ⟨hw.root, Or.inr ⟨_, rfl⟩, rootDevice_ne_nil⟩

theorem sep_eq : sep = [':', ':'] := by decide

theorem ExpOk.usn_prefix {e : Exp} (h : ExpOk e) : startsWith e.usn e.dev = true := by
  rcases h.usn with h | ⟨x, h⟩
  · rw [h]; exact startsWith_self _
  · rw [h, List.append_assoc]; exact startsWith_append _ _

/-- **USN → UDN**: the listener's `udn_from_usn` recovers the described device's UDN -/
theorem ExpOk.udn_of_usn {e : Exp} (h : ExpOk e) : udnFromUsn e.usn = some e.dev := by
  have hd := h.dev
  simp only [wfUdn, Bool.and_eq_true] at hd
  unfold udnFromUsn
  rcases h.usn with hu | ⟨x, hu⟩
  · rw [hu, if_pos hd.1, beforeSep2_self _ hd.2]
  · rw [hu]
    have : startsWith (lower (e.dev ++ sep ++ x)) "uuid:".toList = true := by
      rw [List.append_assoc, lower_append]; exact startsWith_trans_append _ hd.1
    rw [if_pos this, List.append_assoc, sep_eq]
    simp only [List.cons_append, List.nil_append]
    rw [beforeSep2_append _ _ hd.2]

end Upnp.C13
