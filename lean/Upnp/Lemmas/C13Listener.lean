/-
  C13 — the `Str`-level predicates of the C13 model (`udnFromUsn`, `validLocation`) are the C03
  listener model's (`C03.Parse.udnFromUsn`, `C03.Parse.locOk` with the generated needles), and the
  look-ups of the decoded header map of a server message.
-/
import Upnp.Lemmas.C13Str
import Upnp.Lemmas.C16Sim
import Upnp.Model.C13Listener
namespace Upnp.C13
open Upnp PyDict

theorem toS_toList (l : Str) : (toS l).toList = l := by simp [toS]

theorem lowerC_eq (c : Char) : C03.Parse.lowerC c = lowerC c := by
  unfold C03.Parse.lowerC lowerC
  have h1 : ('A' ≤ c) ↔ 65 ≤ c.toNat := by
    rw [Char.le_def, UInt32.le_iff_toNat_le]; rfl
  have h2 : (c ≤ 'Z') ↔ c.toNat ≤ 90 := by
    rw [Char.le_def, UInt32.le_iff_toNat_le]; rfl
  simp only [h1, h2]

theorem lowerL_eq (l : Str) : C03.Parse.lowerL l = lower l := by
  simp [C03.Parse.lowerL, lower, lowerC_eq]

theorem isPrefixOf_eq (p l : Str) : p.isPrefixOf l = startsWith l p := by
  induction p generalizing l with
  | nil => cases l <;> rfl
  | cons a p ih =>
    cases l with
    | nil => rfl
    | cons b l => simp [List.isPrefixOf, startsWith, ih, Bool.beq_comm]

theorem isInfixL_eq (n l : Str) : C03.Parse.isInfixL n l = isInfix n l := by
  induction l with
  | nil => rfl
  | cons c l ih => simp [C03.Parse.isInfixL, isInfix, ih, isPrefixOf_eq]

theorem beforeDoubleColon_eq (l : Str) : C03.Parse.beforeDoubleColon l = beforeSep2 ':' ':' l := by
  induction l using C03.Parse.beforeDoubleColon.induct with
  | case1 r => simp [C03.Parse.beforeDoubleColon, beforeSep2]
  | case2 c r hne ih =>
    rw [C03.Parse.beforeDoubleColon]
    · cases r with
      | nil => simp [beforeSep2, C03.Parse.beforeDoubleColon]
      | cons d r' =>
        rw [beforeSep2, if_neg, ih]
        rintro ⟨rfl, rfl⟩
        exact hne _ rfl rfl
    · exact hne
  | case3 => rfl

theorem startsWith_take (l p : Str) : (l.take p.length == p) = startsWith l p := by
  induction p generalizing l with
  | nil => cases l <;> simp [startsWith]
  | cons a p ih =>
    cases l with
    | nil => simp [startsWith]
    | cons b l =>
      simp only [List.length_cons, List.take_succ_cons, startsWith]
      rw [← ih l]
      by_cases h : b = a <;> simp [h]

/-- **one `udn_from_usn`**: the C13 reading of a USN is the C03 listener model's -/
theorem udnFromUsn_eq (u : Str) : C03.Parse.udnFromUsn (toS u) = (udnFromUsn u).map toS := by
  unfold C03.Parse.udnFromUsn udnFromUsn
  simp only [toS_toList, lowerL_eq, beforeDoubleColon_eq]
  have h : (lower (u.take 5) == "uuid:".toList) = startsWith (lower u) "uuid:".toList := by
    have := startsWith_take (lower u) "uuid:".toList
    rw [← this]
    simp [lower, List.map_take]
  rw [h]
  split <;> simp [toS]

/-- **one location test**: `validLocation` is by definition the C03 model's `locUsable` (decision on
    the parsed host) with the generated constants; a usable location starts with the prefix `http` -/
theorem validLocation_eq (l : Str) :
    C03.Parse.locUsable C03.genCfg.searchPrefix C03.genCfg.schemes C03.genCfg.loopbackNames (toS l) = validLocation l :=
  rfl

theorem startsWith_http_of_valid {l : Str} (h : validLocation l = true) : startsWith l "http".toList = true := by
  have e1 : C03.genCfg.searchPrefix = "http" := by decide
  simp only [validLocation, C03.Parse.locUsable, e1, Bool.and_eq_true, toS_toList] at h
  rw [← isPrefixOf_eq]; exact h.1.1

end Upnp.C13
