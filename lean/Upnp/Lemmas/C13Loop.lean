/-
  C13 — the event-loop state machine sends, over any history, exactly the datagrams the
  per-request function `answer` prescribes (as a multiset), never raises, and has no timer left
  `mxCap` seconds after the last event.
-/
import Upnp.Lemmas.C13Run
import Upnp.Model.C13Loop
namespace Upnp.C13

/-- everything sent or still scheduled -/
def Loop.all (s : Loop) : List Out := s.log ++ s.timers.flatMap fire

structure Good (k : Consts) (s : Loop) : Prop where
  noRaise : s.raisedAt = []
  soon : ∀ tm ∈ s.timers, tm.due ≤ s.now + Int.ofNat k.mxCap * 1000

theorem delayOf_le_cap (k : Consts) (mx : Option Str) : delayOf k mx ≤ Int.ofNat k.mxCap := by
  unfold delayOf
  split
  · simp
  · split
    · simp
    · exact Int.min_le_left _ _

/-- shape of `_on_data`'s plan for constants satisfying `ConstsOk` -/
theorem onData_later {k : Consts} (hk : ConstsOk k) {t : DevTree} {req : Req} {nowToo : Bool} {lo hi : Int}
    {msgs : List Msg} (h : onData k t req = .send nowToo (some (lo, hi)) msgs) :
    nowToo = false ∧ 0 ≤ lo ∧ lo < hi ∧ hi ≤ Int.ofNat k.mxCap * 1000 := by
  unfold onData at h
  split at h
  · simp at h
  · simp only at h
    split at h
    · simp at h
    · simp only [hk.guard, hk.once, Bool.false_eq_true, if_false] at h
      split at h
      · rename_i hd
        simp only [decide_eq_true_eq] at hd
        simp only [Plan.send.injEq, Option.some.injEq, Prod.mk.injEq] at h
        obtain ⟨h1, ⟨h2, h3⟩, _⟩ := h
        have hc := delayOf_le_cap k req.mx
        have := hk.lo; have := hk.off; have := hk.span
        refine ⟨h1.symm, by omega, by omega, by omega⟩
      · simp at h

theorem perm_of_count {α : Type} [BEq α] [LawfulBEq α] {l₁ l₂ : List α}
    (h : ∀ a, l₁.count a = l₂.count a) : l₁.Perm l₂ := List.perm_iff_count.mpr h

theorem step_spec {k : Consts} (hk : ConstsOk k) (t : DevTree) (s : Loop) (hg : Good k s) (e : Ev) :
    Good k (stepLoop k t s e) ∧
    (stepLoop k t s e).all.Perm (s.all ++ outsFrom k t s.now [e]) ∧
    (stepLoop k t s e).now = (match e with | .advance dt => s.now + Int.ofNat dt | .recv _ _ _ => s.now) := by
  cases e with
  | advance dt =>
    refine ⟨⟨hg.noRaise, ?_⟩, ?_, rfl⟩
    · intro tm htm
      simp only [stepLoop, List.mem_filter] at htm
      have := hg.soon tm htm.1
      have : (0 : Int) ≤ Int.ofNat dt := Int.natCast_nonneg dt
      simp only [stepLoop]
      omega
    · simp only [stepLoop, Loop.all, outsFrom, List.append_nil, List.append_assoc]
      refine List.Perm.append_left _ ?_
      rw [← List.flatMap_append]
      exact List.Perm.flatMap_right _ (List.filter_append_perm _ _)
  | recv r req sel =>
    simp only [stepLoop, outsFrom, List.append_nil, outsOf, answer]
    cases hp : onData k t req with
    | ignore => simp only [Option.getD_some, List.map_nil, List.append_nil]; exact ⟨hg, List.Perm.refl _, trivial⟩
    | send nowToo later msgs =>
      cases later with
      | none =>
        simp only [Option.getD_some]
        refine ⟨⟨hg.noRaise, hg.soon⟩, ?_, trivial⟩
        simp only [Loop.all]
        apply perm_of_count
        intro a
        cases nowToo <;> simp [List.count_append, List.map_map, Function.comp_def] <;> omega
      | some p =>
        obtain ⟨lo, hi⟩ := p
        obtain ⟨h1, h2, h3, h4⟩ := onData_later hk hp
        subst h1
        obtain ⟨j, hj, hj1, hj2⟩ := pickJitter_spec h3 sel
        simp only [hj, Option.map_some, Option.getD_some, Bool.false_eq_true, if_false, List.append_nil,
          List.nil_append]
        refine ⟨⟨hg.noRaise, ?_⟩, ?_, trivial⟩
        · intro tm htm
          simp only [List.mem_append, List.mem_singleton] at htm
          rcases htm with htm | rfl
          · exact hg.soon tm htm
          · simp only; omega
        · simp only [Loop.all, List.flatMap_append, List.flatMap_cons, List.flatMap_nil, List.append_nil, fire,
            List.map_map, Function.comp_def, List.append_assoc]
          exact List.Perm.refl _

/-- **history**: over any sequence of clock advances and receptions the loop has sent or still
    holds exactly what `answer` prescribes, request by request -/
theorem runLoop_spec {k : Consts} (hk : ConstsOk k) (t : DevTree) : ∀ (evs : List Ev) (s : Loop), Good k s →
    Good k (runLoop k t s evs) ∧ (runLoop k t s evs).all.Perm (s.all ++ outsFrom k t s.now evs) := by
  intro evs
  induction evs with
  | nil => intro s hg; simp only [runLoop, List.foldl_nil, outsFrom, List.append_nil]; exact ⟨hg, List.Perm.refl _⟩
  | cons e evs ih =>
    intro s hg
    obtain ⟨hg1, hp1, hn1⟩ := step_spec hk t s hg e
    obtain ⟨hg2, hp2⟩ := ih _ hg1
    refine ⟨by simpa [runLoop] using hg2, ?_⟩
    have hp2' : (runLoop k t s (e :: evs)).all.Perm ((stepLoop k t s e).all ++ outsFrom k t (stepLoop k t s e).now evs) := by
      simpa [runLoop] using hp2
    refine hp2'.trans ?_
    refine (List.Perm.append_right _ hp1).trans ?_
    rw [List.append_assoc]
    refine List.Perm.append_left _ ?_
    cases e with
    | advance dt => simp only [outsFrom, List.nil_append] at hn1 ⊢; rw [hn1]
    | recv r req sel => simp only [outsFrom, List.append_nil] at hn1 ⊢; rw [hn1]

theorem flush_timers {k : Consts} (s : Loop) (hg : Good k s) (t : DevTree) :
    (stepLoop k t s (.advance (k.mxCap * 1000))).timers = [] := by
  simp only [stepLoop, List.filter_eq_nil_iff]
  intro tm htm
  have := hg.soon tm htm
  simp only [Bool.not_eq_true', decide_eq_false_iff_not, Decidable.not_not]
  have e : Int.ofNat (k.mxCap * 1000) = Int.ofNat k.mxCap * 1000 := by simp
  omega

theorem outsFrom_eq (k : Consts) (t : DevTree) : ∀ (evs : List Ev) (now : Int),
    outsFrom k t now evs = (recvsFrom now evs).flatMap fun x => outsOf k t x.1 x.2.1 x.2.2.1 x.2.2.2 := by
  intro evs
  induction evs with
  | nil => intro now; rfl
  | cons e evs ih =>
    intro now
    cases e with
    | advance dt => simp only [outsFrom, recvsFrom, ih]
    | recv r req sel => simp only [outsFrom, recvsFrom, ih, List.flatMap_cons]

end Upnp.C13
