/-
  C13 — the per-requester clause of the judge (multiset of answers = union of what the searches
  prescribe; window counting) holds whenever every search's datagrams are a permutation of what it
  prescribes and lie inside its window.  Pure list reasoning.
-/
import Upnp.Spec.C13
namespace Upnp.C13

theorem perm_flatMap_pointwise {α β : Type} {f g : α → List β} :
    ∀ (l : List α), (∀ a ∈ l, (f a).Perm (g a)) → (l.flatMap f).Perm (l.flatMap g) := by
  intro l
  induction l with
  | nil => intro _; exact List.Perm.refl _
  | cons a l ih =>
    intro h
    simp only [List.flatMap_cons]
    exact List.Perm.append (h a (by simp)) (ih fun b hb => h b (List.mem_cons_of_mem _ hb))

theorem sum_filter_le {α : Type} (p : α → Bool) (f g : α → Nat) :
    ∀ (l : List α), (∀ x ∈ l, p x = true → f x ≤ g x) → ((l.filter p).map f).sum ≤ (l.map g).sum := by
  intro l
  induction l with
  | nil => intro _; simp
  | cons a l ih =>
    intro h
    have ih' := ih fun x hx => h x (List.mem_cons_of_mem _ hx)
    by_cases hp : p a = true
    · have := h a (by simp) hp
      simp only [List.filter_cons, hp, if_true, List.map_cons, List.sum_cons]; omega
    · simp only [List.filter_cons, hp, List.map_cons, List.sum_cons]
      simp only [Bool.false_eq_true, if_false]; omega

/-- the core of `okRequester`, for any family of items with a window `[a i, b i]`, prescribed keys
    and sent (key, time) pairs -/
theorem okRequester_core {ι κ : Type} [BEq κ] [LawfulBEq κ] (I : List ι) (a b : ι → Int) (keys : ι → List κ)
    (sends : ι → List (κ × Int))
    (hperm : ∀ i ∈ I, ((sends i).map (·.1)).Perm (keys i))
    (hwin : ∀ i ∈ I, ∀ m ∈ sends i, a i ≤ m.2 ∧ m.2 ≤ b i) :
    (let es := I.map fun i => (a i, b i, keys i)
     let ms := I.flatMap sends
     (ms.map (·.1)).isPerm (es.flatMap (·.2.2))
     && es.all fun ei => es.all fun ej => (ms.map (·.1)).eraseDups.all fun k =>
       decide (((es.filter fun e => ei.1 ≤ e.1 && e.2.1 ≤ ej.2.1).map fun e => e.2.2.count k).sum
               ≤ ms.countP fun m => m.1 == k && ei.1 ≤ m.2 && m.2 ≤ ej.2.1)) = true := by
  simp only [Bool.and_eq_true, List.all_eq_true, decide_eq_true_eq]
  constructor
  · rw [List.isPerm_iff, List.map_flatMap, List.flatMap_map]
    exact perm_flatMap_pointwise I hperm
  · intro ei _ ej _ k _
    rw [List.filter_map, List.map_map, List.countP_flatMap]
    apply sum_filter_le
    intro i hi hp
    simp only [Function.comp_apply, Bool.and_eq_true, decide_eq_true_eq] at hp ⊢
    rw [← (hperm i hi).count_eq k, List.count_eq_countP, List.countP_map]
    apply Nat.le_of_eq
    apply List.countP_congr
    intro m hm
    obtain ⟨h1, h2⟩ := hwin i hi m hm
    simp only [Function.comp_apply, Bool.and_eq_true, beq_iff_eq, decide_eq_true_eq]
    constructor
    · intro h; exact ⟨⟨h, by omega⟩, by omega⟩
    · intro h; exact h.1.1

end Upnp.C13
