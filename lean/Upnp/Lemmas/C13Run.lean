/-
  C13 — lemmas towards `ok (runCase …) = true`: facts about the table's entries, the listener
  model on them, timing of `_on_data`, the announcer's cycle.
-/
import Upnp.Lemmas.C13Compose
import Upnp.Lemmas.C13Requester
import Upnp.Model.C13Run
namespace Upnp.C13

/-! ### timing of `_on_data` -/

structure ConstsOk (k : Consts) : Prop where
  guard : k.guardTruthy = false
  once : k.sendNowAlso = false
  lo : 0 ≤ k.jitterLo
  off : 0 ≤ k.jitterHiOff
  span : k.jitterLo + k.jitterHiOff < 1000
  ann : 0 < k.announceMs

/-- decidable form of `ConstsOk` (closed by `decide` on the generated constants) -/
def constsOk (k : Consts) : Bool :=
  !k.guardTruthy && !k.sendNowAlso && decide (0 ≤ k.jitterLo) && decide (0 ≤ k.jitterHiOff)
  && decide (k.jitterLo + k.jitterHiOff < 1000) && decide (0 < k.announceMs)

theorem ConstsOk.of_bool {k : Consts} (h : constsOk k = true) : ConstsOk k := by
  simp only [constsOk, Bool.and_eq_true, Bool.not_eq_true', decide_eq_true_eq] at h
  obtain ⟨⟨⟨⟨⟨h1, h2⟩, h3⟩, h4⟩, h5⟩, h6⟩ := h
  exact ⟨h1, h2, h3, h4, h5, h6⟩

theorem windowMs_nonneg (mx : Option Str) : 0 ≤ windowMs mx := by
  unfold windowMs
  split
  · exact Int.le_refl 0
  · split
    · split <;> omega
    · exact Int.le_refl 0

/-- when `_on_data` delays, the requester's MX is a positive integer at least as large as the delay -/
theorem delay_le_window {k : Consts} {mx : Option Str} (h : 0 < delayOf k mx) :
    delayOf k mx * 1000 ≤ windowMs mx := by
  unfold delayOf at h ⊢
  unfold windowMs
  cases mx with
  | none => simp at h
  | some s =>
    simp only at h ⊢
    cases hv : pyInt? s with
    | none => rw [hv] at h; simp at h
    | some v =>
      rw [hv] at h
      simp only at h ⊢
      have : min (Int.ofNat k.mxCap) v ≤ v := Int.min_le_right _ _
      have hv0 : 0 < v := by omega
      rw [if_pos hv0]; omega

theorem pickJitter_spec {lo hi : Int} (h : lo < hi) (sel : Option Nat) :
    ∃ j, pickJitter lo hi sel = some j ∧ lo ≤ j ∧ j < hi := by
  unfold pickJitter
  rw [if_neg (by omega)]
  cases sel with
  | none => exact ⟨hi - 1, rfl, by omega, by omega⟩
  | some n =>
    refine ⟨lo + (Int.ofNat n) % (hi - lo), rfl, ?_, ?_⟩
    · have := Int.emod_nonneg (Int.ofNat n) (b := hi - lo) (by omega); omega
    · have := Int.emod_lt_of_pos (Int.ofNat n) (b := hi - lo) (by omega); omega

/-- **once, in the window**: a well-formed M-SEARCH is answered with exactly the messages of
    `_build_responses`, each once, at a time inside `[now, now + MX]` -/
theorem answer_spec {k : Consts} (hk : ConstsOk k) (t : DevTree) (now : Int) (r : Req) (sel : Option Nat)
    (hr : isMSearch r = true) :
    ∃ sends, answer k t now r sel = some sends ∧
      sends.map (·.msg) = buildResponses t k.alwaysRoot (r.st.getD []) ∧
      ∀ s ∈ sends, now ≤ s.time ∧ s.time ≤ now + windowMs r.mx := by
  simp only [isMSearch, Bool.and_eq_true, beq_iff_eq] at hr
  have hcond : ¬ (r.line ≠ mSearchLine ∨ r.man ≠ some ssdpDiscover) := by
    rw [hr.1, hr.2]; simp
  unfold answer onData
  rw [if_neg hcond]
  simp only
  cases hb : buildResponses t k.alwaysRoot (r.st.getD []) with
  | nil => exact ⟨[], rfl, rfl, by simp⟩
  | cons m ms =>
    simp only [hk.guard, hk.once, Bool.false_eq_true, if_false]
    by_cases hd : delayOf k r.mx > 0
    · simp only [hd, decide_true, if_true]
      have hlt : k.jitterLo < delayOf k r.mx * 1000 - k.jitterHiOff := by
        have := hk.span; omega
      obtain ⟨j, hj, h1, h2⟩ := pickJitter_spec hlt sel
      refine ⟨(m :: ms).map fun m => ⟨now + j, m⟩, ?_, ?_, ?_⟩
      · simp [hj]
      · simp [List.map_map, Function.comp_def]
      · intro s hs
        simp only [List.mem_map] at hs
        obtain ⟨m', _, rfl⟩ := hs
        have hw := delay_le_window hd
        have := hk.lo; have := hk.off
        simp only
        omega
    · simp only [hd, decide_false, Bool.false_eq_true, if_false]
      refine ⟨(m :: ms).map fun m => ⟨now, m⟩, rfl, ?_, ?_⟩
      · simp [List.map_map, Function.comp_def]
      · intro s hs
        simp only [List.mem_map] at hs
        obtain ⟨m', _, rfl⟩ := hs
        have := windowMs_nonneg r.mx
        simp only
        omega

/-! ### one search of a model run satisfies the judge -/

theorem ne_nil_of_normKey {ci : Bool} {a b u v : Str} (h : normKey ci a u = normKey ci b v) (hb : b ≠ []) :
    a ≠ [] ∧ u = v := by
  unfold normKey at h
  simp only [Prod.mk.injEq] at h
  refine ⟨?_, h.2⟩
  cases ci with
  | false => simp only [Bool.false_eq_true, if_false] at h; rw [h.1]; exact hb
  | true =>
    simp only [if_true] at h
    intro ha; apply hb
    have := h.1; rw [ha] at this
    exact lower_nil_iff.mp this.symm

/-- every message `_build_responses` produces realises an entry of the table for that target -/
theorem response_entry {t : DevTree} (hw : WF t) (ar : Bool) (st : Str) {m : Msg}
    (hm : m ∈ buildResponses t ar st) :
    ∃ e ∈ (expected t ar st).1, ExpOk e ∧ m.usn = e.usn ∧ m.st ≠ [] ∧
      expKey (expected t ar st).2 e = msgKey (expected t ar st).2 m := by
  have hperm := dispatch_perm hw ar st
  have hkey : msgKey (expected t ar st).2 m ∈ (buildResponses t ar st).map (msgKey (expected t ar st).2) :=
    List.mem_map.mpr ⟨m, hm, rfl⟩
  obtain ⟨e, he, hek⟩ := List.mem_map.mp (hperm.mem_iff.mp hkey)
  have heok := expected_ok hw ar st e he
  obtain ⟨hst, husn⟩ := ne_nil_of_normKey (a := m.st) (u := m.usn) hek.symm heok.st
  exact ⟨e, he, heok, husn, hst, hek⟩

theorem answer_not_msearch (k : Consts) (t : DevTree) (now : Int) (r : Req) (sel : Option Nat)
    (h : isMSearch r = false) : answer k t now r sel = some [] := by
  have hc : r.line ≠ mSearchLine ∨ r.man ≠ some ssdpDiscover := by
    by_cases h1 : r.line = mSearchLine
    · right; intro h2; simp [isMSearch, h1, h2] at h
    · left; exact h1
  unfold answer onData
  rw [if_pos hc]

theorem keyL_of_normKey (ci : Bool) (a u : Str) :
    (fun p : Str × Str => (lower p.1, p.2)) (normKey ci a u) = keyL a u := by
  cases ci <;> simp [normKey, keyL, lower_lower]

/-- what one M-SEARCH of a model run puts on the response socket -/
theorem sendsOf_spec {k : Consts} (hk : ConstsOk k) {t : DevTree} (hw : WF t) (cfg : Cfg)
    (target : Str) (searches : List SearchIn) (ann : Option AnnIn)
    (i : SearchIn) (hr : isMSearch i.req = true) :
    (runSearch k t i).raised = false ∧
    ((sendsOf k cfg t i).map fun m => keyL m.st m.usn).Perm
      (expKeysL (runCase k cfg target t searches ann) (runSearch k t i)) ∧
    ∀ m ∈ sendsOf k cfg t i, i.time ≤ m.time ∧ m.time ≤ windowEnd (runSearch k t i) ∧
      m.startLine = okLine ∧ m.nts = [] ∧ m.location = cfg.location ∧
      accounts (runCase k cfg target t searches ann) (runSearch k t i) m = true := by
  obtain ⟨sends, hans, hmsgs, htime⟩ := answer_spec hk t i.time i.req i.sel hr
  have hperm := dispatch_perm hw k.alwaysRoot (i.req.st.getD [])
  have hexp : expOf (runCase k cfg target t searches ann) (runSearch k t i)
      = expected t k.alwaysRoot (i.req.st.getD []) := rfl
  refine ⟨by simp [runSearch, hans], ?_, ?_⟩
  · have := hperm.map (fun p : Str × Str => (lower p.1, p.2))
    rw [← hmsgs] at this
    simp only [List.map_map] at this
    simp only [sendsOf, hans, Option.getD_some, List.map_map, expKeysL, hexp]
    refine (List.Perm.of_eq ?_).trans (this.trans (List.Perm.of_eq ?_))
    · apply List.map_congr_left; intro s _
      simp [Function.comp_def, msgKey, obsResponse, keyL_of_normKey]
    · apply List.map_congr_left; intro e _
      simp [Function.comp_def, expKey, keyL_of_normKey]
  · intro m hm
    simp only [sendsOf, hans, Option.getD_some, List.mem_map] at hm
    obtain ⟨s, hs, rfl⟩ := hm
    obtain ⟨ht1, ht2⟩ := htime s hs
    rcases hE : expected t k.alwaysRoot (i.req.st.getD []) with ⟨exp, ci⟩
    rw [hE] at hperm
    simp only at hperm
    have hkey : msgKey ci s.msg ∈ (buildResponses t k.alwaysRoot (i.req.st.getD [])).map (msgKey ci) := by
      rw [← hmsgs, List.map_map]; exact List.mem_map.mpr ⟨s, hs, rfl⟩
    obtain ⟨e, he, hek⟩ := List.mem_map.mp (hperm.mem_iff.mp hkey)
    have heok : ExpOk e := expected_ok hw k.alwaysRoot (i.req.st.getD []) e (by rw [hE]; exact he)
    obtain ⟨hst, husn⟩ := ne_nil_of_normKey (a := s.msg.st) (u := s.msg.usn) hek.symm heok.st
    refine ⟨ht1, ht2, rfl, rfl, rfl, ?_⟩
    unfold accounts
    rw [hexp, hE]
    have hr' : isMSearch (runSearch k t i).req = true := hr
    simp only [hr', Bool.and_eq_true, beq_iff_eq, decide_eq_true_eq, List.any_eq_true, true_and]
    refine ⟨⟨⟨rfl, ht1⟩, ht2⟩, e, he, ⟨hek, ?_⟩, ?_⟩
    · show startsWith s.msg.usn e.dev = true
      rw [husn]; exact heok.usn_prefix
    · by_cases hl : validLocation cfg.location = true
      · simp only [heardOk, obsResponse, hearResponse_ok heok cfg husn hst hl]
        simp [runCase, hl]
      · have hl' : validLocation cfg.location = false := by simpa using hl
        simp [heardOk, runCase, hl']

theorem filter_responses (k : Consts) (cfg : Cfg) (t : DevTree) (r : Str) : ∀ (searches : List SearchIn),
    (searches.flatMap (sendsOf k cfg t)).filter (·.dest == r)
      = (searches.filter (·.requester == r)).flatMap (sendsOf k cfg t) := by
  intro searches
  induction searches with
  | nil => rfl
  | cons i l ih =>
    simp only [List.flatMap_cons, List.filter_append, ih, List.filter_cons]
    have hd : ∀ m ∈ sendsOf k cfg t i, m.dest = i.requester := by
      intro m hm
      simp only [sendsOf, List.mem_map] at hm
      obtain ⟨s, _, rfl⟩ := hm; rfl
    by_cases h : (i.requester == r) = true
    · rw [if_pos h, List.flatMap_cons]
      congr 1
      rw [List.filter_eq_self]
      intro m hm; rw [hd m hm]; exact h
    · rw [if_neg h]
      have : (sendsOf k cfg t i).filter (·.dest == r) = [] := by
        rw [List.filter_eq_nil_iff]
        intro m hm; rw [hd m hm]; exact h
      rw [this]; rfl

/-- **the searches of a model run satisfy the judge**, however many of them share a requester -/
theorem okResponses_run {k : Consts} (hk : ConstsOk k) {t : DevTree} (hw : WF t) (cfg : Cfg)
    (target : Str) (searches : List SearchIn) (ann : Option AnnIn) :
    okResponses (runCase k cfg target t searches ann) = true := by
  have hs : (runCase k cfg target t searches ann).searches = searches.map (runSearch k t) := rfl
  have hrs : (runCase k cfg target t searches ann).responses = searches.flatMap (sendsOf k cfg t) := rfl
  unfold okResponses
  rw [Bool.and_eq_true, Bool.and_eq_true]
  refine ⟨⟨?_, ?_⟩, ?_⟩
  · rw [List.all_eq_true]
    intro s hsm
    rw [hs] at hsm
    obtain ⟨i, _, rfl⟩ := List.mem_map.mp hsm
    by_cases hr : isMSearch i.req = true
    · have := (sendsOf_spec hk hw cfg target searches ann i hr).1
      simp [runSearch] at this ⊢
      right; simpa [runSearch] using this
    · simp only [Bool.or_eq_true, Bool.not_eq_true']; left
      simpa [runSearch] using hr
  · rw [List.all_eq_true]
    intro m hm
    rw [hrs] at hm
    obtain ⟨i, hi, hmi⟩ := List.mem_flatMap.mp hm
    by_cases hr : isMSearch i.req = true
    · obtain ⟨_, _, hall⟩ := sendsOf_spec hk hw cfg target searches ann i hr
      obtain ⟨_, _, h3, h4, h5, h6⟩ := hall m hmi
      simp only [Bool.or_eq_true, Bool.and_eq_true, beq_iff_eq, List.any_eq_true]
      right
      refine ⟨⟨⟨h3, by rw [h4]; rfl⟩, by rw [h5]; rfl⟩, runSearch k t i, ?_, h6⟩
      rw [hs]; exact List.mem_map.mpr ⟨i, hi, rfl⟩
    · have hr' : isMSearch i.req = false := by simpa using hr
      have : sendsOf k cfg t i = [] := by
        simp [sendsOf, answer_not_msearch k t i.time i.req i.sel hr']
      rw [this] at hmi; exact absurd hmi (by simp)
  · rw [List.all_eq_true]
    intro s hsm
    rw [hs] at hsm
    obtain ⟨i0, _, rfl⟩ := List.mem_map.mp hsm
    generalize hrq : (runSearch k t i0).requester = r
    by_cases hbad : ∃ j ∈ searches, j.requester = r ∧ isMSearch j.req = false
    · obtain ⟨j, hj, hjr, hjm⟩ := hbad
      simp only [Bool.or_eq_true, List.any_eq_true, Bool.and_eq_true, beq_iff_eq, Bool.not_eq_true']
      left
      exact ⟨runSearch k t j, by rw [hs]; exact List.mem_map.mpr ⟨j, hj, rfl⟩, hjr, hjm⟩
    · simp only [Bool.or_eq_true]; right
      have hgood : ∀ j ∈ searches.filter (·.requester == r), isMSearch j.req = true := by
        intro j hj
        have := List.mem_filter.mp hj
        cases hm : isMSearch j.req with
        | true => rfl
        | false => exact absurd ⟨j, this.1, by simpa using this.2, hm⟩ hbad
      unfold okRequester
      rw [hs, hrs, List.filter_map, filter_responses, List.map_map, List.map_flatMap]
      simp only [Function.comp_def]
      have hcore := okRequester_core (searches.filter (·.requester == r)) (fun i => i.time)
        (fun i => windowEnd (runSearch k t i))
        (fun i => expKeysL (runCase k cfg target t searches ann) (runSearch k t i))
        (fun i => (sendsOf k cfg t i).map fun m => (keyL m.st m.usn, m.time))
        (fun i hi => by
          have := (sendsOf_spec hk hw cfg target searches ann i (hgood i hi)).2.1
          simpa [List.map_map, Function.comp_def] using this)
        (fun i hi m hm => by
          obtain ⟨m', hm', rfl⟩ := List.mem_map.mp hm
          have := (sendsOf_spec hk hw cfg target searches ann i (hgood i hi)).2.2 m' hm'
          exact ⟨this.1, this.2.1⟩)
      simp only [runSearch] at hcore ⊢
      exact hcore

end Upnp.C13
