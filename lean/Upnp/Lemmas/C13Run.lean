/-
  C13 — lemmas towards `ok (runCase …) = true`: facts about the table's entries, the listener
  model on them, timing of `_on_data`, the announcer's cycle.
-/
import Upnp.Lemmas.C13Compose
import Upnp.Model.C13Run
namespace Upnp.C13

/-! ### timing of `_on_data` -/

structure ConstsOk (k : Consts) : Prop where
  guard : k.guardTruthy = false
  once : k.sendNowAlso = false
  lo : 0 ≤ k.jitterLo
  off : 0 ≤ k.jitterHiOff
  span : k.jitterLo + k.jitterHiOff < 1000
  ann : 0 < k.announceMs

/-- decidable form of `ConstsOk` (closed by `decide` on the generated constants) -/
def constsOk (k : Consts) : Bool :=
  !k.guardTruthy && !k.sendNowAlso && decide (0 ≤ k.jitterLo) && decide (0 ≤ k.jitterHiOff)
  && decide (k.jitterLo + k.jitterHiOff < 1000) && decide (0 < k.announceMs)

theorem ConstsOk.of_bool {k : Consts} (h : constsOk k = true) : ConstsOk k := by
  simp only [constsOk, Bool.and_eq_true, Bool.not_eq_true', decide_eq_true_eq] at h
  obtain ⟨⟨⟨⟨⟨h1, h2⟩, h3⟩, h4⟩, h5⟩, h6⟩ := h
  exact ⟨h1, h2, h3, h4, h5, h6⟩

theorem windowMs_nonneg (mx : Option Str) : 0 ≤ windowMs mx := by
  unfold windowMs
  split
  · exact Int.le_refl 0
  · split
    · split <;> omega
    · exact Int.le_refl 0

/-- when `_on_data` delays, the requester's MX is a positive integer at least as large as the delay -/
theorem delay_le_window {k : Consts} {mx : Option Str} (h : 0 < delayOf k mx) :
    delayOf k mx * 1000 ≤ windowMs mx := by
  unfold delayOf at h ⊢
  unfold windowMs
  cases mx with
  | none => simp at h
  | some s =>
    simp only at h ⊢
    cases hv : pyInt? s with
    | none => rw [hv] at h; simp at h
    | some v =>
      rw [hv] at h
      simp only at h ⊢
      have : min (Int.ofNat k.mxCap) v ≤ v := Int.min_le_right _ _
      have hv0 : 0 < v := by omega
      rw [if_pos hv0]; omega

theorem pickJitter_spec {lo hi : Int} (h : lo < hi) (sel : Option Nat) :
    ∃ j, pickJitter lo hi sel = some j ∧ lo ≤ j ∧ j < hi := by
  unfold pickJitter
  rw [if_neg (by omega)]
  cases sel with
  | none => exact ⟨hi - 1, rfl, by omega, by omega⟩
  | some n =>
    refine ⟨lo + (Int.ofNat n) % (hi - lo), rfl, ?_, ?_⟩
    · have := Int.emod_nonneg (Int.ofNat n) (b := hi - lo) (by omega); omega
    · have := Int.emod_lt_of_pos (Int.ofNat n) (b := hi - lo) (by omega); omega

/-- **once, in the window**: a well-formed M-SEARCH is answered with exactly the messages of
    `_build_responses`, each once, at a time inside `[now, now + MX]` -/
theorem answer_spec {k : Consts} (hk : ConstsOk k) (t : DevTree) (now : Int) (r : Req) (sel : Option Nat)
    (hr : isMSearch r = true) :
    ∃ sends, answer k t now r sel = some sends ∧
      sends.map (·.msg) = buildResponses t k.alwaysRoot (r.st.getD []) ∧
      ∀ s ∈ sends, now ≤ s.time ∧ s.time ≤ now + windowMs r.mx := by
  simp only [isMSearch, Bool.and_eq_true, beq_iff_eq] at hr
  have hcond : ¬ (r.line ≠ mSearchLine ∨ r.man ≠ some ssdpDiscover) := by
    rw [hr.1, hr.2]; simp
  unfold answer onData
  rw [if_neg hcond]
  simp only
  cases hb : buildResponses t k.alwaysRoot (r.st.getD []) with
  | nil => exact ⟨[], rfl, rfl, by simp⟩
  | cons m ms =>
    simp only [hk.guard, hk.once, Bool.false_eq_true, if_false]
    by_cases hd : delayOf k r.mx > 0
    · simp only [hd, decide_true, if_true]
      have hlt : k.jitterLo < delayOf k r.mx * 1000 - k.jitterHiOff := by
        have := hk.span; omega
      obtain ⟨j, hj, h1, h2⟩ := pickJitter_spec hlt sel
      refine ⟨(m :: ms).map fun m => ⟨now + j, m⟩, ?_, ?_, ?_⟩
      · simp [hj]
      · simp [List.map_map, Function.comp_def]
      · intro s hs
        simp only [List.mem_map] at hs
        obtain ⟨m', _, rfl⟩ := hs
        have hw := delay_le_window hd
        have := hk.lo; have := hk.off
        simp only
        omega
    · simp only [hd, decide_false, Bool.false_eq_true, if_false]
      refine ⟨(m :: ms).map fun m => ⟨now, m⟩, rfl, ?_, ?_⟩
      · simp [List.map_map, Function.comp_def]
      · intro s hs
        simp only [List.mem_map] at hs
        obtain ⟨m', _, rfl⟩ := hs
        have := windowMs_nonneg r.mx
        simp only
        omega

/-! ### one search of a model run satisfies the judge -/

theorem ne_nil_of_normKey {ci : Bool} {a b u v : Str} (h : normKey ci a u = normKey ci b v) (hb : b ≠ []) :
    a ≠ [] ∧ u = v := by
  unfold normKey at h
  simp only [Prod.mk.injEq] at h
  refine ⟨?_, h.2⟩
  cases ci with
  | false => simp only [Bool.false_eq_true, if_false] at h; rw [h.1]; exact hb
  | true =>
    simp only [if_true] at h
    intro ha; apply hb
    have := h.1; rw [ha] at this
    exact lower_nil_iff.mp this.symm

/-- every message `_build_responses` produces realises an entry of the table for that target -/
theorem response_entry {t : DevTree} (hw : WF t) (ar : Bool) (st : Str) {m : Msg}
    (hm : m ∈ buildResponses t ar st) :
    ∃ e ∈ (expected t ar st).1, ExpOk e ∧ m.usn = e.usn ∧ m.st ≠ [] ∧
      expKey (expected t ar st).2 e = msgKey (expected t ar st).2 m := by
  have hperm := dispatch_perm hw ar st
  have hkey : msgKey (expected t ar st).2 m ∈ (buildResponses t ar st).map (msgKey (expected t ar st).2) :=
    List.mem_map.mpr ⟨m, hm, rfl⟩
  obtain ⟨e, he, hek⟩ := List.mem_map.mp (hperm.mem_iff.mp hkey)
  have heok := expected_ok hw ar st e he
  obtain ⟨hst, husn⟩ := ne_nil_of_normKey (a := m.st) (u := m.usn) hek.symm heok.st
  exact ⟨e, he, heok, husn, hst, hek⟩

theorem okSearch_run {k : Consts} (hk : ConstsOk k) {t : DevTree} (hw : WF t) (cfg : Cfg)
    (hl : validLocation cfg.location = true) (target : Str) (searches : List SearchIn) (ann : Option AnnIn)
    (i : SearchIn) :
    okSearch (runCase k cfg target t searches ann) (runSearch k cfg t i) = true := by
  unfold okSearch
  by_cases hr : isMSearch i.req = true
  · obtain ⟨sends, hans, hmsgs, htime⟩ := answer_spec hk t i.time i.req i.sel hr
    have hperm := dispatch_perm hw k.alwaysRoot (i.req.st.getD [])
    simp only [runSearch, runCase, hans, Option.isNone_some, Option.getD_some, Bool.not_false, Bool.true_and,
      Bool.or_eq_true, Bool.not_eq_true']
    right
    rcases hE : expected t k.alwaysRoot (i.req.st.getD []) with ⟨exp, ci⟩
    rw [hE] at hperm
    simp only at hperm ⊢
    rw [Bool.and_eq_true]
    constructor
    · rw [List.isPerm_iff]
      simp only [List.map_map]
      rw [← hmsgs, List.map_map] at hperm
      exact hperm
    · rw [List.all_eq_true]
      intro m hm
      simp only [List.mem_map] at hm
      obtain ⟨s, hs, rfl⟩ := hm
      obtain ⟨ht1, ht2⟩ := htime s hs
      -- the table entry this message realises
      have hkey : msgKey ci s.msg ∈ (buildResponses t k.alwaysRoot (i.req.st.getD [])).map (msgKey ci) := by
        rw [← hmsgs, List.map_map]; exact List.mem_map.mpr ⟨s, hs, rfl⟩
      have hkey' := hperm.mem_iff.mp hkey
      obtain ⟨e, he, hek⟩ := List.mem_map.mp hkey'
      have heok : ExpOk e := by
        have := expected_ok hw k.alwaysRoot (i.req.st.getD []) e (by rw [hE]; exact he)
        exact this
      obtain ⟨hst, husn⟩ := ne_nil_of_normKey (a := s.msg.st) (u := s.msg.usn) hek.symm heok.st
      simp only [obsResponse, Bool.and_eq_true, beq_iff_eq, decide_eq_true_eq, List.any_eq_true, beq_self_eq_true,
        true_and, List.isEmpty_nil, and_true]
      refine ⟨⟨decide_eq_true ht1, decide_eq_true ht2⟩, e, he, ⟨hek, ?_⟩, ?_⟩
      · rw [husn]; exact heok.usn_prefix
      · rw [hearResponse_ok heok cfg husn hst hl]
        simp [heardOk]
  · simp only [runSearch, Bool.or_eq_true, Bool.not_eq_true']; left; simpa using hr

end Upnp.C13
