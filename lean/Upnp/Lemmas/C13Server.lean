/-
  C13 — lemmas about the server model: tree traversals, version matching against the spec's
  reading of `type:version`, the dispatch of `_build_responses` against the UDA table.
-/
import Upnp.Lemmas.C13Str
import Upnp.Spec.C13
namespace Upnp.C13

/-! ### tree traversals -/

mutual
theorem devicesMatchingUdn_eq (st : Str) : ∀ t : DevTree,
    devicesMatchingUdn st t = (allDevices t).filter (fun d => lower d.udn == st)
  | .node u ty s cs => by
    simp only [devicesMatchingUdn, allDevices, List.filter_cons, devicesMatchingUdnL_eq st cs]
    by_cases h : lower u = st <;> simp [h]
theorem devicesMatchingUdnL_eq (st : Str) : ∀ cs : List DevTree,
    devicesMatchingUdnL st cs = (allDevicesL cs).filter (fun d => lower d.udn == st)
  | [] => rfl
  | c :: cs => by
    simp only [devicesMatchingUdnL, allDevicesL, List.filter_append, devicesMatchingUdn_eq st c,
      devicesMatchingUdnL_eq st cs]
end

theorem root_mem_allDevices (t : DevTree) : (⟨t.udn, t.type, t.services⟩ : Dev) ∈ allDevices t := by
  cases t with
  | node u ty s cs => simp [allDevices, DevTree.udn, DevTree.type, DevTree.services]

theorem mem_allServices {t : DevTree} {s : Svc} :
    s ∈ allServices t ↔ ∃ d ∈ allDevices t, s.owner = d.udn ∧ s.type ∈ d.services := by
  simp only [allServices, List.mem_flatMap, List.mem_map]
  constructor
  · rintro ⟨d, hd, ty, hty, rfl⟩; exact ⟨d, hd, rfl, hty⟩
  · rintro ⟨d, hd, ho, hty⟩
    refine ⟨d, hd, s.type, hty, ?_⟩
    cases s; simp_all

/-! ### `type:version` -/

theorem typeParts_eq_some_iff {s b : Str} {v : Nat} :
    typeParts s = some (b, v) ↔ s = b ++ ':' :: decimal v := by
  constructor
  · intro h
    unfold typeParts at h
    cases hr : rsplitColon s with
    | none => rw [hr] at h; simp at h
    | some p =>
      obtain ⟨b', d⟩ := p
      rw [hr] at h
      simp only [Option.map_eq_some_iff, Prod.mk.injEq] at h
      obtain ⟨n, hn, rfl, rfl⟩ := h
      obtain ⟨e, _⟩ := rsplitColon_some hr
      rw [e, decimal_of_canonNat _ _ hn]
  · rintro rfl
    unfold typeParts
    rw [rsplitColon_append _ _ (colon_not_mem_decimal v)]
    simp [canonNat_decimal]

theorem append_colon_decimal_inj {b b' : Str} {v v' : Nat}
    (h : b ++ ':' :: decimal v = b' ++ ':' :: decimal v') : b = b' ∧ v = v' := by
  have h1 : typeParts (b ++ ':' :: decimal v) = some (b, v) := typeParts_eq_some_iff.mpr rfl
  have h2 : typeParts (b' ++ ':' :: decimal v') = some (b', v') := typeParts_eq_some_iff.mpr rfl
  rw [h, h2] at h1
  simp only [Option.some.injEq, Prod.mk.injEq] at h1
  exact ⟨h1.1.symm, h1.2.symm⟩

/-- the version loop of `_match_type_versions` -/
theorem matchTypeVersions_of_parts {ty b : Str} {w : Nat} (h : typeParts (lower ty) = some (b, w)) (st : Str) :
    matchTypeVersions ty st = true ↔ ∃ v, v ≤ w ∧ st = b ++ ':' :: decimal v := by
  unfold typeParts at h
  cases hr : rsplitColon (lower ty) with
  | none => rw [hr] at h; simp at h
  | some p =>
    obtain ⟨b', d⟩ := p
    rw [hr] at h
    simp only [Option.map_eq_some_iff, Prod.mk.injEq] at h
    obtain ⟨n, hn, rfl, rfl⟩ := h
    unfold matchTypeVersions
    simp only [hr, pyInt_of_canon hn, List.any_eq_true, List.mem_range, beq_iff_eq]
    constructor
    · rintro ⟨v, hv, e⟩; exact ⟨v, by omega, e.symm⟩
    · rintro ⟨v, hv, e⟩; exact ⟨v, by omega, e.symm⟩

/-- **version matching**: on a well-formed type the code's loop over versions `0..max` answers
    exactly "same type (ASCII case ignored), requested version ≤ offered version" -/
theorem matchTypeVersions_eq_typeMatches {ty : Str} (h : (typeParts (lower ty)).isSome) (st : Str) :
    matchTypeVersions ty (lower st) = typeMatches ty st := by
  obtain ⟨⟨b, w⟩, hp⟩ := Option.isSome_iff_exists.mp h
  rw [Bool.eq_iff_iff, matchTypeVersions_of_parts hp]
  unfold typeMatches
  rw [hp]
  cases hs : typeParts (lower st) with
  | none =>
    simp only [Bool.false_eq_true, iff_false, not_exists, not_and]
    intro v _ e
    rw [typeParts_eq_some_iff.mpr e] at hs
    simp at hs
  | some q =>
    obtain ⟨b', v⟩ := q
    have e := typeParts_eq_some_iff.mp hs
    simp only [Bool.and_eq_true, beq_iff_eq, decide_eq_true_eq]
    constructor
    · rintro ⟨v', hv', e'⟩
      rw [e] at e'
      obtain ⟨rfl, rfl⟩ := append_colon_decimal_inj e'
      exact ⟨rfl, hv'⟩
    · rintro ⟨rfl, hv⟩
      exact ⟨v, hv, e⟩

theorem typeMatches_base {ty st : Str} (h : typeMatches ty st = true) :
    ∃ b, baseOf ty = some b ∧ baseOf st = some b := by
  unfold typeMatches at h
  unfold baseOf
  cases h1 : typeParts (lower ty) with
  | none => rw [h1] at h; simp at h
  | some p =>
    cases h2 : typeParts (lower st) with
    | none => rw [h1, h2] at h; simp at h
    | some q =>
      rw [h1, h2] at h
      simp only [Bool.and_eq_true, beq_iff_eq] at h
      exact ⟨p.1, rfl, by simp [h.1]⟩

theorem typeMatches_ne_nil {ty st : Str} (h : typeMatches ty st = true) : lower st ≠ [] := by
  unfold typeMatches at h
  cases h2 : typeParts (lower st) with
  | none => rw [h2] at h; cases typeParts (lower ty) <;> simp at h
  | some q =>
    obtain ⟨b, v⟩ := q
    rw [typeParts_eq_some_iff.mp h2]; simp

end Upnp.C13
